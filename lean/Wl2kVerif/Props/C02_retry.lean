import Wl2kVerif.Proofs.RetryFinal
/-
C02 (last sentence) — "Repeating exchanges on the same mailboxes until one completes leaves every message delivered
exactly once and reported sent."  `retry_converges`, on the model: two WHOLE `exchange` programs per session (pair
system of `B2F/Pair.lean`), persistent mailboxes (`B2F/Mailboxes.lean`), any number of faulty sessions — each with ANY
cut of either stream, ANY storage error (`failAt`) and parse errors (`parseErr`) on either side, under ANY schedule,
stopped ANYWHERE — followed by one session without faults.

Vocabulary (`B2F/Mailboxes.lean`). A `Box` is what a station keeps between sessions: `outbox` (queued messages), `sent`
(MIDs moved to the sent folder), `inbox` ((MID, bytes) stored). `Box.handlerF b f`: the reference handler a session is
run with — it offers the outbox, answers '-' to a proposal whose MID the inbox already holds and '+' to every other one;
`f : Faults` = the storage error (`failAt`: the k-th `ProcessInbound` fails and stores nothing) and the parse verdicts
(`parseErr`) injected into this session; `Box.handler b = b.handlerF {}`. `Box.after midOf b s`: the mailbox read off the
side `s` of the pair system at any moment: outbox = the handler's (a `SetSent` call removes — with EITHER flag, as the Go
`DirHandler` does: a message the peer refused as already received goes to the sent folder too), `sent` grows by the MIDs
`SetSent` was called for, `inbox` by what the handler has STORED (the `ProcessInbound` calls that did not fail), filed
under `midOf bytes` (the MID inside the message; parsing is C09's domain, so `midOf` is a parameter, tied to the queued
messages by `QueueOK.mid`). `Reach`: the pair system as a transition relation (any schedule); `Final t`: nobody can move.
`Session … A B A' B'`: one session with master `A`, slave `B`, any cuts `limA`, `limB`, any faults `fA`, `fB`, stopped at
any reachable state, leaves the mailboxes `A'`, `B'`. `CleanSession`: no cut, no faults, run until `Final`. `Sessions`:
finitely many `Session`s in a row. `Inv QA QB A B` = `DirInv QA A B ∧ DirInv QB B A`, where `DirInv Q X Y` (X sends, Y
receives, `Q` = X's original queue) says: `X.outbox` is a sublist of `Q`; every message of `Q` is in `X.outbox` or its
MID in `X.sent`, not both; no MID twice in `X.sent`; every MID in `X.sent` is a message of `Q` that `Y.inbox` holds with
exactly the queued bytes; no MID twice in `Y.inbox`; every entry of `Y.inbox` is (MID, bytes) of a message of `Q`.

Hypotheses (`Proofs/RetryInv.lean`). `QueueOK midOf fuel Q`: every message of `Q` is `MsgOK'` (MID without blank/CR,
`|data| < 2^31`, compressed size < 2^63, Q-title without NUL and ≤ 252 bytes, fuel above line and frame lengths) and
`valid` (so it is proposed), `midOf msg.data = msg.mid`, and the MIDs of `Q` are distinct. `LinkOK cA cB fuel`: `cA`
master, `cB` slave, both with a handler (batched or not), block size 1..255, ≥ 1 proposal per block, well-formed handshake
strings (`HsWF`) and MOTD (`MotdOK`), fuel above both handshakes. Fuel: `4 * (|QA| + |QB|) + 7 ≤ fuel` (the bound of
`pair_delivers`).

NOT covered at mailbox level: mailboxes that defer ('='), a failing `Prepare`, invalid queued messages (they are never
proposed and stay queued), a "completing" session on a link that is cut after the last byte that matters (the completing
session is one without any cut and without handler errors). In `retry_converges` `A` is the master throughout;
`retry_converges_any_roles` lets the roles change from session to session. The pair-level theorems
(`rejected_implies_refused`, `handed_are_queued_once`, `sent_implies_stored`, `reported_once`) hold for reference handlers
with ANY plain static policy ('+', '-', '='), any `failAt` / `parseErr`.
Helpers: `Proofs/Retry{Gen,Send,Recv,Turns,Exch,Inv,Final}.lean`.
-/
namespace Wl2k.Props.C02
open Wl2k Wl2k.B2F

/-- **`rejected_implies_refused`.** Pair model of `Pair.lean`: two WHOLE `exchange` programs (master / slave), reference
handlers with ANY plain static answer policy, ANY schedule, ANY `limit` on either side. In every reachable state: if a side's
trace contains `SetSent(m, true)` (the message is dropped from the outbox as refused by the peer), then `m` is the MID of a
message in that side's outbox and the OTHER side's policy does answer '-' for `m` — a cut, a truncated or a stale answer line
never makes a sender drop a message the peer did not refuse. Hypotheses: `SideOK` (as in `sent_implies_received`) and distinct
MIDs in each outbox. -/
theorem rejected_implies_refused (cM cS : Cfg) (fuel : Nat) (hM hS : HState) (limM limS : Option Nat)
    (hmM : cM.hs.master = true) (hmS : cS.hs.master = false) (okM : SideOK cM fuel hM) (okS : SideOK cS fuel hS)
    (ndM : (hM.outbox.map (·.mid)).Nodup) (ndS : (hS.outbox.map (·.mid)).Nodup)
    (hfM : (hsBytesM cM).length < fuel) (hfS : (hsBytesS cS).length < fuel) {n : Nat} {t : Side × Side}
    (he : PairExec (initPair (exchange cM fuel) (exchange cS fuel) hM hS limM limS) n t) :
    (∀ m, Ev.called (.setSent m true) ∈ t.1.evs → ∃ msg ∈ hM.outbox, msg.mid = m ∧ hS.answerFor m = ansReject) ∧
    (∀ m, Ev.called (.setSent m true) ∈ t.2.evs → ∃ msg ∈ hS.outbox, msg.mid = m ∧ hM.answerFor m = ansReject) := by
  obtain ⟨a1, a2⟩ := pair_exchange_acct cM cS fuel hM hS limM limS hmM hmS okM okS ndM ndS hfM hfS he
  exact ⟨a1.1, a2.1⟩

/-- **`handed_are_queued_once`.** Same setting. In every reachable state, what a side's handler has been handed by
`ProcessInbound` so far (`procOf`: the payloads, in call order) are the exact bytes of DISTINCT messages `L` of the OTHER
side's outbox that the policy accepts: nothing invented, nothing altered, nothing handed over twice within a session — also
when the session is cut anywhere, including between a frame and its confirmation. -/
theorem handed_are_queued_once (cM cS : Cfg) (fuel : Nat) (hM hS : HState) (limM limS : Option Nat)
    (hmM : cM.hs.master = true) (hmS : cS.hs.master = false) (okM : SideOK cM fuel hM) (okS : SideOK cS fuel hS)
    (ndM : (hM.outbox.map (·.mid)).Nodup) (ndS : (hS.outbox.map (·.mid)).Nodup)
    (hfM : (hsBytesM cM).length < fuel) (hfS : (hsBytesS cS).length < fuel) {n : Nat} {t : Side × Side}
    (he : PairExec (initPair (exchange cM fuel) (exchange cS fuel) hM hS limM limS) n t) :
    (∃ L : List OutMsg, procOf t.2.evs = L.map (·.data) ∧
      (∀ msg ∈ L, msg ∈ hM.outbox ∧ hS.answerFor msg.mid = ansAccept) ∧ (L.map (·.mid)).Nodup) ∧
    (∃ L : List OutMsg, procOf t.1.evs = L.map (·.data) ∧
      (∀ msg ∈ L, msg ∈ hS.outbox ∧ hM.answerFor msg.mid = ansAccept) ∧ (L.map (·.mid)).Nodup) := by
  obtain ⟨a1, a2⟩ := pair_exchange_acct cM cS fuel hM hS limM limS hmM hmS okM okS ndM ndS hfM hfS he
  exact ⟨a1.2.1, a2.2.1⟩

/-- **`sent_implies_stored`** — `sent_implies_received` with a handler whose storage can fail. Same setting (in particular ANY
`failAt` / `parseErr` in either handler). In every reachable state: if a side's trace contains `SetSent(m, false)`, then `m` is
the MID of a message in that side's outbox whose queued bytes ARE IN THE INBOX of the other side's handler (`t.2.h.inbox` is
the inbox the run started with plus the payloads of the `ProcessInbound` calls that did not fail): a storage error never lets
the sender mark the message sent. -/
theorem sent_implies_stored (cM cS : Cfg) (fuel : Nat) (hM hS : HState) (limM limS : Option Nat)
    (hmM : cM.hs.master = true) (hmS : cS.hs.master = false) (okM : SideOK cM fuel hM) (okS : SideOK cS fuel hS)
    (ndM : (hM.outbox.map (·.mid)).Nodup) (ndS : (hS.outbox.map (·.mid)).Nodup)
    (hfM : (hsBytesM cM).length < fuel) (hfS : (hsBytesS cS).length < fuel) {n : Nat} {t : Side × Side}
    (he : PairExec (initPair (exchange cM fuel) (exchange cS fuel) hM hS limM limS) n t) :
    (∀ m, Ev.called (.setSent m false) ∈ t.1.evs → ∃ msg ∈ hM.outbox, msg.mid = m ∧ msg.data ∈ t.2.h.inbox) ∧
    (∀ m, Ev.called (.setSent m false) ∈ t.2.evs → ∃ msg ∈ hS.outbox, msg.mid = m ∧ msg.data ∈ t.1.h.inbox) := by
  obtain ⟨a1, a2⟩ := pair_exchange_acct cM cS fuel hM hS limM limS hmM hmS okM okS ndM ndS hfM hfS he
  obtain ⟨r1, r2⟩ := pair_replay _ _ hM hS limM limS he
  rw [r1, r2]
  exact ⟨a1.2.2.2, a2.2.2.2⟩

/-- **`reported_once`.** Same setting. In every reachable state, the MIDs of the `SetSent` calls of a side's trace — with
either flag, in call order (`repOf`) — are DISTINCT and each is the MID of a message of that side's outbox: no message is
reported (confirmed or refused) twice within a session, nothing is reported that was not queued. -/
theorem reported_once (cM cS : Cfg) (fuel : Nat) (hM hS : HState) (limM limS : Option Nat)
    (hmM : cM.hs.master = true) (hmS : cS.hs.master = false) (okM : SideOK cM fuel hM) (okS : SideOK cS fuel hS)
    (ndM : (hM.outbox.map (·.mid)).Nodup) (ndS : (hS.outbox.map (·.mid)).Nodup)
    (hfM : (hsBytesM cM).length < fuel) (hfS : (hsBytesS cS).length < fuel) {n : Nat} {t : Side × Side}
    (he : PairExec (initPair (exchange cM fuel) (exchange cS fuel) hM hS limM limS) n t) :
    ((repOf t.1.evs).Nodup ∧ ∀ m ∈ repOf t.1.evs, m ∈ hM.outbox.map (·.mid)) ∧
    ((repOf t.2.evs).Nodup ∧ ∀ m ∈ repOf t.2.evs, m ∈ hS.outbox.map (·.mid)) := by
  obtain ⟨a1, a2⟩ := pair_exchange_acct cM cS fuel hM hS limM limS hmM hmS okM okS ndM ndS hfM hfS he
  exact ⟨a1.2.2.1, a2.2.2.1⟩

/-- **The handler state is a function of the trace**, in every reachable state of every pair run (any programs, any cuts):
`replay h evs` = `hstep` folded over the calls of `evs`. So outbox and inbox of a side can be read off its trace: the outbox
is the initial one minus the MIDs `SetSent` was called for, the inbox (no storage error configured) the initial one plus the
`ProcessInbound` payloads. -/
theorem handler_is_replay (PA PB : Proc Result) (hA hB : HState) (limA limB : Option Nat) {n : Nat} {t : Side × Side}
    (he : PairExec (initPair PA PB hA hB limA limB) n t) :
    (t.1.h = replay hA t.1.evs ∧ t.2.h = replay hB t.2.evs) ∧
    (∀ (h : HState) (evs : List Ev), (replay h evs).outbox = h.outbox.filter fun msg => !(repOf evs).contains msg.mid) ∧
    (∀ (h : HState) (evs : List Ev), h.failAt = none → (replay h evs).inbox = h.inbox ++ procOf evs) :=
  ⟨pair_replay PA PB hA hB limA limB he, replay_outbox, fun h evs hf => replay_inbox h hf evs⟩

/-- the transition relation of the specification is the reachability of the pair system the other theorems speak of -/
theorem reach_iff_exec (s t : Side × Side) : Reach s t ↔ ∃ n, PairExec s n t :=
  ⟨exec_of_reach, fun ⟨_, h⟩ => reach_of_exec h⟩

/-- … and `Final` is its terminality -/
theorem final_iff_terminal (t : Side × Side) : Final t ↔ PairTerminal t := ⟨terminal_of_final, final_of_terminal⟩

/-- **`faulty_session_preserves_inv`.** ANY session — any cut of either stream, any storage / parse errors, any schedule,
stopped at any reachable state: completed, failed, hung or aborted — leaves mailboxes that satisfy `Inv` again. In particular
after any faulty session: whatever is in a sent folder is in the peer's inbox with the queued bytes (`sent_implies_stored` for
accepted messages, `rejected_implies_refused` for refused ones), no MID is twice in an inbox (`handed_are_queued_once`; a MID the inbox holds
is refused, and a refused proposal is not fetched), nothing is lost (every original message is still queued or in the sent
folder) and nothing is invented. -/
theorem faulty_session_preserves_inv (midOf : Bytes → Bytes) (cA cB : Cfg) (fuel : Nat) (QA QB : List OutMsg)
    (A B A' B' : Box) (lk : LinkOK cA cB fuel) (hQA : QueueOK midOf fuel QA) (hQB : QueueOK midOf fuel QB)
    (hfuel : 4 * (QA.length + QB.length) + 7 ≤ fuel) (inv : Inv QA QB A B) (hs : Session midOf cA cB fuel A B A' B') :
    Inv QA QB A' B' :=
  session_inv midOf cA cB fuel QA QB A B A' B' lk hQA hQB hfuel inv hs

/-- … hence any finite number of them in a row, starting from the fresh mailboxes (`inv_init`) or from any mailboxes that
satisfy `Inv` -/
theorem sessions_preserve_inv (midOf : Bytes → Bytes) (cA cB : Cfg) (fuel : Nat) (QA QB : List OutMsg)
    (A B A' B' : Box) (lk : LinkOK cA cB fuel) (hQA : QueueOK midOf fuel QA) (hQB : QueueOK midOf fuel QB)
    (hfuel : 4 * (QA.length + QB.length) + 7 ≤ fuel) (inv : Inv QA QB A B) (hs : Sessions midOf cA cB fuel A B A' B') :
    Inv QA QB A' B' :=
  sessions_inv midOf cA cB fuel QA QB A B A' B' lk hQA hQB hfuel inv hs

/-- **`clean_session_completes`.** From mailboxes that satisfy `Inv` (e.g. after any number of faulty sessions): a session
without faults (no cut, no storage or parse error) that runs until nobody can move EXISTS; in every such session — any schedule — both `Exchange` calls return
without error (no deadlock, no fuel panic), and afterwards both outboxes are EMPTY (each remaining message was either delivered
now, or refused because an earlier, unconfirmed session had delivered it already: both ways it is in the sent folder) and
`Inv` holds again. -/
theorem clean_session_completes (midOf : Bytes → Bytes) (cA cB : Cfg) (fuel : Nat) (QA QB : List OutMsg) (A B : Box)
    (lk : LinkOK cA cB fuel) (hQA : QueueOK midOf fuel QA) (hQB : QueueOK midOf fuel QB)
    (hfuel : 4 * (QA.length + QB.length) + 7 ≤ fuel) (inv : Inv QA QB A B) :
    (∃ A' B', CleanSession midOf cA cB fuel A B A' B') ∧
    (∀ t, Reach (sessionStart cA cB fuel A B {} {} none none) t → Final t →
      ∃ rA rB : Result, t.1.ended = some (.done rA) ∧ t.2.ended = some (.done rB) ∧ rA.err = .nil ∧ rB.err = .nil) ∧
    (∀ A' B', CleanSession midOf cA cB fuel A B A' B' → A'.outbox = [] ∧ B'.outbox = [] ∧ Inv QA QB A' B') := by
  refine ⟨clean_exists midOf cA cB fuel QA QB A B lk hQA hQB hfuel inv,
    fun t hr hf => clean_returns midOf cA cB fuel QA QB A B lk hQA hQB hfuel inv t hr hf, ?_⟩
  intro A' B' hc
  obtain ⟨h1, h2⟩ := clean_outboxes midOf cA cB fuel QA QB A B A' B' lk hQA hQB hfuel inv hc
  exact ⟨h1, h2, session_inv midOf cA cB fuel QA QB A B A' B' lk hQA hQB hfuel inv
    (clean_is_session midOf cA cB fuel A B A' B' hc)⟩

/-- **`retry_converges`** (C02, last sentence). Station `A` (master) starts with the queue `QA`, station `B` (slave) with
`QB`, both with empty sent folder and inbox. After ANY finite number of sessions — each with any cut of either stream, any
storage error and parse errors on either side, under any schedule, stopped at any reachable state — followed by ONE session
without faults run to its end (which exists and returns without error on both sides: `clean_session_completes`):
* both outboxes are empty and each station's sent folder is a PERMUTATION of the MIDs of its original queue — EVERY queued
  message is "reported sent", ONCE, and nothing else is: `SetSent` was called for it, with `rejected = false` in the session
  that saw the delivery confirmed, or with `rejected = true` in a later session, when the peer refused it because an earlier,
  unconfirmed session had already delivered it;
* `B`'s inbox is a PERMUTATION of `QA` as (MID, bytes) and `A`'s of `QB` — every queued message is there EXACTLY ONCE (the
  MIDs of a queue are distinct), with IDENTICAL bytes, and nothing else is. -/
theorem retry_converges (midOf : Bytes → Bytes) (cA cB : Cfg) (fuel : Nat) (QA QB : List OutMsg) (A₁ B₁ A₂ B₂ : Box)
    (lk : LinkOK cA cB fuel) (hQA : QueueOK midOf fuel QA) (hQB : QueueOK midOf fuel QB)
    (hfuel : 4 * (QA.length + QB.length) + 7 ≤ fuel)
    (hfaulty : Sessions midOf cA cB fuel { outbox := QA } { outbox := QB } A₁ B₁)
    (hclean : CleanSession midOf cA cB fuel A₁ B₁ A₂ B₂) :
    A₂.outbox = [] ∧ B₂.outbox = [] ∧
    A₂.sent.Perm (QA.map (·.mid)) ∧ B₂.sent.Perm (QB.map (·.mid)) ∧
    B₂.inbox.Perm (QA.map fun m => (m.mid, m.data)) ∧ A₂.inbox.Perm (QB.map fun m => (m.mid, m.data)) := by
  have inv1 := sessions_inv midOf cA cB fuel QA QB _ _ A₁ B₁ lk hQA hQB hfuel (inv_init QA QB) hfaulty
  obtain ⟨hA, hB⟩ := clean_outboxes midOf cA cB fuel QA QB A₁ B₁ A₂ B₂ lk hQA hQB hfuel inv1 hclean
  have inv2 := session_inv midOf cA cB fuel QA QB A₁ B₁ A₂ B₂ lk hQA hQB hfuel inv1
    (clean_is_session midOf cA cB fuel A₁ B₁ A₂ B₂ hclean)
  obtain ⟨s1, p1⟩ := dirInv_done midOf fuel QA A₂ B₂ hQA inv2.1 hA
  obtain ⟨s2, p2⟩ := dirInv_done midOf fuel QB B₂ A₂ hQB inv2.2 hB
  exact ⟨hA, hB, s1, s2, p1, p2⟩

/-- **`retry_converges`, either station the master in each session** (`SessionE`, `SessionsE`, `CleanSessionE`: `cA`, `cB` are the
configurations used when `A` is the master, `dB`, `dA` those used when `B` is; `LinkOK` for both pairs). Same conclusion. -/
theorem retry_converges_any_roles (midOf : Bytes → Bytes) (cA cB dB dA : Cfg) (fuel : Nat) (QA QB : List OutMsg)
    (A₁ B₁ A₂ B₂ : Box) (lk : LinkOK cA cB fuel) (lk' : LinkOK dB dA fuel)
    (hQA : QueueOK midOf fuel QA) (hQB : QueueOK midOf fuel QB) (hfuel : 4 * (QA.length + QB.length) + 7 ≤ fuel)
    (hfaulty : SessionsE midOf cA cB dB dA fuel { outbox := QA } { outbox := QB } A₁ B₁)
    (hclean : CleanSessionE midOf cA cB dB dA fuel A₁ B₁ A₂ B₂) :
    A₂.outbox = [] ∧ B₂.outbox = [] ∧
    A₂.sent.Perm (QA.map (·.mid)) ∧ B₂.sent.Perm (QB.map (·.mid)) ∧
    B₂.inbox.Perm (QA.map fun m => (m.mid, m.data)) ∧ A₂.inbox.Perm (QB.map fun m => (m.mid, m.data)) := by
  have inv1 := sessionsE_inv midOf cA cB dB dA fuel QA QB _ _ A₁ B₁ lk lk' hQA hQB hfuel (inv_init QA QB) hfaulty
  obtain ⟨hA, hB, inv2⟩ := cleanE_outboxes midOf cA cB dB dA fuel QA QB A₁ B₁ A₂ B₂ lk lk' hQA hQB hfuel inv1 hclean
  obtain ⟨s1, p1⟩ := dirInv_done midOf fuel QA A₂ B₂ hQA inv2.1 hA
  obtain ⟨s2, p2⟩ := dirInv_done midOf fuel QB B₂ A₂ hQB inv2.2 hB
  exact ⟨hA, hB, s1, s2, p1, p2⟩

/-- … and the sent folders hold nothing else, nor anything the peer does not have: every MID in a sent folder — at the end
and after every faulty session on the way — is an original message that the peer's inbox holds byte-identically -/
theorem retry_sent_is_received (midOf : Bytes → Bytes) (cA cB : Cfg) (fuel : Nat) (QA QB : List OutMsg) (A₁ B₁ : Box)
    (lk : LinkOK cA cB fuel) (hQA : QueueOK midOf fuel QA) (hQB : QueueOK midOf fuel QB)
    (hfuel : 4 * (QA.length + QB.length) + 7 ≤ fuel)
    (hfaulty : Sessions midOf cA cB fuel { outbox := QA } { outbox := QB } A₁ B₁) :
    (∀ m ∈ A₁.sent, ∃ msg ∈ QA, msg.mid = m ∧ (m, msg.data) ∈ B₁.inbox) ∧
    (∀ m ∈ B₁.sent, ∃ msg ∈ QB, msg.mid = m ∧ (m, msg.data) ∈ A₁.inbox) ∧
    (A₁.inbox.map (·.1)).Nodup ∧ (B₁.inbox.map (·.1)).Nodup := by
  have inv1 := sessions_inv midOf cA cB fuel QA QB _ _ A₁ B₁ lk hQA hQB hfuel (inv_init QA QB) hfaulty
  exact ⟨inv1.1.recd, inv1.2.recd, inv1.2.nodup, inv1.1.nodup⟩

/-! ### non-vacuity: a two-session history, evaluated by the kernel

The one-message instance of `Proofs/WholeInst.lean` (`Ex1`: master `cM`, slave `cS`, the slave queues `msg1` with MID "AB" and
an empty body). Session 1: the stream TOWARDS THE SLAVE is cut after 39 bytes — the master's handshake (34 bytes) and its
answer line `FS +\r`; the slave sends the frame and then finds the link dead where it expects the master's next command, so it
reports nothing sent; the master HAS stored the message. Session 2, fault-free: the slave proposes the message again, the
master's mailbox refuses it (`FS -`), the slave calls `SetSent("AB", true)`. -/
open Wl2k.B2F.Ex1 Wl2k.B2F.ExRetry

/-- the hypotheses of `retry_converges` hold for the instance (`ExRetry.link_ok`, `queue_A`, `queue_B`), the two runs are a
`Session` and a `CleanSession` (`ExRetry.session1`, `session2`: `pairRun`'s outcome is a reachable state, and in `run2` both
sides have returned), so the theorem applies: -/
example : boxA2.outbox = [] ∧ boxB2.outbox = [] ∧
    boxA2.sent.Perm (([] : List OutMsg).map (·.mid)) ∧ boxB2.sent.Perm ([msg1].map (·.mid)) ∧
    boxB2.inbox.Perm (([] : List OutMsg).map fun m => (m.mid, m.data)) ∧ boxA2.inbox.Perm ([msg1].map fun m => (m.mid, m.data)) :=
  retry_converges midAB cM cS 200 [] [msg1] boxA1 boxB1 boxA2 boxB2 link_ok queue_A queue_B (by decide)
    (Sessions.more _ _ _ _ _ _ session1 (Sessions.none _ _)) session2

/-! … and what it says is what the kernel computes: -/

/-- session 1: both sides report a lost connection; the master's inbox HAS the message, the slave's
outbox still has it too and its sent folder is empty — delivered, not confirmed -/
example : boxA1.inbox = [([65, 66], [])] ∧ boxB1.outbox = [msg1] ∧ boxB1.sent = [] ∧
    (match run1.1.ended, run1.2.ended with
      | some (.done rA), some (.done rB) => rA.err == .connLost && rB.err == .connLost && rB.sent == []
      | _, _ => false) = true := by decide +kernel

/-- session 2: both sides return without error; the message is refused as a duplicate
(`SetSent("AB", true)`), the master's inbox has it ONCE, the slave's outbox is empty, its sent folder has the MID -/
example : boxA2.inbox = [([65, 66], [])] ∧ boxB2.outbox = [] ∧ boxB2.sent = [[65, 66]] ∧ boxA2.sent = [] ∧ boxB2.inbox = [] ∧
    Ev.called (.setSent [65, 66] true) ∈ run2.2.evs ∧
    (match run2.1.ended, run2.2.ended with
      | some (.done rA), some (.done rB) => rA.err == .nil && rB.err == .nil
      | _, _ => false) = true := by decide +kernel

/-- a storage failure instead of a cut (`ExRetry.session1f`: no cut, the master's first `ProcessInbound` reports an error): the
master has been HANDED the message (`ProcessInbound` is in its trace) but has stored nothing; it reports the error, the slave
reports nothing sent and keeps the message queued — `sent_implies_stored`, not just `sent_implies_received` -/
example : Ev.called (.processInbound []) ∈ run1f.1.evs ∧ boxA1f.inbox = [] ∧ boxB1f.outbox = [msg1] ∧ boxB1f.sent = [] ∧
    (match run1f.1.ended with
      | some (.done rA) => rA.err == .other && rA.what == "process-inbound-failed"
      | _ => false) = true := by decide +kernel

/-- without the cut the first session delivers and confirms at once (`SetSent("AB", false)`) -/
example : (boxA0.after midAB (pairRun cM cS boxA0.handler boxB0.handler none none 200).1).inbox = [([65, 66], [])] ∧
    (boxB0.after midAB (pairRun cM cS boxA0.handler boxB0.handler none none 200).2).outbox = [] ∧
    (boxB0.after midAB (pairRun cM cS boxA0.handler boxB0.handler none none 200).2).sent = [[65, 66]] := by decide +kernel

end Wl2k.Props.C02
