import Wl2kVerif.Proofs.HsOrder
import Wl2kVerif.Props.C16
/-
C16 / C05 — the handshake reader keeps the LAST line of each kind, in every order; a `;PQ` challenge is a
challenge whatever its text ends in; and the challenge that is answered with `;PR:` is the last one.

Vocabulary (definitions in `Proofs/HsOrder.lean`, all on byte strings):
* `joinCR ls`        the lines `ls`, each followed by CR (13) — what the remote sends;
* `cleanLine l`      = `cleanString (l ++ [13])`: what the line reader (`ReadString('\r')` + `cleanString`:
                     `strings.TrimSpace`, then one leading and one trailing NUL removed) hands to the loop
                     for the raw line `l`. ALL classification below is on `cleanLine l`, exactly as in the
                     code; `cleanLine_solid` says `cleanLine l = l` when `l` starts and ends with a solid
                     byte (ASCII, not white space, not NUL);
* `isSID x`          (model, `B2F/Wire.lean`) `x` starts with '[' and ends with ']';
* `isFW x`, `isPQ x` `x` starts with `;FW` / `;PQ` (three bytes, as `strings.HasPrefix` in the source);
* `isPrompt x`       `x` ends in '>' and is none of the three above — the ONLY thing that ends a slave's loop;
* `lineErr x`        the error a malformed line raises (`bad_line_cases` lists the four ways), `none` if fine;
* `sidOf x`          the feature field `parseSID` finds (upper-cased), `fwOf x` the addresses `parseFW` finds
                     (`good_line_values`), and the challenge text is `x.drop 5`;
* `lastWhere p xs`   = `(xs.filter p).getLast?`: the last element of `xs` satisfying `p`;
* `firstOf l`        the first byte of the CR-terminated line `l` (what `Peek(1)` sees); `peeksOf ls` the
                     peek events for the lines `ls` — the only events `readHandshake` produces.
-/
namespace Wl2k.Props.C16
open Wl2k Wl2k.Str Wl2k.Secure Wl2k.B2F Wl2k.B2F.HsOrder

/-- **The vocabulary, unfolded** (every equation holds by definition): what the words used in the theorems
of this file mean in terms of the model's own functions and of plain list operations. -/
theorem vocabulary (l x : Bytes) (ls xs : List Bytes) (p : Bytes → Bool) :
    cleanLine l = cleanString (l ++ [13]) ∧
    joinCR ls = (ls.map (· ++ [13])).flatten ∧
    isFW x = (sb ";FW").isPrefixOf x ∧
    isPQ x = (sb ";PQ").isPrefixOf x ∧
    isPrompt x = (!isSID x && !isFW x && !isPQ x && x.getLast? == some 62) ∧
    sidOf x = (parseSID x).getD [] ∧
    fwOf x = (parseFW x).getD [] ∧
    lastWhere p xs = (xs.filter p).getLast? ∧
    firstOf l = l.headD 13 ∧
    peeksOf ls = (ls.map fun l => Ev.peeked (firstOf l)).reverse :=
  ⟨rfl, rfl, rfl, rfl, rfl, rfl, rfl, rfl, rfl, rfl⟩

/-! ### (1) the last line of each kind, in any order -/

/-- **`readHandshake` returns the last line of each kind, whatever the order.**
For EVERY handler, role (`master`), line fuel `fuel`, loop fuel `n`, initial data `d0` (the session starts
with `{}`), EVERY list of raw lines `ls`, prompt line `p` and rest `r`, if
* (lexical) no line of `ls` nor `p` contains a CR, each is shorter than `fuel`, there are fewer than `n`
  lines in `ls`, and — only for a master, whose loop also ends at a line starting with 'F' — none of them
  starts with 'F' (for a slave, `master = false`, this hypothesis is vacuous);
* no line of `ls` is malformed (`lineErr … = none`) and none of them is a prompt (`isPrompt … = false`: a
  line ending in '>' is allowed in `ls` if it is a SID, `;FW…` or `;PQ…` line);
* `p` is a prompt (ends in '>', not a SID / `;FW…` / `;PQ…` line);

then running `readHandshake` on `ls` joined with CRs, `p`, CR, `r` ends OK, leaves exactly `r` unread, does
nothing but peek at the first byte of each line, and returns the data whose
* `sid` is the feature field of the LAST SID line of `ls` (or `d0.sid` if there is none),
* `fw` are the addresses of the LAST `;FW…` line (or `d0.fw`),
* `challenge` is the text `x.drop 5` of the LAST `;PQ…` line `x` (or `d0.challenge`).

Each component looks only at the lines of its own kind: the order in which lines of different kinds arrive,
and whatever comment / banner lines stand between them, do not matter (`handshake_order_independent`).
This excludes both seeded defects: a prompt test placed before the `;PQ` test (2 below), and a SID case
that clears the challenge (3 below). -/
theorem handshake_is_last_of_each_kind {H : Type} (hstep : H → Call → H × Reply) (master : Bool) (fuel n : Nat)
    (d0 : HsData) (ls : List Bytes) (p r : Bytes) (h : H) (tr : List Ev)
    (hcr : ∀ l ∈ ls ++ [p], (13 : UInt8) ∉ l)
    (hlen : ∀ l ∈ ls ++ [p], l.length < fuel)
    (hn : ls.length < n)
    (hF : master = true → ∀ l ∈ ls ++ [p], firstOf l ≠ 70)
    (hgood : ∀ l ∈ ls, lineErr (cleanLine l) = none)
    (hgo : ∀ l ∈ ls, isPrompt (cleanLine l) = false)
    (hp : isPrompt (cleanLine p) = true) :
    Proc.run hstep (readHandshake master fuel n d0) (joinCR ls ++ p ++ 13 :: r) h tr =
      (.done (.ok
        { sid := match lastWhere isSID (ls.map cleanLine) with | some x => sidOf x | none => d0.sid
          fw := match lastWhere isFW (ls.map cleanLine) with | some x => fwOf x | none => d0.fw
          challenge := match lastWhere isPQ (ls.map cleanLine) with | some x => x.drop 5 | none => d0.challenge }),
       r, h, .peeked (firstOf p) :: peeksOf ls ++ tr) := by
  have hok : ∀ l ∈ ls ++ [p], LineOK master fuel l := fun l hl =>
    ⟨hcr l hl, hlen l hl, fun ⟨e1, e2⟩ => hF e2 l hl e1⟩
  exact run_lines_prompt hstep master fuel n d0 ls p r h tr (fun l hl => hok l (by simp [hl])) (hok p (by simp)) hn
    (fun l hl => ⟨hgood l hl, hgo l hl⟩) hp

/-- **The master's side** (same proof): the same lines followed, instead of a prompt, by anything starting
with 'F' (the slave's first protocol command): OK with the same "last of each kind" data; the 'F…' bytes are
left unread (only peeked at). Hypotheses as above, with `master = true`. -/
theorem handshake_is_last_of_each_kind_master {H : Type} (hstep : H → Call → H × Reply) (fuel n : Nat)
    (d0 : HsData) (ls : List Bytes) (r : Bytes) (h : H) (tr : List Ev)
    (hcr : ∀ l ∈ ls, (13 : UInt8) ∉ l)
    (hlen : ∀ l ∈ ls, l.length < fuel)
    (hn : ls.length < n)
    (hF : ∀ l ∈ ls, firstOf l ≠ 70)
    (hgood : ∀ l ∈ ls, lineErr (cleanLine l) = none)
    (hgo : ∀ l ∈ ls, isPrompt (cleanLine l) = false) :
    Proc.run hstep (readHandshake true fuel n d0) (joinCR ls ++ 70 :: r) h tr =
      (.done (.ok
        { sid := match lastWhere isSID (ls.map cleanLine) with | some x => sidOf x | none => d0.sid
          fw := match lastWhere isFW (ls.map cleanLine) with | some x => fwOf x | none => d0.fw
          challenge := match lastWhere isPQ (ls.map cleanLine) with | some x => x.drop 5 | none => d0.challenge }),
       70 :: r, h, .peeked 70 :: peeksOf ls ++ tr) :=
  run_lines_F hstep fuel n d0 ls r h tr (fun l hl => ⟨hcr l hl, hlen l hl, fun ⟨e1, _⟩ => hF l hl e1⟩) hn
    (fun l hl => ⟨hgood l hl, hgo l hl⟩)

/-- **Error cases: the loop aborts at the FIRST malformed line.** Lines `ls` as in
`handshake_is_last_of_each_kind` (none malformed, none a prompt), then a line `b` that is malformed with
error `e` (`lineErr (cleanLine b) = some e`), then anything `r`: `readHandshake` returns the error `e`, and
`r` — everything after the offending line — is left unread. What the lines before `b` said is discarded
(the Go code returns the partial data next to the error; `handshake` drops it). -/
theorem handshake_aborts_at_first_bad_line {H : Type} (hstep : H → Call → H × Reply) (master : Bool) (fuel n : Nat)
    (d0 : HsData) (ls : List Bytes) (b r : Bytes) (e : SErr) (h : H) (tr : List Ev)
    (hcr : ∀ l ∈ ls ++ [b], (13 : UInt8) ∉ l)
    (hlen : ∀ l ∈ ls ++ [b], l.length < fuel)
    (hn : ls.length < n)
    (hF : master = true → ∀ l ∈ ls ++ [b], firstOf l ≠ 70)
    (hgood : ∀ l ∈ ls, lineErr (cleanLine l) = none)
    (hgo : ∀ l ∈ ls, isPrompt (cleanLine l) = false)
    (hb : lineErr (cleanLine b) = some e) :
    Proc.run hstep (readHandshake master fuel n d0) (joinCR ls ++ b ++ 13 :: r) h tr =
      (.done (.error e), r, h, .peeked (firstOf b) :: peeksOf ls ++ tr) := by
  have hok : ∀ l ∈ ls ++ [b], LineOK master fuel l := fun l hl =>
    ⟨hcr l hl, hlen l hl, fun ⟨e1, e2⟩ => hF e2 l hl e1⟩
  exact run_lines_err hstep master fuel n d0 ls b r e h tr (fun l hl => hok l (by simp [hl])) (hok b (by simp)) hn
    (fun l hl => ⟨hgood l hl, hgo l hl⟩) hb

/-- **What "malformed" means** — the four error returns of the loop, for a cleaned line `x`:
a SID line (`[…]`) in which the regexp `\[.*-(.*)\]` finds nothing ("bad-sid"); a SID line whose feature field
does not contain "B2" ("no-fb2", `ErrNoFB2`); a `;FW…` line that does not start with the five bytes `;FW: `
("malformed-fw"); a `;PQ…` line shorter than 5 bytes, i.e. `;PQ` or `;PQ` + one byte ("malformed-pq"). -/
theorem bad_line_cases (x : Bytes) (e : SErr) (h : lineErr x = some e) :
    (isSID x = true ∧ parseSID x = none ∧ e = .proto "bad-sid") ∨
    (isSID x = true ∧ (∃ s, parseSID x = some s ∧ containsSub s (sb "B2") = false) ∧ e = .proto "no-fb2") ∨
    (isFW x = true ∧ fwPrefix.isPrefixOf x = false ∧ e = .proto "malformed-fw") ∨
    (isPQ x = true ∧ x.length < 5 ∧ e = .proto "malformed-pq") :=
  bad_cases h

/-- **What a well-formed line says**, for a cleaned line `x` with `lineErr x = none`: a SID line parses, its
feature field `sidOf x` contains "B2" (so it is not empty); a `;FW…` line starts with `;FW: ` and `fwOf x` is
the address of each blank-separated field after it (what precedes a '|'); a `;PQ…` line has at least 5 bytes. -/
theorem good_line_values (x : Bytes) (h : lineErr x = none) :
    (isSID x = true → parseSID x = some (sidOf x) ∧ containsSub (sidOf x) (sb "B2") = true ∧ sidOf x ≠ []) ∧
    (isFW x = true → fwPrefix.isPrefixOf x = true ∧
      fwOf x = (splitOn 32 (x.drop 5)).map fun s => addressFromString ((splitOn 124 s).headD [])) ∧
    (isPQ x = true → 5 ≤ x.length) :=
  good_values h

/-- **Order independence, stated on its own.** Two line lists (cleaned: `xs`, `ys`) whose SID lines, `;FW…`
lines and `;PQ…` lines are, kind by kind, the same sequences give the same handshake data — so lines of
different kinds may be interleaved in any order, and lines of no kind (comments, banners) inserted or
removed anywhere. (`HsOrder.result d0 xs` is the record displayed in `handshake_is_last_of_each_kind`;
the three kinds exclude each other: `isFW_not_sid`, `isPQ_not_sid`, `isPQ_not_fw`.) -/
theorem handshake_order_independent (d0 : HsData) (xs ys : List Bytes)
    (h1 : xs.filter isSID = ys.filter isSID) (h2 : xs.filter isFW = ys.filter isFW)
    (h3 : xs.filter isPQ = ys.filter isPQ) :
    ({ sid := match lastWhere isSID xs with | some x => sidOf x | none => d0.sid
       fw := match lastWhere isFW xs with | some x => fwOf x | none => d0.fw
       challenge := match lastWhere isPQ xs with | some x => x.drop 5 | none => d0.challenge } : HsData) =
    { sid := match lastWhere isSID ys with | some x => sidOf x | none => d0.sid
      fw := match lastWhere isFW ys with | some x => fwOf x | none => d0.fw
      challenge := match lastWhere isPQ ys with | some x => x.drop 5 | none => d0.challenge } :=
  result_congr d0 xs ys h1 h2 h3

/-- **Order independence of the run.** Two line lists `ls`, `ls'` that both satisfy the hypotheses of
`handshake_is_last_of_each_kind` (with prompts `p`, `p'` and rests `r`, `r'`) and whose cleaned SID lines,
`;FW…` lines and `;PQ…` lines are, kind by kind, the same sequences: both runs end OK with the SAME handshake
data `d` (and each leaves its own rest unread). -/
theorem handshake_order_independent_run {H : Type} (hstep : H → Call → H × Reply) (master : Bool) (fuel n : Nat)
    (d0 : HsData) (ls ls' : List Bytes) (p p' r r' : Bytes) (h : H) (tr : List Ev)
    (hcr : ∀ l ∈ ls ++ [p], (13 : UInt8) ∉ l) (hcr' : ∀ l ∈ ls' ++ [p'], (13 : UInt8) ∉ l)
    (hlen : ∀ l ∈ ls ++ [p], l.length < fuel) (hlen' : ∀ l ∈ ls' ++ [p'], l.length < fuel)
    (hn : ls.length < n) (hn' : ls'.length < n)
    (hF : master = true → ∀ l ∈ ls ++ [p], firstOf l ≠ 70) (hF' : master = true → ∀ l ∈ ls' ++ [p'], firstOf l ≠ 70)
    (hgood : ∀ l ∈ ls, lineErr (cleanLine l) = none) (hgood' : ∀ l ∈ ls', lineErr (cleanLine l) = none)
    (hgo : ∀ l ∈ ls, isPrompt (cleanLine l) = false) (hgo' : ∀ l ∈ ls', isPrompt (cleanLine l) = false)
    (hp : isPrompt (cleanLine p) = true) (hp' : isPrompt (cleanLine p') = true)
    (h1 : (ls.map cleanLine).filter isSID = (ls'.map cleanLine).filter isSID)
    (h2 : (ls.map cleanLine).filter isFW = (ls'.map cleanLine).filter isFW)
    (h3 : (ls.map cleanLine).filter isPQ = (ls'.map cleanLine).filter isPQ) :
    ∃ d : HsData,
      Proc.run hstep (readHandshake master fuel n d0) (joinCR ls ++ p ++ 13 :: r) h tr =
        (.done (.ok d), r, h, .peeked (firstOf p) :: peeksOf ls ++ tr) ∧
      Proc.run hstep (readHandshake master fuel n d0) (joinCR ls' ++ p' ++ 13 :: r') h tr =
        (.done (.ok d), r', h, .peeked (firstOf p') :: peeksOf ls' ++ tr) := by
  refine ⟨_, handshake_is_last_of_each_kind hstep master fuel n d0 ls p r h tr hcr hlen hn hF hgood hgo hp, ?_⟩
  rw [handshake_is_last_of_each_kind hstep master fuel n d0 ls' p' r' h tr hcr' hlen' hn' hF' hgood' hgo' hp',
    handshake_order_independent d0 _ _ h1 h2 h3]

/-! ### (2) a challenge ending in '>' -/

/-- **A `;PQ: <text>` line whose text ends in '>' is a challenge, not the prompt** (seeded defect 1: the
prompt test moved in front of the `;PQ` test). For every `text` without CR that ends in '>' (62): the line
`;PQ: text` is handed to the loop unchanged, is a `;PQ` line, is NOT a prompt, is not malformed — so it may
stand anywhere in the `ls` of `handshake_is_last_of_each_kind` — and one iteration of the loop (either
role, any data `d`, line fuel above the line's length) stores `text`, '>' included, as the challenge and goes
on with the next line. -/
theorem challenge_ending_in_prompt_mark_is_a_challenge {H : Type} (hstep : H → Call → H × Reply) (master : Bool)
    (fuel n : Nat) (d : HsData) (text rest : Bytes) (h : H) (tr : List Ev)
    (h13 : (13 : UInt8) ∉ text) (hgt : text.getLast? = some 62) (hf : text.length + 5 < fuel) :
    cleanLine (sb ";PQ: " ++ text) = sb ";PQ: " ++ text ∧
    isPQ (sb ";PQ: " ++ text) = true ∧ isPrompt (sb ";PQ: " ++ text) = false ∧
    lineErr (sb ";PQ: " ++ text) = none ∧
    Proc.run hstep (readHandshake master fuel (n + 1) d) (sb ";PQ: " ++ text ++ 13 :: rest) h tr =
      Proc.run hstep (readHandshake master fuel n { d with challenge := text }) rest h (.peeked 59 :: tr) := by
  obtain ⟨t, rfl⟩ := List.getLast?_eq_some_iff.mp hgt
  rw [sb_PQ5]
  simp only [List.cons_append, List.nil_append]
  have hshape : (59 : UInt8) :: 80 :: 81 :: 58 :: 32 :: (t ++ [62]) = 59 :: (([80, 81, 58, 32] ++ t) ++ [62]) := by simp
  have hclean : cleanLine (59 :: 80 :: 81 :: 58 :: 32 :: (t ++ [62])) = 59 :: 80 :: 81 :: 58 :: 32 :: (t ++ [62]) := by
    rw [hshape]; exact cleanLine_solid 59 _ 62 solid_semi' solid_gt'
  have hpq : isPQ (59 :: 80 :: 81 :: 58 :: 32 :: (t ++ [62])) = true := (isPQ_iff _).mpr ⟨58 :: 32 :: (t ++ [62]), rfl⟩
  have h5 : 5 ≤ ((59 : UInt8) :: 80 :: 81 :: 58 :: 32 :: (t ++ [62])).length := by simp
  have herr := lineErr_pq_ok hpq h5
  refine ⟨hclean, hpq, isPrompt_pq hpq, herr, ?_⟩
  have h13' : (13 : UInt8) ∉ (59 : UInt8) :: 80 :: 81 :: 58 :: 32 :: (t ++ [62]) := by
    intro hm
    simp only [List.mem_cons] at hm
    rcases hm with hm | hm | hm | hm | hm | hm
    · revert hm; decide
    · revert hm; decide
    · revert hm; decide
    · revert hm; decide
    · revert hm; decide
    · exact h13 hm
  have hlen : ((59 : UInt8) :: 80 :: 81 :: 58 :: 32 :: (t ++ [62])).length < fuel := by
    simp only [List.length_cons, List.length_append, List.length_nil] at hf ⊢; omega
  have hu : upd d (59 :: 80 :: 81 :: 58 :: 32 :: (t ++ [62])) = { d with challenge := t ++ [62] } := by
    unfold upd
    rw [if_neg (by rw [isPQ_not_sid hpq]; decide), if_neg (by rw [isPQ_not_fw hpq]; decide), if_pos hpq]
    rfl
  have hrun := run_line hstep master fuel n d (59 :: 80 :: 81 :: 58 :: 32 :: (t ++ [62])) rest h tr h13' hlen
    (by intro ⟨e, _⟩; have e' : (59 : UInt8) = 70 := e; revert e'; decide)
  rw [hclean, lineStep_passes d ⟨herr, isPrompt_pq hpq⟩, hu] at hrun
  exact hrun

/-! ### (3) the two line orders of the seeded defect -/

/-- **`;PQ`, SID, prompt: the challenge that came BEFORE the SID is kept** (seeded defect 2). Slave side.
For any three raw lines without CR, shorter than `fuel`, with `n ≥ 3`: `pq` a `;PQ…` line of at least 5 bytes,
`sid` a SID line whose feature field `s` contains "B2", `p` a prompt — `readHandshake` on `pq` CR `sid` CR `p`
CR `r` returns OK with SID `s`, the challenge text of `pq`, the forwarders it started with, and leaves `r`. -/
theorem challenge_before_sid_is_kept {H : Type} (hstep : H → Call → H × Reply) (fuel n : Nat) (d0 : HsData)
    (pq sid p r : Bytes) (h : H) (tr : List Ev)
    (hcr : ∀ l ∈ [pq, sid, p], (13 : UInt8) ∉ l) (hlen : ∀ l ∈ [pq, sid, p], l.length < fuel) (hn : 2 < n)
    (hpq : isPQ (cleanLine pq) = true) (hpq5 : 5 ≤ (cleanLine pq).length)
    (hsid : isSID (cleanLine sid) = true) (s : Bytes) (hs : parseSID (cleanLine sid) = some s)
    (hb2 : containsSub s (sb "B2") = true)
    (hp : isPrompt (cleanLine p) = true) :
    Proc.run hstep (readHandshake false fuel n d0) (pq ++ 13 :: (sid ++ 13 :: (p ++ 13 :: r))) h tr =
      (.done (.ok { sid := s, fw := d0.fw, challenge := (cleanLine pq).drop 5 }), r, h,
        .peeked (firstOf p) :: .peeked (firstOf sid) :: .peeked (firstOf pq) :: tr) := by
  have hmain := handshake_is_last_of_each_kind hstep false fuel n d0 [pq, sid] p r h tr
    (fun l hl => hcr l (by simpa using hl)) (fun l hl => hlen l (by simpa using hl)) (by simpa using hn)
    (fun e => by cases e)
    (fun l hl => by
      rcases List.mem_cons.mp hl with rfl | hl
      · exact lineErr_pq_ok hpq hpq5
      · rcases List.mem_cons.mp hl with rfl | hl
        · exact lineErr_sid_ok hsid hs hb2
        · cases hl)
    (fun l hl => by
      rcases List.mem_cons.mp hl with rfl | hl
      · exact isPrompt_pq hpq
      · rcases List.mem_cons.mp hl with rfl | hl
        · exact isPrompt_sid hsid
        · cases hl)
    hp
  have hin : joinCR [pq, sid] ++ p ++ 13 :: r = pq ++ 13 :: (sid ++ 13 :: (p ++ 13 :: r)) := by simp [joinCR]
  rw [hin] at hmain
  rw [hmain]
  have e1 : lastWhere isSID ([pq, sid].map cleanLine) = some (cleanLine sid) := by
    simp [lastWhere, List.filter, hsid, isPQ_not_sid hpq]
  have e2 : lastWhere isFW ([pq, sid].map cleanLine) = none := by
    simp [lastWhere, List.filter, isSID_not_fw hsid, isPQ_not_fw hpq]
  have e3 : lastWhere isPQ ([pq, sid].map cleanLine) = some (cleanLine pq) := by
    simp [lastWhere, List.filter, hpq, isSID_not_pq hsid]
  rw [e1, e2, e3]
  simp [sidOf_eq hs, peeksOf]

/-- **SID, `;PQ`, SID, prompt: a second SID line does not forget the challenge** (seeded defect 2, second
form). Slave side. Four raw lines without CR, shorter than `fuel`, `n ≥ 4`: `sid1` and `sid2` SID lines with
feature fields `s1`, `s2` containing "B2", `pq` a `;PQ…` line of at least 5 bytes between them, `p` a prompt:
OK with the SID of the SECOND SID line and the challenge text of `pq`; `r` is left unread. -/
theorem second_sid_keeps_challenge {H : Type} (hstep : H → Call → H × Reply) (fuel n : Nat) (d0 : HsData)
    (sid1 pq sid2 p r : Bytes) (h : H) (tr : List Ev)
    (hcr : ∀ l ∈ [sid1, pq, sid2, p], (13 : UInt8) ∉ l) (hlen : ∀ l ∈ [sid1, pq, sid2, p], l.length < fuel)
    (hn : 3 < n)
    (hsid1 : isSID (cleanLine sid1) = true) (s1 : Bytes) (hs1 : parseSID (cleanLine sid1) = some s1)
    (hb1 : containsSub s1 (sb "B2") = true)
    (hpq : isPQ (cleanLine pq) = true) (hpq5 : 5 ≤ (cleanLine pq).length)
    (hsid2 : isSID (cleanLine sid2) = true) (s2 : Bytes) (hs2 : parseSID (cleanLine sid2) = some s2)
    (hb2 : containsSub s2 (sb "B2") = true)
    (hp : isPrompt (cleanLine p) = true) :
    Proc.run hstep (readHandshake false fuel n d0)
        (sid1 ++ 13 :: (pq ++ 13 :: (sid2 ++ 13 :: (p ++ 13 :: r)))) h tr =
      (.done (.ok { sid := s2, fw := d0.fw, challenge := (cleanLine pq).drop 5 }), r, h,
        .peeked (firstOf p) :: .peeked (firstOf sid2) :: .peeked (firstOf pq) :: .peeked (firstOf sid1) :: tr) := by
  have hmain := handshake_is_last_of_each_kind hstep false fuel n d0 [sid1, pq, sid2] p r h tr
    (fun l hl => hcr l (by simpa using hl)) (fun l hl => hlen l (by simpa using hl)) (by simpa using hn)
    (fun e => by cases e)
    (fun l hl => by
      rcases List.mem_cons.mp hl with rfl | hl
      · exact lineErr_sid_ok hsid1 hs1 hb1
      · rcases List.mem_cons.mp hl with rfl | hl
        · exact lineErr_pq_ok hpq hpq5
        · rcases List.mem_cons.mp hl with rfl | hl
          · exact lineErr_sid_ok hsid2 hs2 hb2
          · cases hl)
    (fun l hl => by
      rcases List.mem_cons.mp hl with rfl | hl
      · exact isPrompt_sid hsid1
      · rcases List.mem_cons.mp hl with rfl | hl
        · exact isPrompt_pq hpq
        · rcases List.mem_cons.mp hl with rfl | hl
          · exact isPrompt_sid hsid2
          · cases hl)
    hp
  have hin : joinCR [sid1, pq, sid2] ++ p ++ 13 :: r = sid1 ++ 13 :: (pq ++ 13 :: (sid2 ++ 13 :: (p ++ 13 :: r))) := by
    simp [joinCR]
  rw [hin] at hmain
  rw [hmain]
  have e1 : lastWhere isSID ([sid1, pq, sid2].map cleanLine) = some (cleanLine sid2) := by
    simp [lastWhere, List.filter, hsid1, hsid2, isPQ_not_sid hpq]
  have e2 : lastWhere isFW ([sid1, pq, sid2].map cleanLine) = none := by
    simp [lastWhere, List.filter, isSID_not_fw hsid1, isSID_not_fw hsid2, isPQ_not_fw hpq]
  have e3 : lastWhere isPQ ([sid1, pq, sid2].map cleanLine) = some (cleanLine pq) := by
    simp [lastWhere, List.filter, hpq, isSID_not_pq hsid1, isSID_not_pq hsid2]
  rw [e1, e2, e3]
  simp [sidOf_eq hs2, peeksOf]

/-! ### (4) the challenge that is answered -/

/-- **A `;PQ` challenge is answered with `;PR:`, in any line order** (function level, composing
`handshake_is_last_of_each_kind` with `handshake_lines` of `Props/C16.lean`). Hypotheses on `ls`, `p`, `r` as
in `handshake_is_last_of_each_kind`; in addition the LAST `;PQ…` line of `ls` is `x` (after cleaning) and has
MORE than 5 bytes, i.e. a non-empty challenge text (with exactly 5 bytes the text is empty and — in the Go
code as in the model — an empty challenge means "no secure login": `later_empty_challenge_cancels_login`);
a callback is registered (`hasCb`), and it answers for the main address with password `m.password` and no
error (`aux`: its answers for the other addresses, arbitrary). Then `readHandshake` returns some data `d`
with `d.challenge = x.drop 5`, and `sendHandshake` applied to THAT challenge — this is how `handshake`
(`B2F/Session.lean`) composes the two: `sendHandshakeP c hs.challenge` with `hs` the value `readHandshake`
returned — writes the `;FW:` line, the SID line, then the line `;PR: ` followed by the response computed from
(last challenge, password, salt) and CR, then the trailer. -/
theorem pq_answered_any_order {H : Type} (hstep : H → Call → H × Reply) (master : Bool) (fuel n : Nat)
    (d0 : HsData) (ls : List Bytes) (p r : Bytes) (h : H) (tr : List Ev)
    (hcr : ∀ l ∈ ls ++ [p], (13 : UInt8) ∉ l)
    (hlen : ∀ l ∈ ls ++ [p], l.length < fuel)
    (hn : ls.length < n)
    (hF : master = true → ∀ l ∈ ls ++ [p], firstOf l ≠ 70)
    (hgood : ∀ l ∈ ls, lineErr (cleanLine l) = none)
    (hgo : ∀ l ∈ ls, isPrompt (cleanLine l) = false)
    (hp : isPrompt (cleanLine p) = true)
    (x : Bytes) (hx : lastWhere isPQ (ls.map cleanLine) = some x) (hx5 : 5 < x.length)
    (salt : Bytes) (c : HsCfg) (hcb : c.hasCb = true) (m : CbRes) (aux : List CbRes) (hm : m.isErr = false) :
    ∃ d : HsData,
      Proc.run hstep (readHandshake master fuel n d0) (joinCR ls ++ p ++ 13 :: r) h tr =
        (.done (.ok d), r, h, .peeked (firstOf p) :: peeksOf ls ++ tr) ∧
      d.challenge = x.drop 5 ∧
      sendHandshake salt c d.challenge (m :: aux) =
        some (fwLine true c ((m :: aux).map (CbRes.view salt (x.drop 5))) ++ sidLine c ++
          (strBytes ";PR: " ++ respOfDigest (Md5.sum (x.drop 5 ++ m.password ++ salt)) ++ strBytes "\r") ++ trailer c) := by
  refine ⟨_, handshake_is_last_of_each_kind hstep master fuel n d0 ls p r h tr hcr hlen hn hF hgood hgo hp, ?_, ?_⟩
  · simp only [hx]
  · simp only [hx]
    have hne : x.drop 5 ≠ [] := by
      intro e
      have := congrArg List.length e
      simp at this
      omega
    exact handshake_lines salt c (x.drop 5) m aux hne hcb hm

/-- **The same at session level: the slave's `handshake` program writes the `;PR:` line for the last
challenge.** For every handler whose password callback knows the passwords (`KnowsPasswords hstep pw`: asked
for the i-th local address it returns `pw i` without error; everything else about the handler is arbitrary),
every slave configuration with a registered callback, fuel `fuel`, and lines `ls`, `p`, `r` as in
`handshake_is_last_of_each_kind` (`master = false`, `n = fuel`, starting from `{}` as `handshake` does),
where `ls` contains at least one SID line and its LAST `;PQ…` line `x` has a non-empty text (more than 5
bytes): `handshake` ends OK having consumed everything up to `r`, returns data with `challenge = x.drop 5`, and
ALL the bytes it wrote (`outBytes` of the trace) are exactly: the `;FW:` line (auxiliary addresses with
their responses), the SID line, `;PR: ` + the response for (`x.drop 5`, `pw 0`, salt) + CR, the trailer. -/
theorem pq_answered_any_order_session {H : Type} (hstep : H → Call → H × Reply) (pw : Nat → Bytes)
    (hpw : KnowsPasswords hstep pw) (c : Cfg) (hslave : c.hs.master = false) (hcb : c.hs.hasCb = true)
    (fuel : Nat) (ls : List Bytes) (p r : Bytes) (h : H)
    (hcr : ∀ l ∈ ls ++ [p], (13 : UInt8) ∉ l)
    (hlen : ∀ l ∈ ls ++ [p], l.length < fuel)
    (hn : ls.length < fuel)
    (hgood : ∀ l ∈ ls, lineErr (cleanLine l) = none)
    (hgo : ∀ l ∈ ls, isPrompt (cleanLine l) = false)
    (hp : isPrompt (cleanLine p) = true)
    (hsid : ∃ l ∈ ls, isSID (cleanLine l) = true)
    (x : Bytes) (hx : lastWhere isPQ (ls.map cleanLine) = some x) (hx5 : 5 < x.length) :
    ∃ (d : HsData) (h' : H) (tr' : List Ev),
      Proc.run hstep (handshake c fuel) (joinCR ls ++ p ++ 13 :: r) h [] = (.done (.ok d), r, h', tr') ∧
      d.challenge = x.drop 5 ∧
      outBytes tr' =
        fwLine true c.hs ((cbList pw c.hs.localFW.length).map (CbRes.view c.salt (x.drop 5))) ++ sidLine c.hs ++
          (strBytes ";PR: " ++ respOfDigest (Md5.sum (x.drop 5 ++ pw 0 ++ c.salt)) ++ strBytes "\r") ++ trailer c.hs := by
  have hread := handshake_is_last_of_each_kind hstep false fuel fuel {} ls p r h [] hcr hlen hn (fun e => by cases e)
    hgood hgo hp
  simp only [hx] at hread
  have hne : x.drop 5 ≠ [] := by
    intro e
    have := congrArg List.length e
    simp at this
    omega
  -- the SID register is not empty
  obtain ⟨l, hl, hlsid⟩ := hsid
  obtain ⟨y, hy⟩ := lastWhere_exists (p := isSID) (List.mem_map.mpr ⟨l, hl, rfl⟩) hlsid
  obtain ⟨hymem, hysid⟩ := lastWhere_some hy
  obtain ⟨l', hl', rfl⟩ := List.mem_map.mp hymem
  have hsne : sidOf (cleanLine l') ≠ [] := ((good_values (hgood l' hl')).1 hysid).2.2
  simp only [hy] at hread
  have hbs := handshake_lines c.salt c.hs (x.drop 5) ⟨pw 0, false⟩
    (((List.range c.hs.localFW.length).drop 1).map fun i => ⟨pw i, false⟩) hne hcb rfl
  obtain ⟨h', evs, hsil, hrun⟩ := run_handshake_slave hstep pw hpw c hslave fuel _ r h _ _ hread hsne hne hcb _ hbs
  refine ⟨_, h', _, hrun, rfl, ?_⟩
  have hsil' : NoWrites (evs ++ (Ev.peeked (firstOf p) :: peeksOf ls ++ [])) := by
    refine hsil.append ?_
    intro e he bs hb
    subst hb
    rcases List.mem_cons.mp he with he | he
    · cases he
    · simp [peeksOf] at he
  simp only [outBytes, hsil'.out, List.nil_append]
  rfl

/-! ### non-vacuity: the three line orders, evaluated by the kernel -/

/-- a handler that is never called by `readHandshake` -/
private def nohandler (u : Unit) (_ : Call) : Unit × Reply := (u, .unit)

/-- (sid, fw, challenge, unread input) of a run that ended OK -/
private def okOf {H : Type} (r : Ended (Except SErr HsData) × Bytes × H × List Ev) :
    Option (Bytes × List (Bytes × Bytes) × Bytes × Bytes) :=
  match r.1 with
  | .done (.ok d) => some (d.sid, d.fw, d.challenge, r.2.1)
  | _ => none

/-- (error, unread input) of a run that ended with an error -/
private def errOf {H : Type} (r : Ended (Except SErr HsData) × Bytes × H × List Ev) : Option (SErr × Bytes) :=
  match r.1 with
  | .done (.error e) => some (e, r.2.1)
  | _ => none

private def slaveRun (input : Bytes) := Proc.run nohandler (readHandshake false 100 100 {}) input () []

/-- the usual order: SID, `;PQ`, prompt (then the unread rest `FF` CR) -/
example : okOf (slaveRun (sb "[WL2K-5.0-B2FWIHJM$]\r;PQ: 23753528\rCMS>\rFF\r")) =
    some (sb "B2FWIHJM$", [], sb "23753528", sb "FF\r") := by decide +kernel

/-- `;PQ`, SID, prompt: the challenge that came first is kept -/
example : okOf (slaveRun (sb ";PQ: 23753528\r[WL2K-5.0-B2FWIHJM$]\rCMS>\rFF\r")) =
    some (sb "B2FWIHJM$", [], sb "23753528", sb "FF\r") := by decide +kernel

/-- SID, `;PQ`, SID, prompt: the second SID replaces the first and keeps the challenge -/
example : okOf (slaveRun (sb "[WL2K-5.0-B2FWIHJM$]\r;PQ: 23753528\r[RMS-1.0-B2F$]\rCMS>\rFF\r")) =
    some (sb "B2F$", [], sb "23753528", sb "FF\r") := by decide +kernel

/-- all kinds mixed with banner / comment lines; two challenges (the last one counts), two `;FW` lines (the
last one counts), a challenge ending in '>', a `;FW` line after everything else -/
example : okOf (slaveRun (sb "Welcome\r;PQ: 111\r; a comment\r[WL2K-5.0-B2FWIHJM$]\r;FW: LA1B\r;PQ: 2222>\r*** MTD Stats\r;FW: LA5NTA N0CALL|123\rCMS>\rFF\r")) =
    some (sb "B2FWIHJM$", [([], sb "LA5NTA"), ([], sb "N0CALL")], sb "2222>", sb "FF\r") := by decide +kernel

/-- NEGATIVE: the side condition on `ls` is necessary — a bare `CMS>` prompt line in the middle ENDS the loop:
the `;PQ` line after it is never read (it is left in the input), the challenge stays empty -/
example : okOf (slaveRun (sb "[WL2K-5.0-B2FWIHJM$]\rCMS>\r;PQ: 23753528\rCMS>\r")) =
    some (sb "B2FWIHJM$", [], [], sb ";PQ: 23753528\rCMS>\r") := by decide +kernel

/-- cleaning matters: `CMS> ` (a trailing blank) IS a prompt, and ` ;PQ: 5 ` is the challenge "5" -/
example : okOf (slaveRun (sb "[WL2K-5.0-B2FWIHJM$]\r ;PQ: 5 \rCMS> \rFF\r")) =
    some (sb "B2FWIHJM$", [], sb "5", sb "FF\r") := by decide +kernel

/-- the error cases abort at the first offending line and leave what follows unread: a `;PQ` line shorter
than 5 bytes, a SID without B2, a `;FW` line without `: ` -/
example :
    errOf (slaveRun (sb "[WL2K-5.0-B2FWIHJM$]\r;PQ:\r;PQ: 23753528\rCMS>\r")) =
      some (.proto "malformed-pq", sb ";PQ: 23753528\rCMS>\r") ∧
    errOf (slaveRun (sb ";PQ: 23753528\r[FBB-7.0-FHM$]\rCMS>\r")) = some (.proto "no-fb2", sb "CMS>\r") ∧
    errOf (slaveRun (sb ";FW LA1B\r[WL2K-5.0-B2FWIHJM$]\rCMS>\r")) =
      some (.proto "malformed-fw", sb "[WL2K-5.0-B2FWIHJM$]\rCMS>\r") := by decide +kernel

/-- the master's side: the slave's lines in an unusual order, ended by its first command `FF` -/
example : okOf (Proc.run nohandler (readHandshake true 100 100 {})
      (sb "; LA1B DE LA5NTA (JP20)\r[wl-0.1-B2FHM$]\r;FW: LA5NTA\rFF\r") () []) =
    some (sb "B2FHM$", [([], sb "LA5NTA")], [], sb "FF\r") := by decide +kernel

/-! ### non-vacuity: the hypotheses of the theorems hold for concrete lines -/

private def ls0 : List Bytes :=
  [sb "Welcome", sb ";PQ: 111", sb "[WL2K-5.0-B2FWIHJM$]", sb ";PQ: 2222>", sb ";FW: LA5NTA N0CALL|123"]

/-- `handshake_is_last_of_each_kind` applies to `ls0` + `CMS>` (slave, fuel 100): all hypotheses hold, and the
three "last of kind" lookups give the second challenge, the SID and the `;FW` line -/
example :
    (∀ l ∈ ls0 ++ [sb "CMS>"], (13 : UInt8) ∉ l) ∧ (∀ l ∈ ls0 ++ [sb "CMS>"], l.length < 100) ∧ ls0.length < 100 ∧
    (∀ l ∈ ls0, lineErr (cleanLine l) = none) ∧ (∀ l ∈ ls0, isPrompt (cleanLine l) = false) ∧
    isPrompt (cleanLine (sb "CMS>")) = true ∧
    lastWhere isPQ (ls0.map cleanLine) = some (sb ";PQ: 2222>") ∧
    lastWhere isSID (ls0.map cleanLine) = some (sb "[WL2K-5.0-B2FWIHJM$]") ∧
    lastWhere isFW (ls0.map cleanLine) = some (sb ";FW: LA5NTA N0CALL|123") ∧
    sidOf (sb "[WL2K-5.0-B2FWIHJM$]") = sb "B2FWIHJM$" ∧
    fwOf (sb ";FW: LA5NTA N0CALL|123") = [([], sb "LA5NTA"), ([], sb "N0CALL")] := by decide +kernel

/-- the theorem instantiated (for every rest `r`) -/
example (r : Bytes) :
    (Proc.run nohandler (readHandshake false 100 100 {}) (joinCR ls0 ++ sb "CMS>" ++ 13 :: r) () []).2.1 = r := by
  rw [handshake_is_last_of_each_kind nohandler false 100 100 {} ls0 (sb "CMS>") r () [] (by decide +kernel)
    (by decide +kernel) (by decide +kernel) (fun e => by cases e) (by decide +kernel) (by decide +kernel) (by decide +kernel)]

/-- the malformed lines of `handshake_aborts_at_first_bad_line` / `bad_line_cases` exist -/
example :
    lineErr (cleanLine (sb ";PQ")) = some (.proto "malformed-pq") ∧
    lineErr (cleanLine (sb ";PQ:")) = some (.proto "malformed-pq") ∧
    lineErr (cleanLine (sb ";PQ: ")) = some (.proto "malformed-pq") ∧
    lineErr (cleanLine (sb ";FW LA1B")) = some (.proto "malformed-fw") ∧
    lineErr (cleanLine (sb "[FBB-7.0-FHM$]")) = some (.proto "no-fb2") ∧
    lineErr (cleanLine (sb "[nodash]")) = some (.proto "bad-sid") := by decide +kernel

/-- `handshake_order_independent`: two different arrangements with the same per-kind subsequences -/
example :
    ([sb ";PQ: 1", sb "[A-B2F$]", sb "x", sb ";FW: Q"].filter isSID = [sb "[A-B2F$]", sb ";FW: Q", sb ";PQ: 1"].filter isSID) ∧
    ([sb ";PQ: 1", sb "[A-B2F$]", sb "x", sb ";FW: Q"].filter isFW = [sb "[A-B2F$]", sb ";FW: Q", sb ";PQ: 1"].filter isFW) ∧
    ([sb ";PQ: 1", sb "[A-B2F$]", sb "x", sb ";FW: Q"].filter isPQ = [sb "[A-B2F$]", sb ";FW: Q", sb ";PQ: 1"].filter isPQ) := by
  decide +kernel

/-- `challenge_ending_in_prompt_mark_is_a_challenge`: its hypotheses for the text `12345>`, and the run -/
example : (13 : UInt8) ∉ sb "12345>" ∧ (sb "12345>").getLast? = some 62 ∧
    okOf (slaveRun (sb "[WL2K-5.0-B2FWIHJM$]\r;PQ: 12345>\rCMS>\r")) = some (sb "B2FWIHJM$", [], sb "12345>", []) := by
  decide +kernel

/-- `challenge_before_sid_is_kept`, `second_sid_keeps_challenge`: their hypotheses for concrete lines -/
example :
    isPQ (cleanLine (sb ";PQ: 23753528")) = true ∧ 5 ≤ (cleanLine (sb ";PQ: 23753528")).length ∧
    isSID (cleanLine (sb "[WL2K-5.0-B2FWIHJM$]")) = true ∧
    parseSID (cleanLine (sb "[WL2K-5.0-B2FWIHJM$]")) = some (sb "B2FWIHJM$") ∧
    containsSub (sb "B2FWIHJM$") (sb "B2") = true ∧
    isSID (cleanLine (sb "[RMS-1.0-B2F$]")) = true ∧ parseSID (cleanLine (sb "[RMS-1.0-B2F$]")) = some (sb "B2F$") ∧
    containsSub (sb "B2F$") (sb "B2") = true ∧
    isPrompt (cleanLine (sb "CMS>")) = true := by decide +kernel

/-! ### (4): what is FALSE without the side condition, and non-vacuity -/

/-- **"At least one well-formed `;PQ` line" is NOT enough** for a `;PR:` answer: the LAST `;PQ…` line decides,
and if it has exactly 5 bytes (`;PQ:1`: the model, like the Go code, cuts after the fifth byte without
looking at it) its text is empty — the earlier challenge `23753528` is forgotten, the handshake data carries
an empty challenge, and `sendHandshake` then writes no `;PR:` line at all (`no_challenge_plain`). Hence the
hypothesis `5 < x.length` on the last `;PQ` line in `pq_answered_any_order`. -/
theorem later_empty_challenge_cancels_login :
    okOf (slaveRun (sb "[WL2K-5.0-B2FWIHJM$]\r;PQ: 23753528\r;PQ:1\rCMS>\r")) = some (sb "B2FWIHJM$", [], [], []) ∧
    lineErr (cleanLine (sb ";PQ:1")) = none ∧
    ∀ (salt : Bytes) (c : HsCfg) (cb : List CbRes),
      sendHandshake salt c [] cb = some (fwLine false c (cb.map (CbRes.view salt [])) ++ sidLine c ++ trailer c) :=
  ⟨by decide +kernel, by decide +kernel, fun salt c cb => no_challenge_plain salt c cb⟩

/-- a handler whose callback knows one password for every address -/
private def pwHandler (u : Unit) : Call → Unit × Reply
  | .password _ => (u, .password (sb "FOOBAR") false)
  | _ => (u, .unit)

private def cfg0 : Cfg :=
  { hs := { mycall := sb "LA5NTA", targetcall := sb "LA1B", locator := sb "JP20", uaName := sb "wl", uaVersion := sb "0.1",
            master := false, gzip := false, hasCb := true, localFW := [sb "LA5NTA", sb "N0CALL"] } }

/-- `pq_answered_any_order_session` applies: the handler knows the passwords, the configuration is a slave
with a callback, the lines `ls0` + `CMS>` satisfy the hypotheses (above), `ls0` has a SID line and its last
`;PQ` line `;PQ: 2222>` has more than 5 bytes — so the session answers the challenge `2222>` -/
example (r : Bytes) : ∃ (d : HsData) (h' : Unit) (tr' : List Ev),
    Proc.run pwHandler (handshake cfg0 100) (joinCR ls0 ++ sb "CMS>" ++ 13 :: r) () [] = (.done (.ok d), r, h', tr') ∧
    d.challenge = sb "2222>" ∧
    outBytes tr' =
      fwLine true cfg0.hs ((cbList (fun _ => sb "FOOBAR") 2).map (CbRes.view cfg0.salt (sb "2222>"))) ++ sidLine cfg0.hs ++
        (strBytes ";PR: " ++ respOfDigest (Md5.sum (sb "2222>" ++ sb "FOOBAR" ++ cfg0.salt)) ++ strBytes "\r") ++
        trailer cfg0.hs := by
  have hd : (sb ";PQ: 2222>").drop 5 = sb "2222>" := by decide +kernel
  have := pq_answered_any_order_session pwHandler (fun _ => sb "FOOBAR") (fun _ _ => rfl) cfg0 rfl rfl 100 ls0 (sb "CMS>") r ()
    (by decide +kernel) (by decide +kernel) (by decide +kernel) (by decide +kernel) (by decide +kernel) (by decide +kernel)
    ⟨sb "[WL2K-5.0-B2FWIHJM$]", by decide +kernel, by decide +kernel⟩ (sb ";PQ: 2222>") (by decide +kernel) (by decide +kernel)
  rw [hd] at this
  exact this

/-- `pq_answered_any_order` (function level) applies to the same lines: all hypotheses are discharged, the
conclusion is about the challenge `2222>` -/
example (r : Bytes) (salt : Bytes) : ∃ d : HsData,
    Proc.run nohandler (readHandshake false 100 100 {}) (joinCR ls0 ++ sb "CMS>" ++ 13 :: r) () [] =
      (.done (.ok d), r, (), .peeked (firstOf (sb "CMS>")) :: peeksOf ls0 ++ []) ∧
    d.challenge = (sb ";PQ: 2222>").drop 5 ∧
    sendHandshake salt cfg0.hs d.challenge [⟨sb "FOOBAR", false⟩, ⟨[], false⟩] =
      some (fwLine true cfg0.hs ([⟨sb "FOOBAR", false⟩, ⟨[], false⟩].map (CbRes.view salt ((sb ";PQ: 2222>").drop 5))) ++
        sidLine cfg0.hs ++
        (strBytes ";PR: " ++ respOfDigest (Md5.sum ((sb ";PQ: 2222>").drop 5 ++ sb "FOOBAR" ++ salt)) ++ strBytes "\r") ++
        trailer cfg0.hs) :=
  pq_answered_any_order nohandler false 100 100 {} ls0 (sb "CMS>") r () [] (by decide +kernel) (by decide +kernel)
    (by decide +kernel) (fun e => by cases e) (by decide +kernel) (by decide +kernel) (by decide +kernel)
    (sb ";PQ: 2222>") (by decide +kernel) (by decide +kernel) salt cfg0.hs rfl ⟨sb "FOOBAR", false⟩ [⟨[], false⟩] rfl

end Wl2k.Props.C16
