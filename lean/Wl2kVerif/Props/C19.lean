import Wl2kVerif.Url.Parse
import Wl2kVerif.Url.Registry
import Wl2kVerif.Proofs.Strings
import Wl2kVerif.Gen.Facts
/-
C19 — connect URLs parse to exactly their components and reach the right dialer.
`net/url.Parse` is an external call (stdlib, trusted); theorems are about ParseURL's own logic on
its result and about the dialer registry.
-/
namespace Wl2k.Props.C19
open Wl2k Wl2k.Str Wl2k.Url

/-- A callsign-like path component: non-empty, no slash. -/
def Comp (x : Bytes) : Prop := x ≠ [] ∧ (47 : UInt8) ∉ x

theorem toUpper_comp {x : Bytes} (h : Comp x) : Comp (toUpper x) :=
  ⟨by cases x with | nil => exact absurd rfl h.1 | cons a t => simp [toUpper], slash_notin_toUpper x h.2⟩

theorem digisOf_nil : digisOf [47] = [] := by decide

theorem digisOf_wrapped (ds : List Bytes) (hne : ds ≠ []) (h : ∀ d ∈ ds, Comp d) :
    digisOf (47 :: joinWith 47 ds ++ [47]) = ds := by
  have hj := joinWith_head_getLast 47 ds hne h
  unfold digisOf
  rw [trimByte_wrapped 47 _ hj.1 hj.2.1 hj.2.2, splitOn_joinWith 47 ds hne (fun d hd => (h d hd).2)]
  cases ds with
  | nil => exact absurd rfl hne
  | cons d r =>
    have hd := (h d (by simp)).1
    simp [hd]

/-- **A URL path composed of a digipeater list and a target parses into exactly those components,
upper-cased and in order**; the `host` parameter overrides the host; nothing else changes. -/
theorem parse_compose (scheme host hostParam : Bytes) (ds : List Bytes) (t : Bytes)
    (hds : ∀ d ∈ ds, Comp d) (ht : (47 : UInt8) ∉ t) (hlen : 3 ≤ t.length)
    (hsch : ds = [] ∨ (scheme ≠ sArdop ∧ scheme ≠ sTelnet)) :
    parseURL { scheme := scheme, host := host, path := composePath ds t, hostParam := hostParam } =
      .ok { scheme := scheme, host := if hostParam ≠ [] then hostParam else host,
            target := toUpper t, digis := ds.map toUpper } := by
  have ht' : (47 : UInt8) ∉ toUpper t := slash_notin_toUpper t ht
  have hlen' : ¬ (toUpper t).length < 3 := by simp [toUpper]; omega
  have hup : toUpper (composePath ds t) = 47 :: joinWith 47 (ds.map toUpper ++ [toUpper t]) := by
    simp only [composePath, toUpper, List.map_cons]
    have := toUpper_joinWith (ds ++ [t])
    simp only [toUpper, List.map_append, List.map_cons, List.map_nil] at this
    rw [this]; simp [upperByte]
  unfold parseURL
  simp only [hup]
  by_cases hnil : ds = []
  · subst hnil
    have e : (47 : UInt8) :: joinWith 47 ([].map toUpper ++ [toUpper t]) = [] ++ 47 :: toUpper t := by
      simp [joinWith]
    rw [e, pathSplit_append [] _ ht']
    simp only [hlen', if_false, List.nil_append, digisOf_nil]
    simp
  · have hne : ds.map toUpper ≠ [] := by simpa using hnil
    have hcomp : ∀ d ∈ ds.map toUpper, Comp d := by
      intro d hd
      simp only [List.mem_map] at hd
      obtain ⟨x, hx, rfl⟩ := hd
      exact toUpper_comp (hds x hx)
    have e : (47 : UInt8) :: joinWith 47 (ds.map toUpper ++ [toUpper t]) =
        (47 :: joinWith 47 (ds.map toUpper)) ++ 47 :: toUpper t := by
      rw [joinWith_snoc 47 _ _ hne]; simp
    rw [e, pathSplit_append _ _ ht']
    simp only [hlen', if_false]
    have hd : digisOf (47 :: joinWith 47 (ds.map toUpper) ++ [47]) = ds.map toUpper :=
      digisOf_wrapped _ hne hcomp
    simp only [List.cons_append] at hd ⊢
    rw [hd]
    rcases hsch with h | h
    · exact absurd h hnil
    · simp [h.1, h.2]

/-- Targets shorter than three characters are refused, whatever else the URL holds. -/
theorem short_target_refused (p : Parsed) (h : (pathSplit (toUpper p.path)).2.length < 3) :
    parseURL p = .errInvalidTarget := by
  unfold parseURL
  simp [h]

/-- Digipeaters are refused for `ardop` and `telnet`. -/
theorem digis_refused (host hostParam : Bytes) (ds : List Bytes) (t : Bytes) (scheme : Bytes)
    (hds : ∀ d ∈ ds, Comp d) (hne : ds ≠ []) (ht : (47 : UInt8) ∉ t) (hlen : 3 ≤ t.length)
    (hs : scheme = sArdop ∨ scheme = sTelnet) :
    ∃ u, parseURL { scheme := scheme, host := host, path := composePath ds t, hostParam := hostParam }
      = .errDigisUnsupported u := by
  have ht' : (47 : UInt8) ∉ toUpper t := slash_notin_toUpper t ht
  have hlen' : ¬ (toUpper t).length < 3 := by simp [toUpper]; omega
  have hup : toUpper (composePath ds t) = 47 :: joinWith 47 (ds.map toUpper ++ [toUpper t]) := by
    simp only [composePath, toUpper, List.map_cons]
    have := toUpper_joinWith (ds ++ [t])
    simp only [toUpper, List.map_append, List.map_cons, List.map_nil] at this
    rw [this]; simp [upperByte]
  have hne' : ds.map toUpper ≠ [] := by simpa using hne
  have hcomp : ∀ d ∈ ds.map toUpper, Comp d := by
    intro d hd
    simp only [List.mem_map] at hd
    obtain ⟨x, hx, rfl⟩ := hd
    exact toUpper_comp (hds x hx)
  have e : (47 : UInt8) :: joinWith 47 (ds.map toUpper ++ [toUpper t]) =
      (47 :: joinWith 47 (ds.map toUpper)) ++ 47 :: toUpper t := by
    rw [joinWith_snoc 47 _ _ hne']; simp
  have hd : digisOf (47 :: joinWith 47 (ds.map toUpper) ++ [47]) = ds.map toUpper :=
    digisOf_wrapped _ hne' hcomp
  unfold parseURL
  simp only [hup]
  rw [e, pathSplit_append _ _ ht']
  simp only [hlen', if_false]
  simp only [List.cons_append] at hd ⊢
  rw [hd]
  have hpos : (ds.map toUpper).length > 0 := by
    cases ds with
    | nil => exact absurd rfl hne
    | cons _ _ => simp
  exact ⟨_, by rw [if_pos ⟨hpos, hs⟩]⟩

/-! ### Registry -/

theorem dial_after_register (r : Registry) (s : Bytes) (d : Nat) :
    (r.step (.register s d)).dial s = some d := by
  simp [Registry.step, Registry.dial]

theorem dial_after_unregister (r : Registry) (s : Bytes) :
    (r.step (.unregister s)).dial s = none := by
  simp [Registry.step, Registry.dial, List.find?_eq_none]

theorem find_filter_ne (r : Registry) (s s' : Bytes) (h : s' ≠ s) :
    (r.filter (fun x => decide (x.1 ≠ s'))).find? (fun x => decide (x.1 = s)) = r.find? (fun x => decide (x.1 = s)) := by
  induction r with
  | nil => rfl
  | cons a t ih =>
    by_cases ha : a.1 = s'
    · have hb : ¬ a.1 = s := by intro e; exact h (ha ▸ e)
      rw [List.filter_cons_of_neg (by simpa using ha), List.find?_cons_of_neg (by simpa using hb), ih]
    · rw [List.filter_cons_of_pos (by simpa using ha)]
      by_cases hb : a.1 = s
      · rw [List.find?_cons_of_pos (by simpa using hb), List.find?_cons_of_pos (by simpa using hb)]
      · rw [List.find?_cons_of_neg (by simpa using hb), List.find?_cons_of_neg (by simpa using hb), ih]

theorem dial_other_unchanged (r : Registry) (op : RegOp) (s : Bytes)
    (h : match op with | .register s' _ => s' ≠ s | .unregister s' => s' ≠ s) :
    (r.step op).dial s = r.dial s := by
  cases op with
  | register s' d =>
    simp only at h
    simp only [Registry.step, Registry.dial]
    rw [List.find?_cons_of_neg (by simpa using h), find_filter_ne r s s' h]
  | unregister s' =>
    simp only at h
    simp only [Registry.step, Registry.dial]
    rw [find_filter_ne r s s' h]

/-- The last operation on a scheme decides what `dial` sees after ANY history. -/
def lastOp (s : Bytes) : List RegOp → Option (Option Nat)
  | [] => none
  | op :: rest =>
    match lastOp s rest with
    | some v => some v
    | none => match op with
      | .register s' d => if s' = s then some (some d) else none
      | .unregister s' => if s' = s then some none else none

theorem registry_seq_aux (s : Bytes) : ∀ (ops : List RegOp) (r : Registry),
    (ops.foldl Registry.step r).dial s = (match lastOp s ops with | some v => v | none => r.dial s) := by
  intro ops
  induction ops with
  | nil => intro r; rfl
  | cons op rest ih =>
    intro r
    simp only [List.foldl_cons, ih, lastOp]
    cases hl : lastOp s rest with
    | some v => rfl
    | none =>
      cases op with
      | register s' d =>
        by_cases e : s' = s
        · subst e; simp [dial_after_register]
        · simp only [e, if_false]; exact dial_other_unchanged r _ s e
      | unregister s' =>
        by_cases e : s' = s
        · subst e; simp [dial_after_unregister]
        · simp only [e, if_false]; exact dial_other_unchanged r _ s e

/-- **Dialling after any register/unregister history reaches the dialer registered last for the
scheme, or reports ErrMissingDialer (none).** -/
theorem registry_seq (s : Bytes) (ops : List RegOp) :
    (Registry.run ops).dial s = (lastOp s ops).getD none := by
  unfold Registry.run
  rw [registry_seq_aux]
  cases lastOp s ops <;> simp [Registry.dial]

def evOf : String → Option MuEvent
  | "lock" => some .lock | "unlock" => some .unlock | "access" => some .access | "dispatch" => some .dispatch | _ => none

/-- **Mutex discipline (regenerated fact):** in /repo's current source every function touching the
dialer map does so only between `mu.Lock()` and `mu.Unlock()`, at least the three API functions do, and
`DialURLContext` calls the dialer it looked up only after releasing the lock (a dial in flight - which
may last minutes or dial through the registry itself - never blocks register/unregister/dial).
This is what licenses the atomic-step registry model for concurrent callers. -/
theorem mutex_guarded :
    Gen.dialersMutexEvents.all (fun f => match f.2.mapM evOf with
      | some evs => guarded false evs
      | none => false) = true
    ∧ ["DialURLContext", "RegisterContextDialer", "UnregisterDialer"].all
        (fun n => Gen.dialersMutexEvents.any (·.1 == n)) = true
    ∧ Gen.dialersMutexEvents.any (fun f => f.1 == "DialURLContext" && f.2.contains "dispatch") = true := by
  decide

/-- Non-vacuity: a concrete URL path with two digipeaters. -/
example : parseURL { scheme := [97, 120], host := [], path := composePath [[108, 100], [98]] [108, 97, 49, 98], hostParam := [] }
    = .ok { scheme := [97, 120], host := [], target := [76, 65, 49, 66], digis := [[76, 68], [66]] } := by decide

end Wl2k.Props.C19
