import Wl2kVerif.Proofs.Ardop
import Wl2kVerif.Gen.Facts
/-
C14 — ARDOP connection: reliable ordered byte stream with correct host framing.

Models: Ardop/Crc.lean (crc16Sum), Ardop/Frame.lean (writeCtrlFrame, Write's data frame, readFrameOfType,
and the TNC's side of the link written from the interface specification), Ardop/Ctrl.lean (parseCtrlMsg),
Ardop/Conn.lean (Read, Write, flush lock, Close), Ardop/Loop.lean (the frame-handling goroutine).
`tcp = false` is the CRC-protected serial framing, `tcp = true` the TCPIP framing; every theorem holds in both.
-/
namespace Wl2k.Props.C14
open Wl2k Wl2k.Ardop

/-! ## CRC -/

/-- Regenerated constant: the register stays 16 bits wide only if `polynomial` fits in 16 bits. -/
theorem polynomial_fits : Gen.ardopPolynomial < 65536 := poly_lt

/-- **crc_spec.** The bit-serial shift register of `crc16Sum` computes a GF(2) polynomial remainder:
the bit string `0xFFFF ‖ data`, read as a polynomial, equals `q·G ⊕ crc16Sum data` for some quotient `q`,
where `G = x^16 + polynomial` and the checksum has degree below 16. -/
theorem crc_spec (d : Bytes) :
    (∃ qs, valFrom 0xffff (bitsOf d) = polyMul qs (generator Gen.ardopPolynomial) ^^^ crc16Sum d) ∧
      crc16Sum d < 65536 := by
  refine ⟨?_, crc16Sum_lt d⟩
  have := crcBits_spec poly_lt (bitsOf d) [] 0xffff (by decide)
  simpa [polyMul, crc16Sum, crc16With] using this

/-- **crc_spec (uniqueness).** The checksum is THE remainder: any `r` of degree below 16 with
`0xFFFF ‖ data = q·G ⊕ r` for some quotient is `crc16Sum data`. -/
theorem crc_unique (d : Bytes) (qs : List Bool) (r : Nat) (hr : r < 65536)
    (h : valFrom 0xffff (bitsOf d) = polyMul qs (generator Gen.ardopPolynomial) ^^^ r) :
    r = crc16Sum d := by
  obtain ⟨⟨qs', h'⟩, hc⟩ := crc_spec d
  have hp := poly_lt
  exact remainder_unique (g := generator Gen.ardopPolynomial) (by unfold generator; omega)
    (by unfold generator; omega) hr hc (h.symm.trans h')

/-- The generator of the current source tree is x^16 + x^15 + x^11 + x^4 (0x18810): the constant 0x8810 is
used as the low 16 coefficients. It is NOT the CCITT polynomial x^16 + x^12 + x^5 + 1 (0x11021) the source
comment names; the four vectors pinned by the repo's TestCRC16Sum hold for 0x8810 and fail for 0x1021. -/
theorem generator_value : generator Gen.ardopPolynomial = 0x18810 := by decide

example : crc16Sum [82, 68, 89, 13] = 55805 := by decide +kernel
example : crc16Sum [118, 111, 108, 117, 112, 116, 97, 116, 101, 109, 32, 97, 99, 99, 117, 115, 97, 110, 116, 105, 117, 109] = 24749 := by decide +kernel
example : crc16Sum [104, 97, 103, 97, 118, 105, 107] = 44843 := by decide +kernel
example : crc16Sum [76, 111, 114, 101, 109, 32, 105, 112, 115, 117, 109, 32, 100, 111, 108, 111, 114, 32, 115, 105, 116, 32, 97, 109, 101, 116, 44, 32, 99, 111, 110, 115, 101, 99, 116, 101, 116, 117, 114, 32, 97, 100, 105, 112, 105, 115, 99, 105, 110, 103, 32, 101, 108, 105, 116, 44, 32, 115, 101, 100, 32, 100, 111, 32, 101, 105, 117, 115, 109, 111, 100, 32, 116, 101, 109, 112, 111, 114] = 50066 := by decide +kernel
example : crc16With 0x1021 [82, 68, 89, 13] ≠ 55805 := by decide +kernel
example : crc16Sum [] = 65535 := by decide +kernel

/-! ## Host framing -/

/-- **host_frame_roundtrip (TNC → host, commands).** Whatever text (without CR) the TNC frames per the
interface spec, `readFrameOfType` returns exactly that text and leaves exactly the rest of the stream. -/
theorem host_frame_roundtrip_ctrl (tcp : Bool) (text rest : Bytes) (h : (13 : UInt8) ∉ text) :
    readFrame tcp (startType tcp false) (tncCtrl tcp text ++ rest) = .ok (.cmd text) rest :=
  host_reads_tnc_ctrl tcp text rest h

/-- **host_frame_roundtrip (TNC → host, data).** For every payload up to the limit of the 16-bit count
(3 type bytes + payload ≤ 65535) the frame reader returns the type tag and exactly the payload. -/
theorem host_frame_roundtrip_data (tcp : Bool) (typ p rest : Bytes) (ht : typ.length = 3)
    (hl : typ.length + p.length ≤ 65535) :
    readFrame tcp (startType tcp true) (tncData tcp typ p ++ rest) = .ok (.data typ p) rest :=
  host_reads_tnc_data tcp typ p rest ht hl

/-- **host_frame_roundtrip (host → TNC, commands).** A command written by `writeCtrlFrame` is what the spec's
TNC reads: prefix "C:", text, CR, CRC over text and CR (serial); text, CR (TCPIP). -/
theorem tnc_frame_roundtrip_ctrl (tcp : Bool) (str rest : Bytes) (h : (13 : UInt8) ∉ str) :
    tncRead tcp false (encCtrl tcp str ++ rest) = some (.cmd str, rest) :=
  tnc_reads_host_ctrl tcp str rest h

/-- **host_frame_roundtrip (host → TNC, data).** For every chunk of 0..65535 bytes the frame `Write` builds is
read by the spec's TNC as exactly that chunk: prefix "D:", big-endian count, data, CRC over count and data. -/
theorem tnc_frame_roundtrip_data (tcp : Bool) (p rest : Bytes) (hl : p.length ≤ 65535) :
    tncRead tcp true (encData tcp p ++ rest) = some (.data p, rest) :=
  tnc_reads_host_data tcp p rest hl

example : encData false [65, 66, 67] = [68, 58, 0, 3, 65, 66, 67, 211, 163] := by decide +kernel
example : encCtrl false [82, 68, 89] = [67, 58, 82, 68, 89, 13, 217, 253] := by decide +kernel
example : readFrame false 42 (tncData false [65, 82, 81] [1, 2] ++ [9]) = .ok (.data [65, 82, 81] [1, 2]) [9] := by
  decide +kernel

/-! ## Malformed input never panics -/

/-- **ctrl_parse_total.** `parseCtrlMsg` (every `parts[1]` checked) never panics, whatever the TNC sends. -/
theorem ctrl_parse_total (s : Bytes) : parseCtrlMsg s ≠ .panic := parseCtrlMsg_ne_panic s

/-- One `readFrameOfType` call never panics, for any stream and any frame type. -/
theorem read_frame_total (tcp : Bool) (ft : UInt8) (s : Bytes) : readFrame tcp ft s ≠ .panic :=
  readFrame_ne_panic tcp ft s

/-- `decodeTNCStream` on an arbitrary byte sequence never panics. -/
theorem decode_total (tcp : Bool) (ft : UInt8) (n : Nat) (s : Bytes) : Tok.panic ∉ decodeStream tcp ft n s :=
  decodeStream_no_panic tcp ft n s

/-- On every byte sequence the decoder reaches EOF: each non-EOF read consumes input, so a malformed stream
cannot make it spin (`startType` is one of the three frame types `runControlLoop` uses). -/
theorem decode_reaches_eof (tcp isData : Bool) (s : Bytes) :
    (decodeStream tcp (startType tcp isData) (s.length + 1) s).getLast? = some .eof := by
  apply decodeStream_ends _ _ _ _ s (Nat.lt_succ_self _)
  cases tcp <;> cases isData <;> simp [startType]

/-- The control loop on any sequence of frames (and API events) never panics: no index, slice or type
assertion can fail. Together with `decode_total`: arbitrary bytes on the control and data streams. -/
theorem loop_total (st : LoopState) (its : List Item) : Effect.panic ∉ (run st its).2 :=
  run_no_panic its st

/-- The guards are what keeps the panics away (the unrepaired code had none): a clause that needs
`parts[1]` panics when it is absent, and `data[2:5]` panics on a frame with a count below 3. -/
example : valueOf 1 none = none := by decide
example : goSlice [0, 2, 65, 82] 2 5 = none := by decide
example : parseCtrlMsg [80, 84, 84] = .ok ⟨[80, 84, 84], .bool false⟩ := by decide +kernel
example : readFrame true 100 [0, 2, 65, 82, 0, 3, 65, 82, 81] = .err .tooShort [0, 3, 65, 82, 81] := by decide +kernel
example : readFrame true 100 ([1, 44, 65, 82, 81] ++ List.replicate 297 7 ++ [0]) =
    .ok (.data [65, 82, 81] (List.replicate 297 7)) [0] := by decide +kernel

/-! ## Read: a reliable ordered byte stream for any caller buffer sizes -/

/-- **stream order.** While connected, the payloads handed to the connection are exactly the ARQ payloads
of the arriving data frames, in arrival order, whatever other frames (FEC/ERR/IDF data, PTT, BUFFER,
NEWSTATE ≠ DISC, BUSY, unknown or malformed commands) are interleaved. -/
theorem arq_in_order (st : LoopState) (its : List Item) (hc : st.connected = true)
    (hn : ∀ it ∈ its, endsConn it = false) :
    pushes (run st its).2 = its.filterMap arqOf :=
  run_arq its st hc hn

/-- **read_any_buf (nothing lost, nothing invented, order kept).** For any queue of payloads and any
sequence of caller buffer sizes, the bytes returned so far followed by the bytes still pending are
exactly the concatenated payloads. -/
theorem read_any_buf (st : RdState) (bufs : List Nat) :
    ((reads st bufs).1.flatMap RdRes.bytes) ++ (reads st bufs).2.pending = st.pending :=
  reads_conserves bufs st

/-- **read_any_buf (everything is delivered).** With non-empty buffers of any sizes, enough reads
(one per pending byte and frame at most) return exactly the concatenated payloads. -/
theorem read_any_buf_drains (payloads : List Bytes) (closed : Bool) (bufs : List Nat)
    (hpos : ∀ n ∈ bufs, 0 < n) (hlen : (payloads.map (·.length + 1)).sum ≤ bufs.length) :
    (reads ⟨payloads, closed, []⟩ bufs).1.flatMap RdRes.bytes = payloads.flatten := by
  have h1 := reads_conserves bufs ⟨payloads, closed, []⟩
  have h2 := reads_drain bufs ⟨payloads, closed, []⟩ hpos (by simpa [RdState.work] using hlen)
  rw [h2] at h1
  simpa [RdState.pending] using h1

/-- A read with a non-empty buffer never blocks and never reports EOF while anything is pending. -/
theorem read_progress_pending (st : RdState) (n : Nat) (hn : 0 < n) (hw : 0 < st.work) :
    (read st n).1 ≠ .block ∧ (read st n).1 ≠ .eof :=
  (read_progress st n hn hw).2

example : (reads ⟨[[1, 2, 3, 4, 5], [], [6]], true, []⟩ [2, 2, 2, 2, 2, 2]).1 =
    [.data [1, 2], .data [3, 4], .data [5], .data [], .data [6], .eof] := by decide

/-! ## Write -/

/-- **write_accounting (frames).** Whatever the TNC answers, every frame `Write` sends - first
transmission and retransmissions alike - is the one well-formed frame carrying the first
min(len p, 65535) bytes of `p`, as read by the spec's TNC. -/
theorem write_frames (tcp : Bool) (p : Bytes) (msgs : List WMsg) :
    ∀ f ∈ (write tcp p msgs).sent, f = encData tcp (cut p) ∧
      tncRead tcp true f = some (.data (p.take 65535), []) := by
  intro f hf
  unfold write at hf
  split at hf
  · simp at hf
  have h := writeRun_sent (encData tcp (cut p)) (cut p).length msgs 0 [encData tcp (cut p)] (by simp) f hf
  refine ⟨h, ?_⟩
  rw [h]
  have := tnc_reads_host_data tcp (cut p) [] (by simp [cut]; omega)
  simpa [cut] using this

/-- **write_accounting (accepted).** `k ≤ 2` CRCFAULT replies followed by a BUFFER report (other control
messages interleaved anywhere): `k + 1` transmissions, the result is `(min(len p, 65535), nil)` and the
flush lock is taken. -/
theorem write_accounting (tcp : Bool) (p : Bytes) (hp : p ≠ []) (msgs rest : List WMsg) (k : Nat) (hk : k ≤ 2)
    (hm : msgs.filter (· ≠ .other) = List.replicate k .crcFault ++ .buffer :: rest) :
    write tcp p msgs =
      ⟨List.replicate (k + 1) (encData tcp (cut p)), min p.length 65535, .nil, true,
        (k + 1) * min p.length 65535⟩ := by
  unfold write
  simp only [hp, if_false]
  rw [writeRun_other, hm]
  have hl : (cut p).length = min p.length 65535 := by simp [cut]; omega
  have : k = 0 ∨ k = 1 ∨ k = 2 := by omega
  rcases this with h | h | h <;> subst h <;> simp [writeRun, List.replicate, hl]

/-- **write_accounting (interface fault).** Three CRCFAULT replies: exactly three transmissions, then
`(0, "CRC failure")`, and the flush lock is not taken. -/
theorem write_three_faults (tcp : Bool) (p : Bytes) (hp : p ≠ []) (msgs rest : List WMsg)
    (hm : msgs.filter (· ≠ .other) = List.replicate 3 .crcFault ++ rest) :
    write tcp p msgs =
      ⟨List.replicate 3 (encData tcp (cut p)), 0, .crcFailure, false, 3 * min p.length 65535⟩ := by
  unfold write
  simp only [hp, if_false]
  rw [writeRun_other, hm]
  have hl : (cut p).length = min p.length 65535 := by simp [cut]; omega
  simp [writeRun, List.replicate, hl]

/-- A zero-length `Write` sends nothing (a data frame's count is 0001-FFFF) and returns `(0, nil)`. -/
theorem write_empty (tcp : Bool) (msgs : List WMsg) : write tcp [] msgs = ⟨[], 0, .nil, false, 0⟩ := rfl

example : (write true (List.replicate 70000 1) [.other, .crcFault, .buffer]).n = 65535 := by decide +kernel

/-! ## Flush -/

/-- **flush_after_zero.** In every interleaving of the three actors on the flush lock (control loop
`updateBuffer`, `Write`'s lock, `Flush`'s wait): if `Flush` returns nil after a `Write` was acknowledged,
the TNC reported `BUFFER 0` in between. (`BUFFER` with an unparsable parameter counts as 0, as in the code.) -/
theorem flush_after_zero (l : Bool) (pre mid post : List FEv) (l' : Bool)
    (h : frun l (pre ++ [.writeAck] ++ mid ++ [.flushOk] ++ post) = some l') :
    FEv.buffer 0 ∈ mid := by
  refine Classical.byContradiction fun hn => ?_
  simp only [List.append_assoc, frun_append] at h
  cases h1 : frun l pre with
  | none => simp [h1] at h
  | some l1 =>
    simp only [h1, Option.bind_some, frun, fstep] at h
    rcases frun_locked_stays mid hn with h2 | h2 <;> simp [h2] at h

example : frun false [.writeAck, .buffer 120, .buffer 0, .flushOk] = some false := by decide
example : frun false [.writeAck, .buffer 120, .flushOk] = none := by decide

/-! ## PTT -/

/-- **ptt_in_order.** The calls on the PTT controller are exactly the values of the PTT messages, in
arrival order, for any interleaving with other frames and events. -/
theorem ptt_in_order (st : LoopState) (its : List Item) (hs : st.pttSet = true) :
    pttCalls (run st its).2 = its.filterMap pttOf :=
  run_ptt its st hs

example : pttCalls (run { pttSet := true } [.frame (.cmd [80, 84, 84, 32, 84, 82, 85, 69]),
    .frame (.data [65, 82, 81] [1]), .frame (.cmd [80, 84, 84, 32, 70, 65, 76, 83, 69])]).2 = [true, false] := by
  decide +kernel

/-! ## Close -/

/-- **close_disconnects.** `Close` sends DISCONNECT to the TNC, and returns nil only after the TNC has
reported DISCONNECTED or NEWSTATE DISC. -/
theorem close_disconnects (msgs : List (Option CtrlMsg)) :
    (close msgs).1 = [Gen.ardop_cmdDisconnect] ∧
      ((close msgs).2 = .nil → ∃ m, some m ∈ msgs ∧ endsMsg m) :=
  ⟨rfl, closeWait_nil msgs⟩

/-! ## every connection carries the TNC's host-interface mode -/

/-- **conn_mode_propagated (regenerated fact).** In /repo's current source every place that builds a connection
value (`tncConn{…}`) — there are at least two: the dialled one in `DialBandwidth` and the ACCEPTED one in
`Listen` — sets `isTCP` from the TNC's own `isTCP`, and `Write` selects its framing by reading that field.
Together with `host_frame_roundtrip_data` (both framings) this is what makes "correctly framed over both the
TCP and the serial host interface" hold for accepted connections too, not only for dialled ones. -/
theorem conn_mode_propagated :
    2 ≤ Gen.ardopConnLiterals.length
    ∧ ["TNC.DialBandwidth", "TNC.Listen"].all (fun f => Gen.ardopConnLiterals.any (·.1 == f)) = true
    ∧ Gen.ardopConnLiterals.all (fun l => l.2.contains ("isTCP", "tnc.isTCP")) = true
    ∧ Gen.ardopWriteModeReads ≠ [] ∧ Gen.ardopWriteModeReads.all (· == "conn.isTCP") = true := by
  decide

end Wl2k.Props.C14
