import Wl2kVerif.Proofs.WholeFinal
import Wl2kVerif.Proofs.WholeSentMon
/-
C02 (continued) — `sent_implies_received` without the LZHUF round-trip hypothesis, and for WHOLE sessions (all
turns, handshake included; any schedule, any link cut; unbatched and batched handlers).  The round trip that
`Props/C02_order.lean` had to assume (`MsgOK.hrt`) is now the theorem `lz_roundtrip`, a corollary of
`Props.C06.roundtrip`.  Helpers: `Proofs/Whole{Lz,Inst,Gen,Send,Batch,Recv,Turns,Exch,Hs,Final,SentMon}.lean`.
-/
namespace Wl2k.Props.C02
open Wl2k Wl2k.B2F

/-- **`lz_roundtrip`.** The decoder call of `fetchAll` (`lzDecode` = `NewB2Reader`, `io.Copy` in 32 KiB
reads — the model passes fuel `size + 3` reads, which suffices —, `Close`) returns exactly `x` on
`compress true x`, for every `x` below 2 GiB (the `int32` size field). -/
theorem lz_roundtrip (x : Bytes) (hx : x.length < 2 ^ 31) : lzDecode (Lzhuf.compress true x) = some x :=
  B2F.lz_roundtrip x hx

/-- … with the error classification of `fetchAll` (`.ok`, never the EOF class or ErrChecksum) -/
theorem lz_roundtrip_E (x : Bytes) (hx : x.length < 2 ^ 31) : lzDecodeE (Lzhuf.compress true x) = .ok x :=
  B2F.lzDecodeE_compress x hx

/-- **`sent_implies_received_turn`** (one block; `sent_implies_received_partial` of `Props/C02_order.lean`
WITHOUT the round-trip hypothesis). Pair model of `Pair.lean`, reference handlers, ANY schedule, ANY `limit`
(link cut after k bytes) on either side. Side A runs one sender turn (`handleOutbound` from session state
`stA`, then returns); side B runs the REAL rest of a session that starts with the matching receiver turn.
In every reachable state: if A's trace contains `SetSent(m, false)`, then `m` is the MID of a message in A's
outbox whose queued bytes `msg.data` B's handler has ALREADY been handed by `processInbound`.
`MsgOK'` = validity of an offered message: MID without blank/CR, `|data| < 2^31`, compressed size < 2^63,
Q-title without NUL and ≤ 252 bytes, fuel above line and frame lengths. -/
theorem sent_implies_received_turn (ca cb : Cfg) (fuel nB : Nat) (stA stB : SState)
    (fA : Except SErr (Bool × SState) → Result) (hA hB : HState) (limA limB : Option Nat)
    (hhA : ca.hasHandler = true) (hnb : cb.batched = false) (hpol : ∀ x ∈ hB.policy, PlainAnswer x.2)
    (hqB : stB.quitReceived = false ∧ stB.quitSent = false)
    (hne : blockOf' ca (offered hA) ≠ []) (hmsg : ∀ msg ∈ offered hA, MsgOK' fuel msg)
    (hf5 : 5 < fuel) (hfN : (blockOf' ca (offered hA)).length + 3 < fuel)
    (hm1 : 1 ≤ ca.maxMsgLen) (hm2 : ca.maxMsgLen ≤ 255)
    {n : Nat} {t : Side × Side}
    (he : PairExec (initPair ((handleOutbound ca fuel stA).bind fun r => Proc.ret (fA r))
      (restOfSession cb fuel (nB + 1) false stB) hA hB limA limB) n t)
    (m : Bytes) (hsent : Ev.called (.setSent m false) ∈ t.1.evs) :
    ∃ msg ∈ hA.outbox, msg.mid = m ∧ Ev.called (.processInbound msg.data) ∈ t.2.evs := by
  rw [restOfSession_recv cb fuel nB stB hqB.1 hqB.2] at he
  exact turn_sent_implies_received_ref ca cb fuel stA stB fA _ hA hB limA limB hhA hnb hpol hne
    (fun msg hm => (hmsg msg hm).toMsgOK) hf5 hfN hm1 hm2 he m hsent

/-! ### whole sessions

Vocabulary (`Proofs/Whole*.lean`). `Good c fuel h`: the side has a handler (`hasHandler`) whose policy answers '+', '-' or
'=' only, either unbatched (`¬batched`) or batched (`GetInboundAnswers`) and complete (`batchedShort = none`: it returns one
answer per proposal it is asked about); every message in its outbox is valid (`MsgOK'`); `fuel > 5` and
`fuel > |outbox| + 3`; `1 ≤ maxMsgLen ≤ 255`; `1 ≤ maxBlock`. `SideOK c fuel h` adds: `Prepare` succeeds
(`¬prepareFails`); the handshake strings are well-formed (`HsWF c.hs`: no CR in calls and locator, no CR/LF in the
user-agent name and version, at least one forwarder address, each without CR, non-empty and ending in an ASCII byte
that is neither blank nor NUL); every MOTD line is one the slave's handshake reads over (`MotdOK`: no CR inside and,
after `cleanString`, not a SID, not a `;FW`/`;PQ` line and not ending in '>').
`restOfSession c fuel n myTurn st` = `turns c fuel n myTurn st` followed by `finish` (what `Exchange` does after the
handshake). `Con PA hA PB hB eA eB`: `eA`, `eB` are initial segments in time of the complete runs of `PA`, `PB` on
prefixes of what `eB`, `eA` wrote — true of the two event lists of every reachable state of every pair run
(`causal_prefix`). `HLe h' h`: `h'` is a later state of the reference handler `h` (same policy and `batchedShort`, no new
outbox entry). `SIR h eS eR`: every `SetSent(m, false)` in `eS` is the MID of a message of `h.outbox` whose bytes occur in a
`processInbound` call of `eR`. `NoConf evs`: no `SetSent(_, false)` in `evs`. -/

/-- **`turn_boundary_aligned`** (stream form; see `B2F.turn_boundary_aligned` for the reading): for a consistent
pair of partial traces of a session about to SEND and a session about to RECEIVE, either the property is settled
within this turn, or both sides have completed the turn in step and what remains is again a consistent pair of
partial traces of the residual sessions, with the roles swapped. -/
theorem turn_boundary_aligned (fuel nS nR : Nat) (cS cR : Cfg) (stS stR : SState) (hS hR : HState) (eS eR : List Ev)
    (gS : Good cS fuel hS) (gR : Good cR fuel hR)
    (hcon : Con (restOfSession cS fuel nS true stS) hS (restOfSession cR fuel nR false stR) hR eS eR) :
    (SIR hS eS eR ∧ SIR hR eR eS) ∨
    ∃ (eS' eR' TS TR : List Ev) (nS' nR' : Nat) (stS' stR' : SState) (hS' hR' : HState),
      nS' < nS ∧ nR' < nR ∧
      (∀ e ∈ eS, e ∈ eS' ∨ e ∈ TS) ∧ (∀ e ∈ eS', e ∈ eS) ∧ eR = eR' ++ TR ∧ HLe hS' hS ∧ HLe hR' hR ∧
      Con (restOfSession cR fuel nR' true stR') hR' (restOfSession cS fuel nS' false stS') hS' eR' eS' ∧
      NoConf TR ∧
      (∀ m, Ev.called (.setSent m false) ∈ TS →
        ∃ msg ∈ hS.outbox, msg.mid = m ∧ Ev.called (.processInbound msg.data) ∈ TR) :=
  B2F.turn_boundary_aligned fuel nS nR cS cR stS stR hS hR eS eR gS gR hcon

/-- **The handshake leaves both sides at complementary turn boundaries** (stream form, interface of
`Proofs/WholeExch.lean`, proved for all well-formed configurations): the slave's handshake reports a lost
connection without writing on every proper prefix of the master's handshake bytes and consumes exactly those
bytes otherwise; the master's reports a lost connection on every prefix of the slave's handshake bytes and
returns at the peek that sees the 'F' after them, leaving it unread. -/
theorem handshake_aligned (cM cS : Cfg) (fuel : Nat) (hmM : cM.hs.master = true) (hmS : cS.hs.master = false)
    (wfM : HsWF cM.hs) (wfS : HsWF cS.hs) (hmotd : ∀ l ∈ cM.motd, MotdOK l)
    (hfM : (hsBytesM cM).length < fuel) (hfS : (hsBytesS cS).length < fuel) :
    MasterHs cM fuel (hsBytesM cM) (hsBytesS cS) ∧ SlaveHs cS fuel (hsBytesM cM) (hsBytesS cS) :=
  ⟨masterHs_of_wf cM cS fuel hmM hmS wfS hfS, slaveHs_of_wf cM cS fuel hmM hmS wfM hmotd hfM⟩

/-- **`sent_implies_received_turns`**: all turns from ANY pair of complementary turn boundaries. Pair model of
`Pair.lean`, reference handlers, any schedule, any `limit` on either side; side 1 runs the rest of a session
that starts with a sender turn, side 2 one that starts with a receiver turn (any turn budgets, any session
states). In every reachable state, whatever EITHER side has reported sent is the MID of a message of its
outbox whose queued bytes the other side's handler has already been handed. -/
theorem sent_implies_received_turns (cS cR : Cfg) (fuel nS nR : Nat) (stS stR : SState) (hS hR : HState)
    (limS limR : Option Nat) (gS : Good cS fuel hS) (gR : Good cR fuel hR) {n : Nat} {t : Side × Side}
    (he : PairExec (initPair (restOfSession cS fuel nS true stS) (restOfSession cR fuel nR false stR) hS hR limS limR) n t) :
    (∀ m, Ev.called (.setSent m false) ∈ t.1.evs →
      ∃ msg ∈ hS.outbox, msg.mid = m ∧ Ev.called (.processInbound msg.data) ∈ t.2.evs) ∧
    (∀ m, Ev.called (.setSent m false) ∈ t.2.evs →
      ∃ msg ∈ hR.outbox, msg.mid = m ∧ Ev.called (.processInbound msg.data) ∈ t.1.evs) :=
  pair_turns_sir cS cR fuel nS nR stS stR hS hR limS limR gS gR he

/-- **`sent_implies_received`** (C02 headline). Pair model of `Pair.lean`: two WHOLE `exchange` programs — a
master (it writes its handshake first and receives first) and a slave —, reference handlers, ANY schedule, ANY
`limit` (link cut after k bytes) on either side. In every reachable state: if a side's trace contains
`SetSent(m, false)`, then `m` is the MID of a message in that side's outbox whose queued bytes `msg.data` the
OTHER side's handler has ALREADY been handed by `processInbound`.
Hypotheses: `SideOK` for both sides (see the vocabulary above) and `fuel` above the lengths of the two
handshakes (`hsBytesM cM` = MOTD lines and the master's `;FW:` / SID / `; … DE … (…)>` lines, `hsBytesS cS` = the
slave's three lines). Batched handlers are covered (`Good.nb`). NOT covered: a batched handler that returns too few
answers (the session panics: `answers-index-out-of-range`), handlers whose `Prepare` fails, a master that issues a
secure-login challenge (this master never does: `sendHandshake(writer, "")`). -/
theorem sent_implies_received (cM cS : Cfg) (fuel : Nat) (hM hS : HState) (limM limS : Option Nat)
    (hmM : cM.hs.master = true) (hmS : cS.hs.master = false) (okM : SideOK cM fuel hM) (okS : SideOK cS fuel hS)
    (hfM : (hsBytesM cM).length < fuel) (hfS : (hsBytesS cS).length < fuel) {n : Nat} {t : Side × Side}
    (he : PairExec (initPair (exchange cM fuel) (exchange cS fuel) hM hS limM limS) n t) :
    (∀ m, Ev.called (.setSent m false) ∈ t.1.evs →
      ∃ msg ∈ hM.outbox, msg.mid = m ∧ Ev.called (.processInbound msg.data) ∈ t.2.evs) ∧
    (∀ m, Ev.called (.setSent m false) ∈ t.2.evs →
      ∃ msg ∈ hS.outbox, msg.mid = m ∧ Ev.called (.processInbound msg.data) ∈ t.1.evs) :=
  pair_exchange_sir cM cS fuel hM hS limM limS hmM hmS okM okS hfM hfS he

/-- … in particular for the outcome of `pairRun` (whichever side is listed first) -/
theorem sent_implies_received_pairRun (cM cS : Cfg) (fuel : Nat) (hM hS : HState) (limM limS : Option Nat)
    (hmM : cM.hs.master = true) (hmS : cS.hs.master = false) (okM : SideOK cM fuel hM) (okS : SideOK cS fuel hS)
    (hfM : (hsBytesM cM).length < fuel) (hfS : (hsBytesS cS).length < fuel) :
    (∀ m, Ev.called (.setSent m false) ∈ (pairRun cM cS hM hS limM limS fuel).1.evs →
      ∃ msg ∈ hM.outbox, msg.mid = m ∧ Ev.called (.processInbound msg.data) ∈ (pairRun cM cS hM hS limM limS fuel).2.evs) ∧
    (∀ m, Ev.called (.setSent m false) ∈ (pairRun cM cS hM hS limM limS fuel).2.evs →
      ∃ msg ∈ hS.outbox, msg.mid = m ∧ Ev.called (.processInbound msg.data) ∈ (pairRun cM cS hM hS limM limS fuel).1.evs) ∧
    (∀ m, Ev.called (.setSent m false) ∈ (pairRun cS cM hS hM limS limM fuel).1.evs →
      ∃ msg ∈ hS.outbox, msg.mid = m ∧ Ev.called (.processInbound msg.data) ∈ (pairRun cS cM hS hM limS limM fuel).2.evs) ∧
    (∀ m, Ev.called (.setSent m false) ∈ (pairRun cS cM hS hM limS limM fuel).2.evs →
      ∃ msg ∈ hM.outbox, msg.mid = m ∧ Ev.called (.processInbound msg.data) ∈ (pairRun cS cM hS hM limS limM fuel).1.evs) := by
  obtain ⟨n1, e1⟩ := pairLoop_exec fuel fuel { proc := exchange cM fuel, h := hM, limit := limM }
    { proc := exchange cS fuel, h := hS, limit := limS }
  obtain ⟨n2, e2⟩ := pairLoop_exec fuel fuel { proc := exchange cS fuel, h := hS, limit := limS }
    { proc := exchange cM fuel, h := hM, limit := limM }
  obtain ⟨a1, a2⟩ := pair_exchange_sir cM cS fuel hM hS limM limS hmM hmS okM okS hfM hfS e1
  obtain ⟨b1, b2⟩ := pair_exchange_sir' cM cS fuel hM hS limM limS hmM hmS okM okS hfM hfS e2
  exact ⟨a1, a2, b1, b2⟩

/-- **`Exchange`'s list of sent MIDs is the list of its `SetSent(_, false)` calls** (single process, ANY input
— so any peer, any cut —, ANY handler): whenever a run of `exchange` returns `r`, `r.sent` is exactly the MIDs of the
`SetSent(_, false)` calls in its trace, in call order (`confOf`). With `sent_implies_received`: every MID an `Exchange`
reports as sent — also when it ends with an error — was handed to the peer's handler. -/
theorem result_sent_is_confirmed {H : Type} (hstep : H → Call → H × Reply) (c : Cfg) (fuel : Nat) (J : Bytes) (h : H) (r : Result)
    (hr : (Proc.run hstep (exchange c fuel) J h []).1 = .done r) :
    r.sent = confOf (Proc.run hstep (exchange c fuel) J h []).2.2.2 :=
  run_exchange_sent hstep c fuel J h r hr

/-- … in the pair model: in every reachable state (any schedule, any cut), for a side that has returned -/
theorem pair_result_sent_is_confirmed (cA cB : Cfg) (fuel : Nat) (hA hB : HState) (limA limB : Option Nat) {n : Nat}
    {t : Side × Side} (he : PairExec (initPair (exchange cA fuel) (exchange cB fuel) hA hB limA limB) n t) :
    (∀ r, t.1.ended = some (.done r) → r.sent = confOf t.1.evs) ∧ (∀ r, t.2.ended = some (.done r) → r.sent = confOf t.2.evs) :=
  ended_sent cA cB fuel hA hB limA limB he

/-! ### non-vacuity: the one-message session of `Proofs/WholeInst.lean`, evaluated by the kernel -/
open Wl2k.B2F.Ex1

example : lzDecode (Lzhuf.compress true []) = some [] := by decide +kernel

def fA0 : Except SErr (Bool × SState) → Result := fun _ => { err := .nil }
def sA : Side := { proc := (handleOutbound cS 200 {}).bind fun r => Proc.ret (fA0 r), h := hS0 }
def sB : Side := { proc := restOfSession cM 200 3 false {}, h := hM0 }

/-- the premise of `sent_implies_received_turn` is reachable: under the schedule of `pairLoop` the sender
does report the message sent (and the receiver's handler was handed the — empty — body); the hypotheses on
the message are `Ex1.msg1_ok` -/
example : Ev.called (.setSent [65, 66] false) ∈ (pairLoop 200 200 sA sB).1.evs ∧
    Ev.called (.processInbound []) ∈ (pairLoop 200 200 sA sB).2.evs := by decide +kernel
example : blockOf' cS (offered hS0) ≠ [] := by decide +kernel
example : ∀ msg ∈ offered hS0, MsgOK' 200 msg := by
  intro m hm
  have : m = msg1 := by simpa [offered, hS0] using hm
  rw [this]; exact msg1_ok

/-! #### whole sessions: the same instance as two `exchange` programs (`Ex1.ok_M`, `Ex1.ok_S`, `Ex1.fuel_M`,
`Ex1.fuel_S` are the hypotheses of `sent_implies_received`) -/

/-- fault-free: the slave reports the message sent, the master's handler has been handed it -/
example : Ev.called (.setSent [65, 66] false) ∈ (pairRun cM cS hM0 hS0 none none 200).2.evs ∧
    Ev.called (.processInbound []) ∈ (pairRun cM cS hM0 hS0 none none 200).1.evs := by decide +kernel

/-- the link towards the master cut after 68 of the 70 bytes it is to get (inside the frame): nothing is
reported sent, nothing is handed over; the master reports a lost connection -/
example : Ev.called (.setSent [65, 66] false) ∉ (pairRun cM cS hM0 hS0 (some 68) none 200).2.evs ∧
    Ev.called (.processInbound []) ∉ (pairRun cM cS hM0 hS0 (some 68) none 200).1.evs := by decide +kernel

/-- cut after 69 bytes — only the EOT checksum byte is lost, and the payload bytes sum to 0 mod 256 (the
observation at the end of `Props/C02_order.lean`): the read error of the checksum byte is returned, so the
master reports a lost connection like for every other cut; nothing is handed over, nothing is reported sent -/
example : Ev.called (.setSent [65, 66] false) ∉ (pairRun cM cS hM0 hS0 (some 69) none 200).2.evs ∧
    Ev.called (.processInbound []) ∉ (pairRun cM cS hM0 hS0 (some 69) none 200).1.evs := by decide +kernel

/-- the same with a BATCHED handler on the master's side (`Ex1.cMb`, hypotheses `Ex1.ok_Mb`, `Ex1.fuel_Mb`): one
`GetInboundAnswers` call instead of `GetInboundAnswer`, same outcome -/
example : Ev.called (.setSent [65, 66] false) ∈ (pairRun cMb cS hM0 hS0 none none 200).2.evs ∧
    Ev.called (.processInbound []) ∈ (pairRun cMb cS hM0 hS0 none none 200).1.evs ∧
    Ev.called (.getInboundAnswers [{ code := 67, mid := [65, 66], size := 0, csize := 6 }]) ∈
      (pairRun cMb cS hM0 hS0 none none 200).1.evs := by decide +kernel

example (limM limS : Option Nat) (m : Bytes)
    (h : Ev.called (.setSent m false) ∈ (pairRun cMb cS hM0 hS0 limM limS 200).2.evs) :
    ∃ msg ∈ hS0.outbox, msg.mid = m ∧ Ev.called (.processInbound msg.data) ∈ (pairRun cMb cS hM0 hS0 limM limS 200).1.evs :=
  (sent_implies_received_pairRun cMb cS 200 hM0 hS0 limM limS rfl rfl ok_Mb ok_S fuel_Mb fuel_S).2.1 m h

/-- the theorem applied to the instance (any cut on either side) -/
example (limM limS : Option Nat) (m : Bytes)
    (h : Ev.called (.setSent m false) ∈ (pairRun cM cS hM0 hS0 limM limS 200).2.evs) :
    ∃ msg ∈ hS0.outbox, msg.mid = m ∧ Ev.called (.processInbound msg.data) ∈ (pairRun cM cS hM0 hS0 limM limS 200).1.evs :=
  (sent_implies_received_pairRun cM cS 200 hM0 hS0 limM limS rfl rfl ok_M ok_S fuel_M fuel_S).2.1 m h

end Wl2k.Props.C02
