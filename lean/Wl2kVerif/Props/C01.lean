import Wl2kVerif.B2F.Pair
import Wl2kVerif.Proofs.FrameRT
import Wl2kVerif.Proofs.WireRT
import Wl2kVerif.Props.C06
/-
C01 — a completed exchange delivers every accepted message exactly once, intact.
The executable pair model (`B2F.pairRun`: two `exchange` programs joined by FIFO queues) is tied to the
real code by trace correspondence (wire bytes both ways, callbacks, statistics, error class) on every run.
Proved here: the element lemmas the delivery argument is made of (and where the property's named
mutations live). OPEN (not claimed as proved): `pair_delivers` for all scenarios and `kahn_confluent`
(schedule/segmentation independence) — these rest on correspondence + the delivery oracle on the real
code (MANIFEST level_note).
-/
namespace Wl2k.Props.C01
open Wl2k Wl2k.B2F

/-- Frame element: what `writeCompressed` emits for ANY payload, title and block size in 1..255,
`readCompressed` reads back exactly (header length byte, offset "0", chunking, checksum mod 256). -/
theorem frame_roundtrip {H : Type} (hstep : H → Call → H × Reply) (m : Nat) (hm1 : 1 ≤ m) (hm2 : m ≤ 255)
    (qtitle d rest : Bytes) (hq : (0 : UInt8) ∉ qtitle) (hlen : qtitle.length + 3 < 256)
    (p : Proposal) (hoff : p.offset = 0) (hcs : p.csize = (d.length : Int))
    (fuel : Nat) (hfuel : qtitle.length + d.length + 4 < fuel) (h : H) (tr : List Ev) :
    Proc.run hstep (readCompressed fuel p)
        (frameHeader qtitle 0 ++ (frameBlocks m d).flatten ++ frameTrailer d ++ rest) h tr =
      (.done (.ok d), rest, h, tr) :=
  B2F.frame_roundtrip hstep m hm1 hm2 qtitle d rest hq hlen p hoff hcs fuel hfuel h tr

/-- Answer element: the `FS` line for n proposals parses back to exactly those n answers. -/
theorem answers_roundtrip (limit : Nat) (as : List UInt8) (h : ∀ a ∈ as, PlainAnswer a) :
    parseProposalAnswer limit (fsPrefix ++ as) as.length = some (as.map (fun a => (a, (0 : Int)))) :=
  B2F.answers_roundtrip limit as h

/-- The order in which messages are proposed: `sortProposals` returns a permutation of its input. -/
theorem sort_perm (ps : List Proposal) : (sortProposals ps).length = ps.length := by
  unfold sortProposals
  induction ps with
  | nil => rfl
  | cons p t ih =>
    simp only [List.foldr_cons, List.length_cons]
    rw [← ih]
    generalize List.foldr insertSorted [] t = l
    induction l with
    | nil => rfl
    | cons q qs ihq =>
      simp only [insertSorted]
      split
      · rfl
      · simp [ihq]

/-- The compressed bytes offered do not depend on how the sender's writes were chunked (C06). -/
theorem payload_chunk_independent (xs : List Bytes) :
    (xs.foldl Lzhuf.Writer.write (Lzhuf.Writer.new true)).close = Lzhuf.compress true xs.flatten :=
  Props.C06.compress_split_indep true xs

end Wl2k.Props.C01
