import Wl2kVerif.B2F.Pair
import Wl2kVerif.Proofs.FrameRT
import Wl2kVerif.Proofs.WireRT
import Wl2kVerif.Props.C06
/-
C01 — a completed exchange delivers every accepted message exactly once, intact.
The executable pair model (`B2F.pairRun`: two `exchange` programs joined by FIFO queues) is tied to the
real code by trace correspondence (wire bytes both ways, callbacks, statistics, error class) on every run.
Proved here: the element lemmas the delivery argument is made of (and where the property's named
mutations live). OPEN (not claimed as proved): `pair_delivers` for all scenarios and `kahn_confluent`
(schedule/segmentation independence) — these rest on correspondence + the delivery oracle on the real
code (MANIFEST level_note).
-/
namespace Wl2k.Props.C01
open Wl2k Wl2k.B2F

/-- Frame element: what `writeCompressed` emits for ANY payload, title and block size in 1..255,
`readCompressed` reads back exactly (header length byte, offset "0", chunking, checksum mod 256). -/
theorem frame_roundtrip {H : Type} (hstep : H → Call → H × Reply) (m : Nat) (hm1 : 1 ≤ m) (hm2 : m ≤ 255)
    (qtitle d rest : Bytes) (hq : (0 : UInt8) ∉ qtitle) (hlen : qtitle.length + 3 < 256)
    (p : Proposal) (hoff : p.offset = 0) (hcs : p.csize = (d.length : Int))
    (fuel : Nat) (hfuel : qtitle.length + d.length + 4 < fuel) (h : H) (tr : List Ev) :
    Proc.run hstep (readCompressed fuel p)
        (frameHeader qtitle 0 ++ (frameBlocks m d).flatten ++ frameTrailer d ++ rest) h tr =
      (.done (.ok d), rest, h, tr) :=
  B2F.frame_roundtrip hstep m hm1 hm2 qtitle d rest hq hlen p hoff hcs fuel hfuel h tr

/-- Answer element: the `FS` line for n proposals parses back to exactly those n answers. -/
theorem answers_roundtrip (limit : Nat) (as : List UInt8) (h : ∀ a ∈ as, PlainAnswer a) :
    parseProposalAnswer limit (fsPrefix ++ as) as.length = some (as.map (fun a => (a, (0 : Int)))) :=
  B2F.answers_roundtrip limit as h

theorem insertSorted_perm (p : Proposal) : ∀ l : List Proposal, (insertSorted p l).Perm (p :: l)
  | [] => List.Perm.refl _
  | q :: qs => by
    simp only [insertSorted]
    split
    · exact List.Perm.refl _
    · exact ((insertSorted_perm p qs).cons q).trans (List.Perm.swap p q qs)

/-- The order in which messages are proposed: `sortProposals` returns a PERMUTATION of its input -
no queued message is dropped from, duplicated in or invented for the proposal list. -/
theorem sort_perm (ps : List Proposal) : (sortProposals ps).Perm ps := by
  unfold sortProposals
  induction ps with
  | nil => exact List.Perm.refl _
  | cons p t ih => exact (insertSorted_perm p _).trans (ih.cons p)

theorem sort_length (ps : List Proposal) : (sortProposals ps).length = ps.length := (sort_perm ps).length_eq

theorem bytesLt_asymm : ∀ a b : Bytes, bytesLt a b = true → bytesLt b a = false
  | [], [], h => by simp [bytesLt] at h
  | [], _ :: _, _ => by simp [bytesLt]
  | _ :: _, [], h => by simp [bytesLt] at h
  | x :: xs, y :: ys, h => by
    simp only [bytesLt] at h ⊢
    by_cases h1 : x < y
    · have h2 : ¬ y < x := fun h2 => absurd (UInt8.lt_trans h1 h2) (UInt8.lt_irrefl x)
      simp [h2, h1]
    · by_cases h2 : y < x
      · simp [h1, h2] at h
      · simp only [h1, h2, if_false] at h ⊢
        exact bytesLt_asymm xs ys h

/-- `propLe` is total: of two proposals one may always go first. -/
theorem propLe_total (a b : Proposal) (h : propLe a b = false) : propLe b a = true := by
  unfold propLe at h ⊢
  simp only at h ⊢
  by_cases hp : precedence a.title = precedence b.title
  · have hp' : precedence b.title = precedence a.title := hp.symm
    by_cases hc : a.csize = b.csize
    · have hc' : b.csize = a.csize := hc.symm
      simp only [hp, hc, ne_eq, not_true_eq_false, if_false, Bool.not_eq_false'] at h
      simp only [hp', hc', ne_eq, not_true_eq_false, if_false, Bool.not_eq_true']
      exact bytesLt_asymm _ _ h
    · have hc' : ¬ b.csize = a.csize := fun e => hc e.symm
      simp only [hp, hc, ne_eq, not_true_eq_false, not_false_eq_true, if_false, if_true, decide_eq_false_iff_not] at h
      simp only [hp', hc', ne_eq, not_true_eq_false, not_false_eq_true, if_false, if_true, decide_eq_true_eq]
      omega
  · have hp' : ¬ precedence b.title = precedence a.title := fun e => hp e.symm
    simp only [hp, ne_eq, not_false_eq_true, if_true, decide_eq_false_iff_not] at h
    simp only [hp', ne_eq, not_false_eq_true, if_true, decide_eq_true_eq]
    omega

/-- neighbours are in `propLe` order -/
def AdjSorted : List Proposal → Prop
  | [] => True
  | [_] => True
  | a :: b :: t => propLe a b = true ∧ AdjSorted (b :: t)

theorem insertSorted_adj (p : Proposal) : ∀ l : List Proposal, AdjSorted l → AdjSorted (insertSorted p l)
  | [], _ => trivial
  | [q], _ => by
    simp only [insertSorted]
    split
    · rename_i h; exact ⟨h, trivial⟩
    · rename_i h; exact ⟨propLe_total p q (by simpa using h), trivial⟩
  | q :: r :: t, hs => by
    simp only [insertSorted]
    split
    · rename_i h; exact ⟨h, hs⟩
    · rename_i h
      have ih := insertSorted_adj p (r :: t) hs.2
      simp only [insertSorted] at ih ⊢
      split
      · rename_i h2; exact ⟨propLe_total p q (by simpa using h), h2, hs.2⟩
      · rename_i h2
        simp only [h2, if_false] at ih
        exact ⟨hs.1, ih⟩

/-- **Proposal order**: what `sortProposals` returns is ordered by precedence (//WL2K Z/ before O/ before P/
before the rest), then by compressed size, then by MID - each neighbour pair is in that order. -/
theorem sort_sorted (ps : List Proposal) : AdjSorted (sortProposals ps) := by
  unfold sortProposals
  induction ps with
  | nil => trivial
  | cons p t ih => exact insertSorted_adj p _ ih

/-- The compressed bytes offered do not depend on how the sender's writes were chunked (C06). -/
theorem payload_chunk_independent (xs : List Bytes) :
    (xs.foldl Lzhuf.Writer.write (Lzhuf.Writer.new true)).close = Lzhuf.compress true xs.flatten :=
  Props.C06.compress_split_indep true xs

end Wl2k.Props.C01
