import Wl2kVerif.Props.C03
import Wl2kVerif.Proofs.Term
import Wl2kVerif.Proofs.TermIndep
/-
C03 (termination part) — no byte sequence from the remote can make a session loop forever.
Every loop of the session model carries fuel and ends in the artificial `panic "fuel"` when it runs out.
`exchange_nf` walks the whole program with the exact number of unread input bytes as index and shows that
every loop iteration either consumes at least one byte or ends the loop, so a fuel that merely exceeds the
input length is never exhausted; `exchange_ref` shows that the fuel has no other influence on a run.
-/
namespace Wl2k.Props.C03
open Wl2k Wl2k.B2F

/-- **No byte sequence can make the session loop forever.** For every configuration, every handler (any
state machine, any replies) and every byte string `input` the remote sends before the connection ends,
a run of `Exchange` with fuel greater than `input.length` never reaches the artificial "fuel" outcome:
every loop of `Exchange` (`ReadString`, the handshake line loop, the proposal-answer loop, the inbound
command loop, the block loop of `readCompressed`) consumes at least one byte per iteration or ends, a
successful handshake has consumed the SID line, and of two consecutive turns the remote's one consumes at
least the three bytes of its `FF`/`FQ`/`F>` line. The bound is exact (see the examples below). -/
theorem session_terminates {H : Type} (hstep : H → Call → H × Reply) (c : Cfg) (input : Bytes) (h : H)
    (fuel : Nat) (hf : input.length < fuel) :
    ∀ s, (Proc.run hstep (exchange c fuel) input h []).1 = .panicked s → s ≠ "fuel" := by
  intro s hs
  have := run_nf hstep input h [] (exchange_nf c fuel input.length hf)
  revert this hs
  generalize Proc.run hstep (exchange c fuel) input h [] = r
  obtain ⟨e, rest⟩ := r
  intro hs
  simp only at hs
  subst hs
  exact id

/-- With enough fuel the only way `Exchange` does not return is the index panic of a misbehaving local
BATCHED handler. -/
theorem session_total {H : Type} (hstep : H → Call → H × Reply) (c : Cfg) (input : Bytes) (h : H)
    (fuel : Nat) (hf : input.length < fuel) :
    (∃ r, (Proc.run hstep (exchange c fuel) input h []).1 = .done r) ∨
      (c.batched = true ∧ (Proc.run hstep (exchange c fuel) input h []).1 = .panicked "answers-index-out-of-range") := by
  have h1 := session_no_panic hstep c fuel input h
  have h2 := session_terminates hstep c input h fuel hf
  revert h1 h2
  cases (Proc.run hstep (exchange c fuel) input h []).1 with
  | done r => intro _ _; exact Or.inl ⟨r, rfl⟩
  | panicked s =>
    intro h1 h2
    rcases h1 with h1 | ⟨hb, rfl⟩
    · exact absurd h1 (h2 s rfl)
    · exact Or.inr ⟨hb, rfl⟩
  | blocked => intro h1; exact h1.elim

/-- **`Exchange` returns on every input**: with an unbatched handler and enough fuel, the run against any
byte string ends by RETURNING a result (no crash, no hang, no fuel-out). -/
theorem session_returns_result {H : Type} (hstep : H → Call → H × Reply) (c : Cfg) (hb : c.batched = false)
    (input : Bytes) (h : H) (fuel : Nat) (hf : input.length < fuel) :
    ∃ r, (Proc.run hstep (exchange c fuel) input h []).1 = .done r := by
  rcases session_total hstep c input h fuel hf with hr | ⟨hb', _⟩
  · exact hr
  · rw [hb] at hb'; cases hb'

/-- **The fuel is not observable**: above the bound, the whole run (outcome, unread input, handler state,
trace of writes/calls/peeks) is the same for every fuel value — so the model's results are results of the
fuel-free Go loops. -/
theorem session_fuel_indep {H : Type} (hstep : H → Call → H × Reply) (c : Cfg) (input : Bytes) (h : H)
    (fuel fuel' : Nat) (hf : input.length < fuel) (hf' : input.length < fuel') :
    Proc.run hstep (exchange c fuel) input h [] = Proc.run hstep (exchange c fuel') input h [] := by
  have key : ∀ f f', input.length < f → f ≤ f' →
      Proc.run hstep (exchange c f) input h [] = Proc.run hstep (exchange c f') input h [] := by
    intro f f' hlt hle
    rcases run_ref hstep (exchange_ref c f f' hle) input h [] with hp | he
    · exact absurd rfl (session_terminates hstep c input h f hlt _ hp)
    · exact he
  rcases Nat.le_total fuel fuel' with hle | hle
  · exact key fuel fuel' hf hle
  · exact (key fuel' fuel hf' hle).symm

/-! Non-vacuity (kernel-evaluated runs): the "fuel" outcome IS reachable below the bound, so the hypothesis
is needed and the bound `input.length < fuel` is exact: three bytes without a CR exhaust fuel 3 (in
`ReadString`) and are handled with fuel 4 (`Exchange` returns ErrConnLost). -/

private def cfg0 : Cfg :=
  { hs := { mycall := [65], targetcall := [66], locator := [], uaName := [67], uaVersion := [49],
            master := false, gzip := false, hasCb := false, localFW := [] } }
private def hs0 : Unit → Call → Unit × Reply := fun _ _ => ((), .unit)

example : (match (Proc.run hs0 (exchange cfg0 3) [65, 66, 67] () []).1 with
    | .panicked s => s == "fuel" | _ => false) = true := by decide
example : (match (Proc.run hs0 (exchange cfg0 4) [65, 66, 67] () []).1 with
    | .done r => r.err == .connLost | _ => false) = true := by decide
example : (match (Proc.run hs0 (exchange cfg0 1) [] () []).1 with
    | .done r => r.err == .connLost | _ => false) = true := by decide

/-- a complete session within the bound: `[W-5-B2F$]\r`, `C>\r`, then (after our `FF`) the remote's `FQ\r`
— 17 bytes, fuel 18: handshake, one turn each way, `Exchange` returns nil -/
example : (match (Proc.run hs0 (exchange cfg0 18)
      [91, 87, 45, 53, 45, 66, 50, 70, 36, 93, 13, 67, 62, 13, 70, 81, 13] () []).1 with
    | .done r => r.err == .nil | _ => false) = true := by decide +kernel

end Wl2k.Props.C03
