import Wl2kVerif.Proofs.MboxConfine
import Wl2kVerif.Gen.Tables
/-
C12 — the mailbox never touches files outside its own directory.

`Std.Path` is a transcription of Go's `path.Clean/Join` (differential-checked on every run);
`validMID` is the check added to `mailbox/syncdir.go`; `FS.touched` logs every path handed to a
mutating system call (create/truncate, rename source and target, unlink) by the DirHandler model.
-/
namespace Wl2k.Props.C12
open Wl2k Wl2k.Mbox Wl2k.Path

/-- **For EVERY configured mailbox path (relative, unclean, containing `..`, anything but empty) and
every MID that passes `validMID`, the file name the mailbox builds lies under `Clean(root)`** — for
each of the four folders and both ways the code joins (three elements at once). -/
theorem join_confined (root mid : Bytes) (f : Folder) (hr : root ≠ []) (h : validMID mid = true) :
    isUnder (clean root) (msgPath3 root f mid) = true :=
  join_confined_elem root (mid ++ Mbox.ext) f hr (elem_name h)

/-- The temporary name used by `writeFileAtomic` is confined as well. -/
theorem join_confined_tmp (root mid : Bytes) (f : Folder) (hr : root ≠ []) (h : validMID mid = true) :
    isUnder (clean root) (Path.join [root, f.dir, mid ++ Mbox.ext ++ tmpExt]) = true := by
  have hv := validMID_spec h
  have hh : (mid ++ Mbox.ext).head? ≠ some 46 := by
    cases hm : mid with
    | nil => exact absurd hm hv.1
    | cons a t => have := hv.2.1; rw [hm] at this; simpa using this
  exact join_confined_elem root _ f hr (elem_tmp (elem_name h) hh)

/-- **Every path any operation creates, truncates, renames or deletes — after ANY history, for ALL
MID strings and Mid header values, in both modes — lies under the mailbox directory.**
(`Prepare` creates the mailbox directory itself and is not logged; the mailbox path is a clean
absolute path.) -/
theorem store_confined (C : Codec) (hl : C.Lawful) (root : FPath) (hr : NormalRoot root)
    (sendOnly : Bool) (ops : List Op) :
    ∀ p ∈ (run C (DState.init root sendOnly) ops).1.fs.touched, isUnder (clean root) p = true := by
  intro p hp
  have := run_touched hl hr ops (rel_init C root sendOnly) (by intro q hq; simp [DState.init] at hq)
  obtain ⟨f, n, rfl⟩ := this p hp
  exact isUnder_fp hr f n

/-- **A MID that is not a plain file name never reaches the file system**: storing is refused with
an error, the proposal is deferred, `SetSent` fails like any failed move — and the state (files and
write log) is unchanged. For every state, root and codec. -/
theorem unsafe_mid_rejected (C : Codec) (d : DState) (m : Msg) (h : validMID m.mid = false) :
    processInbound C d [m] = (d, .err) ∧ addOut C d m = (d, .err) ∧
    setSent d m.mid = (d, .fatal) ∧ (getInboundAnswer d m.mid = .defer) ∧
    (setDeferred d m.mid).1.fs = d.fs := by
  refine ⟨by simp [processInbound, h], by simp [addOut, h], by simp [setSent, h], ?_, ?_⟩
  · unfold getInboundAnswer; cases d.h.sendOnly <;> simp [h]
  · unfold setDeferred; split <;> rfl

/-- What `validMID` excludes: the empty string, a leading dot (hence `.` and `..`), and any `/`, `\` or NUL. -/
theorem validMID_iff (mid : Bytes) :
    validMID mid = true ↔ mid ≠ [] ∧ mid.head? ≠ some 46 ∧ (47 : UInt8) ∉ mid ∧ (92 : UInt8) ∉ mid ∧ (0 : UInt8) ∉ mid := by
  unfold validMID
  simp only [Bool.and_eq_true, decide_eq_true_eq, bne_iff_ne, ne_eq, Bool.not_eq_true', List.any_eq_false,
    Bool.or_eq_true, not_or]
  constructor
  · rintro ⟨⟨h1, h2⟩, h3⟩
    exact ⟨h1, h2, fun hm => (h3 _ hm).1.1 rfl, fun hm => (h3 _ hm).1.2 rfl, fun hm => (h3 _ hm).2 rfl⟩
  · rintro ⟨h1, h2, h3, h4, h5⟩
    refine ⟨⟨h1, h2⟩, ?_⟩
    intro b hb
    exact ⟨⟨fun e => h3 (e ▸ hb), fun e => h4 (e ▸ hb)⟩, fun e => h5 (e ▸ hb)⟩

/-- The defect that was repaired, as a kernel-evaluated fact about Go's `path.Join`: without the
check, `Mid: ../../x` in a mailbox at `/a/m` names `/a/x.b2f`, outside `/a/m`. -/
theorem unchecked_mid_escapes :
    msgPath3 [47, 97, 47, 109] .inbox [46, 46, 47, 46, 46, 47, 120] = [47, 97, 47, 120, 46, 98, 50, 102] ∧
    isUnder (clean [47, 97, 47, 109]) (msgPath3 [47, 97, 47, 109] .inbox [46, 46, 47, 46, 46, 47, 120]) = false := by
  decide

/-- The folder names and the extension of the model are those of /repo's current source
(`Gen.Tables` is regenerated from `mailbox/syncdir.go` on every run). -/
theorem source_constants :
    Gen.mailboxDIR_INBOX.map UInt8.ofNat = Folder.inbox.dir ∧ Gen.mailboxDIR_OUTBOX.map UInt8.ofNat = Folder.outbox.dir ∧
    Gen.mailboxDIR_SENT.map UInt8.ofNat = Folder.sent.dir ∧ Gen.mailboxDIR_ARCHIVE.map UInt8.ofNat = Folder.archive.dir ∧
    Gen.mailboxExt.map UInt8.ofNat = Mbox.ext := by decide

/-! ### Non-vacuity -/

example : validMID [65, 66, 67] = true := by decide
example : validMID [46, 46, 47, 120] = false := by decide
/-- An unclean relative root: `x/../m/` with MID `AB` gives `m/in/AB.b2f`, under `Clean = m`. -/
example : msgPath3 [120, 47, 46, 46, 47, 109, 47] .inbox [65, 66] = [109, 47, 105, 110, 47, 65, 66, 46, 98, 50, 102] ∧
    clean [120, 47, 46, 46, 47, 109, 47] = [109] := by decide
/-- The write log of a concrete history is non-empty (the theorem is not about an empty set). -/
example : (run Toy.codec (DState.init [47, 109] false)
    [.prepare, .processInbound [⟨[65], [], none, none, none, 1⟩]]).1.fs.touched =
    [[47, 109, 47, 105, 110, 47, 65, 46, 98, 50, 102, 46, 116, 109, 112],
     [47, 109, 47, 105, 110, 47, 65, 46, 98, 50, 102, 46, 116, 109, 112],
     [47, 109, 47, 105, 110, 47, 65, 46, 98, 50, 102]] := by decide

end Wl2k.Props.C12
