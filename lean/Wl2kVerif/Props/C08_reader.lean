import Wl2kVerif.Proofs.Reader
/-
C08 — the decompressor READ LOOP is safe on arbitrary input (model: `Lzhuf/Reader.lean`, after the `fix:`
commits).  Everything here holds for EVERY reader state / EVERY byte string: the bit reader and the
adaptive Huffman decoder (`decodeChar`, `decodePosition`) are black boxes that only touch the fields
`h bpos pulled bn bbits berr` (frame lemmas in `Proofs/Reader.lean`), so no Huffman-tree invariant is used.
Helper definitions (`Inv`, `readsWith`, `errsWith`, `okCount`, `Reader.norm`) live in `Proofs/Reader.lean`.
-/
namespace Wl2k.Props.C08
open Wl2k Wl2k.Lzhuf

/-! ### 1. accounting for the two loops of `Read` -/

/-- **Match-copy loop.** Every byte decoded goes to the caller's buffer (`out`) or to `pending`; the
declared size is untouched; the bound `pos ≤ max 0 size` is preserved; exactly `room − room'` bytes went
into the caller's buffer. -/
theorem copyMatch_account (d : Reader) (i : Nat) (out : Bytes) (room k j : Nat)
    (d' : Reader) (out' : Bytes) (room' : Nat) (stop : Bool)
    (h : d.copyMatch i out room k j = (d', out', room', stop)) :
    out'.length + d'.pending.length + d.pos = out.length + d.pending.length + d'.pos ∧
    d'.size = d.size ∧
    ((d.pos : Int) ≤ max 0 d.size → (d'.pos : Int) ≤ max 0 d'.size) ∧
    out'.length + room' = out.length + room ∧ out'.length ≤ out.length + room := by
  have a := copyMatch_acc d i out room k j
  rw [h] at a
  have hr : out'.length + room' = out.length + room := a.roomAcct
  exact ⟨a.acct, a.size, a.size ▸ a.bound, hr, by omega⟩

/-- **Decode loop.** Same accounting for `fill` (any fuel). -/
theorem fill_account (d : Reader) (out : Bytes) (room fuel : Nat) (d' : Reader) (out' : Bytes)
    (h : d.fill out room fuel = (d', out')) :
    out'.length + d'.pending.length + d.pos = out.length + d.pending.length + d'.pos ∧
    d'.size = d.size ∧
    ((d.pos : Int) ≤ max 0 d.size → (d'.pos : Int) ≤ max 0 d'.size) ∧
    out.length ≤ out'.length ∧ out'.length ≤ out.length + room := by
  have a := fill_acc d out room fuel
  rw [h] at a
  exact ⟨a.acct, a.size, a.size ▸ a.bound, a.out_le, a.room_le⟩

/-! ### 2. one `Read` -/

/-- **One `Read(p)`, `len(p) = m`**: at most `m` bytes; every byte decoded is either returned or kept in
`pending`; the stream invariant `Inv` (`pos ≤ max 0 size ∧ |pending| ≤ pos`) is preserved. -/
theorem read_account (d : Reader) (m : Nat) (d' : Reader) (bs : Bytes) (e : Option RErr)
    (h : d.read m = (d', bs, e)) :
    bs.length ≤ m ∧
    bs.length + d'.pending.length + d.pos = d.pending.length + d'.pos ∧
    d'.size = d.size ∧
    (Inv d → Inv d') := by
  have a := read_acc d m
  have i := read_inv d m
  rw [h] at a i
  exact ⟨a.len_le, a.acct, a.size, i⟩

/-- `Inv` holds for every reader `NewReader` can return. -/
theorem inv_new (crc16 : Bool) (s : Bytes) (d : Reader) (h : Reader.new crc16 s = .ok d) : Inv d :=
  new_inv crc16 s d h

/-! ### 3. never more than the declared size -/

/-- **`read_bounded`** — for every byte string `s`, either header format, and every sequence of buffer
sizes (zero sizes and reads after an error included), the total number of bytes handed out is at most
the size declared in the header (nothing at all for a negative size). -/
theorem read_bounded (crc16 : Bool) (s : Bytes) (d : Reader) (ns : List Nat)
    (h : Reader.new crc16 s = .ok d) :
    ((readsWith d ns).2.length : Int) ≤ max 0 d.size := by
  obtain ⟨hp, hq, -, -⟩ := new_fields crc16 s d h
  obtain ⟨a1, a2, a3⟩ := readsWith_acc d ns
  have i := a3 (new_inv crc16 s d h)
  rw [hp, hq] at a2
  have := i.1
  rw [a1] at this
  simp only [List.length_nil] at a2
  omega

/-- the same from any state satisfying the invariant: what is still to come is bounded by `size − delivered` -/
theorem read_bounded_from (d : Reader) (ns : List Nat) (h : Inv d) :
    ((readsWith d ns).2.length : Int) + (d.pos - d.pending.length) ≤ max 0 d.size := by
  obtain ⟨a1, a2, a3⟩ := readsWith_acc d ns
  have i := a3 h
  have := i.1
  rw [a1] at this
  omega

/-! ### 4. progress and termination -/

/-- **`read_progress`** — no zero-progress spin: a `Read` into a non-empty buffer that returns `err == nil`
returned at least one byte.  Holds for EVERY reader state (no invariant needed). -/
theorem read_progress (d : Reader) (m : Nat) (d' : Reader) (bs : Bytes)
    (hm : 0 < m) (h : d.read m = (d', bs, none)) : 1 ≤ bs.length := by
  have := read_progress' d m hm (by rw [h])
  rw [h] at this
  exact this

/-- **`read_terminates`** (count form) — in any sequence of reads with non-empty buffers on a new reader,
at most `max 0 size` of them return `err == nil`. -/
theorem read_terminates (crc16 : Bool) (s : Bytes) (d : Reader) (ns : List Nat)
    (h : Reader.new crc16 s = .ok d) (hpos : ∀ n ∈ ns, 0 < n) :
    okCount d ns ≤ (max 0 d.size).toNat := by
  have h1 := okCount_le d ns hpos
  have h2 := read_bounded crc16 s d ns h
  omega

/-- **`read_terminates`** (index form) — … hence among the first `max 0 size + 1` reads one returns an
error (`io.EOF`, `io.ErrUnexpectedEOF` or `ErrChecksum`): an `io.Copy`-style loop stops. -/
theorem read_terminates_index (crc16 : Bool) (s : Bytes) (d : Reader) (ns : List Nat)
    (h : Reader.new crc16 s = .ok d) (hpos : ∀ n ∈ ns, 0 < n) (hlen : (max 0 d.size).toNat < ns.length) :
    ∃ k e, k ≤ (max 0 d.size).toNat ∧ (errsWith d ns)[k]? = some (some e) := by
  have hpos' : ∀ n ∈ ns.take ((max 0 d.size).toNat + 1), 0 < n := fun n hn => hpos n (List.mem_of_mem_take hn)
  have h1 := read_terminates crc16 s d _ h hpos'
  rcases okCount_or_err d (ns.take ((max 0 d.size).toNat + 1)) with h2 | ⟨e, h2⟩
  · rw [h2, List.length_take] at h1
    omega
  · rw [errsWith_take, List.mem_take_iff_getElem] at h2
    obtain ⟨k, hk, hk2⟩ := h2
    refine ⟨k, e, by omega, ?_⟩
    rw [← hk2]
    exact List.getElem?_eq_getElem _

/-- Once a `Read` has returned ANY error (`io.EOF` included) the reader is frozen: no data with that
error, and every later `Read` returns an error, no data and leaves the state unchanged. -/
theorem read_error_absorbing (d : Reader) (m : Nat) (d' : Reader) (bs : Bytes) (e : RErr)
    (h : d.read m = (d', bs, some e)) :
    bs = [] ∧ ∀ ns, readsWith d' ns = (d', []) ∧ ∀ x ∈ errsWith d' ns, x ≠ none := by
  have a := read_err_fix d m e (by rw [h])
  rw [h] at a
  exact ⟨a.1, fun ns => readsWith_frozen d' a.2.2 ns⟩

/-! ### 5. integrity errors are sticky -/

/-- **`err_sticky`** — once a `Read` returned `io.ErrUnexpectedEOF` or `ErrChecksum`, every later `Read`
returns an error or EOF and never data, and `Close` reports an error whenever it is called. -/
theorem err_sticky (d : Reader) (m : Nat) (d' : Reader) (bs : Bytes) (e : RErr)
    (h : d.read m = (d', bs, some e)) (he : e = .unexpectedEOF ∨ e = .checksum) (ns : List Nat) :
    (readsWith d' ns).2 = [] ∧ (∀ x ∈ errsWith d' ns, x ≠ none) ∧ (readsWith d' ns).1.close ≠ none := by
  obtain ⟨-, hf⟩ := read_error_absorbing d m d' bs e h
  obtain ⟨f1, f2⟩ := hf ns
  refine ⟨by rw [f1], f2, ?_⟩
  rw [f1]
  apply close_ne_none_of_err
  -- the error was returned from the `d.err != nil` branch, so it is recorded in the state
  have hr := read_eq d m
  rw [h] at hr
  split at hr
  · have : e = .eof := by
      have := congrArg (fun x => x.2.2) hr
      simp only [Option.some.injEq] at this
      exact this
    rcases he with rfl | rfl <;> cases this
  · split at hr
    · rename_i h2
      have : d' = d.norm := congrArg (fun x => x.1) hr
      rw [this]; exact h2
    · have := congrArg (fun x => x.2.2) hr
      cases this

/-- **`Close` = nil certifies the length**: if `Close` reports success after any sequence of reads on a
new reader, exactly the declared number of bytes was handed out (complements `close_sound`). -/
theorem close_length (crc16 : Bool) (s : Bytes) (d : Reader) (ns : List Nat)
    (h : Reader.new crc16 s = .ok d) (hc : (readsWith d ns).1.close = none) :
    ((readsWith d ns).2.length : Int) = d.size := by
  obtain ⟨hp, hq, -, -⟩ := new_fields crc16 s d h
  obtain ⟨a1, a2, -⟩ := readsWith_acc d ns
  have hs := close_none_size _ hc
  rw [a1] at hs
  rw [hp, hq] at a2
  simp only [List.length_nil] at a2
  omega

/-! ### non-vacuity (definitions `helloStream runNew toy runToy` are in `Proofs/Reader.lean`)

Kernel evaluation of the array-based Huffman model costs ≈ 45 s per decoded symbol (measured: the
one-literal stream `01 00 00 00 fa 00` takes 46 s, `compress true "hello"` 4 min 50 s with `decide +kernel`),
so streams that go through `Huff.init` are only evaluated up to the header here; the read loop itself is
exercised on reader states with a degenerate one-leaf code table (the theorems above hold for EVERY state). -/

/-- the hypothesis `Reader.new crc s = .ok d` of `read_bounded` / `read_terminates` is satisfiable -/
example : ∃ d, Reader.new true helloStream = .ok d ∧ d.size = 5 ∧ Inv d :=
  ⟨_, rfl, by decide +kernel, new_inv true helloStream _ rfl⟩

/-- the empty message: EOF at once, `Close` = nil -/
example : runNew false [0, 0, 0, 0] [3, 1] = some ([], none, [some .eof, some .eof]) := by decide +kernel
/-- declared size −1 (the spin of the unfixed code): EOF at once, `Close` = ErrChecksum -/
example : runNew false [255, 255, 255, 255, 1, 2] [3, 1] = some ([], some .checksum, [some .eof, some .eof]) := by
  decide +kernel

/-- literals: 5 × 'A', then EOF, `Close` = nil (`okCount = 3 ≤ 5`) -/
example : runToy (toy [0x55, 0x55] 5 65) [2, 2, 2, 1] = ([65, 65, 65, 65, 65], none, [none, none, none, some .eof], []) := by
  decide +kernel
/-- two 5-byte matches read through buffers 1, 7, 4 (bytes cross `pending`), then EOF, `Close` = nil -/
example : runToy (toy [0, 0, 0, 0, 0, 0, 0, 0, 0] 10 258) [1, 7, 4, 4] =
    ([7, 7, 7, 7, 7, 7, 7, 7, 7, 7], none, [none, none, none, some .eof], []) := by decide +kernel
/-- a match that would overrun the declared size (12 < 15): exactly 12 bytes, `Close` = ErrChecksum -/
example : runToy (toy [0, 0, 0, 0, 0, 0, 0, 0, 0] 12 258) [3, 3, 3, 3, 3] =
    ([7, 7, 7, 7, 7, 7, 7, 7, 7, 7, 7, 7], some .checksum, [none, none, none, none, some .eof], []) := by decide +kernel
/-- a truncated source: the bit reader runs dry inside the first token; ErrUnexpectedEOF is sticky -/
example : runToy (toy [] 8 261) [8, 1, 1] =
    ([7, 7, 7, 7, 7, 7, 7, 7], some .unexpectedEOF, [none, some .unexpectedEOF, some .unexpectedEOF], []) := by
  decide +kernel

end Wl2k.Props.C08
