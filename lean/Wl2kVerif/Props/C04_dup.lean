import Wl2kVerif.Proofs.DupDefer
import Wl2kVerif.Proofs.Run
import Wl2kVerif.Proofs.Safe
/-
C04 / C01 — duplicate proposals in one block. Radio-only gateways sometimes propose the same MID more than
once in a block. The sender's bookkeeping of a block is keyed by MID, so the answer to the LATER copy decides
what happens to the transmitted one: a '-' (Reject) for the copy would make the sender report the message
"already received" at once — before the peer's confirmation of the copy that is actually on the air — and a
damaged or interrupted transfer of that copy would lose the message (seeded change C04-9). The session must
therefore answer every later copy '=' (Defer), whatever its mailbox handler would say.
-/
namespace Wl2k.Props.C04
open Wl2k Wl2k.B2F

/-- **`duplicate_proposal_deferred`.** For EVERY configuration (with or without handler, batched or not), EVERY
block of proposals, EVERY handler behaviour and remaining input: if `writeProposalsAnswer` returns (it can
only fail to by the batched handler's answers-index panic), then
* it returned one answered proposal per proposal, in order, with the same MIDs,
* it wrote exactly one line `FS <answers>` CR carrying those answers, and
* every proposal whose MID already occurred EARLIER in the block (`i < j`, same MID) got the answer '='
  (Defer) — never '-' or '+' — so the line's character at that position is '='. -/
theorem duplicate_proposal_deferred {H : Type} (hstep : H → Call → H × Reply) (c : Cfg) (props : List Proposal)
    (inp : Bytes) (h : H) (tr : List Ev) (res : List Proposal) (inp' : Bytes) (h' : H) (tr' : List Ev)
    (hrun : Proc.run hstep (writeProposalsAnswer c props) inp h tr = (.done res, inp', h', tr')) :
    res.length = props.length ∧
    (∃ t, tr' = .wrote (sb "FS " ++ res.map (·.answer) ++ [13]) :: t) ∧
    ∀ (i j : Nat) (_ : i < j) (hj : j < props.length) (hj' : j < res.length),
      props[i].mid = props[j].mid → res[j].mid = props[j].mid ∧ res[j].answer = ansDefer := by
  obtain ⟨hl, hspec⟩ := preAnswer_spec c.hasHandler props []
  -- the middle stage returns a list that keeps the pre-assigned answers
  have key : ∀ (ps : List Proposal) (i1 : Bytes) (h1 : H) (t1 : List Ev), Keeps (preAnswer c.hasHandler props []) ps →
      Proc.run hstep (Proc.write (sb "FS " ++ ps.map (·.answer) ++ [13]) (pure ps)) i1 h1 t1 = (.done res, inp', h', tr') →
      res.length = props.length ∧ (∃ t, tr' = .wrote (sb "FS " ++ res.map (·.answer) ++ [13]) :: t) ∧
      ∀ (i j : Nat) (_ : i < j) (hj : j < props.length) (hj' : j < res.length),
        props[i].mid = props[j].mid → res[j].mid = props[j].mid ∧ res[j].answer = ansDefer := by
    intro ps i1 h1 t1 hk hr
    simp only [pure_eq, Proc.run] at hr
    have e1 : ps = res := by injection hr with a b; injection a
    have e2 : tr' = .wrote (sb "FS " ++ ps.map (·.answer) ++ [13]) :: t1 := by
      injection hr with a b; injection b with b1 b2; injection b2 with b3 b4; exact b4.symm
    subst e1
    refine ⟨by rw [hk.length, hl], ⟨t1, e2⟩, ?_⟩
    intro i j hij hj hj' hmid
    have hjp : j < (preAnswer c.hasHandler props []).length := by rw [hl]; exact hj
    obtain ⟨gm, ga⟩ := hspec j hj hjp
    obtain ⟨km, ka⟩ := hk.get j hjp hj'
    have hd : (preAnswer c.hasHandler props [])[j].answer = ansDefer := ga (.inr ⟨i, hij, hmid⟩)
    refine ⟨km.trans gm, ?_⟩
    rw [ka (by rw [hd]; decide), hd]
  unfold writeProposalsAnswer at hrun
  simp only [bind_eq] at hrun
  by_cases hb : c.batched = true ∧ c.hasHandler = true
  · rw [if_pos hb, run_bind] at hrun
    simp only [Proc.run] at hrun
    cases hr : (hstep h (.getInboundAnswers (((preAnswer c.hasHandler props []).filter (·.answer = 0)).map viewOf))).2 with
    | answers as =>
      simp only [hr] at hrun
      cases ha : assignAnswers (preAnswer c.hasHandler props []) as with
      | none => simp [ha, Proc.run] at hrun
      | some ps =>
        simp only [ha, Proc.run] at hrun
        exact key ps _ _ _ (assignAnswers_keeps _ _ _ ha) hrun
    | _ => simp [hr, Proc.run] at hrun
  · rw [if_neg hb, run_bind] at hrun
    obtain ⟨rs, i1, h1, t1, e, k⟩ := askEach_run_keeps hstep (preAnswer c.hasHandler props []) [] inp h tr
    rw [e] at hrun
    simp only [List.reverse_nil, List.nil_append] at hrun
    exact key rs _ _ _ k hrun

/-! ### non-vacuity -/

/-- a handler that ACCEPTS everything it is asked about (singly or batched) -/
def acceptAll : Unit → Call → Unit × Reply
  | _, .getInboundAnswer _ => ((), .answer ansAccept)
  | _, .getInboundAnswers vs => ((), .answers (vs.map fun _ => ansAccept))
  | _, _ => ((), .unit)

def exHs : HsCfg where
  mycall := [65]
  targetcall := [66]
  locator := []
  uaName := [119]
  uaVersion := [49]
  master := false
  gzip := false
  hasCb := false
  localFW := [[65]]
def exBlock : List Proposal :=
  [{ code := 67, msgType := [69, 77], mid := [77, 49], size := 10, csize := 8 },
   { code := 67, msgType := [69, 77], mid := [77, 50], size := 10, csize := 8 },
   { code := 67, msgType := [69, 77], mid := [77, 49], size := 10, csize := 8 }]

/-- the block M1, M2, M1 against a handler that accepts everything: the line written is `FS ++=` — the second
copy of M1 is deferred although the handler would accept it (single and batched handler alike) -/
example : (Proc.run acceptAll (writeProposalsAnswer { hs := exHs } exBlock) [] () []).2.2.2
    = [.wrote [70, 83, 32, 43, 43, 61, 13], .called (.getInboundAnswer (viewOf exBlock[1])), .called (.getInboundAnswer (viewOf exBlock[0]))] := by
  decide +kernel
example : (Proc.run acceptAll (writeProposalsAnswer { hs := exHs, batched := true } exBlock) [] () []).2.2.2.head?
    = some (.wrote [70, 83, 32, 43, 43, 61, 13]) := by
  decide +kernel

end Wl2k.Props.C04
