import Wl2kVerif.Proofs.SessionSafe
/-
C03 — no byte sequence from the remote can crash a session.
The session model (`B2F.exchange`) makes every Go slice/index expression on remote-controlled data a
CHECKED operation whose failure is an explicit `panic` node. `exchange_safe` walks the whole program.
-/
namespace Wl2k.Props.C03
open Wl2k Wl2k.B2F

/-- **No remote input can crash the session.** For every configuration, every handler (any state
machine, any replies), every byte string the remote sends and every fuel value, a run of `Exchange`
ends by RETURNING a result, or — only when a local batched handler misbehaves — in the
answers-index panic; the artificial "fuel" outcome is the only other possibility. In particular no
slice or index on remote-controlled data (`cleanString`, `errLine`, `;PQ`, `;FW`, `F>`, proposal
lines, proposal answers and offsets, frame title/offset, `compressedData[offset:]`) can fail. -/
theorem session_no_panic {H : Type} (hstep : H → Call → H × Reply) (c : Cfg) (fuel : Nat)
    (input : Bytes) (h : H) :
    match (Proc.run hstep (exchange c fuel) input h []).1 with
    | .done _ => True
    | .panicked s => s = "fuel" ∨ (c.batched = true ∧ s = "answers-index-out-of-range")
    | .blocked => False := by
  have := (run_safe hstep (exchange_safe c fuel) input h [] (by simp)).1
  revert this
  cases (Proc.run hstep (exchange c fuel) input h []).1 <;> simp [Allowed]

/-- With an unbatched handler the only non-returning outcome is running out of fuel. -/
theorem session_no_panic_unbatched {H : Type} (hstep : H → Call → H × Reply) (c : Cfg) (hb : c.batched = false)
    (fuel : Nat) (input : Bytes) (h : H) :
    match (Proc.run hstep (exchange c fuel) input h []).1 with
    | .done _ => True
    | .panicked s => s = "fuel"
    | .blocked => False := by
  have := session_no_panic hstep c fuel input h
  revert this
  cases (Proc.run hstep (exchange c fuel) input h []).1 <;> simp [hb]

/-- A run against a complete input never ends `blocked`: `Exchange` always returns once the input ends. -/
theorem session_returns {H : Type} (hstep : H → Call → H × Reply) (c : Cfg) (fuel : Nat) (input : Bytes) (h : H) :
    (Proc.run hstep (exchange c fuel) input h []).1 ≠ .blocked := by
  have := session_no_panic hstep c fuel input h
  intro e
  rw [e] at this
  exact this

/-- The individual checked operations are total (each is one former crash site). -/
theorem cleanString_total (s : Bytes) : cleanStringC s = some (cleanString s) := cleanStringC_eq s
theorem errLine_total (s : Bytes) : errLineC s = some (errLine s) := errLineC_eq s
theorem challenge_total (line : Bytes) : (challengeC line).isSome = true := by rw [challengeC_eq]; rfl
theorem proposalAnswer_total (limit : Nat) (reply : Bytes) (n : Nat) :
    parseProposalAnswerC limit reply n = some (parseProposalAnswer limit reply n) := parseProposalAnswerC_eq _ _ _
theorem payload_total (cdata : Bytes) (offset : Int) : (payloadFromC cdata offset).isSome = true := by
  rw [payloadFromC_eq]; rfl

/-- Regression witnesses (kernel-evaluated): the former crash inputs now produce values.
`cleanString("\x00")`, `cleanString("\x00\x00")`, the offset `A-5`, a bare `F>`. -/
example : cleanStringC [0] = some [] ∧ cleanStringC [0, 0] = some [] ∧ cleanStringC [97, 0] = some [97] := by decide
example : parseProposalAnswerC 999999 [70, 83, 32, 65, 45, 53] 1 = some none := by decide
example : promptFieldC [70, 62] = some [] := by decide

end Wl2k.Props.C03
