import Wl2kVerif.Proofs.Builder2
import Wl2kVerif.Props.C18
/-
C18 (continued) — "the Body header equals the stored byte length", on the message model of C09
(`Msg/Message.lean`: `setBody` is `SetBodyWithCharset`, `bodySize` is `Message.BodySize`, i.e. `strconv.Atoi` of
the `Body` header with the error dropped).
-/
namespace Wl2k.Props.C18
open Wl2k Wl2k.Msg Wl2k.Textproto Wl2k.Fmt

/-- **`body_header_len`.** For EVERY message and EVERY text (representable or not, any length below 2^63 bytes
once stored): after `SetBody` the stored body is `stringToBody` of the text, the `Body` header is the decimal
rendering of its length in bytes, and `BodySize()` reads exactly that length back. Together with
`lines_crlf_le_1000` / `body_preserves_text` this is the last clause of the property. -/
theorem body_header_len (m : Msg) (s : Bytes) (h : (stringToBody s).length < 9223372036854775808) :
    (setBody m s).body = stringToBody s ∧
    get (setBody m s).header kBody = dec (stringToBody s).length ∧
    bodySize (setBody m s).header = ((setBody m s).body.length : Int) := by
  have hg : get (setBody m s).header kBody = dec (stringToBody s).length := by
    simp [setBody, setHeader, Textproto.get, Textproto.set, getRaw, lookup_setRaw]
  refine ⟨rfl, hg, ?_⟩
  unfold bodySize
  rw [hg, atoi_dec _ h]
  rfl

/-- the bound is met by every text shorter than 2^61 bytes (a stored body is at most the text plus one CRLF per
byte) — here only the concrete witness: "hi\n" is stored as "hi\r\n", `Body: 4` -/
example : get (setBody { header := [], body := [], files := [] } [104, 105, 10]).header kBody = [52] ∧
    bodySize (setBody { header := [], body := [], files := [] } [104, 105, 10]).header = 4 := by decide +kernel

end Wl2k.Props.C18
