import Wl2kVerif.Url.Concurrent
import Wl2kVerif.Proofs.ConcThm
import Wl2kVerif.Proofs.ConcLock
import Wl2kVerif.Props.C19
/-
C19, clause "concurrent register/unregister/dial calls": the dialer registry of `transport/dial.go`
behaves like a sequential map under ANY interleaving of its callers.

Model: `Wl2kVerif/Url/Concurrent.lean` (small-step; every API call = lock → map access → unlock
[→ dispatch outside the lock for a dial]; only `lock` is guarded by `holder = none`; a scheduled thread
that is finished or blocked is skipped, so every `List Nat` is a schedule).  `Props/C19.lean`
(`mutex_guarded`, regenerated from the Go source) is what ties these micro-step sequences to the code.

Vocabulary: `exec progs sched` = state after running schedule `sched` on thread programs `progs`
(thread `t` runs `progs.getD t []`); `st.trace` = the micro-steps performed so far, in order (ghost);
an event `e` has `e.tid`, `e.idx` (number of the call within its thread), `e.op`, `e.kind`
(lock/access/unlock/dispatch) and `e.ret = some v` iff it is the LAST micro-step of its call, `v` the
returned value; the `lock` event is the FIRST micro-step of its call.  `lin st.trace` = the calls in the
order of their `access` events (the linearisation points).  `seqRun`/`COp.apply` = the sequential
semantics of `Registry.lean` (`Registry.step`, `Registry.dial`) from the empty registry.
-/
namespace Wl2k.Props.C19
open Wl2k Wl2k.Url Wl2k.Url.Conc

/-- **Mutual exclusion.**  For every family of thread programs and every schedule, in the state reached:
(1) at most one thread is between its lock and its unlock (`inCS`: has locked, not yet unlocked);
(2) a thread is between lock and unlock exactly when it is the recorded holder of the mutex;
(3) a thread whose next micro-step is the map access or the unlock is the holder - although neither
    step is guarded in the model;
(4) whenever the next scheduling slot (given to any thread `t`) actually performs a map access (appends an
    `access` event `e`), that access is `t`'s own, `t` holds the mutex at that moment, and the shared map
    changes exactly by the sequential semantics of the call (`COp.apply`, i.e. `Registry.step`; a dial
    leaves it unchanged).  No hypotheses. -/
theorem mutual_exclusion (progs : List (List COp)) (sched : List Nat) :
    (∀ t u, inCS ((exec progs sched).threads t).pc = true → inCS ((exec progs sched).threads u).pc = true → t = u)
    ∧ (∀ t, inCS ((exec progs sched).threads t).pc = true ↔ (exec progs sched).holder = some t)
    ∧ (∀ t, (nextKind progs (exec progs sched) t = some .access ∨ nextKind progs (exec progs sched) t = some .unlock) →
        (exec progs sched).holder = some t)
    ∧ (∀ t e, (exec progs (sched ++ [t])).trace = (exec progs sched).trace ++ [e] → e.kind = .access →
        e.tid = t ∧ (exec progs sched).holder = some t
          ∧ (exec progs (sched ++ [t])).reg = (e.op.apply (exec progs sched).reg).1) := by
  have h := (inv_exec progs sched).mutex
  refine ⟨?_, ?_, ?_, ?_⟩
  · intro t u ht hu
    have a := (h t).2 ht
    have b := (h u).2 hu
    rw [a] at b
    exact Option.some.inj b
  · intro t; exact (h t).symm
  · intro t ht
    apply (h t).2
    unfold nextKind at ht
    cases hop : curOp progs (exec progs sched) t with
    | none => rw [hop] at ht; simp at ht
    | some op =>
      rw [hop] at ht
      cases hpc : ((exec progs sched).threads t).pc <;> rw [hpc] at ht <;> simp [inCS] at ht ⊢
  · intro t e htr hk
    rw [exec_snoc] at htr ⊢
    exact access_step progs _ t h e htr hk

/-- **Linearizability, with the map access as linearisation point.**  For every family of thread
programs and every schedule, let `l = lin trace` be the calls in the order of their map accesses
(= order of lock acquisition, by `mutual_exclusion`).  Then
(a) for every thread `t`, the calls of `t` in `l` are, in this order, a prefix of `t`'s program, and they are
    numbered 0,1,2,… (program order is respected); no call occurs twice in `l`;
(b) the shared registry equals the sequential run of `l` from the empty registry;
(c) every completed call (event with `ret = some res`: the unlock of a register/unregister, the dispatch of
    a dial, where `res` says which dialer was dispatched to or `none` = ErrMissingDialer) occurs in `l` at some
    position `n` and returned exactly what that call returns in the sequential run of `l`, i.e. when applied
    to the sequential run of the first `n` calls of `l`;
(d) real-time order: if the last micro-step of call A (`eA`, `ret ≠ none`) was performed before the first
    micro-step of call B (`eB`, the lock), then A is in `l` and every occurrence of B in `l` is after it.
No hypotheses. -/
theorem registry_linearizable (progs : List (List COp)) (sched : List Nat) :
    (∀ t, opsOf ((lin (exec progs sched).trace).filter (·.tid = t)) <+: progs.getD t []
        ∧ ((lin (exec progs sched).trace).filter (·.tid = t)).map (·.idx)
            = List.range ((lin (exec progs sched).trace).filter (·.tid = t)).length)
    ∧ ((lin (exec progs sched).trace).map (fun x => (x.tid, x.idx))).Nodup
    ∧ (exec progs sched).reg = seqRun (opsOf (lin (exec progs sched).trace))
    ∧ (∀ e ∈ (exec progs sched).trace, ∀ res, e.ret = some res →
        ∃ n, (lin (exec progs sched).trace)[n]? = some e.id
          ∧ res = (e.op.apply (seqRun (opsOf ((lin (exec progs sched).trace).take n)))).2)
    ∧ (∀ (p q : Nat) (eA eB : Ev), p < q → (exec progs sched).trace[p]? = some eA → eA.ret.isSome = true →
        (exec progs sched).trace[q]? = some eB → eB.kind = .lock →
        ∃ m : Nat, (lin (exec progs sched).trace)[m]? = some eA.id
          ∧ ∀ n : Nat, (lin (exec progs sched).trace)[n]? = some eB.id → m < n) := by
  have h := inv_exec progs sched
  refine ⟨?_, h.nodup, h.reg, h.ret, h.rt⟩
  intro t
  obtain ⟨h1, h2⟩ := h.linv t
  have hlen : (projOf (lin (exec progs sched).trace) t).length = accCount ((exec progs sched).threads t) := by
    have := congrArg List.length h2
    simpa using this
  refine ⟨?_, ?_⟩
  · show opsOf (projOf _ t) <+: _
    rw [h1]; exact List.take_prefix _ _
  · show (projOf _ t).map _ = List.range (projOf _ t).length
    rw [hlen]; exact h2

/-- **The linearisation order is the lock-acquisition order.**  For every programs and schedule, the calls in
the order of their map accesses (`lin`) are a prefix of the calls in the order of their `lock` micro-steps
(`lockOrder`), and the latter is longer by at most one call (the call that currently holds the mutex and has
not performed its access yet).  No hypotheses. -/
theorem lin_is_lock_order (progs : List (List COp)) (sched : List Nat) :
    lin (exec progs sched).trace <+: lockOrder (exec progs sched).trace
    ∧ (lockOrder (exec progs sched).trace).length ≤ (lin (exec progs sched).trace).length + 1 :=
  lin_prefix_lockOrder progs sched

/-- The sequential semantics used above IS `Registry.lean`'s: the sequential run of a list of calls is
`Registry.run` of its register/unregister calls (dials do not change the registry), a register/unregister
returns nothing and a dial of scheme `s` on registry `r` returns `Registry.dial r s`. -/
theorem seq_semantics_is_registry (l : List COp) :
    seqRun l = Registry.run (regOps l)
    ∧ (∀ o r, (COp.reg o).apply r = (r.step o, .unit))
    ∧ (∀ s r, (COp.dial s).apply r = (r, .dialed (r.dial s))) :=
  ⟨seqRun_eq_run l, fun _ _ => rfl, fun _ _ => rfl⟩

/-- **Every completed dial, under any interleaving, dispatched to the dialer registered LAST for its scheme
among the calls linearised before it (or reported ErrMissingDialer if that last call was an unregister or
there was none).**  `e` is the dispatch event of a `dial s`; `n` its position in `l = lin trace`;
`lastOp` is the function of `registry_seq` (Props/C19.lean).  No hypotheses beyond `e` being such an event. -/
theorem concurrent_dial_sees_last_registration (progs : List (List COp)) (sched : List Nat)
    (e : Ev) (he : e ∈ (exec progs sched).trace) (s : Bytes) (hop : e.op = .dial s) (res : Res)
    (hret : e.ret = some res) :
    ∃ n, (lin (exec progs sched).trace)[n]? = some e.id
      ∧ res = .dialed ((lastOp s (regOps (opsOf ((lin (exec progs sched).trace).take n)))).getD none) := by
  obtain ⟨n, hn, hr⟩ := (inv_exec progs sched).ret e he res hret
  refine ⟨n, hn, ?_⟩
  rw [hr]
  show (e.op.apply _).2 = _
  rw [hop, apply_dial, seqRun_eq_run, registry_seq]

/-- **The dispatch step does not hold the mutex.**  In every reachable state (any programs, any schedule)
in which thread `i`'s next micro-step is `dispatch` (its dialer is about to run / is running, for arbitrarily
long), `i` is not the holder of the mutex - so it blocks nobody.  Hypothesis: `i`'s next step is dispatch. -/
theorem dial_outside_lock_progress (progs : List (List COp)) (sched : List Nat) (i : Nat)
    (h : nextKind progs (exec progs sched) i = some .dispatch) :
    (exec progs sched).holder ≠ some i := by
  intro hh
  have hcs := ((inv_exec progs sched).mutex i).1 hh
  unfold nextKind at h
  cases hop : curOp progs (exec progs sched) i with
  | none => rw [hop] at h; simp at h
  | some op =>
    rw [hop] at h
    cases hpc : ((exec progs sched).threads i).pc <;> rw [hpc] at h hcs <;> simp [inCS] at h hcs

/-- **While a dial is in its dispatch step, other threads' calls run to completion.**  From every reachable
state in which thread `i`'s next micro-step is `dispatch`: (1) if the mutex is held at all, it is held by
some OTHER thread `k`, and `k` releases it within two of its own slots, without `i` moving; (2) if the mutex
is free, any other thread `j` that is about to start a call `op` (hypotheses: `j ≠ i`, `j` idle, `op` its
current call) completes ALL micro-steps of that call when given 3 (register/unregister) resp. 4 (dial)
consecutive slots - its call counter advances, the mutex is free again, a register/unregister has updated the
registry by `Registry.step`, a dial has returned `Registry.dial` of the registry - while `i` still sits in
its dispatch step. -/
theorem other_calls_complete_during_dispatch (progs : List (List COp)) (sched : List Nat) (i : Nat)
    (h : nextKind progs (exec progs sched) i = some .dispatch) :
    (∀ k, (exec progs sched).holder = some k → k ≠ i ∧
        ((execFrom progs (exec progs sched) [k]).holder = none
          ∨ (execFrom progs (exec progs sched) [k, k]).holder = none))
    ∧ ((exec progs sched).holder = none → ∀ j op, j ≠ i → ((exec progs sched).threads j).pc = .idle →
        curOp progs (exec progs sched) j = some op →
        let st' := execFrom progs (exec progs sched)
          (match op with | .reg _ => [j, j, j] | .dial _ => [j, j, j, j])
        st'.threads j = ⟨((exec progs sched).threads j).idx + 1, .idle⟩
        ∧ st'.holder = none
        ∧ st'.reg = (op.apply (exec progs sched).reg).1
        ∧ (∃ e ∈ st'.trace, e.tid = j ∧ e.idx = ((exec progs sched).threads j).idx
            ∧ e.ret = some (op.apply (exec progs sched).reg).2)
        ∧ nextKind progs st' i = some .dispatch) := by
  have hinv := inv_exec progs sched
  refine ⟨?_, ?_⟩
  · intro k hk
    refine ⟨?_, holder_releases progs _ k hinv.mutex hinv.pend hk⟩
    intro e; subst e
    exact dial_outside_lock_progress progs sched k h hk
  · intro hh j op hji hpc hop
    have hi : ∀ (th : Thread) (r : Registry) (ho : Option Nat) (tr : List Ev),
        nextKind progs ⟨r, ho, setThread (exec progs sched).threads j th, tr⟩ i = some .dispatch := by
      intro th r ho tr
      have hne : i ≠ j := fun e => hji e.symm
      simpa [nextKind, curOp, setThread_other _ _ _ _ hne] using h
    cases op with
    | reg o =>
      simp only
      rw [solo_reg progs _ j o hop hpc hh]
      refine ⟨by simp, rfl, rfl, ⟨_, List.mem_append_right _ (List.mem_cons_of_mem _ (List.mem_cons_of_mem _ (List.mem_singleton.2 rfl))), rfl, rfl, rfl⟩, hi _ _ _ _⟩
    | dial s =>
      simp only
      rw [solo_dial progs _ j s hop hpc hh]
      refine ⟨by simp, rfl, rfl, ⟨_, List.mem_append_right _ (List.mem_cons_of_mem _ (List.mem_cons_of_mem _ (List.mem_cons_of_mem _ (List.mem_singleton.2 rfl)))), rfl, rfl, rfl⟩, hi _ _ _ _⟩

/-- **No deadlock.**  In every reachable state in which some thread `u` is not finished, there is a thread
whose scheduling slot performs a micro-step (appends an event): the schedule can always be extended by a
productive slot until all programs are finished. -/
theorem registry_no_deadlock (progs : List (List COp)) (sched : List Nat) (u : Nat)
    (hu : nextKind progs (exec progs sched) u ≠ none) :
    ∃ t e, (exec progs (sched ++ [t])).trace = (exec progs sched).trace ++ [e] := by
  have hinv := inv_exec progs sched
  obtain ⟨t, e, h⟩ := some_thread_moves progs _ hinv.mutex hinv.pend u hu
  exact ⟨t, e, by rw [exec_snoc]; exact h⟩

/-- **Contrast: without the mutex the registry is NOT linearizable.**  Model `uexec` (Concurrent.lean): the
same register call on a copy-on-write map with no lock = micro-step 1 reads the shared map, micro-step 2
publishes `snapshot.step op`.  Two threads, one call each (`register "a" 1`, `register "b" 2`), schedule
read₀ read₁ write₀ write₁: both calls complete, yet the final map holds only "b" (lost update) and differs
from the sequential result of both possible orders of the two calls - and dialling "a" fails although
`register "a"` completed and nobody unregistered it.  (With the mutex, `registry_linearizable` (b) excludes
this for every schedule.) -/
theorem unguarded_not_linearizable :
    (uexec [.register [97] 1, .register [98] 2] [0, 1, 0, 1]).done 0 = true
    ∧ (uexec [.register [97] 1, .register [98] 2] [0, 1, 0, 1]).done 1 = true
    ∧ (∀ l ∈ [[RegOp.register [97] 1, RegOp.register [98] 2], [RegOp.register [98] 2, RegOp.register [97] 1]],
        Registry.run l ≠ (uexec [.register [97] 1, .register [98] 2] [0, 1, 0, 1]).reg)
    ∧ (uexec [.register [97] 1, .register [98] 2] [0, 1, 0, 1]).reg.dial [97] = none := by
  decide

/-! ### Non-vacuity: concrete executions (evaluated by `decide`)

Thread 0: `register "ax" 1 ; dial "ax"`.  Thread 1: `unregister "ax"`.  (97,120 = "ax".) -/

/-- Schedule A: thread 0 registers and dials up to (not including) its dispatch; thread 1 unregisters
completely while thread 0 sits in dispatch; then thread 0 dispatches - to dialer 1, read under the lock. -/
example :
    let progs : List (List COp) := [[.reg (.register [97, 120] 1), .dial [97, 120]], [.reg (.unregister [97, 120])]]
    let st := exec progs [0, 0, 0, 0, 0, 0, 1, 1, 1, 0]
    st.reg = [] ∧ st.holder = none
    ∧ lin st.trace = [⟨0, 0, .reg (.register [97, 120] 1)⟩, ⟨0, 1, .dial [97, 120]⟩, ⟨1, 0, .reg (.unregister [97, 120])⟩]
    ∧ st.trace.filterMap (fun e => e.ret.map (fun r => (e.tid, e.idx, r)))
        = [(0, 0, .unit), (1, 0, .unit), (0, 1, .dialed (some 1))]
    ∧ st.trace.map (·.kind) = [.lock, .access, .unlock, .lock, .access, .unlock, .lock, .access, .unlock, .dispatch]
    ∧ seqRun (opsOf (lin st.trace)) = []
    ∧ ((COp.dial [97, 120]).apply (seqRun (opsOf ((lin st.trace).take 1)))).2 = .dialed (some 1) := by
  decide

/-- Schedule B: a contended one.  Thread 1 is scheduled while thread 0 holds the mutex and is SKIPPED
(blocked) twice; later thread 0 is blocked while thread 1 holds it.  Here the unregister is linearised
BEFORE the dial, which therefore reports ErrMissingDialer; the trace shows the critical sections
never overlap. -/
example :
    let progs : List (List COp) := [[.reg (.register [97, 120] 1), .dial [97, 120]], [.reg (.unregister [97, 120])]]
    let st := exec progs [0, 1, 0, 1, 0, 1, 0, 1, 1, 0, 0, 0, 0, 7]
    st.reg = []
    ∧ lin st.trace = [⟨0, 0, .reg (.register [97, 120] 1)⟩, ⟨1, 0, .reg (.unregister [97, 120])⟩, ⟨0, 1, .dial [97, 120]⟩]
    ∧ st.trace.map (fun e => (e.tid, e.kind)) =
        [(0, .lock), (0, .access), (0, .unlock), (1, .lock), (1, .access), (1, .unlock),
         (0, .lock), (0, .access), (0, .unlock), (0, .dispatch)]
    ∧ st.trace.filterMap (fun e => e.ret.map (fun r => (e.tid, e.idx, r)))
        = [(0, 0, .unit), (1, 0, .unit), (0, 1, .dialed none)]
    ∧ nextKind progs st 0 = none ∧ nextKind progs st 1 = none := by
  decide

/-- `mutual_exclusion`: a state with a thread inside its critical section, a blocked competitor (its slot
changes nothing), and a performed access satisfying clause (4)'s premise. -/
example :
    let progs : List (List COp) := [[.reg (.register [97, 120] 1), .dial [97, 120]], [.reg (.unregister [97, 120])]]
    inCS ((exec progs [0]).threads 0).pc = true ∧ (exec progs [0]).holder = some 0
    ∧ nextKind progs (exec progs [0]) 0 = some .access
    ∧ nextKind progs (exec progs [0]) 1 = some .lock
    ∧ (exec progs ([0] ++ [1])).trace = (exec progs [0]).trace
    ∧ (exec progs ([0] ++ [0])).trace = (exec progs [0]).trace ++ [⟨0, 0, .reg (.register [97, 120] 1), .access, none⟩]
    ∧ (exec progs ([0] ++ [0])).reg = [([97, 120], 1)] := by
  decide

/-- `registry_linearizable` (c),(d) and `concurrent_dial_sees_last_registration`: in schedule A the response of
thread 0's register (trace position 2) precedes the invocation of thread 1's unregister (position 6), and the
dial's dispatch event is in the trace with the value `registry_seq`'s `lastOp` predicts. -/
example :
    let progs : List (List COp) := [[.reg (.register [97, 120] 1), .dial [97, 120]], [.reg (.unregister [97, 120])]]
    let st := exec progs [0, 0, 0, 0, 0, 0, 1, 1, 1, 0]
    st.trace[2]? = some ⟨0, 0, .reg (.register [97, 120] 1), .unlock, some .unit⟩
    ∧ st.trace[6]? = some ⟨1, 0, .reg (.unregister [97, 120]), .lock, none⟩
    ∧ (lin st.trace)[0]? = some ⟨0, 0, .reg (.register [97, 120] 1)⟩
    ∧ (lin st.trace)[2]? = some ⟨1, 0, .reg (.unregister [97, 120])⟩
    ∧ (⟨0, 1, .dial [97, 120], .dispatch, some (.dialed (some 1))⟩ : Ev) ∈ st.trace
    ∧ (lastOp [97, 120] (regOps (opsOf ((lin st.trace).take 1)))).getD none = some 1 := by
  decide

/-- `dial_outside_lock_progress`, `other_calls_complete_during_dispatch`, `registry_no_deadlock`: after six
slots thread 0 is at its dispatch step, the mutex is free, thread 1 is idle with its unregister pending; three
slots for thread 1 complete the unregister while thread 0 is still at dispatch. -/
example :
    let progs : List (List COp) := [[.reg (.register [97, 120] 1), .dial [97, 120]], [.reg (.unregister [97, 120])]]
    let st := exec progs [0, 0, 0, 0, 0, 0]
    nextKind progs st 0 = some .dispatch ∧ st.holder = none ∧ st.reg = [([97, 120], 1)]
    ∧ (st.threads 1).pc = .idle ∧ curOp progs st 1 = some (.reg (.unregister [97, 120]))
    ∧ (execFrom progs st [1, 1, 1]).threads 1 = ⟨1, .idle⟩ ∧ (execFrom progs st [1, 1, 1]).reg = []
    ∧ nextKind progs (execFrom progs st [1, 1, 1]) 0 = some .dispatch
    ∧ nextKind progs st 1 ≠ none := by
  decide

/-- Clause (1) of `other_calls_complete_during_dispatch`: thread 0 at dispatch while thread 1 HOLDS the mutex. -/
example :
    let progs : List (List COp) := [[.reg (.register [97, 120] 1), .dial [97, 120]], [.reg (.unregister [97, 120])]]
    let st := exec progs [0, 0, 0, 0, 0, 0, 1]
    nextKind progs st 0 = some .dispatch ∧ st.holder = some 1
    ∧ (execFrom progs st [1, 1]).holder = none := by
  decide

/-- `lin_is_lock_order`: a state in which one call has locked but not accessed yet. -/
example :
    let progs : List (List COp) := [[.reg (.register [97, 120] 1), .dial [97, 120]], [.reg (.unregister [97, 120])]]
    let st := exec progs [0, 0, 0, 1]
    lin st.trace = [⟨0, 0, .reg (.register [97, 120] 1)⟩]
    ∧ lockOrder st.trace = [⟨0, 0, .reg (.register [97, 120] 1)⟩, ⟨1, 0, .reg (.unregister [97, 120])⟩] := by
  decide

/-- The per-call micro-step sequences of this model are exactly the shapes `mutex_guarded` (Props/C19.lean)
checks on the Go source. -/
example : guarded false [.lock, .access, .unlock] = true ∧ guarded false [.lock, .access, .unlock, .dispatch] = true := by
  decide

/-! ### the model's micro-steps are the source's -/

/-- consecutive duplicates removed (a Go function may touch the map several times inside one critical section) -/
def collapse : List MuEvent → List MuEvent
  | a :: b :: r => if a = b then collapse (b :: r) else a :: collapse (b :: r)
  | l => l

/-- the kinds of the micro-steps one call performs in the concurrent model (a single thread running alone) -/
def soloKinds (op : COp) : List MuEvent := (exec [[op]] [0, 0, 0, 0]).trace.map (·.kind)

/-- the regenerated lock/access/unlock/dispatch sequence of a Go function, critical-section accesses collapsed -/
def sourceKinds (fn : String) : Option (List MuEvent) :=
  (Gen.dialersMutexEvents.find? (·.1 == fn)).bind fun f => (f.2.mapM evOf).map collapse

/-- **`model_microsteps_match_source` (regenerated tie of the concurrent model).** The micro-step sequence of a
dial in `Url/Concurrent.lean` is exactly the event sequence extracted from `DialURLContext` in /repo's current
source (lock, access, unlock, then the dialer call outside the lock), and that of register / unregister is
exactly the one extracted from `RegisterContextDialer` / `UnregisterDialer` (lock, accesses, unlock). A change
of the locking discipline in the Go source (e.g. dispatching under the lock, or an access outside it) breaks
this `decide` as well as `mutex_guarded`. -/
theorem model_microsteps_match_source :
    sourceKinds "DialURLContext" = some (soloKinds (.dial [97]))
    ∧ sourceKinds "RegisterContextDialer" = some (soloKinds (.reg (.register [97] 1)))
    ∧ sourceKinds "UnregisterDialer" = some (soloKinds (.reg (.unregister [97]))) := by
  decide

end Wl2k.Props.C19
