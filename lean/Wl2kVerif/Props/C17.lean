import Wl2kVerif.Status.Race
import Wl2kVerif.Status.Reports
import Wl2kVerif.Gen.Facts
/-
C17 — transfer progress reporting is race-free and well-formed.
-/
namespace Wl2k.Props.C17
open Wl2k Wl2k.Status

/-- **No conflicting unsynchronised accesses** between the transfer code and the status-reporting
goroutines in /repo's CURRENT source (facts regenerated on every run; `decide`). The witness list of
conflicts is empty. -/
theorem race_free : raceFree Gen.goroutineAccessFacts = true ∧ conflicts Gen.goroutineAccessFacts = [] := by
  decide

def isAtomic : String → Bool
  | "atomic.Int64" => true
  | "atomic.Int32" => true
  | "atomic.Uint64" => true
  | _ => false

def isFn (want : String) (f : Fact) : Bool := decide (f.1 = want)

/-- The facts really describe both reporters (non-vacuity of `race_free`): each of the two functions
shares an atomic counter and a channel with its reporter goroutine. -/
theorem facts_cover_both_reporters :
    (Gen.goroutineAccessFacts.any fun f => isFn "Session.writeCompressed" f && isAtomic f.2.2.1) = true ∧
    (Gen.goroutineAccessFacts.any fun f => isFn "Session.readCompressed" f && isAtomic f.2.2.1) = true ∧
    (Gen.goroutineAccessFacts.any fun f => isFn "Session.writeCompressed" f && decide (f.2.2.1 = "chan")) = true ∧
    (Gen.goroutineAccessFacts.any fun f => isFn "Session.readCompressed" f && decide (f.2.2.1 = "chan")) = true := by
  decide

/-- The criterion rejects the pre-fix shape (a goroutine calling `buffer.Len()` while the transfer calls
`buffer.ReadByte()`), so it is not vacuously true. -/
example : raceFree [("Session.writeCompressed", "buffer", "*bytes.Buffer", [("Len", false)], ["Len", "ReadByte"])] = false := by
  decide
example : raceFree [("Session.readCompressed", "buf", "bytes.Buffer", [("Len", false)], ["WriteByte", "Len", "Bytes"])] = false := by
  decide

/-- **Every send-side report lies between zero and the total compressed size** (for every counter value
0 ≤ remaining ≤ total and every transmit-buffer length), and the total it names is the compressed size. -/
theorem send_reports_in_range (total : Nat) (e : SendEv)
    (h : match e with | .tick r _ => r ≤ total | .done r => r ≤ total) :
    0 ≤ (sendReport total e).transferred ∧ (sendReport total e).transferred ≤ total ∧ (sendReport total e).total = total := by
  cases e with
  | tick r t =>
    simp only [sendReport] at *
    refine ⟨Int.le_max_left _ _, ?_, trivial⟩
    apply Int.max_le.mpr
    constructor <;> omega
  | done r =>
    simp only [sendReport] at *
    refine ⟨by omega, by omega, trivial⟩

theorem ticks_not_done (total : Nat) (ticks : List (Nat × Nat)) :
    (ticks.map (fun x => sendReport total (.tick x.1 x.2))).filter (·.done) = [] := by
  induction ticks with
  | nil => rfl
  | cons a t ih =>
    simp only [List.map_cons, List.filter_cons, sendReport, Bool.false_eq_true, if_false]
    exact ih

/-- **Exactly one report with Done set, and it is the last one** — send side, any number of ticks. -/
theorem send_exactly_one_done (total : Nat) (ticks : List (Nat × Nat)) (fr : Nat) :
    ((sendRun total ticks fr).filter (·.done)).length = 1 ∧ ((sendRun total ticks fr).getLast?.map (·.done)) = some true := by
  unfold sendRun
  constructor
  · rw [List.filter_append, ticks_not_done]
    simp [sendReport]
  · simp [sendReport]

/-- Receive side: every report is in range for an honest transfer (counter ≤ total), exactly one Done, last. -/
theorem recv_reports (total : Nat) (notes : List Nat) (fr : Nat) (hn : ∀ n ∈ notes, n ≤ total) (hf : fr ≤ total) :
    (∀ r ∈ recvRun total notes fr, 0 ≤ r.transferred ∧ r.transferred ≤ total ∧ r.total = total) ∧
    ((recvRun total notes fr).filter (·.done)).length = 1 ∧
    ((recvRun total notes fr).getLast?.map (·.done)) = some true := by
  unfold recvRun
  refine ⟨?_, ?_, ?_⟩
  · intro r hr
    simp only [List.mem_append, List.mem_map, List.mem_singleton] at hr
    rcases hr with ⟨n, hn', rfl⟩ | rfl
    · have := hn n hn'; simp; omega
    · simp; omega
  · rw [List.filter_append]
    have : (notes.map (fun n : Nat => ({ transferred := (n : Int), total := (total : Int), done := false } : Report))).filter (·.done) = [] := by
      induction notes with
      | nil => rfl
      | cons a t ih =>
        simp only [List.map_cons, List.filter_cons, Bool.false_eq_true, if_false]
        exact ih (fun n hn' => hn n (by simp [hn']))
    simp [this]
  · simp

end Wl2k.Props.C17
