import Wl2kVerif.Proofs.Mbox
import Wl2kVerif.Gen.Tables
/-
C10 — the directory mailbox behaves like a simple mailbox model over any history.

`Mbox.Dir` is `mailbox/syncdir.go` over an abstract file system with Go's `path.Join/Clean`;
`Mbox.Spec` is the reference model of the property. The main theorem is a refinement over ALL
operation histories (no well-formedness side condition is needed: unsafe MIDs, SetSent of a message
that is not in the outbox, SetDeferred before Prepare are part of both models). The message codec is
any `Codec` with `parse (ser m) = some m`; the mailbox path is any clean absolute path.
-/
namespace Wl2k.Props.C10
open Wl2k Wl2k.Mbox

/-- **Every observable result of every history equals that of the reference model** (listings are
compared without the `X-FilePath` header, which the reference model does not have; the result of
`GetOutbound` is compared verbatim). Histories include restarts (`newHandler`) in both modes. -/
theorem dir_refines_spec (C : Codec) (hl : C.Lawful) (root : FPath) (hr : NormalRoot root)
    (sendOnly : Bool) (ops : List Op) :
    (run C (DState.init root sendOnly) ops).2.map observe = (Spec.run { sendOnly := sendOnly } ops).2 := by
  obtain ⟨_, _, h⟩ := run_sim hl hr ops (rel_init C root sendOnly)
  exact h

/-- The same, for the observation of one more operation after any history. -/
theorem dir_refines_spec_next (C : Codec) (hl : C.Lawful) (root : FPath) (hr : NormalRoot root)
    (sendOnly : Bool) (ops : List Op) (op : Op) :
    observe (step C (run C (DState.init root sendOnly) ops).1 op).2 =
      (Spec.step (Spec.run { sendOnly := sendOnly } ops).1 op).2 := by
  obtain ⟨_, r, _⟩ := run_sim hl hr ops (rel_init C root sendOnly)
  obtain ⟨_, _, h⟩ := step_sim hl hr r op
  exact h

/-! ### Properties of the reference model (they transfer to the directory mailbox by refinement) -/

def inFolder (l : List Msg) (mid : Bytes) : Prop := ∃ m ∈ l, m.mid = mid

/-- The outbox and the sent folder never hold the same MID. -/
def Disjoint (s : SState) : Prop := ∀ mid, ¬ (inFolder s.outbox mid ∧ inFolder s.sent mid)

/-- No `addOut` re-uses a MID that is in the sent folder at that moment. -/
def FreshAdds : SState → List Op → Prop
  | _, [] => True
  | s, op :: rest =>
    (match op with | .addOut m => ¬ inFolder s.sent m.mid | _ => True) ∧ FreshAdds (Spec.step s op).1 rest

theorem mem_insertMsg {m x : Msg} {l : List Msg} : x ∈ insertMsg m l ↔ x = m ∨ (x ∈ l ∧ x.mid ≠ m.mid) := by
  simp [insertMsg]

theorem inFolder_insertMsg {m : Msg} {l : List Msg} {mid : Bytes} :
    inFolder (insertMsg m l) mid ↔ mid = m.mid ∨ inFolder l mid := by
  unfold inFolder
  constructor
  · rintro ⟨x, hx, rfl⟩
    rcases mem_insertMsg.mp hx with rfl | ⟨h, _⟩
    · exact Or.inl rfl
    · exact Or.inr ⟨x, h, rfl⟩
  · rintro (rfl | ⟨x, hx, rfl⟩)
    · exact ⟨m, mem_insertMsg.mpr (Or.inl rfl), rfl⟩
    · by_cases h : x.mid = m.mid
      · exact ⟨m, mem_insertMsg.mpr (Or.inl rfl), h.symm⟩
      · exact ⟨x, mem_insertMsg.mpr (Or.inr ⟨hx, h⟩), rfl⟩

theorem processInbound_folders (s : SState) (ms : List Msg) :
    (Spec.processInbound s ms).1.outbox = s.outbox ∧ (Spec.processInbound s ms).1.sent = s.sent := by
  induction ms generalizing s with
  | nil => exact ⟨rfl, rfl⟩
  | cons m r ih =>
    simp only [Spec.processInbound]
    split
    · exact ⟨rfl, rfl⟩
    · exact ih _

/-- One step keeps outbox/sent disjoint, unless it re-adds a MID that is in sent. -/
theorem step_disjoint (s : SState) (op : Op) (hd : Disjoint s)
    (hf : match op with | .addOut m => ¬ inFolder s.sent m.mid | _ => True) :
    Disjoint (Spec.step s op).1 := by
  cases op with
  | addOut m =>
    simp only [Spec.step]
    split
    · exact hd
    · intro mid ⟨ho, hs⟩
      rcases inFolder_insertMsg.mp ho with rfl | ho
      · exact hf hs
      · exact hd mid ⟨ho, hs⟩
  | setSent mid =>
    simp only [Spec.step]
    split
    · exact hd
    · split
      · exact hd
      · rename_i m hm
        intro x ⟨ho, hs⟩
        obtain ⟨y, hy, rfl⟩ := ho
        have hy' := List.mem_filter.mp hy
        have hne : y.mid ≠ mid := by simpa using hy'.2
        have hmm : m.mid = mid := by simpa using List.find?_some hm
        rcases inFolder_insertMsg.mp hs with h | h
        · exact hne (h.trans hmm)
        · exact hd y.mid ⟨⟨y, hy'.1, rfl⟩, h⟩
  | processInbound ms =>
    intro mid
    simp only [Spec.step]
    rw [(processInbound_folders s ms).1, (processInbound_folders s ms).2]
    exact hd mid
  | setDeferred mid =>
    simp only [Spec.step]
    split <;> exact hd
  | setUnread f mid flag =>
    simp only [Spec.step]
    split
    · exact hd
    · split
      · exact hd
      · split
        · exact hd
        · rename_i m hm _
          have hmm : m.mid = mid := by simpa using List.find?_some hm
          have hmem : m ∈ s.get f := by
            have := List.mem_of_find?_eq_some hm
            unfold listing at this
            exact (mem_isort _ _ _).mp this
          have key : ∀ l : List Msg, m ∈ l → ∀ x, inFolder (insertMsg { m with unread := if flag = true then some sTrue else none } l) x ↔ inFolder l x := by
            intro l hl x
            rw [inFolder_insertMsg]
            constructor
            · rintro (rfl | h)
              · exact ⟨m, hl, rfl⟩
              · exact h
            · exact Or.inr
          intro x ⟨ho, hs⟩
          cases f with
          | inbox => exact hd x ⟨ho, hs⟩
          | archive => exact hd x ⟨ho, hs⟩
          | outbox => exact hd x ⟨(key _ hmem x).mp ho, hs⟩
          | sent => exact hd x ⟨ho, (key _ hmem x).mp hs⟩
  | isUnread f mid =>
    simp only [Spec.step]
    split
    · exact hd
    · split <;> exact hd
  | list f => simp only [Spec.step]; split <;> exact hd
  | newHandler _ => exact hd
  | prepare => exact hd
  | getInboundAnswer _ => exact hd
  | getOutbound _ => exact hd
  | count _ => exact hd

/-- **Each outbound message is in at most one of outbox / sent** after any history that does not
re-add a MID which is in the sent folder. -/
theorem out_xor_sent_partial (ops : List Op) : ∀ (s : SState), Disjoint s → FreshAdds s ops →
    Disjoint (Spec.run s ops).1 := by
  induction ops with
  | nil => intro s hd _; exact hd
  | cons op rest ih =>
    intro s hd hf
    simp only [Spec.run]
    exact ih _ (step_disjoint s op hd hf.1) hf.2

/-- … and it is never lost: no operation removes a MID from outbox ∪ sent. -/
theorem outbound_kept (s : SState) (op : Op) (mid : Bytes)
    (h : inFolder s.outbox mid ∨ inFolder s.sent mid) :
    inFolder (Spec.step s op).1.outbox mid ∨ inFolder (Spec.step s op).1.sent mid := by
  cases op with
  | addOut m =>
    simp only [Spec.step]
    split
    · exact h
    · rcases h with h | h
      · exact Or.inl (inFolder_insertMsg.mpr (Or.inr h))
      · exact Or.inr h
  | setSent x =>
    simp only [Spec.step]
    split
    · exact h
    · split
      · exact h
      · rename_i m hm
        have hmm : m.mid = x := by simpa using List.find?_some hm
        rcases h with ⟨y, hy, rfl⟩ | h
        · by_cases hyx : y.mid = x
          · exact Or.inr (inFolder_insertMsg.mpr (Or.inl (hyx.trans hmm.symm)))
          · exact Or.inl ⟨y, List.mem_filter.mpr ⟨hy, by simpa using hyx⟩, rfl⟩
        · exact Or.inr (inFolder_insertMsg.mpr (Or.inr h))
  | processInbound ms =>
    simp only [Spec.step]
    rw [(processInbound_folders s ms).1, (processInbound_folders s ms).2]
    exact h
  | setDeferred x => simp only [Spec.step]; split <;> exact h
  | setUnread f x flag =>
    simp only [Spec.step]
    split
    · exact h
    · split
      · exact h
      · split
        · exact h
        · rcases h with h | h
          · cases f with
            | outbox => exact Or.inl (inFolder_insertMsg.mpr (Or.inr h))
            | inbox => exact Or.inl h
            | sent => exact Or.inl h
            | archive => exact Or.inl h
          · cases f with
            | sent => exact Or.inr (inFolder_insertMsg.mpr (Or.inr h))
            | inbox => exact Or.inr h
            | outbox => exact Or.inr h
            | archive => exact Or.inr h
  | isUnread f x =>
    simp only [Spec.step]
    split
    · exact h
    · split <;> exact h
  | list f => simp only [Spec.step]; split <;> exact h
  | newHandler _ => exact h
  | prepare => exact h
  | getInboundAnswer _ => exact h
  | getOutbound _ => exact h
  | count _ => exact h

/-- A successful `addOut` puts the message in the outbox. -/
theorem addOut_in_outbox (s : SState) (m : Msg) (h : (Spec.step s (.addOut m)).2 = .ok) :
    m.erasePath ∈ (Spec.step s (.addOut m)).1.outbox := by
  simp only [Spec.step] at h ⊢
  split at h
  · exact absurd h (by simp)
  · rename_i hc
    rw [if_neg hc]
    exact mem_insertMsg.mpr (Or.inl rfl)

def mA : Msg := ⟨[65], [[76]], none, none, none, 1⟩

/-- The code's behaviour when a MID that is already in the sent folder is added again: it is then
listed in both folders (known finding `C10:readd-mid-in-sent`; the hypothesis of
`out_xor_sent_partial` is necessary). -/
theorem readd_in_both :
    let s := (Spec.run {} [.prepare, .addOut mA, .setSent [65], .addOut mA]).1
    inFolder s.outbox [65] ∧ inFolder s.sent [65] := by
  refine ⟨⟨mA, by decide, rfl⟩, ⟨mA, by decide, rfl⟩⟩

/-- **A proposal is rejected iff a message with that MID is in the inbox**; in send-only mode every
proposal is deferred. (A MID that cannot be stored is deferred and is never in the inbox.) -/
theorem reject_iff_inbox (s : SState) (mid : Bytes) :
    (s.sendOnly = true → (Spec.step s (.getInboundAnswer mid)).2 = .answer .defer) ∧
    (s.sendOnly = false → validMID mid = true →
      ((Spec.step s (.getInboundAnswer mid)).2 = .answer .reject ↔ inFolder s.inbox mid) ∧
      ((Spec.step s (.getInboundAnswer mid)).2 = .answer .accept ↔ ¬ inFolder s.inbox mid)) := by
  constructor
  · intro h; simp [Spec.step, h]
  · intro h hv
    have : s.inbox.any (·.mid = mid) = true ↔ inFolder s.inbox mid := by
      simp [inFolder, List.any_eq_true]
    cases ha : s.inbox.any (·.mid = mid) with
    | true =>
      have := this.mp ha
      simp [Spec.step, h, hv, ha, this]
    | false =>
      have : ¬ inFolder s.inbox mid := by rw [← this, ha]; simp
      simp [Spec.step, h, hv, ha, this]

/-- `processInbound` stores the message intact, flagged unread. -/
theorem inbound_intact (s : SState) (m : Msg) (hs : storable m.mid = true) (hr : s.ready = true) :
    let s' := (Spec.step s (.processInbound [m])).1
    (Spec.step s (.processInbound [m])).2 = .ok ∧
    s'.inbox.find? (·.mid = m.mid) = some { m with unread := some sTrue, fpath := none } ∧
    (∀ x ∈ s.inbox, x.mid ≠ m.mid → x ∈ s'.inbox) := by
  simp only [Spec.step, Spec.processInbound, hs, hr, Bool.not_true, Bool.or_self, Bool.false_eq_true, if_false]
  refine ⟨trivial, ?_, ?_⟩
  · simp [insertMsg, Msg.setUnreadHdr, Msg.erasePath]
  · intro x hx hne
    exact mem_insertMsg.mpr (Or.inr ⟨hx, hne⟩)

/-- Eligibility for an outbound query. -/
def eligible (s : SState) (fws : List Bytes) (m : Msg) : Prop :=
  Spec.isDeferred s m.mid = false ∧
  (if fws = [] then hget m.p2p ≠ sTrue else ∃ fw ∈ fws, m.isOnlyReceiver fw = true)

/-- **An outbound query returns exactly the eligible messages of the outbox**, stripped of the
private headers: everything not marked P2P-only for a CMS (`fws = []`), only messages whose sole
receiver is one of the announced forwarders for a P2P peer; never a deferred one. -/
theorem outbound_eligible (s : SState) (fws : List Bytes) (x : Msg) :
    (∃ l, (Spec.step s (.getOutbound fws)).2 = .out l ∧
      (x ∈ l ↔ ∃ m ∈ s.outbox, eligible s fws m ∧ x = m.strip)) := by
  refine ⟨_, rfl, ?_⟩
  simp only [List.mem_filterMap, listing, mem_isort]
  constructor
  · rintro ⟨m, hm, hsel⟩
    refine ⟨m, hm, ?_⟩
    unfold outboundSel at hsel
    unfold eligible
    split at hsel
    · exact absurd hsel (by simp)
    · rename_i hd
      split at hsel
      · rename_i hf
        split at hsel
        · rename_i ha
          simp only [Option.some.injEq] at hsel
          refine ⟨⟨by simpa using hd, ?_⟩, hsel.symm⟩
          rw [if_neg hf]
          simpa [List.any_eq_true] using ha
        · exact absurd hsel (by simp)
      · rename_i hf
        have hf' : fws = [] := by simpa using hf
        split at hsel
        · exact absurd hsel (by simp)
        · rename_i hp
          simp only [Option.some.injEq] at hsel
          exact ⟨⟨by simpa using hd, by rw [if_pos hf']; exact hp⟩, hsel.symm⟩
  · rintro ⟨m, hm, ⟨hd, he⟩, rfl⟩
    refine ⟨m, hm, ?_⟩
    unfold outboundSel
    rw [if_neg (by simp [hd])]
    by_cases hf : fws = []
    · rw [if_pos hf] at he
      rw [if_neg (by simp [hf]), if_neg he]
    · rw [if_neg hf] at he
      rw [if_pos hf, if_pos (by simpa [List.any_eq_true] using he)]

/-- **Messages handed to a remote carry no mailbox-private header** — for every codec, every file
system state, every forwarder list (CMS and P2P alike), directly on the DirHandler model. -/
theorem outbound_no_private (C : Codec) (d : DState) (fws : List Bytes) :
    ∀ m ∈ getOutbound C d fws, m.p2p = none ∧ m.unread = none ∧ m.fpath = none := by
  intro m hm
  unfold getOutbound at hm
  obtain ⟨x, _, hx⟩ := List.mem_filterMap.mp hm
  unfold outboundSel at hx
  split at hx
  · exact absurd hx (by simp)
  · split at hx
    · split at hx
      · simp only [Option.some.injEq] at hx; subst hx; exact ⟨rfl, rfl, rfl⟩
      · exact absurd hx (by simp)
    · split at hx
      · exact absurd hx (by simp)
      · simp only [Option.some.injEq] at hx; subst hx; exact ⟨rfl, rfl, rfl⟩

/-- **A deferral lasts for one session**: a deferred MID is not returned by any outbound query … -/
theorem deferred_excluded (s : SState) (mid : Bytes) (d : List Bytes) (hd : s.deferred = some d)
    (hm : mid ∈ d) (fws : List Bytes) :
    ∀ l, (Spec.step s (.getOutbound fws)).2 = .out l → ∀ x ∈ l, x.mid ≠ mid := by
  intro l hl x hx
  simp only [Spec.step, Res.out.injEq] at hl
  subst hl
  obtain ⟨m, _, hsel⟩ := List.mem_filterMap.mp hx
  unfold outboundSel at hsel
  split at hsel
  · exact absurd hsel (by simp)
  · rename_i hnd
    have hxm : x.mid = m.mid := by
      split at hsel
      · split at hsel
        · simp only [Option.some.injEq] at hsel; subst hsel; rfl
        · exact absurd hsel (by simp)
      · split at hsel
        · exact absurd hsel (by simp)
        · simp only [Option.some.injEq] at hsel; subst hsel; rfl
    intro h
    apply hnd
    rw [← hxm, h]
    simp [Spec.isDeferred, hd, hm]

theorem processInbound_deferred (ms : List Msg) : ∀ s : SState, (Spec.processInbound s ms).1.deferred = s.deferred := by
  induction ms with
  | nil => intro s; rfl
  | cons m r ih =>
    intro s; simp only [Spec.processInbound]
    split
    · rfl
    · exact ih _

theorem step_deferred (s : SState) (op : Op) (hop : op ≠ .prepare) (hnh : ∀ so, op ≠ .newHandler so)
    (hsd : ∀ x, op ≠ .setDeferred x) : (Spec.step s op).1.deferred = s.deferred := by
  cases op with
  | prepare => exact absurd rfl hop
  | newHandler so => exact absurd rfl (hnh so)
  | setDeferred x => exact absurd rfl (hsd x)
  | processInbound ms => exact processInbound_deferred ms s
  | addOut m => simp only [Spec.step]; split <;> rfl
  | setSent x =>
    simp only [Spec.step]
    split
    · rfl
    · split <;> rfl
  | setUnread f x flag =>
    simp only [Spec.step]
    split
    · rfl
    · split
      · rfl
      · split
        · rfl
        · cases f <;> rfl
  | isUnread f x =>
    simp only [Spec.step]
    split
    · rfl
    · split <;> rfl
  | list f => simp only [Spec.step]; split <;> rfl
  | getInboundAnswer _ => rfl
  | getOutbound _ => rfl
  | count _ => rfl

/-- … the deferral stays while the session lasts (every operation except `prepare` and a restart) … -/
theorem deferral_persists (s : SState) (mid : Bytes) (op : Op)
    (h : Spec.isDeferred s mid = true) (hop : op ≠ .prepare) (hnh : ∀ so, op ≠ .newHandler so) :
    Spec.isDeferred (Spec.step s op).1 mid = true := by
  by_cases hsd : ∃ x, op = .setDeferred x
  · obtain ⟨x, rfl⟩ := hsd
    unfold Spec.isDeferred at h ⊢
    simp only [Spec.step]
    cases hd : s.deferred with
    | none => rw [hd] at h; exact absurd h (by simp)
    | some d => rw [hd] at h; simp only [List.contains_cons]; simp at h; simp [h]
  · have := step_deferred s op hop hnh (fun x hx => hsd ⟨x, hx⟩)
    unfold Spec.isDeferred at h ⊢
    rw [this]; exact h

/-- … and ends with the next session: after `prepare` (or a restart) nothing is deferred. -/
theorem deferral_one_session (s : SState) (mid : Bytes) :
    Spec.isDeferred (Spec.step s .prepare).1 mid = false ∧
    ∀ so, Spec.isDeferred (Spec.step s (.newHandler so)).1 mid = false := by
  constructor
  · simp [Spec.step, Spec.isDeferred]
  · intro so; simp [Spec.step, Spec.isDeferred]

/-- The folder names and the extension of the model are those of /repo's current source
(`Gen.Tables` is regenerated from `mailbox/syncdir.go` on every run). -/
theorem source_constants :
    Gen.mailboxDIR_INBOX.map UInt8.ofNat = Folder.inbox.dir ∧ Gen.mailboxDIR_OUTBOX.map UInt8.ofNat = Folder.outbox.dir ∧
    Gen.mailboxDIR_SENT.map UInt8.ofNat = Folder.sent.dir ∧ Gen.mailboxDIR_ARCHIVE.map UInt8.ofNat = Folder.archive.dir ∧
    Gen.mailboxExt.map UInt8.ofNat = Mbox.ext := by decide

/-! ### Non-vacuity -/

/-- "/m" is a normal root, and the toy codec is lawful: the hypotheses of the refinement are satisfiable. -/
example : NormalRoot [47, 109] := ⟨[[109]], by simp, by
  intro c hc; simp at hc; subst hc; exact ⟨by decide, by decide, by decide, by decide⟩, rfl⟩
example : Toy.codec.Lawful := Toy.lawful

/-- A concrete history evaluated by the kernel on the DirHandler model: store, list, send. -/
example :
    (run Toy.codec (DState.init [47, 109] false)
      [.prepare, .addOut mA, .getOutbound [[76]], .setSent [65], .list .sent, .count .outbox,
       .processInbound [mA], .getInboundAnswer [65]]).2.map observe =
    [.ok, .ok, .out [mA], .ok, .msgs [mA], .count 0, .ok, .answer .reject] := by decide

end Wl2k.Props.C10
