import Wl2kVerif.Props.C03
import Wl2kVerif.Proofs.Alloc
import Wl2kVerif.Proofs.AllocSession
import Wl2kVerif.Proofs.LzDecode
import Wl2kVerif.Props.C08_reader
/-
C03 (allocation part) — no byte sequence from the remote makes a session "allocate memory out of
proportion to the bytes received".

The two places where a session accumulates remote-controlled data are the transfer buffer of
`readCompressed` (`buf`, model `B2F/Session.lean`) and the output of the LZHUF decompressor (`io.Copy`
into a `bytes.Buffer` in `Proposal.data()`, model `Lzhuf/Reader.lean` + `lzReadAll`).  Both sizes are
DECLARED by the remote (the compressed size in the proposal line, the 32-bit size in the LZHUF header, up
to 2^31 − 1), so `C08.read_bounded` (output ≤ declared size) is not a proportionality statement.  Here:

* the decompressor hands out at most `48` bytes per compressed byte it was given, whatever size the
  header declares (`decode_output_proportional`; sharp form `decode_output_le_body`), and its own
  buffer of decoded-but-unread bytes never exceeds 59 bytes (`reader_buffer_bounded`);
* what `readCompressed` returns has been received byte for byte, whatever compressed size the proposal
  declared (`transfer_buffer_le_received`);
* hence the decompressed message is at most 48 × the bytes received for it (`decoded_le_received`).

Helper lemmas: `Proofs/Alloc.lean` (potential `pos + 6·(unread bits) ≤ 48·|body| (+60)`),
`Proofs/AllocSession.lean` (`Rcv`, the fuel-free variant of `NF`).
-/
namespace Wl2k.Props.C03
open Wl2k Wl2k.Lzhuf Wl2k.B2F

/-- **Bounded expansion (decompression-bomb bound).** For every byte string `s`, either header format,
and every sequence of `Read` buffer sizes (zero sizes and reads after an error included), the total
number of bytes the decompressor hands out is at most `48 · |s|` — independently of the size the header
declares.

Why: every token is paid for with input bits. A literal (1 byte) costs at least the one bit of its Huffman
code (the root of a well-formed tree is internal); a match (at most `F = 60` bytes) costs at least
1 + 8 + 1 = 10 bits (code, the 8 table bits of the position, at least one verbatim bit), i.e. at most 6
bytes per bit, 48 per byte. When the source runs dry the bit reader sets its sticky error, the token in
progress is completed with zero bits (≤ 60 bytes, absorbed by the ≥ 4 header bytes) and nothing follows.

The factor is asymptotically tight: `compress false (600000 × ' ')` is 12543 bytes in the model
(ratio 47.8; a run of maximal matches whose adapted code is 1 bit long costs exactly 10 bits per 60 bytes). -/
theorem decode_output_proportional (crc16 : Bool) (s : Bytes) (d : Reader) (ns : List Nat)
    (h : Reader.new crc16 s = .ok d) :
    (readsWith d ns).2.length ≤ 48 * s.length := by
  have h1 := reads_le_body crc16 s d ns h
  have h2 := new_src_size crc16 s d h
  omega

/-- **Sharp form**, in terms of the body `d.src` (the bytes after the 2-byte CRC, if any, and the 4-byte
size): at most 6 bytes per body bit plus one maximal match. The additive term is needed: `#eval` of the
model on the 5-byte stream `00 00 00 40 c5` (1-byte body: the 8-bit code of the length-60 match symbol,
then nothing) gives 60 bytes > 6 · 8, then ErrUnexpectedEOF (not kernel-checkable, see
`Proofs/AllocWitness.lean`). -/
theorem decode_output_le_body (crc16 : Bool) (s : Bytes) (d : Reader) (ns : List Nat)
    (h : Reader.new crc16 s = .ok d) :
    (readsWith d ns).2.length ≤ 6 * (8 * d.src.size) + 60 ∧
    d.src.size + 4 + (if crc16 then 2 else 0) = s.length := by
  have h1 := reads_le_body crc16 s d ns h
  exact ⟨by omega, new_src_size crc16 s d h⟩

/-- **Every symbol costs a bit, every position nine.** On a well-formed tree (every reachable one is,
`Reader.fill_wf`) `decodeChar` consumes at least one input bit unless it runs the source dry, and never
un-reads; `decodePosition` consumes at least nine. (`Spent d d' k`: `d'.berr ∨ unread d' + k ≤ unread d`,
`unread d' ≤ unread d`, `berr` is never reset.) -/
theorem token_costs_bits (d : Reader) (w : HuffWF d.h) (inv : Bits.RInv d) :
    Spent d d.decodeChar.1 1 ∧ Spent d.decodeChar.1 d.decodeChar.1.decodePosition.1 9 := by
  have s1 := (decodeChar_spent d w inv).1
  exact ⟨s1, decodePosition_spent _ s1.rinv⟩

/-- **The reader's own buffer is constant-size**: after any sequence of reads, the decoded-but-unread
bytes the reader keeps (`state.buf`) number at most `F − 1 = 59`. (Its other buffers — the `N + F − 1`
byte window, the 4096-byte `bufio.Reader`, the three Huffman arrays — have fixed sizes.) -/
theorem reader_buffer_bounded (crc16 : Bool) (s : Bytes) (d : Reader) (ns : List Nat)
    (h : Reader.new crc16 s = .ok d) :
    (readsWith d ns).1.pending.length ≤ 59 := by
  obtain ⟨-, hq, -, -⟩ := new_fields crc16 s d h
  exact readsWith_pending d ns (by rw [Reader.new_h crc16 s d h]; exact huffWF_init) (by rw [hq]; exact Nat.zero_le _)

/-- **What a session buffers it has received.** For every handler, every fuel value, every proposal
(whatever compressed size the remote DECLARED in it) and every input: if `readCompressed` returns a
payload, then that payload, the three framing bytes SOH / header length / EOT, and the unread rest of the
input together are no longer than the input — and the declared compressed size was the true one. (While
the loop runs, `buf` is a prefix of that payload; on every error path it is dropped.) -/
theorem transfer_buffer_le_received {H : Type} (hstep : H → Call → H × Reply) (fuel : Nat) (p : Proposal)
    (input : Bytes) (h : H) (tr : List Ev) (payload rest : Bytes) (h' : H) (tr' : List Ev)
    (hr : Proc.run hstep (readCompressed fuel p) input h tr = (.done (.ok payload), rest, h', tr')) :
    payload.length + 3 + rest.length ≤ input.length ∧ p.csize = payload.length := by
  have := run_rcv hstep input h tr (readCompressed_rcv fuel p input.length)
  rw [hr] at this
  have := this payload rfl
  exact ⟨by omega, this.2⟩

/-- **No program un-reads** (used above for the line readers): whatever a session program does, the
unread input after it returns is no longer than before. -/
theorem session_consumes {α H : Type} (hstep : H → Call → H × Reply) (p : Proc α) (input : Bytes) (h : H)
    (tr : List Ev) (a : α) (rest : Bytes) (h' : H) (tr' : List Ev)
    (hr : Proc.run hstep p input h tr = (.done a, rest, h', tr')) : rest.length ≤ input.length := by
  have := run_rcv hstep input h tr (Rcv.le p input.length)
  rw [hr] at this
  exact this

/-- **The message a session decompresses is at most 48 × the compressed payload**: if `lzDecode`
(= `lzhuf.NewB2Reader` + `io.Copy` + `Close`, as in `Proposal.data()`) succeeds on `cdata`, the result has
at most `48 · |cdata|` bytes. -/
theorem lzDecode_le (cdata data : Bytes) (h : lzDecode cdata = some data) :
    data.length ≤ 48 * cdata.length := by
  obtain ⟨d, ns, hn, -, rfl⟩ := lzDecode_some cdata data h
  exact decode_output_proportional true cdata d ns hn

/-- **End to end**: a transfer that `readCompressed` accepted and `lzDecode` decompressed yields at most
48 bytes per byte the remote actually sent for it. -/
theorem decoded_le_received {H : Type} (hstep : H → Call → H × Reply) (fuel : Nat) (p : Proposal)
    (input : Bytes) (h : H) (tr : List Ev) (payload rest : Bytes) (h' : H) (tr' : List Ev) (data : Bytes)
    (hr : Proc.run hstep (readCompressed fuel p) input h tr = (.done (.ok payload), rest, h', tr'))
    (hd : lzDecode payload = some data) :
    data.length ≤ 48 * (input.length - rest.length) := by
  have h1 := (transfer_buffer_le_received hstep fuel p input h tr payload rest h' tr' hr).1
  have h2 := lzDecode_le payload data hd
  omega

/-! ### non-vacuity

Expansion really happens. (The kernel cannot evaluate a match on a fresh reader directly — see
`Proofs/AllocWitness.lean` — so the stream is decoded through the token semantics `decode_tokens`; the
kernel-evaluated parts are the bit string of the token under `Huff.init` and the abstract `lzDecode`.) -/

-- (the kernel-evaluated 7-byte → 60-byte expansion witness takes ~8 min to build and lives in
-- `Wl2kVerif/Thorough/C03_bomb.lean`; it is re-checked in the thorough tier)

/-- the hypothesis is satisfiable with a header that declares 2^30 bytes over a 1-byte body: whatever is
read, at most 6 · 8 + 60 = 108 bytes come out (`C08.read_bounded` alone allows 2^30) -/
example : ∃ d, Reader.new false [0, 0, 0, 0x40, 197] = .ok d ∧ d.size = 1073741824 ∧
    ∀ ns, (readsWith d ns).2.length ≤ 108 := by
  refine ⟨_, rfl, by decide +kernel, fun ns => ?_⟩
  exact (decode_output_le_body false [0, 0, 0, 0x40, 197] _ ns rfl).1

private def p0 (cs : Int) : Proposal := { code := 67, msgType := [], mid := [], size := 0, csize := cs }
private def hs0 : Unit → Call → Unit × Reply := fun _ _ => ((), .unit)

/-- a 3-byte transfer: SOH, header length 4, title `a`, offset `0`, one STX block, EOT + checksum; 14
input bytes, one left unread: 3 + 3 + 1 ≤ 14 -/
example : (match Proc.run hs0 (readCompressed 5 (p0 3)) [1, 4, 97, 0, 48, 0, 2, 3, 10, 20, 30, 4, 196, 7] () [] with
    | (.done (.ok pl), rest, _) => pl == [10, 20, 30] && rest == [7] | _ => false) = true := by decide

/-- the same bytes under a proposal that declared a compressed size of 10^6: an error, nothing is returned -/
example : (match (Proc.run hs0 (readCompressed 5 (p0 1000000)) [1, 4, 97, 0, 48, 0, 2, 3, 10, 20, 30, 4, 196, 7] () []).1 with
    | .done (.error (.proto _)) => true | _ => false) = true := by decide

end Wl2k.Props.C03
