import Wl2kVerif.Proofs.CanonRound
import Wl2kVerif.Props.C06
/-
C07 — interoperation with the canonical codec, ENCODER side: the library's reader decodes what the CANONICAL
`Encode()` emits (`Lzhuf.Canon.compress`, transcription of LZHUF.C with the FBB/B2F header: all 60 pre-start
nodes inserted after the look-ahead is full; `DeleteNode(s)` before the store; `EncodeChar` with its 16-bit code
accumulator).  Counterpart of `Props/C07_roundtrip.lean` (`canon_decodes_go`).

Route (helper files `Proofs/Canon{Bits,Win,Enc,Start,Round}.lean`): the canonical driver loops keep a window
invariant `Lzhuf.CSt` (contents, live nodes, the local forest invariant `TreeInv` of `Proofs/LzTree2.lean` —
the tree primitives `insertNode`/`deleteNode` are shared with the library model, only the ORDER of the driver
differs), so every token they emit is valid (`ctoken_valid`); the bit stream is `encTokens Huff.init ts`
(`canon_body_tokens`); then `Props.C06.decoder_implements_lzDecode`.

The two encoders are NOT byte-identical (observed by evaluation, not kernel-checkable in reasonable time): for
x = "  abcdefghijklmnopqrstuvwxyz0123456789ABCDEFGHIJKLMNOPQRSTUVWXYZ#    abcdefghij#" the canonical body has
76 bytes, the library's 78 (the library inserts the pre-start nodes while the look-ahead is still partly
unknown, which orders strings of leading spaces differently). Hence the proof does not go through `roundtrip`.

Hypothesis `Canon.CodeLenOK x` = "no code longer than 16 bits was emitted" (`(Canon.encodeBody x).2 ≤ 16`):
LZHUF.C shifts the code into a 16-bit `unsigned`; a 17-bit code loses its first bit.  It holds for every input
of at most 3866 bytes (`codeLenOK_small`), so `go_decodes_canon_small` has no such hypothesis.
-/
namespace Wl2k.Props.C07
open Wl2k Wl2k.Lzhuf Wl2k.Bits Wl2k.Props.C06

/-- **what the 16-bit limit means at symbol level**: the canonical `EncodeChar` (16-bit accumulator, one
`Putcode`) appends exactly the Huffman code `codeBits h c` whenever that code has at most 16 bits
(`codeLen16 h c = |codeBits h c|`). -/
theorem canon_encodeChar_exact (w : Writer) (c : Nat) (inv : BitsInv w) (hj : codeLen16 w.h c ≤ 16) :
    bitsOf (w.encodeCharOld c) = bitsOf w ++ codeBits w.h c ∧ BitsInv (w.encodeCharOld c) ∧
    codeLen16 w.h c = (codeBits w.h c).length :=
  ⟨(encodeCharOld_code w c inv hj).1, (encodeCharOld_code w c inv hj).2, codeLen16_eq w.h c⟩

/-- **the limit is respected by every input of at most 3866 bytes**: at most one token per byte, every token
adds 1 to the weight of the Huffman root (314 at the start), and a tree whose root weighs less than
`fib 19 = 4181` has no leaf deeper than 16 (`codeLen16_le_of_root`). -/
theorem codeLenOK_small (x : Bytes) (h : x.length ≤ 3866) : Canon.CodeLenOK x :=
  codeLenOK_of_small x h

/-- **the canonical encoder's body is the encoding of valid tokens for `x`**: under `Canon.CodeLenOK x` the
body bits are `encTokens Huff.init ts` for a list `ts` of well-formed tokens (`THRESHOLD < len ≤ F`,
`pos < 4096`), padded with fewer than 8 zero bits, and the tokens stand for `x` (every match the canonical
`InsertNode` reports refers to bytes equal to the look-ahead). -/
theorem canon_body_tokens (x : Bytes) (hlen : Canon.CodeLenOK x) :
    ∃ (ts : List Token) (pad : List Bool), pad.length < 8 ∧ (∀ b ∈ pad, b = false) ∧
      bytesBits (Canon.encodeBody x).1 = encTokens Huff.init ts ++ pad ∧ (∀ t ∈ ts, t.ok) ∧ lzDecode ts = x :=
  (canon_stream x (Or.inl hlen)).2

/-- **`go_decodes_canon`** — for every input `x` with `|x| < 2^31` (the `int32` size field) on which the
canonical encoder stays within its 16-bit code limit, and either header format: `NewReader` accepts the
canonical stream `Canon.compress crc16 x`; its declared size is `|x|`; and ANY sequence of `Read`s, with ANY
buffer sizes, that reaches an error return (`io.EOF` included) has returned exactly `x`, after which `Close`
returns nil. -/
theorem go_decodes_canon (crc16 : Bool) (x : Bytes) (hx : x.length < 2 ^ 31) (hlen : Canon.CodeLenOK x) :
    ∃ d, Reader.new crc16 (Canon.compress crc16 x) = .ok d ∧ d.size = (x.length : Int) ∧
      ∀ ns : List Nat, (∃ e, some e ∈ errsWith d ns) →
        (readsWith d ns).2 = x ∧ (readsWith d ns).1.close = none :=
  go_decodes_canon_full crc16 x (by simpa using hx) (Or.inl hlen)

/-- … in the `readAll` form (one `Read` into a buffer of at least `|x|` bytes, then `Close`; `readAll` of
`Props/C06.lean`), for both header formats. -/
theorem go_decodes_canon_readAll (crc16 : Bool) (x : Bytes) (hx : x.length < 2 ^ 31)
    (hlen : Canon.CodeLenOK x) (m : Nat) (hm : x.length ≤ m) :
    readAll crc16 (Canon.compress crc16 x) m = some (x, none) := by
  obtain ⟨d, h1, h2, h3⟩ := go_decodes_canon_one_read crc16 x (by simpa using hx) (Or.inl hlen) m hm
  unfold readAll
  rw [h1]
  dsimp only
  rw [h2, h3]

/-- … without the CRC header, spelled with the size field (`Canon.compress false x = le32 |x| ++ body`, cf.
`canon_header` in `Props/C07.lean`). -/
theorem go_decodes_canon_plain (x : Bytes) (hx : x.length < 2 ^ 31) (hlen : Canon.CodeLenOK x) (m : Nat)
    (hm : x.length ≤ m) :
    readAll false (le32 x.length ++ (Canon.encodeBody x).1) m = some (x, none) := by
  have := go_decodes_canon_readAll false x hx hlen m hm
  rw [canon_compress_eq, Nat.mod_eq_of_lt (by omega : x.length < 4294967296)] at this
  simpa using this

/-- **no code-length hypothesis for inputs of at most 3866 bytes**: the library reads every such canonical
stream back, any buffer sizes, `Close` = nil. -/
theorem go_decodes_canon_small (crc16 : Bool) (x : Bytes) (hx : x.length ≤ 3866) :
    (∃ d, Reader.new crc16 (Canon.compress crc16 x) = .ok d ∧ d.size = (x.length : Int) ∧
      ∀ ns : List Nat, (∃ e, some e ∈ errsWith d ns) →
        (readsWith d ns).2 = x ∧ (readsWith d ns).1.close = none) ∧
    ∀ m, x.length ≤ m → readAll crc16 (Canon.compress crc16 x) m = some (x, none) :=
  ⟨go_decodes_canon crc16 x (by omega) (codeLenOK_small x hx),
   fun m hm => go_decodes_canon_readAll crc16 x (by omega) (codeLenOK_small x hx) m hm⟩

/-! ### non-vacuity -/

/-- the hypotheses hold for the empty input, and the conclusion is the 4-byte stream read back as nothing -/
example : Canon.CodeLenOK [] ∧ Canon.compress false [] = [0, 0, 0, 0] ∧
    readAll false (Canon.compress false []) 0 = some ([], none) :=
  ⟨by decide +kernel, by decide +kernel, by decide +kernel⟩
/-- … with the CRC header: the CRC of four zero bytes is zero -/
example : Canon.compress true [] = [0, 0, 0, 0, 0, 0] ∧
    readAll true (Canon.compress true []) 0 = some ([], none) :=
  ⟨by decide +kernel, by decide +kernel⟩
/-- `Canon.CodeLenOK` is satisfiable by non-empty inputs (here without running the encoder in the kernel) -/
example : ∃ x : Bytes, x ≠ [] ∧ x.length < 2 ^ 31 ∧ Canon.CodeLenOK x :=
  ⟨[104, 101, 108, 108, 111], by decide, by decide, codeLenOK_small _ (by decide)⟩
/-- the hypothesis of `canon_encodeChar_exact` holds for every symbol in the initial Huffman state (root weight
314 < fib 19) and the initial writer -/
example : ∀ c, c < NCHAR → codeLen16 (Writer.new false).h c ≤ 16 ∧ BitsInv (Writer.new false) :=
  fun c hc => ⟨codeLen16_le_of_root huffWF_init c hc (by rw [init_root]; decide), Wl2k.Bits.new_inv false⟩

end Wl2k.Props.C07
