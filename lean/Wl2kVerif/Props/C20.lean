import Wl2kVerif.PosRep
import Wl2kVerif.Proofs.Fmt
/-
C20 — position reports state the given position in valid Winlink format.
Exact arithmetic: the input is the rational `±num/den`, `den > 0` (every float64 is such a number).
-/
namespace Wl2k.Props.C20
open Wl2k Wl2k.Fmt Wl2k.PosRep

/-- The rounded value is within half a ten-thousandth of a minute of the input:
`|t/600000 − num/den| ≤ (1/2)·(1/600000)`, stated without division. -/
theorem value_within (num den : Nat) (hd : 0 < den) :
    let t := tenThousandths num den
    2 * (t * den) ≤ 2 * num * 600000 + den ∧ 2 * num * 600000 < 2 * (t * den) + den := by
  intro t
  have h1 := Nat.div_add_mod (2 * num * 600000 + den) (2 * den)
  have h2 := Nat.mod_lt (2 * num * 600000 + den) (show 0 < 2 * den by omega)
  have ht : t = (2 * num * 600000 + den) / (2 * den) := rfl
  rw [← ht] at h1
  have e : 2 * den * t = 2 * (t * den) := by rw [Nat.mul_assoc, Nat.mul_comm den t]
  rw [e] at h1
  generalize (2 * num * 600000 + den) % (2 * den) = r at *
  generalize t * den = X at *
  omega

/-- Printed minutes are always in [0, 60): the minutes field is `m / 10000` with `m < 600000`. -/
theorem minutes_lt_60 (num den : Nat) : (tenThousandths num den % 600000) / 10000 < 60 := by
  have := Nat.mod_lt (tenThousandths num den) (show 0 < 600000 by omega)
  omega

/-- For |dec| ≤ bound degrees the degrees field is ≤ bound, and equals bound only with zero minutes. -/
theorem degrees_le (num den bound : Nat) (hd : 0 < den) (h : num ≤ bound * den) :
    tenThousandths num den / 600000 ≤ bound ∧
    (tenThousandths num den / 600000 = bound → tenThousandths num den % 600000 = 0) := by
  have hv := value_within num den hd
  simp only at hv
  generalize tenThousandths num den = t at *
  have key : t ≤ bound * 600000 := by
    -- 2·num·600000 + den ≥ 2·t·den  and  num ≤ bound·den
    rcases hv with ⟨h1, _⟩
    -- if t ≥ bound*600000+1 then 2·t·den ≥ 2·bound·600000·den + 2·den > rhs
    apply Nat.le_of_not_lt
    intro hgt
    have : (bound * 600000 + 1) * den ≤ t * den := Nat.mul_le_mul_right den hgt
    rw [Nat.add_mul, Nat.one_mul] at this
    have e : bound * 600000 * den = bound * den * 600000 := by
      rw [Nat.mul_assoc, Nat.mul_comm 600000 den, ← Nat.mul_assoc]
    rw [e] at this
    generalize t * den = X at *
    generalize bound * den = Y at *
    omega
  omega

/-- Shape `DD-MM.MMMMH` for latitudes in [-90, 90]: eleven bytes; digits, '-', digits, '.', digits, letter. -/
theorem lat_shape (neg : Bool) (num den : Nat) (hd : 0 < den) (h : num ≤ 90 * den) :
    ∃ d m f, decToMinDec neg num den true =
        fixed 2 d ++ [45] ++ fixed 2 m ++ [46] ++ fixed 4 f ++ [signChar neg num true]
      ∧ d ≤ 90 ∧ m < 60 ∧ f < 10000 := by
  have hdeg := (degrees_le num den 90 hd h).1
  have hm := minutes_lt_60 num den
  refine ⟨tenThousandths num den / 600000, tenThousandths num den % 600000 / 10000,
          tenThousandths num den % 600000 % 10000, ?_, hdeg, hm, Nat.mod_lt _ (by omega)⟩
  simp only [decToMinDec, if_true]
  rw [dec0_eq_fixed 2 _ (by omega) (by omega), dec0_eq_fixed 2 _ (by omega) (by omega),
      dec0_eq_fixed 4 _ (by omega) (by have := Nat.mod_lt (tenThousandths num den % 600000) (show 0 < 10000 by omega); omega)]

/-- Shape `DDD-MM.MMMMH` for longitudes in [-180, 180]. -/
theorem lon_shape (neg : Bool) (num den : Nat) (hd : 0 < den) (h : num ≤ 180 * den) :
    ∃ d m f, decToMinDec neg num den false =
        fixed 3 d ++ [45] ++ fixed 2 m ++ [46] ++ fixed 4 f ++ [signChar neg num false]
      ∧ d ≤ 180 ∧ m < 60 ∧ f < 10000 := by
  have hdeg := (degrees_le num den 180 hd h).1
  have hm := minutes_lt_60 num den
  refine ⟨tenThousandths num den / 600000, tenThousandths num den % 600000 / 10000,
          tenThousandths num den % 600000 % 10000, ?_, hdeg, hm, Nat.mod_lt _ (by omega)⟩
  simp only [decToMinDec, Bool.false_eq_true, if_false]
  rw [dec0_eq_fixed 3 _ (by omega) (by omega), dec0_eq_fixed 2 _ (by omega) (by omega),
      dec0_eq_fixed 4 _ (by omega) (by have := Nat.mod_lt (tenThousandths num den % 600000) (show 0 < 10000 by omega); omega)]

/-- The printed value (degrees, minutes, fraction) is exactly the rounded value. -/
theorem printed_value (num den : Nat) :
    let t := tenThousandths num den
    (t / 600000) * 600000 + (t % 600000 / 10000) * 10000 + t % 600000 % 10000 = t := by
  intro t; omega

/-- Hemisphere letter for non-zero input. -/
theorem hemisphere (neg : Bool) (num : Nat) (h : num ≠ 0) :
    signChar neg num true = (if neg then 83 else 78) ∧ signChar neg num false = (if neg then 87 else 69) := by
  simp [signChar, h]

/-- PROVED NEGATIVE (known finding, pinned by the repo's TestDecToDM): at exactly 0 the hemisphere
position holds a blank, not a letter. -/
theorem hemisphere_zero_blank (neg lat : Bool) : signChar neg 0 lat = 32 := by
  simp [signChar]

/-- Courses 0..360 format as exactly three decimal digits plus `T`/`M`; 360 prints as 000. -/
theorem course_format (d : Nat) (h : d ≤ 360) (magnetic : Bool) :
    course (Int.ofNat d) magnetic = some (fixed 3 (if d = 360 then 0 else d) ++ [if magnetic then 77 else 84]) := by
  unfold course
  have h1 : ¬ ((Int.ofNat d) < 0 ∨ (Int.ofNat d) > 360) := by
    intro hh; rcases hh with hh | hh <;> simp at hh <;> omega
  simp only [h1, if_false]
  by_cases h360 : d = 360
  · subst h360; simp [dec0_eq_fixed 3 0 (by omega) (by omega), fixed]
  · have e : (Int.ofNat d = 360) = False := by simp; omega
    simp only [e, if_false, h360]
    simp only [Int.ofNat_eq_natCast, Int.toNat_natCast]
    rw [dec0_eq_fixed 3 d (by omega) (by omega)]
    have : (fixed 3 d).length = 3 := fixed_length 3 d
    rw [List.take_of_length_le (by omega)]

theorem course_out_of_range (d : Int) (h : d < 0 ∨ d > 360) (m : Bool) : course d m = none := by
  simp [course, h]

/-- Optional lines appear iff the field is set (LAT/LON only when both are set). -/
theorem optional_iff_set (date : Bytes) (lat lon speed crs : Option Bytes) (comment : Bytes) :
    (bodyLines date lat lon speed crs comment).length =
      1 + (if lat.isSome ∧ lon.isSome then 2 else 0) + (if speed.isSome then 1 else 0)
        + (if crs.isSome then 1 else 0) + (if comment.isEmpty then 0 else 1) := by
  cases lat <;> cases lon <;> cases speed <;> cases crs <;> cases h : comment.isEmpty <;> simp [bodyLines, h]

/-- Non-vacuity: a concrete in-range input (59.9999999° = 599999999/10000000) meets the hypotheses and
carries into the next degree instead of printing 60.0000 minutes. -/
example : decToMinDec false 599999999 10000000 true = [54,48,45,48,48,46,48,48,48,48,78] /- "60-00.0000N" -/ := by decide

end Wl2k.Props.C20
