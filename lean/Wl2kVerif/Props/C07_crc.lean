import Wl2kVerif.Proofs.Crc
/-
C07 (CRC part) — the checksum the LZHUF container carries IS CRC-16/XMODEM.
`Lzhuf.crc` is the transcription of `lzhuf/crc.go` (table-driven "augmented" register, two zero
bytes pushed at the end; the table is regenerated from /repo on every run and proved equal to the
bitwise table in `C07.crc16tab_eq_bitwise`). `Crc.xmodem` is the textbook bit-serial definition:
register 0; per byte `s ^= b << 8` then eight times "shift left, xor 0x1021 if bit 15 fell out".
The two agree on EVERY byte string.
-/
namespace Wl2k.Props.C07
open Wl2k Wl2k.Lzhuf Wl2k.Crc

/-- **`crc.go` computes CRC-16/XMODEM**, for all inputs. -/
theorem crc_eq_xmodem (p : Bytes) : crc p = xmodem p := Crc.crc_eq_xmodem p

/-- the standard check value of CRC-16/XMODEM: "123456789" ↦ 0x31C3 (both definitions) -/
theorem xmodem_check :
    xmodem [0x31, 0x32, 0x33, 0x34, 0x35, 0x36, 0x37, 0x38, 0x39] = 0x31C3 ∧
    crc [0x31, 0x32, 0x33, 0x34, 0x35, 0x36, 0x37, 0x38, 0x39] = 0x31C3 := by decide +kernel

/-- On 16-bit states the table step of `udpCRC16` is "multiply by x^8 modulo the generator, add the
byte": eight bit-serial register steps, then xor the incoming byte into the low byte. -/
theorem udpCRC16_eq_bitwise (b s : Nat) (hs : s < 65536) : udpCRC16 b s = bit8 s ^^^ b :=
  udp_eq_bit8 b s hs

theorem crc_lt (p : Bytes) : crc p < 65536 := by
  rw [crc_eq_xmodem]; exact xmodemFrom_lt 0 (by decide) p

/-- The checksum fits the two header bytes: `le16` loses nothing. -/
theorem le16_crc_inj (p q : Bytes) (h : le16 (crc p) = le16 (crc q)) : crc p = crc q := by
  have hp := crc_lt p
  have hq := crc_lt q
  simp only [le16, List.cons.injEq, and_true] at h
  have h1 := congrArg UInt8.toNat h.1
  have h2 := congrArg UInt8.toNat h.2
  simp only [UInt8.toNat_ofNat'] at h1 h2
  omega

/-- Linearity (initial value 0, no final xor): the checksum of a bytewise xor of two equally long
strings is the xor of the checksums. -/
theorem crc_linear (p q : Bytes) (h : p.length = q.length) :
    crc (List.zipWith (· ^^^ ·) p q) = crc p ^^^ crc q := by
  simp only [crc_eq_xmodem]; exact xmodem_xor p q h

/-- An error pattern `e` goes unnoticed on `d` exactly when `e` itself has checksum 0 (is a
codeword) — independent of `d`. -/
theorem crc_error_undetected_iff (d e : Bytes) (h : d.length = e.length) :
    crc (List.zipWith (· ^^^ ·) d e) = crc d ↔ crc e = 0 := by
  rw [crc_linear d e h]
  constructor
  · intro h'
    have : crc d ^^^ (crc d ^^^ crc e) = crc d ^^^ crc d := by rw [h']
    rwa [xor_cancel_left, Nat.xor_self] at this
  · intro h'; rw [h', Nat.xor_zero]

end Wl2k.Props.C07
