import Wl2kVerif.Proofs.Bits
/-
C06 stage 1 — the bit layer of the LZHUF writer and reader is a faithful bit-string channel.
Writer: `Bits.bitsOf w` = bits of `w.out` (MSB first per byte) ++ the `putlen` pending bits at the top
of the 16-bit window of `putbuf`; `Bits.BitsInv w` = fewer than 8 bits pending, window clean below
them. Reader: `Bits.unreadBits d` = bits left in the register `bn` (low `bbits` bits, MSB first) ++
bits of the source bytes from `bpos`; `Bits.RInv d` = `bbits < 8 ∧ bpos ≤ pulled ≤ src.size`.
All statements are for every state satisfying the invariant, which holds initially
(`writer_start`, `reader_start`) and is preserved by every operation.
-/
namespace Wl2k.Props.C06
open Wl2k Wl2k.Lzhuf Wl2k.Bits

theorem writer_start (crc16 : Bool) : BitsInv (Writer.new crc16) ∧ bitsOf (Writer.new crc16) = [] :=
  ⟨new_inv crc16, new_bits crc16⟩

/-- `putCode l c` appends exactly the top `l` bits of the 16-bit value `c` (whose unused low bits
are zero) and keeps the invariant. -/
theorem putCode_appends (w : Writer) (l : Nat) (c : UInt64) (inv : BitsInv w) (hl : l ≤ 16)
    (hc : c.toNat < 65536) (hz : c.toNat % 2 ^ (16 - l) = 0) :
    bitsOf (w.putCode l c) = bitsOf w ++ topBits l c.toNat ∧ BitsInv (w.putCode l c) :=
  putCode_bits_num w l c inv hl hc hz

/-- `putPieces` (the 16-bit slicing loop of `encodeChar`) appends exactly the top `j ≤ 64` bits of
the 64-bit word, MSB first, whenever the fuel covers the ⌈j/16⌉ iterations. -/
theorem putPieces_appends (w : Writer) (i : UInt64) (j fuel : Nat) (inv : BitsInv w) (hj : j ≤ 64)
    (hf : j ≤ 16 * fuel) :
    bitsOf (w.putPieces i j fuel) = bitsOf w ++ bits64 j i.toNat ∧ BitsInv (w.putPieces i j fuel) :=
  putPieces_bits fuel w i j inv hj hf

/-- `encodeChar c` appends the code bits found by the leaf-to-root walk (codes of up to 64 bits). -/
theorem encodeChar_appends (w : Writer) (c : Nat) (inv : BitsInv w)
    (hj : (codeWalk64 w.h.prnt (rd w.h.prnt (c + T)) 0 0 (T + 1)).2 ≤ 64) :
    bitsOf (w.encodeChar c)
      = bitsOf w ++ bits64 (codeWalk64 w.h.prnt (rd w.h.prnt (c + T)) 0 0 (T + 1)).2
          (codeWalk64 w.h.prnt (rd w.h.prnt (c + T)) 0 0 (T + 1)).1.toNat ∧
    BitsInv (w.encodeChar c) :=
  encodeChar_bits w c inv hj

/-- `encodePosition c` appends the prefix code of the upper six bits and the lower six verbatim. -/
theorem encodePosition_appends (w : Writer) (c : Nat) (inv : BitsInv w) (hc : c < 4096) :
    bitsOf (w.encodePosition c)
      = bitsOf w ++ topBits (tbl Gen.pLen (c >>> 6)) (tbl Gen.pCode (c >>> 6) * 256)
          ++ topBits 6 ((c &&& 0x3f) * 1024) ∧
    BitsInv (w.encodePosition c) :=
  encodePosition_bits w c inv hc

/-- `encodeEnd` pads the pending bits with zeros to a byte boundary: afterwards the bytes of `out`
spell everything that was written. -/
theorem encodeEnd_pads (w : Writer) (inv : BitsInv w) :
    bytesBits w.encodeEnd.out.toList = bitsOf w ++ List.replicate ((8 - w.putlen) % 8) false :=
  encodeEnd_bits w inv

theorem reader_start (crc16 : Bool) (s : Bytes) (d : Reader) (h : Reader.new crc16 s = .ok d) :
    RInv d ∧ unreadBits d = bytesBits d.src.toList ∧ d.berr = false ∧ d.pulled = 0 :=
  new_rinv crc16 s d h

/-- `readBits 1` returns the first unread bit and leaves the rest. -/
theorem readBits_one_spec (d : Reader) (inv : RInv d) (b : Bool) (rest : List Bool)
    (hu : unreadBits d = b :: rest) :
    unreadBits (d.readBits 1).1 = rest ∧ (d.readBits 1).2 = b.toNat ∧ RInv (d.readBits 1).1 ∧
    (d.readBits 1).1.berr = d.berr ∧ d.pulled ≤ (d.readBits 1).1.pulled ∧
    rSameRest d (d.readBits 1).1 :=
  readBits_one d inv b rest hu

/-- `readBits 8` returns the next eight unread bits as a number (MSB first) and leaves the rest. -/
theorem readBits_eight_spec (d : Reader) (inv : RInv d) (bs rest : List Bool) (hbs : bs.length = 8)
    (hu : unreadBits d = bs ++ rest) :
    unreadBits (d.readBits 8).1 = rest ∧ (d.readBits 8).2 = ofBits bs ∧ RInv (d.readBits 8).1 ∧
    (d.readBits 8).1.berr = d.berr ∧ d.pulled ≤ (d.readBits 8).1.pulled ∧
    rSameRest d (d.readBits 8).1 :=
  readBits_eight d inv bs rest hbs hu

/-- With fewer than `n` unread bits the read fails: 0 is returned, `berr` is set, nothing else
changes (in particular no bit is consumed). -/
theorem readBits_exhausted (d : Reader) (n : Nat) (h8 : n ≤ 8) (inv : RInv d)
    (hshort : (unreadBits d).length < n) : d.readBits n = ({ d with berr := true }, 0) :=
  readBits_eof d n h8 inv hshort

/-- In every case the bookkeeping stays sound: `pulled` (what the CRC tee has seen) only grows and
never exceeds the source, `berr` is never cleared, nothing outside the bit layer is touched. -/
theorem readBits_bookkeeping (d : Reader) (n : Nat) (h1 : 1 ≤ n) (h8 : n ≤ 8) (inv : RInv d) :
    RInv (d.readBits n).1 ∧ d.pulled ≤ (d.readBits n).1.pulled ∧
    (d.readBits n).1.pulled ≤ (d.readBits n).1.src.size ∧
    (d.berr = true → (d.readBits n).1.berr = true) ∧ rSameRest d (d.readBits n).1 :=
  readBits_inv d n h1 h8 inv

/-- non-vacuity: three codes through a fresh writer, then the flush -/
example :
    let w := (((Writer.new false).putCode 3 0xA000).putCode 9 0xFF80).putCode 6 0x0400
    w.encodeEnd.out.toList = [0xBF, 0xF0, 0x40] ∧ w.putlen = 2 := by decide +kernel

end Wl2k.Props.C06
