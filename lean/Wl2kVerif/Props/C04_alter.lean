import Wl2kVerif.Proofs.AlterFetch
import Wl2kVerif.Proofs.LzEnc
import Wl2kVerif.Props.C04
import Wl2kVerif.Props.C04_crc
/-
C04 (in-transit alterations) — session-level statements about ALTERATIONS of the exact byte string
`writeCompressed` emits for a proposal, `F = frameOf m qtitle d` (`Proofs/PairFrame.lean`):

    SOH len qtitle NUL "0" NUL | STX n₀ d[0..m) | STX n₁ d[m..2m) | … | EOT ck        ck = −Σd mod 256

combining the 8-bit block checksum of the frame with the CRC-16 embedded in the LZHUF container `d`.
Helper files: `Proofs/AlterFrame.lean` (layout of the data bytes, `frameWith`, `eotVerdict`),
`Proofs/AlterLz.lean` (how much of the container `Reader.Close`'s CRC covers), `Proofs/AlterFetch.lean`.

Positions. Payload byte `j` (`j < |d|`) is byte `j % m` of STX block `j / m`; in `F` it sits at
`dataPos m qtitle j = |qtitle| + 5 + 2 + j + 2·(j / m)` (`data_positions`). These are exactly the
`|d|` data positions of the frame (the other positions: `|qtitle| + 5` header bytes, an STX and a length
byte per block, EOT, checksum).

Everywhere: block size `1 ≤ m ≤ 255`, a title without NUL that fits the one-byte header length,
`p.offset = 0`, enough fuel for the title and the blocks, and the frame may be followed by ANY further
input `rest` (which is left unread in every case).
-/
namespace Wl2k.Props.C04
open Wl2k Wl2k.B2F Wl2k.Lzhuf

/-! ### 0. where the data bytes are -/

/-- **Layout**: the explicit position of payload byte `j`, the byte found there, and positions grow with `j`
(so distinct payload bytes sit at distinct frame positions; bytes `j`, `j + 1` are neighbours in the frame
exactly when `j + 1` is not a multiple of `m`, otherwise an STX and a length byte lie between them). -/
theorem data_positions (m : Nat) (hm1 : 1 ≤ m) (qtitle d : Bytes) (j : Nat) (hj : j < d.length) :
    dataPos m qtitle j = qtitle.length + 5 + 2 + j + 2 * (j / m) ∧
    (frameOf m qtitle d)[dataPos m qtitle j]? = some d[j] ∧
    (∀ j', j < j' → dataPos m qtitle j < dataPos m qtitle j') := by
  refine ⟨?_, ?_, ?_⟩
  · simp only [dataPos, frameHeader_length, blockPos]; omega
  · rw [frameOf_eq_frameWith, frameWith_get_data m hm1 qtitle d _ j hj, List.getElem?_eq_getElem hj]
  · intro j' hjj
    have := blockPos_strictMono m j j' hjj
    simp only [dataPos]; omega

/-! ### 1. the frame layer sees the data bytes only through their sum -/

/-- **The frame layer's verdict on altered data bytes.** Replace the payload `d` inside the frame by ANY
`d'` of the same length (i.e. alter any set of data bytes; framing bytes and the trailer untouched — the
frame is `frameWith m qtitle d' (ckOf d)`): `readCompressed` returns `d'` if `Σd' ≡ Σd (mod 256)` and the
error "bad-checksum" otherwise. -/
theorem frame_layer_sees_only_the_sum {H : Type} (hstep : H → Call → H × Reply) (m : Nat) (hm1 : 1 ≤ m) (hm2 : m ≤ 255)
    (qtitle d d' rest : Bytes) (hq : (0 : UInt8) ∉ qtitle) (hlen : qtitle.length + 3 < 256)
    (hd : d'.length = d.length)
    (p : Proposal) (hoff : p.offset = 0) (hcs : p.csize = (d.length : Int))
    (fuel : Nat) (hfuel : qtitle.length + d.length + 4 < fuel) (h : H) (tr : List Ev) :
    Proc.run hstep (readCompressed fuel p) (frameWith m qtitle d' (ckOf d) ++ rest) h tr =
      (.done (if dataSum d' % 256 = dataSum d % 256 then .ok d' else .error (.proto "bad-checksum")), rest, h, tr) := by
  rw [run_readCompressed_frameWith hstep m hm1 hm2 qtitle d' rest _ hq hlen p hoff fuel (by omega) h tr]
  congr 2
  unfold eotVerdict ckOf negMod256
  rw [UInt8.toNat_ofNat']
  by_cases hs : dataSum d' % 256 = dataSum d % 256
  · rw [if_pos hs, if_neg (by omega), if_neg (by rw [hcs, hd]; simp)]
  · rw [if_neg hs, if_pos (by omega)]

/-- **`data_substitution_rejected`** — for every payload, title, block size `1 ≤ m ≤ 255`, every payload
index `j` and every `b' ≠ d[j]`: the frame with the data byte at `dataPos m qtitle j` replaced by `b'`
(any other byte value), followed by ANY further input, makes `readCompressed` return the error
"bad-checksum": the running 8-bit sum no longer cancels. Exactly the frame is consumed; no handler call,
nothing written. (Holds for every proposed `csize`: the checksum is tested before the size.) -/
theorem data_substitution_rejected {H : Type} (hstep : H → Call → H × Reply) (m : Nat) (hm1 : 1 ≤ m) (hm2 : m ≤ 255)
    (qtitle d rest : Bytes) (hq : (0 : UInt8) ∉ qtitle) (hlen : qtitle.length + 3 < 256)
    (p : Proposal) (hoff : p.offset = 0)
    (fuel : Nat) (hfuel : qtitle.length + d.length + 4 < fuel) (h : H) (tr : List Ev)
    (j : Nat) (hj : j < d.length) (b' : UInt8) (hb : b' ≠ d[j]) :
    Proc.run hstep (readCompressed fuel p) ((frameOf m qtitle d).set (dataPos m qtitle j) b' ++ rest) h tr =
      (.done (.error (.proto "bad-checksum")), rest, h, tr) := by
  rw [frameOf_eq_frameWith, frameWith_set_data m hm1 qtitle d _ j hj b',
    run_readCompressed_frameWith hstep m hm1 hm2 qtitle (d.set j b') rest _ hq hlen p hoff fuel
      (by rw [List.length_set]; exact hfuel) h tr]
  congr 2
  have e := dataSum_set d j hj b'
  have hne : b'.toNat ≠ d[j].toNat := fun h' => hb (UInt8.toNat_inj.1 h')
  have := b'.toNat_lt; have := d[j].toNat_lt
  unfold eotVerdict ckOf negMod256
  rw [UInt8.toNat_ofNat', if_pos (by omega)]

/-- The same in the `pre ++ [b] ++ post` form: if the frame splits as `pre ++ b :: post` with `pre` ending
inside the data of an STX block (`|pre| = dataPos m qtitle j` for a payload index `j`), then
`pre ++ b' :: post` with `b' ≠ b` is refused, whatever follows. -/
theorem data_substitution_rejected_split {H : Type} (hstep : H → Call → H × Reply) (m : Nat) (hm1 : 1 ≤ m) (hm2 : m ≤ 255)
    (qtitle d rest : Bytes) (hq : (0 : UInt8) ∉ qtitle) (hlen : qtitle.length + 3 < 256)
    (p : Proposal) (hoff : p.offset = 0)
    (fuel : Nat) (hfuel : qtitle.length + d.length + 4 < fuel) (h : H) (tr : List Ev)
    (pre post : Bytes) (b b' : UInt8) (hF : frameOf m qtitle d = pre ++ b :: post)
    (j : Nat) (hj : j < d.length) (hpre : pre.length = dataPos m qtitle j) (hb : b' ≠ b) :
    Proc.run hstep (readCompressed fuel p) (pre ++ b' :: post ++ rest) h tr =
      (.done (.error (.proto "bad-checksum")), rest, h, tr) := by
  have hg := (data_positions m hm1 qtitle d j hj).2.1
  rw [hF, ← hpre, List.getElem?_append_right (Nat.le_refl _), Nat.sub_self] at hg
  simp only [List.getElem?_cons_zero, Option.some.injEq] at hg
  have := data_substitution_rejected hstep m hm1 hm2 qtitle d rest hq hlen p hoff fuel hfuel h tr j hj b'
    (by rw [← hg]; exact hb)
  rw [hF, ← hpre, List.set_append_right _ _ (Nat.le_refl _), Nat.sub_self, List.set_cons_zero] at this
  exact this

/-- **`compensated_pair_needs_crc`** (the honest negative half) — a `+δ` / `−δ` change of ANY two
different data bytes (same block or different blocks) leaves the block checksum intact:
`readCompressed` accepts the altered frame and returns the ALTERED payload. The frame layer alone does not
catch it; whether it is caught is up to the CRC-16 inside the payload. -/
theorem compensated_pair_needs_crc {H : Type} (hstep : H → Call → H × Reply) (m : Nat) (hm1 : 1 ≤ m) (hm2 : m ≤ 255)
    (qtitle d rest : Bytes) (hq : (0 : UInt8) ∉ qtitle) (hlen : qtitle.length + 3 < 256)
    (p : Proposal) (hoff : p.offset = 0) (hcs : p.csize = (d.length : Int))
    (fuel : Nat) (hfuel : qtitle.length + d.length + 4 < fuel) (h : H) (tr : List Ev)
    (j1 j2 : Nat) (h1 : j1 < d.length) (h2 : j2 < d.length) (hne : j1 ≠ j2) (δ : UInt8) :
    Proc.run hstep (readCompressed fuel p)
        (((frameOf m qtitle d).set (dataPos m qtitle j1) (d[j1] + δ)).set (dataPos m qtitle j2) (d[j2] - δ) ++ rest) h tr =
      (.done (.ok ((d.set j1 (d[j1] + δ)).set j2 (d[j2] - δ))), rest, h, tr) := by
  rw [frameOf_eq_frameWith, frameWith_set_data m hm1 qtitle d _ j1 h1,
    frameWith_set_data m hm1 qtitle _ _ j2 (by rw [List.length_set]; exact h2)]
  have := frame_layer_sees_only_the_sum hstep m hm1 hm2 qtitle d ((d.set j1 (d[j1] + δ)).set j2 (d[j2] - δ)) rest hq hlen
    (by simp) p hoff hcs fuel hfuel h tr
  rw [this, if_pos (dataSum_pair d j1 j2 h1 h2 hne δ)]

/-! ### 2. what the decompressor's verdict covers -/

/-- **The decompressor's verdict is the container's CRC** (one refill, declared size ≠ 0): if the container
is at most 4102 bytes long (2 CRC + 4 size + a body that fits ONE 4096-byte `bufio` refill) and its declared
size is not 0, then `lzDecode c = some _` (B2 reader read to EOF, `Close() = nil`) implies `crcOK c`: the first
two bytes are the little-endian CRC-16/XMODEM of everything after them. (For longer containers only a prefix
on the 4096-grid is certified, `Lzhuf.lzDecode_some_prefix`; for declared size 0 nothing of the body is —
see `compensated_pair_zero_size_not_caught`.) -/
theorem decoder_verdict_is_crc (c data : Bytes) (hlen : c.length ≤ 4102)
    (hsz : int32OfLE ((c.drop 2).take 4) ≠ 0) (h : B2F.lzDecode c = some data) : crcOK c :=
  lzDecode_some_crcOK c data hlen hsz h

/-- **`compensated_pair_not_delivered`** (decoder level) — `c` any container with a valid embedded CRC
(`crcOK c`; every `compress true x` is one, `compress_crcOK`), at most 4102 bytes long. A `+δ` / `−δ`
change (`δ ≠ 0`) of two bytes ADJACENT in the container, at offsets `i`, `i + 1` with `i ≠ 1` — i.e. both
inside the CRC field (`i = 0`) or both inside the CRC-covered part (`i ≥ 2`: size field and body) — is
refused by the decompressor, provided the declared size AFTER the change is not 0 (automatic for `i ≥ 6`
when the original declared size is not 0: `compensated_pair_in_body_not_delivered`). -/
theorem compensated_pair_not_delivered (c : Bytes) (i : Nat) (hi : i + 1 < c.length) (hi1 : i ≠ 1)
    (δ : UInt8) (hδ : δ ≠ 0) (hok : crcOK c) (hlen : c.length ≤ 4102)
    (hsz : int32OfLE ((((c.set i (c[i] + δ)).set (i + 1) (c[i + 1] - δ)).drop 2).take 4) ≠ 0) :
    B2F.lzDecode ((c.set i (c[i] + δ)).set (i + 1) (c[i + 1] - δ)) = none := by
  cases hd : B2F.lzDecode ((c.set i (c[i] + δ)).set (i + 1) (c[i + 1] - δ)) with
  | none => rfl
  | some data =>
    exfalso
    exact adjacent_pair_caught_frame c i hi hi1 δ hδ hok
      (decoder_verdict_is_crc _ data (by simpa using hlen) hsz hd)

/-- … for two adjacent BODY bytes (container offsets `i ≥ 6`) of a container whose declared size is not 0
(every non-empty message). -/
theorem compensated_pair_in_body_not_delivered (c : Bytes) (i : Nat) (hi : i + 1 < c.length) (hi6 : 6 ≤ i)
    (δ : UInt8) (hδ : δ ≠ 0) (hok : crcOK c) (hlen : c.length ≤ 4102)
    (hsz : int32OfLE ((c.drop 2).take 4) ≠ 0) :
    B2F.lzDecode ((c.set i (c[i] + δ)).set (i + 1) (c[i + 1] - δ)) = none := by
  apply compensated_pair_not_delivered c i hi (by omega) δ hδ hok hlen
  rw [List.drop_set, if_neg (by omega), List.take_set_of_le (by omega),
    List.drop_set, if_neg (by omega), List.take_set_of_le (by omega)]
  exact hsz

/-- **Containers of ANY length** (PARTIAL: extra hypothesis on the run of the reader). For a container longer
than 4102 bytes `Close` checks the CRC only over the body bytes the `bufio` layer actually pulled (known
finding C08:crc-ignores-unread-tail), so the unconditional statement is not available. What holds for every
length: whenever the B2 reader built on the altered container has pulled the whole body by the time `Close` is
called — whatever the sequence of `Read`s — `Close` does not return nil. (Through `deliver_implies_verdict`:
such a run never reaches `ProcessInbound`.) -/
theorem compensated_pair_not_delivered_partial (c : Bytes) (i : Nat) (hi : i + 1 < c.length) (hi1 : i ≠ 1)
    (δ : UInt8) (hδ : δ ≠ 0) (hok : crcOK c) (d : Reader) (ns : List Nat)
    (hn : Reader.new true ((c.set i (c[i] + δ)).set (i + 1) (c[i + 1] - δ)) = .ok d)
    (hfull : (readsWith d ns).1.pulled = d.src.size) :
    (readsWith d ns).1.close ≠ none := fun hc =>
  adjacent_pair_caught_frame c i hi hi1 δ hδ hok (close_full_crcOK _ d ns hn hfull hc)

/-- What an accepting `lzDecode` certifies for a container of any length: the embedded CRC equals the CRC
over the size field and the first `n` body bytes, `n` on the refill grid (the whole body or a multiple of
4096), `n > 0` unless the declared size is 0. -/
theorem decoder_verdict_covers_prefix (c data : Bytes) (h : B2F.lzDecode c = some data) :
    6 ≤ c.length ∧ ∃ n, n ≤ (c.drop 6).length ∧ (n = (c.drop 6).length ∨ n % 4096 = 0) ∧
      (int32OfLE ((c.drop 2).take 4) ≠ 0 → 0 < n) ∧
      (c.getD 0 0).toNat + 256 * (c.getD 1 0).toNat = crc ((c.drop 2).take 4 ++ (c.drop 6).take n) :=
  lzDecode_some_prefix c data h

/-- what the compressor emits has a valid embedded CRC (so the hypothesis `crcOK c` above is met by every
genuine payload) -/
theorem compress_crcOK (x : Bytes) : crcOK (compress true x) := by
  rw [compress_eq]
  simp only [if_true, le16, List.cons_append, List.nil_append]
  refine ⟨by simp, ?_⟩
  simp only [List.take_succ_cons, List.take_zero, List.drop_succ_cons, List.drop_zero, ← C07.crc_eq_xmodem]
  rfl

/-! ### 3. both layers together: the session does not deliver a compensated adjacent pair -/

/-- **`compensated_pair_not_delivered`** (session level). The proposal's frame for container `c`
(`crcOK c`, `|c| ≤ 4102`), with the two data bytes carrying payload offsets `i`, `i + 1` (`i ≠ 1`) changed by
`+δ` / `−δ` in transit — the two bytes may sit in the same STX block or, when `m ∣ i + 1`, in two
consecutive blocks with an STX and a length byte between them: `dataPos` covers both — passes
`readCompressed` (block checksum intact, `compensated_pair_needs_crc`) but the receiver's fetch loop then
stops with a decompression error: the run ends in `(st, some _)` with the state unchanged (the MID is NOT
recorded as received), the event trace is unchanged — no `parseMessage`, no `processInbound` call is
issued for this proposal — and the later proposals of the block are not fetched. -/
theorem compensated_pair_not_delivered_session {H : Type} (hstep : H → Call → H × Reply)
    (m : Nat) (hm1 : 1 ≤ m) (hm2 : m ≤ 255)
    (qtitle c rest : Bytes) (hq : (0 : UInt8) ∉ qtitle) (hlen : qtitle.length + 3 < 256)
    (p : Proposal) (ps : List Proposal) (st : SState)
    (hoff : p.offset = 0) (hcs : p.csize = (c.length : Int)) (hacc : p.answer = ansAccept) (hcode : p.code = 67)
    (fuel : Nat) (hfuel : qtitle.length + c.length + 4 < fuel) (h : H) (tr : List Ev)
    (i : Nat) (hi : i + 1 < c.length) (hi1 : i ≠ 1) (δ : UInt8) (hδ : δ ≠ 0) (hok : crcOK c) (hc : c.length ≤ 4102)
    (hsz : int32OfLE ((((c.set i (c[i] + δ)).set (i + 1) (c[i + 1] - δ)).drop 2).take 4) ≠ 0) :
    Proc.run hstep (fetchAll fuel (p :: ps) st)
        (((frameOf m qtitle c).set (dataPos m qtitle i) (c[i] + δ)).set (dataPos m qtitle (i + 1)) (c[i + 1] - δ) ++ rest) h tr =
      (.done (st, some (undecodableErr ((c.set i (c[i] + δ)).set (i + 1) (c[i + 1] - δ)))), rest, h, tr) :=
  run_fetchAll_undecodable hstep fuel p ps st _ rest _ h tr hacc hcode
    (compensated_pair_needs_crc hstep m hm1 hm2 qtitle c rest hq hlen p hoff hcs fuel hfuel h tr i (i + 1)
      (by omega) hi (by omega) δ)
    (compensated_pair_not_delivered c i hi hi1 δ hδ hok hc hsz)

/-- … and a substituted data byte never gets that far: the fetch loop stops with "bad-checksum", silently. -/
theorem data_substitution_not_delivered_session {H : Type} (hstep : H → Call → H × Reply)
    (m : Nat) (hm1 : 1 ≤ m) (hm2 : m ≤ 255)
    (qtitle d rest : Bytes) (hq : (0 : UInt8) ∉ qtitle) (hlen : qtitle.length + 3 < 256)
    (p : Proposal) (ps : List Proposal) (st : SState) (hoff : p.offset = 0) (hacc : p.answer = ansAccept)
    (fuel : Nat) (hfuel : qtitle.length + d.length + 4 < fuel) (h : H) (tr : List Ev)
    (j : Nat) (hj : j < d.length) (b' : UInt8) (hb : b' ≠ d[j]) :
    Proc.run hstep (fetchAll fuel (p :: ps) st) ((frameOf m qtitle d).set (dataPos m qtitle j) b' ++ rest) h tr =
      (.done (st, some (.proto "bad-checksum")), rest, h, tr) :=
  run_fetchAll_frame_error hstep fuel p ps st _ rest _ h tr hacc
    (data_substitution_rejected hstep m hm1 hm2 qtitle d rest hq hlen p hoff fuel hfuel h tr j hj b' hb)

/-! ### 4. trailer byte, declared size -/

/-- **`eot_checksum_substitution_rejected`** — replacing the final checksum byte (the last byte of the
frame) by any other value is refused with "bad-checksum". -/
theorem eot_checksum_substitution_rejected {H : Type} (hstep : H → Call → H × Reply) (m : Nat) (hm1 : 1 ≤ m) (hm2 : m ≤ 255)
    (qtitle d rest : Bytes) (hq : (0 : UInt8) ∉ qtitle) (hlen : qtitle.length + 3 < 256)
    (p : Proposal) (hoff : p.offset = 0)
    (fuel : Nat) (hfuel : qtitle.length + d.length + 4 < fuel) (h : H) (tr : List Ev)
    (ck' : UInt8) (hck : ck' ≠ ckOf d) :
    Proc.run hstep (readCompressed fuel p)
        ((frameOf m qtitle d).set ((frameOf m qtitle d).length - 1) ck' ++ rest) h tr =
      (.done (.error (.proto "bad-checksum")), rest, h, tr) := by
  rw [frameOf_eq_frameWith, frameWith_set_last,
    run_readCompressed_frameWith hstep m hm1 hm2 qtitle d rest _ hq hlen p hoff fuel hfuel h tr]
  congr 2
  have hne : ck'.toNat ≠ (ckOf d).toNat := fun h' => hck (UInt8.toNat_inj.1 h')
  have := ck'.toNat_lt
  unfold ckOf negMod256 at hne
  rw [UInt8.toNat_ofNat'] at hne
  unfold eotVerdict
  rw [if_pos (by omega)]

/-- **`declared_size_mismatch_rejected`** — an intact frame whose total data length differs from the
proposal's compressed size is refused with "length-mismatch-after-eot" (run-level form of `frame_checks`). -/
theorem declared_size_mismatch_rejected {H : Type} (hstep : H → Call → H × Reply) (m : Nat) (hm1 : 1 ≤ m) (hm2 : m ≤ 255)
    (qtitle d rest : Bytes) (hq : (0 : UInt8) ∉ qtitle) (hlen : qtitle.length + 3 < 256)
    (p : Proposal) (hoff : p.offset = 0) (hcs : p.csize ≠ (d.length : Int))
    (fuel : Nat) (hfuel : qtitle.length + d.length + 4 < fuel) (h : H) (tr : List Ev) :
    Proc.run hstep (readCompressed fuel p) (frameOf m qtitle d ++ rest) h tr =
      (.done (.error (.proto "length-mismatch-after-eot")), rest, h, tr) := by
  rw [frameOf_eq_frameWith,
    run_readCompressed_frameWith hstep m hm1 hm2 qtitle d rest _ hq hlen p hoff fuel hfuel h tr]
  congr 2
  unfold eotVerdict ckOf negMod256
  rw [UInt8.toNat_ofNat', if_neg (by omega), if_pos hcs]

/-! ### 5. the boundary of the guarantee, and non-vacuity -/

/-- **FINDING (instance of C08:crc-ignores-unread-tail)** — the side condition "declared size ≠ 0" is
needed: a container that declares size 0 is accepted as the empty message without a single body byte being
read or checksummed, so a compensated adjacent pair in its body is NOT caught by either layer. Witness: the
8-byte container `00 00 | 00 00 00 00 | 00 00` (valid CRC) with body bytes `+1` / `−1`. -/
theorem compensated_pair_zero_size_not_caught :
    ∃ (c : Bytes) (i : Nat) (δ : UInt8) (hi : i + 1 < c.length), 6 ≤ i ∧ δ ≠ 0 ∧ crcOK c ∧ c.length ≤ 4102 ∧
      B2F.lzDecode ((c.set i (c[i] + δ)).set (i + 1) (c[i + 1] - δ)) = some [] :=
  ⟨[0, 0, 0, 0, 0, 0, 0, 0], 6, 1, by decide, by decide, by decide, by decide +kernel, by decide, by decide +kernel⟩

def unitStep : Unit → Call → Unit × Reply := fun _ _ => ((), .unit)
/-- a tiny concrete frame: title "T", payload `0a 14 1e`, block size 2 (two STX blocks) -/
def tinyProp : Proposal := { code := 67, msgType := [], mid := [], size := 0, csize := 3 }

example : frameOf 2 [84] [10, 20, 30] = [1, 4, 84, 0, 48, 0, 2, 2, 10, 20, 2, 1, 30, 4, 196] ∧
    dataPos 2 [84] 0 = 8 ∧ dataPos 2 [84] 1 = 9 ∧ dataPos 2 [84] 2 = 12 := by decide +kernel
/-- intact: accepted -/
example : (match (Proc.run unitStep (readCompressed 20 tinyProp)
      [1, 4, 84, 0, 48, 0, 2, 2, 10, 20, 2, 1, 30, 4, 196, 99] () []) with
    | (.done (.ok d), rest, _, _) => d == [10, 20, 30] && rest == [99]
    | _ => false) = true := by decide +kernel
/-- one altered data byte (`14 → 15` at position 9): rejected -/
example : (match (Proc.run unitStep (readCompressed 20 tinyProp)
      [1, 4, 84, 0, 48, 0, 2, 2, 10, 21, 2, 1, 30, 4, 196, 99] () []) with
    | (.done (.error (.proto _)), rest, _, _) => rest == [99]
    | _ => false) = true := by decide +kernel
/-- a compensated NON-adjacent pair across the block boundary (`0a+5`, `1e−5`): passes `readCompressed` -/
example : (match (Proc.run unitStep (readCompressed 20 tinyProp)
      [1, 4, 84, 0, 48, 0, 2, 2, 15, 20, 2, 1, 25, 4, 196, 99] () []) with
    | (.done (.ok d), rest, _, _) => d == [15, 20, 25] && rest == [99]
    | _ => false) = true := by decide +kernel
/-- an altered trailer byte: rejected -/
example : (match (Proc.run unitStep (readCompressed 20 tinyProp)
      [1, 4, 84, 0, 48, 0, 2, 2, 10, 20, 2, 1, 30, 4, 197, 99] () []) with
    | (.done (.error (.proto _)), rest, _, _) => rest == [99]
    | _ => false) = true := by decide +kernel
/-- the hypotheses of `compensated_pair_not_delivered` are satisfiable: a 47-byte container with a valid CRC
and declared size 67 (`Props/C04_crc.lean`), pair at body offsets 10, 11 -/
example : crcOK [171, 97, 67, 0, 0, 0, 3, 10, 17, 24, 31, 38, 45, 52, 59, 66, 73, 80, 87, 94, 101, 108, 115, 122,
    129, 136, 143, 150, 157, 164, 171, 178, 185, 192, 199, 206, 213, 220, 227, 234, 241, 248, 255, 6,
    13, 0, 60] ∧ int32OfLE [67, 0, 0, 0] ≠ 0 := by decide +kernel

end Wl2k.Props.C04
