import Wl2kVerif.Proofs.LzCanon
/-
C07 — interoperation with the canonical codec, decoder side: the CANONICAL `Decode()` (`Lzhuf.Canon.decodeBody`,
transcribed from LZHUF.C: window position `N − F`, no size check inside a match) recovers every input from what
the library's compressor emits.  (The other direction, `go_decodes_canon`, is in `Props/C07_reverse.lean`: the
window invariant for the canonical driver loops, under `Canon.CodeLenOK`.)
`bodyOf crc16 x` is the body of `compress crc16 x`: `Props.C06.compress_header` /
`Lzhuf.compress_eq` give `compress crc16 x = [CRC-16] ++ le32 |x| ++ bodyOf crc16 x`.
-/
namespace Wl2k.Props.C07
open Wl2k Wl2k.Lzhuf

/-- **`canon_decodes_go`** — for EVERY input `x` and either header format, the canonical decoder applied to
the body of `compress crc16 x` with the declared size `|x|` returns `x`. No code-length hypothesis: after the
`encodeChar` repair the library emits codes of any length the tree produces (≤ 21 bits), and the canonical
decoder walks the tree bit by bit. -/
theorem canon_decodes_go (crc16 : Bool) (x : Bytes) : Canon.decodeBody (bodyOf crc16 x) x.length = x :=
  Lzhuf.canon_decodes_go crc16 x

/-- the stream layout that locates `bodyOf` and the size inside `compress crc16 x` -/
theorem compress_layout (crc16 : Bool) (x : Bytes) :
    compress crc16 x =
      (if crc16 then le16 (crc (le32 (x.length % 4294967296) ++ bodyOf crc16 x)) else [])
        ++ le32 (x.length % 4294967296) ++ bodyOf crc16 x :=
  compress_eq crc16 x

/-- non-vacuity: the empty input has the empty body, which decodes to the empty output -/
example : bodyOf false [] = [] ∧ Canon.decodeBody [] 0 = [] := by decide +kernel

end Wl2k.Props.C07
