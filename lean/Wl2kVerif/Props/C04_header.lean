import Wl2kVerif.Proofs.AlterHeaderEdge
import Wl2kVerif.Proofs.AlterFetch
import Wl2kVerif.Props.C04_alter
/-
C04 (in-transit alterations) — the HEADER clause: one byte inserted into, deleted from or substituted in
the SOH header of the exact byte string `writeCompressed` emits, `F = frameOf m qtitle d`:

    index   0    1    2 … n+1     n+2   n+3   n+4  | n+5 …
    byte    SOH  L    qtitle      NUL   '0'   NUL  | STX/EOT …        n = |qtitle|,  L = n + 3

`readCompressed` (fbb/b2f.go) reads SOH, the length byte, the title up to the first NUL, the offset field up
to the next NUL, then checks `L = |title| + |offset| + 2` ("header-length-mismatch"), that the offset field is a
number ("offset-not-an-integer") equal to the proposal's offset ("unexpected-offset"), and enters the block
loop. Helper files: `Proofs/AlterHeader.lean` (the reader on an ARBITRARY header `SOH hl t NUL o NUL X`,
`run_rc_hdr`; an offset field that runs into the stream, `run_rc_hdr_open`), `Proofs/AlterHeaderIns/Del/Sub/Edge.lean`.

Everywhere: a title without NUL that fits the one-byte header length (`n + 3 < 256`), `p.offset = 0` where the
offset check is reached, ANY block size `m` and payload `d` (the blocks are never reached in the rejection
theorems), the altered frame may be followed by ANY further input `rest`, ANY handler / state / trace — which
are returned unchanged: no handler call, nothing written, nothing peeked.

The exact range (n = |qtitle|):

  index k        insertion in front of k          deletion of k                   substitution at k
  0  (SOH)       never a payload (weak form)      never a payload (weak form)     never a payload (weak form)
  1  (L)         ACCEPTED for b = L + 1           ACCEPTED when qtitle[0] = L − 1 rejected, every b ≠ L
  2 … n+1        rejected, every b                rejected                        b = NUL rejected; b ≠ NUL ACCEPTED (title unprotected)
  n+2 (NUL)      rejected, every b                rejected                        rejected, every b ≠ NUL
  n+3 ('0')      rejected, every b                rejected                        rejected, every b ≠ '0'
  n+4 (NUL)      rejected, every b                rejected                        rejected, every b ≠ NUL
  n+5 (STX/EOT)  can be ACCEPTED (data blocks)    can be ACCEPTED (data blocks)   —

"weak form" = the result is not `.done (.ok _)` (a leading `*` sends the reader down the CMS error-line path,
which never returns a payload but whose exact outcome depends on the rest of the input).

Fuel. `fuel` bounds the model's `ReadString` loops (a model artefact; running out is `panic "fuel"`). When a
header NUL is deleted or overwritten the field that lost its terminator runs on to the next NUL anywhere in
the remaining input (possibly beyond the frame — Go's `ReadString` does the same), so those theorems ask for
`|F ++ rest| < fuel`; the others for `n + 4 < fuel`.
-/
namespace Wl2k.Props.C04
open Wl2k Wl2k.B2F Wl2k.B2F.HeaderEx

/-! ### 1. insertion -/

/-- **`header_insertion_rejected`** — for every title `qtitle` without NUL and with `|qtitle| + 3 < 256`, every
payload `d`, every block size `m`, every proposal `p` with `p.offset = 0`, every following input `rest`, every
handler, state and trace, fuel `> |qtitle| + 4`: inserting ANY byte `b` at ANY index `k` with
`2 ≤ k ≤ |qtitle| + 4` of the frame (i.e. in front of any title byte, of the first NUL, of the offset digit or of
the final NUL — `List.insertIdx k b` puts `b` at index `k`) makes `readCompressed` return an error; no payload.
The error is the constant "header-length-mismatch" in every case but one: a NUL inserted directly in front of
the final NUL (`k = |qtitle| + 4`, `b = 0`) leaves a well-formed header, and the block loop then refuses the
stray NUL with "unexpected-byte-in-compressed-stream". Handler state and trace are unchanged; the unread
input `rem` is characterised existentially. -/
theorem header_insertion_rejected {H : Type} (hstep : H → Call → H × Reply) (m : Nat)
    (qtitle d rest : Bytes) (hq : (0 : UInt8) ∉ qtitle) (hlen : qtitle.length + 3 < 256)
    (p : Proposal) (hoff : p.offset = 0)
    (fuel : Nat) (hfuel : qtitle.length + 4 < fuel) (h : H) (tr : List Ev)
    (k : Nat) (hk2 : 2 ≤ k) (hk : k ≤ qtitle.length + 4) (b : UInt8) :
    ∃ rem, Proc.run hstep (readCompressed fuel p) ((frameOf m qtitle d).insertIdx k b ++ rest) h tr =
      (.done (.error (.proto (if k = qtitle.length + 4 ∧ b = 0 then "unexpected-byte-in-compressed-stream"
        else "header-length-mismatch"))), rem, h, tr) :=
  run_rc_header_insert hstep m qtitle d rest hq hlen p hoff fuel hfuel h tr k hk2 hk b

/-- … so the receiver's fetch loop stops there with that error: the state is unchanged (the MID is not recorded
as received), the trace is unchanged (no `parseMessage`, no `processInbound` call), later proposals of the
block are not fetched. (`p.answer = ansAccept`: the proposal is one the receiver fetches.) -/
theorem header_insertion_not_delivered_session {H : Type} (hstep : H → Call → H × Reply) (m : Nat)
    (qtitle d rest : Bytes) (hq : (0 : UInt8) ∉ qtitle) (hlen : qtitle.length + 3 < 256)
    (p : Proposal) (ps : List Proposal) (st : SState) (hoff : p.offset = 0) (hacc : p.answer = ansAccept)
    (fuel : Nat) (hfuel : qtitle.length + 4 < fuel) (h : H) (tr : List Ev)
    (k : Nat) (hk2 : 2 ≤ k) (hk : k ≤ qtitle.length + 4) (b : UInt8) :
    ∃ e rem, Proc.run hstep (fetchAll fuel (p :: ps) st) ((frameOf m qtitle d).insertIdx k b ++ rest) h tr =
      (.done (st, some e), rem, h, tr) := by
  obtain ⟨rem, hr⟩ := header_insertion_rejected hstep m qtitle d rest hq hlen p hoff fuel hfuel h tr k hk2 hk b
  exact ⟨_, rem, run_fetchAll_frame_error hstep fuel p ps st _ rem _ h tr hacc hr⟩

/-- **Boundary `k = 1` (NEGATIVE)** — inserting the byte `L + 1 = |qtitle| + 4` in front of the length byte `L`
is ACCEPTED (block size `1 ≤ m ≤ 255`, `|qtitle| + 4 < 256`, `p.csize = |d|`, the usual fuel): the inserted byte
is taken for the length byte and the old length byte becomes the first title byte — the altered string is
exactly the genuine frame for the title `L :: qtitle` (first conjunct). The title field only feeds the log line /
status display (see `title_substitution_accepted`); the payload returned is the original `d`. -/
theorem length_byte_insertion_accepted {H : Type} (hstep : H → Call → H × Reply) (m : Nat) (hm1 : 1 ≤ m) (hm2 : m ≤ 255)
    (qtitle d rest : Bytes) (hq : (0 : UInt8) ∉ qtitle) (hlen : qtitle.length + 4 < 256)
    (p : Proposal) (hoff : p.offset = 0) (hcs : p.csize = (d.length : Int))
    (fuel : Nat) (hfuel : qtitle.length + d.length + 5 < fuel) (h : H) (tr : List Ev) :
    (frameOf m qtitle d).insertIdx 1 (UInt8.ofNat (qtitle.length + 4)) =
        frameOf m (UInt8.ofNat (qtitle.length + 3) :: qtitle) d ∧
    Proc.run hstep (readCompressed fuel p)
        ((frameOf m qtitle d).insertIdx 1 (UInt8.ofNat (qtitle.length + 4)) ++ rest) h tr =
      (.done (.ok d), rest, h, tr) := by
  have e := frameOf_insert_len m qtitle d
  have hL : lenByte qtitle = UInt8.ofNat (qtitle.length + 3) := by
    apply UInt8.toNat_inj.1; rw [lenByte_toNat qtitle (by omega)]; simp; omega
  refine ⟨by rw [e, hL], ?_⟩
  rw [e]
  exact B2F.frame_roundtrip hstep m hm1 hm2 (lenByte qtitle :: qtitle) d rest
    (by simp only [List.mem_cons, not_or]; exact ⟨fun e => lenByte_ne_zero qtitle (by omega) e.symm, hq⟩)
    (by simp; omega) p hoff hcs fuel (by simp; omega) h tr

/-- **Boundary `k = 0`** — a byte inserted in front of SOH never yields a payload (weak form: the result is
not `.done (.ok _)`): a second SOH gives "header-length-mismatch", any other byte but `*` gives
"first-byte-not-soh", and `*` sends the reader down the CMS error-line path, which ends in "error-from-cms"
(or, in the model, in a fuel panic when no CR follows within `fuel` bytes). -/
theorem soh_insertion_not_accepted {H : Type} (hstep : H → Call → H × Reply) (m : Nat)
    (qtitle d rest : Bytes) (hq : (0 : UInt8) ∉ qtitle) (hlen : qtitle.length + 3 < 256) (p : Proposal)
    (fuel : Nat) (hfuel : qtitle.length + 4 < fuel) (h : H) (tr : List Ev) (b : UInt8) (x : Bytes) :
    (Proc.run hstep (readCompressed fuel p) ((frameOf m qtitle d).insertIdx 0 b ++ rest) h tr).1 ≠ .done (.ok x) ∧
    (b ≠ 42 → ∃ rem, Proc.run hstep (readCompressed fuel p) ((frameOf m qtitle d).insertIdx 0 b ++ rest) h tr =
      (.done (.error (.proto (if b = 1 then "header-length-mismatch" else "first-byte-not-soh"))), rem, h, tr)) := by
  by_cases hb : b = 1
  · subst hb
    have := run_rc_insert_soh hstep m qtitle d rest hq hlen p fuel hfuel h tr
    exact ⟨by rw [this]; simp, fun _ => ⟨frameTail m d ++ rest, by rw [this]; simp⟩⟩
  · rw [List.insertIdx_zero, List.cons_append]
    refine ⟨run_rc_first_not_soh hstep fuel p b _ hb h tr x, fun h42 => ?_⟩
    rw [if_neg hb]
    exact ⟨_, run_rc_first_other hstep fuel p b _ hb h42 h tr⟩

/-- **Boundary `k = |qtitle| + 5` (NEGATIVE)** — behind the final NUL the header clause ends: an STX inserted in
front of the first block can be ACCEPTED, with a DIFFERENT payload of the declared size. Witness: title "T",
block size 2, payload `fa 04` (frame `01 04 54 00 30 00 | 02 02 fa 04 | 04 02`), `csize = 2`: after the insertion
the block is `02 02 | 02 fa`, the payload byte `04` is taken for EOT and the old EOT for the checksum
(`02 + fa + 04 ≡ 0`). -/
theorem first_block_insertion_accepted :
    Proc.run unitStep (readCompressed 20 { tinyProp with csize := 2 })
      ((frameOf 2 [84] [250, 4]).insertIdx ([84].length + 5) 2 ++ [99]) () [] =
    (.done (.ok [2, 250]), [2, 99], (), []) := by decide +kernel

/-! ### 2. deletion -/

/-- **`header_deletion_rejected`** — for every title `qtitle` without NUL and with `|qtitle| + 3 < 256`, every
payload `d`, block size `m`, proposal `p` (any offset, any size), following input `rest`, handler, state, trace,
and fuel `> |F ++ rest|`: deleting the byte at ANY index `k` with `2 ≤ k ≤ |qtitle| + 4` (a title byte, the first
NUL, the offset digit, the final NUL — `List.eraseIdx k`) makes `readCompressed` return an error; no payload.
The error is "header-length-mismatch", except that when one of the two NULs is deleted (`k = |qtitle| + 2` or
`k = |qtitle| + 4`) and NO NUL byte occurs anywhere in the blocks, the trailer and `rest`, the field never ends
and the error is `.eof` (connection lost). Handler state and trace are unchanged. (When a NUL is deleted the
reader consumes input up to the next NUL, possibly beyond the end of the frame.) -/
theorem header_deletion_rejected {H : Type} (hstep : H → Call → H × Reply) (m : Nat)
    (qtitle d rest : Bytes) (hq : (0 : UInt8) ∉ qtitle) (hlen : qtitle.length + 3 < 256) (p : Proposal)
    (fuel : Nat) (hfuel : (frameOf m qtitle d ++ rest).length < fuel) (h : H) (tr : List Ev)
    (k : Nat) (hk2 : 2 ≤ k) (hk : k ≤ qtitle.length + 4) :
    ∃ e rem, Proc.run hstep (readCompressed fuel p) ((frameOf m qtitle d).eraseIdx k ++ rest) h tr =
        (.done (.error e), rem, h, tr) ∧
      (e = .proto "header-length-mismatch" ∨ ((k = qtitle.length + 2 ∨ k = qtitle.length + 4) ∧ e = .eof)) :=
  run_rc_header_delete hstep m qtitle d rest hq hlen p fuel hfuel h tr k hk2 hk

/-- … so the receiver's fetch loop stops there with that error, silently (see
`header_insertion_not_delivered_session`). -/
theorem header_deletion_not_delivered_session {H : Type} (hstep : H → Call → H × Reply) (m : Nat)
    (qtitle d rest : Bytes) (hq : (0 : UInt8) ∉ qtitle) (hlen : qtitle.length + 3 < 256)
    (p : Proposal) (ps : List Proposal) (st : SState) (hacc : p.answer = ansAccept)
    (fuel : Nat) (hfuel : (frameOf m qtitle d ++ rest).length < fuel) (h : H) (tr : List Ev)
    (k : Nat) (hk2 : 2 ≤ k) (hk : k ≤ qtitle.length + 4) :
    ∃ e rem, Proc.run hstep (fetchAll fuel (p :: ps) st) ((frameOf m qtitle d).eraseIdx k ++ rest) h tr =
      (.done (st, some e), rem, h, tr) := by
  obtain ⟨e, rem, hr, _⟩ := header_deletion_rejected hstep m qtitle d rest hq hlen p fuel hfuel h tr k hk2 hk
  exact ⟨e, rem, run_fetchAll_frame_error hstep fuel p ps st _ rem e h tr hacc hr⟩

/-- **Boundary `k = 1` (NEGATIVE)** — deleting the length byte is ACCEPTED when the first title byte happens to
equal `L − 1`: for every title of the form `(|t| + 3) :: t` (`t` without NUL, `|t| + 4 < 256`) the frame with
its length byte deleted is exactly the genuine frame for the title `t` (first conjunct; block size
`1 ≤ m ≤ 255`, `p.offset = 0`, `p.csize = |d|`, the usual fuel), and the original payload is returned. -/
theorem length_byte_deletion_accepted {H : Type} (hstep : H → Call → H × Reply) (m : Nat) (hm1 : 1 ≤ m) (hm2 : m ≤ 255)
    (t d rest : Bytes) (hq : (0 : UInt8) ∉ t) (hlen : t.length + 4 < 256)
    (p : Proposal) (hoff : p.offset = 0) (hcs : p.csize = (d.length : Int))
    (fuel : Nat) (hfuel : t.length + d.length + 4 < fuel) (h : H) (tr : List Ev) :
    (frameOf m (UInt8.ofNat (t.length + 3) :: t) d).eraseIdx 1 = frameOf m t d ∧
    Proc.run hstep (readCompressed fuel p)
        ((frameOf m (UInt8.ofNat (t.length + 3) :: t) d).eraseIdx 1 ++ rest) h tr =
      (.done (.ok d), rest, h, tr) := by
  have hL : UInt8.ofNat (t.length + 3) = lenByte t := by
    apply UInt8.toNat_inj.1; rw [lenByte_toNat t (by omega)]; simp; omega
  rw [hL, frameOf_erase_len]
  exact ⟨rfl, B2F.frame_roundtrip hstep m hm1 hm2 t d rest hq (by omega) p hoff hcs fuel hfuel h tr⟩

/-- **Boundary `k = 0`** — with SOH deleted the first byte is the length byte `L ≥ 3`, not SOH: never a
payload (weak form); the exact error is "first-byte-not-soh" unless `L = 42 = '*'` (`|qtitle| = 39`), which
sends the reader down the CMS error-line path. -/
theorem soh_deletion_not_accepted {H : Type} (hstep : H → Call → H × Reply) (m : Nat)
    (qtitle d rest : Bytes) (hlen : qtitle.length + 3 < 256) (p : Proposal)
    (fuel : Nat) (h : H) (tr : List Ev) (x : Bytes) :
    (Proc.run hstep (readCompressed fuel p) ((frameOf m qtitle d).eraseIdx 0 ++ rest) h tr).1 ≠ .done (.ok x) ∧
    (qtitle.length ≠ 39 → ∃ rem, Proc.run hstep (readCompressed fuel p) ((frameOf m qtitle d).eraseIdx 0 ++ rest) h tr =
      (.done (.error (.proto "first-byte-not-soh")), rem, h, tr)) := by
  have hL := lenByte_toNat qtitle hlen
  have h1 : lenByte qtitle ≠ 1 := fun e => by
    rw [e] at hL; have : (1 : UInt8).toNat = 1 := rfl; omega
  rw [frameOf_cons, List.eraseIdx_cons_zero, List.cons_append]
  refine ⟨run_rc_first_not_soh hstep fuel p _ _ h1 h tr x, fun h39 => ?_⟩
  exact ⟨_, run_rc_first_other hstep fuel p _ _ h1 (fun e => by
    rw [e] at hL; have : (42 : UInt8).toNat = 42 := rfl; omega) h tr⟩

/-- **Boundary `k = |qtitle| + 5` (NEGATIVE)** — deleting the first STX can be ACCEPTED, with a DIFFERENT payload
of the declared size, when the next input byte fits. Witness: title "T", block size 2, payload `02 fa` (frame
`01 04 54 00 30 00 | 02 02 02 fa | 04 04`), followed by a byte `02`, `csize = 2`: after the deletion the block is
`02 02 | fa 04`, the old checksum `04` is taken for EOT and the following `02` for the checksum. -/
theorem first_block_deletion_accepted :
    Proc.run unitStep (readCompressed 20 { tinyProp with csize := 2 })
      ((frameOf 2 [84] [2, 250]).eraseIdx ([84].length + 5) ++ [2, 99]) () [] =
    (.done (.ok [250, 4]), [99], (), []) := by decide +kernel

/-! ### 3. substitution -/

/-- **The length byte** (index 1) replaced by ANY other value `b` (`b.toNat ≠ |qtitle| + 3`): the constant error
"header-length-mismatch"; consumed is exactly the header (the blocks, the trailer and `rest` are left). -/
theorem length_byte_substitution_rejected {H : Type} (hstep : H → Call → H × Reply) (m : Nat)
    (qtitle d rest : Bytes) (hq : (0 : UInt8) ∉ qtitle) (hlen : qtitle.length + 3 < 256) (p : Proposal)
    (fuel : Nat) (hfuel : qtitle.length + 4 < fuel) (h : H) (tr : List Ev)
    (b : UInt8) (hb : b.toNat ≠ qtitle.length + 3) :
    Proc.run hstep (readCompressed fuel p) ((frameOf m qtitle d).set 1 b ++ rest) h tr =
      (.done (.error (.proto "header-length-mismatch")),
        (frameOf m qtitle d).drop (qtitle.length + 5) ++ rest, h, tr) := by
  rw [run_rc_subst_len hstep m qtitle d rest hq hlen p fuel hfuel h tr b hb]
  congr 3
  rw [frameOf_cons, show qtitle.length + 5 = (qtitle.length + 3) + 1 + 1 by omega, List.drop_succ_cons,
    List.drop_succ_cons, show qtitle ++ 0 :: 48 :: 0 :: frameTail m d = (qtitle ++ [0, 48, 0]) ++ frameTail m d by simp,
    List.drop_left' (by simp)]

/-- **A title byte replaced by NUL** (index `i + 2`, `i < |qtitle|`): the title field ends early, the rest of
the title is taken for the offset field, and the lengths add up to `L − 2`: "header-length-mismatch". -/
theorem title_nul_substitution_rejected {H : Type} (hstep : H → Call → H × Reply) (m : Nat)
    (qtitle d rest : Bytes) (hq : (0 : UInt8) ∉ qtitle) (hlen : qtitle.length + 3 < 256) (p : Proposal)
    (fuel : Nat) (hfuel : qtitle.length + 4 < fuel) (h : H) (tr : List Ev)
    (i : Nat) (hi : i < qtitle.length) :
    ∃ rem, Proc.run hstep (readCompressed fuel p) ((frameOf m qtitle d).set (i + 2) 0 ++ rest) h tr =
      (.done (.error (.proto "header-length-mismatch")), rem, h, tr) :=
  ⟨_, run_rc_subst_title_nul hstep m qtitle d rest hq hlen p fuel hfuel h tr i hi⟩

/-- **The first NUL** (index `|qtitle| + 2`) replaced by any non-NUL byte: the title field swallows the offset
digit and ends at the final NUL; the offset field then runs into the blocks: "header-length-mismatch" if a NUL
occurs anywhere in the remaining input, `.eof` otherwise. (Fuel `> |F ++ rest|`.) -/
theorem first_nul_substitution_rejected {H : Type} (hstep : H → Call → H × Reply) (m : Nat)
    (qtitle d rest : Bytes) (hq : (0 : UInt8) ∉ qtitle) (hlen : qtitle.length + 3 < 256) (p : Proposal)
    (fuel : Nat) (hfuel : (frameOf m qtitle d ++ rest).length < fuel) (h : H) (tr : List Ev)
    (b : UInt8) (hb : b ≠ 0) :
    ∃ e rem, Proc.run hstep (readCompressed fuel p) ((frameOf m qtitle d).set (qtitle.length + 2) b ++ rest) h tr =
        (.done (.error e), rem, h, tr) ∧ (e = .proto "header-length-mismatch" ∨ e = .eof) :=
  run_rc_subst_nul1 hstep m qtitle d rest hq hlen p fuel hfuel h tr b hb

/-- **The offset digit `'0'`** (index `|qtitle| + 3`) replaced by any other byte `b` (`p.offset = 0`):
`b = NUL` gives an empty offset field and "header-length-mismatch"; any other non-digit (including `+`, `-`)
gives "offset-not-an-integer"; a digit `1`…`9` gives "unexpected-offset". -/
theorem offset_digit_substitution_rejected {H : Type} (hstep : H → Call → H × Reply) (m : Nat)
    (qtitle d rest : Bytes) (hq : (0 : UInt8) ∉ qtitle) (hlen : qtitle.length + 3 < 256)
    (p : Proposal) (hoff : p.offset = 0)
    (fuel : Nat) (hfuel : qtitle.length + 4 < fuel) (h : H) (tr : List Ev)
    (b : UInt8) (hb : b ≠ 48) :
    ∃ e rem, Proc.run hstep (readCompressed fuel p) ((frameOf m qtitle d).set (qtitle.length + 3) b ++ rest) h tr =
        (.done (.error e), rem, h, tr) ∧
      ((b = 0 ∧ e = .proto "header-length-mismatch") ∨
       (b ≠ 0 ∧ (e = .proto "offset-not-an-integer" ∨ e = .proto "unexpected-offset"))) :=
  run_rc_subst_digit hstep m qtitle d rest hq hlen p hoff fuel hfuel h tr b hb

/-- **The final NUL** (index `|qtitle| + 4`) replaced by any non-NUL byte: the offset field runs into the
blocks: "header-length-mismatch" if a NUL occurs anywhere in the remaining input, `.eof` otherwise.
(Fuel `> |F ++ rest|`.) -/
theorem final_nul_substitution_rejected {H : Type} (hstep : H → Call → H × Reply) (m : Nat)
    (qtitle d rest : Bytes) (hq : (0 : UInt8) ∉ qtitle) (hlen : qtitle.length + 3 < 256) (p : Proposal)
    (fuel : Nat) (hfuel : (frameOf m qtitle d ++ rest).length < fuel) (h : H) (tr : List Ev)
    (b : UInt8) (hb : b ≠ 0) :
    ∃ e rem, Proc.run hstep (readCompressed fuel p) ((frameOf m qtitle d).set (qtitle.length + 4) b ++ rest) h tr =
        (.done (.error e), rem, h, tr) ∧ (e = .proto "header-length-mismatch" ∨ e = .eof) :=
  run_rc_subst_nul2 hstep m qtitle d rest hq hlen p fuel hfuel h tr b hb

/-- **`header_substitution_rejected`** — all of the above in one statement. For every title `qtitle` without NUL
and with `|qtitle| + 3 < 256`, payload `d`, block size `m`, proposal `p` with `p.offset = 0`, following input
`rest`, handler, state, trace and fuel `> |F ++ rest|`: replacing the byte at index `k` of the frame by `b`,
where (`k`, `b`) is one of
  * the length byte by any other value (`k = 1`, `b.toNat ≠ |qtitle| + 3`),
  * a title byte by NUL (`2 ≤ k < |qtitle| + 2`, `b = 0`),
  * the first NUL by a non-NUL byte (`k = |qtitle| + 2`, `b ≠ 0`),
  * the offset digit `'0'` by any other byte, digit or not (`k = |qtitle| + 3`, `b ≠ 48`),
  * the final NUL by a non-NUL byte (`k = |qtitle| + 4`, `b ≠ 0`),
makes `readCompressed` return an error — one of "header-length-mismatch", "offset-not-an-integer",
"unexpected-offset", `.eof`; which one is stated in the five theorems above — and no payload. Handler state
and trace are unchanged. (Not covered, because FALSE: a title byte replaced by a non-NUL byte,
`title_substitution_accepted`.) -/
theorem header_substitution_rejected {H : Type} (hstep : H → Call → H × Reply) (m : Nat)
    (qtitle d rest : Bytes) (hq : (0 : UInt8) ∉ qtitle) (hlen : qtitle.length + 3 < 256)
    (p : Proposal) (hoff : p.offset = 0)
    (fuel : Nat) (hfuel : (frameOf m qtitle d ++ rest).length < fuel) (h : H) (tr : List Ev)
    (k : Nat) (b : UInt8)
    (hkb : (k = 1 ∧ b.toNat ≠ qtitle.length + 3) ∨ (2 ≤ k ∧ k < qtitle.length + 2 ∧ b = 0) ∨
      (k = qtitle.length + 2 ∧ b ≠ 0) ∨ (k = qtitle.length + 3 ∧ b ≠ 48) ∨ (k = qtitle.length + 4 ∧ b ≠ 0)) :
    ∃ e rem, Proc.run hstep (readCompressed fuel p) ((frameOf m qtitle d).set k b ++ rest) h tr =
        (.done (.error e), rem, h, tr) ∧
      (e = .proto "header-length-mismatch" ∨ e = .proto "offset-not-an-integer" ∨ e = .proto "unexpected-offset" ∨
        e = .eof) := by
  have hf : qtitle.length + 4 < fuel := by
    rw [List.length_append, frameOf_length] at hfuel; omega
  rcases hkb with ⟨rfl, hb⟩ | ⟨hk2, hk, rfl⟩ | ⟨rfl, hb⟩ | ⟨rfl, hb⟩ | ⟨rfl, hb⟩
  · exact ⟨_, _, length_byte_substitution_rejected hstep m qtitle d rest hq hlen p fuel hf h tr b hb, .inl rfl⟩
  · obtain ⟨i, rfl⟩ : ∃ i, k = i + 2 := ⟨k - 2, by omega⟩
    obtain ⟨rem, hr⟩ := title_nul_substitution_rejected hstep m qtitle d rest hq hlen p fuel hf h tr i (by omega)
    exact ⟨_, rem, hr, .inl rfl⟩
  · obtain ⟨e, rem, hr, he⟩ := first_nul_substitution_rejected hstep m qtitle d rest hq hlen p fuel hfuel h tr b hb
    exact ⟨e, rem, hr, by rcases he with he | he <;> simp [he]⟩
  · obtain ⟨e, rem, hr, he⟩ := offset_digit_substitution_rejected hstep m qtitle d rest hq hlen p hoff fuel hf h tr b hb
    exact ⟨e, rem, hr, by rcases he with ⟨_, he⟩ | ⟨_, he | he⟩ <;> simp [he]⟩
  · obtain ⟨e, rem, hr, he⟩ := final_nul_substitution_rejected hstep m qtitle d rest hq hlen p fuel hfuel h tr b hb
    exact ⟨e, rem, hr, by rcases he with he | he <;> simp [he]⟩

/-- … so the receiver's fetch loop stops there with that error, silently (see
`header_insertion_not_delivered_session`). -/
theorem header_substitution_not_delivered_session {H : Type} (hstep : H → Call → H × Reply) (m : Nat)
    (qtitle d rest : Bytes) (hq : (0 : UInt8) ∉ qtitle) (hlen : qtitle.length + 3 < 256)
    (p : Proposal) (ps : List Proposal) (st : SState) (hoff : p.offset = 0) (hacc : p.answer = ansAccept)
    (fuel : Nat) (hfuel : (frameOf m qtitle d ++ rest).length < fuel) (h : H) (tr : List Ev)
    (k : Nat) (b : UInt8)
    (hkb : (k = 1 ∧ b.toNat ≠ qtitle.length + 3) ∨ (2 ≤ k ∧ k < qtitle.length + 2 ∧ b = 0) ∨
      (k = qtitle.length + 2 ∧ b ≠ 0) ∨ (k = qtitle.length + 3 ∧ b ≠ 48) ∨ (k = qtitle.length + 4 ∧ b ≠ 0)) :
    ∃ e rem, Proc.run hstep (fetchAll fuel (p :: ps) st) ((frameOf m qtitle d).set k b ++ rest) h tr =
      (.done (st, some e), rem, h, tr) := by
  obtain ⟨e, rem, hr, _⟩ := header_substitution_rejected hstep m qtitle d rest hq hlen p hoff fuel hfuel h tr k b hkb
  exact ⟨e, rem, run_fetchAll_frame_error hstep fuel p ps st _ rem e h tr hacc hr⟩

/-- **`title_substitution_accepted` (NEGATIVE: the title is not protected)** — a title byte (index `i + 2`,
`i < |qtitle|`) replaced by ANY non-NUL byte: the altered string is exactly the genuine frame for the altered
title (first conjunct), `readCompressed` accepts it and returns the payload `d` unchanged, consuming exactly the
frame. (Block size `1 ≤ m ≤ 255`, `p.offset = 0`, `p.csize = |d|`, the usual fuel. The Go reader only stores the
decoded title in `p.title` for the log line and the status display — the message's own Subject header travels
inside the payload — and the model drops it, so the delivered message is not affected.) -/
theorem title_substitution_accepted {H : Type} (hstep : H → Call → H × Reply) (m : Nat) (hm1 : 1 ≤ m) (hm2 : m ≤ 255)
    (qtitle d rest : Bytes) (hq : (0 : UInt8) ∉ qtitle) (hlen : qtitle.length + 3 < 256)
    (p : Proposal) (hoff : p.offset = 0) (hcs : p.csize = (d.length : Int))
    (fuel : Nat) (hfuel : qtitle.length + d.length + 4 < fuel) (h : H) (tr : List Ev)
    (i : Nat) (hi : i < qtitle.length) (b : UInt8) (hb : b ≠ 0) :
    (frameOf m qtitle d).set (i + 2) b = frameOf m (qtitle.set i b) d ∧
    Proc.run hstep (readCompressed fuel p) ((frameOf m qtitle d).set (i + 2) b ++ rest) h tr =
      (.done (.ok d), rest, h, tr) := by
  have e := frameOf_set_title m qtitle d i hi b
  refine ⟨e, ?_⟩
  rw [e]
  exact B2F.frame_roundtrip hstep m hm1 hm2 (qtitle.set i b) d rest (not_mem_set qtitle hq i b hb)
    (by simpa using hlen) p hoff hcs fuel (by simpa using hfuel) h tr

/-- **Boundary `k = 0`** — SOH replaced by any other byte: never a payload (weak form); the exact error is
"first-byte-not-soh" unless the byte is `*`. -/
theorem soh_substitution_not_accepted {H : Type} (hstep : H → Call → H × Reply) (m : Nat)
    (qtitle d rest : Bytes) (p : Proposal) (fuel : Nat) (h : H) (tr : List Ev) (b : UInt8) (hb : b ≠ 1) (x : Bytes) :
    (Proc.run hstep (readCompressed fuel p) ((frameOf m qtitle d).set 0 b ++ rest) h tr).1 ≠ .done (.ok x) ∧
    (b ≠ 42 → ∃ rem, Proc.run hstep (readCompressed fuel p) ((frameOf m qtitle d).set 0 b ++ rest) h tr =
      (.done (.error (.proto "first-byte-not-soh")), rem, h, tr)) := by
  rw [frameOf_cons, List.set_cons_zero, List.cons_append]
  exact ⟨run_rc_first_not_soh hstep fuel p b _ hb h tr x,
    fun h42 => ⟨_, run_rc_first_other hstep fuel p b _ hb h42 h tr⟩⟩

/-! ### 4. non-vacuity: the tiny frame of `Props/C04_alter.lean`

title "T", payload `0a 14 1e`, block size 2:  `01 04 54 00 30 00 | 02 02 0a 14 | 02 01 1e | 04 c4`
(n = 1: SOH 0, L 1, title 2, NUL 3, '0' 4, NUL 5, first STX 6), followed by the byte `63`. -/

/-- the altered strings are what one expects -/
example : (frameOf 2 [84] [10, 20, 30]).insertIdx 2 65 = [1, 4, 65, 84, 0, 48, 0, 2, 2, 10, 20, 2, 1, 30, 4, 196] ∧
    (frameOf 2 [84] [10, 20, 30]).insertIdx 5 0 = [1, 4, 84, 0, 48, 0, 0, 2, 2, 10, 20, 2, 1, 30, 4, 196] ∧
    (frameOf 2 [84] [10, 20, 30]).eraseIdx 3 = [1, 4, 84, 48, 0, 2, 2, 10, 20, 2, 1, 30, 4, 196] ∧
    (frameOf 2 [84] [10, 20, 30]).set 4 49 = [1, 4, 84, 0, 49, 0, 2, 2, 10, 20, 2, 1, 30, 4, 196] := by decide +kernel

/-- `header_insertion_rejected` instantiated: a byte in front of the first NUL (k = 3) -/
example : ∃ rem, Proc.run unitStep (readCompressed 20 tinyProp) ((frameOf 2 [84] [10, 20, 30]).insertIdx 3 7 ++ [99]) () [] =
    (.done (.error (.proto "header-length-mismatch")), rem, (), []) := by
  simpa using header_insertion_rejected unitStep 2 [84] [10, 20, 30] [99] (by decide) (by decide) tinyProp rfl 20
    (by decide) () [] 3 (by decide) (by decide) 7
/-- … evaluated: 'A' in front of the title (k = 2), in front of the offset digit (k = 4); NUL inside the header
(k = 3) -/
example : Proc.run unitStep (readCompressed 20 tinyProp) ((frameOf 2 [84] [10, 20, 30]).insertIdx 2 65 ++ [99]) () [] =
      (.done (.error (.proto "header-length-mismatch")), [2, 2, 10, 20, 2, 1, 30, 4, 196, 99], (), []) ∧
    Proc.run unitStep (readCompressed 20 tinyProp) ((frameOf 2 [84] [10, 20, 30]).insertIdx 4 65 ++ [99]) () [] =
      (.done (.error (.proto "header-length-mismatch")), [2, 2, 10, 20, 2, 1, 30, 4, 196, 99], (), []) ∧
    Proc.run unitStep (readCompressed 20 tinyProp) ((frameOf 2 [84] [10, 20, 30]).insertIdx 3 0 ++ [99]) () [] =
      (.done (.error (.proto "header-length-mismatch")), [48, 0, 2, 2, 10, 20, 2, 1, 30, 4, 196, 99], (), []) := by
  decide +kernel
/-- … the one exception: NUL in front of the final NUL (k = n + 4 = 5) -/
example : Proc.run unitStep (readCompressed 20 tinyProp) ((frameOf 2 [84] [10, 20, 30]).insertIdx 5 0 ++ [99]) () [] =
    (.done (.error (.proto "unexpected-byte-in-compressed-stream")), [2, 2, 10, 20, 2, 1, 30, 4, 196, 99], (), []) := by
  decide +kernel
/-- `length_byte_insertion_accepted` evaluated: `05` in front of the length byte `04` -/
example : Proc.run unitStep (readCompressed 20 tinyProp) ((frameOf 2 [84] [10, 20, 30]).insertIdx 1 5 ++ [99]) () [] =
    (.done (.ok [10, 20, 30]), [99], (), []) := by decide +kernel
/-- `soh_insertion_not_accepted`: `*` in front of SOH runs out of fuel in the model when no CR follows within
`fuel` bytes, and ends in "error-from-cms" otherwise -/
example : (Proc.run unitStep (readCompressed 5 tinyProp) ((frameOf 2 [84] [10, 20, 30]).insertIdx 0 42 ++ [99]) () []).1 =
      .panicked "fuel" ∧
    (Proc.run unitStep (readCompressed 20 tinyProp) ((frameOf 2 [84] [10, 20, 30]).insertIdx 0 42 ++ [99]) () []).1 =
      .done (.error (.proto "error-from-cms")) := by decide +kernel

/-- `header_deletion_rejected` instantiated: the final NUL (k = 5) -/
example : ∃ e rem, Proc.run unitStep (readCompressed 20 tinyProp) ((frameOf 2 [84] [10, 20, 30]).eraseIdx 5 ++ [99]) () [] =
    (.done (.error e), rem, (), []) := by
  obtain ⟨e, rem, hr, _⟩ := header_deletion_rejected unitStep 2 [84] [10, 20, 30] [99] (by decide) (by decide) tinyProp 20
    (by decide) () [] 5 (by decide) (by decide)
  exact ⟨e, rem, hr⟩
/-- … evaluated: the title byte (k = 2), the offset digit (k = 4); the first NUL (k = 3) and the final NUL
(k = 5) with no further NUL in the input: connection lost; the final NUL with a NUL in the next frame: the
reader has consumed input BEYOND the frame -/
example : Proc.run unitStep (readCompressed 20 tinyProp) ((frameOf 2 [84] [10, 20, 30]).eraseIdx 2 ++ [99]) () [] =
      (.done (.error (.proto "header-length-mismatch")), [2, 2, 10, 20, 2, 1, 30, 4, 196, 99], (), []) ∧
    Proc.run unitStep (readCompressed 20 tinyProp) ((frameOf 2 [84] [10, 20, 30]).eraseIdx 4 ++ [99]) () [] =
      (.done (.error (.proto "header-length-mismatch")), [2, 2, 10, 20, 2, 1, 30, 4, 196, 99], (), []) ∧
    Proc.run unitStep (readCompressed 20 tinyProp) ((frameOf 2 [84] [10, 20, 30]).eraseIdx 3 ++ [99]) () [] =
      (.done (.error .eof), [], (), []) ∧
    Proc.run unitStep (readCompressed 20 tinyProp) ((frameOf 2 [84] [10, 20, 30]).eraseIdx 5 ++ [99]) () [] =
      (.done (.error .eof), [], (), []) ∧
    Proc.run unitStep (readCompressed 30 tinyProp) ((frameOf 2 [84] [10, 20, 30]).eraseIdx 5 ++ [1, 4, 84, 0, 48]) () [] =
      (.done (.error (.proto "header-length-mismatch")), [48], (), []) := by
  refine ⟨?_, ?_, ?_, ?_, ?_⟩ <;> decide +kernel
/-- `length_byte_deletion_accepted` evaluated: title `03` (= |""| + 3): deleting the length byte `04` -/
example : frameOf 2 [3] [10, 20, 30] = [1, 4, 3, 0, 48, 0, 2, 2, 10, 20, 2, 1, 30, 4, 196] ∧
    Proc.run unitStep (readCompressed 20 tinyProp) ((frameOf 2 [3] [10, 20, 30]).eraseIdx 1 ++ [99]) () [] =
      (.done (.ok [10, 20, 30]), [99], (), []) := by decide +kernel

/-- `header_substitution_rejected` instantiated: the offset digit `'0'` → `'1'` (k = n + 3 = 4) -/
example : ∃ e rem, Proc.run unitStep (readCompressed 20 tinyProp) ((frameOf 2 [84] [10, 20, 30]).set 4 49 ++ [99]) () [] =
    (.done (.error e), rem, (), []) := by
  obtain ⟨e, rem, hr, _⟩ := header_substitution_rejected unitStep 2 [84] [10, 20, 30] [99] (by decide) (by decide) tinyProp rfl
    20 (by decide) () [] 4 49 (by decide)
  exact ⟨e, rem, hr⟩
/-- … evaluated: length byte `04 → 05`; title byte → NUL; first NUL → 'A'; offset digit → '1', 'A', '-', NUL;
final NUL → 'A' -/
example : Proc.run unitStep (readCompressed 20 tinyProp) ((frameOf 2 [84] [10, 20, 30]).set 1 5 ++ [99]) () [] =
      (.done (.error (.proto "header-length-mismatch")), [2, 2, 10, 20, 2, 1, 30, 4, 196, 99], (), []) ∧
    Proc.run unitStep (readCompressed 20 tinyProp) ((frameOf 2 [84] [10, 20, 30]).set 2 0 ++ [99]) () [] =
      (.done (.error (.proto "header-length-mismatch")), [48, 0, 2, 2, 10, 20, 2, 1, 30, 4, 196, 99], (), []) ∧
    Proc.run unitStep (readCompressed 20 tinyProp) ((frameOf 2 [84] [10, 20, 30]).set 3 65 ++ [99]) () [] =
      (.done (.error .eof), [], (), []) ∧
    Proc.run unitStep (readCompressed 20 tinyProp) ((frameOf 2 [84] [10, 20, 30]).set 4 49 ++ [99]) () [] =
      (.done (.error (.proto "unexpected-offset")), [2, 2, 10, 20, 2, 1, 30, 4, 196, 99], (), []) ∧
    Proc.run unitStep (readCompressed 20 tinyProp) ((frameOf 2 [84] [10, 20, 30]).set 4 65 ++ [99]) () [] =
      (.done (.error (.proto "offset-not-an-integer")), [2, 2, 10, 20, 2, 1, 30, 4, 196, 99], (), []) ∧
    Proc.run unitStep (readCompressed 20 tinyProp) ((frameOf 2 [84] [10, 20, 30]).set 4 45 ++ [99]) () [] =
      (.done (.error (.proto "offset-not-an-integer")), [2, 2, 10, 20, 2, 1, 30, 4, 196, 99], (), []) ∧
    Proc.run unitStep (readCompressed 20 tinyProp) ((frameOf 2 [84] [10, 20, 30]).set 4 0 ++ [99]) () [] =
      (.done (.error (.proto "header-length-mismatch")), [0, 2, 2, 10, 20, 2, 1, 30, 4, 196, 99], (), []) ∧
    Proc.run unitStep (readCompressed 20 tinyProp) ((frameOf 2 [84] [10, 20, 30]).set 5 65 ++ [99]) () [] =
      (.done (.error .eof), [], (), []) := by
  refine ⟨?_, ?_, ?_, ?_, ?_, ?_, ?_, ?_⟩ <;> decide +kernel
/-- `title_substitution_accepted` evaluated: title "T" → "U" -/
example : Proc.run unitStep (readCompressed 20 tinyProp) ((frameOf 2 [84] [10, 20, 30]).set 2 85 ++ [99]) () [] =
    (.done (.ok [10, 20, 30]), [99], (), []) := by decide +kernel
/-- the session-level corollaries are not vacuous: `tinyProp` answered `+` is a proposal the receiver fetches -/
example : ∃ e rem, Proc.run unitStep (fetchAll 20 [{ tinyProp with answer := ansAccept }] {})
      ((frameOf 2 [84] [10, 20, 30]).insertIdx 2 65 ++ [99]) () [] = (.done (({} : SState), some e), rem, (), []) :=
  header_insertion_not_delivered_session unitStep 2 [84] [10, 20, 30] [99] (by decide) (by decide)
    { tinyProp with answer := ansAccept } [] {} rfl rfl 20 (by decide) () [] 2 (by decide) (by decide) 65

end Wl2k.Props.C04
