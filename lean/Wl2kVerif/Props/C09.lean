import Wl2kVerif.Proofs.ExtWitness
import Wl2kVerif.Proofs.NormWF
import Wl2kVerif.Proofs.Fuel
import Wl2kVerif.Gen.Tables
/-
C09 — message serialisation round-trips and is canonical.

Model: `Msg.serial`/`Msg.write` (= `Message.Bytes`/`Write` with `Header.Write`), `Msg.read`
(= `Message.ReadFrom`: trimLeftSpace, the net/textproto header reader `Std/Textproto.lean`,
`readSection`, the attachment loop, the date check), the builder API, `AddressFromString`/`String`,
the `2006/01/02 15:04` layout. `wf X m` is an executable (decidable) predicate; `norm m` is `m`
with every header value trimmed by `textproto.TrimString` (entries ordered Mid-first/ascending —
as a Go map it is the same header with trimmed values: `read_write_headers`).
External functions (`Ext`): encodeHeaderText, WordDecoder.DecodeHeader, the non-primary date
layouts; laws assumed of them are in `ExtLaws` and shown satisfiable (`ext_laws_satisfiable`).
The reader is modelled over the whole byte string, so chunk-independence is by construction in the
model (`read_chunk_indep`); that `bufio.Reader` delivers the same bytes for every chunking of the
underlying reader is a stdlib assumption which the harness exercises (1-byte, half, random, data+EOF
readers).
-/
namespace Wl2k.Props.C09
open Wl2k Wl2k.Msg Wl2k.Textproto

/-! ### the header reader reads back what `Header.Write` wrote (the core) -/

/-- Any list of `Key: value\r\n` lines with canonical token keys and reader-acceptable values,
followed by the blank line, is parsed by the `ReadMIMEHeader` model into exactly those keys with the
trimmed values, in order, and the reader stops right after the blank line — for every `rest`. -/
theorem header_lines_read_back (L : List (Bytes × Bytes)) (rest : Bytes)
    (hL : ∀ p ∈ L, keyOK p.1 = true ∧ valueOK p.2 = true) :
    readMIMEHeader (L.flatMap lineKV ++ crlf9 ++ rest) =
      .ok (L.foldl (fun h p => addRaw h p.1 (trimString p.2)) [], rest) := by
  have hhead := head_lines_notBlank L rest hL
  have hlen : L.length < (L.flatMap lineKV ++ crlf9 ++ rest).length + 1 := by
    have := length_le_flatMap_lineKV L
    simp only [List.length_append]; omega
  have hloop := readHeaderLoop_lines L _ [] rest hlen hL
  cases hs : L.flatMap lineKV ++ crlf9 ++ rest with
  | nil =>
    have : (L.flatMap lineKV ++ crlf9 ++ rest).length = 0 := by rw [hs]; rfl
    simp [crlf9] at this
  | cons b t =>
    rw [hs] at hhead hloop
    simp only [readMIMEHeader, hhead b rfl]
    exact hloop

/-! ### round trip -/

/-- Serialising a well-formed message succeeds (the date check passes). -/
theorem write_ok (X : Ext) (m : Msg) (h : wf X m = true) : write X m = .ok (serial m) := by
  have F := wf_facts h
  have hd := F.date
  have : dateOK X (Textproto.get m.header kDate) = true := by
    simp only [Textproto.get, canon_kDate, dateOK, Bool.or_eq_true]
    simp only [dateWF, Bool.or_eq_true] at hd
    rcases hd with hd | hd
    · exact Or.inl (Or.inl hd)
    · exact Or.inl (Or.inr hd)
  simp [write, this]

/-- **Round trip.** The serialisation of a well-formed message parses back, without error, into the
same body and the same attachments (names, bytes, order, no per-file error), and the same header
with every value trimmed. -/
theorem read_write (X : Ext) (m : Msg) (h : wf X m = true) : read X (serial m) = .ok (norm m) :=
  read_serial X m h

/-- `norm` changes nothing but the header … -/
theorem norm_body_files (m : Msg) : (norm m).body = m.body ∧ (norm m).files = m.files := ⟨rfl, rfl⟩

/-- … and, as a map, the header only by trimming: **identical headers** after the round trip, for
every key (present or absent, any spelling). -/
theorem read_write_headers (X : Ext) (m : Msg) (h : wf X m = true) (k : Bytes) :
    lookup (norm m).header k = (lookup m.header k).map trimString := by
  have F := wf_facts h
  by_cases hm : isMidFold k = false
  · exact lookup_norm _ F.nodup k hm
  · have hm' : isMidFold k = true := by simpa using hm
    obtain ⟨v, hv, _⟩ := F.mid
    by_cases hk : k = kMid
    · subst hk
      simp [norm, normHeader, lookup, hv, getRaw]
    · have hnot : k ∉ keys m.header := by
        intro hin
        obtain ⟨vs, hvs⟩ := mem_of_mem_keys hin
        exact hk (F.midU _ hvs hm')
      have hnot' : k ∉ keys ((others m.header).map trimEntry) := by
        rw [keys_map_trim]
        intro hin
        obtain ⟨vs, hvs⟩ := mem_of_mem_keys hin
        have := (mem_others.1 hvs).2
        simp [hm'] at this
      have hne : kMid ≠ k := fun e => hk e.symm
      simp only [norm, normHeader, lookup, hne, if_false]
      rw [lookup_of_not_mem _ _ hnot, lookup_of_not_mem _ _ hnot']
      rfl

/-- **Canonical.** Re-serialising the parsed message yields the same bytes. -/
theorem write_read_write (X : Ext) (m : Msg) (h : wf X m = true) :
    (read X (serial m)).map serial = .ok (serial m) := by
  rw [read_serial X m h]
  simp [Except.map, serial_norm X m h]

/-- What `ReadFrom` returns for a serialised well-formed message is again well-formed … -/
theorem norm_wf (X : Ext) (m : Msg) (h : wf X m = true) : wf X (norm m) = true :=
  wf_of_facts (norm_WFfacts (wf_facts h))

/-- … and already in normal form, so from the second round on the round trip is the identity. -/
theorem second_roundtrip_exact (X : Ext) (m : Msg) (h : wf X m = true) :
    read X (serial (norm m)) = .ok (norm m) := by
  have := read_serial X (norm m) (norm_wf X m h)
  rwa [norm_idem (wf_facts h)] at this

/-- The fuel of the reader model never runs out (the model's `0` branches are unreachable): any fuel
above the input length computes the same header / continuation. -/
theorem reader_fuel_suffices (s : Bytes) (h : MIMEHeader) (buf : Bytes) (f : Nat) (hf : s.length < f) :
    readHeaderLoop f h s = readHeaderLoop (s.length + 1) h s ∧ contLoop f buf s = contLoop s.length buf s :=
  ⟨readHeaderLoop_fuel s.length s h f (s.length + 1) (Nat.le_refl _) hf (Nat.lt_succ_self _),
   contLoop_fuel s.length s buf f s.length (Nat.le_refl _) (Nat.le_of_lt hf) (Nat.le_refl _)⟩

/-- The model reads a byte string, not chunks: any two chunkings of the same bytes give the same
result (by construction; `bufio` chunk-independence is the stdlib assumption behind it). -/
def readFromChunks (X : Ext) (chunks : List Bytes) : Except MErr Msg := read X chunks.flatten

theorem read_chunk_indep (X : Ext) (c1 c2 : List Bytes) (h : c1.flatten = c2.flatten) :
    readFromChunks X c1 = readFromChunks X c2 := by
  simp [readFromChunks, h]

/-! ### everything the builder API constructs is well-formed -/

theorem built_is_WF (X : Ext) (L : ExtLaws X) (m : Msg) (hb : Built X m) : wf X m = true :=
  wf_of_facts (built_WFfacts L hb)

/-- Hence the round trip and canonicity hold for every message built through the API. -/
theorem built_roundtrip (X : Ext) (L : ExtLaws X) (m : Msg) (hb : Built X m) :
    write X m = .ok (serial m) ∧ read X (serial m) = .ok (norm m) ∧ serial (norm m) = serial m :=
  ⟨write_ok X m (built_is_WF X L m hb), read_serial X m (built_is_WF X L m hb), serial_norm X m (built_is_WF X L m hb)⟩

/-- The assumed laws of the external encode/decode functions are consistent. -/
theorem ext_laws_satisfiable : ∃ X : Ext, ExtLaws X := ⟨wExt, wExt_laws⟩

/-! ### addresses -/

/-- `AddressFromString ∘ String` is the identity on parsed addresses of the property's forms. -/
theorem addr_roundtrip (a : Bytes) (h : AddrForm a) :
    addrFromString (addrFromString a).toBytes = addrFromString a := addr_idem a h

/-- The hypothesis is needed: ":foo@bar" (empty proto) parses to the plain address FOO@BAR whose
string form then parses as an SMTP address. -/
theorem addr_roundtrip_needs_form :
    addrFromString (addrFromString [58, 102, 111, 111, 64, 98, 97, 114]).toBytes ≠
      addrFromString [58, 102, 111, 111, 64, 98, 97, 114] := by decide

theorem to_addTo (m : Msg) (a : Bytes) (h : AddrForm a) : to (addTo m a) = to m ++ [addrFromString a] := by
  simp [to, addTo, addHeader, Textproto.add, canon_kTo, lookup_addRaw, addr_idem a h]

theorem cc_addCc (m : Msg) (a : Bytes) (h : AddrForm a) : cc (addCc m a) = cc m ++ [addrFromString a] := by
  simp [cc, addCc, addHeader, Textproto.add, canon_kCc, lookup_addRaw, addr_idem a h]

theorem from_setFrom (m : Msg) (a : Bytes) (h : AddrForm a) : from_ (setFrom m a) = addrFromString a := by
  simp [from_, setFrom, setHeader, Textproto.set, Textproto.get, canon_kFrom, getRaw, lookup_setRaw, addr_idem a h]

/-- After the round trip the recipients are the same, provided the stored address strings carry no
outer blanks — which holds for every address added through the API from printable text
(`graphic_addr`, `graphic_trimmed`). -/
theorem to_cc_roundtrip (X : Ext) (m : Msg) (h : wf X m = true)
    (ht : ∀ v ∈ lookup m.header kTo ++ lookup m.header kCc, trimString v = v) :
    to (norm m) = to m ∧ cc (norm m) = cc m := by
  have F := wf_facts h
  have e1 := lookup_norm m.header F.nodup kTo (by decide)
  have e2 := lookup_norm m.header F.nodup kCc (by decide)
  simp only [to, cc, norm, e1, e2, List.map_map]
  constructor <;>
  · apply List.map_congr_left
    intro v hv
    simp [ht v (by simp [hv])]

theorem stored_address_trimmed (a : Bytes) (h : graphic a = true) :
    trimString (addrFromString a).toBytes = (addrFromString a).toBytes := graphic_trimmed (graphic_addr h)

/-! ### date -/

/-- `SetDate` then `Date`: the civil minute that was set (any minute of the years 0..9999). -/
theorem date_roundtrip (m : Msg) (c : Civil) (h : c.valid = true) : date (setDate m c) = some c := by
  simp [date, setDate, setHeader, Textproto.set, Textproto.get, canon_kDate, getRaw, lookup_setRaw, parse_format c h]

/-- … and the date survives serialise + parse. -/
theorem date_survives (X : Ext) (m : Msg) (h : wf X m = true) : date (norm m) = date m := by
  have F := wf_facts h
  simp only [date, norm, Textproto.get, canon_kDate, getRaw_norm _ F.nodup _ (by decide : isMidFold kDate = false)]
  have hd := F.date
  simp only [dateWF, Bool.or_eq_true] at hd
  rcases hd with hd | hd
  · have : getRaw m.header kDate = [] := by simpa using hd
    rw [this]; rfl
  · obtain ⟨c, hc⟩ := Option.isSome_iff_exists.1 hd
    rw [parsePrimary_trimmed hc]

/-! ### subject and attachment names -/

/-- `SetSubject` then `Subject`: what was set, for every Latin-1 representable text (no exception
for texts containing "=?" or outer blanks any more: the two `fix:` commits; uses the assumed law). -/
theorem subject_roundtrip (X : Ext) (L : ExtLaws X) (m : Msg) (s : Bytes) (hs : L1 s) :
    subject X (setSubject X m s) = s := by
  simp [subject, setSubject, setHeader, Textproto.set, Textproto.get, canon_kSubject, getRaw, lookup_setRaw, L.decode_encode s hs]

/-- … also after serialise + parse. -/
theorem subject_survives (X : Ext) (L : ExtLaws X) (m : Msg) (s : Bytes) (hs : L1 s)
    (h : wf X (setSubject X m s) = true) : subject X (norm (setSubject X m s)) = s := by
  have F := wf_facts h
  have hg : getRaw (setSubject X m s).header kSubject = X.encode s := by
    simp [setSubject, setHeader, Textproto.set, canon_kSubject, getRaw, lookup_setRaw]
  simp only [subject, norm, Textproto.get, canon_kSubject,
    getRaw_norm _ F.nodup _ (by decide : isMidFold kSubject = false), hg, L.encode_trimmed, L.decode_encode s hs]

/-- Attachment names: `AddFile` records the name; the parsed message carries the same names
(`read_write`: `(norm m).files = m.files`, and `wf` ties every `File` value to its attachment). -/
theorem fileNames_addFile (X : Ext) (m : Msg) (name data : Bytes) :
    fileNames (addFile X m name data) = fileNames m ++ [name] := by
  simp [fileNames, addFile, addHeader]

/-! ### regenerated facts: the model's constants are those of /repo's current source -/

def nats (s : Bytes) : List Nat := s.map (·.toNat)

/-- header field names, the date layout (= the reference time formatted by the model), charset and
transfer-encoding defaults, as extracted from fbb/header.go on this run -/
theorem gen_constants :
    nats kMid = Gen.fbb_HEADER_MID ∧ nats kTo = Gen.fbb_HEADER_TO ∧ nats kCc = Gen.fbb_HEADER_CC ∧
    nats kDate = Gen.fbb_HEADER_DATE ∧ nats kType = Gen.fbb_HEADER_TYPE ∧ nats kFrom = Gen.fbb_HEADER_FROM ∧
    nats kSubject = Gen.fbb_HEADER_SUBJECT ∧ nats kMbo = Gen.fbb_HEADER_MBO ∧ nats kBody = Gen.fbb_HEADER_BODY ∧
    nats kFile = Gen.fbb_HEADER_FILE ∧ nats kContentType = Gen.fbb_HEADER_CONTENT_TYPE ∧
    nats kCTE = Gen.fbb_HEADER_CONTENT_TRANSFER_ENCODING ∧
    nats (formatDate { y := 2006, mo := 1, d := 2, h := 15, mi := 4 }) = Gen.fbb_DateLayout ∧
    nats (vTextPlain.drop 20) = Gen.fbb_DefaultCharset ∧ nats v8bit = Gen.fbb_DefaultTransferEncoding := by
  decide +kernel

/-! ### non-vacuity: a concrete message (kernel-evaluated), and a `Built` derivation -/

deriving instance DecidableEq for Except

/-- identity encode/decode: enough for ASCII names (no law is needed to *evaluate*) -/
def idExt : Ext := { encode := id, decode := id, dateFallback := fun _ => false }

/-- NewMessage(Private,"la5nta"), AddTo("n0call@WINLINK.org"), AddCc("foo@bar.baz"), X-Foo with outer
blanks, SetBody("hi\n"), two attachments: "a b.txt" = NUL CR LF, "e" = empty. -/
def sample : Msg :=
  let m := newMessage [65, 66, 67] { y := 2016, mo := 12, d := 30, h := 1, mi := 0 } [] [108, 97, 53, 110, 116, 97]
  let m := addTo m [110, 48, 99, 97, 108, 108, 64, 87, 73, 78, 76, 73, 78, 75, 46, 111, 114, 103]
  let m := addCc m [102, 111, 111, 64, 98, 97, 114, 46, 98, 97, 122]
  let m := setHeader m [120, 45, 102, 111, 111] [32, 118, 32, 9]
  let m := setBody m [104, 105, 10]
  let m := addFile idExt m [97, 32, 98, 46, 116, 120, 116] [0, 13, 10]
  addFile idExt m [101] []

example : wf idExt sample = true := by decide +kernel
example : read idExt (serial sample) = .ok (norm sample) := by decide +kernel
example : (read idExt (serial sample)).map serial = .ok (serial sample) := by decide +kernel
example : norm sample ≠ sample := by decide +kernel          -- the X-Foo value really is trimmed
example : to sample = [{ proto := [], addr := [78, 48, 67, 65, 76, 76] }] := by decide +kernel
example : cc sample = [{ proto := smtp, addr := [102, 111, 111, 64, 98, 97, 114, 46, 98, 97, 122] }] := by decide +kernel
/-- a size off by one is rejected (the error paths are live) -/
example : read idExt (serial { sample with body := [104, 105] }) = .error .endOfSection := by decide +kernel
example : read idExt ((serial sample).take 240) = .error .unexpectedEOF := by decide +kernel   -- cut inside the body
/-- Side observation (not part of C09; reported for C03/C04): a stream cut inside the first attachment is
ACCEPTED when the last attachment is empty — the loop variable `err` of `ReadFrom` is overwritten by the last
`readSection`; only the per-file error records the damage. -/
example : (match read idExt ((serial sample).take ((serial sample).length - 5)) with
    | .ok m => m.files.map (·.err) | .error _ => []) = [some .unexpectedEOF, none] := by decide +kernel
/-- the textproto model: continuation lines, a key with a space, bad keys -/
example : readMIMEHeader [65, 58, 32, 98, 13, 10, 32, 99, 13, 10, 13, 10, 120] = .ok ([([65], [[98, 32, 99]])], [120]) := by decide +kernel
example : readMIMEHeader [65, 32, 66, 58, 98, 13, 10, 13, 10] = .ok ([([65, 32, 66], [[98]])], []) := by decide +kernel
example : readMIMEHeader [58, 98, 13, 10, 13, 10] = .error .malformed := by decide +kernel
example : readMIMEHeader [65, 58, 98, 13, 10] = .error .eof := by decide +kernel

example (X : Ext) : Built X (addFile X (setBody (addTo (newMessage [65] { y := 0, mo := 2, d := 29, h := 23, mi := 59 } [] [65])
    [110, 48]) [104]) [195, 166] [0]) :=
  .file _ _ _ (.body _ _ (.to _ _ (.new _ _ _ _ (by decide) (by decide) (by decide) (by decide)) (by decide)) (by decide +kernel))
    (by simp) (.two 195 166 [] (Or.inr rfl) (by decide) .nil) (by decide)

end Wl2k.Props.C09
