import Wl2kVerif.B2F.Session
/-
C04 — a transfer damaged in transit is never delivered as a good message.
CRC theorems (burst detection, `adjacent_pair_caught`, the straddling-header counterexample) are in
Props/C04_crc.lean (same namespace). This file holds the frame-level theorems.
-/
namespace Wl2k.Props.C04
open Wl2k Wl2k.B2F

end Wl2k.Props.C04
