import Wl2kVerif.Proofs.SessionSafe
import Wl2kVerif.Proofs.LzDecode
import Wl2kVerif.Proofs.FrameRT
import Wl2kVerif.Props.C08
import Wl2kVerif.Props.C08_reader
/-
C04 — a transfer damaged in transit is never delivered as a good message.
CRC theorems (any two-adjacent-byte error burst changes the CRC, `adjacent_pair_caught`, and the
straddling-header counterexample) are in Props/C04_crc.lean (same namespace). This file holds the
session/frame-level theorems.
-/
namespace Wl2k.Props.C04
open Wl2k Wl2k.B2F Wl2k.Lzhuf

/-- **Whatever is handed to the inbound handler passed the decompressor's integrity verdict** — in
EVERY run of `Exchange`, under any remote byte stream and any handler: each `ProcessInbound(data)` call
has `data = ` the bytes a B2 Reader returned for some received payload `cdata`, read to EOF, with
`Close() = nil`. -/
theorem deliver_implies_verdict {H : Type} (hstep : H → Call → H × Reply) (c : Cfg) (fuel : Nat)
    (input : Bytes) (h : H) :
    ∀ e ∈ (Proc.run hstep (exchange c fuel) input h []).2.2.2, ∀ data, e = .called (.processInbound data) →
      ∃ cdata d ns, Reader.new true cdata = .ok d ∧ (readsWith d ns).1.close = none ∧ data = (readsWith d ns).2 := by
  intro e he data hcall
  have := (run_safe hstep (exchange_safe c fuel) input h [] (by simp)).2 e he (.processInbound data) hcall
  obtain ⟨cdata, hd⟩ := this
  obtain ⟨d, ns, h1, h2, h3⟩ := lzDecode_some cdata data hd
  exact ⟨cdata, d, ns, h1, h2, h3⟩

/-- …and that verdict means: no read error, the embedded CRC-16 equals the CRC over the size field
and every body byte the reader pulled, and the number of bytes delivered equals the declared size.
(PARTIAL w.r.t. the property: the CRC covers the pulled bytes, not necessarily a tail the reader never
pulled — known finding C08:crc-ignores-unread-tail.) -/
theorem verdict_means_partial (cdata : Bytes) (d : Reader) (ns : List Nat)
    (hn : Reader.new true cdata = .ok d) (hc : (readsWith d ns).1.close = none) :
    let d' := (readsWith d ns).1
    d'.err = none ∧ d'.berr = false ∧
    (d'.crc16 = true → d'.hcrc = crc (d'.sizeBytes ++ (d'.src.extract 0 d'.pulled).toList)) ∧
    (((readsWith d ns).2.length : Int) = d.size) := by
  have h1 := Props.C08.close_sound _ hc
  have h2 := Props.C08.close_length true cdata d ns hn hc
  exact ⟨h1.1, h1.2.1, h1.2.2.1, h2⟩

/-- The frame checks: `readCompressed` returns a payload only if the running checksum of all data bytes
plus the trailer byte is 0 mod 256 and the payload has exactly the proposed compressed size. -/
theorem frame_checks (csize : Int) : ∀ (fuel : Nat) (buf : Bytes) (sum : Nat),
    Safe (fun _ => True) (fun _ => True)
      (fun r => ∀ d, r = .ok d → csize = (d.length : Int)) (readBlocks csize fuel buf sum) := by
  intro fuel
  induction fuel with
  | zero => intro buf sum; exact Safe.panic _ trivial
  | succ fuel ih =>
    intro buf sum
    unfold readBlocks
    refine Safe.readByte _ (fun o => ?_)
    cases o with
    | none => exact Safe.ret _ (by intro d h; cases h)
    | some c =>
      simp only
      split
      · refine Safe.readByte _ (fun o => ?_)
        refine Safe.bind (Q := fun _ => True) ?_ ?_
        · have : ∀ n acc, Safe (fun _ => True) (fun _ => True) (fun _ : Option Bytes => True) (readN n acc) := by
            intro n
            induction n with
            | zero => intro acc; exact Safe.ret _ trivial
            | succ n ihn =>
              intro acc
              unfold readN
              refine Safe.readByte _ (fun o => ?_)
              cases o with
              | none => exact Safe.ret _ trivial
              | some b => exact ihn _
          exact this _ _
        · intro r _
          cases r with
          | none => exact Safe.ret _ (by intro d h; cases h)
          | some blk => exact ih _ _
      · split
        · refine Safe.readByte _ (fun o => ?_)
          cases o with
          | none => exact Safe.ret _ (by intro d h; cases h)
          | some x =>
            simp only
            split
            · exact Safe.ret _ (by intro d h; cases h)
            · split
              · exact Safe.ret _ (by intro d h; cases h)
              · rename_i hsz
                exact Safe.ret _ (by
                  intro d h
                  cases h
                  simpa using hsz)
        · exact Safe.ret _ (by intro d h; cases h)

/-- Non-vacuity of the frame theorem and its converse direction: an intact frame IS accepted and
yields exactly the payload (`Proofs.FrameRT.frame_roundtrip`, all payloads, all block sizes 1..255). -/
theorem intact_frame_accepted {H : Type} (hstep : H → Call → H × Reply) (m : Nat) (hm1 : 1 ≤ m) (hm2 : m ≤ 255)
    (qtitle d rest : Bytes) (hq : (0 : UInt8) ∉ qtitle) (hlen : qtitle.length + 3 < 256)
    (p : Proposal) (hoff : p.offset = 0) (hcs : p.csize = (d.length : Int))
    (fuel : Nat) (hfuel : qtitle.length + d.length + 4 < fuel) (h : H) (tr : List Ev) :
    Proc.run hstep (readCompressed fuel p)
        (frameHeader qtitle 0 ++ (frameBlocks m d).flatten ++ frameTrailer d ++ rest) h tr =
      (.done (.ok d), rest, h, tr) :=
  frame_roundtrip hstep m hm1 hm2 qtitle d rest hq hlen p hoff hcs fuel hfuel h tr

end Wl2k.Props.C04
