import Wl2kVerif.Lzhuf.Canon
/-
C08 — the decompressor is safe on arbitrary input and its integrity verdict is sound.
Proved so far (about the model of reader.go after the three `fix:` commits): the verdict of `Close`.
IN PROGRESS (Proofs/Reader.lean): `read_bounded`, `read_progress`, `read_terminates`; `read_no_panic`
needs the Huffman invariant. Until then those clauses rest on correspondence + oracle (MANIFEST level_note).
-/
namespace Wl2k.Props.C08
open Wl2k Wl2k.Lzhuf

/-- `NewReader` is total: short headers are error returns (EOF for nothing, ErrUnexpectedEOF for a partial
field), everything else constructs a Reader. -/
theorem new_reader_short (crc16 : Bool) (s : Bytes) (h : s.length < (if crc16 then 6 else 4)) :
    ∃ e, Reader.new crc16 s = .error e := by
  unfold Reader.new
  cases crc16
  · have h4 : s.length < 4 := by simpa using h
    simp [h4]
  · have h6 : s.length < 6 := by simpa using h
    by_cases h2 : s.length < 2
    · simp [h2]
    · have : s.length - 2 < 4 := by omega
      simp [h2, this]

/-- **`Close` reports success only if** no error was recorded, the bit reader never ran dry, the
CRC-16 (when present) over the size field and every body byte pulled from the source equals the header
CRC, and the number of bytes handed out equals the declared size. -/
theorem close_sound (d : Reader) (h : d.close = none) :
    d.err = none ∧ d.berr = false ∧
    (d.crc16 = true → d.hcrc = crc (d.sizeBytes ++ (d.src.extract 0 d.pulled).toList)) ∧
    d.size = (d.pos : Int) - d.pending.length := by
  unfold Reader.close at h
  split at h
  · rename_i he; cases hx : d.err <;> simp_all
  · rename_i he
    split at h
    · simp at h
    · rename_i hb
      split at h
      · simp at h
      · rename_i hc
        split at h
        · simp at h
        · rename_i hs
          refine ⟨by cases hx : d.err <;> simp_all, by simpa using hb, ?_, by simpa using hs⟩
          intro hcrc
          by_cases heq : d.hcrc = crc (d.sizeBytes ++ (d.src.extract 0 d.pulled).toList)
          · exact heq
          · exact absurd ⟨hcrc, heq⟩ hc

end Wl2k.Props.C08
