import Wl2kVerif.Proofs.WholeDelivFinal
import Wl2kVerif.Props.C01_pair
/-
C01 (continued) — the delivery statements without the LZHUF round-trip hypothesis (`FrameOK.rt` is now
discharged by `lz_roundtrip`), and `pair_no_deadlock` / `pair_delivers` for whole sessions on a fault-free link
(every maximal execution, i.e. every schedule).  Helpers: `Proofs/Whole{Op,Seg,Step,Ledger,Deliv,DelivHs,DelivFinal}.lean`
(a fault-free execution of the pair system built segment by segment, a ledger of what was accepted / rejected /
deferred carried through the turns; then `kahn_confluent`).
-/
namespace Wl2k.Props.C01
open Wl2k Wl2k.B2F

/-- what the receiver's decoder makes of a proposal's compressed payload -/
def decodedOf (p : Proposal) : Bytes := (lzDecode p.cdata).getD []

/-- for a proposal made from a queued message of less than 2 GiB that is the message's bytes -/
theorem decodedOf_mkProp (msg : OutMsg) (h : msg.data.length < 2 ^ 31) : decodedOf (mkProp msg) = msg.data := by
  simp [decodedOf, mkProp, lz_roundtrip msg.data h]

/-- **`block_delivers_streams`** — `block_delivers_streams_partial` of `Props/C01_pair.lean` WITHOUT the
round-trip hypothesis: the block is `blockOf' ca out` for the messages `out` the sender's handler offers,
each of them valid (`MsgOK'`: MID without blank/CR, `|data| < 2^31`, compressed size < 2^63, Q-title without
NUL and ≤ 252 bytes, fuel above line and frame lengths). See there for the reading of (B) and (A);
(C) says what `decodedOf` is on the block: the queued bytes of the message the proposal was made from. -/
theorem block_delivers_streams {H : Type} (hstep : H → Call → H × Reply)
    (ca cb : Cfg) (fuel : Nat) (stA stB : SState) (kOK : Bool → SState → Proc Result)
    (hA hA1 hB : H) (out : List OutMsg)
    (hhA : ca.hasHandler = true) (hget : hstep hA (.getOutbound stA.remoteFW) = (hA1, .msgs out))
    (hne : blockOf' ca out ≠ []) (hmsg : ∀ msg ∈ out, MsgOK' fuel msg)
    (hf5 : 5 < fuel) (hfN : (blockOf' ca out).length + 3 < fuel) (hm1 : 1 ≤ ca.maxMsgLen) (hm2 : ca.maxMsgLen ≤ 255)
    (hnd : ((blockOf' ca out).map (·.mid)).Nodup)
    (hans : AnswersPlainAt hstep hB) (hnb : cb.batched = false)
    (hall : AllOK hstep hB (acceptedData decodedOf (blockOf' ca out) (answersOf hstep cb hB ((blockOf' ca out).map recvProp)))) :
    let block := blockOf' ca out
    let as := answersOf hstep cb hB (block.map recvProp)
    let OA := blockOut block ++ framesBytes ca.maxMsgLen block as
    -- (B)
    (∃ evs : List Ev, (∀ e ∈ evs, e.isAnswerCall = true) ∧ ∀ (rest : Bytes),
      Proc.run hstep ((handleInbound cb fuel stB).bind (afterInbound kOK)) (OA ++ rest) hB [] =
        Proc.run hstep
          (kOK false { stB with remoteNoMsgs := false, received := stB.received ++ acceptedMids block as })
          rest ((acceptedData decodedOf block as).foldl (deliverStep hstep) hB)
          (deliverEvs (acceptedData decodedOf block as) ++ .wrote (fsLine as ++ [13]) :: (evs ++ []))) ∧
    -- (A)
    (∀ (x : UInt8) (r : Bytes), isGo x = true →
      ∃ evs, (Proc.run hstep (handleOutbound ca fuel stA) (fsLine as ++ 13 :: x :: r) hA []).2.2.2 = evs ∧
        outBytes evs = OA ∧
        (∀ m, Ev.called (.setSent m false) ∈ evs ↔ ∃ p a, (p, a) ∈ block.zip as ∧ a = ansAccept ∧ p.mid = m)) ∧
    -- (C)
    (∀ p ∈ block, ∃ msg ∈ out, msg.valid = true ∧ p = mkProp msg ∧ decodedOf p = msg.data) := by
  intro block as OA
  have hok : BlockOK ca fuel decodedOf (blockOf' ca out) :=
    blockOK_of_msgs ca fuel out hne (fun msg hm => (hmsg msg hm).toMsgOK) hf5 hfN hm1 hm2
  obtain ⟨hB', hA'⟩ := block_delivers_streams_partial hstep ca cb fuel stA stB kOK hA hA1 hB out decodedOf hhA hget hok hnd
    hans hnb hall
  refine ⟨hB', hA', ?_⟩
  intro p hp
  have h1 := mem_sortProposals p _ (List.mem_of_mem_take hp)
  simp only [List.mem_map, List.mem_filter] at h1
  obtain ⟨msg, ⟨hm, hv⟩, rfl⟩ := h1
  exact ⟨msg, hm, hv, rfl, decodedOf_mkProp msg (hmsg msg hm).small⟩

/-! ### whole sessions on a fault-free link

Vocabulary (`Proofs/Whole*.lean`; see also `Props/C02_whole.lean`). `DelivOK c fuel h` = `SideOK c fuel h` (handler with plain
answers — unbatched, or batched and complete —, valid queued messages, `Prepare` succeeds, well-formed handshake strings and
MOTD, fuel bounds), the
handler reports no storage / parse error (`Quiet`: `failAt = none`, `parseErr = []`), and the MIDs in its outbox are
distinct. `vo h` = the valid messages handler `h` offers (outbox minus what is on its deferred list minus invalid ones).
`Delivered hX hY sX sY` (direction X → Y; `hX`, `hY` the handlers at the start, `sX`, `sY` the final states of the two
sides): both sides have returned with `err = nil`, and there are lists `La` (MID, bytes), `Lr`, `Ld` (MIDs) with
* `La` has no MID twice and `(m, d) ∈ La` iff some message of `vo hX` has MID `m`, bytes `d` and `hY`'s policy answers '+';
  `m ∈ Lr` / `m ∈ Ld` iff some message of `vo hX` has MID `m` and the policy answers '-' / '=';
* `sY.h.inbox = hY.inbox ++ La.map (·.2)` — the receiver's handler was handed exactly the accepted messages, each ONCE,
  with IDENTICAL bytes;
* `rX.sent = rY.received = La.map (·.1)` — the sender's `Exchange` result lists exactly them as sent, the receiver's
  as received;
* `sX.h.outbox` = `hX.outbox` without the accepted and the rejected ones (reported by `SetSent(_, false)` /
  `SetSent(_, true)`); everything else — deferred, invalid, on the deferred list before — is still queued;
* `sX.h.deferred = Ld.reverse ++ hX.deferred` — the deferred ones were reported by `SetDeferred`, and nothing else was;
* `procOf sY.evs = La.map (·.2)` and `confOf sX.evs = La.map (·.1)` — at TRACE level: the payloads of the `processInbound`
  calls in the receiver's event list, in call order, are exactly the accepted messages' bytes, each once; the MIDs of the
  `SetSent(_, false)` calls in the sender's event list, in call order, are exactly the accepted MIDs, each once. -/

/-- **`pair_no_deadlock`.** Two conforming sessions (master / slave) with reference handlers on a fault-free link
(`limit = none` on both sides): a maximal execution of the pair system exists, and in EVERY maximal execution — any
schedule — both sides have returned, without error (no deadlock, no fuel panic, no protocol error). -/
theorem pair_no_deadlock (cM cS : Cfg) (fuel : Nat) (hM hS : HState) (hmM : cM.hs.master = true) (hmS : cS.hs.master = false)
    (okM : DelivOK cM fuel hM) (okS : DelivOK cS fuel hS)
    (hfM : (hsBytesM cM).length < fuel) (hfS : (hsBytesS cS).length < fuel)
    (hfuel : 4 * (hM.outbox.length + hS.outbox.length) + 7 ≤ fuel) :
    (∃ n t, PairExec (initPair (exchange cM fuel) (exchange cS fuel) hM hS none none) n t ∧ PairTerminal t) ∧
    ∀ {m : Nat} {t' : Side × Side}, PairExec (initPair (exchange cM fuel) (exchange cS fuel) hM hS none none) m t' →
      PairTerminal t' →
      ∃ rM rS : Result, t'.1.ended = some (.done rM) ∧ t'.2.ended = some (.done rS) ∧ rM.err = .nil ∧ rS.err = .nil := by
  obtain ⟨h1, h2⟩ := pair_delivers_all cM cS fuel hM hS hmM hmS okM okS hfM hfS hfuel
  refine ⟨h1, ?_⟩
  intro m t' he ht
  obtain ⟨⟨rM, rS, _, _, _, e1, e2, e3, e4, _⟩, _⟩ := h2 he ht
  exact ⟨rM, rS, e1, e2, e3, e4⟩

/-- **`pair_delivers`.** Same setting. In EVERY maximal execution both directions are `Delivered` (see the
vocabulary above): every message the receiver's policy accepts is handed to the receiver's handler exactly once with
identical bytes and listed as sent / received exactly once; rejected ones are removed from the sender's outbox;
deferred ones go on its deferred list and stay queued; nothing else changes in outbox, deferred list and inbox. -/
theorem pair_delivers (cM cS : Cfg) (fuel : Nat) (hM hS : HState) (hmM : cM.hs.master = true) (hmS : cS.hs.master = false)
    (okM : DelivOK cM fuel hM) (okS : DelivOK cS fuel hS)
    (hfM : (hsBytesM cM).length < fuel) (hfS : (hsBytesS cS).length < fuel)
    (hfuel : 4 * (hM.outbox.length + hS.outbox.length) + 7 ≤ fuel) {m : Nat} {t' : Side × Side}
    (he : PairExec (initPair (exchange cM fuel) (exchange cS fuel) hM hS none none) m t') (ht : PairTerminal t') :
    Delivered hM hS t'.1 t'.2 ∧ Delivered hS hM t'.2 t'.1 :=
  (pair_delivers_all cM cS fuel hM hS hmM hmS okM okS hfM hfS hfuel).2 he ht

/-- … in particular for the outcome of `pairRun` whenever its schedule ends with both sides returned (its step
budget is the same `fuel`; whichever side is listed first) -/
theorem pair_delivers_pairRun (cM cS : Cfg) (fuel : Nat) (hM hS : HState) (hmM : cM.hs.master = true) (hmS : cS.hs.master = false)
    (okM : DelivOK cM fuel hM) (okS : DelivOK cS fuel hS)
    (hfM : (hsBytesM cM).length < fuel) (hfS : (hsBytesS cS).length < fuel)
    (hfuel : 4 * (hM.outbox.length + hS.outbox.length) + 7 ≤ fuel) :
    (((pairRun cM cS hM hS none none fuel).1.ended.isSome = true ∧ (pairRun cM cS hM hS none none fuel).2.ended.isSome = true) →
      Delivered hM hS (pairRun cM cS hM hS none none fuel).1 (pairRun cM cS hM hS none none fuel).2 ∧
      Delivered hS hM (pairRun cM cS hM hS none none fuel).2 (pairRun cM cS hM hS none none fuel).1) ∧
    (((pairRun cS cM hS hM none none fuel).1.ended.isSome = true ∧ (pairRun cS cM hS hM none none fuel).2.ended.isSome = true) →
      Delivered hM hS (pairRun cS cM hS hM none none fuel).2 (pairRun cS cM hS hM none none fuel).1 ∧
      Delivered hS hM (pairRun cS cM hS hM none none fuel).1 (pairRun cS cM hS hM none none fuel).2) := by
  constructor
  · intro hd
    obtain ⟨n, hn⟩ := pairLoop_exec fuel fuel { proc := exchange cM fuel, h := hM, limit := none }
      { proc := exchange cS fuel, h := hS, limit := none }
    exact pair_delivers cM cS fuel hM hS hmM hmS okM okS hfM hfS hfuel hn (pairTerminal_of_ended _ _ hd.1 hd.2)
  · intro hd
    obtain ⟨n, hn⟩ := pairLoop_exec fuel fuel { proc := exchange cS fuel, h := hS, limit := none }
      { proc := exchange cM fuel, h := hM, limit := none }
    exact pair_delivers_all' cM cS fuel hM hS hmM hmS okM okS hfM hfS hfuel hn (pairTerminal_of_ended _ _ hd.1 hd.2)

/-! ### non-vacuity -/
open Wl2k.B2F.Ex1

/-- all hypotheses of `block_delivers_streams` hold for the one-message instance of `Proofs/WholeInst.lean`
(reference handlers); its part (A) then says the sender reports exactly that message sent -/
example : ∃ evs, (Proc.run hstep (handleOutbound cS 200 {}) (fsLine [43] ++ 13 :: 70 :: []) hS0 []).2.2.2 = evs ∧
    Ev.called (.setSent [65, 66] false) ∈ evs := by
  have hall : AllOK hstep hM0 (acceptedData decodedOf (blockOf' cS [msg1]) (answersOf hstep cM hM0 ((blockOf' cS [msg1]).map recvProp))) := by
    have acc1 : acceptedData decodedOf (blockOf' cS [msg1]) (answersOf hstep cM hM0 ((blockOf' cS [msg1]).map recvProp)) = [[]] := by
      decide +kernel
    rw [acc1]
    exact ⟨⟨by decide +kernel, by decide +kernel⟩, trivial⟩
  obtain ⟨-, hA, -⟩ := block_delivers_streams hstep cS cM 200 {} {} (fun _ _ => .ret { err := .nil }) hS0 hS0 hM0 [msg1]
    rfl rfl (by decide +kernel) (by intro m hm; rw [List.mem_singleton.mp hm]; exact msg1_ok) (by decide) (by decide +kernel)
    (by decide) (by decide) (by decide +kernel) (answersPlain_of_policy hM0 (by intro x hx; cases hx)) rfl hall
  have has : answersOf hstep cM hM0 ((blockOf' cS [msg1]).map recvProp) = [43] := by decide +kernel
  rw [has] at hA
  obtain ⟨evs, h1, -, h3⟩ := hA 70 [] (by decide)
  refine ⟨evs, h1, (h3 [65, 66]).mpr ?_⟩
  exact ⟨mkProp msg1, 43, by rw [block1]; simp, by decide, rfl⟩

/-- the hypotheses of `pair_delivers` hold for the one-message session (`Ex1.deliv_M`, `Ex1.deliv_S`, `Ex1.fuel_M`,
`Ex1.fuel_S`); `pairRun`'s schedule ends with both sides returned, so the theorem applies to its outcome … -/
example : Delivered hM0 hS0 (pairRun cM cS hM0 hS0 none none 200).1 (pairRun cM cS hM0 hS0 none none 200).2 ∧
    Delivered hS0 hM0 (pairRun cM cS hM0 hS0 none none 200).2 (pairRun cM cS hM0 hS0 none none 200).1 :=
  (pair_delivers_pairRun cM cS 200 hM0 hS0 rfl rfl deliv_M deliv_S fuel_M fuel_S (by decide)).1
    ⟨by decide +kernel, by decide +kernel⟩

/-- the same with a batched handler on the master's side -/
example : Delivered hM0 hS0 (pairRun cMb cS hM0 hS0 none none 200).1 (pairRun cMb cS hM0 hS0 none none 200).2 ∧
    Delivered hS0 hM0 (pairRun cMb cS hM0 hS0 none none 200).2 (pairRun cMb cS hM0 hS0 none none 200).1 :=
  (pair_delivers_pairRun cMb cS 200 hM0 hS0 rfl rfl deliv_Mb deliv_S fuel_Mb fuel_S (by decide)).1
    ⟨by decide +kernel, by decide +kernel⟩

/-- … and what it says is what the kernel computes: the master's inbox got the (empty) message, the slave's outbox is
empty, the results list the MID as sent resp. received -/
example : (pairRun cM cS hM0 hS0 none none 200).1.h.inbox = [[]] ∧ (pairRun cM cS hM0 hS0 none none 200).2.h.outbox = [] ∧
    (match (pairRun cM cS hM0 hS0 none none 200).2.ended with
      | some (.done r) => r.sent == [[65, 66]] && r.received == [] && r.err == .nil
      | _ => false) = true ∧
    (match (pairRun cM cS hM0 hS0 none none 200).1.ended with
      | some (.done r) => r.received == [[65, 66]] && r.sent == [] && r.err == .nil
      | _ => false) = true := by decide +kernel

/-! #### a second instance (`Ex2`): the slave queues three messages — the master's policy accepts the first, defers the
second, rejects the third —, the master queues one, which the slave rejects; several turns in both directions -/
open Wl2k.B2F.Ex2

example : Delivered hM2 hS2 (pairRun cM cS hM2 hS2 none none 400).1 (pairRun cM cS hM2 hS2 none none 400).2 ∧
    Delivered hS2 hM2 (pairRun cM cS hM2 hS2 none none 400).2 (pairRun cM cS hM2 hS2 none none 400).1 :=
  (pair_delivers_pairRun cM cS 400 hM2 hS2 rfl rfl deliv_M2 deliv_S2 fuel_M2 fuel_S2 (by decide)).1
    ⟨by decide +kernel, by decide +kernel⟩

/-- what the kernel computes for it: one message in the master's inbox; the deferred one still queued on the slave's side
and on its deferred list; the rejected ones gone from both outboxes -/
example : (pairRun cM cS hM2 hS2 none none 400).1.h.inbox = [[]] ∧
    (pairRun cM cS hM2 hS2 none none 400).2.h.outbox.map (·.mid) = [[67, 68]] ∧
    (pairRun cM cS hM2 hS2 none none 400).2.h.deferred = [[67, 68]] ∧
    (pairRun cM cS hM2 hS2 none none 400).1.h.outbox = [] ∧ (pairRun cM cS hM2 hS2 none none 400).2.h.inbox = [] := by
  decide +kernel

end Wl2k.Props.C01
