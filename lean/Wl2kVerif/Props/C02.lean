import Wl2kVerif.B2F.Pair
import Wl2kVerif.Proofs.SessionSafe
/-
C02 — link failure never marks an undelivered message sent, nor loses/duplicates one.
The fault model (`Side.limit`: the stream towards one side is truncated after k bytes) and the storage
failure (`HState.failAt`) are part of the executable pair model and are compared with the real code for
cut positions around every line end and frame edge, both directions.
Proved here: both ends return (no blocked/hung outcome for a truncated input), and nothing is handed to
a handler that did not pass the integrity verdict. OPEN: `sent_implies_received` and `retry_converges`
as theorems over all cut points (they rest on correspondence + the oracle; MANIFEST level_note).
-/
namespace Wl2k.Props.C02
open Wl2k Wl2k.B2F

/-- **A session whose input ends (link lost after any number of bytes) returns**: for every prefix of
any remote transcript the run ends in `done` (or the artificial fuel outcome / the local batched-handler
index panic), never blocked. -/
theorem returns_after_cut {H : Type} (hstep : H → Call → H × Reply) (c : Cfg) (fuel : Nat)
    (transcript : Bytes) (k : Nat) (h : H) :
    (Proc.run hstep (exchange c fuel) (transcript.take k) h []).1 ≠ .blocked := by
  have := (run_safe hstep (exchange_safe c fuel) (transcript.take k) h [] (by simp)).1
  intro e
  rw [e] at this
  exact this

/-- Anything handed to a handler in a faulty run still passed decompression with `Close() = nil`. -/
theorem handed_is_verified {H : Type} (hstep : H → Call → H × Reply) (c : Cfg) (fuel : Nat)
    (transcript : Bytes) (k : Nat) (h : H) :
    ∀ e ∈ (Proc.run hstep (exchange c fuel) (transcript.take k) h []).2.2.2, ∀ data,
      e = .called (.processInbound data) → ∃ cdata, lzDecode cdata = some data :=
  fun e he data hc => (run_safe hstep (exchange_safe c fuel) (transcript.take k) h [] (by simp)).2 e he _ hc

end Wl2k.Props.C02
