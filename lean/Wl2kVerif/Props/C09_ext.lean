import Wl2kVerif.Props.C09
import Wl2kVerif.Proofs.HeaderText2
/-
C09 without the assumption on the external functions.

`Props/C09.lean` proves the message round trip for any `X : Ext` satisfying `ExtLaws X` (an ASSUMPTION
about `encodeHeaderText` / `WordDecoder.DecodeHeader`, checked only per generated input). Here the two
functions are the transcriptions `Msg/HeaderText.lean` of the real code (fbb/header.go, Go's
`mime.QEncoding.Encode` and `mime.WordDecoder.DecodeHeader`, `base64.StdEncoding`, go-charset's
ISO-8859-1 code page), packaged as `goExt df`, and the four laws are PROVED for them, for every text of
any length. The C09 theorems are then restated for `goExt df` with no hypothesis on the external
functions. What remains trusted is that the transcription is faithful (differential-tested against the
real functions on arbitrary byte strings) and the `dateFallback` parameter `df` (arbitrary).
-/
namespace Wl2k.Props.C09
open Wl2k Wl2k.Msg Wl2k.Textproto Wl2k.Msg.HeaderText

/-- **All four assumed laws hold for the transcribed real functions**, whatever `dateFallback` is:
(1) `decode (encode s) = s` for every text `s` that is the UTF-8 form of characters ≤ U+00FF (`L1 s`; any
length; including texts containing "=?", "?=", '_', '=', '?', outer blanks/TABs, control characters, DEL and
every Latin-1 character); and for EVERY byte string `s` (no hypothesis at all): (2) `encode s` consists of
TAB / printable-ASCII header-value bytes, (3) `encode s` has no leading or trailing blank
(`textproto.TrimString` leaves it alone), (4) `encode s` is empty only if `s` is. -/
theorem goExt_laws : ∀ df : Bytes → Bool, ExtLaws (goExt df) := fun _ =>
  { decode_encode := fun s hs => HeaderText.decode_encode s hs
    encode_value := HeaderText.encode_value
    encode_trimmed := HeaderText.encode_trimmed
    encode_ne := HeaderText.encode_ne }

/-- The shape behind the laws, for every byte string `s` (with `e` = its ISO-8859-1 translation, '?' for
what is unrepresentable or invalid): `encodeHeaderText s` is either `e` itself — and then `e` is
TAB/printable ASCII only, contains no "=?" and is not changed by `strings.Trim(e, " \t")` — or the ONE
encoded word `=?ISO-8859-1?q?` ++ Q-form of `e` ++ `?=` (never split, whatever the length). -/
theorem encode_shape_go (s : Bytes) :
    (encodeHeaderText s = toLatin1 s ∧ (toLatin1 s).all plainByte = true ∧
        Str.containsSub (toLatin1 s) eqq = false ∧ trimWith isBlank (toLatin1 s) = toLatin1 s) ∨
      encodeHeaderText s = word (toLatin1 s) :=
  HeaderText.encode_shape s

/-- For EVERY byte string `s` (valid UTF-8 or not, representable or not) the decoder accepts the encoded
form without error, and returns the UTF-8 form of the ISO-8859-1 translation of `s` (so exactly the
unrepresentable characters / invalid bytes have become '?'). -/
theorem decode_encode_any_go (s : Bytes) :
    decodeHeader (encodeHeaderText s) = ((toLatin1 s).flatMap (fun c => Utf8.encodeRune c.toNat), false) := by
  have h1 := HeaderText.decode_encode_any s
  have h2 := HeaderText.decode_encode_noerr s
  exact Prod.ext h1 h2

/-- The hypothesis `L1 s` of law (1) is needed: "€" (U+20AC, bytes E2 82 AC) is stored as "?" and reads
back as "?". (This is the documented lossy translation to ISO-8859-1, not a defect.) -/
theorem decode_encode_needs_L1 (df : Bytes → Bool) :
    (goExt df).encode [226, 130, 172] = [63] ∧ (goExt df).decode ((goExt df).encode [226, 130, 172]) = [63] := by
  have : encodeHeaderText [226, 130, 172] = [63] ∧
      (decodeHeader (encodeHeaderText [226, 130, 172])).1 = [63] := by decide +kernel
  exact this

/-! ### the C09 theorems for the real functions, with no hypothesis on them -/

/-- `SetSubject(s)` then `Subject()` returns `s`, for every Latin-1 representable UTF-8 text `s` (`L1 s`)
and every message `m` — with the real `encodeHeaderText` / `DecodeHeader` (no `ExtLaws` hypothesis). -/
theorem subject_roundtrip_go (df : Bytes → Bool) (m : Msg) (s : Bytes) (hs : L1 s) :
    subject (goExt df) (setSubject (goExt df) m s) = s :=
  subject_roundtrip (goExt df) (goExt_laws df) m s hs

/-- … also after serialise + parse: if the message with the subject set is well-formed (`wf`), the parsed
message's `Subject()` is `s` (`L1 s`). -/
theorem subject_survives_go (df : Bytes → Bool) (m : Msg) (s : Bytes) (hs : L1 s)
    (h : wf (goExt df) (setSubject (goExt df) m s) = true) :
    subject (goExt df) (norm (setSubject (goExt df) m s)) = s :=
  subject_survives (goExt df) (goExt_laws df) m s hs h

/-- Every message constructed through the builder API model (`Built (goExt df) m`: NewMessage, SetSubject
with ANY text, AddTo/AddCc/SetFrom with printable addresses, SetDate, SetBody, AddFile with a non-empty
Latin-1 representable name, X- headers) is well-formed — with the real encoder. -/
theorem built_is_WF_go (df : Bytes → Bool) (m : Msg) (hb : Built (goExt df) m) : wf (goExt df) m = true :=
  built_is_WF (goExt df) (goExt_laws df) m hb

/-- **Round trip for built messages, real external functions.** For every `Built (goExt df) m`: `Write`
succeeds with `serial m`; `ReadFrom` on those bytes succeeds and yields `norm m` (same body, same
attachments — names, bytes, order —, same header with values trimmed); re-serialising gives the same bytes. -/
theorem built_roundtrip_go (df : Bytes → Bool) (m : Msg) (hb : Built (goExt df) m) :
    write (goExt df) m = .ok (serial m) ∧ read (goExt df) (serial m) = .ok (norm m) ∧
      serial (norm m) = serial m :=
  built_roundtrip (goExt df) (goExt_laws df) m hb

/-- **`read ∘ write` for built messages, real external functions**: the serialisation of every
`Built (goExt df) m` parses back, without error, into `norm m`. -/
theorem read_write_go (df : Bytes → Bool) (m : Msg) (hb : Built (goExt df) m) :
    read (goExt df) (serial m) = .ok (norm m) :=
  read_write (goExt df) m (built_is_WF_go df m hb)

/-- Attachment names survive: for every `Built (goExt df) m` the parsed message has exactly the attachment
names (and data) that were added. -/
theorem fileNames_roundtrip_go (df : Bytes → Bool) (m : Msg) (hb : Built (goExt df) m) :
    (read (goExt df) (serial m)).map fileNames = .ok (fileNames m) := by
  rw [read_write_go df m hb]; rfl

/-! ### non-vacuity / regression examples (kernel-evaluated) -/

def df0 : Bytes → Bool := fun _ => false

/-- "Blåbærsyltetøy" (UTF-8) -/
def blaa : Bytes := [66, 108, 195, 165, 98, 195, 166, 114, 115, 121, 108, 116, 101, 116, 195, 184, 121]

/-- `L1` of a concrete text, by its constructors -/
example : L1 blaa := by
  unfold blaa
  repeat (first
    | exact L1.nil
    | apply L1.two _ _ _ (by decide) (by decide)
    | apply L1.ascii _ _ (by decide))

/-- goExt_laws / subject_roundtrip_go: "Blåbærsyltetøy" is stored as `=?ISO-8859-1?q?Bl=E5b=E6rsyltet=F8y?=`
and read back -/
example : (goExt df0).encode blaa =
      [61, 63, 73, 83, 79, 45, 56, 56, 53, 57, 45, 49, 63, 113, 63, 66, 108, 61, 69, 53, 98, 61, 69, 54, 114, 115,
       121, 108, 116, 101, 116, 61, 70, 56, 121, 63, 61] ∧
    (goExt df0).decode ((goExt df0).encode blaa) = blaa ∧
    subject (goExt df0) (setSubject (goExt df0) sample blaa) = blaa := by decide +kernel

/-- "Re: =?x" (ASCII containing "=?") is stored as `=?ISO-8859-1?q?Re:_=3D=3Fx?=` (the hand-written encoder) -/
example : (goExt df0).encode [82, 101, 58, 32, 61, 63, 120] =
      [61, 63, 73, 83, 79, 45, 56, 56, 53, 57, 45, 49, 63, 113, 63, 82, 101, 58, 95, 61, 51, 68, 61, 51, 70, 120, 63, 61] ∧
    (goExt df0).decode ((goExt df0).encode [82, 101, 58, 32, 61, 63, 120]) = [82, 101, 58, 32, 61, 63, 120] := by
  decide +kernel

/-- " padded " is stored as `=?ISO-8859-1?q?_padded_?=` -/
example : (goExt df0).encode [32, 112, 97, 100, 100, 101, 100, 32] =
      [61, 63, 73, 83, 79, 45, 56, 56, 53, 57, 45, 49, 63, 113, 63, 95, 112, 97, 100, 100, 101, 100, 95, 63, 61] ∧
    (goExt df0).decode ((goExt df0).encode [32, 112, 97, 100, 100, 101, 100, 32]) = [32, 112, 97, 100, 100, 101, 100, 32] := by
  decide +kernel

/-- "a_b=c?d" ('_', '=', '?' but no "=?") is stored verbatim; "å_=?" becomes `=?ISO-8859-1?q?=E5=5F=3D=3F?=`;
TAB-padded "\ttab\t" and "a\r\nb" are encoded (`=09`, `=0D=0A`) -/
example : (goExt df0).encode [97, 95, 98, 61, 99, 63, 100] = [97, 95, 98, 61, 99, 63, 100] ∧
    (goExt df0).decode [97, 95, 98, 61, 99, 63, 100] = [97, 95, 98, 61, 99, 63, 100] ∧
    (goExt df0).encode [195, 165, 95, 61, 63] =
      [61, 63, 73, 83, 79, 45, 56, 56, 53, 57, 45, 49, 63, 113, 63, 61, 69, 53, 61, 53, 70, 61, 51, 68, 61, 51, 70, 63, 61] ∧
    (goExt df0).decode ((goExt df0).encode [195, 165, 95, 61, 63]) = [195, 165, 95, 61, 63] ∧
    (goExt df0).decode ((goExt df0).encode [9, 116, 97, 98, 9]) = [9, 116, 97, 98, 9] ∧
    (goExt df0).encode [97, 13, 10, 98] =
      [61, 63, 73, 83, 79, 45, 56, 56, 53, 57, 45, 49, 63, 113, 63, 97, 61, 48, 68, 61, 48, 65, 98, 63, 61] ∧
    (goExt df0).decode ((goExt df0).encode [97, 13, 10, 98]) = [97, 13, 10, 98] := by decide +kernel

/-- a 300-character non-ASCII subject ("å" × 300): ONE word of 15 + 900 + 2 bytes, no blank in it (no
splitting for a non-UTF-8 charset), and it reads back -/
def long300 : Bytes := (List.replicate 300 [195, 165]).flatten

example : ((goExt df0).encode long300).length = 917 ∧ (32 : UInt8) ∉ (goExt df0).encode long300 ∧
    (goExt df0).encode long300 = word (List.replicate 300 229) ∧
    (goExt df0).decode ((goExt df0).encode long300) = long300 := by decide +kernel

/-- `DecodeHeader` of two UTF-8 words separated by SP TAB CR LF: the white space between two encoded words
is deleted (`=?utf-8?q?a=C3=A5?= \t\r\n=?UTF-8?B?w6Y=?=` → "aåæ"; the second word is base64) … -/
example : decodeHeader [61, 63, 117, 116, 102, 45, 56, 63, 113, 63, 97, 61, 67, 51, 61, 65, 53, 63, 61, 32, 9, 13, 10,
      61, 63, 85, 84, 70, 45, 56, 63, 66, 63, 119, 54, 89, 61, 63, 61] = ([97, 195, 165, 195, 166], false) := by
  decide +kernel

/-- … but text between them is kept with its blanks (`=?utf-8?q?a?= x =?utf-8?q?b?=` → "a x b") -/
example : decodeHeader [61, 63, 117, 116, 102, 45, 56, 63, 113, 63, 97, 63, 61, 32, 120, 32,
      61, 63, 117, 116, 102, 45, 56, 63, 113, 63, 98, 63, 61] = ([97, 32, 120, 32, 98], false) := by decide +kernel

/-- an invalid word (`=?utf-8?q?=ZZ?=`: bad hex) is copied verbatim, and the blank after it is kept before a
following valid word (`… =?us-ascii?Q?b=E5?=` → `=?utf-8?q?=ZZ?= b` U+FFFD) -/
example : decodeHeader [61, 63, 117, 116, 102, 45, 56, 63, 113, 63, 61, 90, 90, 63, 61] =
      ([61, 63, 117, 116, 102, 45, 56, 63, 113, 63, 61, 90, 90, 63, 61], false) ∧
    decodeHeader [61, 63, 117, 116, 102, 45, 56, 63, 113, 63, 61, 90, 90, 63, 61, 32,
      61, 63, 117, 115, 45, 97, 115, 99, 105, 105, 63, 81, 63, 98, 61, 69, 53, 63, 61] =
      ([61, 63, 117, 116, 102, 45, 56, 63, 113, 63, 61, 90, 90, 63, 61, 32, 98, 239, 191, 189], false) := by
  decide +kernel

/-- an unknown charset is an error with empty text (`=?koi8-r?q?a?=`: fbb sets no CharsetReader); a header
without "=?" that is not valid UTF-8 is read as ISO-8859-1 (E5 20 → "å ") -/
example : decodeHeader [61, 63, 107, 111, 105, 56, 45, 114, 63, 113, 63, 97, 63, 61] = ([], true) ∧
    decodeHeader [229, 32] = ([195, 165, 32], false) := by decide +kernel

/-- encode_shape_go: both shapes occur -/
example : encodeHeaderText [97, 95, 98] = toLatin1 [97, 95, 98] ∧
    encodeHeaderText [32] = word (toLatin1 [32]) ∧ encodeHeaderText [32] ≠ toLatin1 [32] := by decide +kernel

/-- decode_encode_any_go on an invalid-UTF-8 input with a trailing blank (E5 20 → "? " → `=?ISO-8859-1?q?=3F_?=`) -/
example : encodeHeaderText [229, 32] =
      [61, 63, 73, 83, 79, 45, 56, 56, 53, 57, 45, 49, 63, 113, 63, 61, 51, 70, 95, 63, 61] ∧
    decodeHeader (encodeHeaderText [229, 32]) = ([63, 32], false) := by decide +kernel

/-- built_roundtrip_go / read_write_go / fileNames_roundtrip_go: a `Built (goExt df)` message with the subject
" =?Blåbær? " (outer blanks, "=?", non-ASCII) and an attachment named "æ=?_ .txt" -/
def subj1 : Bytes := [32, 61, 63, 66, 108, 195, 165, 98, 195, 166, 114, 63, 32]
def name1 : Bytes := [195, 166, 61, 63, 95, 32, 46, 116, 120, 116]

def sampleGo : Msg :=
  addFile (goExt df0)
    (setSubject (goExt df0)
      (setBody (addTo (newMessage [65] { y := 0, mo := 2, d := 29, h := 23, mi := 59 } [] [65]) [110, 48]) [104])
      subj1)
    name1 [0]

example : Built (goExt df0) sampleGo :=
  .file _ _ _
    (.subject _ _ (.body _ _ (.to _ _ (.new _ _ _ _ (by decide) (by decide) (by decide) (by decide)) (by decide))
      (by decide +kernel)))
    (by simp [name1])
    (.two 195 166 _ (Or.inr rfl) (by decide)
      (.ascii _ _ (by decide) (.ascii _ _ (by decide) (.ascii _ _ (by decide) (.ascii _ _ (by decide)
        (.ascii _ _ (by decide) (.ascii _ _ (by decide) (.ascii _ _ (by decide) (.ascii _ _ (by decide) .nil)))))))))
    (by decide)

example : wf (goExt df0) sampleGo = true ∧ read (goExt df0) (serial sampleGo) = .ok (norm sampleGo) ∧
    subject (goExt df0) (norm sampleGo) = subj1 ∧ fileNames (norm sampleGo) = [name1] := by decide +kernel

end Wl2k.Props.C09
