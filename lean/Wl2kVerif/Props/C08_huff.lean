import Wl2kVerif.Proofs.Huff6
/-
C08 — the adaptive-Huffman layer of the decompressor is safe on arbitrary input.
Model: `Lzhuf/Huff.lean` (`newLZHUFF`, `update`, `reconst`) and `Reader.walk`/`decodeChar` of
`Lzhuf/Reader.lean`. The model makes every Go index panic explicit (`Huff.oob`) and every loop that could
fail to terminate explicit (`Huff.spin`, set when the fuel `T + 1` runs out); the invariant `HuffWF`
(`Proofs/Huff.lean`) contains `oob = false ∧ spin = false`, so "`HuffWF` is preserved" IS "no panic, no
endless loop" — for every bit stream a remote peer can send.
Helper lemmas: `Proofs/Huff.lean` (invariant, init), `Huff2` (update loop), `Huff3` (walk), `Huff4`
(reconst), `Huff5` (assembly), `Huff6` (read loop).
-/
namespace Wl2k.Props.C08
open Wl2k Wl2k.Lzhuf

/-- `newLZHUFF()` establishes the invariant. -/
theorem huffWF_init : HuffWF Huff.init := Lzhuf.huffWF_init

/-- **`update(c)` preserves the invariant** for every symbol `c < N_CHAR` — with or without the rebuild.
No array index is out of range (`oob` stays false) and the climb to the root ends within `T + 1`
iterations (`spin` stays false). -/
theorem update_preserves (h : Huff) (w : HuffWF h) (c : Nat) (hc : c < NCHAR) : HuffWF (update h c) :=
  Lzhuf.update_preserves w c hc

/-- … and adds exactly one to the root weight when no rebuild is due, so `freq[R]` reaches `MAX_FREQ`
exactly, never skipping it. -/
theorem update_root (h : Huff) (w : HuffWF h) (hlt : rd h.freq R < MAXFREQ) (c : Nat) (hc : c < NCHAR) :
    rd (update h c).freq R = rd h.freq R + 1 :=
  update_root_of_lt w hlt c hc

/-- **`reconst()` re-establishes the invariant** from a tree whose root weight is `MAX_FREQ`, and leaves the
root weight strictly below `MAX_FREQ` (leaf weights are halved, rounding up). -/
theorem reconst_preserves (h : Huff) (w : HuffWF h) (hmax : rd h.freq R = MAXFREQ) :
    HuffWF (reconst h) ∧ rd (reconst h).freq R < MAXFREQ :=
  Lzhuf.reconst_preserves w hmax

/-- **Every reachable Huffman state is well-formed**: any sequence of updates from the initial tree. -/
theorem huffWF_reachable (syms : List Nat) (hs : ∀ c ∈ syms, c < NCHAR) :
    HuffWF (syms.foldl update Huff.init) :=
  Lzhuf.huffWF_reachable syms hs

/-- **The root-to-leaf walk of `decodeChar` is total for ANY bit source**: on a well-formed tree it
performs `n < T` single-bit reads and nothing else (the Huffman state is untouched: no index out of
range, fuel not exhausted) and ends at a leaf pointer `T ≤ c < T + N_CHAR`. -/
theorem walk_total (d : Reader) (w : HuffWF d.h) :
    ∃ n, n < T ∧ (d.walk (rd d.h.son R) (T + 1)).1 = (d.takeBits n).1 ∧
      T ≤ (d.walk (rd d.h.son R) (T + 1)).2 ∧ (d.walk (rd d.h.son R) (T + 1)).2 < T + NCHAR :=
  Reader.walk_total d w.toHuffS

/-- **`decodeChar` is safe for ANY bit source**: the decoded symbol is `< N_CHAR`, the Huffman state
afterwards is well-formed, and apart from the Huffman update the reader only did `n < T` single-bit reads. -/
theorem decodeChar_safe (d : Reader) (w : HuffWF d.h) :
    d.decodeChar.2 < NCHAR ∧ HuffWF d.decodeChar.1.h ∧
    ∃ n, n < T ∧ d.decodeChar.1 = { (d.takeBits n).1 with h := update d.h d.decodeChar.2 } :=
  Reader.decodeChar_spec d w

/-- one `Read` keeps the Huffman state well-formed -/
theorem read_preserves (d : Reader) (m : Nat) (w : HuffWF d.h) : HuffWF (d.read m).1.h :=
  Reader.read_wf d m w

/-- **`read_no_panic`** — for EVERY byte string `s` accepted by `NewReader` and EVERY sequence of buffer
sizes, the Huffman decoder never indexes out of range and never exhausts its loop bound: after any number
of `Read`s the state is well-formed, in particular both fault flags are clear. (Prefixes of `ns` are
sequences too, so this covers every intermediate state.) -/
theorem read_no_panic (crc16 : Bool) (s : Bytes) (d : Reader) (ns : List Nat)
    (h : Reader.new crc16 s = .ok d) :
    HuffWF (readsWith d ns).1.h ∧ (readsWith d ns).1.h.oob = false ∧ (readsWith d ns).1.h.spin = false := by
  have w : HuffWF d.h := by rw [Reader.new_h crc16 s d h]; exact Lzhuf.huffWF_init
  have w' := readsWith_wf d ns w
  exact ⟨w', w'.oob, w'.spin⟩

/-- the same from any well-formed state -/
theorem read_no_panic_from (d : Reader) (ns : List Nat) (w : HuffWF d.h) :
    (readsWith d ns).1.h.oob = false ∧ (readsWith d ns).1.h.spin = false :=
  ⟨(readsWith_wf d ns w).oob, (readsWith_wf d ns w).spin⟩

/-! ### non-vacuity

Kernel evaluation of the array model is far too slow for `decide` on states past `Huff.init` (minutes per
entry), so the instances are exhibited by proof. -/

/-- the hypothesis `HuffWF h` is satisfiable, and so is `HuffWF h ∧ freq[R] = MAX_FREQ` of
`reconst_preserves`: the rebuild point is reached (after `MAX_FREQ − N_CHAR` updates). -/
example : ∃ syms : List Nat, (∀ c ∈ syms, c < NCHAR) ∧
    HuffWF (syms.foldl update Huff.init) ∧ rd (syms.foldl update Huff.init).freq R = MAXFREQ :=
  rebuild_reachable

/-- the hypothesis of `update_root` / the no-rebuild branch: the initial root weight is `N_CHAR < MAX_FREQ` -/
example : HuffWF Huff.init ∧ rd Huff.init.freq R = NCHAR := by
  refine ⟨Lzhuf.huffWF_init, ?_⟩
  rw [R_eq, init_spec.freq 626 (by omega)]; rfl

/-- the hypothesis of `read_no_panic` is satisfiable (and the reader starts with the initial tree) -/
example : ∃ d, Reader.new false [5, 0, 0, 0, 0xfa, 0x7c] = .ok d ∧ d.h = Huff.init :=
  ⟨_, rfl, rfl⟩

/-- the invariant is not trivially true: a state with a fault flag set is not well-formed -/
example : ¬ HuffWF { Huff.init with oob := true } := fun w => by have := w.oob; simp at this

end Wl2k.Props.C08
