import Wl2kVerif.Proofs.PairKahn
import Wl2kVerif.Proofs.PairPrefix
import Wl2kVerif.Proofs.PairCausal
/-
C01 — the generic part of the delivery argument: programs are prefix-deterministic in their input, and
the pair system of `B2F/Pair.lean` is a Kahn network — the per-side traces, results and handler states
do not depend on the schedule, nor on how writes are segmented and delayed in transit.
-/
namespace Wl2k.Props.C01
open Wl2k Wl2k.B2F

/-- **`proc_deterministic_prefix`.** `Proc.upto p i₁` runs `p` on the bytes `i₁` and stops, keeping the
residual program, at the first read that finds them exhausted. The complete run on ANY extension
`i₁ ++ i₂` (followed by link failure) is the run of that residual program on the rest — so it agrees
with the run on `i₁` in everything that happened before `i₁` was exhausted. -/
theorem proc_deterministic_prefix {α H : Type} (hstep : H → Call → H × Reply) (p : Proc α) (i₁ i₂ : Bytes) (h : H)
    (tr : List Ev) :
    Proc.run hstep p (i₁ ++ i₂) h tr =
      Proc.run hstep (Proc.upto hstep p i₁ h tr).1 ((Proc.upto hstep p i₁ h tr).2.1 ++ i₂)
        (Proc.upto hstep p i₁ h tr).2.2.1 (Proc.upto hstep p i₁ h tr).2.2.2 :=
  run_append hstep p i₁ i₂ h tr

/-- … and `upto` really stops only when the program has ended or the input is exhausted at a read. -/
theorem upto_stops_at_read {α H : Type} (hstep : H → Call → H × Reply) (p : Proc α) (inp : Bytes) (h : H) (tr : List Ev) :
    (Proc.upto hstep p inp h tr).1.terminal = true ∨
      ((Proc.upto hstep p inp h tr).1.waiting = true ∧ (Proc.upto hstep p inp h tr).2.1 = []) :=
  upto_stops hstep p inp h tr

/-- **Traces are prefix-monotone**: the events produced on `i₁` before it is exhausted are an initial
segment (in time; the lists are newest-first) of the trace of the complete run on `i₁`, of the complete
run on any extension `i₁ ++ i₂`, and of the events produced before `i₁ ++ i₂` is exhausted. -/
theorem trace_prefix_monotone {α H : Type} (hstep : H → Call → H × Reply) (p : Proc α) (i₁ i₂ : Bytes) (h : H)
    (tr : List Ev) :
    (∃ evs, (Proc.run hstep p i₁ h tr).2.2.2 = evs ++ (Proc.upto hstep p i₁ h tr).2.2.2) ∧
    (∃ evs, (Proc.run hstep p (i₁ ++ i₂) h tr).2.2.2 = evs ++ (Proc.upto hstep p i₁ h tr).2.2.2) ∧
    (∃ evs, (Proc.upto hstep p (i₁ ++ i₂) h tr).2.2.2 = evs ++ (Proc.upto hstep p i₁ h tr).2.2.2) :=
  trace_prefix_mono hstep p i₁ i₂ h tr

/-- the bytes written are prefix-monotone in the bytes read (a continuous stream function) -/
theorem output_prefix_monotone {α H : Type} (hstep : H → Call → H × Reply) (p : Proc α) (i₁ i₂ : Bytes) (h : H)
    (tr : List Ev) :
    ∃ more, outBytes (Proc.upto hstep p (i₁ ++ i₂) h tr).2.2.2 = outBytes (Proc.upto hstep p i₁ h tr).2.2.2 ++ more :=
  outBytes_prefix_mono hstep p i₁ i₂ h tr

/-- **Diamond.** Steps of different sides of the pair system commute; a side's own step is a function of
the state (`pairStep i`). `pairStep false/true` is `stepSide` of the first/second side without its no-op
results (`moveSide`). -/
theorem steps_commute (a b : Side) (s₁ s₂ : Side × Side)
    (h1 : pairStep false (a, b) = some s₁) (h2 : pairStep true (a, b) = some s₂) :
    ∃ s₃ s₃', pairStep true s₁ = some s₃ ∧ pairStep false s₂ = some s₃' ∧ pairView s₃ = pairView s₃' :=
  pair_diamond a b s₁ s₂ h1 h2

/-- **`kahn_confluent`.** Any two maximal executions of the pair system from the same state — any two
schedules — end with the same per-side residual programs, event lists, handler states, byte counters and
results (`pairView` = everything except the input queue of a side that has returned). -/
theorem kahn_confluent {s t t' : Side × Side} {n m : Nat}
    (he : PairExec s n t) (ht : PairTerminal t) (he' : PairExec s m t') (ht' : PairTerminal t') :
    pairView t' = pairView t :=
  pair_confluent he ht he' ht'

/-- **`pairRun` computes THE outcome**: whenever the schedule used by `pairRun` ends with both sides
returned, every other maximal execution from the same initial state ends in the same observed state. -/
theorem pairRun_schedule_independent (ca cb : Cfg) (ha hb : HState) (limA limB : Option Nat) (fuel : Nat)
    (hdone : (pairRun ca cb ha hb limA limB fuel).1.ended.isSome = true ∧
      (pairRun ca cb ha hb limA limB fuel).2.ended.isSome = true)
    {m : Nat} {t' : Side × Side}
    (he' : PairExec ({ proc := exchange ca fuel, h := ha, limit := limA }, { proc := exchange cb fuel, h := hb, limit := limB }) m t')
    (ht' : PairTerminal t') :
    pairView t' = pairView (pairRun ca cb ha hb limA limB fuel) := by
  obtain ⟨n, hn⟩ := pairLoop_exec fuel fuel { proc := exchange ca fuel, h := ha, limit := limA }
    { proc := exchange cb fuel, h := hb, limit := limB }
  exact pair_confluent hn (pairTerminal_of_ended _ _ hdone.1 hdone.2) he' ht'

/-- **`segmentation_independent`.** Let every write travel through a channel from which SINGLE BYTES are
delivered at arbitrary later moments (`Net`: so a write may arrive in any number of pieces, delayed and
interleaved in any way with both sides' moves). Every maximal execution of that network ends in the
observed state in which the pair system (whole writes delivered at once) ends, with nothing in flight. -/
theorem segmentation_independent {s t : Side × Side} {n m : Nat} {u : Net}
    (he : PairExec s n t) (ht : PairTerminal t) (hu : NetExec (embed s) m u) (htu : NetTerminal u) :
    (u.a.clean, u.b.clean) = pairView t ∧ u.ca = [] ∧ u.cb = [] :=
  B2F.segmentation_independent he ht hu htu

/-- if one schedule / segmentation terminates after `n` steps, none runs longer -/
theorem termination_schedule_independent {s t t' : Net} {n m : Nat}
    (he : NetExec s n t) (ht : NetTerminal t) (he' : NetExec s m t') : m ≤ n :=
  net_length_bounded he ht he'

/-- **`pair_delivers`, one block, as a statement about the two stream functions** (`block_delivers_streams`;
PARTIAL: the LZHUF round trip is the hypothesis `FrameOK.rt` inside `BlockOK`; see below for what is
missing for the pair-level statement). `block` = what the sender's handler offers (sorted, ≤ `maxBlock`),
`as` = the answers the receiver's (unbatched) handler gives to it, `OA = blockOut block ++ frames of the
accepted proposals` = what the sender writes.

(B) The receiver's complete run on `OA ++ rest` — provided its handler reports no storage/parse error
(`AllOK`) —: its first and only write of the turn is the line `FS <as>`; then every accepted payload is
handed to `parseMessage`/`processInbound` exactly once, in proposal order, unchanged (`deliverEvs
(acceptedData …)`), its `received` list grows by exactly the accepted MIDs; then it goes on (`kOK`) with
exactly `rest`.
(A) The sender's complete run on `FS <as>\r` followed by a byte `x ∈ {'F', ';'}`: it writes exactly `OA`;
it calls `SetSent(mid, false)` for EVERY accepted proposal and for nothing else.

So `(OA, "FS <as>\r" ++ x ++ …)` is a consistent solution of the two stream equations in which every
accepted message is delivered exactly once, intact, and reported sent. By `pair_causal` every side's trace
in every pair run is a time-prefix of such a complete run on a prefix of the peer's output, and by
`kahn_confluent` the outcome does not depend on the schedule. MISSING for `pair_delivers` proper:
progress (`pair_no_deadlock`: the pair run of the two turns reaches a state in which both have returned)
and, for whole sessions, `turn_boundary_aligned`. -/
theorem block_delivers_streams_partial {H : Type} (hstep : H → Call → H × Reply)
    (ca cb : Cfg) (fuel : Nat) (stA stB : SState) (kOK : Bool → SState → Proc Result)
    (hA hA1 hB : H) (out : List OutMsg) (dataOf : Proposal → Bytes)
    (hhA : ca.hasHandler = true) (hget : hstep hA (.getOutbound stA.remoteFW) = (hA1, .msgs out))
    (hok : BlockOK ca fuel dataOf (blockOf' ca out))
    (hnd : ((blockOf' ca out).map (·.mid)).Nodup)
    (hans : AnswersPlainAt hstep hB) (hnb : cb.batched = false)
    (hall : AllOK hstep hB (acceptedData dataOf (blockOf' ca out) (answersOf hstep cb hB ((blockOf' ca out).map recvProp)))) :
    let block := blockOf' ca out
    let as := answersOf hstep cb hB (block.map recvProp)
    let OA := blockOut block ++ framesBytes ca.maxMsgLen block as
    -- (B)
    (∃ evs : List Ev, (∀ e ∈ evs, e.isAnswerCall = true) ∧ ∀ (rest : Bytes),
      Proc.run hstep ((handleInbound cb fuel stB).bind (afterInbound kOK)) (OA ++ rest) hB [] =
        Proc.run hstep
          (kOK false { stB with remoteNoMsgs := false, received := stB.received ++ acceptedMids block as })
          rest ((acceptedData dataOf block as).foldl (deliverStep hstep) hB)
          (deliverEvs (acceptedData dataOf block as) ++ .wrote (fsLine as ++ [13]) :: (evs ++ []))) ∧
    -- (A)
    (∀ (x : UInt8) (r : Bytes), isGo x = true →
      ∃ evs, (Proc.run hstep (handleOutbound ca fuel stA) (fsLine as ++ 13 :: x :: r) hA []).2.2.2 = evs ∧
        outBytes evs = OA ∧
        (∀ m, Ev.called (.setSent m false) ∈ evs ↔ ∃ p a, (p, a) ∈ block.zip as ∧ a = ansAccept ∧ p.mid = m)) := by
  intro block as OA
  have hN : block.length + 3 < fuel := hok.fuelN
  have hcanon := run_writeProposalsAnswer_canon hstep cb hnb (block.map recvProp) hB hans
  have hlen : as.length = block.length := by simpa using hcanon.1
  have hpl : ∀ a ∈ as, PlainAnswer a := hcanon.2.1
  refine ⟨?_, ?_⟩
  · obtain ⟨evs, hev, hrun⟩ := recv_turn_complete hstep cb fuel stB kOK block ca.maxMsgLen hok.m1 hok.m2 dataOf hB hans hnb
      hok.ne hok.line hok.frame hok.fuel5 (by omega) hall
    refine ⟨evs, hev, ?_⟩
    intro rest
    have := hrun rest []
    simpa [OA, List.append_assoc] using this
  · intro x r hx
    have hasne : as ≠ [] := by
      intro e; rw [e] at hlen; exact hok.ne (List.length_eq_zero_iff.mp hlen.symm)
    have hfsl : (fsLine as).length < fuel := by
      simp only [fsLine, fsPrefix, List.length_append, List.length_cons, List.length_nil]; omega
    obtain ⟨evs, h1, h2, h3, h4⟩ := handleOutbound_trace_fs hstep ca fuel stA out as (x :: r) hA hA1 [] hhA hget hlen hasne hpl
      hfsl hok.big
    rw [List.append_nil] at h1
    refine ⟨evs, h1, h2, ?_⟩
    intro m
    constructor
    · intro hm; exact (h3 m hm).2
    · rintro ⟨p, a, hpa, ha, rfl⟩
      exact h4 hnd ⟨x, r, rfl, hx⟩ p a hpa ha

/-! ### non-vacuity, on small hand-made programs (a real `exchange` run cannot be evaluated in the kernel) -/

def res0 : Result := { err := .nil }

/-- writes two bytes in one write, then echoes one byte it reads into a `processInbound` call -/
def progA : Proc Result :=
  .write [1, 2] (.readByte fun o => match o with
    | some b => .call (.processInbound [b]) fun _ => .ret res0
    | none => .ret res0)

/-- reads two bytes, answers with their sum -/
def progB : Proc Result :=
  .readByte fun o => .readByte fun o' => match o, o' with
    | some x, some y => .write [x + y] (.ret res0)
    | _, _ => .ret res0

def sideA : Side := { proc := progA, h := {} }
def sideB : Side := { proc := progB, h := {} }

/-- the schedule of `pairLoop` ends with both sides returned … -/
example : (pairLoop 5 50 sideA sideB).1.ended.isSome = true ∧ (pairLoop 5 50 sideA sideB).2.ended.isSome = true := by
  decide +kernel
/-- … with these traces -/
example : (pairLoop 5 50 sideA sideB).1.evs = [.called (.processInbound [3]), .wrote [1, 2]] ∧
    (pairLoop 5 50 sideA sideB).2.evs = [.wrote [3]] := by decide +kernel

/-- so the hypotheses of `kahn_confluent` are satisfiable: a terminating execution exists -/
example : ∃ n t, PairExec (sideA, sideB) n t ∧ PairTerminal t := by
  obtain ⟨n, hn⟩ := pairLoop_exec 5 50 sideA sideB
  exact ⟨n, _, hn, pairTerminal_of_ended _ _ (by decide +kernel) (by decide +kernel)⟩

/-- prefix determinism on a concrete program: on input `[5]` program B stops at its second read having
consumed the byte; continuing the residual program on `[6]` gives the run on `[5, 6]` -/
def unitStep : Unit → Call → Unit × Reply := fun _ _ => ((), .unit)
example : (Proc.upto unitStep progB [5] () []).1.waiting = true ∧ (Proc.upto unitStep progB [5] () []).2.1 = [] := by
  decide +kernel
example : (Proc.run unitStep progB ([5] ++ [6]) () []).2.2.2 = [.wrote [11]] ∧
    (Proc.run unitStep progB [5] () []).2.2.2 = [] := by decide +kernel

end Wl2k.Props.C01
