import Wl2kVerif.Proofs.TelnetSchedGo
/-
C15, clause "regardless of how the prompts and replies were segmented … every schedule".

`Props/C15.lean` proves that the only state of the joined system (dialler + listener + two byte
queues) with nothing in flight is the completed login (`pair_never_stuck`). Here "every schedule
terminates, and terminates there" is a theorem about an explicit small-step system,
`Telnet/Sched.lean`:

  * state `St` = the chunks DELIVERED so far to each side (one list entry per delivery) + the number
    of effective deliveries; what each side has WRITTEN (`wroteC`/`wroteS`), what is IN FLIGHT
    (`flightToClient`/`flightToServer`) and what the callers observe (`obs`) are the existing model
    functions `dial …`/`accept …` of `Telnet/Login.lean` applied to the chunks received so far
    (peer silent beyond that, no deadline) - nothing is re-modelled;
  * a `Choice` `(direction, n)` delivers the first `n` bytes in flight in that direction (all if
    fewer) as ONE new chunk; it is skipped if `n = 0` or nothing is in flight in that direction;
  * a `Schedule` is a list of choices, `run S sched` the state it leads to from the initial state
    (nothing delivered; the listener has its first prompt in flight).

`goSys call pw payloadC payloadS` is this system with the code as extracted (`goClassify`,
`trimSpace`, `codeCfg`); `Completed call pw payloadC payloadS st` (Proofs/TelnetSchedGo.lean) says:
`DialContext` returned a connection having written `call CR`, `pw CR`; `Accept` returned a connection
with `err = nil` having written the two prompts; `RemoteCall() = TrimSpace(call)`; each returned
connection delivers exactly the other side's payload, nothing lost; everything written is delivered.
-/
namespace Wl2k.Props.C15
open Wl2k Wl2k.Str Wl2k.Telnet Wl2k.Telnet.Sched

/-! ### (1) Monotonicity: "in flight" is well defined -/

/-- **The dialler model is prefix-monotone in the chunks received.** For the real model function
`dial` with ANY classifier, configuration, context deadline `D`, peer `close`, callsign, password,
start time and payload: what the dialler has written after receiving the chunks `cs` (its login
lines, then `payload` once it is through the login) is a prefix of what it has written after
receiving `cs ++ cs'`, for all chunk lists `cs`, `cs'`. No hypotheses. -/
theorem dial_writes_monotone (classify : Bytes → Kind) (cfg : Cfg) (D close : Option Nat)
    (call pw : Bytes) (now : Nat) (payload : Bytes) (cs cs' : Chunks) :
    (dial classify cfg D close call pw now cs).out payload <+:
      (dial classify cfg D close call pw now (cs ++ cs')).out payload :=
  dial_out_mono classify cfg D close call pw now payload cs cs'

/-- **The listener model is prefix-monotone in the chunks received.** For the real model function
`accept` with ANY trim function, configuration, peer `close` and payload: what the listener has
written after receiving `cs` is a prefix of what it has written after receiving `cs ++ cs'`.
No hypotheses. -/
theorem accept_writes_monotone (trim : Bytes → Bytes) (cfg : Cfg) (close : Option Nat)
    (payload : Bytes) (cs cs' : Chunks) :
    (accept trim cfg close cs).out payload <+: (accept trim cfg close (cs ++ cs')).out payload :=
  accept_out_mono trim cfg close payload cs cs'

/-- A login that had succeeded on `cs` is the same login on `cs ++ cs'` (same writes, same return
time, same reader content), the later chunks being left on the connection for the caller - both
sides, any parameters. -/
theorem login_stable_under_later_chunks (classify : Bytes → Kind) (trim : Bytes → Bytes) (cfg : Cfg)
    (D close : Option Nat) (call pw : Bytes) (now : Nat) (cs cs' : Chunks) :
    (∀ c w t, dial classify cfg D close call pw now cs = .conn c w t →
      dial classify cfg D close call pw now (cs ++ cs') = .conn { c with chunks := c.chunks ++ cs' } w t) ∧
    (∀ c w, accept trim cfg close cs = .conn c none w →
      accept trim cfg close (cs ++ cs') = .conn { c with chunks := c.chunks ++ cs' } none w) :=
  ⟨fun _ _ _ h => dial_append_conn classify cfg D close call pw now cs cs' h,
   fun _ _ h => accept_append_conn trim cfg close cs cs' h⟩

/-- **schedule_monotone (safety).** For EVERY system `S` (any classifier, trim function,
configuration, callsign, password, payloads - no hypotheses) and every schedule `sched` continued by
any `sched'`: with `st` the state after `sched` and `st'` the state after `sched ++ sched'`,
what each side has written in `st` is a prefix of what it has written in `st'`; the chunks delivered
in `st` are an initial segment of those delivered in `st'`; the step count does not decrease; and in
`st` "in flight" is well defined in both directions: written = delivered ++ in flight. -/
theorem schedule_monotone (S : Sys) (sched sched' : Schedule) :
    wroteC S (run S sched) <+: wroteC S (run S (sched ++ sched')) ∧
    wroteS S (run S sched) <+: wroteS S (run S (sched ++ sched')) ∧
    (run S sched).toClient <+: (run S (sched ++ sched')).toClient ∧
    (run S sched).toServer <+: (run S (sched ++ sched')).toServer ∧
    (run S sched).steps ≤ (run S (sched ++ sched')).steps ∧
    wroteS S (run S sched) = flat (run S sched).toClient ++ flightToClient S (run S sched) ∧
    wroteC S (run S sched) = flat (run S sched).toServer ++ flightToServer S (run S sched) := by
  rw [run_append]
  have h1 := wrote_mono_runFrom S sched' (run S sched)
  have h2 := delivered_mono_runFrom S sched' (run S sched)
  have h3 := wrote_split S _ (inv_run S sched)
  exact ⟨h1.1, h1.2, h2.1, h2.2, steps_mono_runFrom S sched' _, h3.1, h3.2⟩

/-! ### (2) Every schedule terminates, and terminates in the completed state -/

/-- **Bounded.** For all callsigns, passwords and payloads (no hypotheses) and EVERY schedule, the
number of effective deliveries never exceeds the total number of bytes the two sides ever write:
`|callPrompt| + |pwPrompt| + |payloadS| + (|call|+1) + (|pw|+1) + |payloadC|`. -/
theorem schedule_steps_bounded (call pw payloadC payloadS : Bytes) (sched : Schedule) :
    (run (goSys call pw payloadC payloadS) sched).steps ≤ bound (goSys call pw payloadC payloadS) :=
  steps_le_bound _ _ (go_classify_facts ..).1 (go_classify_facts ..).2 (inv_run _ sched)

/-- **Can always finish.** For all callsigns, passwords and payloads (no hypotheses) and EVERY
schedule `sched` there is a continuation `sched'` of at most `bound` choices after which nothing is
in flight. -/
theorem schedule_can_finish (call pw payloadC payloadS : Bytes) (sched : Schedule) :
    ∃ sched' : Schedule, sched'.length ≤ bound (goSys call pw payloadC payloadS) ∧
      quiescent (goSys call pw payloadC payloadS)
        (run (goSys call pw payloadC payloadS) (sched ++ sched')) = true := by
  obtain ⟨s', hl, hq⟩ := exists_quiescent_extension_from (goSys call pw payloadC payloadS)
    (go_classify_facts ..).1 (go_classify_facts ..).2 (bound (goSys call pw payloadC payloadS))
    (run (goSys call pw payloadC payloadS) sched) (inv_run _ sched) (Nat.sub_le _ _)
  exact ⟨s', hl, by rw [run_append]; exact hq⟩

/-- **every_schedule_terminates.** For every callsign and password without CR, all payloads and
EVERY schedule `sched` (every interleaving of the two directions, every segmentation), with
`st = run sched`:
(a) the number of effective deliveries in `st` is at most `bound` (the bytes ever written);
(b) if nothing is in flight in `st`, then `st` is the completed login (`Completed`: both logged in,
    `RemoteCall() = TrimSpace(call)`, both payloads handed over in full and unmodified, nothing lost);
(c) there is a continuation `sched'` of at most `bound` choices such that after `sched ++ sched'`
    nothing is in flight - and that state is the completed login. -/
theorem every_schedule_terminates (call pw payloadC payloadS : Bytes)
    (hc : (13 : UInt8) ∉ call) (hp : (13 : UInt8) ∉ pw) (sched : Schedule) :
    (run (goSys call pw payloadC payloadS) sched).steps ≤ bound (goSys call pw payloadC payloadS) ∧
    (quiescent (goSys call pw payloadC payloadS) (run (goSys call pw payloadC payloadS) sched) = true →
      Completed call pw payloadC payloadS (run (goSys call pw payloadC payloadS) sched)) ∧
    ∃ sched' : Schedule, sched'.length ≤ bound (goSys call pw payloadC payloadS) ∧
      quiescent (goSys call pw payloadC payloadS)
        (run (goSys call pw payloadC payloadS) (sched ++ sched')) = true ∧
      Completed call pw payloadC payloadS (run (goSys call pw payloadC payloadS) (sched ++ sched')) := by
  refine ⟨schedule_steps_bounded call pw payloadC payloadS sched,
    completed_of_quiescent call pw payloadC payloadS hc hp _ (inv_run _ sched), ?_⟩
  obtain ⟨s', hl, hq⟩ := schedule_can_finish call pw payloadC payloadS sched
  exact ⟨s', hl, hq, completed_of_quiescent call pw payloadC payloadS hc hp _ (inv_run _ _) hq⟩

/-- **Strong form 1: any maximal schedule ends completed.** A schedule is maximal when it only stops
with nothing in flight (`quiescent (run sched)`). For every callsign and password without CR and all
payloads, every maximal schedule ends in the completed login. -/
theorem maximal_schedule_completes (call pw payloadC payloadS : Bytes)
    (hc : (13 : UInt8) ∉ call) (hp : (13 : UInt8) ∉ pw) (sched : Schedule)
    (hmax : quiescent (goSys call pw payloadC payloadS)
      (run (goSys call pw payloadC payloadS) sched) = true) :
    Completed call pw payloadC payloadS (run (goSys call pw payloadC payloadS) sched) :=
  completed_of_quiescent call pw payloadC payloadS hc hp _ (inv_run _ sched) hmax

/-- **Greedy schedules make progress.** For EVERY system (no hypotheses): a schedule none of whose
choices is skipped while something is in flight (`greedy`) either has reached a state with nothing
in flight, or every one of its choices was an effective delivery. -/
theorem greedy_schedule_progress (S : Sys) (sched : Schedule) (hg : greedy S sched = true) :
    quiescent S (run S sched) = true ∨ (run S sched).steps = sched.length := by
  rcases greedyFrom_spec S sched init hg with hq | hs
  · exact Or.inl hq
  · exact Or.inr (by have hs' : (run S sched).steps = 0 + sched.length := hs; omega)

/-- **Strong form 2: keep delivering and you are done after at most `bound` choices.** A schedule is
`greedy` when none of its choices is skipped while something is in flight (skipped choices are
allowed only once nothing at all is in flight). For every callsign and password without CR and all
payloads, every greedy schedule with at least `bound` choices ends in the completed login - whatever
directions and chunk lengths it picked. -/
theorem greedy_schedule_completes (call pw payloadC payloadS : Bytes)
    (hc : (13 : UInt8) ∉ call) (hp : (13 : UInt8) ∉ pw) (sched : Schedule)
    (hg : greedy (goSys call pw payloadC payloadS) sched = true)
    (hlen : bound (goSys call pw payloadC payloadS) ≤ sched.length) :
    Completed call pw payloadC payloadS (run (goSys call pw payloadC payloadS) sched) := by
  apply maximal_schedule_completes call pw payloadC payloadS hc hp
  rcases greedyFrom_spec _ sched init hg with hq | hs
  · exact hq
  · apply quiescent_of_steps_ge _ _ (go_classify_facts ..).1 (go_classify_facts ..).2 (inv_run _ sched)
    have hs' : (run (goSys call pw payloadC payloadS) sched).steps = 0 + sched.length := hs
    omega

/-! ### (3) The result does not depend on the schedule -/

/-- **result_schedule_independent.** For every callsign and password without CR and all payloads:
any two maximal schedules (each stops with nothing in flight) - however differently they interleave
and segment - end in states with the SAME observation `obs` (both logged in, `RemoteCall()`, what
each caller reads after the login, nothing lost, what each side wrote, the byte streams delivered),
namely `doneObs`, which is fixed by callsign, password and payloads alone. -/
theorem result_schedule_independent (call pw payloadC payloadS : Bytes)
    (hc : (13 : UInt8) ∉ call) (hp : (13 : UInt8) ∉ pw) (s1 s2 : Schedule)
    (h1 : quiescent (goSys call pw payloadC payloadS) (run (goSys call pw payloadC payloadS) s1) = true)
    (h2 : quiescent (goSys call pw payloadC payloadS) (run (goSys call pw payloadC payloadS) s2) = true) :
    obs (goSys call pw payloadC payloadS) (run (goSys call pw payloadC payloadS) s1) =
      obs (goSys call pw payloadC payloadS) (run (goSys call pw payloadC payloadS) s2) ∧
    obs (goSys call pw payloadC payloadS) (run (goSys call pw payloadC payloadS) s1) =
      doneObs (goSys call pw payloadC payloadS) := by
  have e1 := obs_of_completed call pw payloadC payloadS _
    (maximal_schedule_completes call pw payloadC payloadS hc hp s1 h1)
  have e2 := obs_of_completed call pw payloadC payloadS _
    (maximal_schedule_completes call pw payloadC payloadS hc hp s2 h2)
  exact ⟨by rw [e1, e2], e1⟩

/-! ### Non-vacuity: a tiny login (call "A", password "B", client payload "H", server payload "IJ")
under different schedules, evaluated -/

/-- The tiny system. `bound = 11 + 11 + 2 + 2 + 2 + 1 = 29`. -/
def tiny : Sys := goSys [65] [66] [72] [73, 74]

example : bound tiny = 29 := by decide

/-- Byte by byte, every choice effective: prompt, callsign, prompt, password+payload, payload. -/
def tinyBytewise : Schedule :=
  List.replicate 11 (Dir.toClient, 1) ++ List.replicate 2 (Dir.toServer, 1) ++
  List.replicate 11 (Dir.toClient, 1) ++ List.replicate 3 (Dir.toServer, 1) ++
  List.replicate 2 (Dir.toClient, 1)

/-- Uneven segments, the two directions interleaved while both have bytes in flight, the client's
payload coalesced with its password line's CR. -/
def tinyMixed : Schedule :=
  [(.toClient, 4), (.toClient, 100), (.toServer, 1), (.toServer, 1), (.toClient, 10), (.toClient, 1),
   (.toServer, 1), (.toServer, 5), (.toClient, 1), (.toClient, 1)]

/-- (1) `dial_writes_monotone` / `accept_writes_monotone` on a concrete non-trivial instance: one more
chunk makes the output strictly longer. -/
example : (dial goClassify codeCfg none none [65] [66] 0 [(0, callPrompt)]).out [72] = [65, 13] ∧
    (dial goClassify codeCfg none none [65] [66] 0 ([(0, callPrompt)] ++ [(0, pwPrompt)])).out [72] =
      [65, 13, 66, 13, 72] := by decide +kernel
example : (accept trimSpace codeCfg none [(0, [65])]).out [73, 74] = callPrompt ∧
    (accept trimSpace codeCfg none ([(0, [65])] ++ [(0, [13, 66, 13])])).out [73, 74] =
      callPrompt ++ pwPrompt ++ [73, 74] := by decide +kernel
example : ∃ c, dial goClassify codeCfg none none [65] [66] 0 ([(0, callPrompt ++ pwPrompt)] ++ [(5, [73])]) =
    .conn c [[65, 13], [66, 13]] 0 ∧ c.chunks = [(5, [73])] :=
  ⟨⟨true, [], [(5, [73])], cmsTargetCall⟩, by decide +kernel, by decide +kernel⟩

/-- `schedule_monotone`: a proper continuation on which both sides' writes strictly grow. -/
example : wroteC tiny (run tiny (tinyBytewise.take 11)) = [65, 13] ∧
    wroteC tiny (run tiny (tinyBytewise.take 11 ++ tinyMixed)) = [65, 13, 66, 13, 72] ∧
    wroteS tiny (run tiny (tinyBytewise.take 11)) = callPrompt ∧
    wroteS tiny (run tiny (tinyBytewise.take 11 ++ tinyMixed)) = callPrompt ++ pwPrompt ++ [73, 74] := by
  decide +kernel

/-- The hypotheses of (2)/(3) hold for the tiny login … -/
example : (13 : UInt8) ∉ ([65] : Bytes) ∧ (13 : UInt8) ∉ ([66] : Bytes) := by decide

/-- … the byte-wise schedule is greedy, has exactly `bound` choices, all effective, ends with nothing
in flight and with the completed observation (`greedy_schedule_completes`, `every_schedule_terminates`
(a) attained with equality) … -/
example : greedy tiny tinyBytewise = true ∧ tinyBytewise.length = bound tiny ∧
    (run tiny tinyBytewise).steps = 29 ∧ quiescent tiny (run tiny tinyBytewise) = true ∧
    obs tiny (run tiny tinyBytewise) = doneObs tiny := by decide +kernel

/-- … a greedy schedule that is too short is still under way, all its choices effective
(`greedy_schedule_progress`) … -/
example : greedy tiny (tinyBytewise.take 20) = true ∧
    quiescent tiny (run tiny (tinyBytewise.take 20)) = false ∧
    (run tiny (tinyBytewise.take 20)).steps = 20 := by decide +kernel

/-- … everything coalesced: 5 deliveries instead of 29, same observation … -/
example : (run tiny (coalescedSched 3)).steps = 5 ∧ quiescent tiny (run tiny (coalescedSched 3)) = true ∧
    obs tiny (run tiny (coalescedSched 3)) = doneObs tiny ∧
    (run tiny (coalescedSched 3)).toClient = [(0, callPrompt), (0, pwPrompt), (0, [73, 74])] ∧
    (run tiny (coalescedSched 3)).toServer = [(0, [65, 13]), (0, [66, 13, 72])] := by decide +kernel

/-- … a mixed one: 10 deliveries, a different chunking, same observation
(`result_schedule_independent`, `maximal_schedule_completes`) … -/
example : (run tiny tinyMixed).steps = 10 ∧ quiescent tiny (run tiny tinyMixed) = true ∧
    obs tiny (run tiny tinyMixed) = doneObs tiny ∧
    (run tiny tinyMixed).toServer = [(0, [65]), (0, [13]), (0, [66]), (0, [13, 72])] ∧
    (run tiny tinyMixed).toClient ≠ (run tiny (coalescedSched 3)).toClient := by decide +kernel

/-- … the blindly alternating byte-wise schedule (it contains skipped choices, so it is not greedy)
also ends there once it is long enough … -/
example : greedy tiny (bytewiseSched 40) = false ∧ (run tiny (bytewiseSched 40)).steps = 29 ∧
    obs tiny (run tiny (bytewiseSched 40)) = doneObs tiny := by decide +kernel

/-- … and `doneObs` is what it should be. -/
example : doneObs tiny = ⟨true, true, some [65], [73, 74], [72], [], [], [65, 13, 66, 13, 72],
    callPrompt ++ pwPrompt ++ [73, 74], callPrompt ++ pwPrompt ++ [73, 74], [65, 13, 66, 13, 72]⟩ := by
  decide +kernel

/-- An unfinished schedule is NOT quiescent (so (b) is not vacuous the other way round), its
continuation exists (`schedule_can_finish`, (c)): here the rest of the byte-wise schedule. -/
example : quiescent tiny (run tiny (tinyBytewise.take 13)) = false ∧
    (run tiny (tinyBytewise.take 13)).steps = 13 ∧
    quiescent tiny (run tiny (tinyBytewise.take 13 ++ tinyBytewise.drop 13)) = true ∧
    (tinyBytewise.drop 13).length ≤ bound tiny := by decide +kernel

/-- Invalid choices are skipped: nothing is in flight towards the listener at the start, and a
zero-length delivery is no delivery. -/
example : run tiny [(.toServer, 3), (.toClient, 0)] = init := by decide +kernel

end Wl2k.Props.C15
