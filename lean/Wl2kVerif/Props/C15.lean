import Wl2kVerif.Proofs.Telnet
import Wl2kVerif.Proofs.TelnetPair
import Wl2kVerif.Gen.Facts
/-
C15 — telnet login hands over a clean stream and honours the dial deadline.

Model: `Telnet/Login.lean` (chunked + timed input, explicit private `bufio.Reader`, abstract time).
The theorems quantify over EVERY chunking (`Chunks` is an arbitrary list of `(time, bytes)` whose
concatenation is the stream — so the payload may be coalesced with the last login line, a line may be
split byte by byte, a chunk may exceed the 4096-byte buffer) and, for the deadline, over EVERY
server behaviour (`chunks` + `close` arbitrary: silent, partial prompt, garbage, immediate close).
What the returned connection reads from and whether the login I/O is bounded by the context are the
regenerated facts `Gen.telnetDialContextDrains / telnetAcceptDrains / telnetDialLoginDeadline`.
-/
namespace Wl2k.Props.C15
open Wl2k Wl2k.Str Wl2k.Telnet

/-- The configuration read off /repo's source by the extractor on this run. -/
def codeCfg : Cfg :=
  ⟨Gen.telnetDialContextDrains, Gen.telnetAcceptDrains, Gen.telnetDialLoginDeadline⟩

/-- **Tie to the source:** both login functions return a connection that reads through the login
reader, and the login I/O of `DialContext` is bounded by the context. (Fails by evaluation when the
source reverts to the raw conn / drops the deadline; the theorems below then no longer apply.) -/
theorem code_drains_and_bounds : codeCfg = ⟨true, true, true⟩ := by decide

/-- Every chunk arrives (and the login starts) before the instant `D` at which ctx is done. -/
def InTime (D : Option Nat) (now : Nat) (cs : Chunks) : Prop :=
  due D now = false ∧ ∀ p ∈ cs, due D p.1 = false

theorem due_gate {D : Option Nat} {t : Nat} (b : Bool) (h : due D t = false) :
    due (if b = true then D else none) t = false := by
  cases b
  · rfl
  · simpa using h

/-- **Client side, any peer.** The peer's stream is any sequence of CR-terminated lines none of
which is a password prompt, then a password prompt, then `payload` — chunked in ANY way. Then
`DialContext` succeeds, has written the callsign once per callsign prompt and then the password,
and the returned connection delivers exactly `payload`: nothing lost, nothing added. -/
theorem client_stream_clean (classify : Bytes → Kind) (cfg : Cfg) (hcfg : cfg.clientDrains = true)
    (D close : Option Nat) (call pw : Bytes) (ls : List Bytes) (lp payload : Bytes)
    (now : Nat) (chunks : Chunks)
    (hls : ∀ l ∈ ls, Line l ∧ classify l ≠ .password) (hlp : Line lp) (hcp : classify lp = .password)
    (hflat : flat chunks = ls.flatten ++ lp ++ payload) (ht : InTime D now chunks) :
    ∃ c t, dial classify cfg D close call pw now chunks =
        .conn c (replies classify call ls ++ [pw ++ [13]]) t ∧
      c.stream = payload ∧ c.lost = [] := by
  have hlen : ls.length < (flat chunks).length + 1 := by
    have := length_le_flatten ls (fun l hl => (hls l hl).1.ne_nil)
    rw [hflat]; simp only [List.length_append]; omega
  obtain ⟨r', hloop, hst, hdue⟩ := clientLoop_lines classify (if cfg.loginDeadline = true then D else none)
    close call pw ls lp payload ((flat chunks).length + 1) [] ⟨[], chunks, now⟩ hls hlp hcp
    (by simpa [Rd.stream] using hflat) hlen (due_gate _ ht.1) (fun p hp => due_gate _ (ht.2 p hp))
  refine ⟨⟨cfg.clientDrains, r'.buf, r'.chunks, cmsTargetCall⟩, r'.now, ?_, ?_, ?_⟩
  · simp only [dial, hloop, hdue, List.nil_append]
    simp
  · simpa [Conn.stream, hcfg, Rd.stream] using hst
  · simp [Conn.lost, hcfg]

/-- **Server side, any peer.** The peer's stream is `call CR pw CR payload` (call, pw CR-free),
chunked in ANY way. Then `Accept` succeeds, `RemoteCall()` is the trimmed callsign line and the
returned connection delivers exactly `payload`. -/
theorem server_stream_clean (trim : Bytes → Bytes) (cfg : Cfg) (hcfg : cfg.serverDrains = true)
    (close : Option Nat) (call pw payload : Bytes) (chunks : Chunks)
    (hc : (13 : UInt8) ∉ call) (hp : (13 : UInt8) ∉ pw)
    (hflat : flat chunks = call ++ [13] ++ (pw ++ [13]) ++ payload) :
    ∃ c, accept trim cfg close chunks = .conn c none [callPrompt, pwPrompt] ∧
      c.remoteCall = trim (call ++ [13]) ∧ c.stream = payload ∧ c.lost = [] := by
  obtain ⟨r1, h1, hs1, _, _, _⟩ := readLine_line (D := none) (close := close)
    (r := ⟨[], chunks, 0⟩) (line_of_text hc) (rest := pw ++ [13] ++ payload)
    (by simpa [Rd.stream] using hflat) rfl (fun _ _ => rfl)
  obtain ⟨r2, h2, hs2, _, _, _⟩ := readLine_line (D := none) (close := close)
    (r := r1) (line_of_text hp) (rest := payload) hs1 rfl (fun _ _ => rfl)
  refine ⟨⟨cfg.serverDrains, r2.buf, r2.chunks, trim (call ++ [13])⟩, ?_, rfl, ?_, ?_⟩
  · simp only [accept, h1, h2]
  · simpa [Conn.stream, hcfg, Rd.stream] using hs2
  · simp [Conn.lost, hcfg]

theorem classify_callPrompt : goClassify callPrompt = .callsign := by decide
theorem classify_pwPrompt : goClassify pwPrompt = .password := by decide

/-- A callsign as the oracle decision compares it: no CR, no white space at either end. -/
def CleanCall (call : Bytes) : Prop :=
  (13 : UInt8) ∉ call ∧ (∀ a, call.head? = some a → isSpace a = false) ∧
    (∀ a, call.getLast? = some a → isSpace a = false)

/-- **login_stream_clean.** Dialler and listener of this package against each other (configuration
as extracted from the source): for every callsign and password without CR, every payload in both
directions and EVERY chunking of the two byte streams — including the payload coalesced with the
last login line — both logins succeed, the writes of each side are exactly the stream the other
side parses, the accepted connection reports the (trimmed) callsign, and what each side reads after
the login is exactly the other side's payload. -/
theorem login_stream_clean (call pw payloadC payloadS : Bytes)
    (hc : (13 : UInt8) ∉ call) (hp : (13 : UInt8) ∉ pw)
    (D closeC closeS : Option Nat) (now : Nat) (toClient toServer : Chunks)
    (hC : flat toClient = callPrompt ++ pwPrompt ++ payloadS)
    (hS : flat toServer = call ++ [13] ++ (pw ++ [13]) ++ payloadC)
    (ht : InTime D now toClient) :
    ∃ cC cS t,
      dial goClassify codeCfg D closeC call pw now toClient = .conn cC [call ++ [13], pw ++ [13]] t ∧
      accept trimSpace codeCfg closeS toServer = .conn cS none [callPrompt, pwPrompt] ∧
      cS.remoteCall = trimSpace call ∧
      cC.stream = payloadS ∧ cS.stream = payloadC ∧ cC.lost = [] ∧ cS.lost = [] := by
  have hcfg := code_drains_and_bounds
  have hcp : Line callPrompt := ⟨callPrompt.dropLast, by decide, by decide⟩
  have hpp : Line pwPrompt := ⟨pwPrompt.dropLast, by decide, by decide⟩
  obtain ⟨cC, t, hd, hsC, hlC⟩ := client_stream_clean goClassify codeCfg (by rw [hcfg]) D closeC call pw
    [callPrompt] pwPrompt payloadS now toClient
    (by intro l hl
        simp only [List.mem_singleton] at hl
        subst hl
        exact ⟨hcp, by rw [classify_callPrompt]; decide⟩)
    hpp classify_pwPrompt (by simpa using hC) ht
  obtain ⟨cS, ha, hrc, hsS, hlS⟩ := server_stream_clean trimSpace codeCfg (by rw [hcfg]) closeS call pw
    payloadC toServer hc hp hS
  refine ⟨cC, cS, t, ?_, ha, ?_, hsC, hsS, hlC, hlS⟩
  · simpa [replies, classify_callPrompt] using hd
  · rw [hrc]; exact trimSpace_snoc (by decide) call

/-- **Nothing in flight.** `toClient` / `toServer` are what has been delivered so far (in any
chunking). Everything each side has written so far — its login lines and, once it is through the
login, its payload — has been delivered to the other side; what a side has written is the model's
answer on what has been delivered to it, the peer being silent beyond that (no deadline). -/
structure Quiescent (call pw payloadC payloadS : Bytes) (toClient toServer : Chunks) : Prop where
  client_has_all : flat toClient =
    (accept trimSpace codeCfg none toServer).writes.flatten ++
      (if (accept trimSpace codeCfg none toServer).loggedIn = true then payloadS else [])
  server_has_all : flat toServer =
    (dial goClassify codeCfg none none call pw 0 toClient).writes.flatten ++
      (if (dial goClassify codeCfg none none call pw 0 toClient).loggedIn = true then payloadC else [])

/-- **The pair never gets stuck.** The dialler and the listener as two blocking processes joined by
two byte queues: the ONLY state in which nothing is in flight is the completed one (both logged in,
RemoteCall right, both payloads delivered in full). Since every delivery hands over at least one
byte of finitely many, every schedule of deliveries (every interleaving, every segmentation)
reaches that state: no deadlock, no partial hand-over. -/
theorem pair_never_stuck (call pw payloadC payloadS : Bytes)
    (hc : (13 : UInt8) ∉ call) (hp : (13 : UInt8) ∉ pw) (toClient toServer : Chunks)
    (q : Quiescent call pw payloadC payloadS toClient toServer) :
    ∃ cC cS t,
      dial goClassify codeCfg none none call pw 0 toClient = .conn cC [call ++ [13], pw ++ [13]] t ∧
      accept trimSpace codeCfg none toServer = .conn cS none [callPrompt, pwPrompt] ∧
      cS.remoteCall = trimSpace call ∧ cC.stream = payloadS ∧ cS.stream = payloadC := by
  obtain ⟨hC, hS⟩ := q
  have hcfg := code_drains_and_bounds
  have hcp : Line callPrompt := ⟨callPrompt.dropLast, by decide, by decide⟩
  have hpp : Line pwPrompt := ⟨pwPrompt.dropLast, by decide, by decide⟩
  -- what the dialler does once both prompts (and possibly a payload) have been delivered
  have client : ∀ payload, flat toClient = callPrompt ++ pwPrompt ++ payload →
      flat toServer = call ++ [13] ++ (pw ++ [13]) ++ payloadC := by
    intro payload hfl
    obtain ⟨cC, t, hd, _, _⟩ := client_stream_clean goClassify codeCfg (by rw [hcfg]) none none call pw
      [callPrompt] pwPrompt payload 0 toClient
      (by intro l hl
          simp only [List.mem_singleton] at hl
          subst hl
          exact ⟨hcp, by rw [classify_callPrompt]; decide⟩)
      hpp classify_pwPrompt (by simpa using hfl) ⟨rfl, fun _ _ => rfl⟩
    rw [hd] at hS
    simpa [Dial.writes, Dial.loggedIn, replies, classify_callPrompt] using hS
  cases h1 : readLine none none ⟨[], toServer, 0⟩ with
  | fuel => exact absurd h1 (readLine_nofuel _)
  | fail e t => exact absurd h1 readLine_nofail
  | hang =>
    -- the listener has only sent the callsign prompt: the dialler has answered it, so the
    -- listener's read cannot be blocked
    have hA : accept trimSpace codeCfg none toServer = .hang [callPrompt] := by simp only [accept, h1]
    rw [hA] at hC
    have hC' : flat toClient = callPrompt := by simpa [Accept.writes, Accept.loggedIn] using hC
    rw [dial_after_callPrompt goClassify codeCfg call pw toClient classify_callPrompt hC'] at hS
    have hS' : flat toServer = call ++ [13] := by simpa [Dial.writes, Dial.loggedIn] using hS
    obtain ⟨r', hr, _⟩ := readLine_line' (close := none) (r := ⟨[], toServer, 0⟩) (line_of_text hc)
      (rest := []) (by simp [Rd.stream, hS'])
    rw [hr] at h1; cases h1
  | ok line r =>
    cases h2 : readLine none none r with
    | fuel => exact absurd h2 (readLine_nofuel _)
    | fail e t => exact absurd h2 readLine_nofail
    | hang =>
      -- the listener has sent both prompts: the dialler is through and has sent callsign and
      -- password, so the listener's second read cannot be blocked
      have hA : accept trimSpace codeCfg none toServer = .hang [callPrompt, pwPrompt] := by
        simp only [accept, h1, h2]
      rw [hA] at hC
      have hC' : flat toClient = callPrompt ++ pwPrompt ++ [] := by
        simpa [Accept.writes, Accept.loggedIn] using hC
      have hS' := client [] hC'
      obtain ⟨r1, hr1, hs1⟩ := readLine_line' (close := none) (r := ⟨[], toServer, 0⟩) (line_of_text hc)
        (rest := pw ++ [13] ++ payloadC) (by simpa [Rd.stream] using hS')
      rw [hr1] at h1
      simp only [RL.ok.injEq] at h1
      obtain ⟨r2, hr2, _⟩ := readLine_line' (close := none) (r := r1) (line_of_text hp)
        (rest := payloadC) hs1
      rw [h1.2, h2] at hr2; cases hr2
    | ok l2 r2 =>
      have hA : (accept trimSpace codeCfg none toServer).writes = [callPrompt, pwPrompt] ∧
          (accept trimSpace codeCfg none toServer).loggedIn = true := by
        simp only [accept, h1, h2, Accept.writes, Accept.loggedIn, and_self]
      rw [hA.1, hA.2] at hC
      have hC' : flat toClient = callPrompt ++ pwPrompt ++ payloadS := by simpa using hC
      have hS' := client payloadS hC'
      obtain ⟨cC, cS, t, h⟩ := login_stream_clean call pw payloadC payloadS hc hp none none none 0
        toClient toServer hC' hS' ⟨rfl, fun _ _ => rfl⟩
      exact ⟨cC, cS, t, h.1, h.2.1, h.2.2.1, h.2.2.2.1, h.2.2.2.2.1⟩

/-- Oracle decision: for a callsign without white space at its ends `RemoteCall()` IS the dialled
callsign. (Surrounding blanks are trimmed by the server: an observation, not a violation.) -/
theorem remoteCall_eq_call (call : Bytes) (h : CleanCall call) : trimSpace (call ++ [13]) = call := by
  rw [trimSpace_snoc (by decide) call]
  exact trimSpace_clean call h.2.1 h.2.2

/-- The same for ANY trim function with the two laws the harness checks on the real
`strings.TrimSpace` for every generated callsign (so Unicode white space is covered through the
stdlib function itself rather than through the ASCII model): the accepted connection of
`server_stream_clean` reports exactly the dialled callsign. -/
theorem remoteCall_eq_call_of_laws (trim : Bytes → Bytes) (call : Bytes)
    (law_cr : trim (call ++ [13]) = trim call) (clean : trim call = call) :
    trim (call ++ [13]) = call := by rw [law_cr, clean]

/-- After the login, `Read` calls with any buffer sizes deliver a prefix of the stream and leave the
rest: reading neither drops nor reorders bytes (and a read returns ≥ 1 byte while any are left). -/
theorem reads_deliver_stream (c : Conn) (ns : List Nat) (h : ∀ n ∈ ns, 0 < n) :
    (Conn.readMany ns c).1 ++ (Conn.readMany ns c).2.stream = c.stream :=
  Conn.readMany_stream ns c h

theorem read_makes_progress (c : Conn) (n : Nat) (hn : 0 < n) (hd : c.drains = true)
    (hs : c.stream ≠ []) : (c.read n).1 ≠ [] :=
  Conn.read_progress hn c hd hs

/-- "Returns no later than `d`": a connection or an error at a time ≤ d; never blocked. -/
def ReturnsBy (d : Nat) : Dial → Prop
  | .conn _ _ t => t ≤ d
  | .fail _ _ t => t ≤ d
  | .hang _ => False
  | .fuel => False

/-- **dial_returns_by_deadline.** Whatever the server sends or fails to send — `chunks` (arbitrary
bytes at arbitrary times) and `close` (closes at some time, or stays silent for ever) are
universally quantified, as is the line classifier — `DialContext` whose context is done at `d`
(deadline, timeout or cancellation) returns, with a connection or an error, no later than `d`. -/
theorem dial_returns_by_deadline (classify : Bytes → Kind) (cfg : Cfg) (hcfg : cfg.loginDeadline = true)
    (close : Option Nat) (call pw : Bytes) (d now : Nat) (chunks : Chunks) (hnow : now ≤ d) :
    ReturnsBy d (dial classify cfg (some d) close call pw now chunks) := by
  obtain ⟨h1, h2, h3, h4⟩ := clientLoop_deadline classify close call pw d ((flat chunks).length + 1) []
    ⟨[], chunks, now⟩ hnow
  have hnf := clientLoop_nofuel classify (some d) close call pw ((flat chunks).length + 1) []
    ⟨[], chunks, now⟩ (by simp [Rd.stream])
  simp only [dial, hcfg, if_true]
  cases hl : clientLoop classify (some d) close call pw ((flat chunks).length + 1) [] ⟨[], chunks, now⟩ with
  | done w r =>
    have := h1 w r hl
    simp only
    split <;> exact this
  | stop dl =>
    simp only
    cases dl with
    | conn c w t => exact absurd hl (h4 c w t)
    | fail e w t => exact h2 e w t hl
    | hang w => exact absurd hl (h3 w)
    | fuel => exact absurd hl hnf

/-- The same for the code as extracted. -/
theorem dial_returns_by_deadline_code (close : Option Nat) (call pw : Bytes) (d now : Nat)
    (chunks : Chunks) (hnow : now ≤ d) :
    ReturnsBy d (dial goClassify codeCfg (some d) close call pw now chunks) :=
  dial_returns_by_deadline goClassify codeCfg (by rw [code_drains_and_bounds]) close call pw d now chunks hnow

/-- The model's own fuel always suffices (the `fuel` outcome is unreachable): the model is total. -/
theorem dial_total (classify : Bytes → Kind) (cfg : Cfg) (D close : Option Nat) (call pw : Bytes)
    (now : Nat) (chunks : Chunks) : dial classify cfg D close call pw now chunks ≠ .fuel := by
  have hnf := clientLoop_nofuel classify (if cfg.loginDeadline = true then D else none) close call pw
    ((flat chunks).length + 1) [] ⟨[], chunks, now⟩ (by simp [Rd.stream])
  simp only [dial]
  split
  · next dl hl => intro e; subst e; exact hnf hl
  · generalize (if cfg.loginDeadline = true then D else none) = D'
    split <;> simp

/-! ### The behaviour before the repairs (kept as proved negatives; witnesses replayed on the old
Go code by the harness' drill) -/

/-- "Password :\r" and the payload "HI" in one segment. -/
def coalesced : Chunks := [(0, callPrompt), (1, pwPrompt ++ [72, 73])]

/-- Returning the raw connection loses whatever was coalesced with the last login line … -/
theorem raw_conn_loses_coalesced :
    ∃ c w t, dial goClassify ⟨false, false, true⟩ none none [65] [66] 0 coalesced = .conn c w t ∧
      c.stream = [] ∧ c.lost = [72, 73] := by
  refine ⟨⟨false, [72, 73], [], cmsTargetCall⟩, [[65, 13], [66, 13]], 1, by decide +kernel, by decide, by decide⟩

/-- … on the server side as well (client coalesces password and payload). -/
theorem raw_conn_loses_coalesced_server :
    ∃ c, accept trimSpace ⟨false, false, true⟩ none [(0, [65, 13, 66, 13, 72, 73])] =
        .conn c none [callPrompt, pwPrompt] ∧ c.remoteCall = [65] ∧ c.stream = [] ∧ c.lost = [72, 73] := by
  refine ⟨⟨false, [72, 73], [], [65]⟩, by decide +kernel, by decide, by decide, by decide⟩

/-- Without the login deadline a silent server blocks the dial for ever, whatever the context says. -/
theorem no_deadline_hangs (classify : Bytes → Kind) (d : Nat) (call pw : Bytes) :
    dial classify ⟨true, true, false⟩ (some d) none call pw 0 [] = .hang [] := by
  simp [dial, clientLoop, readLine, readLineF, splitCR, recv]

/-! ### Non-vacuity: the theorems' hypotheses are satisfiable and the model computes -/

/-- Fixed code, same coalesced segment: the payload arrives. -/
example : ∃ c, dial goClassify ⟨true, true, true⟩ (some 100) none [65] [66] 0 coalesced =
    .conn c [[65, 13], [66, 13]] 1 ∧ c.stream = [72, 73] :=
  ⟨⟨true, [72, 73], [], cmsTargetCall⟩, by decide +kernel, by decide⟩

/-- Fixed code, prompts split byte by byte with the payload glued to the last byte. -/
example : ∃ c t, dial goClassify ⟨true, true, true⟩ none none [65] [66] 0
      ((callPrompt ++ pwPrompt.dropLast).map (fun b => (0, [b])) ++ [(0, [13, 72, 73])]) =
    .conn c [[65, 13], [66, 13]] t ∧ c.stream = [72, 73] :=
  ⟨⟨true, [72, 73], [], cmsTargetCall⟩, 0, by decide +kernel, by decide⟩

/-- Silent server, deadline 100: timeout AT 100. Server closing at 7: EOF at 7. Partial prompt then
silence: timeout at 100. -/
example : dial goClassify ⟨true, true, true⟩ (some 100) none [65] [66] 3 [] = .fail .timeout [] 100 := by
  decide +kernel
example : dial goClassify ⟨true, true, true⟩ (some 100) (some 7) [65] [66] 3 [] = .fail .eof [] 7 := by
  decide +kernel
example : dial goClassify ⟨true, true, true⟩ (some 100) none [65] [66] 3 [(5, callPrompt), (9, [80, 97])] =
    .fail .timeout [[65, 13]] 100 := by
  decide +kernel

/-- The server trims blanks around the callsign (observation covered by the oracle decision). -/
example : ∃ c, accept trimSpace ⟨true, true, true⟩ none [(0, [32, 65, 32, 13]), (0, [13, 90])] =
    .conn c none [callPrompt, pwPrompt] ∧ c.remoteCall = [65] ∧ c.stream = [90] :=
  ⟨⟨true, [90], [], [65]⟩, by decide +kernel, by decide, by decide⟩

/-- `Quiescent` is satisfiable (by the completed state), e.g. with everything delivered in one chunk
each way, or byte by byte. -/
example : Quiescent [65] [66] [72] [73, 74] [(0, callPrompt ++ pwPrompt ++ [73, 74])] [(0, [65, 13, 66, 13, 72])] :=
  ⟨by decide +kernel, by decide +kernel⟩
example : Quiescent [65] [66] [72] [73, 74] ((callPrompt ++ pwPrompt ++ [73, 74]).map (fun b => (0, [b])))
    ([65, 13, 66, 13, 72].map (fun b => (0, [b]))) :=
  ⟨by decide +kernel, by decide +kernel⟩

/-- … and NOT by an intermediate state: the listener blocked after its first prompt with the
dialler's answer undelivered is not quiescent (something is in flight). -/
example : ¬ Quiescent [65] [66] [72] [73, 74] [(0, callPrompt)] [] := by
  intro q
  have := q.server_has_all
  revert this
  decide +kernel

end Wl2k.Props.C15
