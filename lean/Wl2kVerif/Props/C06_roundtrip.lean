import Wl2kVerif.Proofs.LzRound
import Wl2kVerif.Props.C06
import Wl2kVerif.Props.C08_reader
/-
C06 — LZHUF compression is lossless: the round trip, for EVERY input below 2 GiB, either header format and
EVERY sequence of buffer sizes.  Models: `Lzhuf/{Huff,Tree,Writer,Reader}.lean` (fixed; tied to the Go code by
state-digest correspondence).  The proof composes four layers (helper files `Proofs/Lz*.lean`):
  bits      `Proofs/Bits.lean`, `Proofs/LzPos.lean`   (`position_roundtrip`)
  Huffman   `Proofs/Huff*.lean`                        (`Props.C06.symbol_roundtrip`, `Props.C08.huffWF_reachable`)
  tokens    `Proofs/LzTok.lean` (decoder = abstract LZ77 `lzDecode`), `Proofs/LzEnc.lean` (encoder emits
            `encTokens (tokensOf x)`)
  window    `Proofs/LzForest.lean`, `LzTree.lean`, `LzTree2.lean` (local forest invariant of the search trees),
            `Proofs/LzValid.lean` (`tokens_valid`: every match the encoder reports refers to equal bytes)
Vocabulary: `Token = lit b | mat len pos`; `lzDecode ts` = what a token list stands for, over a history that
starts as the decoder's window (`initHist`: 60 zero bytes, then 1988 spaces); `tokensOf crc16 x` = the tokens
the compressor emits for `x` (a ghost run of the same `Writer` that records each `encode` call);
`encTokens h ts` = their bit string under the evolving Huffman state; `readsWith d ns` / `errsWith d ns` =
data and error results of successive `Read`s with buffer sizes `ns` (`Proofs/Reader.lean`).
-/
namespace Wl2k.Props.C06
open Wl2k Wl2k.Lzhuf Wl2k.Bits

/-! ### 1. positions -/

/-- **`decodePosition ∘ encodePosition = id`** at bit level: for a 12-bit position `c`, the writer appends
`posBits c`; a reader whose unread bits start with `posBits c` gets `c` back and is left with exactly the
rest; bit-layer invariant kept, no error flag touched, Huffman state and everything else untouched. -/
theorem position_roundtrip (w : Writer) (d : Reader) (c : Nat) (hc : c < 4096) (winv : BitsInv w) (rinv : RInv d)
    (rest : List Bool) (hu : unreadBits d = posBits c ++ rest) :
    bitsOf (w.encodePosition c) = bitsOf w ++ posBits c ∧ BitsInv (w.encodePosition c) ∧
    d.decodePosition.2 = c ∧ unreadBits d.decodePosition.1 = rest ∧ RInv d.decodePosition.1 ∧
    d.decodePosition.1.berr = d.berr ∧ rSameRest d d.decodePosition.1 := by
  obtain ⟨a1, a2⟩ := encodePosition_posBits w c winv hc
  obtain ⟨b1, b2, b3, b4, -, b6⟩ := Lzhuf.position_roundtrip d c hc rinv rest hu
  exact ⟨a1, a2, b1, b2, b3, b4, b6⟩

/-! ### 2. the decoder implements the abstract LZ77 semantics -/

/-- **One token.** A reader (well-formed Huffman state, window holding the last `N` bytes of the history `H`)
whose unread bits start with the encoding of the well-formed token `t`, with room for it below the declared
size, decodes exactly the bytes `t` stands for; Huffman state, window and bit position move on. -/
theorem token_decodes (d : Reader) (H : Bytes) (t : Token) (ok : t.ok) (w : HuffWF d.h) (inv : RInv d)
    (wi : WinInv d H) (rest : List Bool) (hu : unreadBits d = tokBits d.h t ++ rest)
    (hs : (d.pos : Int) + t.len ≤ d.size) :
    d.tok.2 = (lzStep H t).drop H.length ∧ WinInv d.tok.1 (lzStep H t) ∧ d.tok.1.h = update d.h t.sym ∧
    RInv d.tok.1 ∧ unreadBits d.tok.1 = rest ∧ d.tok.1.pos = d.pos + t.len := by
  obtain ⟨a, b, c, e, f, g, -⟩ := tok_spec d H t ok w inv wi rest hu hs
  exact ⟨a, b, c, e, f, g⟩

/-- **The decoder implements `lzDecode`.** A new reader on a stream whose body spells `encTokens Huff.init ts`
(every token well-formed) plus fewer than 8 padding bits, whose declared size is `|lzDecode ts|` and whose CRC
(if present) is right: ANY sequence of `Read`s that reaches an error return (`io.EOF` included) has returned
exactly `lzDecode ts`, and `Close` reports success. -/
theorem decoder_implements_lzDecode (crc16 : Bool) (s : Bytes) (d : Reader) (hnew : Reader.new crc16 s = .ok d)
    (ts : List Token) (ok : ∀ t ∈ ts, t.ok) (pad : List Bool) (hpad : pad.length < 8)
    (hbits : bytesBits d.src.toList = encTokens Huff.init ts ++ pad)
    (hsize : d.size = ((lzDecode ts).length : Nat))
    (hcrc : crc16 = true → d.hcrc = crc (d.sizeBytes ++ d.src.toList))
    (ns : List Nat) (hend : ∃ e, some e ∈ errsWith d ns) :
    (readsWith d ns).2 = lzDecode ts ∧ (readsWith d ns).1.close = none :=
  decode_tokens crc16 s d hnew ts ok pad hpad hbits hsize hcrc ns hend

/-! ### 3. the encoder emits the encoding of its tokens -/

/-- **Header**: little-endian CRC-16 over size ++ body (when enabled), the little-endian 32-bit input length,
then the body (cf. `Props.C07.header_canonical`). -/
theorem compress_header (crc16 : Bool) (x : Bytes) :
    compress crc16 x =
      (if crc16 then le16 (crc (le32 (x.length % 4294967296) ++ bodyOf crc16 x)) else [])
        ++ le32 (x.length % 4294967296) ++ bodyOf crc16 x :=
  compress_eq crc16 x

/-- **Body**: the body bits are exactly the concatenated encodings of `tokensOf crc16 x` under the evolving
Huffman state (literal: `codeBits h b`; match: `codeBits h (253 + len) ++ posBits pos`), padded with fewer
than 8 zero bits; every token is well-formed (`THRESHOLD < len ≤ F`, `pos < 4096`). -/
theorem compress_body_tokens (crc16 : Bool) (x : Bytes) :
    ∃ pad : List Bool, pad.length < 8 ∧ (∀ b ∈ pad, b = false) ∧
      bytesBits (bodyOf crc16 x) = encTokens Huff.init (tokensOf crc16 x) ++ pad ∧
      ∀ t ∈ tokensOf crc16 x, t.ok :=
  compress_bits crc16 x

/-! ### 4. token validity (the search trees) -/

/-- **Every match the encoder reports refers to bytes equal to the look-ahead**: the tokens emitted for `x`
stand for `x`. (Invariant: `Lzhuf.WInv` — window contents, mirror region, which nodes may be live, the
local forest invariant `Lzhuf.TreeInv` with "first byte at insertion time" as class ghost.) -/
theorem tokens_valid (crc16 : Bool) (x : Bytes) : lzDecode (tokensOf crc16 x) = x :=
  Lzhuf.tokens_valid crc16 x

/-! ### 5. the round trip -/

/-- **`roundtrip`** — for every input `x` with `|x| < 2^31` (the `int32` size field) and either header
format: `NewReader` accepts `compress crc16 x`; its declared size is `|x|`; and ANY sequence of `Read`s, with
ANY buffer sizes, that reaches an error return (`io.EOF` included) has returned exactly `x`, after which
`Close` returns nil. -/
theorem roundtrip (crc16 : Bool) (x : Bytes) (hx : x.length < 2 ^ 31) :
    ∃ d, Reader.new crc16 (compress crc16 x) = .ok d ∧ d.size = (x.length : Int) ∧
      ∀ ns : List Nat, (∃ e, some e ∈ errsWith d ns) →
        (readsWith d ns).2 = x ∧ (readsWith d ns).1.close = none :=
  roundtrip_full crc16 x (by simpa using hx)

/-- … in particular for every sequence of more than `|x|` NON-EMPTY buffers (such a sequence always
reaches the end, `Props.C08.read_terminates_index`). -/
theorem roundtrip_sizes (crc16 : Bool) (x : Bytes) (hx : x.length < 2 ^ 31) (d : Reader)
    (hd : Reader.new crc16 (compress crc16 x) = .ok d) (ns : List Nat) (hpos : ∀ n ∈ ns, 0 < n)
    (hlen : x.length < ns.length) :
    (readsWith d ns).2 = x ∧ (readsWith d ns).1.close = none := by
  obtain ⟨d', h1, h2, h3⟩ := roundtrip crc16 x hx
  have : d' = d := by rw [hd] at h1; exact (Except.ok.inj h1).symm
  subst this
  apply h3
  obtain ⟨k, e, -, hk⟩ := Wl2k.Props.C08.read_terminates_index crc16 _ d' ns hd hpos (by rw [h2]; omega)
  exact ⟨e, List.mem_of_getElem? hk⟩

/-- … and on the way no `Read` returns any error other than `io.EOF`. -/
theorem roundtrip_errors_eof (crc16 : Bool) (x : Bytes) (hx : x.length < 2 ^ 31) (d : Reader)
    (hd : Reader.new crc16 (compress crc16 x) = .ok d) (ns : List Nat) (hend : ∃ e, some e ∈ errsWith d ns) :
    ∀ e, some e ∈ errsWith d ns → e = .eof :=
  roundtrip_only_eof crc16 x (by simpa using hx) d hd ns hend

/-- … and for a single `Read` into a buffer of at least `|x|` bytes followed by `Close` (`readAll` of
`Props/C06.lean`). -/
theorem roundtrip_readAll (crc16 : Bool) (x : Bytes) (hx : x.length < 2 ^ 31) (m : Nat) (hm : x.length ≤ m) :
    readAll crc16 (compress crc16 x) m = some (x, none) := by
  obtain ⟨d, h1, h2, h3⟩ := roundtrip_one_read crc16 x (by simpa using hx) m hm
  unfold readAll
  rw [h1]
  dsimp only
  rw [h2, h3]

/-! ### non-vacuity -/

/-- the abstract semantics: a literal and an overlapping match of distance 1 -/
example : lzDecode [.lit 65, .mat 3 0] = [65, 65, 65, 65] := by decide +kernel
/-- a match into the pre-start window (spaces) -/
example : lzDecode [.mat 3 59] = [32, 32, 32] := by decide +kernel
/-- position bits: prefix code of the upper six bits, lower six verbatim -/
example : posBits 0 = [false, false, false, false, false, false, false, false, false] ∧
    (posBits 4095).length = 14 := by decide +kernel
/-- the hypothesis of `roundtrip` is satisfiable (and the empty input gives the 4-byte stream) -/
example : compress false [] = [0, 0, 0, 0] ∧ ([] : Bytes).length < 2 ^ 31 := by decide +kernel

end Wl2k.Props.C06
