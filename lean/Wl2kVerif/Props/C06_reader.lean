import Wl2kVerif.Proofs.Reader
/-
C06 (reader half) — the decompressed stream does not depend on the sizes of the buffers passed to `Read`.
Model: `Lzhuf/Reader.lean`; proof via the token-level stream relation `Run` of `Proofs/Reader.lean`
(`Read` with any buffer sizes walks the same token stream lazily; bytes of a token that do not fit wait in
`pending`). Holds for EVERY reader state; no Huffman-tree invariant is used.
-/
namespace Wl2k.Props.C06
open Wl2k Wl2k.Lzhuf

/-- **`read_sizes_indep`** — take any reader state `d` and any two sequences of buffer sizes (zero sizes
allowed) that both read to the end, i.e. until some `Read` returned an error (`io.EOF` included).  Then
* `Close` returns the same verdict after both,
* the two final states agree in every field except possibly `pending`,
* the bytes returned by one sequence are a prefix of the bytes returned by the other, and
* if `Close` reports success (or merely: both final `pending` buffers are empty) the bytes are EQUAL.
(For corrupt streams the data can genuinely differ — see `read_sizes_data_differ_blank` — because an
error discards the bytes still waiting in `pending`.) -/
theorem read_sizes_indep (d : Reader) (ns₁ ns₂ : List Nat)
    (h₁ : ∃ e, some e ∈ errsWith d ns₁) (h₂ : ∃ e, some e ∈ errsWith d ns₂) :
    (readsWith d ns₁).1.close = (readsWith d ns₂).1.close ∧
    ({ (readsWith d ns₁).1 with pending := [] } : Reader) = { (readsWith d ns₂).1 with pending := [] } ∧
    ((readsWith d ns₁).2 <+: (readsWith d ns₂).2 ∨ (readsWith d ns₂).2 <+: (readsWith d ns₁).2) ∧
    ((readsWith d ns₁).1.pending = [] → (readsWith d ns₂).1.pending = [] →
      (readsWith d ns₁).2 = (readsWith d ns₂).2) ∧
    ((readsWith d ns₁).1.close = none → (readsWith d ns₁).2 = (readsWith d ns₂).2) := by
  obtain ⟨c₁, b₁, r₁, e₁, s₁, p₁⟩ := readsWith_run d ns₁ h₁
  obtain ⟨c₂, b₂, r₂, e₂, s₂, p₂⟩ := readsWith_run d ns₂ h₂
  obtain ⟨hc, hb⟩ := Run.det r₁ r₂
  subst hc; subst hb
  have hcore : ({ (readsWith d ns₁).1 with pending := [] } : Reader) = { (readsWith d ns₂).1 with pending := [] } :=
    e₁.trans e₂.symm
  have hclose := close_eq_of_core_eq _ _ hcore p₁ p₂
  have hdata : (readsWith d ns₁).2 ++ (readsWith d ns₁).1.pending = (readsWith d ns₂).2 ++ (readsWith d ns₂).1.pending :=
    s₁.symm.trans s₂
  have hboth : (readsWith d ns₁).1.pending = [] → (readsWith d ns₂).1.pending = [] →
      (readsWith d ns₁).2 = (readsWith d ns₂).2 := by
    intro q₁ q₂
    rw [q₁, q₂, List.append_nil, List.append_nil] at hdata
    exact hdata
  refine ⟨hclose, hcore, ?_, hboth, ?_⟩
  · rcases List.append_eq_append_iff.mp hdata with ⟨a, ha, -⟩ | ⟨a, ha, -⟩
    · exact Or.inl ⟨a, ha.symm⟩
    · exact Or.inr ⟨a, ha.symm⟩
  · intro hn
    have hn₂ : (readsWith d ns₂).1.close = none := hclose ▸ hn
    have q : ∀ x : Reader, x.close = none → (x.err.isSome ∨ x.pending = []) → x.pending = [] := by
      intro x hx hp
      rcases hp with hp | hp
      · exact absurd hx (close_ne_none_of_err x hp)
      · exact hp
    exact hboth (q _ hn p₁) (q _ hn₂ p₂)

/-- Special case: a new reader, one big `Read` followed by a probe versus any other sequence that reads
to the end — same `Close` verdict, and the same bytes whenever `Close` reports success. -/
theorem read_sizes_indep_new (crc16 : Bool) (s : Bytes) (d : Reader) (ns₁ ns₂ : List Nat)
    (_h : Reader.new crc16 s = .ok d)
    (h₁ : ∃ e, some e ∈ errsWith d ns₁) (h₂ : ∃ e, some e ∈ errsWith d ns₂) :
    (readsWith d ns₁).1.close = (readsWith d ns₂).1.close ∧
    ((readsWith d ns₁).1.close = none → (readsWith d ns₁).2 = (readsWith d ns₂).2) :=
  ⟨(read_sizes_indep d ns₁ ns₂ h₁ h₂).1, (read_sizes_indep d ns₁ ns₂ h₁ h₂).2.2.2.2⟩

/-! ### the data clause cannot be strengthened: corrupt streams -/

/-- **Negative result (witness).** The unconditional statement "the bytes returned do not depend on the
buffer sizes" is FALSE: when the bit reader runs dry (or a match overruns the declared size) while
decoded bytes are still waiting in `pending`, the next `Read` returns the error and those bytes are never
delivered. Here an 8-byte match decoded from an exhausted source: one 8-byte buffer receives 8 bytes, two
1-byte reads receive 1 byte; both then get ErrUnexpectedEOF and the same `Close` verdict.
The same happens with real streams (evaluated with `#eval` on the model and replayed on the Go code):
`08 00 00 00 f6 c8 00` (= `compress false "aaaaaaaa"` minus its last byte) yields 8 bytes through a 4096-byte
buffer and 2 bytes through 1-byte buffers; `05 00 00 00 f6 c8 00 00` (size patched 8 → 5) yields 5 bytes
then io.EOF through a big buffer, 2 bytes then ErrChecksum through 1-byte buffers. -/
theorem read_sizes_data_differ_blank :
    ∃ (d : Reader) (ns₁ ns₂ : List Nat),
      (∃ e, some e ∈ errsWith d ns₁) ∧ (∃ e, some e ∈ errsWith d ns₂) ∧
      (readsWith d ns₁).2 ≠ (readsWith d ns₂).2 := by
  refine ⟨toy [] 8 261, [8, 1], [1, 1], ⟨.unexpectedEOF, ?_⟩, ⟨.unexpectedEOF, ?_⟩, ?_⟩
  · decide +kernel
  · decide +kernel
  · decide +kernel

/-! ### non-vacuity -/

/-- two different buffer-size sequences over the same (valid) two-match stream: same bytes, `Close` = nil -/
example : runToy (toy [0, 0, 0, 0, 0, 0, 0, 0, 0] 10 258) [1, 7, 4, 4] =
    ([7, 7, 7, 7, 7, 7, 7, 7, 7, 7], none, [none, none, none, some .eof], []) := by decide +kernel
example : runToy (toy [0, 0, 0, 0, 0, 0, 0, 0, 0] 10 258) [3, 0, 3, 3, 3, 3] =
    ([7, 7, 7, 7, 7, 7, 7, 7, 7, 7], none, [none, none, none, none, none, some .eof], []) := by decide +kernel
/-- the witness of `read_sizes_data_differ_blank` in full -/
example : runToy (toy [] 8 261) [8, 1] =
    ([7, 7, 7, 7, 7, 7, 7, 7], some .unexpectedEOF, [none, some .unexpectedEOF], []) := by decide +kernel
example : runToy (toy [] 8 261) [1, 1] =
    ([7], some .unexpectedEOF, [none, some .unexpectedEOF], [7, 7, 7, 7, 7, 7, 7]) := by decide +kernel

end Wl2k.Props.C06
