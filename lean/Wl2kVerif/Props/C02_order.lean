import Wl2kVerif.Proofs.PairFetch
import Wl2kVerif.Proofs.PairBridge
import Wl2kVerif.Proofs.PairCausal
/-
C02 — ordering obligations of the confirmation protocol (the property's own example mutation:
"SetSent moved above the Peek").

Sender: `SetSent(mid, false)` is called only after the peek that saw the first byte of the receiver's
NEXT turn ('F', or ';' of a comment line), and after that peek nothing else happens in that turn.
Receiver: `handleInbound` writes nothing after its `FS` answer line, and returns without error only
after every accepted message went through `parseMessage` and `processInbound` without error.

Program-level theorems quantify over ALL paths of the program tree (any remote bytes incl. EOF at any
point, any handler replies); the run-level ones are their corollaries for `Proc.run`.
Traces are stored newest-first, so in `tr = cs ++ e :: pre` the events `cs` happened AFTER `e`, `pre` BEFORE.
-/
namespace Wl2k.Props.C02
open Wl2k Wl2k.B2F

/-- **Program level (sender).** Along every path of `handleOutbound`: no `SetSent(_, false)` call before
a peek that saw 'F' or ';', and after such a peek nothing but `SetSent(_, false)` calls (monitor `outδ`). -/
theorem confirm_before_sent_prog (c : Cfg) (fuel : Nat) (st : SState) :
    Accepts outδ (fun _ _ => True) false (handleOutbound c fuel st) :=
  handleOutbound_outδ c fuel st

/-- **Run level (sender).** In the event trace of ANY run of `handleOutbound` (any input, any handler):
either no message is reported sent, or the trace is — latest first — `SetSent(_, false)` calls, then a
peek of 'F' or ';', then an earlier part (all writes of the turn are there) without any such call. -/
theorem confirm_before_sent {H : Type} (hstep : H → Call → H × Reply) (c : Cfg) (fuel : Nat) (st : SState)
    (inp : Bytes) (h : H) :
    let tr := (Proc.run hstep (handleOutbound c fuel st) inp h []).2.2.2
    (∀ e ∈ tr, e.isConfirm = false) ∨
    ∃ (cs : List Ev) (b : UInt8) (pre : List Ev), tr = cs ++ .peeked b :: pre ∧ (b = 70 ∨ b = 59) ∧
      (∀ e ∈ cs, ∃ m, e = .called (.setSent m false)) ∧ (∀ e ∈ pre, e.isConfirm = false) := by
  intro tr
  obtain ⟨s', hm, _⟩ := run_accepts hstep (handleOutbound_outδ c fuel st) inp h [] false rfl
  cases s' with
  | false => exact Or.inl (mon_outδ_false _ hm)
  | true =>
    obtain ⟨cs, b, pre, h1, h2, h3, h4⟩ := mon_outδ_true _ hm
    refine Or.inr ⟨cs, b, pre, h1, ?_, h3, h4⟩
    simpa [isGo] using h2

/-- **Program level, whole session.** Along every path of `exchange` (all turns): a `SetSent(_, false)`
call happens only while "armed" — the most recent I/O event is a peek that saw 'F' or ';'. -/
theorem confirm_before_sent_session_prog (c : Cfg) (fuel : Nat) :
    Accepts armedδ (fun _ _ => True) false (exchange c fuel) :=
  exchange_armedδ c fuel

/-- **Run level, whole session.** In ANY run of `exchange`, whatever immediately precedes a
`SetSent(m, false)` event is handler calls only, back to a peek that saw 'F' or ';' — in particular no
write lies between that peek and the call. -/
theorem confirm_before_sent_session {H : Type} (hstep : H → Call → H × Reply) (c : Cfg) (fuel : Nat)
    (inp : Bytes) (h : H) (post pre : List Ev) (m : Bytes)
    (hsplit : (Proc.run hstep (exchange c fuel) inp h []).2.2.2 = post ++ .called (.setSent m false) :: pre) :
    ∃ (cs : List Ev) (b : UInt8) (pre' : List Ev), pre = cs ++ .peeked b :: pre' ∧ (b = 70 ∨ b = 59) ∧
      (∀ e ∈ cs, ∃ c, e = .called c) := by
  obtain ⟨s', hm, _⟩ := run_accepts hstep (exchange_armedδ c fuel) inp h [] false rfl
  obtain ⟨cs, b, pre', h1, h2, h3⟩ := armedδ_spec _ s' hm post pre m hsplit
  exact ⟨cs, b, pre', h1, by simpa [isGo] using h2, h3⟩

/-- **Program level (receiver).** `fetchAll` — everything between the `FS` line and the end of the
receiver's turn — contains no write node. -/
theorem fetch_writes_nothing (fuel : Nat) (ps : List Proposal) (st : SState) : Shape NoWrite (fetchAll fuel ps st) :=
  fetchAll_shape ⟨trivial, fun _ => trivial⟩ (fun _ => trivial) (fun _ => trivial) fuel ps st

/-- **Program level (receiver).** Along every path of `handleInbound`: answer calls, then at most ONE
write, which starts with "FS ", then nothing but `parseMessage` / `processInbound` calls (monitor `inδ`). -/
theorem answer_then_fetch_prog (c : Cfg) (fuel : Nat) (st : SState) :
    Accepts inδ (fun _ _ => True) .ask (handleInbound c fuel st) :=
  handleInbound_inδ c fuel st

/-- **Run level (receiver).** The trace of ANY run of `handleInbound` is — latest first — parse/process
calls `fs`, then `ws` = nothing or the one `FS …` write, then the handler's answer calls `as`. -/
theorem answer_then_fetch {H : Type} (hstep : H → Call → H × Reply) (c : Cfg) (fuel : Nat) (st : SState)
    (inp : Bytes) (h : H) :
    ∃ (fs ws as : List Ev), (Proc.run hstep (handleInbound c fuel st) inp h []).2.2.2 = fs ++ ws ++ as ∧
      (∀ e ∈ fs, e.isFetchCall = true) ∧
      (ws = [] ∨ ∃ bs, ws = [.wrote bs] ∧ fsPrefix.isPrefixOf bs = true) ∧
      (∀ e ∈ as, e.isAnswerCall = true) := by
  obtain ⟨s', hm, _⟩ := run_accepts hstep (handleInbound_inδ c fuel st) inp h [] .ask rfl
  obtain ⟨fs, ws, as, h1, h2, h3, h4, _⟩ := inδ_spec _ s' hm
  exact ⟨fs, ws, as, h1, h2, h3, h4⟩

/-- **Run level (receiver).** If `handleInbound` returns WITHOUT error — the only way the receiver gets to
write the first byte of its next turn — then every accepted proposal of the block was fetched, decoded
(`lzDecode … = some d`), handed to `parseMessage` and `processInbound` in order, each call returned
without error (`AllOK`), and these calls are the last events of the turn (`deliverEvs`). -/
theorem processed_before_next_turn {H : Type} (hstep : H → Call → H × Reply) (c : Cfg) (fuel : Nat) (st : SState)
    (inp : Bytes) (h : H) (tr : List Ev) (q : Bool) (st' : SState) (inp' : Bytes) (h' : H) (tr' : List Ev)
    (hr : Proc.run hstep (handleInbound c fuel st) inp h tr = (.done (q, st', none), inp', h', tr')) :
    ∃ (props : List Proposal) (st1 : SState) (inp1 : Bytes) (h1 : H) (tr1 : List Ev) (datas : List Bytes),
      Proc.run hstep (inboundLoop c fuel fuel [] 0 st) inp h tr = (.done (.ok (q, props, st1)), inp1, h1, tr1) ∧
      datas.length = (accepted props).length ∧
      st'.received = st1.received ++ (accepted props).map (·.mid) ∧
      tr' = deliverEvs datas ++ tr1 ∧
      h' = datas.foldl (deliverStep hstep) h1 ∧
      AllOK hstep h1 datas ∧
      (∀ d ∈ datas, ∃ cdata, lzDecode cdata = some d) :=
  handleInbound_done_none hstep c fuel st inp h tr q st' inp' h' tr' hr

/-- **Causal prefix (pair model, any schedule, any cut on either side).** In every reachable state of
a pair run, each side's events so far are an initial segment in time of `Proc.run` of its `exchange`
program on some prefix `J` of what the peer has written so far; a side that has returned has exactly the
outcome of that run. (So every single-process theorem about `Proc.run (exchange …)` on arbitrary input —
`returns_after_cut`, `handed_is_verified`, the confirmation rule — holds for both ends of every faulty
pair run.) -/
theorem causal_prefix (ca cb : Cfg) (ha hb : HState) (limA limB : Option Nat) (fuel : Nat) {n : Nat} {t : Side × Side}
    (he : PairExec (initPair (exchange ca fuel) (exchange cb fuel) ha hb limA limB) n t) :
    (∃ J, J <+: outBytes t.2.evs ∧ (∃ post, (Proc.run hstep (exchange ca fuel) J ha []).2.2.2 = post ++ t.1.evs) ∧
      (∀ e, t.1.ended = some e → (Proc.run hstep (exchange ca fuel) J ha []).1 = e ∧
        (Proc.run hstep (exchange ca fuel) J ha []).2.2 = (t.1.h, t.1.evs))) ∧
    (∃ J, J <+: outBytes t.1.evs ∧ (∃ post, (Proc.run hstep (exchange cb fuel) J hb []).2.2.2 = post ++ t.2.evs) ∧
      (∀ e, t.2.ended = some e → (Proc.run hstep (exchange cb fuel) J hb []).1 = e ∧
        (Proc.run hstep (exchange cb fuel) J hb []).2.2 = (t.2.h, t.2.evs))) :=
  pair_causal _ _ ha hb limA limB he

/-- **The confirmation rule in the pair model.** In every reachable state of every pair run (any
schedule, any `limit` on either side): whatever immediately precedes a `SetSent(m, false)` event in a
side's trace is handler calls only, back to a peek that saw 'F' or ';'. -/
theorem pair_confirm_before_sent (ca cb : Cfg) (ha hb : HState) (limA limB : Option Nat) (fuel : Nat) {n : Nat}
    {t : Side × Side} (he : PairExec (initPair (exchange ca fuel) (exchange cb fuel) ha hb limA limB) n t)
    (post pre : List Ev) (m : Bytes) (hsplit : t.1.evs = post ++ .called (.setSent m false) :: pre) :
    ∃ (cs : List Ev) (b : UInt8) (pre' : List Ev), pre = cs ++ .peeked b :: pre' ∧ (b = 70 ∨ b = 59) ∧
      (∀ e ∈ cs, ∃ c, e = .called c) := by
  obtain ⟨s, hs⟩ := pair_accepts _ _ ha hb limA limB he (exchange_armedδ ca fuel)
  obtain ⟨cs, b, pre', h1, h2, h3⟩ := armedδ_spec _ s hs post pre m hsplit
  exact ⟨cs, b, pre', h1, by simpa [isGo] using h2, h3⟩

/-- `pairRun` starts from `initPair`, so the two theorems above apply to its result. -/
theorem pairRun_reachable (ca cb : Cfg) (ha hb : HState) (limA limB : Option Nat) (fuel : Nat) :
    ∃ n, PairExec (initPair (exchange ca fuel) (exchange cb fuel) ha hb limA limB) n (pairRun ca cb ha hb limA limB fuel) :=
  pairLoop_exec fuel fuel _ _

/-- **`sent_implies_received_partial`** (C02 headline, one block). Pair model of `Pair.lean`, reference
handlers, ANY schedule, ANY `limit` (link cut after k bytes) on either side. Side A runs one sender turn
(`handleOutbound` from session state `stA`, then returns); side B runs the REAL rest of a session that
starts with the matching receiver turn (`restOfSession cb fuel (nB+1) false stB` = `turns` + `finish`:
`handleInbound`, then on error the "*** …" echo / connection-lost return, otherwise B's own turns).
In every reachable state: if A's trace contains `SetSent(m, false)`, then `m` is the MID of a message in
A's outbox whose queued bytes `msg.data` B's handler has ALREADY been handed by `processInbound`.

PARTIAL in two respects. (1) `MsgOK.hrt`: the LZHUF round trip
`lzDecode (Lzhuf.compress true msg.data) = some msg.data` for the offered messages is a HYPOTHESIS (C06's
theorem is not available yet); the other fields of `MsgOK` are validity conditions (MID without
blank/CR, sizes < 2^63, Q-title without NUL and ≤ 252 bytes, fuel). (2) It is the inductive step of the
session-level statement: both sides start at a turn boundary with empty queues. Lifting it to
`pairRun` of two whole `exchange` programs needs the alignment lemma `turn_boundary_aligned` (handshake and
every completed turn leave both queues empty with the sides at complementary turn starts) — not proved. -/
theorem sent_implies_received_partial (ca cb : Cfg) (fuel nB : Nat) (stA stB : SState)
    (fA : Except SErr (Bool × SState) → Result) (hA hB : HState) (limA limB : Option Nat)
    (hhA : ca.hasHandler = true) (hnb : cb.batched = false) (hpol : ∀ x ∈ hB.policy, PlainAnswer x.2)
    (hqB : stB.quitReceived = false ∧ stB.quitSent = false)
    (hne : blockOf' ca (offered hA) ≠ []) (hmsg : ∀ msg ∈ offered hA, MsgOK fuel msg)
    (hf5 : 5 < fuel) (hfN : (blockOf' ca (offered hA)).length + 3 < fuel)
    (hm1 : 1 ≤ ca.maxMsgLen) (hm2 : ca.maxMsgLen ≤ 255)
    {n : Nat} {t : Side × Side}
    (he : PairExec (initPair ((handleOutbound ca fuel stA).bind fun r => Proc.ret (fA r))
      (restOfSession cb fuel (nB + 1) false stB) hA hB limA limB) n t)
    (m : Bytes) (hsent : Ev.called (.setSent m false) ∈ t.1.evs) :
    ∃ msg ∈ hA.outbox, msg.mid = m ∧ Ev.called (.processInbound msg.data) ∈ t.2.evs := by
  rw [restOfSession_recv cb fuel nB stB hqB.1 hqB.2] at he
  exact turn_sent_implies_received_ref ca cb fuel stA stB fA _ hA hB limA limB hhA hnb hpol hne hmsg hf5 hfN hm1 hm2 he m hsent

/-- the same for arbitrary handlers' data (`dataOf`) and an ARBITRARY continuation of the receiver after a
successful turn; the hypotheses on the block are `BlockOK` -/
theorem sent_implies_received_block_partial (ca cb : Cfg) (fuel : Nat) (stA stB : SState)
    (fA : Except SErr (Bool × SState) → Result) (kOK : Bool → SState → Proc Result)
    (hA hA1 hB : HState) (out : List OutMsg) (limA limB : Option Nat) (dataOf : Proposal → Bytes)
    (hhA : ca.hasHandler = true) (hget : hstep hA (.getOutbound stA.remoteFW) = (hA1, .msgs out))
    (hok : BlockOK ca fuel dataOf (blockOf' ca out))
    (hans : AnswersPlainAt hstep hB) (hnb : cb.batched = false)
    {n : Nat} {t : Side × Side}
    (he : PairExec (initPair ((handleOutbound ca fuel stA).bind fun r => Proc.ret (fA r))
      ((handleInbound cb fuel stB).bind (afterInbound kOK)) hA hB limA limB) n t)
    (m : Bytes) (hsent : Ev.called (.setSent m false) ∈ t.1.evs) :
    ∃ p ∈ blockOf' ca out, p.mid = m ∧ Ev.called (.processInbound (dataOf p)) ∈ t.2.evs :=
  turn_sent_implies_received ca cb fuel stA stB fA kOK hA hA1 hB out limA limB dataOf hhA hget hok hans hnb he m hsent

/-- element lemmas proved on the way (no longer hypotheses): the proposal line round trip … -/
theorem proposal_line_roundtrip (mid : Bytes) (size csize : Nat) (hmid : (32 : UInt8) ∉ mid)
    (hs : (size : Int) ≤ Strconv.maxInt64) (hc : (csize : Int) ≤ Strconv.maxInt64) :
    parseProposal (proposalLine 67 (sb "EM") mid (size : Int) (csize : Int)) =
      some { code := 67, msgType := sb "EM", mid := mid, size := (size : Int), csize := (csize : Int) } :=
  B2F.proposal_line_roundtrip mid size csize hmid hs hc

/-- … the frame reader on ANY prefix of a frame returns, if anything, the payload sent … -/
theorem frame_prefix_sound {H : Type} (hstep : H → Call → H × Reply) (m : Nat) (hm1 : 1 ≤ m) (hm2 : m ≤ 255)
    (qtitle d rest : Bytes) (hq : (0 : UInt8) ∉ qtitle) (hlen : qtitle.length + 3 < 256)
    (p : Proposal) (hoff : p.offset = 0) (fuel : Nat) (hfuel : qtitle.length + d.length + 4 < fuel) (h : H) (tr : List Ev)
    (J : Bytes) (hJ : J <+: frameOf m qtitle d ++ rest) (d' J' : Bytes) (h' : H) (tr' : List Ev)
    (hr : Proc.run hstep (readCompressed fuel p) J h tr = (.done (.ok d'), J', h', tr')) :
    d' = d ∧ J' <+: rest :=
  readCompressed_prefix_ok hstep m hm1 hm2 qtitle d rest hq hlen p hoff fuel hfuel h tr J hJ d' J' h' tr' hr

/-- … and the compressed stream with CRC has at least its 6 header bytes. -/
theorem compress_length_ge_6 (x : Bytes) : 6 ≤ (Lzhuf.compress true x).length := Lzhuf.compress_length_ge_6 x

/-! ### non-vacuity and the mutation, on small hand-made programs
(kernel evaluation of a real `handleOutbound` run needs an LZHUF compression in the kernel; the monitor
and `run_accepts` are generic, so they are exercised on two 4-node programs with the shape of the tail
of `handleOutbound`: the original order and the mutant "SetSent moved above the Peek".) -/

def tailGood : Proc Unit :=
  .write [4, 0] (.peek fun o =>
    match o with
    | none => .ret ()
    | some b => if b ≠ 70 ∧ b ≠ 59 then .ret () else .call (.setSent [77] false) fun _ => .ret ())

def tailMutant : Proc Unit :=
  .write [4, 0] (.call (.setSent [77] false) fun _ => .peek fun _ => .ret ())

def unitStep : Unit → Call → Unit × Reply := fun _ _ => ((), .unit)

/-- the original order is accepted as a program … -/
example : Accepts outδ (fun _ _ => True) false tailGood := by
  refine Accepts.write _ _ _ false rfl (Accepts.peek _ _ (fun b => isGo b) (Accepts.ret _ _ trivial) (fun _ => rfl) ?_)
  intro b
  simp only
  split
  · exact Accepts.ret _ _ trivial
  · rename_i hb
    have : isGo b = true := by
      simp only [isGo, Bool.or_eq_true, beq_iff_eq]
      by_cases h70 : b = 70
      · exact Or.inl h70
      · by_cases h59 : b = 59
        · exact Or.inr h59
        · exact absurd ⟨h70, h59⟩ hb
    rw [this]
    exact Accepts.call _ _ _ true rfl (fun _ => Accepts.ret _ _ trivial)

/-- … and its run on a peer that answers 'F' reports the message sent, after the peek -/
example : (Proc.run unitStep tailGood [70] () []).2.2.2 =
    [.called (.setSent [77] false), .peeked 70, .wrote [4, 0]] := by decide +kernel
example : mon outδ (Proc.run unitStep tailGood [70] () []).2.2.2 false = some true := by decide +kernel

/-- on a dead link (EOF) the original reports nothing -/
example : (Proc.run unitStep tailGood [] () []).2.2.2 = [.wrote [4, 0]] := by decide +kernel

/-- the mutant is NOT accepted: no proof of `Accepts` exists for it … -/
example : ¬ Accepts outδ (fun _ _ => True) false tailMutant := by
  intro h
  cases h with
  | write _ _ _ s' hs hk =>
    simp only [outδ, Option.some.injEq] at hs
    subst hs
    cases hk with
    | call _ _ _ s'' hs' _ => simp [outδ, isConfirm] at hs'

/-- … and the monitor refuses its trace: on a dead link it has reported the message sent -/
example : (Proc.run unitStep tailMutant [] () []).2.2.2 = [.called (.setSent [77] false), .wrote [4, 0]] := by
  decide +kernel
example : mon outδ (Proc.run unitStep tailMutant [] () []).2.2.2 false = none := by decide +kernel
example : mon armedδ (Proc.run unitStep tailMutant [] () []).2.2.2 false = none := by decide +kernel

/-! ### observation: a lost EOT checksum byte is a lost connection
`readCompressed` returns the error of the `ReadByte()` that fetches the EOT checksum (fbb/b2f.go:
`if c, err = s.rd.ReadByte(); err != nil { return err }`), so a frame cut right before its last byte is never
accepted, not even when the data bytes happen to sum to 0 mod 256 (before the repair the missing byte read
as 0 and such a frame was accepted). Witness on a 1-byte payload whose data sum is 0: -/
example : (match (Proc.run unitStep (readBlocks 1 5 [] 0) [2, 1, 0, 4] () []).1 with
    | .done (.error .eof) => true
    | _ => false) = true := by decide +kernel
/-- with the checksum byte present and right it is accepted -/
example : (match (Proc.run unitStep (readBlocks 1 5 [] 0) [2, 1, 0, 4, 0] () []).1 with
    | .done (.ok d) => d == [0]
    | _ => false) = true := by decide +kernel
/-- with the checksum byte present and wrong it IS rejected -/
example : (match (Proc.run unitStep (readBlocks 1 5 [] 0) [2, 1, 0, 4, 7] () []).1 with
    | .done (.error (.proto _)) => true
    | _ => false) = true := by decide +kernel

end Wl2k.Props.C02
