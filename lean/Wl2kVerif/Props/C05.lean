import Wl2kVerif.Proofs.FrameRT
import Wl2kVerif.Proofs.WireRT
/-
C05 — wire behaviour conforms to B2F. Element-level conformance theorems about what the session
model EMITS (each is a clause an independent validating peer checks) and ACCEPTS. The session-level
statements (`emits_conforming`, `accepts_conforming` against the spec automaton for all peer strategies)
are NOT proved; they are checked by the independent Go peer in harness/cmd/corr/c05.go on every run.
-/
namespace Wl2k.Props.C05
open Wl2k Wl2k.B2F Wl2k.Fmt

/-- The block size limits regenerated from /repo: data blocks carry 1..255 bytes (the length is ONE byte
on the wire), and at most five proposals go into a block. A change of `MaxMsgLength` to > 255 (the
`byte(msgLen)` wrap) or of `MaxBlockSize` breaks this by `decide`. -/
theorem chunk_le_255 : 0 < Gen.MaxMsgLength ∧ Gen.MaxMsgLength ≤ 255 ∧ Gen.MaxBlockSize = 5 ∧
    Gen.ProtocolOffsetSizeLimit = 999999 := by decide

/-- At most `maxBlock` proposals are offered per block. -/
theorem block_le_max (c : Cfg) (out : List Proposal) : (out.take c.maxBlock).length ≤ c.maxBlock := by
  simp [List.length_take]; omega

/-- Every STX block carries between 1 and `m` data bytes, the one-byte length field is exact for
m ≤ 255, and the blocks concatenate to the payload. -/
theorem blocks_wellformed (m : Nat) (hm1 : 1 ≤ m) (hm2 : m ≤ 255) (d : Bytes) :
    (∀ b ∈ frameBlocks m d, ∃ c : Bytes, b = [2, UInt8.ofNat c.length] ++ c ∧ 1 ≤ c.length ∧ c.length ≤ m) ∧
    ((chunksOf m (d.length + 1) d).flatten = d) := by
  have hch := chunksOf_spec m hm1 (d.length + 1) d (by omega)
  refine ⟨?_, hch.1⟩
  intro b hb
  simp only [frameBlocks, List.mem_map] at hb
  obtain ⟨c, hc, rfl⟩ := hb
  have := hch.2.1 c hc
  refine ⟨c, ?_, this.1, this.2⟩
  have : c.length % 256 = c.length := Nat.mod_eq_of_lt (by omega)
  rw [this]

/-- The EOT trailer makes the byte sum of all data bytes plus the checksum byte 0 modulo 256. -/
theorem trailer_checksum (d : Bytes) :
    (dataSum d + (UInt8.ofNat (negMod256 (dataSum d))).toNat) % 256 = 0 := by
  simp only [negMod256, UInt8.toNat_ofNat']
  omega

/-- The SOH header length byte is |title| + |offset| + 2 whenever that fits one byte. -/
theorem header_length_byte (qtitle : Bytes) (offset : Int) (h : qtitle.length + (decInt offset).length + 2 < 256) :
    (frameHeader qtitle offset).getD 1 0 = UInt8.ofNat (qtitle.length + (decInt offset).length + 2) := by
  simp [frameHeader, Nat.mod_eq_of_lt h]

/-- Rune sum = byte sum for ASCII lines: the block checksum the session computes (`range` over a Go
string) is the plain byte checksum the protocol specifies for every line a conforming peer can send
or we can emit (proposal lines are ASCII). -/
theorem lineSum_ascii (line : Bytes) (h : ∀ b ∈ line, b < 0x80) : lineSum line = dataSum line + 13 := by
  unfold lineSum dataSum Utf8.runes
  congr 1
  have key : ∀ (l : Bytes) (acc : Nat), (∀ b ∈ l, b < 0x80) →
      (Utf8.runesS 0 l).foldl (· + ·) acc = l.foldl (fun s b => s + b.toNat) acc := by
    intro l
    induction l with
    | nil => intro acc _; rfl
    | cons b t ih =>
      intro acc hl
      have hb := hl b (by simp)
      simp only [Utf8.runesS, Utf8.decodeRune, hb, if_true, List.foldl_cons, Nat.sub_self]
      exact ih _ (fun x hx => hl x (by simp [hx]))
  exact key line 0 h

/-- One answer per proposal, read back exactly (all n, all answer combinations). -/
theorem answers_roundtrip (limit : Nat) (as : List UInt8) (h : ∀ a ∈ as, PlainAnswer a) :
    parseProposalAnswer limit (fsPrefix ++ as) as.length = some (as.map (fun a => (a, (0 : Int)))) :=
  B2F.answers_roundtrip limit as h

/-- The full answer alphabet in either case is accepted (decided on the complete table). -/
theorem answer_alphabet :
    (∀ c ∈ [89, 121, 43], parseProposalAnswer 999999 (fsPrefix ++ [c]) 1 = some [(ansAccept, 0)]) ∧
    (∀ c ∈ [78, 110, 82, 114, 45], parseProposalAnswer 999999 (fsPrefix ++ [c]) 1 = some [(ansReject, 0)]) ∧
    (∀ c ∈ [76, 108, 61, 72, 104], parseProposalAnswer 999999 (fsPrefix ++ [c]) 1 = some [(ansDefer, 0)]) ∧
    (∀ c ∈ [65, 97, 33], parseProposalAnswer 999999 (fsPrefix ++ [c, 48]) 1 = some [(ansAccept, 0)]) ∧
    -- several zero-offset accepts in one line (broken before the fix: "FS A0A0")
    parseProposalAnswer 999999 (fsPrefix ++ [65, 48, 65, 48]) 2 = some [(ansAccept, 0), (ansAccept, 0)] ∧
    parseProposalAnswer 999999 (fsPrefix ++ [33, 48, 43, 33, 48]) 3 = some [(ansAccept, 0), (ansAccept, 0), (ansAccept, 0)] := by
  decide

end Wl2k.Props.C05
