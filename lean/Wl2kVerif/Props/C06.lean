import Wl2kVerif.Lzhuf.Canon
/-
C06 — LZHUF compression is lossless for every input and every chunking.
Proved so far: chunk independence of the compressor (for all inputs and all partitions).
OPEN (not claimed as proved): `roundtrip : readAll (compress x) = x ∧ Close = nil` for all `x` — the
Huffman-layer and window-layer invariants are in progress (Proofs/Huff*.lean); until then the round trip
is covered by correspondence + the property oracle on the real code (see MANIFEST level_note).
-/
namespace Wl2k.Props.C06
open Wl2k Wl2k.Lzhuf

/-- **The compressed bytes depend only on the input, not on how the writes were split**: feeding any
list of chunks through successive `Write` calls leaves the compressor in exactly the state that one
`Write` of the concatenation does (hence identical output at `Close`). -/
theorem write_split_indep (w : Writer) (xs : List Bytes) :
    xs.foldl Writer.write w = w.write xs.flatten := by
  induction xs generalizing w with
  | nil => rfl
  | cons p t ih =>
    simp only [List.foldl_cons, List.flatten_cons, ih]
    simp [Writer.write, List.foldl_append]

theorem compress_split_indep (crc16 : Bool) (xs : List Bytes) :
    (xs.foldl Writer.write (Writer.new crc16)).close = compress crc16 xs.flatten := by
  rw [write_split_indep]; rfl

/-- One `Read` of everything. -/
def readAll (crc16 : Bool) (s : Bytes) (m : Nat) : Option (Bytes × Option RErr) :=
  match Reader.new crc16 s with
  | .error _ => none
  | .ok d =>
    let (d, bs, _) := d.read m
    some (bs, d.close)

end Wl2k.Props.C06
