import Wl2kVerif.Secure.Response
import Wl2kVerif.Proofs.Fmt
import Wl2kVerif.Gen.Tables
import Wl2kVerif.B2F.Handshake
/-
C16 — secure-login answers follow the Winlink algorithm.
Property theorems only; helper lemmas live in `Proofs/`.
-/
namespace Wl2k.Props.C16
open Wl2k Wl2k.Fmt Wl2k.Secure

/-- First four digest bytes as a little-endian integer. -/
def le32 (dg : Bytes) : Nat :=
  (dg.getD 0 0).toNat + 256 * (dg.getD 1 0).toNat + 65536 * (dg.getD 2 0).toNat + 16777216 * (dg.getD 3 0).toNat

theorem shl8_or (a b : Nat) (hb : b < 256) : a <<< 8 ||| b = a * 256 + b := by
  rw [← Nat.shiftLeft_add_eq_or_of_lt (by omega), Nat.shiftLeft_eq]

theorem prOf_eq (dg : Bytes) : prOf dg = le32 dg % 2 ^ 30 := by
  simp only [prOf, le32]
  have h0 := (dg.getD 0 0).toNat_lt
  have h1 := (dg.getD 1 0).toNat_lt
  have h2 := (dg.getD 2 0).toNat_lt
  have h3 := (dg.getD 3 0).toNat_lt
  generalize (dg.getD 0 0).toNat = b0 at *
  generalize (dg.getD 1 0).toNat = b1 at *
  generalize (dg.getD 2 0).toNat = b2 at *
  generalize (dg.getD 3 0).toNat = b3 at *
  have e3 : b3 &&& 0x3f = b3 % 64 := Nat.and_two_pow_sub_one_eq_mod b3 6
  rw [e3, shl8_or _ _ (by omega), shl8_or _ _ (by omega), shl8_or _ _ (by omega)]
  omega

/-- The response is, for EVERY digest, the eight low decimal digits (zero padded) of the first four
digest bytes read little-endian and masked to 30 bits. -/
theorem response_spec (dg : Bytes) :
    respOfDigest dg = fixed 8 ((le32 dg % 2 ^ 30) % 10 ^ 8) := by
  unfold respOfDigest
  rw [lastN_dec0, prOf_eq, fixed_mod]

theorem response_length (dg : Bytes) : (respOfDigest dg).length = 8 := by
  rw [response_spec, fixed_length]

theorem response_all_digits (dg : Bytes) : ∀ c ∈ respOfDigest dg, 48 ≤ c.toNat ∧ c.toNat ≤ 57 := by
  rw [response_spec]; exact fixed_all_digits _ _

/-- No `int32` overflow in the Go computation: the accumulated value always fits 30 bits. -/
theorem pr_fits_int32 (dg : Bytes) : prOf dg < 2 ^ 31 := by
  rw [prOf_eq]; omega

/-- The salt in /repo (regenerated on every run) is the published paclink-unix salt. -/
theorem salt_eq : Gen.winlinkSecureSalt =
    [77, 197, 101, 206, 190, 249, 93, 200, 51, 243, 93, 237, 71, 94, 239, 138, 68, 108, 70, 185,
     225, 137, 217, 16, 51, 122, 193, 48, 194, 195, 198, 175, 172, 169, 70, 84, 61, 62, 104, 186,
     114, 52, 61, 168, 66, 129, 192, 208, 187, 249, 232, 193, 41, 113, 41, 45, 240, 16, 29, 228,
     208, 228, 61, 20] := by decide

/-- Non-interference: the wire response depends on the password only through the MD5 digest of
challenge ++ password ++ salt. -/
theorem password_noninterference (salt : Bytes) :
    ∃ F : Bytes → Bytes, ∀ ch pw, response salt ch pw = F (Md5.sum (ch ++ pw ++ salt)) :=
  ⟨respOfDigest, fun _ _ => rfl⟩

open Wl2k.B2F in
/-- A challenge without a registered callback fails the handshake and writes nothing. -/
theorem no_callback_fails (salt : Bytes) (c : HsCfg) (ch : Bytes) (cb : List CbRes)
    (hch : ch ≠ []) (hcb : c.hasCb = false) : sendHandshake salt c ch cb = none := by
  cases ch with
  | nil => exact absurd rfl hch
  | cons a t => simp [sendHandshake, sendHandshakeV, hcb]

open Wl2k.B2F in
/-- With a challenge, a callback and no callback error for the main address, the handshake is exactly
`;FW:` line, SID line, `;PR: <response of main password>`, trailer - in that order. -/
theorem handshake_lines (salt : Bytes) (c : HsCfg) (ch : Bytes) (m : CbRes) (aux : List CbRes)
    (hch : ch ≠ []) (hcb : c.hasCb = true) (hm : m.isErr = false) :
    sendHandshake salt c ch (m :: aux) =
      some (fwLine true c ((m :: aux).map (CbRes.view salt ch)) ++ sidLine c ++
        (strBytes ";PR: " ++ respOfDigest (Md5.sum (ch ++ m.password ++ salt)) ++ strBytes "\r") ++ trailer c) := by
  cases ch with
  | nil => exact absurd rfl hch
  | cons a t => simp [sendHandshake, sendHandshakeV, hcb, CbRes.view, hm, response]

open Wl2k.B2F in
/-- An auxiliary address (index > 0) is written as `addr|response` iff its password is non-empty,
and bare otherwise. -/
theorem aux_entry (i : Nat) (hi : 0 < i) (addr : Bytes) (v : CbView) :
    fwEntry true i addr v =
      if v.empty then strBytes " " ++ addr else strBytes " " ++ addr ++ strBytes "|" ++ v.resp := by
  unfold fwEntry
  cases h : v.empty <;> simp [hi]

open Wl2k.B2F in
/-- Without a challenge no entry carries a response and no `;PR:` line is written. -/
theorem no_challenge_plain (salt : Bytes) (c : HsCfg) (cb : List CbRes) :
    sendHandshake salt c [] cb = some (fwLine false c (cb.map (CbRes.view salt [])) ++ sidLine c ++ trailer c) := by
  simp [sendHandshake, sendHandshakeV]

open Wl2k.B2F in
/-- Non-interference for the whole handshake: the bytes written depend on the passwords only through
(is-empty, callback-error, response-of-digest). Two password assignments with equal views give equal wires. -/
theorem handshake_noninterference (salt : Bytes) (c : HsCfg) (ch : Bytes) (cb₁ cb₂ : List CbRes)
    (h : cb₁.map (CbRes.view salt ch) = cb₂.map (CbRes.view salt ch)) :
    sendHandshake salt c ch cb₁ = sendHandshake salt c ch cb₂ := by
  simp [sendHandshake, h]

end Wl2k.Props.C16
