import Wl2kVerif.Proofs.EmitHs
import Wl2kVerif.Proofs.EmitAccept
import Wl2kVerif.B2F.RefHandler
/-
C05, session level, EMISSION half as a theorem — "a Session emits only what the protocol prescribes":
every byte string the session model writes, in order, is accepted by the B2F output-grammar monitor
`Grammar.outGrammarδ` (B2F/Grammar.lean — the SPEC: handshake lines, proposal blocks with checksum, `FS`,
`FF`/`FQ`, SOH/STX/EOT transfers in proposal order, the final error line), for EVERY configuration
satisfying `CfgOK`/`HsOK`, EVERY remote byte string, EVERY fuel and EVERY behaviour of the local handler
whose replies satisfy `HandlerOK` (MID 1..12 letters/digits, title printable/non-empty/≤ 247 bytes,
answers `+ - =`). Each hypothesis is shown to be NEEDED by an evaluated witness (`needs_…` below): these
are the places where a misbehaving LOCAL handler — never the remote — makes the session emit
non-conforming bytes.
ACCEPTANCE half, element level: comment tolerance, any block split 1..256, SID variants.
-/
namespace Wl2k.Props.C05
open Wl2k Wl2k.B2F Wl2k.B2F.Grammar Wl2k.Str

/-! ### emission: the theorem -/

/-- **Program level.** Along every path of `exchange c fuel` — any remote bytes incl. EOF anywhere, any
handler replies satisfying `HandlerOK` — every write is accepted by the output-grammar monitor started in
`start`. Hypotheses: `CfgOK` (1 ≤ maxBlock ≤ 5, 1 ≤ maxMsgLen ≤ 255, offsetLimit ≤ 999999) and `HsOK`
(MOTD lines printable and not mistakable for handshake/error/prompt lines; at least one forwarding
address, addresses of `[A-Za-z0-9@.:_-]+`; user-agent name/version printable without brackets; call signs
`[A-Za-z0-9-]+`; locator alphanumeric). -/
theorem emits_grammar_prog (c : Cfg) (fuel : Nat) (hc : CfgOK c) (hh : HsOK c) :
    AcceptsR outGrammarδ HandlerOK (fun _ _ => True) .start (exchange c fuel) :=
  exchange_acc c hc hh fuel

/-- **Run level.** For every handler (any state type, any step function whose replies satisfy
`HandlerOK`), every input byte string, every fuel: the writes of the run, oldest first, are accepted by
the grammar monitor (it never refuses one). -/
theorem emits_grammar {H : Type} (hstep : H → Call → H × Reply) (hR : ∀ h c, HandlerOK c (hstep h c).2)
    (c : Cfg) (fuel : Nat) (hc : CfgOK c) (hh : HsOK c) (input : Bytes) (h : H) :
    ∃ s', acceptsWrites .start (writesOf (Proc.run hstep (exchange c fuel) input h []).2.2.2) = some s' := by
  obtain ⟨s', hm, _⟩ := run_acceptsR hstep hR (exchange_acc c hc hh fuel) input h [] .start rfl
  exact ⟨s', by rw [← mon_outGrammar]; exact hm⟩

/-- `HandlerOK` for a handler given by what it returns: offered messages with a MID of 1..12 letters/digits
and a `TitleOK` Q-title, answers from `+ - =` (nothing is asked of the other calls) -/
theorem handlerOK_of_plain {H : Type} (hstep : H → Call → H × Reply)
    (hout : ∀ h fw, ∃ out, (hstep h (.getOutbound fw)).2 = .msgs out ∧
      ∀ m ∈ out, m.valid = true → isMid m.mid = true ∧ TitleOK m.qtitle)
    (hans : ∀ h v, ∃ a, (hstep h (.getInboundAnswer v)).2 = .answer a ∧ PlainAnswer a)
    (hanss : ∀ h vs, ∃ as, (hstep h (.getInboundAnswers vs)).2 = .answers as ∧ ∀ a ∈ as, PlainAnswer a) :
    ∀ h c, HandlerOK c (hstep h c).2 := by
  intro h c
  cases c with
  | getOutbound fw => obtain ⟨out, h1, h2⟩ := hout h fw; rw [h1]; exact h2
  | getInboundAnswer v => exact hans h v
  | getInboundAnswers vs => obtain ⟨as, h1, h2⟩ := hanss h vs; rw [h1]; exact h2
  | _ => unfold HandlerOK; split <;> first | trivial | simp_all

/-- The numeric defaults regenerated from /repo (`MaxBlockSize`, `MaxMsgLength`, `ProtocolOffsetSizeLimit`)
satisfy the configuration sanity `CfgOK` — a change of `MaxMsgLength` to > 255 or of `MaxBlockSize` to > 5
in the Go source breaks this `decide`. -/
theorem cfgOK_default (hs : HsCfg) (motd : List Bytes) (hasHandler batched : Bool) :
    CfgOK { hs := hs, motd := motd, hasHandler := hasHandler, batched := batched } :=
  ⟨by show 1 ≤ Gen.MaxBlockSize; decide, by show Gen.MaxBlockSize ≤ 5; decide,
   by show 1 ≤ Gen.MaxMsgLength; decide, by show Gen.MaxMsgLength ≤ 255; decide,
   by show Gen.ProtocolOffsetSizeLimit ≤ 999999; decide⟩

/-- `transferAll` writes NOTHING unless some proposal of the block was accepted by the peer: transfers are
emitted only for accepted proposals. -/
theorem no_transfer_unless_accepted (c : Cfg) : ∀ (ps : List Proposal) (sent : List (Bytes × Bool)),
    (∀ p ∈ ps, p.answer ≠ ansAccept) → Shape NoWrite (transferAll c ps sent) := by
  intro ps
  induction ps with
  | nil => intro sent _; exact Shape.ret _
  | cons p t ih =>
    intro sent h
    have ht : ∀ q ∈ t, q.answer ≠ ansAccept := fun q hq => h q (by simp [hq])
    unfold transferAll
    split
    · exact Shape.call _ _ trivial (fun _ => ih _ ht)
    · split
      · exact ih _ ht
      · split
        · rename_i ha; exact absurd ha (h p (by simp))
        · exact ih _ ht

/-! ### emission: the parts (with what each leaves the monitor in) -/

/-- Our turn (`handleOutbound`), from a turn start: the lines of ONE block of at most five proposals
`FC EM <mid> <usize> <csize> 0`, the prompt `F> HH` with the two's-complement byte checksum, then — after
the peer's answer — transfers only for proposals of that block, in block order, each `SOH` header (length
byte exact), `STX` blocks of 1..255 bytes, `EOT` with the sum check and exactly `csize − offset` data bytes;
or `FF`; or `FQ`, after which the monitor is `ended`. An error leaves the monitor where `*** …` may follow. -/
theorem emits_grammar_outbound (c : Cfg) (hc : CfgOK c) (fuel : Nat) (st : SState) (s : GState) (hs : TurnStart s) :
    AcceptsR outGrammarδ HandlerOK OutQ s (handleOutbound c fuel st) :=
  handleOutbound_acc c hc fuel st s hs

/-- The peer's turn (`handleInbound`): at most one write, `FS <answers>` CR, after which our turn is due. -/
theorem emits_grammar_inbound (c : Cfg) (fuel : Nat) (st : SState) (pend : List Nat) :
    AcceptsR outGrammarδ HandlerOK
      (fun (r : Bool × SState × Option SErr) s' => EchoQ r.2.2 s' ∧ (r.2.2 = none → TurnStart s'))
      (.idle pend) (handleInbound c fuel st) :=
  handleInbound_acc c fuel st pend

/-- **One answer per pending proposal, from the alphabet `+ - =`**: `writeProposalsAnswer` makes exactly one
write — `FS ` ++ the answers of the list it returns ++ CR (last line of its definition) — and that list is
as long as the list of proposals received; the monitor (which checks the alphabet) accepts it. -/
theorem fs_one_answer_per_proposal (c : Cfg) (props : List Proposal) (hne : props ≠ []) (pend : List Nat) :
    AcceptsR outGrammarδ HandlerOK (fun ps s' => s' = .myTurn ∧ ps.length = props.length) (.idle pend)
      (writeProposalsAnswer c props) :=
  writeProposalsAnswer_acc c props hne pend

/-- **One transfer** (`writeCompressed`) for a proposal whose compressed size is among the pending ones
(`csz p :: rest` a subsequence of `pend`): header, blocks, trailer are accepted, the monitor has matched
the data length against `csize − offset` and moved past that proposal (`rest` is still pending). A refused
offset / short payload ends with the header only — the one place where `*** …` follows a header. -/
theorem emits_grammar_transfer (c : Cfg) (hc : CfgOK c) (p : Proposal) (hp : XferOK p) (rest pend : List Nat)
    (hsub : (csz p :: rest).Sublist pend) :
    AcceptsR outGrammarδ HandlerOK (fun (r : Except SErr Unit) s' => match r with
        | .error e => ErrOK e ∧ errAllowed s' = true
        | .ok _ => ∃ pend', s' = .idle pend' ∧ rest.Sublist pend')
      (.idle pend) (writeCompressed c p) :=
  writeCompressed_acc c hc p hp rest pend hsub

/-- **The handshake**: MOTD lines only from a master and only before its handshake; the handshake is one
write `;FW: …` CR `[name-version-B2FHM[G]$]` CR (`;PR: <8 digits>` CR) `; <TARGET> DE <MYCALL> (<loc>)[>]` CR
with the prompt `>` exactly for a master, `;PR`/`|hash` only from a slave; afterwards the monitor expects our
turn (slave) or is between units (master). -/
theorem emits_grammar_handshake (c : Cfg) (hh : HsOK c) (fuel : Nat) :
    AcceptsR outGrammarδ HandlerOK (HsQ' c.hs.master) .start (handshake c fuel) :=
  handshake_acc c hh fuel

/-- The text the session echoes after `*** ` never contains a CR, although it is REMOTE-controlled for
remote error lines (it is a subsequence of the line read, which ended at the first CR). -/
theorem error_echo_one_line (pre m : Bytes) (hp : (13 : UInt8) ∉ pre)
    (h : errLine (cleanString (pre ++ [13])) = some m) : (13 : UInt8) ∉ m :=
  errLine_no_cr pre m hp h

end Wl2k.Props.C05

namespace Wl2k.Props.C05
open Wl2k Wl2k.B2F Wl2k.B2F.Grammar Wl2k.Str

/-! ### emission: every hypothesis on the LOCAL handler is needed (FINDINGS, with witnesses) -/

/-- **Handler answers are written through unchanged.** Whatever byte `a` an (unbatched) inbound handler
returns for a type-C proposal, the session writes `FS a` CR — there is no check against the answer alphabet. -/
theorem needs_answer_alphabet_written_through (c : Cfg) (hh : c.hasHandler = true) (hb : c.batched = false)
    (p : Proposal) (hp : p.code = 67) (a : UInt8) :
    (Proc.run (fun (u : Unit) (_ : Call) => (u, Reply.answer a)) (writeProposalsAnswer c [p]) [] () []).2.2.2 =
      [.wrote ([70, 83, 32] ++ [a] ++ [13]), .called (.getInboundAnswer (viewOf p))] := by
  simp [writeProposalsAnswer, preAnswer, askEach, Proc.run, hh, hb, hp, bind_eq, pure_eq, Proc.bind, sb_FS, fsPrefix,
    viewOf]

/-- … and the grammar refuses every such line whose answer is not one of `+ - =` (all 253 other bytes,
NUL and CR included). -/
theorem needs_answer_alphabet : ∀ n, n < 256 →
    (UInt8.ofNat n = 43 ∨ UInt8.ofNat n = 45 ∨ UInt8.ofNat n = 61) ∨
      step (.idle []) ([70, 83, 32] ++ [UInt8.ofNat n] ++ [13]) = none := by
  decide +kernel

/-- **MID.** A handler message whose MID contains a blank (or a CR, or is empty, or has 13 characters)
gives a proposal line the grammar refuses (a peer would split the fields differently / see two lines). -/
theorem needs_mid :
    propLine? (proposalLine 67 [69, 77] [65, 32, 66] 1 7 ++ [13]) = none ∧
    propLine? (proposalLine 67 [69, 77] [65, 13, 66] 1 7 ++ [13]) = none ∧
    propLine? (proposalLine 67 [69, 77] [] 1 7 ++ [13]) = none ∧
    propLine? (proposalLine 67 [69, 77] [65, 65, 65, 65, 65, 65, 65, 65, 65, 65, 65, 65, 65] 1 7 ++ [13]) = none ∧
    propLine? (proposalLine 67 [69, 77] [65, 66] 1 7 ++ [13]) = some 7 := by
  decide +kernel

/-- **MID, checksum.** For a non-ASCII MID (here "é" = C3 A9) the session sums RUNES (`range` over a Go
string: 0xE9), the protocol sums BYTES (0xC3 + 0xA9): the prompt written is `F> 14`, the byte checksum
string: 0xE9), the protocol sums BYTES (0xC3 + 0xA9): the prompt written is `F> B7`, the byte checksum
calls for `F> 34`. -/
theorem needs_mid_ascii_checksum :
    promptLine (lineSum (proposalLine 67 [69, 77] [0xC3, 0xA9] 1 7)) = [70, 62, 32, 66, 55, 13] ∧
    promptOf (byteSum (proposalLine 67 [69, 77] [0xC3, 0xA9] 1 7 ++ [13])) = [70, 62, 32, 51, 52, 13] := by
  rw [promptLine_eq_promptOf]
  decide +kernel

/-- **Title.** A Q-encoded title of 253 bytes makes the one-byte header length wrap to 0 (the session does
not check it); a title containing NUL, an empty one, or a non-printable one is refused by the grammar. -/
theorem needs_title :
    (frameHeader (List.replicate 253 65) 0).getD 1 7 = 0 ∧
    header? (frameHeader (List.replicate 253 65) 0) = none ∧
    header? (frameHeader [65, 0, 66] 0) = none ∧
    header? (frameHeader [] 0) = none ∧
    header? (frameHeader [65, 10, 66] 0) = none ∧
    header? (frameHeader [65, 66] 0) = some 0 := by
  decide +kernel

/-! ### non-vacuity: real runs are accepted and move the monitor; mutations are refused -/

private def hsc : HsCfg where
  mycall := [76, 65, 53, 78, 84, 65]
  targetcall := [76, 65, 49, 66]
  locator := [74, 80, 50, 48]
  uaName := [119, 108]
  uaVersion := [48, 46, 49]
  master := false
  gzip := false
  hasCb := false
  localFW := [[76, 65, 53, 78, 84, 65]]

private def cfgS : Cfg := { hs := hsc }

/-- a complete session (slave, no handler messages): the remote sends `[R-1-B2F$]` `X>`; we write the
handshake `;FW: LA5NTA` `[wl-0.1-B2FHM$]` `; LA1B DE LA5NTA (JP20)` and `FF`; the remote proposes
`FC EM M1 5 9 0` / `F> 1C`; the handler rejects: `FS -`; then `FF`; the remote quits. -/
private def inp1 : Bytes :=
  [91, 82, 45, 49, 45, 66, 50, 70, 36, 93, 13, 88, 62, 13, 70, 67, 32, 69, 77, 32, 77, 49, 32, 53, 32, 57, 32, 48, 13,
   70, 62, 32, 49, 67, 13, 70, 81, 13]

example : writesOf (Proc.run hstep (exchange cfgS 100) inp1 ({ policy := [([77, 49], 45)] } : HState) []).2.2.2 =
    [[59, 70, 87, 58, 32, 76, 65, 53, 78, 84, 65, 13, 91, 119, 108, 45, 48, 46, 49, 45, 66, 50, 70, 72, 77, 36, 93, 13,
      59, 32, 76, 65, 49, 66, 32, 68, 69, 32, 76, 65, 53, 78, 84, 65, 32, 40, 74, 80, 50, 48, 41, 13],
     [70, 70, 13], [70, 83, 32, 45, 13], [70, 70, 13]] := by decide +kernel

example : acceptsWrites .start (writesOf (Proc.run hstep (exchange cfgS 100) inp1 ({ policy := [([77, 49], 45)] } : HState) []).2.2.2) =
    some (.idle []) := by decide +kernel

/-- the hypotheses of `emits_grammar` are satisfiable: this configuration, and a handler that offers
nothing and rejects everything — so the theorem applies to it for EVERY input -/
example : CfgOK cfgS ∧ HsOK cfgS :=
  ⟨cfgOK_default _ _ _ _, ⟨by decide, by decide, by decide, by decide, by decide, by decide, by decide, by decide⟩⟩

private def rejectAll (u : Unit) : Call → Unit × Reply
  | .getOutbound _ => (u, .msgs [])
  | .getInboundAnswer _ => (u, .answer 45)
  | .getInboundAnswers vs => (u, .answers (vs.map fun _ => 45))
  | _ => (u, .unit)

example (input : Bytes) (fuel : Nat) :
    ∃ s', acceptsWrites .start (writesOf (Proc.run rejectAll (exchange cfgS fuel) input () []).2.2.2) = some s' := by
  refine emits_grammar rejectAll ?_ cfgS fuel (cfgOK_default _ _ _ _)
    ⟨by decide, by decide, by decide, by decide, by decide, by decide, by decide, by decide⟩ input ()
  intro h c
  cases c <;> simp [rejectAll, HandlerOK, PlainAnswer, ansAccept, ansReject, ansDefer]

/-- the echoed error text is REMOTE-controlled (never containing CR, `error_echo_one_line`): the remote's
`*** a` LF `FQ` CR makes the session write `*** a` LF `FQ` CR LF -/
example : writesOf (Proc.run hstep (exchange cfgS 100)
      [91, 82, 45, 49, 45, 66, 50, 70, 36, 93, 13, 88, 62, 13, 42, 42, 42, 32, 97, 10, 70, 81, 13] ({} : HState) []).2.2.2 =
    [[59, 70, 87, 58, 32, 76, 65, 53, 78, 84, 65, 13, 91, 119, 108, 45, 48, 46, 49, 45, 66, 50, 70, 72, 77, 36, 93, 13,
      59, 32, 76, 65, 49, 66, 32, 68, 69, 32, 76, 65, 53, 78, 84, 65, 32, 40, 74, 80, 50, 48, 41, 13],
     [70, 70, 13], [42, 42, 42, 32, 97, 10, 70, 81, 13, 10]] := by decide +kernel

/-- the sender's side on a hand-made proposal (8 payload bytes, block size 5; no LZHUF in the kernel):
proposal line, `F> 1F`, then — the peer answers `FS +` — header, two blocks, trailer -/
private def p1 : Proposal :=
  { code := 67, msgType := [69, 77], mid := [77, 49], qtitle := [72, 105], size := 3,
    cdata := [1, 2, 3, 4, 5, 6, 7, 8], csize := 8 }

example : writesOf (Proc.run hstep (sendOutbound { cfgS with maxMsgLen := 5 } 100 [p1]) [70, 83, 32, 43, 13] ({} : HState) []).2.2.2 =
    [[70, 67, 32, 69, 77, 32, 77, 49, 32, 51, 32, 56, 32, 48, 13], [70, 62, 32, 49, 70, 13],
     [1, 5, 72, 105, 0, 48, 0], [2, 5, 1, 2, 3, 4, 5], [2, 3, 6, 7, 8], [4, 220]] := by
  simp only [sendOutbound, promptLine_eq_promptOf]
  decide +kernel

example : acceptsWrites .myTurn
    (writesOf (Proc.run hstep (sendOutbound { cfgS with maxMsgLen := 5 } 100 [p1]) [70, 83, 32, 43, 13] ({} : HState) []).2.2.2) =
    some (.idle []) := by
  simp only [sendOutbound, promptLine_eq_promptOf]
  decide +kernel

/-- a quirk the grammar has to allow: the peer asks for an offset beyond the message (`FS A9`): the session
has already written the transfer header when it notices, and `*** offset-outside-message` follows it -/
example : acceptsWrites .myTurn
    (writesOf (Proc.run hstep (sendOutbound cfgS 100 [p1]) [70, 83, 32, 65, 57, 13] ({} : HState) []).2.2.2) =
    some (.xfer 9 0 0 [8]) := by
  simp only [sendOutbound, promptLine_eq_promptOf]
  decide +kernel

/-- the monitor REFUSES: a wrong block checksum (`F> 20` for `F> 1F`) … -/
example : acceptsWrites .myTurn
    [[70, 67, 32, 69, 77, 32, 77, 49, 32, 51, 32, 56, 32, 48, 13], [70, 62, 32, 50, 48, 13]] = none := by decide +kernel

/-- … a sixth proposal in a block (five are accepted) … -/
example :
    acceptsWrites .myTurn (List.replicate 5 [70, 67, 32, 69, 77, 32, 77, 49, 32, 51, 32, 56, 32, 48, 13]) =
      some (.block 5 3685 [8, 8, 8, 8, 8]) ∧
    acceptsWrites .myTurn (List.replicate 6 [70, 67, 32, 69, 77, 32, 77, 49, 32, 51, 32, 56, 32, 48, 13]) = none := by
  decide +kernel

/-- … a data block of 0 bytes, a wrong trailer checksum, a transfer shorter than the proposed size, a
transfer when nothing is pending, a second `FS` in a row, anything after `FQ`, `FS` before our first turn. -/
example :
    acceptsWrites (.xfer 0 0 0 [8]) [[2, 0]] = none ∧
    acceptsWrites (.idle [8]) [[1, 5, 72, 105, 0, 48, 0], [2, 5, 1, 2, 3, 4, 5], [2, 3, 6, 7, 8], [4, 221]] = none ∧
    acceptsWrites (.idle [8]) [[1, 5, 72, 105, 0, 48, 0], [2, 5, 1, 2, 3, 4, 5], [4, 241]] = none ∧
    acceptsWrites (.idle []) [[1, 5, 72, 105, 0, 48, 0]] = none ∧
    acceptsWrites (.idle []) [[70, 83, 32, 43, 13], [70, 83, 32, 43, 13]] = none ∧
    acceptsWrites (.idle []) [[70, 81, 13], [70, 70, 13]] = none ∧
    acceptsWrites .myTurn [[70, 83, 32, 43, 13]] = none := by
  decide +kernel

/-! ### acceptance (element level): the variations a conforming peer may use -/

/-- **Comment tolerance.** A line `;<text>` CR (text ending in a non-blank ASCII character) is skipped by
every line loop: by `inboundLoop` (between proposals: same proposals, same running checksum, same state),
by `awaitAnswer` (before the `FS` line), and by `readHandshake` (if it is not `;FW…`/`;PQ…` and does not end
in the prompt `>`; the handshake data is unchanged, only the peek of ';' is recorded) — the run on
`comment ++ rest` IS the run on `rest` with one unit of loop fuel less. -/
theorem accepts_comment_lines {H : Type} (hstep : H → Call → H × Reply) (fuel n : Nat)
    (t : Bytes) (bl : UInt8) (hbl : Solid bl) (h13 : (13 : UInt8) ∉ t ++ [bl]) (rest : Bytes)
    (hf : t.length + 2 < fuel) (h : H) (tr : List Ev) :
    (∀ (c : Cfg) (props : List Proposal) (sum : Nat) (st : SState),
      Proc.run hstep (inboundLoop c fuel (n + 1) props sum st) (59 :: (t ++ [bl]) ++ 13 :: rest) h tr =
        Proc.run hstep (inboundLoop c fuel n props sum st) rest h tr) ∧
    (Proc.run hstep (awaitAnswer fuel (n + 1)) (59 :: (t ++ [bl]) ++ 13 :: rest) h tr =
        Proc.run hstep (awaitAnswer fuel n) rest h tr) ∧
    (∀ (master : Bool) (data : HsData), (sb ";FW").isPrefixOf (59 :: (t ++ [bl])) = false →
      (sb ";PQ").isPrefixOf (59 :: (t ++ [bl])) = false → bl ≠ 62 →
      Proc.run hstep (readHandshake master fuel (n + 1) data) (59 :: (t ++ [bl]) ++ 13 :: rest) h tr =
        Proc.run hstep (readHandshake master fuel n data) rest h (.peeked 59 :: tr)) :=
  ⟨fun c props sum st => inboundLoop_skips_comment hstep c fuel n props sum st t bl hbl h13 rest hf h tr,
   awaitAnswer_skips_comment hstep fuel n t bl hbl h13 rest hf h tr,
   fun master data hfw hpq hgt => readHandshake_skips_comment hstep master fuel n data t bl hbl h13 rest hfw hpq hgt hf h tr⟩

/-- **Any block split.** `frame_roundtrip` (C01) generalised from the sender's fixed block size to EVERY
split of the payload into blocks of 1..256 bytes (a 256-byte block carries length byte 0): `readCompressed`
returns exactly `chunks.flatten` and consumes exactly the frame. -/
theorem accepts_any_block_split {H : Type} (hstep : H → Call → H × Reply) (qtitle : Bytes) (chunks : List Bytes)
    (rest : Bytes) (hch : ∀ c ∈ chunks, 1 ≤ c.length ∧ c.length ≤ 256)
    (hq : (0 : UInt8) ∉ qtitle) (hlen : qtitle.length + 3 < 256)
    (p : Proposal) (hoff : p.offset = 0) (hcs : p.csize = (chunks.flatten.length : Int))
    (fuel : Nat) (hfuel : qtitle.length + chunks.flatten.length + 4 < fuel) (h : H) (tr : List Ev) :
    Proc.run hstep (readCompressed fuel p)
        (frameHeader qtitle 0 ++ (chunks.map blockOf).flatten ++ frameTrailer chunks.flatten ++ rest) h tr =
      (.done (.ok chunks.flatten), rest, h, tr) :=
  frame_any_split hstep qtitle chunks rest hch hq hlen p hoff hcs fuel hfuel h tr

/-- a block of exactly 256 bytes is written with length byte 0 -/
example : (blockOf (List.replicate 256 7)).take 2 = [2, 0] := by decide +kernel

/-- **SID variants.** For EVERY SID line `[<pre>-<features>]` — `pre` arbitrary (more '-', any name/version),
`features` the text after the last '-' — whose feature field contains "B2" anywhere, in either case
(`toUpper` first): `readHandshake` accepts it and goes on with `sid` = the upper-cased feature field. -/
theorem accepts_sid_variants {H : Type} (hstep : H → Call → H × Reply) (master : Bool) (fuel n : Nat) (data : HsData)
    (pre feats rest : Bytes) (h45 : (45 : UInt8) ∉ feats) (h10 : (10 : UInt8) ∉ pre ++ feats)
    (h13 : (13 : UInt8) ∉ pre ++ feats) (hb2 : containsSub (toUpper feats) [66, 50] = true)
    (hf : pre.length + feats.length + 3 < fuel) (h : H) (tr : List Ev) :
    parseSID ([91] ++ pre ++ [45] ++ feats ++ [93]) = some (toUpper feats) ∧
    Proc.run hstep (readHandshake master fuel (n + 1) data) ([91] ++ pre ++ [45] ++ feats ++ [93] ++ 13 :: rest) h tr =
      Proc.run hstep (readHandshake master fuel n { data with sid := toUpper feats }) rest h (.peeked 91 :: tr) :=
  ⟨parseSID_form pre feats h45 h10,
   readHandshake_accepts_sid hstep master fuel n data pre feats rest h45 h10 h13 hb2 hf h tr⟩

/-- feature fields that qualify: `B2FHM$`, lower case `b2fhm$`, B2 in the middle `AHMB2F$`; and one that
does not (`BFHM$`: FBB v1 only) — and the SID with a '-' inside the version is parsed at the LAST '-' -/
example : containsSub (toUpper [66, 50, 70, 72, 77, 36]) [66, 50] = true ∧
    containsSub (toUpper [98, 50, 102, 104, 109, 36]) [66, 50] = true ∧
    containsSub (toUpper [65, 72, 77, 66, 50, 70, 36]) [66, 50] = true ∧
    containsSub (toUpper [66, 70, 72, 77, 36]) [66, 50] = false ∧
    parseSID [91, 82, 77, 83, 45, 49, 46, 48, 45, 114, 99, 49, 45, 98, 50, 102, 36, 93] = some [66, 50, 70, 36] := by
  decide +kernel

end Wl2k.Props.C05
