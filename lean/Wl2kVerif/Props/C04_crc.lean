import Wl2kVerif.Props.C07_crc
/-
C04 (CRC part) — what the CRC-16 of the LZHUF container is guaranteed to catch.
A sum-preserving change of two ADJACENT payload bytes (`+δ` / `−δ`: invisible to the 8-bit B2F block
checksum) is an error burst of at most 16 bits; a degree-16 CRC whose generator has constant term 1
detects every such burst. Proved for the bit-serial specification `Crc.xmodem` and, through
`C07.crc_eq_xmodem`, for the transcription `Lzhuf.crc` of `lzhuf/crc.go`.

The container is `le16 crc ++ payload` (checksum FIRST, little-endian), so the classical codeword
argument does not cover a burst that straddles the checksum field and the payload:
`adjacent_pair_straddling_header_not_caught` exhibits a 47-byte container where `d[1]+δ, d[2]−δ`
keeps the checksum valid (d[2] is the low byte of the size field, so that change is left to the
size check). The frame-level theorem therefore excludes exactly `i = 1`.
-/
namespace Wl2k.Props.C04
open Wl2k Wl2k.Lzhuf Wl2k.Crc

/-- Any change confined to two adjacent bytes (any nonzero 16-bit error burst at a byte boundary)
changes CRC-16/XMODEM. -/
theorem burst16_caught_xmodem (pre post : Bytes) (a1 a2 b1 b2 : UInt8) (h : ¬ (a1 = b1 ∧ a2 = b2)) :
    xmodem (pre ++ a1 :: a2 :: post) ≠ xmodem (pre ++ b1 :: b2 :: post) :=
  Crc.burst16_caught pre post a1 a2 b1 b2 h

/-- The same for the library's table-driven `crc`. -/
theorem burst16_caught (pre post : Bytes) (a1 a2 b1 b2 : UInt8) (h : ¬ (a1 = b1 ∧ a2 = b2)) :
    crc (pre ++ a1 :: a2 :: post) ≠ crc (pre ++ b1 :: b2 :: post) := by
  simp only [C07.crc_eq_xmodem]; exact Crc.burst16_caught pre post a1 a2 b1 b2 h

/-- A single changed byte changes the checksum. -/
theorem single_byte_caught (pre post : Bytes) (a b : UInt8) (h : a ≠ b) :
    crc (pre ++ a :: post) ≠ crc (pre ++ b :: post) := by
  simp only [C07.crc_eq_xmodem]; exact Crc.single_caught pre post a b h

/-- **`+δ` / `−δ` on two adjacent bytes is caught** (payload level). -/
theorem adjacent_pair_caught (d : Bytes) (i : Nat) (h : i + 1 < d.length) (δ : UInt8) (hδ : δ ≠ 0) :
    crc ((d.set i (d[i] + δ)).set (i + 1) (d[i + 1] - δ)) ≠ crc d := by
  simp only [C07.crc_eq_xmodem]; exact Crc.adjacent_pair_caught d i h δ hδ

theorem adjacent_pair_caught_xmodem (d : Bytes) (i : Nat) (h : i + 1 < d.length) (δ : UInt8) (hδ : δ ≠ 0) :
    xmodem ((d.set i (d[i] + δ)).set (i + 1) (d[i + 1] - δ)) ≠ xmodem d :=
  Crc.adjacent_pair_caught d i h δ hδ

/-- The container's checksum verdict (what `Reader.Close` tests, written from the format):
two little-endian bytes of CRC-16/XMODEM over everything that follows. -/
def crcOK (d : Bytes) : Prop := 2 ≤ d.length ∧ d.take 2 = le16 (xmodem (d.drop 2))

instance (d : Bytes) : Decidable (crcOK d) := by unfold crcOK; infer_instance

/-- **Frame level**: a `+δ` / `−δ` pair on adjacent bytes of a container with a valid checksum
invalidates the checksum, wherever the pair lies except across the checksum/payload boundary. -/
theorem adjacent_pair_caught_frame (d : Bytes) (i : Nat) (h : i + 1 < d.length) (hi : i ≠ 1)
    (δ : UInt8) (hδ : δ ≠ 0) (hok : crcOK d) :
    ¬ crcOK ((d.set i (d[i] + δ)).set (i + 1) (d[i + 1] - δ)) := by
  match d, h, hok with
  | h0 :: h1 :: P, h, hok =>
    obtain ⟨_, hok⟩ := hok
    simp only [List.take_succ_cons, List.take_zero, List.drop_succ_cons, List.drop_zero] at hok
    match i, hi, h with
    | 0, _, _ =>
      rintro ⟨_, h'⟩
      simp only [List.set_cons_zero, List.set_cons_succ, List.take_succ_cons, List.take_zero,
        List.drop_succ_cons, List.drop_zero, List.getElem_cons_zero] at h'
      rw [← hok] at h'
      simp only [List.cons.injEq, and_true] at h'
      exact add_ne_self h0 δ hδ h'.1
    | k + 2, _, h =>
      rintro ⟨_, h'⟩
      simp only [List.set_cons_succ, List.take_succ_cons, List.take_zero, List.drop_succ_cons,
        List.drop_zero, List.getElem_cons_succ] at h'
      rw [hok] at h'
      have hk : k + 1 < P.length := by simp only [List.length_cons] at h; omega
      have := C07.le16_crc_inj P ((P.set k (P[k] + δ)).set (k + 1) (P[k + 1] - δ))
        (by simpa only [C07.crc_eq_xmodem] using h')
      exact adjacent_pair_caught P k hk δ hδ this.symm

/-- The excluded case is real: a valid 47-byte container (41-byte body) in which `d[1] + 47`,
`d[2] − 47` leaves the checksum valid. (`d[2]` is the low byte of the declared size: this alteration
is for the size check to reject, the CRC cannot.) -/
theorem adjacent_pair_straddling_header_not_caught :
    ∃ (d : Bytes) (δ : UInt8), 2 < d.length ∧ δ ≠ 0 ∧ crcOK d ∧
      crcOK ((d.set 1 (d.getD 1 0 + δ)).set 2 (d.getD 2 0 - δ)) :=
  ⟨[171, 97, 67, 0, 0, 0, 3, 10, 17, 24, 31, 38, 45, 52, 59, 66, 73, 80, 87, 94, 101, 108, 115, 122,
    129, 136, 143, 150, 157, 164, 171, 178, 185, 192, 199, 206, 213, 220, 227, 234, 241, 248, 255, 6,
    13, 0, 60], 47, by decide +kernel⟩

end Wl2k.Props.C04
