import Wl2kVerif.Proofs.ReaderCanon
import Wl2kVerif.Proofs.ReaderCut
import Wl2kVerif.Proofs.AlterLz
import Wl2kVerif.Proofs.CanonRound
import Wl2kVerif.Props.C06
/-
C08 — clause "whenever the reader hands out data and `Close` reports success, the data is exactly what the
CANONICAL LZHUF decoder produces from the same bytes" (model: `Lzhuf/Reader.lean` = /repo/lzhuf/reader.go after
the `fix:` commits; canonical decoder: `Lzhuf.Canon.decodeBody` = LZHUF.C `Decode()`).

The statements hold for EVERY byte string `s` — malformed, truncated, hostile — not only for encoder output
(that case is `Props/C07_reverse.lean`, `Props/C07_roundtrip.lean`).  Stream layout (`Proofs/ReaderCanon.lean`):
`streamCrc s` = the first two bytes (little-endian), `streamSizeField crc16 s` = the 4 size bytes,
`streamSize crc16 s` = that field as `int32`, `streamBody crc16 s` = everything after the size field.

No code-length hypothesis (`Canon.CodeLenOK` of `Props/C07_reverse.lean`) is needed here: the 16-bit accumulator of
LZHUF.C belongs to `EncodeChar`/`Putcode`; `DecodeChar` walks the tree one bit at a time and `Canon.decodeLoop`
uses the very same bit reader / `update` / `reconst` as the library (`Reader.decodeChar`, `Reader.decodePosition`).
What differs is the DRIVER: the canonical loop has no size check inside a match (the last match may overrun the
declared size), no `pending` buffer, reads bits past the end of input as zero instead of failing, records no
error and checks no CRC.  The proof shows that a run of the library that ends with `Close` = nil never took any of
those branches (`copyFull_fit`: a match copy that records no `ErrChecksum` fitted the declared size;
`run_decodeLoop`: token for token the canonical loop), for any sequence of `Read` buffer sizes
(`readsWith_run`), reaching `io.EOF` or not (`close_none_eof`: a state that passes `Close` is at EOF).

Beyond the success case: `reader_prefix_of_canon` — whatever the outcome, the bytes handed out are a PREFIX of the
canonical output (`run_prefix`, `copyAll_prefix_full`); and in `close_nil_is_canonical` the data is shown to be the
canonical decoding of the body bytes under the CRC alone (`Proofs/ReaderCut.lean`: the token stream commutes
with truncating the source to the `pulled` bytes).

The CONVERSE is false and not claimed: the canonical decoder never fails (`canon_never_fails`), so it also
"decodes" streams the library rejects — `canon_overruns_where_reader_fails`.
-/
namespace Wl2k.Props.C08
open Wl2k Wl2k.Lzhuf

/-- **`reader_agrees_with_canon`** — for EVERY byte string `s`, either header format (`crc16 = true`: the B2
container with its 2-byte CRC, as the session uses it; `crc16 = false`: size field first) and EVERY sequence `ns`
of `Read` buffer sizes (zero sizes allowed; the sequence need not have reached `io.EOF`): if `NewReader` accepts
`s` and `Close` called after those reads returns nil, then
* the declared size (the size field read as `int32`) is not negative, and
* the canonical decoder `Canon.decodeBody` applied to the bytes after the size field, with that declared size,
  yields EXACTLY the concatenation of the bytes the reads returned.
(`Close` = nil already implies that no `Read` returned an error other than `io.EOF` — `close_sound`,
`errs_eof_of_final`.) -/
theorem reader_agrees_with_canon (crc16 : Bool) (s : Bytes) (d : Reader) (ns : List Nat)
    (h : Reader.new crc16 s = .ok d) (hc : (readsWith d ns).1.close = none) :
    0 ≤ streamSize crc16 s ∧
    Canon.decodeBody (streamBody crc16 s) (streamSize crc16 s).toNat = (readsWith d ns).2 :=
  (reader_agrees_with_canon_full crc16 s d ns h hc).2

/-- … in the `readAll` form (`Props/C06.lean`: `NewReader`, ONE `Read` into a buffer of `m` bytes, `Close`):
if that returns `data` with `Close` = nil, the canonical decoder yields `data` from the same stream. -/
theorem reader_agrees_with_canon_readAll (crc16 : Bool) (s : Bytes) (m : Nat) (data : Bytes)
    (h : Props.C06.readAll crc16 s m = some (data, none)) :
    Canon.decodeBody (streamBody crc16 s) (streamSize crc16 s).toNat = data := by
  unfold Props.C06.readAll at h
  cases hn : Reader.new crc16 s with
  | error e => rw [hn] at h; cases h
  | ok d =>
    rw [hn] at h
    dsimp only at h
    have h' := Option.some.inj h
    have h1 : (d.read m).2.1 = data := congrArg Prod.fst h'
    have h2 : (d.read m).1.close = none := congrArg Prod.snd h'
    have := (reader_agrees_with_canon crc16 s d [m] hn (by simpa [readsWith] using h2)).2
    rw [this]
    simpa [readsWith] using h1

/-- … at the session's entry point: if `B2F.lzDecode cdata` (= `lzhuf.NewB2Reader` + `io.Copy` with 32 KiB
buffers + `Close`, as in `Proposal.data()`) succeeds with `data`, then the canonical decoder applied to
`cdata` minus its 6 header bytes, with the size declared in bytes 2..5, yields `data`. -/
theorem session_decode_is_canonical (cdata data : Bytes) (h : B2F.lzDecode cdata = some data) :
    Canon.decodeBody (cdata.drop 6) (int32OfLE ((cdata.drop 2).take 4)).toNat = data := by
  obtain ⟨d, ns, h1, h2, h3⟩ := B2F.lzDecode_some cdata data h
  have := (reader_agrees_with_canon true cdata d ns h1 h2).2
  rw [h3, ← this]
  simp [streamBody, streamSize, streamSizeField]

/-- **`close_nil_is_canonical`** — what success of the library reader certifies, for EVERY byte string `s`, either
header format, and every sequence of reads on a new reader after which `Close` returns nil:
* the number of bytes handed out equals the declared size;
* the canonical decoder yields exactly those bytes from the same stream;
* the reader is at EOF with nothing recorded: no error, the bit reader never ran dry, nothing pending;
* there is a length `n` (= the number of body bytes the reader pulled from its source) on the 4096-byte refill
  grid of its `bufio.Reader` (`n` = the whole body, or a multiple of 4096) such that
  - the canonical decoder applied to the first `n` body bytes ALONE yields the same data (the bytes after them
    were never looked at), and
  - with the CRC header, the embedded CRC-16 equals the CRC over the size field and exactly those `n` body bytes.
  So the data is a function of bytes that are all under the CRC (what lies beyond `n` is covered by neither;
  cf. `Props/C04_alter.lean`). -/
theorem close_nil_is_canonical (crc16 : Bool) (s : Bytes) (d : Reader) (ns : List Nat)
    (h : Reader.new crc16 s = .ok d) (hc : (readsWith d ns).1.close = none) :
    ((readsWith d ns).2.length : Int) = streamSize crc16 s ∧
    Canon.decodeBody (streamBody crc16 s) (streamSize crc16 s).toNat = (readsWith d ns).2 ∧
    ((readsWith d ns).1.err = none ∧ (readsWith d ns).1.berr = false ∧ (readsWith d ns).1.pending = []) ∧
    ∃ n, n ≤ (streamBody crc16 s).length ∧ (n = (streamBody crc16 s).length ∨ n % 4096 = 0) ∧
      Canon.decodeBody ((streamBody crc16 s).take n) (streamSize crc16 s).toNat = (readsWith d ns).2 ∧
      (crc16 = true → streamCrc s = crc (streamSizeField crc16 s ++ (streamBody crc16 s).take n)) := by
  obtain ⟨q1, -, q3⟩ := reader_agrees_with_canon_full crc16 s d ns h hc
  have cl := close_length crc16 s d ns h hc
  have hi := (readsWith_acc d ns).2.2 (new_inv crc16 s d h)
  obtain ⟨e1, -, e3, e4, -⟩ := close_none_eof _ hi hc 1
  refine ⟨by rw [cl, q1], q3, ⟨e3, e4, e1⟩, ?_⟩
  obtain ⟨-, -, k3, k4, k5, -, k7⟩ := new_fields2 crc16 s d h
  obtain ⟨-, -, -, n4⟩ := Bits.new_rinv crc16 s d h
  have p := readsWith_pull d ns
  have inv : PInv (readsWith d ns).1 := p.inv ⟨by rw [n4]; omega, Or.inr (by rw [n4])⟩
  unfold PInv at inv
  rw [p.src, k5] at inv
  simp only [List.size_toArray] at inv
  refine ⟨(readsWith d ns).1.pulled, inv.1, inv.2, decodeBody_take_pulled crc16 s d ns h hc, ?_⟩
  intro hcrc
  have cs := close_sound _ hc
  have hcr := cs.2.2.1 (by rw [p.crc16, k3]; exact hcrc)
  rw [p.hcrc, p.sizeBytes, p.src, k4, k5, k7] at hcr
  unfold streamCrc streamSizeField streamBody
  rw [hcr]
  congr 2
  simp

/-- **state-level form** — for EVERY reader state `d` with nothing pending (not only a new reader; whatever its
Huffman tables, window, bit buffer), every sequence of reads that reaches an error return (`io.EOF` included)
and after which `Close` returns nil, and every declared size `n = d.size`: the canonical `Decode()` loop started
in the same state with an output of `out.size = d.pos` bytes and fuel for the remaining bytes appends exactly
the bytes those reads returned. -/
theorem reads_agree_with_canon_from (d : Reader) (ns : List Nat) (hq : d.pending = [])
    (hend : ∃ e, some e ∈ errsWith d ns) (hc : (readsWith d ns).1.close = none)
    (out : Array UInt8) (n fuel : Nat) (hn : d.size = (n : Int)) (ho : out.size = d.pos) (hf : n ≤ d.pos + fuel) :
    Canon.decodeLoop d out n fuel = out ++ (readsWith d ns).2.toArray :=
  Lzhuf.reads_agree_with_canon_from d ns hq hend hc out n fuel hn ho hf

/-! ### without success: never a byte the canonical decoder would not have produced -/

/-- **`reader_prefix_of_canon`** — for EVERY byte string `s` that `NewReader` accepts, either header format, and
EVERY sequence of `Read` buffer sizes — whatever the reads and `Close` report (success, `ErrChecksum`,
`ErrUnexpectedEOF`, not yet at EOF): the bytes handed out so far are a PREFIX of what the canonical decoder
produces from the same body with the same declared size (a negative declared size counts as 0: nothing is
handed out).  No hypothesis besides `NewReader` succeeding.
Caveat on the model, relevant only when the input ran dry (`berr`): `Canon.decodeLoop` reads past the end through
the library's `readBits`, which yields 0 for an 8-bit read that cannot be completed, whereas LZHUF.C's `GetByte`
(and `harness/cmd/corr/canon.go`) would return the ≤ 7 buffered bits followed by zeros; for 1-bit reads both yield
0.  Wherever the final state has `berr = false` (in particular whenever `Close` ≠ `ErrUnexpectedEOF`) no read
past the end took place and the caveat does not apply. -/
theorem reader_prefix_of_canon (crc16 : Bool) (s : Bytes) (d : Reader) (ns : List Nat)
    (h : Reader.new crc16 s = .ok d) :
    (readsWith d ns).2 <+: Canon.decodeBody (streamBody crc16 s) (streamSize crc16 s).toNat :=
  reader_prefix_of_canon_full crc16 s d ns h

/-- **state-level form** — for EVERY reader state `d` with nothing pending and `pos ≤ n = d.size`, and every
sequence of reads (no condition on errors or `Close`): the canonical loop started in the same state with
`out.size = d.pos` and fuel for the remaining bytes produces `out`, then the bytes those reads returned, then
possibly more. -/
theorem reads_prefix_of_canon_from (d : Reader) (ns : List Nat) (hq : d.pending = [])
    (out : Array UInt8) (n fuel : Nat) (hn : d.size = (n : Int)) (hp : d.pos ≤ n) (ho : out.size = d.pos)
    (hf : n ≤ d.pos + fuel) :
    (out.toList ++ (readsWith d ns).2) <+: (Canon.decodeLoop d out n fuel).toList :=
  Lzhuf.reads_prefix_of_canon_from d ns hq out n fuel hn hp ho hf

/-! ### the converse is false: the canonical decoder has no failure -/

/-- **The canonical decoder never fails**: for every body and every declared size it delivers at least that many
bytes (bits past the end of input read as zero; the last match is copied in full).  So "the canonical decoder
produced `n` bytes" certifies nothing about the stream, and the agreement above cannot be stated for streams the
library rejects. -/
theorem canon_never_fails (body : Bytes) (size : Nat) : size ≤ (Canon.decodeBody body size).length :=
  decodeBody_length_ge body size

/-- **Witness that success of `Close` cannot be dropped** (state-level, `toy` of `Proofs/Reader.lean`: one-leaf
code table for symbol 258 = a 5-byte match, window full of `7`, declared size 12): the library hands out 12 bytes
and reports `ErrChecksum` (the third match overruns the declared size), while the canonical loop from the same
state delivers 15 bytes. -/
theorem canon_overruns_where_reader_fails :
    ∃ (d : Reader) (ns : List Nat) (n : Nat), d.size = (n : Int) ∧ d.pending = [] ∧ d.pos = 0 ∧
      (∃ e, some e ∈ errsWith d ns) ∧ (readsWith d ns).1.close = some .checksum ∧
      (readsWith d ns).2.length = 12 ∧ (Canon.decodeLoop d #[] n n).size = 15 := by
  refine ⟨toy [0, 0, 0, 0, 0, 0, 0, 0, 0] 12 258, [3, 3, 3, 3, 3], 12, rfl, rfl, rfl, ⟨.eof, ?_⟩, ?_, ?_, ?_⟩
  · decide +kernel
  · decide +kernel
  · decide +kernel
  · decide +kernel

/-! ### non-vacuity -/

/-- `reader_agrees_with_canon` / `close_nil_is_canonical`: the hypotheses hold for the output of the library's
compressor on ANY input `x` below 2 GiB, either header format (one `Read` into a buffer of `|x|` bytes, then
`Close` = nil; `roundtrip_one_read`) — the conclusion then says the canonical decoder returns `x`. -/
example (crc16 : Bool) (x : Bytes) (hx : x.length < 2147483648) :
    ∃ d ns, Reader.new crc16 (compress crc16 x) = .ok d ∧ (readsWith d ns).1.close = none ∧
      (readsWith d ns).2 = x ∧
      Canon.decodeBody (streamBody crc16 (compress crc16 x)) (streamSize crc16 (compress crc16 x)).toNat = x := by
  obtain ⟨d, h1, h2, h3⟩ := roundtrip_one_read crc16 x hx x.length (Nat.le_refl _)
  have hc : (readsWith d [x.length]).1.close = none := by simpa [readsWith] using h3
  have hd : (readsWith d [x.length]).2 = x := by simpa [readsWith] using h2
  exact ⟨d, [x.length], h1, hc, hd, (reader_agrees_with_canon crc16 _ d _ h1 hc).2.trans hd⟩

/-- … and for the output of the CANONICAL encoder on any input of at most 3866 bytes (`go_decodes_canon_one_read`) -/
example (crc16 : Bool) (x : Bytes) (hx : x.length ≤ 3866) :
    ∃ d ns, Reader.new crc16 (Canon.compress crc16 x) = .ok d ∧ (readsWith d ns).1.close = none ∧
      (readsWith d ns).2 = x := by
  obtain ⟨d, h1, h2, h3⟩ := go_decodes_canon_one_read crc16 x (by omega) (Or.inr hx) x.length (Nat.le_refl _)
  exact ⟨d, [x.length], h1, by simpa [readsWith] using h3, by simpa [readsWith] using h2⟩

/-- a concrete stream evaluated by the kernel (the empty message with CRC header; reads of 3 and 1 bytes):
hypotheses and conclusion -/
example : ∃ d, Reader.new true [0, 0, 0, 0, 0, 0] = .ok d ∧ (readsWith d [3, 1]).1.close = none ∧
    streamSize true [0, 0, 0, 0, 0, 0] = 0 ∧ streamBody true [0, 0, 0, 0, 0, 0] = [] ∧
    Canon.decodeBody [] 0 = (readsWith d [3, 1]).2 :=
  ⟨_, rfl, by decide +kernel, by decide +kernel, by decide +kernel, by decide +kernel⟩

/-- a stream that is NOT encoder output passes too (trailing garbage after the body of the empty message is
never pulled into the CRC when the declared size is 0 — a known limit of the CRC coverage, `Props/C04_alter.lean`):
`Close` = nil, and the canonical decoder agrees -/
example : ∃ d, Reader.new true [0, 0, 0, 0, 0, 0, 0xde, 0xad] = .ok d ∧ (readsWith d [4]).1.close = none ∧
    Canon.decodeBody (streamBody true [0, 0, 0, 0, 0, 0, 0xde, 0xad])
      (streamSize true [0, 0, 0, 0, 0, 0, 0xde, 0xad]).toNat = (readsWith d [4]).2 :=
  ⟨_, rfl, by decide +kernel, by decide +kernel⟩

/-- `reader_agrees_with_canon_readAll`: hypothesis for compressor output (any `x`), and evaluated for the empty one -/
example (crc16 : Bool) (x : Bytes) (hx : x.length < 2147483648) :
    Props.C06.readAll crc16 (compress crc16 x) x.length = some (x, none) := by
  obtain ⟨d, h1, h2, h3⟩ := roundtrip_one_read crc16 x hx x.length (Nat.le_refl _)
  unfold Props.C06.readAll
  rw [h1]
  dsimp only
  rw [h2, h3]
example : Props.C06.readAll false [0, 0, 0, 0] 5 = some ([], none) := by decide +kernel

/-- `session_decode_is_canonical`: the hypothesis holds for the empty message's container (evaluated by the kernel);
for the compressor's container of ANY message below 2 GiB it is `lz_roundtrip` of `Props/C02_whole.lean`
(`B2F.lzDecode (compress true x) = some x`; not imported here to keep this file's dependencies small) -/
example : B2F.lzDecode [0, 0, 0, 0, 0, 0] = some [] := by decide +kernel

/-- `reads_agree_with_canon_from`: two 5-byte matches read through buffers 1, 7, 4 (bytes cross `pending`), then
EOF, `Close` = nil — and the canonical loop from the same state gives the same ten bytes -/
example : runToy (toy [0, 0, 0, 0, 0, 0, 0, 0, 0] 10 258) [1, 7, 4, 4] =
      ([7, 7, 7, 7, 7, 7, 7, 7, 7, 7], none, [none, none, none, some .eof], []) ∧
    Canon.decodeLoop (toy [0, 0, 0, 0, 0, 0, 0, 0, 0] 10 258) #[] 10 10 = #[7, 7, 7, 7, 7, 7, 7, 7, 7, 7] :=
  ⟨by decide +kernel, by decide +kernel⟩
/-- … literals: 5 × 'A' through 2-byte buffers -/
example : runToy (toy [0x55, 0x55] 5 65) [2, 2, 2, 1] = ([65, 65, 65, 65, 65], none, [none, none, none, some .eof], []) ∧
    Canon.decodeLoop (toy [0x55, 0x55] 5 65) #[] 5 5 = #[65, 65, 65, 65, 65] :=
  ⟨by decide +kernel, by decide +kernel⟩

/-- `reader_prefix_of_canon`: the hypothesis holds for every stream of at least 6 (with CRC) / 4 bytes, e.g. for
`compress true "hello"` cut after 9 of its 12 bytes -/
example : ∃ d, Reader.new true (helloStream.take 9) = .ok d ∧ d.size = 5 := ⟨_, rfl, by decide +kernel⟩
/-- `reads_prefix_of_canon_from`: a truncated source (the 8-byte match is decoded from an exhausted source, the
second 1-byte read returns `ErrUnexpectedEOF`, 7 bytes are lost in `pending`): 1 byte handed out, the canonical
loop yields 8; and the overrun of `canon_overruns_where_reader_fails`: 12 handed out, 15 canonical -/
example : runToy (toy [] 8 261) [1, 1] = ([7], some .unexpectedEOF, [none, some .unexpectedEOF], [7, 7, 7, 7, 7, 7, 7]) ∧
    Canon.decodeLoop (toy [] 8 261) #[] 8 8 = #[7, 7, 7, 7, 7, 7, 7, 7] :=
  ⟨by decide +kernel, by decide +kernel⟩
example : (readsWith (toy [0, 0, 0, 0, 0, 0, 0, 0, 0] 12 258) [3, 3, 3, 3, 3]).2 = List.replicate 12 7 ∧
    (Canon.decodeLoop (toy [0, 0, 0, 0, 0, 0, 0, 0, 0] 12 258) #[] 12 12).toList = List.replicate 15 7 :=
  ⟨by decide +kernel, by decide +kernel⟩

/-- `canon_never_fails`, evaluated: the empty body with declared size 0 -/
example : Canon.decodeBody [] 0 = [] := by decide +kernel

end Wl2k.Props.C08
