import Wl2kVerif.Std.Fmt
/-
Model of `catalog/position_report.go` over EXACT arithmetic.
A float64 input is the rational `±num/den` (every float64 is one; the harness decodes its 64 bits).
IEEE rounding of `|dec| * 600000` is not modelled (Lean's kernel cannot see Float); the
correspondence run counts how often that matters (only within 1e-7 of a rounding tie).
-/
namespace Wl2k.PosRep
open Wl2k Wl2k.Fmt

/-- `math.Round(math.Abs(dec) * 600000)`: ten-thousandths of a minute, rounded half away from zero. -/
def tenThousandths (num den : Nat) : Nat := (2 * num * 600000 + den) / (2 * den)

def signChar (neg : Bool) (num : Nat) (lat : Bool) : UInt8 :=
  if num = 0 then 32
  else if lat then (if neg then 83 else 78)     -- 'S' 'N'
  else (if neg then 87 else 69)                 -- 'W' 'E'

/-- `decToMinDec(dec, latitude)` for `dec = ±num/den`. -/
def decToMinDec (neg : Bool) (num den : Nat) (lat : Bool) : Bytes :=
  let t := tenThousandths num den
  let deg := t / 600000
  let m := t % 600000
  dec0 (if lat then 2 else 3) deg ++ [45] ++ dec0 2 (m / 10000) ++ [46] ++ dec0 4 (m % 10000) ++ [signChar neg num lat]

/-- `NewCourse(degrees, magnetic)` then `String()`; `none` = the error return. -/
def course (degrees : Int) (magnetic : Bool) : Option Bytes :=
  if degrees < 0 ∨ degrees > 360 then none
  else
    let d := if degrees = 360 then 0 else degrees.toNat
    -- copy(c.Digits[:], fmt.Sprintf("%03d", d)) keeps the first three bytes
    some ((dec0 3 d).take 3 ++ [if magnetic then 77 else 84])

/-- The report body as assembled by `PosReport.Message` (before `SetBody`'s CRLF normalisation, which
is C18's model). `date`, `speed` are the already formatted strings (time.Format / `%f`: stdlib, trusted). -/
def bodyLines (date : Bytes) (lat lon : Option Bytes) (speed : Option Bytes) (crs : Option Bytes) (comment : Bytes) : List Bytes :=
  [strBytes "DATE: " ++ date]
  ++ (match lat, lon with
      | some la, some lo => [strBytes "LATITUDE: " ++ la, strBytes "LONGITUDE: " ++ lo]
      | _, _ => [])
  ++ (match speed with | some s => [strBytes "SPEED: " ++ s] | none => [])
  ++ (match crs with | some c => [strBytes "COURSE: " ++ c] | none => [])
  ++ (if comment.isEmpty then [] else [strBytes "COMMENT: " ++ comment])

end Wl2k.PosRep
