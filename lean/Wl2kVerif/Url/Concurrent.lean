import Wl2kVerif.Url.Registry
/-
Small-step CONCURRENT model of the dialer registry in `transport/dial.go`.

`Registry.lean` treats every API call as one atomic step.  Here that atomicity is not assumed: a fixed
family of threads (thread ids are natural numbers; thread `t` runs the program `progs.getD t []`, a
list of API calls) is interleaved by an arbitrary schedule, and every API call is executed as the
micro-steps of its Go body

    RegisterContextDialer / UnregisterDialer :  mu.Lock()  ; map access ; mu.Unlock()
    DialURLContext                           :  mu.Lock()  ; map lookup ; mu.Unlock() ; dispatch

where `dispatch` is the last statement of `DialURLContext` (`return nil, ErrMissingDialer` when the
lookup failed, `return dialer.DialURLContext(ctx, url)` otherwise): it runs OUTSIDE the lock and uses
the value that was read under the lock.

The mutex is the field `holder : Option Nat`.  ONLY the `lock` micro-step is guarded (`holder = none`);
access / unlock / dispatch are unguarded: the access step does not check that the thread holds the mutex
and the unlock step clears `holder` unconditionally (that is what `sync.Mutex` does).  That accesses are
nevertheless performed by the holder is a THEOREM (`Props/C19_lin.lean`, `mutual_exclusion`).

Scheduling: a schedule is a list of thread ids.  A scheduled thread that is finished (no operation left;
this includes ids `≥ progs.length`) or blocked (wants `lock` while `holder ≠ none`) is SKIPPED: the state
is unchanged and the schedule moves on.  Hence every `List Nat` is a schedule and all theorems quantify
over all of them.

The state carries a ghost `trace` (one event per performed micro-step, in the order performed; the
position in the trace is the time of the step).  Nothing in the dynamics reads it.
-/
namespace Wl2k.Url

deriving instance DecidableEq for RegOp

namespace Conc

/-- One API call: `RegisterDialer`/`RegisterContextDialer`/`UnregisterDialer` (the sequential model's
`RegOp`) or `DialURL`/`DialURLContext` of a scheme. -/
inductive COp where
  | reg (op : RegOp)
  | dial (scheme : Bytes)
deriving DecidableEq, Repr

/-- What a call returns: nothing (register/unregister), or - for a dial - the dialer it dispatched to
(`none` = `ErrMissingDialer`). -/
inductive Res where
  | unit
  | dialed (d : Option Nat)
deriving DecidableEq, Repr

/-- SEQUENTIAL semantics of one call, literally `Registry.step` / `Registry.dial` of `Registry.lean`:
new registry and returned value. -/
def COp.apply (op : COp) (r : Registry) : Registry × Res :=
  match op with
  | .reg o => (r.step o, .unit)
  | .dial s => (r, .dialed (r.dial s))

/-- Sequential run of a list of calls from the empty registry (Go: `dialers.m == nil`). -/
def seqRun (ops : List COp) : Registry := ops.foldl (fun r op => (op.apply r).1) []

/-- The register/unregister calls of a list of calls (dials do not change the registry). -/
def regOps (ops : List COp) : List RegOp :=
  ops.filterMap (fun op => match op with | .reg o => some o | .dial _ => none)

/-- Where a thread is inside its current call. `accessed`/`unlocked` remember the value read under
the lock (a local variable of the Go function). -/
inductive PC where
  | idle                      -- next micro-step: lock   (of call number `idx`)
  | locked                    -- next: map access
  | accessed (res : Res)      -- next: unlock
  | unlocked (res : Res)      -- next: dispatch (only reached by `dial`)
deriving DecidableEq, Repr

structure Thread where
  /-- number of completed calls = index of the current call in the thread's program -/
  idx : Nat
  pc : PC
deriving DecidableEq, Repr

/-- Ghost event: thread `tid` performed micro-step `kind` of its call number `idx` (= `op`).
`ret = some v` marks the LAST micro-step of a call (its response) and carries the returned value;
the `lock` event is the FIRST micro-step (the invocation). -/
structure Ev where
  tid : Nat
  idx : Nat
  op : COp
  kind : MuEvent
  ret : Option Res
deriving DecidableEq, Repr

structure State where
  reg : Registry
  holder : Option Nat
  threads : Nat → Thread
  trace : List Ev

def init : State := { reg := [], holder := none, threads := fun _ => ⟨0, .idle⟩, trace := [] }

def setThread (f : Nat → Thread) (t : Nat) (th : Thread) : Nat → Thread :=
  fun u => if u = t then th else f u

/-- The current call of thread `t` (none = the thread is finished). -/
def curOp (progs : List (List COp)) (st : State) (t : Nat) : Option COp :=
  (progs.getD t [])[(st.threads t).idx]?

/-- One scheduling slot given to thread `t`: performs the thread's next micro-step, or nothing when
the thread is finished or blocked on the mutex. -/
def stepThread (progs : List (List COp)) (st : State) (t : Nat) : State :=
  match curOp progs st t with
  | none => st
  | some op =>
    match (st.threads t).pc with
    | .idle =>
      match st.holder with
      | some _ => st                                     -- blocked in mu.Lock()
      | none =>
        ⟨st.reg, some t, setThread st.threads t ⟨(st.threads t).idx, .locked⟩,
          st.trace ++ [⟨t, (st.threads t).idx, op, .lock, none⟩]⟩
    | .locked =>                                         -- unguarded map access = sequential step
      ⟨(op.apply st.reg).1, st.holder,
        setThread st.threads t ⟨(st.threads t).idx, .accessed (op.apply st.reg).2⟩,
        st.trace ++ [⟨t, (st.threads t).idx, op, .access, none⟩]⟩
    | .accessed res =>                                   -- unguarded mu.Unlock()
      match op with
      | .reg _ =>
        ⟨st.reg, none, setThread st.threads t ⟨(st.threads t).idx + 1, .idle⟩,
          st.trace ++ [⟨t, (st.threads t).idx, op, .unlock, some res⟩]⟩
      | .dial _ =>
        ⟨st.reg, none, setThread st.threads t ⟨(st.threads t).idx, .unlocked res⟩,
          st.trace ++ [⟨t, (st.threads t).idx, op, .unlock, none⟩]⟩
    | .unlocked res =>                                   -- dialer call / ErrMissingDialer, lock not held
      ⟨st.reg, st.holder, setThread st.threads t ⟨(st.threads t).idx + 1, .idle⟩,
        st.trace ++ [⟨t, (st.threads t).idx, op, .dispatch, some res⟩]⟩

def execFrom (progs : List (List COp)) : State → List Nat → State
  | st, [] => st
  | st, t :: ts => execFrom progs (stepThread progs st t) ts

/-- Run a schedule from the initial state (empty registry, mutex free, every thread before its first call). -/
def exec (progs : List (List COp)) (sched : List Nat) : State := execFrom progs init sched

/-- The micro-step thread `t` wants to perform next (ignoring the mutex guard); none = finished. -/
def nextKind (progs : List (List COp)) (st : State) (t : Nat) : Option MuEvent :=
  match curOp progs st t with
  | none => none
  | some _ =>
    match (st.threads t).pc with
    | .idle => some .lock
    | .locked => some .access
    | .accessed _ => some .unlock
    | .unlocked _ => some .dispatch

/-- Between lock and unlock. -/
def inCS : PC → Bool
  | .locked | .accessed _ => true
  | _ => false

/-- A linearised call: thread, number of the call in that thread's program, the call. -/
structure LinOp where
  tid : Nat
  idx : Nat
  op : COp
deriving DecidableEq, Repr

def Ev.id (e : Ev) : LinOp := ⟨e.tid, e.idx, e.op⟩

/-- The calls ordered by the moment of their map access: the `access` events of the trace, in trace order. -/
def lin (tr : List Ev) : List LinOp :=
  tr.filterMap (fun e => if e.kind = .access then some e.id else none)

/-- The calls ordered by the moment of their lock acquisition: the `lock` events of the trace. -/
def lockOrder (tr : List Ev) : List LinOp :=
  tr.filterMap (fun e => if e.kind = .lock then some e.id else none)

/-- The calls of `l` as a plain list. -/
def opsOf (l : List LinOp) : List COp := l.map (·.op)

/-! ### The same threads WITHOUT the mutex (negative, for contrast)

`RegisterContextDialer` on a copy-on-write map without lock: micro-step 1 reads the shared map into a
local snapshot, micro-step 2 publishes `snapshot.step op`.  Each thread performs one call. -/

structure UState where
  reg : Registry
  snap : Nat → Option Registry
  done : Nat → Bool

def uinit : UState := ⟨[], fun _ => none, fun _ => false⟩

def ustep (ops : List RegOp) (st : UState) (t : Nat) : UState :=
  match ops[t]? with
  | none => st
  | some op =>
    if st.done t then st else
    match st.snap t with
    | none => ⟨st.reg, fun u => if u = t then some st.reg else st.snap u, st.done⟩
    | some s => ⟨s.step op, st.snap, fun u => if u = t then true else st.done u⟩

def uexec (ops : List RegOp) (sched : List Nat) : UState := sched.foldl (ustep ops) uinit

end Conc
end Wl2k.Url
