import Wl2kVerif.Std.Strings
/-
Model of `transport/url.go: ParseURL` — its own logic. `net/url.Parse` is an external call:
its result (scheme, host, decoded path, the `host` query parameter) is the input here
(stdlib, trusted; the correspondence run feeds the real `url.Parse` output to this model and an
independent oracle checks the end-to-end composition on component tuples).
-/
namespace Wl2k.Url
open Wl2k Wl2k.Str

/-- What `url.Parse` returned, as far as `ParseURL` looks at it. -/
structure Parsed where
  scheme : Bytes
  host : Bytes
  path : Bytes
  hostParam : Bytes

structure URL where
  scheme : Bytes
  host : Bytes
  target : Bytes
  digis : List Bytes
deriving DecidableEq, Repr

inductive Out where
  | ok (u : URL)
  | errInvalidTarget
  | errDigisUnsupported (u : URL)
deriving DecidableEq, Repr

/-- "ardop", "telnet" as literal bytes (kept literal so that the kernel can evaluate examples). -/
def sArdop : Bytes := [97, 114, 100, 111, 112]
def sTelnet : Bytes := [116, 101, 108, 110, 101, 116]

def digisOf (via : Bytes) : List Bytes :=
  let ds := splitOn 47 (trimByte 47 via)
  if ds.length = 1 ∧ ds.headD [] = [] then [] else ds

def parseURL (p : Parsed) : Out :=
  let path := toUpper p.path
  let (via, target) := pathSplit path
  if target.length < 3 then .errInvalidTarget
  else
    let host := if p.hostParam ≠ [] then p.hostParam else p.host
    let u : URL := { scheme := p.scheme, host := host, target := target, digis := digisOf via }
    let unsupported := p.scheme = sArdop ∨ p.scheme = sTelnet
    if u.digis.length > 0 ∧ unsupported then .errDigisUnsupported u else .ok u

/-- The path a connect URL carries for a digipeater list and a target. -/
def composePath (digis : List Bytes) (target : Bytes) : Bytes :=
  47 :: joinWith 47 (digis ++ [target])

end Wl2k.Url
