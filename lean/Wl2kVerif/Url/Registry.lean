import Wl2kVerif.Util.Hex
/-
Model of the dialer registry in `transport/dial.go`: a map scheme ⇀ dialer behind one mutex.
Each API call is one atomic step (the critical section); `Gen.Facts.dialerMutexEvents` (regenerated)
is what licenses treating them as atomic.
-/
namespace Wl2k.Url

inductive RegOp where
  | register (scheme : Bytes) (dialer : Nat)
  | unregister (scheme : Bytes)
deriving Repr

abbrev Registry := List (Bytes × Nat)

def Registry.step (r : Registry) : RegOp → Registry
  | .register s d => (s, d) :: r.filter (·.1 ≠ s)
  | .unregister s => r.filter (·.1 ≠ s)

def Registry.run (ops : List RegOp) : Registry := ops.foldl Registry.step []

/-- `DialURL`: the registered dialer for the scheme, or `none` = ErrMissingDialer. -/
def Registry.dial (r : Registry) (scheme : Bytes) : Option Nat := (r.find? (·.1 = scheme)).map (·.2)

/-- Events of one function body in source order: lock, unlock, access to the shared map, and
`dispatch` = the call into a registered dialer (`x.DialURL(…)` / `x.DialURLContext(…)`). -/
inductive MuEvent where | lock | unlock | access | dispatch
deriving DecidableEq, Repr

/-- Every access happens with the lock held, the lock is released at the end, and a dialer is only
called with the lock released (a dial may take minutes, or dial through the registry itself). -/
def guarded : Bool → List MuEvent → Bool
  | held, [] => !held
  | held, .lock :: r => !held && guarded true r
  | held, .unlock :: r => held && guarded false r
  | held, .access :: r => held && guarded held r
  | held, .dispatch :: r => !held && guarded held r

end Wl2k.Url
