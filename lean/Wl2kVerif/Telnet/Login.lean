import Wl2kVerif.Std.Strings
/-
Model of the Winlink telnet login of /repo/transport/telnet (dial.go `DialContext`, listen.go
`listener.Accept`, `Conn.Read`), function for function, over CHUNKED and TIMED input.

* What a side receives is a list of chunks `(t, bytes)`: `bytes` become available to `conn.Read` at
  abstract time `t` (one chunk = what one sufficiently large `Read` returns; a smaller `Read` takes a
  prefix and leaves the rest in front). After the last chunk the peer either closes at a time
  (`close = some t`, reads see EOF) or stays silent for ever (`close = none`).
* A connection may carry a deadline `D`: a read that cannot complete before `D` fails at `D`
  (`net.Conn.SetDeadline`); without deadline a read on a silent connection never returns: `hang`.
  Computation takes no time; only waiting for input advances the clock.
* The private `bufio.Reader` is explicit: `buf` is its unread content. `readLine` is
  `bufio.Reader.ReadString('\r')` (ReadSlice / collectFragments / fill with the 4096-byte buffer).
* What the returned `Conn` reads from - the login reader (`drains`) or the raw connection - and
  whether the login I/O is bounded by the context are configuration bits, regenerated from the
  source by harness/cmd/extract (`Gen.telnet…`).
-/
namespace Wl2k.Telnet
open Wl2k Wl2k.Str

/-- `bufio` default buffer size. -/
def bufSize : Nat := 4096

abbrev Chunks := List (Nat × Bytes)

def flat (cs : Chunks) : Bytes := cs.flatMap (·.2)

inductive IOErr | eof | timeout
  deriving DecidableEq, Repr

/-- Is the instant `t` at or after the deadline? -/
def due (D : Option Nat) (t : Nat) : Bool :=
  match D with
  | none => false
  | some d => decide (d ≤ t)

/-- The instant at which a read that started at `now` fails with a timeout. -/
def failTime (D : Option Nat) (now : Nat) : Nat :=
  match D with
  | none => now
  | some d => max now d

inductive Recv
  | data (now : Nat) (bs : Bytes) (rest : Chunks)
  | fail (e : IOErr) (now : Nat)
  | hang

/-- One `conn.Read(p)` with `len(p) = cap`, started at `now`, on a connection with deadline `D`. -/
def recv (D : Option Nat) (now cap : Nat) (close : Option Nat) : Chunks → Recv
  | [] =>
    match close with
    | some t => if due D (max now t) then .fail .timeout (failTime D now) else .fail .eof (max now t)
    | none =>
      match D with
      | some d => .fail .timeout (max now d)
      | none => .hang
  | (t, c) :: cs =>
    if c.isEmpty then recv D now cap close cs
    else if due D (max now t) then .fail .timeout (failTime D now)
    else .data (max now t) (c.take cap) (if c.length ≤ cap then cs else (t, c.drop cap) :: cs)

/-- Split after the first CR: (line including the CR, rest). -/
def splitCR : Bytes → Option (Bytes × Bytes)
  | [] => none
  | b :: t =>
    if b = 13 then some ([13], t)
    else match splitCR t with
      | some (l, r) => some (b :: l, r)
      | none => none

/-- State of `bufio.NewReader(conn)`: unread buffer content, what the connection will still
deliver, and the clock. -/
structure Rd where
  buf : Bytes
  chunks : Chunks
  now : Nat
  deriving DecidableEq, Repr

def Rd.stream (r : Rd) : Bytes := r.buf ++ flat r.chunks

inductive RL
  | ok (line : Bytes) (r : Rd)
  | fail (e : IOErr) (now : Nat)
  | hang
  | fuel

/-- `reader.ReadString('\r')`. `acc` = fragments collected so far (full buffers without CR).
Each round: look for CR in the buffer (ReadSlice); if the buffer is full hand it over as a fragment;
`fill` = ONE read from the connection into the free space of the buffer. -/
def readLineF (D : Option Nat) (close : Option Nat) : Nat → Bytes → Rd → RL
  | 0, _, _ => .fuel
  | f + 1, acc, r =>
    match splitCR r.buf with
    | some (l, rest) => .ok (acc ++ l) { r with buf := rest }
    | none =>
      let full := decide (bufSize ≤ r.buf.length)
      let acc' := if full then acc ++ r.buf else acc
      let buf' := if full then [] else r.buf
      match recv D r.now (bufSize - buf'.length) close r.chunks with
      | .data now bs rest => readLineF D close f acc' ⟨buf' ++ bs, rest, now⟩
      | .fail e now => .fail e now
      | .hang => .hang

def readLine (D close : Option Nat) (r : Rd) : RL :=
  readLineF D close ((flat r.chunks).length + 1) [] r

/-! ### Client: the login loop of `DialContext` -/

inductive Kind | callsign | password | other
  deriving DecidableEq, Repr

def sCallsign : Bytes := [99, 97, 108, 108, 115, 105, 103, 110]
def sPassword : Bytes := [112, 97, 115, 115, 119, 111, 114, 100]

/-- `line = strings.TrimSpace(strings.ToLower(line))`, then the `HasPrefix` switch (ASCII model of
ToLower/TrimSpace; the theorems are stated for an arbitrary classifier). -/
def goClassify (line : Bytes) : Kind :=
  let l := trimSpace (toLower line)
  if hasPrefix l sCallsign then .callsign
  else if hasPrefix l sPassword then .password
  else .other

/-- What the source does, as regenerated facts. -/
structure Cfg where
  clientDrains : Bool   -- DialContext returns a Conn that reads through the login reader
  serverDrains : Bool   -- Accept returns a Conn that reads through the login reader
  loginDeadline : Bool  -- the login I/O of DialContext fails once ctx is done
  deriving DecidableEq, Repr

/-- The logged-in connection handed to the caller. -/
structure Conn where
  drains : Bool
  buf : Bytes          -- content of the login reader at return
  chunks : Chunks      -- what the raw connection will still deliver
  remoteCall : Bytes
  deriving DecidableEq, Repr

/-- Every byte the caller will read from the returned connection, in order. -/
def Conn.stream (c : Conn) : Bytes := (if c.drains then c.buf else []) ++ flat c.chunks

/-- Bytes received from the peer that the caller can never read. -/
def Conn.lost (c : Conn) : Bytes := if c.drains then [] else c.buf

inductive Dial
  | conn (c : Conn) (writes : List Bytes) (now : Nat)
  | fail (e : IOErr) (writes : List Bytes) (now : Nat)
  | hang (writes : List Bytes)
  | fuel
  deriving DecidableEq, Repr

def cmsTargetCall : Bytes := [119, 108, 50, 107]

/-- Outcome of the `for` loop: `break L` with the reader state, or an early return. -/
inductive Loop
  | done (writes : List Bytes) (r : Rd)
  | stop (d : Dial)

/-- The `for` loop; `w` = the `fmt.Fprintf(conn, "%s\r", …)` writes so far (one `Write` each). -/
def clientLoop (classify : Bytes → Kind) (D close : Option Nat) (call pw : Bytes) :
    Nat → List Bytes → Rd → Loop
  | 0, _, _ => .stop .fuel
  | f + 1, w, r =>
    match readLine D close r with
    | .ok line r' =>
      match classify line with
      | .callsign => clientLoop classify D close call pw f (w ++ [call ++ [13]]) r'
      | .password => .done (w ++ [pw ++ [13]]) r'
      | .other => clientLoop classify D close call pw f w r'
    | .fail e now => .stop (.fail e w now)
    | .hang => .stop (.hang w)
    | .fuel => .stop .fuel

/-- `DialContext` after the TCP connect succeeded at `now`. `D` = the instant at which ctx is done
(deadline or cancellation), `none` if never. -/
def dial (classify : Bytes → Kind) (cfg : Cfg) (D close : Option Nat) (call pw : Bytes)
    (now : Nat) (chunks : Chunks) : Dial :=
  let D' := if cfg.loginDeadline then D else none
  match clientLoop classify D' close call pw ((flat chunks).length + 1) [] ⟨[], chunks, now⟩ with
  | .stop d => d
  | .done w r =>
    if due D' r.now then .fail .timeout w r.now   -- `if !stop()`
    else .conn ⟨cfg.clientDrains, r.buf, r.chunks, cmsTargetCall⟩ w r.now

/-! ### Server: `listener.Accept` -/

def callPrompt : Bytes := [67, 97, 108, 108, 115, 105, 103, 110, 32, 58, 13]   -- "Callsign :\r"
def pwPrompt : Bytes := [80, 97, 115, 115, 119, 111, 114, 100, 32, 58, 13]     -- "Password :\r"

inductive Accept
  | conn (c : Conn) (err : Option IOErr) (writes : List Bytes)  -- `return &Conn{…}, err`
  | rawErr (e : IOErr) (writes : List Bytes)                   -- `return conn, err` (callsign read failed)
  | hang (writes : List Bytes)
  | fuel
  deriving DecidableEq, Repr

/-- `Accept` after the TCP accept; `trim` = `strings.TrimSpace`. No deadline on the server side. -/
def accept (trim : Bytes → Bytes) (cfg : Cfg) (close : Option Nat) (chunks : Chunks) : Accept :=
  match readLine none close ⟨[], chunks, 0⟩ with
  | .ok line r =>
    let rc := trim line
    match readLine none close r with
    | .ok _ r' => .conn ⟨cfg.serverDrains, r'.buf, r'.chunks, rc⟩ none [callPrompt, pwPrompt]
    | .fail e _ => .conn ⟨cfg.serverDrains, [], [], rc⟩ (some e) [callPrompt, pwPrompt]
    | .hang => .hang [callPrompt, pwPrompt]
    | .fuel => .fuel
  | .fail e _ => .rawErr e [callPrompt]
  | .hang => .hang [callPrompt]
  | .fuel => .fuel

/-! ### `Conn.Read` after login -/

/-- One `Read(p)` with `len(p) = n > 0` on the returned connection (no deadline; the clock is
dropped). Through the login reader this is `bufio.Reader.Read`: buffered bytes first; on an empty
buffer ONE read from the connection, directly into `p` if `n ≥ 4096`, else into the buffer. -/
def Conn.read (n : Nat) (c : Conn) : Bytes × Conn :=
  if c.drains then
    if c.buf.isEmpty then
      match recv none 0 (if bufSize ≤ n then n else bufSize) none c.chunks with
      | .data _ bs rest => (bs.take n, { c with buf := bs.drop n, chunks := rest })
      | _ => ([], c)
    else (c.buf.take n, { c with buf := c.buf.drop n })
  else
    match recv none 0 n none c.chunks with
    | .data _ bs rest => (bs, { c with chunks := rest })
    | _ => ([], c)

end Wl2k.Telnet
