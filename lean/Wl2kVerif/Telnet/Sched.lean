import Wl2kVerif.Proofs.TelnetPair
/-
The telnet login as an explicit small-step system of TWO BLOCKING PROCESSES under a scheduler.

The dialler (`dial …`, transport/telnet dial.go `DialContext`) and the listener (`accept …`,
listen.go `Accept`) are joined by two byte queues. Nothing is re-modelled here: what a side has
done is, by definition, the existing model function of `Telnet/Login.lean` applied to the chunks
that side has RECEIVED so far (the peer being silent beyond that, no deadline) -

  * `wroteC st` / `wroteS st`  what the dialler / the listener has WRITTEN so far: the login lines
    (`.writes`) and, once the side is through its login, its payload;
  * `st.toClient` / `st.toServer`  what has been DELIVERED so far and in which chunks (one list entry
    per delivery = what one `conn.Read` of the private `bufio.Reader` can see at once);
  * `flightToClient st` / `flightToServer st`  written but not yet delivered;
  * `appC st` / `appS st`, `remoteCall st`  what each side's login consumed is fixed by the model;
    what is left for the caller to read from the returned `Conn`, and the reported callsign.

A step = the scheduler picks a direction and a length `n`: the first `n` bytes in flight in that
direction (all of them if there are fewer) are delivered as ONE new chunk. An invalid choice
(`n = 0`, or nothing in flight in that direction) is skipped. A schedule is a list of choices; every
interleaving of the two directions and every segmentation of the two streams is a schedule.
`steps` counts the effective deliveries.

That "in flight" is well defined (what has been delivered is always a prefix of what has been
written, and what a side has written only grows as it receives more) is a THEOREM about the model
functions: `Proofs/TelnetMono.lean`, `Proofs/TelnetSched.lean`.
-/
namespace Wl2k.Telnet.Sched
open Wl2k Wl2k.Str Wl2k.Telnet

/-- The two programs and their inputs: line classifier of the dialler, trim function of the listener,
configuration bits, callsign, password and the payload each side sends after its login. -/
structure Sys where
  classify : Bytes → Kind
  trim : Bytes → Bytes
  cfg : Cfg
  call : Bytes
  pw : Bytes
  payloadC : Bytes
  payloadS : Bytes

inductive Dir | toClient | toServer
  deriving DecidableEq, Repr

/-- One scheduler decision: deliver (up to) `n` of the bytes in flight in direction `d`. -/
abbrev Choice := Dir × Nat
abbrev Schedule := List Choice

structure St where
  toClient : Chunks   -- delivered to the dialler, in order, one entry per delivery
  toServer : Chunks   -- delivered to the listener
  steps : Nat         -- number of effective deliveries so far
  deriving DecidableEq, Repr

def init : St := ⟨[], [], 0⟩

/-- The dialler, having received `st.toClient` and nothing else (yet). -/
def dialOf (S : Sys) (st : St) : Dial := dial S.classify S.cfg none none S.call S.pw 0 st.toClient

/-- The listener, having received `st.toServer` and nothing else (yet). -/
def acceptOf (S : Sys) (st : St) : Accept := accept S.trim S.cfg none st.toServer

/-- Everything the dialler has written so far. -/
def wroteC (S : Sys) (st : St) : Bytes :=
  (dialOf S st).writes.flatten ++ (if (dialOf S st).loggedIn then S.payloadC else [])

/-- Everything the listener has written so far. -/
def wroteS (S : Sys) (st : St) : Bytes :=
  (acceptOf S st).writes.flatten ++ (if (acceptOf S st).loggedIn then S.payloadS else [])

def flightToClient (S : Sys) (st : St) : Bytes := (wroteS S st).drop (flat st.toClient).length
def flightToServer (S : Sys) (st : St) : Bytes := (wroteC S st).drop (flat st.toServer).length

/-- Nothing in flight in either direction. -/
def quiescent (S : Sys) (st : St) : Bool :=
  (flightToClient S st).isEmpty && (flightToServer S st).isEmpty

def step (S : Sys) (st : St) (c : Choice) : St :=
  match c.1 with
  | .toClient =>
    if c.2 = 0 || (flightToClient S st).isEmpty then st
    else { st with toClient := st.toClient ++ [(0, (flightToClient S st).take c.2)], steps := st.steps + 1 }
  | .toServer =>
    if c.2 = 0 || (flightToServer S st).isEmpty then st
    else { st with toServer := st.toServer ++ [(0, (flightToServer S st).take c.2)], steps := st.steps + 1 }

def runFrom (S : Sys) (st : St) (sched : Schedule) : St := sched.foldl (step S) st

def run (S : Sys) (sched : Schedule) : St := runFrom S init sched

/-- The schedule keeps delivering while something is in flight: no choice is skipped unless nothing
at all is in flight. -/
def greedyFrom (S : Sys) (st : St) : Schedule → Bool
  | [] => true
  | c :: cs =>
    (quiescent S st || decide ((step S st c).steps = st.steps + 1)) && greedyFrom S (step S st c) cs

def greedy (S : Sys) (sched : Schedule) : Bool := greedyFrom S init sched

/-! ### What the two callers observe -/

/-- What the caller can read from the connection returned by `DialContext` (nothing before that). -/
def _root_.Wl2k.Telnet.Dial.stream : Dial → Bytes
  | .conn c _ _ => c.stream
  | _ => []

/-- What the caller can read from the connection returned by `Accept` (nothing before that). -/
def _root_.Wl2k.Telnet.Accept.stream : Accept → Bytes
  | .conn c none _ => c.stream
  | _ => []

def _root_.Wl2k.Telnet.Accept.remoteCall : Accept → Option Bytes
  | .conn c none _ => some c.remoteCall
  | _ => none

/-- Bytes received that the caller can never read. -/
def _root_.Wl2k.Telnet.Dial.lost : Dial → Bytes
  | .conn c _ _ => c.lost
  | _ => []

def _root_.Wl2k.Telnet.Accept.lost : Accept → Bytes
  | .conn c none _ => c.lost
  | _ => []

/-- Everything the two callers and the wire can tell about a state, the chunking forgotten. -/
structure Obs where
  loggedInC : Bool
  loggedInS : Bool
  remoteCall : Option Bytes   -- `RemoteCall()` of the accepted connection
  appC : Bytes                -- what the dialler's caller reads after the login
  appS : Bytes                -- what the listener's caller reads after the login
  lostC : Bytes
  lostS : Bytes
  wroteC : Bytes
  wroteS : Bytes
  deliveredC : Bytes          -- the byte stream delivered to the dialler
  deliveredS : Bytes
  deriving DecidableEq, Repr

def obs (S : Sys) (st : St) : Obs where
  loggedInC := (dialOf S st).loggedIn
  loggedInS := (acceptOf S st).loggedIn
  remoteCall := (acceptOf S st).remoteCall
  appC := (dialOf S st).stream
  appS := (acceptOf S st).stream
  lostC := (dialOf S st).lost
  lostS := (acceptOf S st).lost
  wroteC := wroteC S st
  wroteS := wroteS S st
  deliveredC := flat st.toClient
  deliveredS := flat st.toServer

/-- The completed login as the observation it produces. -/
def doneObs (S : Sys) : Obs where
  loggedInC := true
  loggedInS := true
  remoteCall := some (S.trim (S.call ++ [13]))
  appC := S.payloadS
  appS := S.payloadC
  lostC := []
  lostS := []
  wroteC := S.call ++ [13] ++ (S.pw ++ [13]) ++ S.payloadC
  wroteS := callPrompt ++ pwPrompt ++ S.payloadS
  deliveredC := callPrompt ++ pwPrompt ++ S.payloadS
  deliveredS := S.call ++ [13] ++ (S.pw ++ [13]) ++ S.payloadC

/-- Total number of bytes the two sides ever write in a login. -/
def bound (S : Sys) : Nat :=
  callPrompt.length + pwPrompt.length + S.payloadS.length +
    (S.call.length + 1) + (S.pw.length + 1) + S.payloadC.length

/-- Two canonical schedules: everything in flight delivered at once, alternating directions … -/
def coalescedSched (rounds : Nat) : Schedule :=
  (List.replicate rounds [(Dir.toClient, 1000000), (Dir.toServer, 1000000)]).flatten

/-- … and one byte at a time, alternating directions. -/
def bytewiseSched (rounds : Nat) : Schedule :=
  (List.replicate rounds [(Dir.toClient, 1), (Dir.toServer, 1)]).flatten

end Wl2k.Telnet.Sched
