import Wl2kVerif.Util.Hex
/-
Models of the `strings`/`bytes`/`path` functions the code uses, on byte strings.
ASCII-only case mapping: callers that may see non-ASCII text say so (`isAscii` guard).
Each is differential-checked against Go by a driver op of the same name.
-/
namespace Wl2k.Str

def isAscii (s : Bytes) : Bool := s.all (· < 0x80)

def upperByte (b : UInt8) : UInt8 := if 97 ≤ b && b ≤ 122 then b - 32 else b
def lowerByte (b : UInt8) : UInt8 := if 65 ≤ b && b ≤ 90 then b + 32 else b

/-- `strings.ToUpper` on ASCII text. -/
def toUpper (s : Bytes) : Bytes := s.map upperByte
def toLower (s : Bytes) : Bytes := s.map lowerByte

/-- `strings.Split(s, sep)` for a one-byte separator: always at least one element. -/
def splitOn (sep : UInt8) : Bytes → List Bytes
  | [] => [[]]
  | b :: t =>
    if b = sep then [] :: splitOn sep t
    else match splitOn sep t with
      | h :: r => (b :: h) :: r
      | [] => [[b]]

/-- `strings.Join(xs, sep)` for a one-byte separator. -/
def joinWith (sep : UInt8) : List Bytes → Bytes
  | [] => []
  | [x] => x
  | x :: y :: r => x ++ sep :: joinWith sep (y :: r)

/-- `strings.Trim(s, string(c))`. -/
def trimByte (c : UInt8) (s : Bytes) : Bytes :=
  ((s.dropWhile (· = c)).reverse.dropWhile (· = c)).reverse

/-- `path.Split`: (dir incl. final slash, file). -/
def pathSplit (p : Bytes) : Bytes × Bytes :=
  let r := p.reverse
  ((r.dropWhile (· ≠ 47)).reverse, (r.takeWhile (· ≠ 47)).reverse)

/-- Go's `asciiSpace` as used by `strings.TrimSpace` on ASCII input (also U+0085/U+00A0 for non-ASCII: not modelled). -/
def isSpace (b : UInt8) : Bool := b = 32 || (9 ≤ b && b ≤ 13)

def trimSpace (s : Bytes) : Bytes :=
  ((s.dropWhile isSpace).reverse.dropWhile isSpace).reverse

def hasPrefix (s p : Bytes) : Bool := p.isPrefixOf s
def hasSuffix (s p : Bytes) : Bool := p.reverse.isPrefixOf s.reverse

end Wl2k.Str

namespace Wl2k.Str

/-- `strings.LastIndex(s, string(c))` for a single byte: position or none -/
def lastIndexByte (s : Bytes) (c : UInt8) : Option Nat :=
  match s.reverse.findIdx? (· = c) with
  | some i => some (s.length - 1 - i)
  | none => none

/-- `strings.Contains(s, sub)` -/
def containsSub : Bytes → Bytes → Bool
  | [], sub => sub.isEmpty
  | s@(_ :: t), sub => sub.isPrefixOf s || containsSub t sub

/-- ASCII `strings.EqualFold` -/
def equalFoldAscii (a b : Bytes) : Bool := toLower a == toLower b

end Wl2k.Str
