import Wl2kVerif.Std.Strings
import Wl2kVerif.Std.Utf8
/-
`strings.TrimSpace` exactly as Go does it on arbitrary bytes: rune-wise with `unicode.IsSpace`
(U+0085, U+00A0, U+1680, U+2000..U+200A, U+2028, U+2029, U+202F, U+205F, U+3000 besides the ASCII
ones); invalid bytes decode to U+FFFD, which is not a space.
-/
namespace Wl2k.Str
open Wl2k.Utf8

/-- `unicode.IsSpace` -/
def isSpaceRune (r : Nat) : Bool :=
  r = 32 || (9 ≤ r && r ≤ 13) || r = 0x85 || r = 0xA0 || r = 0x1680 || (0x2000 ≤ r && r ≤ 0x200A) ||
  r = 0x2028 || r = 0x2029 || r = 0x202F || r = 0x205F || r = 0x3000

def trimLeftU : Nat → Bytes → Bytes
  | 0, s => s
  | _, [] => []
  | f + 1, s =>
    let (r, n) := decodeRune s
    if isSpaceRune r then trimLeftU f (s.drop (max n 1)) else s

/-- `utf8.DecodeLastRune` -/
def decodeLastRune (p : Bytes) : Nat × Nat :=
  let e := p.length
  if e = 0 then (runeError, 0)
  else
    let last := p.getD (e - 1) 0
    if last < 0x80 then (last.toNat, 1)
    else
      -- for start = e-2 down to max(0, e-4): stop at the first RuneStart
      let cand := ([2, 3, 4].filter (· ≤ e)).find? (fun k => runeStart (p.getD (e - k) 0))
      let start := match cand with
        | some k => e - k
        | none => if e ≤ 4 then 0 else e - 5
      let (r, size) := decodeRune (p.drop start)
      if start + size ≠ e then (runeError, 1) else (r, size)

def trimRightU : Nat → Bytes → Bytes
  | 0, s => s
  | f + 1, s =>
    if s.isEmpty then s
    else
      let (r, n) := decodeLastRune s
      if isSpaceRune r then trimRightU f (s.take (s.length - max n 1)) else s

/-- `strings.TrimSpace` -/
def trimSpaceU (s : Bytes) : Bytes := trimRightU s.length (trimLeftU s.length s)

end Wl2k.Str
