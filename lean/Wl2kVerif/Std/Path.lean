import Wl2kVerif.Std.Strings
/-
Go's lexical path functions (`GOROOT/src/path/path.go`, go1.24) on byte strings:
`Clean`, `Join`, `Split`, and `filepath.Ext` / ASCII `strings.EqualFold` as used by
`mailbox/syncdir.go`. Differential-checked against the real functions by the driver ops
`pathclean`, `pathjoin`, `pathext` (harness/cmd/corr/c12.go).

`Clean`'s main loop consumes, per iteration, either one `/` or one whole slash-free element
(the `default` case copies up to the next `/`; the `.`/`..` cases test that the element ends at
`r+1`/`r+2`). The transcription folds over the slash-separated elements: an empty element is the
`path[r] == '/'` case. The output buffer is `lazybuf` seen as the bytes `buf[0:w]`; `dotdot` is the
index below which `..` must not backtrack.
-/
namespace Wl2k.Path
open Wl2k Wl2k.Str

/-- The backtrack loop `for out.w > dotdot && out.index(out.w) != '/' { out.w-- }`.
`rk` is the kept prefix `buf[0:w]` reversed, `d` is `buf[w]`. -/
def popAux (dotdot : Nat) : Bytes → UInt8 → Bytes
  | [], _ => []
  | b :: t, d => if (b :: t).length > dotdot ∧ d ≠ 47 then popAux dotdot t b else b :: t

/-- `out.w--` followed by the backtrack loop. -/
def popElem (out : Bytes) (dotdot : Nat) : Bytes :=
  match out.reverse with
  | [] => []
  | d :: rk => (popAux dotdot rk d).reverse

/-- One iteration group of `Clean`'s loop on the element `c` (state: written bytes, `dotdot`). -/
def stepComp (rooted : Bool) (st : Bytes × Nat) (c : Bytes) : Bytes × Nat :=
  if c = [] then st                                   -- case path[r] == '/'
  else if c = [46] then st                            -- "." element
  else if c = [46, 46] then                           -- ".." element
    if st.1.length > st.2 then (popElem st.1 st.2, st.2)      -- can backtrack
    else if !rooted then                                      -- cannot backtrack, but not rooted: append ".."
      let o := (if st.1.length > 0 then st.1 ++ [47] else st.1) ++ [46, 46]
      (o, o.length)
    else st
  else                                                -- real path element
    ((if (rooted && st.1.length != 1) || (!rooted && st.1.length != 0) then st.1 ++ [47] else st.1) ++ c, st.2)

def isRooted (p : Bytes) : Bool := p.head? == some 47

def cleanInit (rooted : Bool) : Bytes × Nat := if rooted then ([47], 1) else ([], 0)

def cleanState (p : Bytes) : Bytes × Nat :=
  (splitOn 47 p).foldl (stepComp (isRooted p)) (cleanInit (isRooted p))

/-- `path.Clean`. -/
def clean (p : Bytes) : Bytes :=
  if p = [] then [46]
  else
    let r := cleanState p
    if r.1 = [] then [46] else r.1

/-- The buffer `path.Join` builds before calling `Clean`: an element is added (after a `/` when the
buffer is non-empty) if the buffer is non-empty or the element is. -/
def joinBuf (elems : List Bytes) : Bytes :=
  elems.foldl (fun buf e =>
    if buf ≠ [] ∨ e ≠ [] then (if buf ≠ [] then buf ++ [47] else buf) ++ e else buf) []

/-- `path.Join`. -/
def join (elems : List Bytes) : Bytes :=
  if elems.all (· = []) then [] else clean (joinBuf elems)

/-- `filepath.Ext` (Unix): the suffix starting at the last `.` of the last element, else empty. -/
def ext (p : Bytes) : Bytes :=
  let r := p.reverse
  let suf := r.takeWhile (fun b => b ≠ 46 ∧ b ≠ 47)
  match r.drop suf.length with
  | 46 :: _ => 46 :: suf.reverse
  | _ => []

/-- `strings.EqualFold` restricted to ASCII letters (the only folding `.b2f` can take part in). -/
def equalFoldAscii (a b : Bytes) : Bool := toLower a == toLower b

/-- Lexical confinement of a *clean* path `p` below the clean directory `d`. -/
def isUnder (d p : Bytes) : Bool :=
  if d = [47] then p.head? == some 47
  else if d = [46] then p.head? != some 47 && !(p == [46, 46]) && !([46, 46, 47].isPrefixOf p)
  else p == d || (d ++ [47]).isPrefixOf p

end Wl2k.Path
