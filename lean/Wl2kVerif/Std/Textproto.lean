import Wl2kVerif.Std.Strings
/-
Transcription of Go 1.24 `net/textproto` as used by `fbb.Message.ReadFrom` / `fbb.Header`:
`ReadMIMEHeader` (reader.go: readLineSlice, readContinuedLineSlice, skipSpace, readMIMEHeader,
canonicalMIMEHeaderKey, validHeaderFieldByte, validHeaderValueByte, trim), `CanonicalMIMEHeaderKey`,
`TrimString`, and the `MIMEHeader` map operations `Add/Set/Get/Del`.

The reader is modelled over the WHOLE remaining byte string (what a `bufio.Reader` delivers
irrespective of how the underlying reader chunks it; that chunk-independence of `bufio` is a stdlib
assumption, exercised by the harness with 1-byte / random / data+EOF readers). The memory limits
(`maxMemory`, `maxHeaders` = MaxInt64 in `ReadMIMEHeader`) are unreachable and not modelled.
A Go map is an association list with distinct keys; the order of entries is first insertion
(immaterial in Go; `Header.write` sorts).
-/
namespace Wl2k.Textproto
open Wl2k

/-- the reader's `trim`, `skipSpace`, `bytes.TrimLeft(v, " \t")`: space and tab -/
def isBlank (b : UInt8) : Bool := b == 32 || b == 9

/-- `isASCIISpace` of textproto (`TrimString`): space, tab, LF, CR -/
def isASCIISpace (b : UInt8) : Bool := b == 32 || b == 9 || b == 10 || b == 13

def trimWith (p : UInt8 → Bool) (s : Bytes) : Bytes :=
  ((s.dropWhile p).reverse.dropWhile p).reverse

/-- reader.go `trim` -/
def trim (s : Bytes) : Bytes := trimWith isBlank s

/-- `textproto.TrimString` -/
def trimString (s : Bytes) : Bytes := trimWith isASCIISpace s

/-- `validHeaderFieldByte`: RFC 7230 tchar -/
def validFieldByte (c : UInt8) : Bool :=
  (48 ≤ c && c ≤ 57) || (97 ≤ c && c ≤ 122) || (65 ≤ c && c ≤ 90) ||
  c == 33 || c == 35 || c == 36 || c == 37 || c == 38 || c == 39 || c == 42 || c == 43 ||
  c == 45 || c == 46 || c == 94 || c == 95 || c == 96 || c == 124 || c == 126

/-- `validHeaderValueByte`: HTAB, SP, VCHAR, obs-text (≥ 0x80) -/
def validValueByte (c : UInt8) : Bool := c == 9 || (32 ≤ c && c != 127)

/-- the canonicalising loop of `canonicalMIMEHeaderKey` -/
def canonLoop : Bool → Bytes → Bytes
  | _, [] => []
  | upper, c :: t =>
    let c' : UInt8 :=
      if upper && 97 ≤ c && c ≤ 122 then c - 32
      else if !upper && 65 ≤ c && c ≤ 90 then c + 32
      else c
    c' :: canonLoop (c' == 45) t

/-- `canonicalMIMEHeaderKey(a)`: (key, ok). A key with a space is accepted un-canonicalised;
any other non-token byte, or an empty key, is rejected. -/
def canonKeyB (a : Bytes) : Bytes × Bool :=
  if a.isEmpty then ([], false)
  else if a.any (fun c => !validFieldByte c && c != 32) then (a, false)
  else if a.any (· == 32) then (a, true)
  else (canonLoop true a, true)

/-- `textproto.CanonicalMIMEHeaderKey(s)`: unchanged if any byte is not a token byte. -/
def canonKey (s : Bytes) : Bytes := if s.all validFieldByte then canonLoop true s else s

/-! ### MIMEHeader (a Go `map[string][]string`) -/

abbrev MIMEHeader := List (Bytes × List Bytes)

/-- `h[k]` (nil when absent) -/
def lookup (h : MIMEHeader) (k : Bytes) : List Bytes :=
  match h with
  | [] => []
  | (k', vs) :: t => if k' = k then vs else lookup t k

/-- `h[k] = append(h[k], v)` -/
def addRaw : MIMEHeader → Bytes → Bytes → MIMEHeader
  | [], k, v => [(k, [v])]
  | (k', vs) :: t, k, v => if k' = k then (k', vs ++ [v]) :: t else (k', vs) :: addRaw t k v

/-- `h[k] = []string{v}` -/
def setRaw : MIMEHeader → Bytes → Bytes → MIMEHeader
  | [], k, v => [(k, [v])]
  | (k', vs) :: t, k, v => if k' = k then (k', [v]) :: t else (k', vs) :: setRaw t k v

/-- `delete(h, k)` -/
def delRaw (h : MIMEHeader) (k : Bytes) : MIMEHeader := h.filter (fun e => e.1 != k)

def add (h : MIMEHeader) (k v : Bytes) : MIMEHeader := addRaw h (canonKey k) v
def set (h : MIMEHeader) (k v : Bytes) : MIMEHeader := setRaw h (canonKey k) v
def del (h : MIMEHeader) (k : Bytes) : MIMEHeader := delRaw h (canonKey k)

/-- first value of `h[k]` or "" — the unexported `Header.get` of fbb -/
def getRaw (h : MIMEHeader) (k : Bytes) : Bytes := (lookup h k).headD []

/-- `MIMEHeader.Get` -/
def get (h : MIMEHeader) (k : Bytes) : Bytes := getRaw h (canonKey k)

/-! ### Reader -/

inductive Err
  | eof            -- io.EOF (stream ended inside the header)
  | malformed      -- textproto.ProtocolError
  deriving DecidableEq, Repr

/-- bytes before the first LF, and what follows it (`none`: no LF) -/
def splitLF : Bytes → Bytes × Option Bytes
  | [] => ([], none)
  | b :: t =>
    if b = 10 then ([], some t)
    else match splitLF t with
      | (l, r) => (b :: l, r)

def dropCR (l : Bytes) : Bytes := if l.getLast? = some 13 then l.dropLast else l

/-- `readLineSlice(-1)`: one line without its "\n"/"\r\n"; at EOF the unterminated rest is a
line (no CR stripped); `none` = io.EOF with no data. -/
def readLine (s : Bytes) : Option (Bytes × Bytes) :=
  match s with
  | [] => none
  | _ :: _ =>
    match splitLF s with
    | (l, some r) => some (dropCR l, r)
    | (l, none) => some (l, [])

/-- The continuation loop of `readContinuedLineSlice` (`for r.skipSpace() > 0 {...}`); a read error
inside it is swallowed (`break`) after the separating space has been appended. -/
def contLoop : Nat → Bytes → Bytes → Bytes × Bytes
  | 0, buf, s => (buf, s)
  | f + 1, buf, s =>
    match s with
    | [] => (buf, [])
    | b :: t =>
      if isBlank b then
        match readLine (t.dropWhile isBlank) with
        | none => (buf ++ [32], [])
        | some (l, r) => contLoop f (buf ++ [32] ++ trim l) r
      else (buf, s)

/-- `readContinuedLineSlice(lim, mustHaveFieldNameColon)`: (joined line, rest). -/
def readContinued (s : Bytes) : Except Err (Bytes × Bytes) :=
  match readLine s with
  | none => .error .eof
  | some (line, rest) =>
    if line.isEmpty then .ok ([], rest)
    else if !line.contains 58 then .error .malformed
    else .ok (contLoop rest.length (trim line) rest)

/-- `bytes.Cut(kv, ":")` -/
def cutColon : Bytes → Option (Bytes × Bytes)
  | [] => none
  | b :: t =>
    if b = 58 then some ([], t)
    else match cutColon t with
      | some (k, v) => some (b :: k, v)
      | none => none

/-- One `Key: value` entry (already joined) into the map, or the ProtocolError. -/
def addLine (h : MIMEHeader) (kv : Bytes) : Except Err MIMEHeader :=
  match cutColon kv with
  | none => .error .malformed
  | some (k, v) =>
    match canonKeyB k with
    | (_, false) => .error .malformed
    | (key, true) =>
      if v.all validValueByte then .ok (addRaw h key (v.dropWhile isBlank)) else .error .malformed

def readHeaderLoop : Nat → MIMEHeader → Bytes → Except Err (MIMEHeader × Bytes)
  | 0, _, _ => .error .eof
  | f + 1, h, s =>
    match readContinued s with
    | .error e => .error e
    | .ok (kv, rest) =>
      if kv.isEmpty then .ok (h, rest)
      else match addLine h kv with
        | .error e => .error e
        | .ok h' => readHeaderLoop f h' rest

/-- `Reader.ReadMIMEHeader`: the header map and the unread rest of the stream. -/
def readMIMEHeader (s : Bytes) : Except Err (MIMEHeader × Bytes) :=
  match s with
  | b :: _ => if isBlank b then .error .malformed else readHeaderLoop (s.length + 1) [] s
  | [] => readHeaderLoop 1 [] s

end Wl2k.Textproto
