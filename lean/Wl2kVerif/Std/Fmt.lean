import Wl2kVerif.Util.Hex
/-
Models of the `fmt` verbs and `strconv` pieces the code uses on integers.
Differential-checked against Go by the `fmt.*` driver ops.
-/
namespace Wl2k.Fmt

def digit (n : Nat) : UInt8 := UInt8.ofNat (48 + n % 10)

/-- Digit loop with explicit fuel (structural, so that `decide` can evaluate it). -/
def decAux : Nat → Nat → Bytes
  | 0, n => [digit n]
  | f + 1, n => if n < 10 then [digit n] else decAux f (n / 10) ++ [digit n]

/-- `strconv.Itoa` / `%d` of a non-negative integer. Fuel `n` always suffices (`Proofs.Fmt.dec_ge`). -/
def dec (n : Nat) : Bytes := decAux n n

/-- `%d` of a Go `int`. -/
def decInt (i : Int) : Bytes :=
  if i < 0 then (45 : UInt8) :: dec i.natAbs else dec i.natAbs

/-- Left padding with `c` to width `w` (what `%0wd`, `%wd` do for a non-negative number). -/
def padLeft (c : UInt8) (w : Nat) (s : Bytes) : Bytes :=
  List.replicate (w - s.length) c ++ s

/-- `%0wd` for a non-negative number. -/
def dec0 (w n : Nat) : Bytes := padLeft 48 w (dec n)
/-- `%wd` for a non-negative number. -/
def decSp (w n : Nat) : Bytes := padLeft 32 w (dec n)

/-- `s[len(s)-k:]` for `k ≤ len(s)`. -/
def lastN (k : Nat) (s : Bytes) : Bytes := s.drop (s.length - k)

/-- Exactly `k` decimal digits of `x mod 10^k`, most significant first. -/
def fixed : Nat → Nat → Bytes
  | 0, _ => []
  | k + 1, x => fixed k (x / 10) ++ [digit x]

def hexU (n : Nat) : UInt8 := if n % 16 < 10 then UInt8.ofNat (48 + n % 16) else UInt8.ofNat (55 + n % 16)

/-- `%X` of a non-negative integer. -/
def hexUpper (n : Nat) : Bytes :=
  if _h : n < 16 then [hexU n] else hexUpper (n / 16) ++ [hexU n]
termination_by n
decreasing_by omega

/-- `%02X` -/
def hex02 (n : Nat) : Bytes := padLeft 48 2 (hexUpper n)

end Wl2k.Fmt
