import Wl2kVerif.Util.Hex
/-
`strconv.Atoi` and `strconv.ParseInt(s, 16, 64)` on 64-bit Go: value AND error flag (most call sites in
fbb ignore the error and use the value, so the value on error matters: 0 for syntax errors, the clamped
bound for range errors).
-/
namespace Wl2k.Strconv

def maxInt64 : Int := 9223372036854775807
def minInt64 : Int := -9223372036854775808

def isDigit (b : UInt8) : Bool := 48 ≤ b && b ≤ 57

def digitsVal (s : Bytes) : Nat := s.foldl (fun n b => n * 10 + (b.toNat - 48)) 0

def clamp (neg : Bool) (n : Nat) : Int × Bool :=
  if neg then (if (n : Int) > 9223372036854775808 then (minInt64, true) else (-(n : Int), false))
  else (if (n : Int) > maxInt64 then (maxInt64, true) else ((n : Int), false))

/-- `strconv.Atoi(s)`: (value, err ≠ nil) -/
def atoi (s : Bytes) : Int × Bool :=
  let (neg, body) :=
    match s with
    | 45 :: t => (true, t)
    | 43 :: t => (false, t)
    | _ => (false, s)
  if body.isEmpty then (0, true)
  else if body.all isDigit then clamp neg (digitsVal body)
  -- Go scans from the left and reports the RANGE error the moment the digits read so far overflow uint64,
  -- before it would meet the invalid character (`99999999999999999999E` gives MaxInt64, not 0)
  else if digitsVal (body.takeWhile isDigit) > 18446744073709551615 then ((if neg then minInt64 else maxInt64), true)
  else (0, true)

def hexVal? (b : UInt8) : Option Nat :=
  if 48 ≤ b && b ≤ 57 then some (b.toNat - 48)
  else if 97 ≤ b && b ≤ 102 then some (b.toNat - 87)
  else if 65 ≤ b && b ≤ 70 then some (b.toNat - 55)
  else none

/-- `strconv.ParseInt(s, 16, 64)`: (value, err ≠ nil) -/
def parseHex64 (s : Bytes) : Int × Bool :=
  let (neg, body) :=
    match s with
    | 45 :: t => (true, t)
    | 43 :: t => (false, t)
    | _ => (false, s)
  if body.isEmpty then (0, true)
  else
    match body.mapM hexVal? with
    | none =>
      -- as in `atoi`: overflow of the hex digits read so far is reported before a later invalid character
      if ((body.takeWhile fun b => (hexVal? b).isSome).filterMap hexVal?).foldl (fun n d => n * 16 + d) 0 > 18446744073709551615
      then ((if neg then minInt64 else maxInt64), true) else (0, true)
    | some ds => clamp neg (ds.foldl (fun n d => n * 16 + d) 0)

end Wl2k.Strconv
