import Wl2kVerif.Util.Hex
/-
Go's `unicode/utf8` decoding rules (`utf8.DecodeRune`, `utf8.RuneStart`, `utf8.EncodeRune`),
as used by `range` over a string, by go-charset's code-page translator and by `wrapLen`.
Invalid or truncated sequences decode to (U+FFFD, 1) exactly as in Go.
-/
namespace Wl2k.Utf8

def runeError : Nat := 0xFFFD

def isCont (b : UInt8) : Bool := 0x80 ≤ b && b ≤ 0xBF

/-- `utf8.RuneStart(b)`: `b&0xC0 != 0x80`. -/
def runeStart (b : UInt8) : Bool := !(isCont b)

/-- `utf8.DecodeRune`: (rune, size). Empty input gives (RuneError, 0). -/
def decodeRune : Bytes → Nat × Nat
  | [] => (runeError, 0)
  | b0 :: t =>
    if b0 < 0x80 then (b0.toNat, 1)
    else if 0xC2 ≤ b0 && b0 ≤ 0xDF then
      match t with
      | b1 :: _ => if isCont b1 then ((b0.toNat % 32) * 64 + b1.toNat % 64, 2) else (runeError, 1)
      | _ => (runeError, 1)
    else if 0xE0 ≤ b0 && b0 ≤ 0xEF then
      match t with
      | b1 :: b2 :: _ =>
        let lo : UInt8 := if b0 == 0xE0 then 0xA0 else 0x80
        let hi : UInt8 := if b0 == 0xED then 0x9F else 0xBF
        if lo ≤ b1 && b1 ≤ hi && isCont b2 then
          ((b0.toNat % 16) * 4096 + (b1.toNat % 64) * 64 + b2.toNat % 64, 3)
        else (runeError, 1)
      | _ => (runeError, 1)
    else if 0xF0 ≤ b0 && b0 ≤ 0xF4 then
      match t with
      | b1 :: b2 :: b3 :: _ =>
        let lo : UInt8 := if b0 == 0xF0 then 0x90 else 0x80
        let hi : UInt8 := if b0 == 0xF4 then 0x8F else 0xBF
        if lo ≤ b1 && b1 ≤ hi && isCont b2 && isCont b3 then
          ((b0.toNat % 8) * 262144 + (b1.toNat % 64) * 4096 + (b2.toNat % 64) * 64 + b3.toNat % 64, 4)
        else (runeError, 1)
      | _ => (runeError, 1)
    else (runeError, 1)

/-- `utf8.EncodeRune` (surrogates and out-of-range encode U+FFFD as Go does). -/
def encodeRune (r : Nat) : Bytes :=
  let r := if r > 0x10FFFF ∨ (0xD800 ≤ r ∧ r ≤ 0xDFFF) then runeError else r
  if r < 0x80 then [UInt8.ofNat r]
  else if r < 0x800 then [UInt8.ofNat (0xC0 + r / 64), UInt8.ofNat (0x80 + r % 64)]
  else if r < 0x10000 then [UInt8.ofNat (0xE0 + r / 4096), UInt8.ofNat (0x80 + r / 64 % 64), UInt8.ofNat (0x80 + r % 64)]
  else [UInt8.ofNat (0xF0 + r / 262144), UInt8.ofNat (0x80 + r / 4096 % 64), UInt8.ofNat (0x80 + r / 64 % 64), UInt8.ofNat (0x80 + r % 64)]

/-- The runes a Go `for _, c := range s` loop sees. Structural: `skip` bytes of the current
character are still to be passed over. -/
def runesS : Nat → Bytes → List Nat
  | _, [] => []
  | k + 1, _ :: t => runesS k t
  | 0, b :: t => let (r, n) := decodeRune (b :: t); r :: runesS (n - 1) t

def runes (s : Bytes) : List Nat := runesS 0 s

end Wl2k.Utf8
