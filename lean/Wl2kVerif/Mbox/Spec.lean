import Wl2kVerif.Mbox.Dir
/-
The reference model of property C10: four folders of messages keyed by MID, a deferred set that lives
for one session, send-only mode. No paths, no files, no serialisation.

* outbound: `addOut` puts the message in the outbox, `setSent` moves it to sent;
* inbound: `processInbound` stores the message flagged unread; a proposal is rejected iff a message
  with that MID is in the inbox (always deferred in send-only mode, and for a MID that cannot be stored);
* `setDeferred` hides a MID from `getOutbound` until the next `prepare`/restart;
* `getOutbound fws`: for a CMS (`fws = []`) everything not marked P2P-only, for a P2P peer only
  messages whose sole receiver is one of `fws`; private headers removed;
* listings are in file-name order (`MID ++ ".b2f"`, byte-wise), without the `X-FilePath` header.

`ready` = the directory structure exists (`prepare` has run at least once on this directory).
-/
namespace Wl2k.Mbox
open Wl2k

structure SState where
  ready : Bool := false
  inbox : List Msg := []
  outbox : List Msg := []
  sent : List Msg := []
  archive : List Msg := []
  deferred : Option (List Bytes) := none
  sendOnly : Bool := false
deriving Repr, DecidableEq

namespace SState

def get (s : SState) : Folder → List Msg
  | .inbox => s.inbox | .outbox => s.outbox | .sent => s.sent | .archive => s.archive

def set (s : SState) (f : Folder) (l : List Msg) : SState :=
  match f with
  | .inbox => { s with inbox := l } | .outbox => { s with outbox := l }
  | .sent => { s with sent := l } | .archive => { s with archive := l }

end SState

/-- A MID the mailbox can store: a plain file name, short enough for `<MID>.b2f.tmp`. -/
def storable (mid : Bytes) : Bool := validMID mid && mid.length + 8 ≤ nameMax

def insertMsg (m : Msg) (l : List Msg) : List Msg := m :: l.filter (·.mid ≠ m.mid)

def keyLe (a b : Msg) : Bool := bytesLe (a.mid ++ ext) (b.mid ++ ext)

def listing (l : List Msg) : List Msg := isort keyLe l

namespace Spec

def processInbound (s : SState) : List Msg → SState × Res
  | [] => (s, .ok)
  | m :: rest =>
    if !storable m.mid || !s.ready then (s, .err)
    else processInbound { s with inbox := insertMsg m.setUnreadHdr.erasePath s.inbox } rest

def isDeferred (s : SState) (mid : Bytes) : Bool :=
  match s.deferred with
  | none => false
  | some d => d.contains mid

def step (s : SState) : Op → SState × Res
  | .newHandler so => ({ s with deferred := none, sendOnly := so }, .ok)
  | .prepare => ({ s with ready := true, deferred := some [] }, .ok)
  | .addOut m =>
    if !storable m.mid || !s.ready then (s, .err)
    else ({ s with outbox := insertMsg m.erasePath s.outbox }, .ok)
  | .processInbound ms => processInbound s ms
  | .getInboundAnswer mid =>
    (s, .answer (if s.sendOnly then .defer else if !validMID mid then .defer
      else if s.inbox.any (·.mid = mid) then .reject else .accept))
  | .setSent mid =>
    if !validMID mid then (s, .fatal)
    else match s.outbox.find? (·.mid = mid) with
      | none => (s, .fatal)
      | some m => ({ s with outbox := s.outbox.filter (·.mid ≠ mid), sent := insertMsg m s.sent }, .ok)
  | .setDeferred mid =>
    match s.deferred with
    | none => (s, .panic)
    | some d => ({ s with deferred := some (mid :: d) }, .ok)
  | .getOutbound fws => (s, .out ((listing s.outbox).filterMap (outboundSel (isDeferred s) fws)))
  | .list f => if s.ready then (s, .msgs (listing (s.get f))) else (s, .err)
  | .count f => (s, .count (if s.ready then (s.get f).length else -1))
  | .setUnread f mid flag =>
    if !s.ready then (s, .err)
    else match (listing (s.get f)).find? (·.mid = mid) with
      | none => (s, .notFound)
      | some m =>
        if !flag ∧ hget m.unread = [] then (s, .ok)
        else (s.set f (insertMsg { m with unread := if flag then some sTrue else none } (s.get f)), .ok)
  | .isUnread f mid =>
    if !s.ready then (s, .err)
    else match (listing (s.get f)).find? (·.mid = mid) with
      | none => (s, .notFound)
      | some m => (s, .bool (isUnread m))

def run (s : SState) : List Op → SState × List Res
  | [] => (s, [])
  | op :: rest =>
    let (s1, r) := step s op
    let (s2, rs) := run s1 rest
    (s2, r :: rs)

end Spec

/-- What the property compares: folder listings without the `X-FilePath` header (the local path of
the file is not part of the reference model); everything else verbatim — in particular the messages
returned by `GetOutbound` with all their headers. -/
def observe : Res → Res
  | .msgs l => .msgs (l.map Msg.erasePath)
  | r => r

end Wl2k.Mbox
