import Wl2kVerif.Mbox.Msg
import Wl2kVerif.Mbox.FS
/-
`mailbox.DirHandler` (mailbox/syncdir.go, after the three repairs: private headers removed in both
branches of GetOutbound, message files written to `<name>.tmp` and renamed, MIDs that are not a plain
file name refused), function for function, over the abstract file system.

Go panics and `log.Fatalf` are explicit results (`Res.panic`, `Res.fatal`).
Not modelled: a message whose `Bytes()` fails (unparsable Date header) — messages are serialisable;
non-ASCII case folding in `IsOnlyReceiver`; I/O errors other than "no such directory", "is a
directory" and NAME_MAX.
-/
namespace Wl2k.Mbox
open Wl2k

inductive Folder where | inbox | outbox | sent | archive
deriving DecidableEq, Repr

/-- `DIR_INBOX` … `DIR_ARCHIVE`. -/
def Folder.dir : Folder → Bytes
  | .inbox => [47, 105, 110, 47]                              -- "/in/"
  | .outbox => [47, 111, 117, 116, 47]                        -- "/out/"
  | .sent => [47, 115, 101, 110, 116, 47]                     -- "/sent/"
  | .archive => [47, 97, 114, 99, 104, 105, 118, 101, 47]     -- "/archive/"

def Folder.all : List Folder := [.inbox, .outbox, .sent, .archive]

/-- `Ext` -/
def ext : Bytes := [46, 98, 50, 102]       -- ".b2f"
def tmpExt : Bytes := [46, 116, 109, 112]  -- ".tmp"

inductive Answer where | accept | reject | defer
deriving DecidableEq, Repr

/-- What a caller observes from one operation. -/
inductive Res where
  | ok | err | panic | fatal | notFound
  | answer (a : Answer)
  /-- a folder listing -/
  | msgs (l : List Msg)
  /-- the result of `GetOutbound` -/
  | out (l : List Msg)
  | count (n : Int)
  | bool (b : Bool)
deriving DecidableEq, Repr

structure Handler where
  root : FPath
  /-- `deferred map[string]bool`, nil until `Prepare`. -/
  deferred : Option (List Bytes) := none
  sendOnly : Bool := false
deriving DecidableEq, Repr

structure DState where
  fs : FS
  h : Handler
deriving Repr

/-- `validMID`: usable as the base name of a message file. -/
def validMID (mid : Bytes) : Bool :=
  mid ≠ [] && mid.head? != some 46 && !mid.any (fun b => b = 47 || b = 92 || b = 0)

def folderPath (root : FPath) (f : Folder) : FPath := Path.join [root, f.dir]
/-- `path.Join(h.MBoxPath, DIR_X, MID+Ext)` (AddOut, GetInboundAnswer, SetSent). -/
def msgPath3 (root : FPath) (f : Folder) (mid : Bytes) : FPath := Path.join [root, f.dir, mid ++ ext]
/-- `path.Join(path.Join(h.MBoxPath, DIR_X), name)` (ProcessInbound, LoadMessageDir). -/
def msgPath2 (root : FPath) (f : Folder) (name : Bytes) : FPath := Path.join [folderPath root f, name]

/-- `writeFileAtomic`: write `<p>.tmp`, rename to `p`; the temporary file is removed on failure. -/
def writeFileAtomic (fs : FS) (p : FPath) (c : Bytes) : FS × Bool :=
  match fs.writeFile (p ++ tmpExt) c with
  | none => (fs.remove (p ++ tmpExt), false)
  | some fs1 =>
    match fs1.rename (p ++ tmpExt) p with
    | none => (fs1.remove (p ++ tmpExt), false)
    | some fs2 => (fs2, true)

/-- `ensureDirStructure`. -/
def ensureDirStructure (fs : FS) (root : FPath) : Option FS :=
  (((fs.mkdirAll (folderPath root .inbox)).bind (·.mkdirAll (folderPath root .outbox))).bind
    (·.mkdirAll (folderPath root .sent))).bind (·.mkdirAll (folderPath root .archive))

/-- `OpenMessage`. -/
def openMessage (C : Codec) (fs : FS) (p : FPath) : Option Msg :=
  ((fs.lookup p).bind C.parse).map (·.setFilePath p)

/-- The file-name filter of `LoadMessageDir`. -/
def visibleName (n : Bytes) : Bool := n.head? != some 46 && Path.equalFoldAscii (Path.ext n) ext

def loadAll (C : Codec) (fs : FS) (d : FPath) : List Bytes → Option (List Msg)
  | [] => some []
  | n :: t =>
    match openMessage C fs (Path.join [d, n]) with
    | none => none
    | some m => (loadAll C fs d t).map (m :: ·)

/-- `LoadMessageDir`: `none` = error (directory unreadable, or any message fails to parse). -/
def loadMessageDir (C : Codec) (fs : FS) (d : FPath) : Option (List Msg) :=
  match fs.readDir d with
  | none => none
  | some ents =>
    let names := ents.filterMap fun (n, c) => if c.isSome ∧ visibleName n then some n else none
    loadAll C fs d (isort bytesLe names)

/-- `countFiles`. -/
def countFiles (fs : FS) (d : FPath) : Int :=
  match fs.readDir d with
  | none => -1
  | some ents => ents.length

/-- `AddOut`. -/
def addOut (C : Codec) (s : DState) (m : Msg) : DState × Res :=
  if !validMID m.mid then (s, .err)
  else
    let (fs, ok) := writeFileAtomic s.fs (msgPath3 s.h.root .outbox m.mid) (C.ser m)
    ({ s with fs := fs }, if ok then .ok else .err)

/-- `ProcessInbound` (variadic; stops at the first failure). -/
def processInbound (C : Codec) (s : DState) : List Msg → DState × Res
  | [] => (s, .ok)
  | m :: rest =>
    if !validMID m.mid then (s, .err)
    else
      let (fs, ok) := writeFileAtomic s.fs (msgPath2 s.h.root .inbox (m.mid ++ ext)) (C.ser m.setUnreadHdr)
      if ok then processInbound C { s with fs := fs } rest else ({ s with fs := fs }, .err)

/-- `GetInboundAnswer`. -/
def getInboundAnswer (s : DState) (mid : Bytes) : Answer :=
  if s.h.sendOnly then .defer
  else if !validMID mid then .defer
  else if s.fs.canOpen (msgPath3 s.h.root .inbox mid) then .reject
  else .accept

/-- `SetSent`: `log.Fatalf` when the MID is not a file name or the rename fails. -/
def setSent (s : DState) (mid : Bytes) : DState × Res :=
  if !validMID mid then (s, .fatal)
  else
    match s.fs.rename (msgPath3 s.h.root .outbox mid) (msgPath3 s.h.root .sent mid) with
    | none => (s, .fatal)
    | some fs => ({ s with fs := fs }, .ok)

/-- `SetDeferred`: assignment to a nil map panics. -/
def setDeferred (s : DState) (mid : Bytes) : DState × Res :=
  match s.h.deferred with
  | none => (s, .panic)
  | some d => ({ s with h := { s.h with deferred := some (mid :: d) } }, .ok)

def isDeferred (h : Handler) (mid : Bytes) : Bool :=
  match h.deferred with
  | none => false
  | some d => d.contains mid

/-- The selection of `GetOutbound` for one message: `none` = skipped. -/
def outboundSel (deferred : Bytes → Bool) (fws : List Bytes) (m : Msg) : Option Msg :=
  if deferred m.mid then none
  else if fws ≠ [] then (if fws.any m.isOnlyReceiver then some m.strip else none)
  else if hget m.p2p = sTrue then none
  else some m.strip

/-- `GetOutbound`: a load error is logged and treated as an empty outbox. -/
def getOutbound (C : Codec) (s : DState) (fws : List Bytes) : List Msg :=
  ((loadMessageDir C s.fs (folderPath s.h.root .outbox)).getD []).filterMap (outboundSel (isDeferred s.h) fws)

/-- `mailbox.SetUnread` on a message object. -/
def setUnread (C : Codec) (fs : FS) (m : Msg) (unread : Bool) : FS × Res :=
  if !unread ∧ hget m.unread = [] then (fs, .ok)
  else
    let m' : Msg := { m with unread := if unread then some sTrue else none }
    if hget m'.fpath = [] then (fs, .err)
    else
      let (fs', ok) := writeFileAtomic fs (hget m'.fpath) (C.ser m')
      (fs', if ok then .ok else .err)

def isUnread (m : Msg) : Bool := hget m.unread = sTrue

inductive Op where
  /-- a fresh `NewDirHandler(root, sendOnly)` on the same directory (restart) -/
  | newHandler (sendOnly : Bool)
  | prepare
  | addOut (m : Msg)
  | processInbound (ms : List Msg)
  | getInboundAnswer (mid : Bytes)
  | setSent (mid : Bytes)
  | setDeferred (mid : Bytes)
  | getOutbound (fws : List Bytes)
  | list (f : Folder)
  | count (f : Folder)
  /-- load the folder, pick the message with this MID, `SetUnread(msg, flag)` -/
  | setUnread (f : Folder) (mid : Bytes) (flag : Bool)
  | isUnread (f : Folder) (mid : Bytes)
deriving Repr

def step (C : Codec) (s : DState) : Op → DState × Res
  | .newHandler so => ({ s with h := { root := s.h.root, deferred := none, sendOnly := so } }, .ok)
  | .prepare =>
    let s1 := { s with h := { s.h with deferred := some [] } }
    match ensureDirStructure s.fs s.h.root with
    | none => (s1, .err)
    | some fs => ({ s1 with fs := fs }, .ok)
  | .addOut m => addOut C s m
  | .processInbound ms => processInbound C s ms
  | .getInboundAnswer mid => (s, .answer (getInboundAnswer s mid))
  | .setSent mid => setSent s mid
  | .setDeferred mid => setDeferred s mid
  | .getOutbound fws => (s, .out (getOutbound C s fws))
  | .list f =>
    match loadMessageDir C s.fs (folderPath s.h.root f) with
    | none => (s, .err)
    | some l => (s, .msgs l)
  | .count f => (s, .count (countFiles s.fs (folderPath s.h.root f)))
  | .setUnread f mid flag =>
    match loadMessageDir C s.fs (folderPath s.h.root f) with
    | none => (s, .err)
    | some l =>
      match l.find? (·.mid = mid) with
      | none => (s, .notFound)
      | some m => let (fs, r) := setUnread C s.fs m flag; ({ s with fs := fs }, r)
  | .isUnread f mid =>
    match loadMessageDir C s.fs (folderPath s.h.root f) with
    | none => (s, .err)
    | some l =>
      match l.find? (·.mid = mid) with
      | none => (s, .notFound)
      | some m => (s, .bool (isUnread m))

def run (C : Codec) (s : DState) : List Op → DState × List Res
  | [] => (s, [])
  | op :: rest =>
    let (s1, r) := step C s op
    let (s2, rs) := run C s1 rest
    (s2, r :: rs)

def DState.init (root : FPath) (sendOnly : Bool) : DState := { fs := {}, h := { root := root, sendOnly := sendOnly } }

end Wl2k.Mbox
