import Wl2kVerif.Std.Path
/-
Abstract file system used by the mailbox model: a finite map path ⇀ content plus a set of
directories. Only the POSIX facts the mailbox relies on are modelled: `open(O_CREAT|O_TRUNC)` empties
or creates (parent directory must exist, NAME_MAX = 255), `write` appends, `rename` is atomic and
replaces the target, `readdir` lists the entries of one directory. Permissions, links, durability
(fsync) and concurrent processes are not modelled.

`touched` logs every path handed to a mutating system call (create/truncate, rename source and
target, unlink) — the write set of property C12. It never influences behaviour.
-/
namespace Wl2k.Mbox
open Wl2k

abbrev FPath := Bytes

structure FS where
  files : List (FPath × Bytes) := []
  dirs : List FPath := []
  touched : List FPath := []
deriving Repr, DecidableEq

/-- `path.Split` based parent directory of a clean path (`.` for a bare name). -/
def parentOf (p : FPath) : FPath :=
  let d := (Str.pathSplit p).1
  if d = [] then [46] else if d = [47] then [47] else d.dropLast

def baseOf (p : FPath) : Bytes := (Str.pathSplit p).2

def nameMax : Nat := 255

namespace FS

def lookup (fs : FS) (p : FPath) : Option Bytes := (fs.files.find? (·.1 = p)).map (·.2)

def isFile (fs : FS) (p : FPath) : Bool := fs.files.any (·.1 = p)

def isDir (fs : FS) (p : FPath) : Bool := p = [47] || p = [46] || fs.dirs.contains p

def setFile (fs : FS) (p : FPath) (c : Bytes) : FS :=
  { fs with files := (p, c) :: fs.files.filter (·.1 ≠ p) }

def delFile (fs : FS) (p : FPath) : FS := { fs with files := fs.files.filter (·.1 ≠ p) }

def touch (fs : FS) (ps : List FPath) : FS := { fs with touched := fs.touched ++ ps }

/-- May a regular file be created (or truncated) at `p`? -/
def canCreate (fs : FS) (p : FPath) : Bool :=
  fs.isDir (parentOf p) && !fs.isDir p && baseOf p ≠ [] && (baseOf p).length ≤ nameMax

/-- `ioutil.WriteFile`: `open(O_WRONLY|O_CREAT|O_TRUNC)`, `write`, `close`. -/
def writeFile (fs : FS) (p : FPath) (c : Bytes) : Option FS :=
  if fs.canCreate p then some ((fs.setFile p c).touch [p]) else none

/-- `os.Rename` of a regular file: atomic, replaces an existing target file. -/
def rename (fs : FS) (a b : FPath) : Option FS :=
  match fs.lookup a with
  | none => none
  | some c => if fs.canCreate b then some (((fs.delFile a).setFile b c).touch [a, b]) else none

/-- `os.Remove` of a regular file (the error is ignored by the caller). -/
def remove (fs : FS) (p : FPath) : FS := (fs.delFile p).touch [p]

/-- `os.MkdirAll`: fails if a regular file is in the way. Only `p` itself is recorded: the mailbox
never reads or lists an ancestor of its folders, so their existence is not tracked. Does not log
(C12 does not range over `Prepare`). -/
def mkdirAll (fs : FS) (p : FPath) : Option FS :=
  if fs.isFile p then none
  else some { fs with dirs := if fs.isDir p then fs.dirs else fs.dirs ++ [p] }

/-- `ioutil.ReadDir` without the sort: `(name, some content)` for files, `(name, none)` for
sub-directories; `none` if the directory does not exist. -/
def readDir (fs : FS) (d : FPath) : Option (List (Bytes × Option Bytes)) :=
  if !fs.isDir d then none
  else some (
    (fs.files.filterMap fun (p, c) => if parentOf p = d ∧ baseOf p ≠ [] then some (baseOf p, some c) else none)
    ++ (fs.dirs.filterMap fun q => if parentOf q = d ∧ q ≠ d ∧ baseOf q ≠ [] then some (baseOf q, none) else none))

/-- `os.Open(p)` succeeds (regular file or directory). -/
def canOpen (fs : FS) (p : FPath) : Bool := fs.isFile p || fs.isDir p

end FS

/-! Byte-wise lexicographic order and a structural insertion sort (`ioutil.ReadDir` sorts by name). -/

def bytesLe : Bytes → Bytes → Bool
  | [], _ => true
  | _ :: _, [] => false
  | a :: s, b :: t => a < b || (a == b && bytesLe s t)

def insertBy {α} (le : α → α → Bool) (x : α) : List α → List α
  | [] => [x]
  | y :: t => if le x y then x :: y :: t else y :: insertBy le x t

def isort {α} (le : α → α → Bool) : List α → List α
  | [] => []
  | x :: t => insertBy le x (isort le t)

end Wl2k.Mbox
