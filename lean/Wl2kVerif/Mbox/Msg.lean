import Wl2kVerif.Std.Strings
/-
The mailbox's view of a stored message (`mailbox/syncdir.go` only looks at these parts of an
`fbb.Message`): the MID, the receiver list, the three mailbox-private headers, and "the rest"
(all other headers, body, attachments) as an opaque identity `payload`.

The on-disk form is abstract: a `Codec` with `parse (ser m) = some m` (and `parse "" = none`).
The real codec is `fbb.Message.Bytes`/`ReadFrom` (property C09, modelled elsewhere); the harness
validates both laws on the real code for every message it uses, and measures what `ReadFrom` does on
every proper prefix of real serialisations (C11).
-/
namespace Wl2k.Mbox
open Wl2k

structure Msg where
  mid : Bytes
  /-- `Receivers()`: To then Cc, each as `Address.String()`. -/
  rcpts : List Bytes
  /-- `X-P2POnly` header (`none` = absent). -/
  p2p : Option Bytes
  /-- `X-Unread` header. -/
  unread : Option Bytes
  /-- `X-FilePath` header. -/
  fpath : Option Bytes
  /-- identity of everything else in the message (other headers, body, attachments) -/
  payload : Nat
deriving DecidableEq, Repr

/-- `Header.Get`: first value or "". -/
def hget (v : Option Bytes) : Bytes := v.getD []

def sTrue : Bytes := [116, 114, 117, 101]  -- "true"

def Msg.setUnreadHdr (m : Msg) : Msg := { m with unread := some sTrue }
def Msg.setFilePath (m : Msg) (p : Bytes) : Msg := { m with fpath := some p }
def Msg.erasePath (m : Msg) : Msg := { m with fpath := none }
/-- `removePrivateHeaders`. -/
def Msg.strip (m : Msg) : Msg := { m with p2p := none, unread := none, fpath := none }

/-- `Message.IsOnlyReceiver(addr)`: exactly one receiver, equal to `addr` under ASCII case folding
(`strings.EqualFold`; non-ASCII addresses are outside the model). -/
def Msg.isOnlyReceiver (m : Msg) (fw : Bytes) : Bool :=
  match m.rcpts with
  | [r] => Str.toLower r == Str.toLower fw
  | _ => false

structure Codec where
  ser : Msg → Bytes
  parse : Bytes → Option Msg

structure Codec.Lawful (C : Codec) : Prop where
  parse_ser : ∀ m, C.parse (C.ser m) = some m
  parse_nil : C.parse [] = none

/-! ### A concrete lawful codec (used by the driver, and as the non-vacuity witness)

Self-delimiting: a byte string is `1 b` per byte and a final `0`; a number is unary. -/
namespace Toy

def encB : Bytes → Bytes
  | [] => [0]
  | b :: t => 1 :: b :: encB t

def decB : Bytes → Option (Bytes × Bytes)
  | 0 :: r => some ([], r)
  | 1 :: b :: r => (decB r).map fun (x, r') => (b :: x, r')
  | _ => none

theorem decB_encB (x r : Bytes) : decB (encB x ++ r) = some (x, r) := by
  induction x with
  | nil => simp [encB, decB]
  | cons b t ih => simp [encB, decB, ih]

def encN : Nat → Bytes
  | 0 => [0]
  | n + 1 => 1 :: encN n

def decN : Bytes → Option (Nat × Bytes)
  | 0 :: r => some (0, r)
  | 1 :: r => (decN r).map fun (x, r') => (x + 1, r')
  | _ => none

theorem decN_encN (n : Nat) (r : Bytes) : decN (encN n ++ r) = some (n, r) := by
  induction n with
  | zero => simp [encN, decN]
  | succ k ih => simp [encN, decN, ih]

def encO : Option Bytes → Bytes
  | none => [0]
  | some x => 1 :: encB x

def decO : Bytes → Option (Option Bytes × Bytes)
  | 0 :: r => some (none, r)
  | 1 :: r => (decB r).map fun (x, r') => (some x, r')
  | _ => none

theorem decO_encO (o : Option Bytes) (r : Bytes) : decO (encO o ++ r) = some (o, r) := by
  cases o with
  | none => simp [encO, decO]
  | some x => simp [encO, decO, decB_encB]

def encL : List Bytes → Bytes
  | [] => [0]
  | x :: t => 1 :: (encB x ++ encL t)

/-- Fuel = input length bounds the number of elements. -/
def decL : Nat → Bytes → Option (List Bytes × Bytes)
  | _, 0 :: r => some ([], r)
  | f + 1, 1 :: r =>
    match decB r with
    | some (x, r') => (decL f r').map fun (l, r'') => (x :: l, r'')
    | none => none
  | _, _ => none

theorem decL_encL (l : List Bytes) (r : Bytes) (f : Nat) (hf : l.length ≤ f) :
    decL f (encL l ++ r) = some (l, r) := by
  induction l generalizing f with
  | nil => cases f <;> simp [encL, decL]
  | cons x t ih =>
    cases f with
    | zero => simp at hf
    | succ f =>
      simp only [encL, List.cons_append, List.append_assoc, decL, decB_encB]
      rw [ih f (by simpa using hf)]
      rfl

def ser (m : Msg) : Bytes :=
  77 :: (encB m.mid ++ (encL m.rcpts ++ (encO m.p2p ++ (encO m.unread ++ (encO m.fpath ++ encN m.payload)))))

def parse (b : Bytes) : Option Msg :=
  match b with
  | 77 :: r0 =>
    match decB r0 with
    | some (mid, r1) =>
      match decL r1.length r1 with
      | some (rc, r2) =>
        match decO r2 with
        | some (p2p, r3) =>
          match decO r3 with
          | some (un, r4) =>
            match decO r4 with
            | some (fp, r5) =>
              match decN r5 with
              | some (pl, []) => some ⟨mid, rc, p2p, un, fp, pl⟩
              | _ => none
            | none => none
          | none => none
        | none => none
      | none => none
    | none => none
  | _ => none

theorem encL_length (l : List Bytes) : l.length < (encL l).length := by
  induction l with
  | nil => simp [encL]
  | cons x t ih => simp only [encL, List.length_cons, List.length_append]; omega

theorem parse_ser (m : Msg) : parse (ser m) = some m := by
  have h5 := decN_encN m.payload []
  simp only [List.append_nil] at h5
  have hl : m.rcpts.length ≤
      (encL m.rcpts ++ (encO m.p2p ++ (encO m.unread ++ (encO m.fpath ++ encN m.payload)))).length := by
    have := encL_length m.rcpts
    simp only [List.length_append]; omega
  simp only [ser, parse, decB_encB, decL_encL _ _ _ hl, decO_encO, h5]

def codec : Codec := ⟨ser, parse⟩

theorem lawful : codec.Lawful := ⟨parse_ser, rfl⟩

end Toy
end Wl2k.Mbox
