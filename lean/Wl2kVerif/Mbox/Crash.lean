import Wl2kVerif.Mbox.Dir
/-
Crash model of property C11: a mutating mailbox operation denotes the sequence of file-system
system calls it issues; the process may die before or after any of them, and inside a `write` after
any prefix of its bytes has been stored. What survives is the file system (`FS`); the handler is
rebuilt on restart. Power loss (un-synced data, directory-entry durability) is outside the property.
-/
namespace Wl2k.Mbox
open Wl2k

inductive Sys where
  /-- `openat(p, O_WRONLY|O_CREAT|O_TRUNC)` -/
  | openTrunc (p : FPath)
  /-- `write(fd of p, b)` — appends at the file offset -/
  | write (p : FPath) (b : Bytes)
  | close (p : FPath)
  | rename (a b : FPath)
  | unlink (p : FPath)
deriving Repr, DecidableEq

/-- Effect of one system call; a failing call changes nothing. -/
def Sys.apply (fs : FS) : Sys → FS
  | .openTrunc p => if fs.canCreate p then fs.setFile p [] else fs
  | .write p b => match fs.lookup p with
    | some c => fs.setFile p (c ++ b)
    | none => fs
  | .close _ => fs
  | .rename a b => (fs.rename a b).getD fs
  | .unlink p => fs.delFile p

def runScript (fs : FS) (l : List Sys) : FS := l.foldl Sys.apply fs

/-- Every file-system state the process can die in while executing the script: before each call,
after the last one, and after each proper prefix of every `write`. -/
def crashStates (fs : FS) : List Sys → List FS
  | [] => [fs]
  | .write p b :: rest =>
    fs :: ((List.range b.length).map fun k => Sys.apply fs (.write p (b.take k)))
      ++ crashStates (Sys.apply fs (.write p b)) rest
  | s :: rest => fs :: crashStates (Sys.apply fs s) rest

/-- `ioutil.WriteFile(t, c)` then `os.Rename(t, p)` — what `writeFileAtomic` issues. -/
def atomicScript (t p : FPath) (c : Bytes) : List Sys :=
  [.openTrunc t, .write t c, .close t, .rename t p]

/-- `ioutil.WriteFile(p, c)` straight onto the final name — what the code issued before the repair. -/
def directScript (p : FPath) (c : Bytes) : List Sys :=
  [.openTrunc p, .write p c, .close p]

/-- What a restarted mailbox can observe of the file system: the four folder listings (or their
failure) and, for every MID, whether a proposal for it would be answered "already received". -/
def sameView (C : Codec) (root : FPath) (a b : FS) : Prop :=
  (∀ f : Folder, loadMessageDir C a (folderPath root f) = loadMessageDir C b (folderPath root f)) ∧
  (∀ mid, validMID mid = true → a.canOpen (msgPath3 root .inbox mid) = b.canOpen (msgPath3 root .inbox mid))

/-- Executable version of `sameView` over a finite MID universe (driver). -/
def sameViewB (C : Codec) (root : FPath) (mids : List Bytes) (a b : FS) : Bool :=
  Folder.all.all (fun f => loadMessageDir C a (folderPath root f) == loadMessageDir C b (folderPath root f)) &&
  mids.all (fun mid => a.canOpen (msgPath3 root .inbox mid) == b.canOpen (msgPath3 root .inbox mid))

end Wl2k.Mbox
