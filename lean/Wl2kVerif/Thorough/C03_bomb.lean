import Wl2kVerif.Props.C03_alloc
import Wl2kVerif.Proofs.AllocBomb
/-
Thorough-tier witness for `decode_output_proportional` (slow: `Proofs/AllocWitness.lean` takes ~8 minutes).
-/
namespace Wl2k.Props.C03
open Wl2k Wl2k.Lzhuf Wl2k.B2F

/-- `bombStream = compress false (60 × ' ') = 3c 00 00 00 c5 1d 80`: one maximal match, 17 bits. Every
sequence of more than 60 non-empty reads returns exactly 60 bytes — out of a 7-byte stream — and the
bounds allow 48 · 7 = 336, resp. 6 · 24 + 60 = 204. -/
example : ∃ d, Reader.new false bombStream = .ok d ∧ bombStream.length = 7 ∧
    ∀ ns : List Nat, (∀ n ∈ ns, 0 < n) → 60 < ns.length →
      (readsWith d ns).2 = List.replicate 60 32 ∧ bombStream.length < (readsWith d ns).2.length ∧
      (readsWith d ns).2.length ≤ 48 * bombStream.length := by
  refine ⟨bombReader, bomb_new, rfl, ?_⟩
  intro ns hpos hlen
  have h60 : (max 0 bombReader.size).toNat = 60 := by decide
  obtain ⟨k, e, -, hk⟩ := Wl2k.Props.C08.read_terminates_index false _ bombReader ns bomb_new hpos
    (by rw [h60]; exact hlen)
  have hr := (bomb_reads ns ⟨e, List.mem_of_getElem? hk⟩).1
  refine ⟨hr, ?_, decode_output_proportional false _ _ ns bomb_new⟩
  rw [hr]
  decide


end Wl2k.Props.C03
