import Wl2kVerif.B2F.Session
/-
Helper lemmas for `Props/C04_dup.lean`: a proposal whose MID occurred earlier in the same block is answered
'=' (Defer) by `writeProposalsAnswer`, whatever the handler says — the handler is not even asked.
-/
namespace Wl2k.B2F
open Wl2k

/-- `rs` answers `ps` position by position, keeps the MIDs, and keeps every answer that was already fixed -/
def Keeps : List Proposal → List Proposal → Prop
  | [], [] => True
  | p :: ps, r :: rs => r.mid = p.mid ∧ (p.answer ≠ 0 → r.answer = p.answer) ∧ Keeps ps rs
  | _, _ => False

theorem Keeps.refl : ∀ ps, Keeps ps ps
  | [] => trivial
  | _ :: ps => ⟨rfl, fun _ => rfl, Keeps.refl ps⟩

theorem Keeps.length : ∀ {ps rs}, Keeps ps rs → rs.length = ps.length
  | [], [], _ => rfl
  | _ :: _, _ :: _, h => by simp [Keeps.length h.2.2]
  | [], _ :: _, h => h.elim
  | _ :: _, [], h => h.elim

theorem Keeps.append : ∀ {a a' b b'}, Keeps a a' → Keeps b b' → Keeps (a ++ b) (a' ++ b')
  | [], [], _, _, _, h => h
  | _ :: _, _ :: _, _, _, h1, h2 => ⟨h1.1, h1.2.1, Keeps.append h1.2.2 h2⟩
  | [], _ :: _, _, _, h, _ => h.elim
  | _ :: _, [], _, _, h, _ => h.elim

theorem Keeps.get : ∀ {ps rs}, Keeps ps rs → ∀ (j : Nat) (h1 : j < ps.length) (h2 : j < rs.length),
    rs[j].mid = ps[j].mid ∧ (ps[j].answer ≠ 0 → rs[j].answer = ps[j].answer)
  | _ :: _, _ :: _, h, 0, _, _ => ⟨h.1, h.2.1⟩
  | _ :: _, _ :: _, h, j + 1, h1, h2 => Keeps.get h.2.2 j (Nat.lt_of_succ_lt_succ h1) (Nat.lt_of_succ_lt_succ h2)
  | [], _, _, _, h1, _ => absurd h1 (Nat.not_lt_zero _)

variable {H : Type} (hstep : H → Call → H × Reply)

/-- every run of `askEach` returns (it never panics), and its result keeps the pre-assigned answers -/
theorem askEach_run_keeps : ∀ (ps acc : List Proposal) (inp : Bytes) (h : H) (tr : List Ev),
    ∃ rs inp' h' tr', Proc.run hstep (askEach ps acc) inp h tr = (.done (acc.reverse ++ rs), inp', h', tr') ∧ Keeps ps rs := by
  intro ps
  induction ps with
  | nil => intro acc inp h tr; exact ⟨[], inp, h, tr, by simp [askEach, Proc.run], trivial⟩
  | cons p ps ih =>
    intro acc inp h tr
    unfold askEach
    by_cases hp : p.answer ≠ 0
    · rw [if_pos hp]
      obtain ⟨rs, i', h', t', e, k⟩ := ih (p :: acc) inp h tr
      exact ⟨p :: rs, i', h', t', by simpa using e, rfl, fun _ => rfl, k⟩
    · rw [if_neg hp]
      simp only [Proc.run]
      cases hr : (hstep h (.getInboundAnswer (viewOf p))).2 with
      | answer a =>
        obtain ⟨rs, i', h', t', e, k⟩ := ih ({ p with answer := a } :: acc) inp (hstep h (.getInboundAnswer (viewOf p))).1
          (.called (.getInboundAnswer (viewOf p)) :: tr)
        refine ⟨{ p with answer := a } :: rs, i', h', t', ?_, rfl, fun h0 => absurd h0 hp, k⟩
        simpa [hr] using e
      | _ =>
        obtain ⟨rs, i', h', t', e, k⟩ := ih (p :: acc) inp (hstep h (.getInboundAnswer (viewOf p))).1
          (.called (.getInboundAnswer (viewOf p)) :: tr)
        refine ⟨p :: rs, i', h', t', ?_, rfl, fun _ => rfl, k⟩
        simpa [hr] using e

theorem assignAnswers_keeps : ∀ (ps : List Proposal) (as : List UInt8) (rs : List Proposal),
    assignAnswers ps as = some rs → Keeps ps rs := by
  intro ps
  induction ps with
  | nil => intro as rs h; simp [assignAnswers] at h; subst h; trivial
  | cons p ps ih =>
    intro as rs h
    unfold assignAnswers at h
    by_cases hp : p.answer ≠ 0
    · rw [if_pos hp] at h
      simp only [Option.map_eq_some_iff] at h
      obtain ⟨rs', h1, rfl⟩ := h
      exact ⟨rfl, fun _ => rfl, ih as rs' h1⟩
    · rw [if_neg hp] at h
      cases as with
      | nil => simp at h
      | cons a as' =>
        simp only [Option.map_eq_some_iff] at h
        obtain ⟨rs', h1, rfl⟩ := h
        exact ⟨rfl, fun h0 => absurd h0 hp, ih as' rs' h1⟩

/-- what `preAnswer` fixes: same MIDs, and '=' for every MID already seen -/
theorem preAnswer_spec (hh : Bool) : ∀ (ps : List Proposal) (seen : List Bytes),
    (preAnswer hh ps seen).length = ps.length ∧
    ∀ (j : Nat) (h1 : j < ps.length) (h2 : j < (preAnswer hh ps seen).length),
      (preAnswer hh ps seen)[j].mid = ps[j].mid ∧
      ((ps[j].mid ∈ seen ∨ ∃ (i : Nat) (hi : i < j), ps[i].mid = ps[j].mid) → (preAnswer hh ps seen)[j].answer = ansDefer) := by
  intro ps
  induction ps with
  | nil => intro seen; exact ⟨rfl, fun j h1 => absurd h1 (Nat.not_lt_zero _)⟩
  | cons p ps ih =>
    intro seen
    obtain ⟨l, g⟩ := ih (p.mid :: seen)
    refine ⟨by simp [preAnswer, l], ?_⟩
    intro j h1 h2
    cases j with
    | zero =>
      refine ⟨by simp [preAnswer], ?_⟩
      rintro (hm | ⟨i, hi, _⟩)
      · have hm' : p.mid ∈ seen := by simpa using hm
        simp [preAnswer, hm']
      · exact absurd hi (Nat.not_lt_zero _)
    | succ j =>
      have h1' : j < ps.length := Nat.lt_of_succ_lt_succ h1
      have h2' : j < (preAnswer hh ps (p.mid :: seen)).length := by rw [l]; exact h1'
      obtain ⟨gm, ga⟩ := g j h1' h2'
      refine ⟨by simpa [preAnswer] using gm, ?_⟩
      intro hd
      have : ps[j].mid ∈ p.mid :: seen ∨ ∃ (i : Nat) (hi : i < j), ps[i].mid = ps[j].mid := by
        rcases hd with hm | ⟨i, hi, he⟩
        · exact .inl (List.mem_cons_of_mem _ (by simpa using hm))
        · cases i with
          | zero => exact .inl (by simp at he; simp [he])
          | succ i => exact .inr ⟨i, Nat.lt_of_succ_lt_succ hi, by simpa using he⟩
      simpa [preAnswer] using ga this

end Wl2k.B2F
