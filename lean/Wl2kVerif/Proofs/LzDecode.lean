import Wl2kVerif.B2F.Session
import Wl2kVerif.Proofs.Reader
namespace Wl2k.B2F
open Wl2k Wl2k.Lzhuf

/-- `lzReadAll` succeeds only by reaching EOF with `Close() = nil`; what it returns is exactly what
that sequence of reads returned. -/
theorem lzReadAll_some : ∀ (fuel : Nat) (d : Reader) (acc out : Bytes),
    lzReadAll d acc fuel = .ok out →
    ∃ ns : List Nat, (readsWith d ns).1.close = none ∧ out = acc ++ (readsWith d ns).2 := by
  intro fuel
  induction fuel with
  | zero => intro d acc out h; simp [lzReadAll] at h
  | succ f ih =>
    intro d acc out h
    unfold lzReadAll at h
    rcases hr : d.read 32768 with ⟨d', bs, e⟩
    rw [hr] at h
    cases e with
    | none =>
      simp only at h
      obtain ⟨ns, h1, h2⟩ := ih d' (acc ++ bs) out h
      refine ⟨32768 :: ns, ?_, ?_⟩
      · simp only [readsWith, hr]; exact h1
      · simp only [readsWith, hr]; rw [h2]; simp
    | some e =>
      cases e with
      | eof =>
        simp only at h
        cases hc : d'.close with
        | none =>
          simp only [hc, Except.ok.injEq] at h
          refine ⟨[32768], ?_, ?_⟩
          · simp only [readsWith, hr]; exact hc
          · simp only [readsWith, hr]; rw [← h]; simp
        | some e' => cases e' <;> simp [hc] at h
      | unexpectedEOF => simp at h
      | checksum => simp at h

/-- **What the session delivers passed the decompressor's integrity verdict**: if `lzDecode cdata`
succeeds with `data`, a reader was built from `cdata`, some sequence of reads returned exactly `data`,
and `Close()` reported success for that state. -/
theorem lzDecode_some (cdata data : Bytes) (h : lzDecode cdata = some data) :
    ∃ d ns, Reader.new true cdata = .ok d ∧ (readsWith d ns).1.close = none ∧ data = (readsWith d ns).2 := by
  unfold lzDecode lzDecodeE at h
  cases hn : Reader.new true cdata with
  | error e => simp [hn] at h
  | ok d =>
    simp only [hn] at h
    cases hl : lzReadAll d [] (d.size.toNat + 3) with
    | error e => simp [hl] at h
    | ok out =>
      simp only [hl, Option.some.injEq] at h
      subst h
      obtain ⟨ns, h1, h2⟩ := lzReadAll_some _ d [] out hl
      exact ⟨d, ns, rfl, h1, by simpa using h2⟩

end Wl2k.B2F
