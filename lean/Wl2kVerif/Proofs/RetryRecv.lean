import Wl2kVerif.Proofs.RetrySend
/-
The receiver's turn inside the real rest of a session, with everything the accounting argument needs (compare
`Proofs/WholeRecv.lean`): the answers are the handler's answers (`answersOf`), what is handed over on ANY prefix
of the frames — also when the fetch loop fails midway — is an initial segment of the accepted payloads, a session
that ends in this turn calls neither `SetSent` nor `ProcessInbound` afterwards, and the handler state when the
turn completes is the replay of the turn's events.
-/
namespace Wl2k.B2F
open Wl2k Wl2k.Fmt Wl2k.Str Wl2k.Strconv

/-- **The fetch loop on any prefix of the block's frames, whatever its outcome**: the payloads it hands over
are an initial segment of the accepted proposals' payloads (each the payload SENT, by `readCompressed_prefix_ok`). -/
theorem fetchAll_prefix_any {H : Type} (hstep : H → Call → H × Reply) (m : Nat) (hm1 : 1 ≤ m) (hm2 : m ≤ 255) (fuel : Nat)
    (dataOf : Proposal → Bytes) (rest : Bytes) :
    ∀ (ps : List Proposal) (as : List UInt8), (∀ p ∈ ps, FrameOK fuel dataOf p) →
    ∀ (st : SState) (J : Bytes) (h : H) (tr : List Ev), J <+: framesBytes m ps as ++ rest →
      ∃ fev, (Proc.run hstep (fetchAll fuel (List.zipWith setAns (ps.map recvProp) as) st) J h tr).2.2.2 = fev ++ tr ∧
        procOf fev <+: acceptedData dataOf ps as := by
  intro ps
  induction ps with
  | nil => intro as _ st J h tr _; exact ⟨[], by simp [fetchAll, Proc.run], by simp [procOf]⟩
  | cons p ps ih =>
    intro as hok st J h tr hJ
    cases as with
    | nil => exact ⟨[], by simp [fetchAll, Proc.run], by simp [procOf]⟩
    | cons a as =>
      have hp := hok p (by simp)
      have hok' : ∀ q ∈ ps, FrameOK fuel dataOf q := fun q hq => hok q (by simp [hq])
      simp only [List.map_cons, List.zipWith_cons_cons]
      unfold fetchAll
      by_cases hacc : a = ansAccept
      · have hne : ¬ ((setAns (recvProp p) a).answer ≠ ansAccept) := by simp [setAns, hacc]
        rw [if_neg hne]
        simp only [bind_eq, pure_eq]
        rw [run_bind]
        have hsil := run_silent hstep (readCompressed_shape (E := Silent) ⟨trivial, fun _ => trivial⟩ fuel
          (setAns (recvProp p) a)) J h tr
        generalize hrc : Proc.run hstep (readCompressed fuel (setAns (recvProp p) a)) J h tr = rc at hsil ⊢
        obtain ⟨res, J1, h1, tr1⟩ := rc
        simp only [Prod.mk.injEq] at hsil
        obtain ⟨rfl, rfl⟩ := hsil
        cases res with
        | panicked s => exact ⟨[], rfl, by simp [procOf]⟩
        | blocked => exact ⟨[], rfl, by simp [procOf]⟩
        | done r =>
          cases r with
          | error e => exact ⟨[], by simp [Proc.run], by simp [procOf]⟩
          | ok cdata =>
            simp only [framesBytes, hacc, if_true, List.append_assoc] at hJ
            obtain ⟨rfl, hJ1⟩ := readCompressed_prefix_ok hstep m hm1 hm2 p.qtitle p.cdata _ hp.noNul hp.short
              (setAns (recvProp p) a) rfl fuel hp.fuel h1 tr1 J hJ cdata J1 h1 tr1 hrc
            simp only
            have h68 : ¬ ((setAns (recvProp p) a).code = 68) := by simp [setAns, recvProp, hp.code]
            simp only [h68, if_false, Proc.bind, hp.rt, Proc.run]
            generalize hp1 : hstep h1 (.parseMessage (dataOf p)) = x1
            obtain ⟨h2, r1⟩ := x1
            simp only
            split
            · exact ⟨[.called (.parseMessage (dataOf p))], by simp [Proc.run], by simp [procOf]⟩
            · simp only [Proc.run]
              generalize hp2 : hstep h2 (.processInbound (dataOf p)) = x2
              obtain ⟨h3, r2⟩ := x2
              simp only
              split
              · refine ⟨[.called (.processInbound (dataOf p)), .called (.parseMessage (dataOf p))], by simp [Proc.run], ?_⟩
                simp [procOf, acceptedData, hacc]
              · obtain ⟨fev, e1, e2⟩ := ih as hok' { st with received := st.received ++ [(setAns (recvProp p) a).mid] } J1 h3
                  (.called (.processInbound (dataOf p)) :: .called (.parseMessage (dataOf p)) :: tr1) hJ1
                refine ⟨fev ++ [.called (.processInbound (dataOf p)), .called (.parseMessage (dataOf p))],
                  by rw [e1]; simp, ?_⟩
                rw [procOf_append]
                simp only [acceptedData, hacc, if_true, List.singleton_append]
                have : procOf [Ev.called (.processInbound (dataOf p)), Ev.called (.parseMessage (dataOf p))] = [dataOf p] := by
                  simp [procOf]
                rw [this, List.singleton_append]
                exact List.cons_prefix_cons.mpr ⟨rfl, e2⟩
      · have hne : (setAns (recvProp p) a).answer ≠ ansAccept := by simpa [setAns] using hacc
        rw [if_pos hne]
        simp only [framesBytes, hacc, if_false, List.nil_append] at hJ
        obtain ⟨fev, e1, e2⟩ := ih as hok' st J h tr hJ
        exact ⟨fev, e1, by simpa [acceptedData, hacc] using e2⟩

/-- **The receiver's turn, then the rest of the session, on any prefix `J` of what the sender writes** (`blockOut
block`, then `Rr`), with the accounting facts. `as` = the handler's answers (`answersOf`). -/
theorem recv_block' (c : Cfg) (fuel n : Nat) (st : SState) (hq : st.quitReceived = false) (hs : st.quitSent = false)
    (block : List Proposal) (m : Nat) (hm1 : 1 ≤ m) (hm2 : m ≤ 255) (dataOf : Proposal → Bytes) (Rr J : Bytes) (h : HState)
    (hwpa : WpaOK hstep c h) (hne : block ≠ [])
    (hline : ∀ p ∈ block, LineOK p ∧ (pl p).length < fuel) (hframe : ∀ p ∈ block, FrameOK fuel dataOf p)
    (hfuel : 5 < fuel) (hbl : block.length < fuel) (hJ : J <+: blockOut block ++ Rr) :
    trOf (restOfSession c fuel (n + 1) false st) J h = [] ∨
    ∃ (as : List UInt8) (evs fev X : List Ev) (J2 : Bytes), as = answersOf hstep c h (block.map recvProp) ∧
      J = blockOut block ++ J2 ∧ J2 <+: Rr ∧
      as.length = block.length ∧ (∀ a ∈ as, PlainAnswer a) ∧ (∀ e ∈ evs, e.isAnswerCall = true) ∧
      (∀ e ∈ fev, FetchAlpha e.node) ∧
      trOf (restOfSession c fuel (n + 1) false st) J h = X ++ (fev ++ .wrote (fsLine as ++ [13]) :: evs) ∧
      (∀ rest', J2 <+: framesBytes m block as ++ rest' →
        procOf fev <+: acceptedData dataOf block as ∧
        ((Still X ∧ (outBytes X = [] ∨ ∃ t, outBytes X = 42 :: t)) ∨
         (fev = deliverEvs (acceptedData dataOf block as) ∧ AllOK hstep h (acceptedData dataOf block as) ∧
          ∃ J3 st', J3 <+: rest' ∧ X = trOf (restOfSession c fuel n true st') J3 (replay h fev)))) := by
  rw [restOfSession_recv c fuel n st hq hs]
  unfold trOf
  rw [run_bind]
  unfold handleInbound
  simp only [bind_eq, pure_eq]
  rw [run_bind]
  have hJ' : J <+: blockBytes block ++ (promptLine (blockSum 0 block) ++ Rr) := by
    simpa [blockOut, List.append_assoc] using hJ
  rcases run_inboundLoop_block hstep c fuel st h [] hfuel block [] 0 fuel hline hbl (by simpa using hne) Rr J hJ' with
    ⟨J2, rfl, hJ2, hrun⟩ | ⟨_, hrun⟩
  · right
    rw [hrun]
    simp only [answerTail, List.nil_append]
    rw [run_bind]
    obtain ⟨a1, a2, evs, a3, a4⟩ := run_wpa_canon hstep c h hwpa (block.map recvProp)
    generalize has : answersOf hstep c h (block.map recvProp) = as at a1 a2 a4
    rw [a4 J2 []]
    simp only [Proc.run]
    rw [run_bind]
    have hlen : as.length = block.length := by simpa using a1
    -- the fetch loop
    have htr := run_tr hstep (fetchAll fuel (List.zipWith setAns (block.map recvProp) as) { st with remoteNoMsgs := false }) J2 h
      (.wrote (fsPrefix ++ as ++ [13]) :: (evs ++ []))
    have hsh := run_shape hstep (fetchAll_shape (E := FetchAlpha) ⟨trivial, fun _ => trivial⟩ (fun _ => rfl) (fun _ => rfl) fuel
      (List.zipWith setAns (block.map recvProp) as) { st with remoteNoMsgs := false }) J2 h [] (by intro e he; cases he)
    have hany : ∀ rest', J2 <+: framesBytes m block as ++ rest' →
        procOf (Proc.run hstep (fetchAll fuel (List.zipWith setAns (block.map recvProp) as) { st with remoteNoMsgs := false })
          J2 h []).2.2.2 <+: acceptedData dataOf block as := by
      intro rest' hJ2f
      obtain ⟨fev, e1, e2⟩ := fetchAll_prefix_any hstep m hm1 hm2 fuel dataOf rest' block as hframe
        { st with remoteNoMsgs := false } J2 h [] hJ2f
      rw [e1, List.append_nil]
      exact e2
    generalize hfa0 : Proc.run hstep (fetchAll fuel (List.zipWith setAns (block.map recvProp) as) { st with remoteNoMsgs := false })
      J2 h [] = fa0 at htr hsh hany
    obtain ⟨res, J3, h3, fev⟩ := fa0
    simp only at htr hsh hany
    rw [htr]
    have hrep : h3 = replay h fev := run_replay_of_eq _ J2 h res J3 h3 fev hfa0
    refine ⟨as, evs, fev, ?_⟩
    cases res with
    | panicked s =>
      exact ⟨[], J2, rfl, by simp [blockOut], hJ2, hlen, a2, a3, hsh, by simp [fsLine],
        fun r' hr' => ⟨hany r' hr', Or.inl ⟨still_nil, Or.inl rfl⟩⟩⟩
    | blocked =>
      exact ⟨[], J2, rfl, by simp [blockOut], hJ2, hlen, a2, a3, hsh, by simp [fsLine],
        fun r' hr' => ⟨hany r' hr', Or.inl ⟨still_nil, Or.inl rfl⟩⟩⟩
    | done r =>
      obtain ⟨st', e⟩ := r
      simp only [Proc.run]
      cases e with
      | some e =>
        obtain ⟨X, hX, hXo⟩ := run_finish_err hstep st' e J3 h3 (fev ++ .wrote (fsPrefix ++ as ++ [13]) :: (evs ++ []))
        have hXc : Still X := by
          have h1 := still_finish st' (some e) J3 h3
          have h2 : X = trOf (finish st' false (some e)) J3 h3 := by
            have := run_tr hstep (finish st' false (some e)) J3 h3 (fev ++ .wrote (fsPrefix ++ as ++ [13]) :: (evs ++ []))
            rw [this] at hX
            exact (List.append_cancel_right hX).symm
          rw [h2]; exact h1
        exact ⟨X, J2, trivial, by simp [blockOut], hJ2, hlen, a2, a3, hsh,
          by simp only [afterInbound]; rw [hX]; simp [fsLine], fun r' hr' => ⟨hany r' hr', Or.inl ⟨hXc, hXo⟩⟩⟩
      | none =>
        refine ⟨trOf (restOfSession c fuel n true { st' with quitReceived := false }) J3 h3, J2, trivial, by simp [blockOut], hJ2, hlen,
          a2, a3, hsh, ?_, ?_⟩
        · simp only [afterInbound]
          rw [run_tr]
          simp [fsLine, trOf]
        · intro rest' hJ2f
          refine ⟨hany rest' hJ2f, Or.inr ?_⟩
          have := fetchAll_prefix_ok hstep m hm1 hm2 fuel dataOf rest' block as hframe { st with remoteNoMsgs := false } J2 h
            [] hJ2f st' J3 h3 fev hfa0
          have hfd : fev = deliverEvs (acceptedData dataOf block as) := by simpa using this.1
          obtain ⟨datas, _, _, d3, _, d5, _⟩ := fetchAll_done_none hstep fuel _ _ J2 h [] st' J3 h3 fev hfa0
          have hds : datas = acceptedData dataOf block as := by
            have e1 := congrArg procOf d3
            rw [List.append_nil, hfd, procOf_deliverEvs, procOf_deliverEvs] at e1
            exact e1.symm
          rw [hds] at d5
          refine ⟨hfd, d5, J3, { st' with quitReceived := false }, this.2.1, ?_⟩
          rw [hrep]
          rfl
  · left
    rw [hrun]
    simp [Proc.run, afterInbound, finish]

end Wl2k.B2F
