import Wl2kVerif.Proofs.AcceptBase
import Wl2kVerif.Proofs.Safe
/-
What `writeProposalsAnswer` does against a handler satisfying `RA g`: it reads nothing, does not panic
(also with a BATCHED handler), writes exactly one line `FS <answers>` CR and returns the same proposals
with only the `answer` field changed.
-/

/-- Core Lean (no Mathlib / Batteries here) has no `List.Forall₂`; this is the standard definition:
the two lists have the same length and are related elementwise. -/
inductive List.Forall₂ {α β : Type} (R : α → β → Prop) : List α → List β → Prop
  | nil : List.Forall₂ R [] []
  | cons {a : α} {b : β} {l₁ : List α} {l₂ : List β} :
      R a b → List.Forall₂ R l₁ l₂ → List.Forall₂ R (a :: l₁) (b :: l₂)

theorem List.Forall₂.length_eq {α β : Type} {R : α → β → Prop} {l₁ : List α} {l₂ : List β}
    (h : List.Forall₂ R l₁ l₂) : l₁.length = l₂.length := by
  induction h with
  | nil => rfl
  | cons _ _ ih => simp [ih]

theorem List.Forall₂.getElem {α β : Type} {R : α → β → Prop} {l₁ : List α} {l₂ : List β}
    (h : List.Forall₂ R l₁ l₂) : ∀ (i : Nat) (h1 : i < l₁.length) (h2 : i < l₂.length), R l₁[i] l₂[i] := by
  induction h with
  | nil => intro i h1; simp at h1
  | cons hab _ ih =>
    intro i h1 h2
    cases i with
    | zero => exact hab
    | succ j => exact ih j (by simpa using h1) (by simpa using h2)

theorem List.forall₂_of_getElem {α β : Type} {R : α → β → Prop} : ∀ (l₁ : List α) (l₂ : List β),
    l₁.length = l₂.length → (∀ (i : Nat) (h1 : i < l₁.length) (h2 : i < l₂.length), R l₁[i] l₂[i]) →
    List.Forall₂ R l₁ l₂ := by
  intro l₁
  induction l₁ with
  | nil => intro l₂ hl _; cases l₂ with
    | nil => exact .nil
    | cons _ _ => simp at hl
  | cons a t ih =>
    intro l₂ hl h
    cases l₂ with
    | nil => simp at hl
    | cons b t' =>
      refine .cons (h 0 (by simp) (by simp)) (ih t' (by simpa using hl) ?_)
      intro i h1 h2
      exact h (i + 1) (by simpa using h1) (by simpa using h2)

namespace Wl2k.B2F
open Wl2k Wl2k.B2F.InGrammar

/-- `q` is `p` with (at most) the `answer` field changed — as far as the fields the session uses later go -/
def SameBut (p q : Proposal) : Prop := q.code = p.code ∧ q.csize = p.csize ∧ q.offset = p.offset ∧ q.mid = p.mid

theorem SameBut.refl (p : Proposal) : SameBut p p := ⟨rfl, rfl, rfl, rfl⟩

theorem SameBut.trans {p q r : Proposal} (h1 : SameBut p q) (h2 : SameBut q r) : SameBut p r := by
  obtain ⟨a1, a2, a3, a4⟩ := h1
  obtain ⟨b1, b2, b3, b4⟩ := h2
  exact ⟨b1.trans a1, b2.trans a2, b3.trans a3, b4.trans a4⟩

theorem SameBut.setAnswer (p : Proposal) (a : UInt8) : SameBut p { p with answer := a } := ⟨rfl, rfl, rfl, rfl⟩

theorem forall₂_sameBut_refl : ∀ ps : List Proposal, List.Forall₂ SameBut ps ps
  | [] => .nil
  | p :: ps => .cons (SameBut.refl p) (forall₂_sameBut_refl ps)

theorem forall₂_sameBut_trans : ∀ {ps qs rs : List Proposal},
    List.Forall₂ SameBut ps qs → List.Forall₂ SameBut qs rs → List.Forall₂ SameBut ps rs := by
  intro ps qs rs h1
  induction h1 generalizing rs with
  | nil => intro h2; cases h2; exact .nil
  | cons hpq _ ih =>
    intro h2
    cases h2 with
    | cons hqr ht => exact .cons (hpq.trans hqr) (ih ht)

/-! ### (1) `preAnswer` -/

theorem preAnswer_sameBut (hh : Bool) : ∀ (ps : List Proposal) (seen : List Bytes),
    List.Forall₂ SameBut ps (preAnswer hh ps seen) := by
  intro ps
  induction ps with
  | nil => intro seen; exact .nil
  | cons p t ih =>
    intro seen
    simp only [preAnswer]
    exact .cons (SameBut.setAnswer p _) (ih _)

/-! ### (2) `askEach` -/

theorem askEach_emits (R : Call → Reply → Prop) : ∀ (ps acc : List Proposal),
    Emits R (fun res ws => ws = [] ∧ ∃ ps', res = acc.reverse ++ ps' ∧ List.Forall₂ SameBut ps ps')
      (askEach ps acc) := by
  intro ps
  induction ps with
  | nil =>
    intro acc
    simp only [askEach]
    exact .ret _ ⟨rfl, [], by simp, .nil⟩
  | cons p t ih =>
    intro acc
    have hfin : ∀ x : Proposal, SameBut p x →
        Emits R (fun res ws => ws = [] ∧ ∃ ps', res = acc.reverse ++ ps' ∧ List.Forall₂ SameBut (p :: t) ps')
          (askEach t (x :: acc)) := by
      intro x hx
      refine (ih (x :: acc)).mono ?_
      intro res ws ⟨hws, ps', hres, hf⟩
      refine ⟨hws, x :: ps', ?_, .cons hx hf⟩
      rw [hres]; simp
    unfold askEach
    split
    · exact hfin p (SameBut.refl p)
    · apply Emits.call
      intro r _
      cases r with
      | answer a => exact hfin _ (SameBut.setAnswer p a)
      | _ => exact hfin p (SameBut.refl p)

/-! ### (3) `assignAnswers` -/

theorem assignAnswers_total : ∀ (ps : List Proposal) (as : List UInt8),
    (ps.filter (·.answer = 0)).length ≤ as.length →
    ∃ ps', assignAnswers ps as = some ps' ∧ List.Forall₂ SameBut ps ps' := by
  intro ps
  induction ps with
  | nil => intro as _; exact ⟨[], rfl, .nil⟩
  | cons p t ih =>
    intro as hlen
    simp only [assignAnswers]
    split
    · rename_i hne
      have hne' : p.answer ≠ 0 := hne
      have hlen' : (t.filter (·.answer = 0)).length ≤ as.length := by
        simpa [List.filter_cons, hne'] using hlen
      obtain ⟨r, hr, hf⟩ := ih as hlen'
      exact ⟨p :: r, by rw [hr]; rfl, .cons (SameBut.refl p) hf⟩
    · rename_i h0
      have h0' : p.answer = 0 := by
        by_cases h : p.answer = 0
        · exact h
        · exact absurd h h0
      cases as with
      | nil => simp [h0'] at hlen
      | cons a as' =>
        have hlen' : (t.filter (·.answer = 0)).length ≤ as'.length := by
          simp [h0'] at hlen
          omega
        obtain ⟨r, hr, hf⟩ := ih as' hlen'
        exact ⟨{ p with answer := a } :: r, by simp only [hr]; rfl, .cons (SameBut.setAnswer p a) hf⟩

/-! ### (4) `writeProposalsAnswer` -/

theorem sb_FS_bytes : sb "FS " = [70, 83, 32] := by decide +kernel

theorem writeProposalsAnswer_emits (g : InCfg) (c : Cfg) (props : List Proposal) :
    Emits (RA g) (fun ps ws => ws = [[70, 83, 32] ++ ps.map (·.answer) ++ [13]] ∧ List.Forall₂ SameBut props ps)
      (writeProposalsAnswer c props) := by
  unfold writeProposalsAnswer
  simp only [bind_eq, pure_eq]
  have hpre := preAnswer_sameBut c.hasHandler props []
  have hw : ∀ ps : List Proposal, List.Forall₂ SameBut props ps →
      Emits (RA g) (fun ps' ws' => ([] : List Bytes) ++ ws' = [[70, 83, 32] ++ ps'.map (·.answer) ++ [13]] ∧
          List.Forall₂ SameBut props ps')
        (Proc.write (sb "FS " ++ ps.map (·.answer) ++ [13]) (Proc.ret ps)) := by
    intro ps hf
    apply Emits.write
    apply Emits.ret
    exact ⟨by rw [sb_FS_bytes]; rfl, hf⟩
  have hk : ∀ (ps : List Proposal) (ws : List Bytes), ws = [] ∧ List.Forall₂ SameBut props ps →
      Emits (RA g) (fun ps' ws' => ws ++ ws' = [[70, 83, 32] ++ ps'.map (·.answer) ++ [13]] ∧
          List.Forall₂ SameBut props ps')
        (Proc.write (sb "FS " ++ ps.map (·.answer) ++ [13]) (Proc.ret ps)) := by
    intro ps ws ⟨hws, hf⟩
    subst hws
    exact hw ps hf
  split
  · apply Emits.bind (Q := fun ps ws => ws = [] ∧ List.Forall₂ SameBut props ps) _ hk
    apply Emits.call
    intro r hr
    obtain ⟨as, rfl, hlen⟩ := hr.2
    obtain ⟨ps', hps', hf⟩ := assignAnswers_total (preAnswer c.hasHandler props []) as
      (by rw [hlen, List.length_map]; exact Nat.le_refl _)
    simp only [hps']
    exact .ret _ ⟨rfl, forall₂_sameBut_trans hpre hf⟩
  · apply Emits.bind (Q := fun ps ws => ws = [] ∧ List.Forall₂ SameBut props ps) _ hk
    refine (askEach_emits (RA g) _ []).mono ?_
    intro res ws ⟨hws, ps', hres, hf⟩
    refine ⟨hws, ?_⟩
    rw [hres]
    simpa using forall₂_sameBut_trans hpre hf

/-- the same, stated with core notions only (no `List.Forall₂`): same length, elementwise `SameBut` -/
theorem writeProposalsAnswer_emits_variant (g : InCfg) (c : Cfg) (props : List Proposal) :
    Emits (RA g) (fun ps ws => ws = [[70, 83, 32] ++ ps.map (·.answer) ++ [13]] ∧ ps.length = props.length ∧
        ∀ (i : Nat) (h1 : i < props.length) (h2 : i < ps.length), SameBut props[i] ps[i])
      (writeProposalsAnswer c props) :=
  (writeProposalsAnswer_emits g c props).mono (fun _ _ ⟨h1, h2⟩ => ⟨h1, h2.length_eq.symm, h2.getElem⟩)

end Wl2k.B2F
