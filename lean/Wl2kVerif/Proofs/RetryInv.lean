import Wl2kVerif.B2F.Mailboxes
import Wl2kVerif.Proofs.RetryExch
/-
From the accounting of one session (`pair_exchange_sir`, `pair_exchange_acct`, `pair_replay`) to the mailboxes of
`B2F/Mailboxes.lean`: the transition relation `Reach` is the reachability of `PairExec`, the mailbox after a session
is a function of the trace, every session preserves `Inv`, a clean session empties both outboxes.
-/
namespace Wl2k.B2F
open Wl2k

/-! ### `Reach` / `Final` of the specification are `PairExec` / `PairTerminal` -/

theorem moveSide_of_step {a b a' b' : Side} {r : StepRes} (he : a.ended = none) (hs : stepSide a b = (a', b', r))
    (hr : r = .progressed ∨ r = .finished) : moveSide a b = some (a', b') := by
  unfold moveSide
  simp only [he, Option.isSome_none, Bool.false_eq_true, if_false, hs]
  rcases hr with rfl | rfl <;> rfl

theorem step_of_moveSide {a b : Side} {u : Side × Side} (h : moveSide a b = some u) :
    a.ended = none ∧ ∃ r, stepSide a b = (u.1, u.2, r) ∧ (r = .progressed ∨ r = .finished) := by
  unfold moveSide at h
  cases he : a.ended with
  | some e => simp [he] at h
  | none =>
    simp only [he, Option.isSome_none, Bool.false_eq_true, if_false] at h
    refine ⟨rfl, ?_⟩
    generalize hs : stepSide a b = s at h
    obtain ⟨a', b', r⟩ := s
    cases r with
    | blocked => simp at h
    | progressed =>
      simp only [Option.some.injEq] at h
      subst h
      exact ⟨_, rfl, Or.inl rfl⟩
    | finished =>
      simp only [Option.some.injEq] at h
      subst h
      exact ⟨_, rfl, Or.inr rfl⟩

theorem exec_of_reach {s t : Side × Side} (h : Reach s t) : ∃ n, PairExec s n t := by
  induction h with
  | here s => exact ⟨0, Confl.Exec.refl s⟩
  | left a b a' b' r t he hs hr _ ih =>
    obtain ⟨n, hn⟩ := ih
    exact ⟨n + 1, Confl.Exec.cons false (a, b) (a', b') n t (by simp only [pairStep]; exact moveSide_of_step he hs hr) hn⟩
  | right a b a' b' r t he hs hr _ ih =>
    obtain ⟨n, hn⟩ := ih
    refine ⟨n + 1, Confl.Exec.cons true (a, b) (a', b') n t ?_ hn⟩
    simp only [pairStep, moveSide_of_step he hs hr]
    rfl

theorem reach_of_exec {s t : Side × Side} {n : Nat} (h : PairExec s n t) : Reach s t := by
  induction h with
  | refl s => exact Reach.here s
  | cons i s s' n t hs _ ih =>
    obtain ⟨a, b⟩ := s
    cases i with
    | false =>
      simp only [pairStep] at hs
      obtain ⟨he, r, h1, h2⟩ := step_of_moveSide hs
      exact Reach.left a b s'.1 s'.2 r t he h1 h2 ih
    | true =>
      simp only [pairStep] at hs
      cases e2 : moveSide b a with
      | none => rw [e2] at hs; simp at hs
      | some u =>
        rw [e2] at hs
        simp only [Option.map_some, Option.some.injEq] at hs
        subst hs
        obtain ⟨he, r, h1, h2⟩ := step_of_moveSide e2
        exact Reach.right a b u.2 u.1 r t he h1 h2 ih

theorem moveSide_none_of_not_canMove {a b : Side} (h : ¬ CanMove a b) : moveSide a b = none := by
  cases hm : moveSide a b with
  | none => rfl
  | some u =>
    obtain ⟨he, r, h1, h2⟩ := step_of_moveSide hm
    exact absurd ⟨he, u.1, u.2, r, h1, h2⟩ h

theorem not_canMove_of_moveSide_none {a b : Side} (h : moveSide a b = none) : ¬ CanMove a b := by
  rintro ⟨he, a', b', r, h1, h2⟩
  rw [moveSide_of_step he h1 h2] at h
  cases h

theorem terminal_of_final {t : Side × Side} (h : Final t) : PairTerminal t := by
  obtain ⟨a, b⟩ := t
  intro i
  cases i with
  | false => simp only [pairStep]; exact moveSide_none_of_not_canMove h.1
  | true => simp only [pairStep, moveSide_none_of_not_canMove h.2]; rfl

theorem final_of_terminal {t : Side × Side} (h : PairTerminal t) : Final t := by
  obtain ⟨a, b⟩ := t
  constructor
  · have := h false
    simp only [pairStep] at this
    exact not_canMove_of_moveSide_none this
  · have := h true
    simp only [pairStep] at this
    cases e : moveSide b a with
    | none => exact not_canMove_of_moveSide_none e
    | some u => rw [e] at this; simp at this

theorem sessionStart_eq (cA cB : Cfg) (fuel : Nat) (A B : Box) (fA fB : Faults) (limA limB : Option Nat) :
    sessionStart cA cB fuel A B fA fB limA limB =
      initPair (exchange cA fuel) (exchange cB fuel) (A.handlerF fA) (B.handlerF fB) limA limB := rfl

/-! ### the mailbox after a session is a function of the trace -/

theorem reportedSent_eq (evs : List Ev) : reportedSent evs = repOf evs := rfl

/-- the mailbox after the trace `evs` of a session run with the faults `f` -/
def Box.afterTrace (midOf : Bytes → Bytes) (b : Box) (f : Faults) (evs : List Ev) : Box :=
  { outbox := b.outbox.filter fun msg => !(repOf evs).contains msg.mid
    sent := b.sent ++ repOf evs
    inbox := b.inbox ++ (replay (b.handlerF f) evs).inbox.map fun d => (midOf d, d) }

theorem after_eq (midOf : Bytes → Bytes) (b : Box) (f : Faults) (s : Side) (hs : s.h = replay (b.handlerF f) s.evs) :
    b.after midOf s = b.afterTrace midOf f s.evs := by
  unfold Box.after Box.afterTrace
  rw [hs, replay_outbox, reportedSent_eq]
  rfl

/-! ### the policy of `Box.handler` -/

theorem ansAccept_ne_reject : ansAccept ≠ ansReject := by decide

theorem handler_answerFor_mem (b : Box) (f : Faults) (m : Bytes) (hm : m ∈ b.inbox.map (·.1)) : (b.handlerF f).answerFor m = ansReject := by
  unfold HState.answerFor
  cases hf : (b.handlerF f).policy.find? (·.1 = m) with
  | none =>
    exfalso
    have h1 := List.find?_eq_none.mp hf
    obtain ⟨e, he, rfl⟩ := List.mem_map.mp hm
    exact h1 (e.1, ansReject) (List.mem_map.mpr ⟨e, he, rfl⟩) (by simp)
  | some x =>
    have h1 := List.mem_of_find?_eq_some hf
    obtain ⟨e, _, rfl⟩ := List.mem_map.mp h1
    rfl

theorem handler_answerFor_not_mem (b : Box) (f : Faults) (m : Bytes) (hm : m ∉ b.inbox.map (·.1)) : (b.handlerF f).answerFor m = ansAccept := by
  unfold HState.answerFor
  cases hf : (b.handlerF f).policy.find? (·.1 = m) with
  | none => rfl
  | some x =>
    exfalso
    have h1 := List.mem_of_find?_eq_some hf
    have h2 := List.find?_some hf
    obtain ⟨e, he, rfl⟩ := List.mem_map.mp h1
    simp only [decide_eq_true_eq] at h2
    exact hm (List.mem_map.mpr ⟨e, he, h2⟩)

theorem handler_reject_iff (b : Box) (f : Faults) (m : Bytes) :
    (b.handlerF f).answerFor m = ansReject ↔ m ∈ b.inbox.map (·.1) := by
  constructor
  · intro h
    by_cases hm : m ∈ b.inbox.map (·.1)
    · exact hm
    · rw [handler_answerFor_not_mem b f m hm] at h
      exact absurd h ansAccept_ne_reject
  · exact handler_answerFor_mem b f m

theorem handler_accept_iff (b : Box) (f : Faults) (m : Bytes) :
    (b.handlerF f).answerFor m = ansAccept ↔ m ∉ b.inbox.map (·.1) := by
  constructor
  · intro h hm
    rw [handler_answerFor_mem b f m hm] at h
    exact ansAccept_ne_reject h.symm
  · exact handler_answerFor_not_mem b f m

/-! ### the hypotheses -/

/-- **What is assumed of an original queue** `Q`: every message is valid for the session (`MsgOK'`: MID without
blank/CR, `|data| < 2^31`, compressed size < 2^63, Q-title without NUL and ≤ 252 bytes, fuel above line and frame
lengths; `valid`: `Validate()` passes, so it is proposed at all), the MID found in its bytes is its MID (`midOf`), and
no two messages have the same MID. -/
structure QueueOK (midOf : Bytes → Bytes) (fuel : Nat) (Q : List OutMsg) : Prop where
  ok : ∀ msg ∈ Q, MsgOK' fuel msg
  valid : ∀ msg ∈ Q, msg.valid = true
  mid : ∀ msg ∈ Q, midOf msg.data = msg.mid
  nd : (Q.map (·.mid)).Nodup

/-- **What is assumed of the two configurations** (`cA` the master, `cB` the slave): both have a handler, block size
1..255, at least one proposal per block, well-formed handshake strings (`HsWF`), MOTD lines the handshake reads over
(`MotdOK`), and the fuel exceeds the two handshakes. -/
structure LinkOK (cA cB : Cfg) (fuel : Nat) : Prop where
  mA : cA.hs.master = true
  mB : cB.hs.master = false
  hhA : cA.hasHandler = true
  hhB : cB.hasHandler = true
  m1A : 1 ≤ cA.maxMsgLen
  m2A : cA.maxMsgLen ≤ 255
  mbA : 1 ≤ cA.maxBlock
  m1B : 1 ≤ cB.maxMsgLen
  m2B : cB.maxMsgLen ≤ 255
  mbB : 1 ≤ cB.maxBlock
  wfA : HsWF cA.hs
  wfB : HsWF cB.hs
  motdA : ∀ l ∈ cA.motd, MotdOK l
  motdB : ∀ l ∈ cB.motd, MotdOK l
  fA : (hsBytesM cA).length < fuel
  fB : (hsBytesS cB).length < fuel

theorem good_handler (midOf : Bytes → Bytes) (c : Cfg) (fuel : Nat) (Q : List OutMsg) (X : Box) (f : Faults)
    (hQ : QueueOK midOf fuel Q)
    (hsub : X.outbox.Sublist Q) (hh : c.hasHandler = true) (m1 : 1 ≤ c.maxMsgLen) (m2 : c.maxMsgLen ≤ 255)
    (mb : 1 ≤ c.maxBlock) (hf : Q.length + 7 ≤ fuel) : Good c fuel (X.handlerF f) := by
  refine ⟨hh, Or.inr rfl, ?_, fun msg hm => hQ.ok msg (hsub.subset hm), by omega, ?_, m1, m2, mb⟩
  · intro x hx
    obtain ⟨e, _, rfl⟩ := List.mem_map.mp hx
    exact Or.inr (Or.inl rfl)
  · have := hsub.length_le
    show X.outbox.length + 3 < fuel
    omega

theorem nodup_handler (midOf : Bytes → Bytes) (fuel : Nat) (Q : List OutMsg) (X : Box) (f : Faults) (hQ : QueueOK midOf fuel Q)
    (hsub : X.outbox.Sublist Q) : ((X.handlerF f).outbox.map (·.mid)).Nodup := (hsub.map _).nodup hQ.nd

/-! ### one direction of one session -/

theorem nodup_of_map {α β : Type} (f : α → β) : ∀ (l : List α), (l.map f).Nodup → l.Nodup
  | [], _ => List.nodup_nil
  | a :: l, h => by
    simp only [List.map_cons, List.nodup_cons] at h ⊢
    exact ⟨fun ha => h.1 (List.mem_map_of_mem ha), nodup_of_map f l h.2⟩

/-- **One direction of one session preserves the invariant**, given what holds of the two traces in every reachable
state: `Acct` (`pair_exchange_acct`). -/
theorem dirInv_step (midOf : Bytes → Bytes) (fuel : Nat) (Q : List OutMsg) (X Y : Box) (fX fY : Faults) (eX eY : List Ev)
    (hQ : QueueOK midOf fuel Q) (inv : DirInv Q X Y) (acct : Acct (X.handlerF fX) (Y.handlerF fY) eX eY) :
    DirInv Q (X.afterTrace midOf fX eX) (Y.afterTrace midOf fY eY) := by
  obtain ⟨L0, hLp0, hL0, hLnd0⟩ := acct.2.1
  -- what was stored is a sub-list of what was handed over
  obtain ⟨l, hl1, hl2⟩ := replay_inbox_sub (Y.handlerF fY) eY
  have hl1' : (replay (Y.handlerF fY) eY).inbox = l := by rw [hl1]; rfl
  rw [hLp0] at hl2
  obtain ⟨L, hLsub, hLp⟩ := List.sublist_map_iff.mp hl2
  have hL : ∀ msg ∈ L, msg ∈ (X.handlerF fX).outbox ∧ (Y.handlerF fY).answerFor msg.mid = ansAccept :=
    fun msg hm => hL0 msg (hLsub.subset hm)
  have hLnd : (L.map (·.mid)).Nodup := (hLsub.map _).nodup hLnd0
  have hLQ : ∀ msg ∈ L, msg ∈ Q := fun msg hm => inv.sub.subset (hL msg hm).1
  have hnew : (replay (Y.handlerF fY) eY).inbox.map (fun d => (midOf d, d)) = L.map fun msg => (msg.mid, msg.data) := by
    rw [hl1', hLp, List.map_map]
    apply List.map_congr_left
    intro msg hm
    simp [hQ.mid msg (hLQ msg hm)]
  refine ⟨?_, ?_, ?_, ?_, ?_, ?_, ?_⟩
  · exact List.filter_sublist.trans inv.sub
  · intro msg hm
    rcases inv.cons msg hm with h | h
    · by_cases hr : msg.mid ∈ repOf eX
      · exact Or.inr (List.mem_append_right _ hr)
      · exact Or.inl (List.mem_filter.mpr ⟨h, by simp [hr]⟩)
    · exact Or.inr (List.mem_append_left _ h)
  · intro msg hm hs
    obtain ⟨h1, h2⟩ := List.mem_filter.mp hm
    rcases List.mem_append.mp hs with h | h
    · exact inv.excl msg h1 h
    · simp [h] at h2
  · show (X.sent ++ repOf eX).Nodup
    rw [List.nodup_append]
    refine ⟨inv.sentnd, acct.2.2.1.1, ?_⟩
    intro a ha b hb e
    obtain ⟨msg, hmsg, rfl⟩ := List.mem_map.mp (acct.2.2.1.2 b hb)
    exact inv.excl msg hmsg (e ▸ ha)
  · intro m hm
    rcases List.mem_append.mp hm with h | h
    · obtain ⟨msg, g1, g2, g3⟩ := inv.recd m h
      exact ⟨msg, g1, g2, List.mem_append_left _ g3⟩
    · obtain ⟨r, hr⟩ := (mem_repOf eX m).mp h
      cases r with
      | false =>
        obtain ⟨msg, g1, g2, g3⟩ := acct.2.2.2 m hr
        have gQ : msg ∈ Q := inv.sub.subset g1
        refine ⟨msg, gQ, g2, List.mem_append_right _ ?_⟩
        refine List.mem_map.mpr ⟨msg.data, g3, ?_⟩
        rw [hQ.mid msg gQ, g2]
      | true =>
        obtain ⟨msg, _, g2, g3⟩ := acct.1 m hr
        have hin := (handler_reject_iff Y fY m).mp g3
        obtain ⟨e, he, rfl⟩ := List.mem_map.mp hin
        obtain ⟨msg', g4, rfl⟩ := inv.only e he
        exact ⟨msg', g4, rfl, List.mem_append_left _ he⟩
  · show ((Y.inbox ++ (replay (Y.handlerF fY) eY).inbox.map fun d => (midOf d, d)).map (·.1)).Nodup
    rw [hnew, List.map_append, List.nodup_append]
    refine ⟨inv.nodup, ?_, ?_⟩
    · rw [List.map_map]
      exact hLnd
    · intro a ha b hb e
      rw [List.map_map] at hb
      obtain ⟨msg, hmsg, rfl⟩ := List.mem_map.mp hb
      have h1 := (handler_accept_iff Y fY msg.mid).mp (hL msg hmsg).2
      have e' : a = msg.mid := e
      exact h1 (e' ▸ ha)
  · intro e he
    rcases List.mem_append.mp he with h | h
    · exact inv.only e h
    · rw [hnew] at h
      obtain ⟨msg, hmsg, rfl⟩ := List.mem_map.mp h
      exact ⟨msg, hLQ msg hmsg, rfl⟩

end Wl2k.B2F
