import Wl2kVerif.Agwpe.Stream
import Wl2kVerif.Agwpe.Conn
import Wl2kVerif.Agwpe.Demux
import Wl2kVerif.Agwpe.Session
/-
Helper lemmas for property C13 (AGWPE). Core only.
-/
namespace Wl2k.Agwpe
open Wl2k

/-! ### Reading from chunked input -/

theorem readFull_fst (n : Nat) (cs : List Bytes) : (readFull n cs).1 = cs.flatten.take n := by
  induction cs generalizing n with
  | nil => simp [readFull]
  | cons c rest ih =>
    unfold readFull
    by_cases h0 : n = 0
    · simp [h0]
    · simp only [h0, if_false]
      by_cases hc : c.length ≤ n
      · simp only [hc, if_true, ih, List.flatten_cons]
        rw [List.take_append]
        rw [List.take_of_length_le hc]
      · simp only [hc, if_false, List.flatten_cons]
        rw [List.take_append]
        have : n - c.length = 0 := by omega
        simp [this]

theorem readFull_snd (n : Nat) (cs : List Bytes) : (readFull n cs).2.flatten = cs.flatten.drop n := by
  induction cs generalizing n with
  | nil => simp [readFull]
  | cons c rest ih =>
    unfold readFull
    by_cases h0 : n = 0
    · simp [h0]
    · simp only [h0, if_false]
      by_cases hc : c.length ≤ n
      · simp only [hc, if_true, ih, List.flatten_cons]
        rw [List.drop_append]
        rw [List.drop_of_length_le hc]; simp
      · simp only [hc, if_false, List.flatten_cons]
        rw [List.drop_append]
        have : n - c.length = 0 := by omega
        simp [this]

theorem le32dec_le32 (n : Nat) (h : n < 4294967296) : le32dec (le32 n) = n := by
  simp only [le32, le32dec, UInt8.toNat_ofNat']
  omega


/-! ### Codec -/


theorem le32_length (n : Nat) : (le32 n).length = 4 := rfl

theorem encodeHeader_length (f : Frame) (n : Nat) (hs : f.src.length = 10) (hd : f.dst.length = 10) :
    (encodeHeader f n).length = 36 := by
  simp [encodeHeader, hs, hd, le32]

theorem decodeHeader_encodeHeader (f : Frame) (n : Nat) (hs : f.src.length = 10) (hd : f.dst.length = 10)
    (hn : n < 4294967296) :
    decodeHeader (encodeHeader f n) =
      some { port := f.port, kind := f.kind, pid := f.pid, src := f.src, dst := f.dst, dataLen := n } := by
  have h28 : (f.src ++ (f.dst ++ (le32 n ++ [0, 0, 0, 0]))).length = 28 := by simp [hs, hd, le32]
  simp only [encodeHeader, List.cons_append, List.nil_append, decodeHeader, h28, if_true]
  have e1 : (f.src ++ (f.dst ++ (le32 n ++ [0, 0, 0, 0]))).take 10 = f.src := List.take_left' hs
  have e2 : (f.src ++ (f.dst ++ (le32 n ++ [0, 0, 0, 0]))).drop 10 = f.dst ++ (le32 n ++ [0, 0, 0, 0]) := List.drop_left' hs
  have e3 : (f.dst ++ (le32 n ++ [0, 0, 0, 0])).take 10 = f.dst := List.take_left' hd
  have e4 : (f.src ++ (f.dst ++ (le32 n ++ [0, 0, 0, 0]))).drop 20 = le32 n ++ [0, 0, 0, 0] := by
    have : (20 : Nat) = 10 + 10 := rfl
    rw [this, ← List.drop_drop, e2, List.drop_left' hd]
  have e5 : (le32 n ++ [0, 0, 0, 0]).take 4 = le32 n := List.take_left' rfl
  rw [e1, e2, e3, e4, e5, le32dec_le32 n hn]

/-- Reading one frame off any chunking whose bytes start with `encode f`. -/
theorem readFrame_encode (f : Frame) (hwf : f.WF) (cs : List Bytes) (rest : Bytes)
    (h : cs.flatten = encode f ++ rest) :
    ∃ r, readFrame true cs = .ok (f, r) ∧ r.flatten = rest := by
  have hl := encodeHeader_length f f.data.length hwf.src hwf.dst
  have h1 : (readFull headerSize cs).1 = encodeHeader f f.data.length := by
    rw [readFull_fst, h, encode, List.append_assoc]
    exact List.take_left' hl
  have h2 : (readFull headerSize cs).2.flatten = f.data ++ rest := by
    rw [readFull_snd, h, encode, List.append_assoc]
    exact List.drop_left' hl
  have h3 : (readFull f.data.length (readFull headerSize cs).2).1 = f.data := by
    rw [readFull_fst, h2]; exact List.take_left' rfl
  have h4 : (readFull f.data.length (readFull headerSize cs).2).2.flatten = rest := by
    rw [readFull_snd, h2]; exact List.drop_left' rfl
  refine ⟨(readFull f.data.length (readFull headerSize cs).2).2, ?_, h4⟩
  unfold readFrame
  simp only [h1, hl, decodeHeader_encodeHeader f _ hwf.src hwf.dst hwf.len, if_true, h3]
  simp [Header.frame]

theorem decodeStreamF_encode (fs : List Frame) (hwf : ∀ f ∈ fs, f.WF) :
    ∀ (fuel : Nat) (cs : List Bytes), fs.length < fuel → cs.flatten = (fs.map encode).flatten →
      decodeStreamF true fuel cs = (fs, .eof) := by
  induction fs with
  | nil =>
    intro fuel cs hf h
    cases fuel with
    | zero => omega
    | succ k =>
      simp only [List.map_nil, List.flatten_nil] at h
      simp [decodeStreamF, readFrame, readFull_fst, h]
  | cons f fs ih =>
    intro fuel cs hf h
    cases fuel with
    | zero => omega
    | succ k =>
      simp only [List.map_cons, List.flatten_cons] at h
      obtain ⟨r, hr, hrest⟩ := readFrame_encode f (hwf f (by simp)) cs _ h
      simp only [decodeStreamF, hr]
      rw [ih (fun g hg => hwf g (by simp [hg])) k r (by simpa using hf) hrest]

theorem encode_length (f : Frame) (hs : f.src.length = 10) (hd : f.dst.length = 10) :
    (encode f).length = 36 + f.data.length := by
  simp [encode, encodeHeader_length f _ hs hd]

theorem length_le_flatten (fs : List Frame) (hwf : ∀ f ∈ fs, f.WF) :
    fs.length ≤ (fs.map encode).flatten.length := by
  induction fs with
  | nil => simp
  | cons f fs ih =>
    have := ih (fun g hg => hwf g (by simp [hg]))
    have hf := hwf f (by simp)
    simp only [List.map_cons, List.flatten_cons, List.length_append, List.length_cons, encode_length f hf.src hf.dst]
    omega

theorem stream_reassembly' (fs : List Frame) (hwf : ∀ f ∈ fs, f.WF) (cs : List Bytes)
    (h : cs.flatten = (fs.map encode).flatten) : decodeStream true cs = (fs, .eof) := by
  unfold decodeStream
  apply decodeStreamF_encode fs hwf _ cs _ h
  rw [h]
  have := length_le_flatten fs hwf
  omega


/-! ### Conn.Read -/

theorem connRead_conserve (n : Nat) (s : RdState) :
    (connRead n s).1.bytes ++ (connRead n s).2.pending = s.pending := by
  rcases s with ⟨u, q⟩
  cases u with
  | cons a t => simp [connRead, ReadRes.bytes, RdState.pending, ← List.append_assoc]
  | nil =>
    cases q with
    | nil => simp [connRead, ReadRes.bytes, RdState.pending]
    | cons p q => simp [connRead, ReadRes.bytes, RdState.pending, ← List.append_assoc]

theorem connReads_conserve (ns : List Nat) (s : RdState) :
    readBytes (connReads ns s).1 ++ (connReads ns s).2.pending = s.pending := by
  induction ns generalizing s with
  | nil => simp [connReads, readBytes]
  | cons n ns ih =>
    simp only [connReads, readBytes, List.map_cons, List.flatten_cons, List.append_assoc]
    have := ih (connRead n s).2
    simp only [readBytes] at this
    rw [this, connRead_conserve]

theorem connRead_le (n : Nat) (s : RdState) : (connRead n s).1.bytes.length ≤ n := by
  rcases s with ⟨u, q⟩
  cases u with
  | cons a t => simp [connRead, ReadRes.bytes]; omega
  | nil =>
    cases q with
    | nil => simp [connRead, ReadRes.bytes]
    | cons p q => simp [connRead, ReadRes.bytes]; omega

/-- Work left: bytes plus frames. Every Read with a non-empty buffer strictly reduces it (or it is 0). -/
def RdState.work (s : RdState) : Nat := s.unread.length + s.queue.flatten.length + s.queue.length

theorem connRead_work (n : Nat) (hn : 0 < n) (s : RdState) :
    (connRead n s).2.work + 1 ≤ s.work ∨ (s.work = 0 ∧ (connRead n s).2.work = 0) := by
  rcases s with ⟨u, q⟩
  cases u with
  | cons a t =>
    left
    simp only [connRead, RdState.work, List.length_cons]
    simp; omega
  | nil =>
    cases q with
    | nil => right; simp [connRead, RdState.work]
    | cons p q =>
      left
      simp only [connRead, RdState.work, List.flatten_cons, List.length_append, List.length_cons]
      simp; omega

theorem connReads_work (ns : List Nat) (hpos : ∀ n ∈ ns, 0 < n) (s : RdState) :
    (connReads ns s).2.work + ns.length ≤ s.work ∨ (connReads ns s).2.work = 0 := by
  induction ns generalizing s with
  | nil => left; simp [connReads]
  | cons n ns ih =>
    simp only [connReads, List.length_cons]
    have hn := hpos n (by simp)
    rcases ih (fun m hm => hpos m (by simp [hm])) (connRead n s).2 with h | h
    · rcases connRead_work n hn s with h2 | ⟨_, h2⟩
      · left; omega
      · right; omega
    · right; exact h

theorem work_zero_pending (s : RdState) (h : s.work = 0) : s.pending = [] := by
  rcases s with ⟨u, q⟩
  simp only [RdState.work] at h
  have h1 : u.length = 0 := by omega
  have h2 : q.flatten.length = 0 := by omega
  simp [RdState.pending, List.eq_nil_of_length_eq_zero h1, List.eq_nil_of_length_eq_zero h2]


/-! ### Filters -/

theorem deliveredData_iff (port : UInt8) (remote : Bytes) (f : Frame) (hz : callsign remote ≠ zeroCall) :
    deliveredData port remote f = true ↔
      f.port = port ∧ (f.src = callsign remote ∨ f.dst = callsign remote) ∧ f.kind = kData := by
  simp only [deliveredData, Filter.want]
  have hz' : (callsign remote != zeroCall) = true := by simpa using hz
  simp [hz', kData]
  constructor
  · rintro ⟨⟨h1, h2⟩, h3⟩
    exact ⟨h1.symm, by rcases h2 with h | h <;> simp [h], h3⟩
  · rintro ⟨h1, h2, h3⟩
    exact ⟨⟨h1.symm, by rcases h2 with h | h <;> simp [h]⟩, h3⟩


/-! ### Queue pipeline -/

variable {α : Type}

/-- Outcome of offering a frame to a stage list. -/
theorem offer_cases (a : α) (ss : List (Stage α)) :
    ((offer a ss).2.1 = true ∧ (offer a ss).2.2 = false ∧ inflight (offer a ss).1 = inflight ss ++ [a]) ∨
    ((offer a ss).1 = ss ∧ (((offer a ss).2.1 = false ∧ (offer a ss).2.2 = false) ∨
      ((offer a ss).2.1 = true ∧ (offer a ss).2.2 = true))) := by
  cases ss with
  | nil => right; simp [offer]
  | cons s rest =>
    unfold offer
    by_cases h1 : s.q.length < s.cap
    · left; simp [h1, inflight]
    · by_cases h2 : s.drop = true
      · right; simp [h1, h2]
      · right; simp [h1, h2]

/-- A move either changes nothing, or forwards a frame (contents unchanged), or drops exactly one frame. -/
theorem moveAt_cases (i : Nat) (ss : List (Stage α)) :
    ((moveAt i ss).2 = false ∧ inflight (moveAt i ss).1 = inflight ss) ∨
    ((moveAt i ss).2 = true ∧ (inflight (moveAt i ss).1).Sublist (inflight ss) ∧
      (inflight (moveAt i ss).1).length + 1 = (inflight ss).length) := by
  induction ss generalizing i with
  | nil => left; cases i <;> simp [moveAt]
  | cons s rest ih =>
    cases i with
    | succ j =>
      simp only [moveAt, inflight]
      rcases ih j with ⟨h1, h2⟩ | ⟨h1, h2, h3⟩
      · left; exact ⟨h1, by rw [h2]⟩
      · right
        refine ⟨h1, List.Sublist.append_right h2 _, ?_⟩
        simp only [List.length_append]; omega
    | zero =>
      rcases s with ⟨cap, drop, q⟩
      cases q with
      | nil => left; simp [moveAt]
      | cons a q' =>
        cases rest with
        | nil => left; simp [moveAt]
        | cons s2 rest2 =>
          simp only [moveAt]
          rcases offer_cases a (s2 :: rest2) with ⟨h1, h2, h3⟩ | ⟨h1, h2⟩
          · left
            simp only [h1, if_true, h2, inflight] at *
            simp [h3]
          · rcases h2 with ⟨hacc, hd⟩ | ⟨hacc, hd⟩
            · left
              simp only [hacc]
              simp [inflight]
            · right
              simp only [hacc, if_true, hd, h1, inflight]
              refine ⟨trivial, ?_, by simp; omega⟩
              exact List.Sublist.append_left (List.sublist_cons_self a q') _

theorem popLast_cases (ss : List (Stage α)) :
    ((popLast ss).2 = none ∧ (popLast ss).1 = ss) ∨
    (∃ a, (popLast ss).2 = some a ∧ inflight ss = a :: inflight (popLast ss).1) := by
  induction ss with
  | nil => left; simp [popLast]
  | cons s rest ih =>
    cases rest with
    | nil =>
      rcases s with ⟨cap, drop, q⟩
      cases q with
      | nil => left; simp [popLast]
      | cons a q' => right; exact ⟨a, by simp [popLast, inflight]⟩
    | cons s2 rest2 =>
      simp only [popLast]
      rcases ih with ⟨h1, h2⟩ | ⟨a, h1, h2⟩
      · left; exact ⟨h1, by rw [h2]⟩
      · right
        refine ⟨a, h1, ?_⟩
        simp only [inflight] at h2 ⊢
        rw [h2]; simp

/-- Everything the pipeline still accounts for: delivered frames, then the frames in flight. -/
def Pipe.content (p : Pipe α) : List α := p.delivered ++ inflight p.stages

/-- One event: the content either gains the pushed frame at the end, stays, or loses one frame
(counted in `dropped`). -/
theorem step_content (p : Pipe α) (e : Ev α) :
    ((p.step e).content ++ pushed ([] : List (Ev α))).Sublist (p.content ++ pushed [e]) ∧
    (p.step e).content.length + (p.step e).dropped = p.content.length + p.dropped + (pushed [e]).length := by
  cases e with
  | push a =>
    simp only [Pipe.step, Pipe.content, pushed, List.append_nil]
    rcases offer_cases a p.stages with ⟨h1, h2, h3⟩ | ⟨h1, h2⟩
    · simp only [h1, h2, h3]
      constructor
      · simp
      · simp; omega
    · simp only [h1]
      constructor
      · simp
      · rcases h2 with ⟨h, h'⟩ | ⟨h, h'⟩ <;> simp [h, h'] <;> omega
  | move i =>
    simp only [Pipe.step, Pipe.content, pushed, List.append_nil]
    rcases moveAt_cases i p.stages with ⟨h1, h2⟩ | ⟨h1, h2, h3⟩
    · simp [h1, h2]
    · simp only [h1, if_true]
      refine ⟨List.Sublist.append_left h2 _, ?_⟩
      simp only [List.length_append, List.length_nil]; omega
  | pop =>
    simp only [Pipe.step, Pipe.content, pushed, List.append_nil]
    rcases popLast_cases p.stages with ⟨h1, h2⟩ | ⟨a, h1, h2⟩
    · simp [h1]
    · simp only [h1, h2]
      simp


/-! ### Session: polling, write, close, register, dial -/

/-- Frames other than the outstanding-frames queries (`Y`). -/
def nonY (tr : List Frame) : List Frame := tr.filter (fun f => f.kind != kOutConn)

theorem nonY_append (a b : List Frame) : nonY (a ++ b) = nonY a ++ nonY b := by simp [nonY]

/-- What `poll` leaves untouched, and what it adds to the trace: only `Y` queries. -/
structure PollInv (s t : Sess) : Prop where
  port : t.port = s.port
  mycall : t.mycall = s.mycall
  remote : t.remote = s.remote
  maxFrame : t.maxFrame = s.maxFrame
  closing : t.closing = s.closing
  connClosed : t.connClosed = s.connClosed
  rd : t.rd = s.rd
  registered : t.registered = s.registered
  over : t.over = s.over
  trace : ∃ k, t.trace = s.trace ++ List.replicate k (outstandingFramesForConnFrame s.port s.mycall s.remote)

theorem PollInv.refl (s : Sess) : PollInv s s :=
  ⟨rfl, rfl, rfl, rfl, rfl, rfl, rfl, rfl, rfl, ⟨0, by simp⟩⟩

theorem PollInv.trans {s t u : Sess} (h1 : PollInv s t) (h2 : PollInv t u) : PollInv s u := by
  obtain ⟨k1, hk1⟩ := h1.trace
  obtain ⟨k2, hk2⟩ := h2.trace
  refine ⟨h2.port.trans h1.port, h2.mycall.trans h1.mycall, h2.remote.trans h1.remote,
    h2.maxFrame.trans h1.maxFrame, h2.closing.trans h1.closing, h2.connClosed.trans h1.connClosed,
    h2.rd.trans h1.rd, h2.registered.trans h1.registered, h2.over.trans h1.over, ⟨k1 + k2, ?_⟩⟩
  rw [hk2, hk1, h1.port, h1.mycall, h1.remote, List.append_assoc]; simp

theorem askY_inv (s : Sess) : PollInv s s.askY.2 :=
  ⟨rfl, rfl, rfl, rfl, rfl, rfl, rfl, rfl, rfl, ⟨1, by simp [Sess.askY, Sess.emit]⟩⟩

theorem poll_inv (stop : Nat → Bool) (fuel : Nat) (s : Sess) : PollInv s (poll stop fuel s).1 := by
  induction fuel generalizing s with
  | zero => exact PollInv.refl s
  | succ k ih =>
    unfold poll
    by_cases hc : s.connClosed = true
    · simp only [hc, if_true]; exact PollInv.refl s
    · simp only [hc]
      by_cases hs : stop s.askY.1 = true
      · simp only [hs, if_true]; exact askY_inv s
      · simp only [hs]; exact (askY_inv s).trans (ih _)

theorem nonY_replicate_Y (k : Nat) (p : UInt8) (a b : Bytes) :
    nonY (List.replicate k (outstandingFramesForConnFrame p a b)) = [] := by
  simp [nonY, outstandingFramesForConnFrame, blank, kOutConn]

theorem PollInv.nonY {s t : Sess} (h : PollInv s t) : nonY t.trace = nonY s.trace := by
  obtain ⟨k, hk⟩ := h.trace
  rw [hk, nonY_append, nonY_replicate_Y]; simp

/-- A poll that ends with `.ok` ended on an answer that satisfied `stop`; the state it returns is the
one right after that answer. -/
theorem poll_ok (stop : Nat → Bool) (fuel : Nat) (s : Sess) (h : (poll stop fuel s).2 = .ok) :
    ∃ t, PollInv s t ∧ stop t.askY.1 = true ∧ (poll stop fuel s).1 = t.askY.2 := by
  induction fuel generalizing s with
  | zero => simp [poll] at h
  | succ k ih =>
    unfold poll at h ⊢
    by_cases hc : s.connClosed = true
    · simp [hc] at h
    · simp only [hc] at h ⊢
      by_cases hs : stop s.askY.1 = true
      · simp only [hs, if_true]; exact ⟨s, PollInv.refl s, hs, rfl⟩
      · simp only [hs] at h ⊢
        obtain ⟨t, ht, hst, he⟩ := ih _ h
        exact ⟨t, (askY_inv s).trans ht, hst, he⟩

/-! ### Write -/

theorem sendData_inv (s : Sess) (p : Bytes) :
    (s.sendData p).port = s.port ∧ (s.sendData p).mycall = s.mycall ∧ (s.sendData p).remote = s.remote ∧
    (s.sendData p).trace = s.trace ++ [connectedDataFrame s.port s.mycall s.remote p] :=
  ⟨rfl, rfl, rfl, rfl⟩

theorem nonY_data (port : UInt8) (a b p : Bytes) :
    nonY [connectedDataFrame port a b p] = [connectedDataFrame port a b p] := by
  simp [nonY, connectedDataFrame, kData, kOutConn]

/-- Whatever the TNC answers, a Write puts at most one frame other than `Y` queries on the wire, and
that frame is the `D` frame carrying the whole buffer with the connection's port and callsigns. -/
theorem write_shape (s : Sess) (p : Bytes) :
    (nonY (s.write p).1.trace = nonY s.trace ∧ ∀ n, (s.write p).2 ≠ .okN n) ∨
    (nonY (s.write p).1.trace = nonY s.trace ++ [connectedDataFrame s.port s.mycall s.remote p]) := by
  unfold Sess.write
  by_cases hcl : s.closing = true
  · left; simp [hcl]
  · rw [if_neg hcl]
    have i1 := poll_inv (fun n => decide (n ≤ s.maxFrame)) pollFuel s
    generalize poll (fun n => decide (n ≤ s.maxFrame)) pollFuel s = r1 at *
    obtain ⟨t1, e1⟩ := r1
    cases e1 with
    | ok =>
      right
      simp only
      have i2 := poll_inv (fun n => decide (n > 0)) pollFuel (t1.sendData p)
      rw [i2.nonY, (sendData_inv t1 p).2.2.2, nonY_append, i1.nonY, i1.port, i1.mycall, i1.remote, nonY_data]
    | eof => left; simp [PollRes.op, i1.nonY]
    | timeout => left; simp [PollRes.op, i1.nonY]

/-- A successful Write reports the whole length and put exactly one `D` frame on the wire. -/
theorem write_ok (s : Sess) (p : Bytes) (n : Nat) (h : (s.write p).2 = .okN n) :
    n = p.length ∧ nonY (s.write p).1.trace = nonY s.trace ++ [connectedDataFrame s.port s.mycall s.remote p] := by
  rcases write_shape s p with ⟨_, h2⟩ | h2
  · exact absurd h (h2 n)
  · refine ⟨?_, h2⟩
    unfold Sess.write at h
    by_cases hcl : s.closing = true
    · simp [hcl] at h
    · rw [if_neg hcl] at h
      generalize poll (fun n => decide (n ≤ s.maxFrame)) pollFuel s = r1 at *
      obtain ⟨t1, e1⟩ := r1
      cases e1 with
      | ok =>
        simp only at h
        generalize (poll (fun n => decide (n > 0)) pollFuel (t1.sendData p)).2 = r2 at h
        cases r2 <;> simp [writeRes, PollRes.op] at h
        exact h.symm
      | eof => simp [PollRes.op] at h
      | timeout => simp [PollRes.op] at h

/-- The `D` frame of a Write is only sent after the TNC reported at most MAXFRAME outstanding frames. -/
theorem write_waits (s : Sess) (p : Bytes) (h : nonY (s.write p).1.trace ≠ nonY s.trace) :
    ∃ t, PollInv s t ∧ t.askY.1 ≤ s.maxFrame := by
  unfold Sess.write at h
  by_cases hcl : s.closing = true
  · simp [hcl] at h
  · rw [if_neg hcl] at h
    have i1 := poll_inv (fun n => decide (n ≤ s.maxFrame)) pollFuel s
    have ok1 := poll_ok (fun n => decide (n ≤ s.maxFrame)) pollFuel s
    generalize poll (fun n => decide (n ≤ s.maxFrame)) pollFuel s = r1 at *
    obtain ⟨t1, e1⟩ := r1
    cases e1 with
    | ok =>
      obtain ⟨t, ht, hst, _⟩ := ok1 rfl
      exact ⟨t, ht, by simpa using hst⟩
    | eof => simp [i1.nonY] at h
    | timeout => simp [i1.nonY] at h

/-! ### Close -/

theorem nonY_disc (a b : Bytes) (port : UInt8) : nonY [disconnectFrame a b port] = [disconnectFrame a b port] := by
  simp [nonY, disconnectFrame, blank, kDisconnect, kOutConn]

/-- Close on a live connection: `Y` queries, then at most one `d` with the connection's port and
callsigns; afterwards the connection is closed for good. A second Close sends nothing. -/
theorem close_shape (s : Sess) :
    (s.close).2 = .ok ∧
    (nonY (s.close).1.trace = nonY s.trace ∨
     nonY (s.close).1.trace = nonY s.trace ++ [disconnectFrame s.mycall s.remote s.port]) ∧
    ((s.close).1.close).1 = (s.close).1 := by
  by_cases h : (s.closing || s.connClosed) = true
  · simp [Sess.close, h]
  · have i := poll_inv (fun n => decide (n = 0)) pollFuel { s with closing := true }
    unfold Sess.close
    rw [if_neg h]
    generalize poll (fun n => decide (n = 0)) pollFuel { s with closing := true } = r at *
    obtain ⟨t, er⟩ := r
    have hn : nonY t.trace = nonY s.trace := i.nonY
    cases er <;> simp [Sess.closeAfter, hn, nonY_append, nonY_disc]

/-- The `d` of a Close is sent only after the TNC reported zero outstanding frames, unless the
one-minute flush deadline passed first. -/
theorem close_flushes_first (s : Sess) (h : nonY (s.close).1.trace ≠ nonY s.trace) :
    (∃ t, PollInv { s with closing := true } t ∧ t.askY.1 = 0) ∨
    (poll (fun n => decide (n = 0)) pollFuel { s with closing := true }).2 = .timeout := by
  unfold Sess.close at h
  by_cases hc : (s.closing || s.connClosed) = true
  · simp [hc] at h
  · rw [if_neg hc] at h
    have i := poll_inv (fun n => decide (n = 0)) pollFuel { s with closing := true }
    have ok := poll_ok (fun n => decide (n = 0)) pollFuel { s with closing := true }
    generalize poll (fun n => decide (n = 0)) pollFuel { s with closing := true } = r at *
    obtain ⟨t0, er⟩ := r
    cases er with
    | ok =>
      obtain ⟨t, ht, hst, _⟩ := ok rfl
      exact Or.inl ⟨t, ht, by simpa using hst⟩
    | timeout => exact Or.inr rfl
    | eof =>
      have hn : nonY t0.trace = nonY s.trace := i.nonY
      simp [Sess.closeAfter, hn] at h

/-! ### Register / dial -/

theorem register_shape (s : Sess) (g x : Bytes) :
    (s.register g x).1.trace = s.trace ++ [portCapabilitiesFrame s.port, registerCallsignFrame s.mycall s.port] ∧
    ((s.register g x).2 = .okN (if g.length ≥ 12 then (g.getD 6 0).toNat else 7) ↔ x = [1]) := by
  unfold Sess.register
  by_cases h1 : x.length ≠ 1
  · have : x ≠ [1] := by intro e; simp [e] at h1
    simp [h1, this, Sess.emit]
  · by_cases h2 : x ≠ [1]
    · simp [h1, h2, Sess.emit]
    · simp only [ne_eq, Decidable.not_not] at h2
      simp [h2, Sess.emit]

theorem dial_shape (s : Sess) (target : Bytes) (digis : List Bytes) (k : UInt8) (r : Bytes) :
    let out := s.dial target digis k r
    (out.2 = .ok ↔ (k = kConnect ∧ strPrefix connectedWith r = true)) ∧
    (out.1.trace = s.trace ++ [connectFrame s.mycall target s.port digis] ∨
     (out.2 ≠ .ok ∧ out.1.trace = s.trace ++ [connectFrame s.mycall target s.port digis, disconnectFrame s.mycall target s.port])) := by
  simp only [Sess.dial]
  by_cases hk : k = kConnect
  · by_cases hp : strPrefix connectedWith r = true
    · simp [hk, hp, Sess.emit]
    · simp [hk, hp, Sess.emit]
  · simp [hk, Sess.emit]


/-! ### Pipeline runs; the read loop consumes what it returns -/

section
variable {α : Type}

theorem pushed_cons (e : Ev α) (evs : List (Ev α)) : pushed (e :: evs) = pushed [e] ++ pushed evs := by
  cases e <;> simp [pushed]

theorem run_content (evs : List (Ev α)) (p : Pipe α) :
    (p.run evs).content.Sublist (p.content ++ pushed evs) ∧
    (p.run evs).content.length + (p.run evs).dropped = p.content.length + p.dropped + (pushed evs).length := by
  induction evs generalizing p with
  | nil => simp [Pipe.run, pushed]
  | cons e evs ih =>
    have h1 := step_content p e
    have h2 := ih (p.step e)
    have hr : p.run (e :: evs) = (p.step e).run evs := rfl
    rw [hr, pushed_cons]
    constructor
    · refine h2.1.trans ?_
      rw [← List.append_assoc]
      exact List.Sublist.append_right (by simpa [pushed] using h1.1) _
    · simp only [List.length_append] at *
      omega

theorem run_append (p : Pipe α) (a b : List (Ev α)) : p.run (a ++ b) = (p.run a).run b := by
  simp [Pipe.run, List.foldl_append]

theorem round_run (a : α) (d : List α) (n : Nat) :
    ({ (agwpePipe α 1 10) with delivered := d, dropped := n } : Pipe α).run (round a) =
      { (agwpePipe α 1 10) with delivered := d ++ [a], dropped := n } := rfl

theorem lockstep_run (fs : List α) (d : List α) (n : Nat) :
    ({ (agwpePipe α 1 10) with delivered := d, dropped := n } : Pipe α).run (lockstep fs) =
      { (agwpePipe α 1 10) with delivered := d ++ fs, dropped := n } := by
  induction fs generalizing d with
  | nil => simp [lockstep, Pipe.run]
  | cons a fs ih =>
    have : lockstep (a :: fs) = round a ++ lockstep fs := by simp [lockstep]
    rw [this, run_append, round_run, ih]; simp

/-! ### readFrame consumes what it returns -/

theorem readOnce_flat (n : Nat) (cs : List Bytes) (d : Bytes) (r : List Bytes)
    (h : readOnce n cs = some (d, r)) : d ++ r.flatten = cs.flatten := by
  induction cs with
  | nil =>
    unfold readOnce at h
    by_cases h0 : n = 0 <;> simp [h0] at h
    obtain ⟨rfl, rfl⟩ := h; rfl
  | cons c rest ih =>
    unfold readOnce at h
    by_cases h0 : n = 0
    · simp [h0] at h; obtain ⟨rfl, rfl⟩ := h; simp
    · simp only [h0, if_false] at h
      by_cases hc0 : c.length = 0
      · simp only [hc0, if_true] at h
        have : c = [] := List.eq_nil_of_length_eq_zero hc0
        simp [this, ih h]
      · simp only [hc0, if_false] at h
        by_cases hle : c.length ≤ n
        · simp [hle] at h; obtain ⟨rfl, rfl⟩ := h; simp
        · simp [hle] at h; obtain ⟨rfl, rfl⟩ := h; simp [← List.append_assoc]

theorem decodeHeader_some (b : Bytes) (hd : Header) (h : decodeHeader b = some hd) :
    b.length = 36 ∧ hd.src.length = 10 ∧ hd.dst.length = 10 := by
  unfold decodeHeader at h
  split at h
  · split at h
    · rename_i hl
      simp only [Option.some.injEq] at h
      subst h
      simp [hl]
    · simp at h
  · simp at h

theorem readFull_flat (n : Nat) (cs : List Bytes) : (readFull n cs).1 ++ (readFull n cs).2.flatten = cs.flatten := by
  rw [readFull_fst, readFull_snd, List.take_append_drop]

theorem readFrame_consumes (full : Bool) (cs : List Bytes) (f : Frame) (r : List Bytes)
    (h : readFrame full cs = .ok (f, r)) :
    36 + f.data.length + r.flatten.length = cs.flatten.length ∧ f.src.length = 10 ∧ f.dst.length = 10 := by
  unfold readFrame at h
  have hflat := readFull_flat headerSize cs
  generalize readFull headerSize cs = hr at *
  obtain ⟨hb, r1⟩ := hr
  simp only at h hflat
  by_cases h0 : hb.length = 0
  · simp [h0] at h
  · simp only [h0, if_false] at h
    cases hd : decodeHeader hb with
    | none => simp [hd] at h
    | some hdr =>
      obtain ⟨hl, hs, hdd⟩ := decodeHeader_some hb hdr hd
      simp only [hd] at h
      cases full with
      | true =>
        simp only [if_true] at h
        have hflat2 := readFull_flat hdr.dataLen r1
        generalize readFull hdr.dataLen r1 = dr at *
        obtain ⟨d, r2⟩ := dr
        simp only at h hflat2
        by_cases hdl : d.length = hdr.dataLen
        · simp only [hdl, if_true, Except.ok.injEq, Prod.mk.injEq] at h
          obtain ⟨rfl, rfl⟩ := h
          refine ⟨?_, hs, hdd⟩
          simp only [Header.frame]
          rw [← hflat, ← hflat2]
          simp only [List.length_append]; omega
        · simp only [hdl, if_false] at h
          split at h <;> simp at h
      | false =>
        simp only [Bool.false_eq_true, if_false] at h
        cases ho : readOnce hdr.dataLen r1 with
        | none => simp [ho] at h
        | some dr =>
          obtain ⟨d, r2⟩ := dr
          have hflat2 := readOnce_flat _ _ _ _ ho
          simp only [ho] at h
          by_cases hdl : d.length = hdr.dataLen
          · simp only [hdl, if_true, Except.ok.injEq, Prod.mk.injEq] at h
            obtain ⟨rfl, rfl⟩ := h
            refine ⟨?_, hs, hdd⟩
            simp only [Header.frame]
            rw [← hflat, ← hflat2]
            simp only [List.length_append]; omega
          · simp [hdl] at h

/-- The read loop never delivers more than it received: the frames it returns account for at most
the bytes of the input, each with two 10-byte callsigns. -/
theorem decodeStreamF_consumes (full : Bool) (fuel : Nat) (cs : List Bytes) :
    ((decodeStreamF full fuel cs).1.map (fun f => 36 + f.data.length)).sum ≤ cs.flatten.length ∧
    ∀ f ∈ (decodeStreamF full fuel cs).1, f.src.length = 10 ∧ f.dst.length = 10 := by
  induction fuel generalizing cs with
  | zero => simp [decodeStreamF]
  | succ k ih =>
    unfold decodeStreamF
    cases h : readFrame full cs with
    | error e => simp
    | ok fr =>
      obtain ⟨f, r⟩ := fr
      obtain ⟨h1, h2, h3⟩ := readFrame_consumes full cs f r h
      obtain ⟨i1, i2⟩ := ih r
      simp only [List.map_cons, List.sum_cons, List.mem_cons]
      refine ⟨by omega, ?_⟩
      rintro g (rfl | hg)
      · exact ⟨h2, h3⟩
      · exact i2 g hg

end

end Wl2k.Agwpe
