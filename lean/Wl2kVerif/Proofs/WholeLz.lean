import Wl2kVerif.Proofs.LzRound
import Wl2kVerif.Props.C08_reader
import Wl2kVerif.Proofs.PairCausal
/-
`lz_roundtrip`: the decoder call of `fetchAll` (`lzDecode` = `NewB2Reader` + `io.Copy` in 32 KiB reads +
`Close`) returns exactly `x` on `compress true x`, for every `x` below 2 GiB. Connects the session model's
`lzReadAll` loop (which stops at the first error) to `readsWith`/`errsWith` (which go on reading) and then
to `roundtrip_full` / `roundtrip_only_eof` of `Proofs/LzRound.lean`.
-/
namespace Wl2k.B2F
open Wl2k Wl2k.Lzhuf

/-- `lzReadAll` with `fuel` reads of 32 KiB: if that sequence of reads reaches an error return and every
error it meets is `io.EOF`, the loop returns what `readsWith` collects, provided `Close` then succeeds. -/
theorem lzReadAll_of_reads : ∀ (fuel : Nat) (d : Reader) (acc : Bytes),
    (∃ e, some e ∈ errsWith d (List.replicate fuel 32768)) →
    (∀ e, some e ∈ errsWith d (List.replicate fuel 32768) → e = .eof) →
    (readsWith d (List.replicate fuel 32768)).1.close = none →
    lzReadAll d acc fuel = .ok (acc ++ (readsWith d (List.replicate fuel 32768)).2) := by
  intro fuel
  induction fuel with
  | zero => intro d acc h; obtain ⟨e, he⟩ := h; simp [errsWith] at he
  | succ n ih =>
    intro d acc hend hall hclose
    simp only [List.replicate_succ, errsWith, readsWith, List.mem_cons] at hend hall hclose ⊢
    unfold lzReadAll
    cases hr : (d.read 32768).2.2 with
    | none =>
      have hsplit : d.read 32768 = ((d.read 32768).1, (d.read 32768).2.1, none) := by rw [← hr]
      rw [hsplit]
      simp only
      rw [ih (d.read 32768).1 (acc ++ (d.read 32768).2.1) ?_ ?_ hclose, List.append_assoc]
      · obtain ⟨e, he⟩ := hend
        rcases he with he | he
        · rw [hr] at he; cases he
        · exact ⟨e, he⟩
      · intro e he; exact hall e (Or.inr he)
    | some e =>
      have he : e = .eof := hall e (Or.inl hr.symm)
      subst he
      obtain ⟨f1, -, f3⟩ := read_err_fix d 32768 .eof hr
      have fz := (readsWith_frozen (d.read 32768).1 f3 (List.replicate n 32768)).1
      rw [fz] at hclose ⊢
      have hsplit : d.read 32768 = ((d.read 32768).1, (d.read 32768).2.1, some .eof) := by rw [← hr]
      rw [hsplit]
      simp only at hclose ⊢
      rw [hclose]
      simp

/-- **`lz_roundtrip`** (the decoder call of `fetchAll`): for every `x` with `|x| < 2^31`,
`lzDecodeE (compress true x) = .ok x`. The fuel `lzDecodeE` passes (`size + 3` reads of 32 KiB) suffices:
`|x| + 1` non-empty reads always reach `io.EOF` (`Props.C08.read_terminates_index`). -/
theorem lzDecodeE_compress (x : Bytes) (hx : x.length < 2 ^ 31) : lzDecodeE (compress true x) = .ok x := by
  obtain ⟨d, h1, h2, h3⟩ := roundtrip_full true x (by simpa using hx)
  unfold lzDecodeE
  rw [h1]
  simp only
  have hfuel : d.size.toNat + 3 = x.length + 3 := by rw [h2]; simp
  rw [hfuel]
  have hend : ∃ e, some e ∈ errsWith d (List.replicate (x.length + 3) 32768) := by
    obtain ⟨k, e, -, hk⟩ := Wl2k.Props.C08.read_terminates_index true _ d (List.replicate (x.length + 3) 32768) h1
      (by intro n hn; rw [(List.mem_replicate.mp hn).2]; decide) (by rw [h2]; simp)
    exact ⟨e, List.mem_of_getElem? hk⟩
  have hall := roundtrip_only_eof true x (by simpa using hx) d h1 _ hend
  obtain ⟨r1, r2⟩ := h3 _ hend
  rw [lzReadAll_of_reads _ d [] hend hall r2, r1, List.nil_append]

theorem lz_roundtrip (x : Bytes) (hx : x.length < 2 ^ 31) : lzDecode (compress true x) = some x := by
  unfold lzDecode
  rw [lzDecodeE_compress x hx]

/-- `MsgOK` without the round-trip field -/
structure MsgOK' (fuel : Nat) (msg : OutMsg) : Prop where
  mid32 : (32 : UInt8) ∉ msg.mid
  mid13 : (13 : UInt8) ∉ msg.mid
  /-- the `int32` size field of the LZHUF header -/
  small : msg.data.length < 2 ^ 31
  csizeOK : ((Lzhuf.compress true msg.data).length : Int) ≤ Strconv.maxInt64
  lineFuel : (pl (mkProp msg)).length < fuel
  noNul : (0 : UInt8) ∉ msg.qtitle
  short : msg.qtitle.length + 3 < 256
  frameFuel : msg.qtitle.length + (Lzhuf.compress true msg.data).length + 4 < fuel

theorem MsgOK'.toMsgOK {fuel : Nat} {msg : OutMsg} (h : MsgOK' fuel msg) : MsgOK fuel msg :=
  ⟨h.mid32, h.mid13, by have := h.small; simp only [Strconv.maxInt64]; omega, h.csizeOK, h.lineFuel, h.noNul, h.short,
    h.frameFuel, lz_roundtrip msg.data h.small⟩

end Wl2k.B2F
