import Wl2kVerif.Proofs.Bits
/-
`compress_length_ge_6`: with the CRC option the LZHUF stream starts with 2 CRC bytes and 4 size bytes
(the `crc16` flag is not touched by anything between `NewWriter` and `Close`).
-/
namespace Wl2k.Lzhuf
open Wl2k.Bits

theorem crc_of_frame {w w' : Writer} (h : sameRest w w') : w'.crc16 = w.crc16 := h.2.2.2.2.2.2.2.2

theorem putPieces_crc : ∀ (f : Nat) (w : Writer) (i : UInt64) (j : Nat), (w.putPieces i j f).crc16 = w.crc16 := by
  intro f
  induction f with
  | zero => intro w i j; rfl
  | succ f ih =>
    intro w i j
    unfold Writer.putPieces
    split
    · simp only
      rw [ih]; exact crc_of_frame (putCode_frame w _ _)
    · rfl

theorem encodeChar_crc (w : Writer) (c : Nat) : (w.encodeChar c).crc16 = w.crc16 := by
  unfold Writer.encodeChar
  simp only
  exact putPieces_crc _ w _ _

theorem encodePosition_crc (w : Writer) (c : Nat) : (w.encodePosition c).crc16 = w.crc16 := by
  unfold Writer.encodePosition
  simp only
  exact (crc_of_frame (putCode_frame _ _ _)).trans (crc_of_frame (putCode_frame _ _ _))

theorem encode_crc (w : Writer) : w.encode.crc16 = w.crc16 := by
  unfold Writer.encode
  split
  · rfl
  · simp only
    repeat' split
    all_goals simp only [encodeChar_crc, encodePosition_crc]

theorem advance_crc (w : Writer) (c : Option UInt8) : (w.advance c).crc16 = w.crc16 := by
  unfold Writer.advance
  cases c with
  | none =>
    simp only
    split
    · simp only [encode_crc]
    · rfl
  | some b =>
    simp only
    split
    · simp only [encode_crc]
    · rfl

theorem writeByte_crc (w : Writer) (b : UInt8) : (w.writeByte b).crc16 = w.crc16 := by
  unfold Writer.writeByte
  split
  · rfl
  · simp only [advance_crc]

theorem write_crc (p : Bytes) : ∀ (w : Writer), (w.write p).crc16 = w.crc16 := by
  induction p with
  | nil => intro w; rfl
  | cons b t ih => intro w; simp only [Writer.write, List.foldl_cons] at ih ⊢; rw [ih, writeByte_crc]

theorem drain_crc : ∀ (f : Nat) (w : Writer), (w.drain f).crc16 = w.crc16 := by
  intro f
  induction f with
  | zero => intro w; rfl
  | succ f ih =>
    intro w
    unfold Writer.drain
    split
    · rw [ih, advance_crc]
    · rfl

theorem encodeEnd_crc (w : Writer) : w.encodeEnd.crc16 = w.crc16 := by
  unfold Writer.encodeEnd
  split <;> rfl

/-- **`compress_length_ge_6`** -/
theorem compress_length_ge_6 (x : Bytes) : 6 ≤ (compress true x).length := by
  unfold compress Writer.close
  simp only
  have : ((((Writer.new true).write x).drain (F + 1)).encode.encodeEnd).crc16 = true := by
    rw [encodeEnd_crc, encode_crc, drain_crc, write_crc]; rfl
  simp [this, le16, le32]

end Wl2k.Lzhuf
