import Wl2kVerif.Proofs.LzValid
import Wl2kVerif.Proofs.CanonBits
/-
C07 (reverse direction) — the window/search-tree invariant for the CANONICAL driver order
(`DeleteNode(s); text_buf[s] = c; s++; r++; InsertNode(r)`), at the level of the `Tree` alone.
`CSt x m a z`: after `a` shifts, with `m` bytes of `x` stored, right after `InsertNode(r)`:
window contents (`TextInv`), which nodes may be live, the local forest invariant with the class ghost
`klOf`, and the match just reported refers to a live node of the right class with equal bytes (`MatchOK`).
The tree primitives are the library model's (`insertNode`, `deleteNode`), so `insertNode_inv` /
`deleteNode_inv` of `Proofs/LzTree2.lean` apply unchanged; only the ORDER of the driver differs.
-/
namespace Wl2k.Lzhuf
open Wl2k.Forest

/-- state right after `InsertNode(r)`, `r = (1988 + a) mod N` -/
structure CSt (x : Bytes) (m a : Nat) (z : Tree) : Prop where
  text : TextInv (masterH x) m z
  range : ∀ p, p < 2048 → rd z.dad p ≠ 2048 → (p + 2048 - a % 2048) % 2048 ≤ 1988
  tree : ∃ rank, TreeInv z (klOf (masterH x) a) rank
  mok : MatchOK ((1988 + a) % 2048)
    (fun q => q < 2048 ∧ (q + 2048 - a % 2048) % 2048 < 1988 ∧
      (masterH x).getD (gpos a q) 0 = (masterH x).getD (2048 + a) 0) z
  cur : z.tb ((1988 + a) % 2048) = (masterH x).getD (2048 + a) 0

/-- `insertNode(r)` on a tree whose text is up to date (`Lzhuf.insert_stage` without the pre-fill bound) -/
theorem insert_stage' {x : Bytes} {m' a : Nat} {z0 : Tree}
    (text0 : TextInv (masterH x) m' z0)
    (range : ∀ p, p < 2048 → rd z0.dad p ≠ 2048 → (p + 2048 - a % 2048) % 2048 < 1988)
    (tree : ∃ rank, TreeInv z0 (klOf (masterH x) a) rank) (mp : z0.matchPosition < N)
    (ham : a < m') (hm61 : m' ≤ a + 61) :
    CSt x m' a (insertNode z0 ((1988 + a) % 2048)) := by
  obtain ⟨rank, t0⟩ := tree
  have hr : (1988 + a) % 2048 < 2048 := Nat.mod_lt _ (by decide)
  have hdr : rd z0.dad ((1988 + a) % 2048) = 2048 := by
    apply Decidable.byContradiction
    intro h
    have := range _ hr h
    omega
  have hcur : z0.tb ((1988 + a) % 2048) = (masterH x).getD (2048 + a) 0 :=
    text0.lookup (2048 + a) _ (by omega) (by omega) (by omega) (by omega) (by omega)
  obtain ⟨rank', t1, live, tbe, mok⟩ := insertNode_inv t0 _ hr hdr mp (fun c _ => klOf_root _ a c)
  have hkl : (fun y => if y = (1988 + a) % 2048 then (z0.tb ((1988 + a) % 2048)).toNat else klOf (masterH x) a y)
      = klOf (masterH x) a := by
    funext y
    by_cases hy : y = (1988 + a) % 2048
    · rw [if_pos hy, hy, hcur]
      unfold klOf
      rw [if_pos hr]
      have : gpos a ((1988 + a) % 2048) = 2048 + a := by unfold gpos; omega
      rw [this]
    · rw [if_neg hy]
  rw [hkl] at t1
  have text1 := text0.congr tbe
  refine ⟨text1, ?_, ⟨rank', t1⟩, ?_, ?_⟩
  · intro p hp hl
    by_cases hpr : p = (1988 + a) % 2048
    · rw [hpr]; omega
    · have := range p hp (live p hp hpr hl)
      omega
  · refine mok.mono ?_
    intro q hq
    obtain ⟨q1, q2, q3⟩ := hq
    have := range q q1 q2
    refine ⟨q1, this, ?_⟩
    unfold klOf at q3
    rw [if_pos q1, hcur] at q3
    exact UInt8.toNat_inj.mp q3
  · have : (insertNode z0 ((1988 + a) % 2048)).tb ((1988 + a) % 2048) = z0.tb ((1988 + a) % 2048) := by
      unfold Tree.tb; rw [tbe]
    rw [this, hcur]

/-- `deleteNode(s)`, `s = a mod N`, and the shift of the frame of reference from `a` to `a + 1` -/
theorem delete_stage {x : Bytes} {a : Nat} {z : Tree}
    (range : ∀ p, p < 2048 → rd z.dad p ≠ 2048 → (p + 2048 - a % 2048) % 2048 ≤ 1988)
    (tree : ∃ rank, TreeInv z (klOf (masterH x) a) rank) :
    (deleteNode z (a % 2048)).textBuf = z.textBuf ∧
    (deleteNode z (a % 2048)).matchLength = z.matchLength ∧
    (deleteNode z (a % 2048)).matchPosition = z.matchPosition ∧
    (∀ p, p < 2048 → rd (deleteNode z (a % 2048)).dad p ≠ 2048 →
      (p + 2048 - (a + 1) % 2048) % 2048 < 1988) ∧
    ∃ rank, TreeInv (deleteNode z (a % 2048)) (klOf (masterH x) (a + 1)) rank := by
  obtain ⟨d1, d2, d3⟩ := deleteNode_frame z (a % 2048)
  obtain ⟨rank, tr⟩ := tree
  have hs : a % 2048 < 2048 := Nat.mod_lt _ (by decide)
  obtain ⟨rank', tr', dead, live⟩ := deleteNode_inv tr (a % 2048) hs
  refine ⟨d1, d2, d3, ?_, rank', ?_⟩
  · intro q hq hl
    have hqs : q ≠ a % 2048 := fun h => by rw [h] at hl; exact hl dead
    have hl' : rd z.dad q ≠ 2048 := fun h => hl ((live q hq hqs).mpr h)
    have := range q hq hl'
    omega
  · refine ⟨tr'.sz_dad, tr'.sz_lson, tr'.sz_rson, ?_⟩
    refine tr'.f.dead_irrel (a % 2048) hs dead _ _ _ _ (fun _ _ => rfl) (fun _ _ => rfl) ?_ (fun _ _ => rfl)
    intro y hy
    unfold klOf
    by_cases hy2 : y < 2048
    · rw [if_pos hy2, if_pos hy2, gpos_succ a y hy2 hy]
    · rw [if_neg hy2, if_neg hy2]

theorem TextInv.ofTb {H : Bytes} {m : Nat} {z z' : Tree} (t : TextInv H m z) (h : z'.textBuf = z.textBuf) :
    TextInv H m z' := t.congr h

/-- one iteration of the canonical read loop: `DeleteNode(s); text_buf[s] = c; s++; r++; InsertNode(r)` -/
theorem cstepIn {x : Bytes} {m a : Nat} {z : Tree} (st : CSt x m a z) (hma : m = a + 60) (c : UInt8)
    (hc : c = (masterH x).getD (2048 + m) 0) :
    CSt x (m + 1) (a + 1)
      (insertNode { deleteNode z (a % 2048) with
        textBuf := storeByte (deleteNode z (a % 2048)).textBuf (a % 2048) c } ((1988 + (a + 1)) % 2048)) := by
  obtain ⟨d1, d2, d3, d4, rank, d5⟩ := delete_stage st.range st.tree
  have text1 : TextInv (masterH x) m (deleteNode z (a % 2048)) := st.text.congr d1
  have text2 := store_text text1 c hc hma
  refine insert_stage' text2 d4 ⟨rank, d5.ofArrays rfl rfl rfl⟩ ?_ (by omega) (by omega)
  show (deleteNode z (a % 2048)).matchPosition < N
  rw [d3]; exact st.mok.pos_lt

/-- one iteration of the canonical flush loop with look-ahead left: `DeleteNode(s); s++; r++; InsertNode(r)` -/
theorem cstepOut {x : Bytes} {m a : Nat} {z : Tree} (st : CSt x m a z) (h1 : a + 1 < m) (h2 : m ≤ a + 60) :
    CSt x m (a + 1) (insertNode (deleteNode z (a % 2048)) ((1988 + (a + 1)) % 2048)) := by
  obtain ⟨d1, d2, d3, d4, rank, d5⟩ := delete_stage st.range st.tree
  have text1 : TextInv (masterH x) m (deleteNode z (a % 2048)) := st.text.congr d1
  refine insert_stage' text1 d4 ⟨rank, d5⟩ ?_ h1 (by omega)
  rw [d3]; exact st.mok.pos_lt

/-! ### the token -/

/-- the token the canonical main loop emits for tree state `z`, look-ahead `len`, position `r` -/
def tokOf (z : Tree) (len r : Nat) : Token :=
  if (if z.matchLength > len then len else z.matchLength) ≤ THRESHOLD then .lit (z.tb r)
  else .mat (if z.matchLength > len then len else z.matchLength) z.matchPosition

/-- the token extends the decoded prefix by its length, which fits the look-ahead; it is well-formed -/
theorem ctoken_valid {x : Bytes} {m a : Nat} {z : Tree} (st : CSt x m a z) (h1 : a < m) (h2 : m ≤ a + 60)
    (hm : m ≤ x.length) :
    1 ≤ (tokOf z (m - a) ((1988 + a) % 2048)).len ∧ a + (tokOf z (m - a) ((1988 + a) % 2048)).len ≤ m ∧
    (tokOf z (m - a) ((1988 + a) % 2048)).ok ∧
    lzStep ((masterH x).take (2048 + a)) (tokOf z (m - a) ((1988 + a) % 2048)) =
      (masterH x).take (2048 + a + (tokOf z (m - a) ((1988 + a) % 2048)).len) := by
  have hHl := masterH_length x
  unfold tokOf
  generalize hml : (if z.matchLength > m - a then m - a else z.matchLength) = ml
  have hle : ml ≤ z.matchLength ∧ ml ≤ m - a := by rw [← hml]; split <;> omega
  by_cases hc : ml ≤ THRESHOLD
  · rw [if_pos hc]
    refine ⟨Nat.le_refl _, by simp only [Token.len]; omega, trivial, ?_⟩
    rw [st.cur]
    exact lit_step _ _ (by omega)
  · rw [if_neg hc]
    simp only [THRESHOLD_eq] at hc
    have hF := st.mok.len_le
    have hP := st.mok.pos_lt
    simp only [F_eq, N_eq] at hF hP
    obtain ⟨q, ⟨q1, q2, q3⟩, e, v⟩ := st.mok.valid (by simp only [THRESHOLD_eq]; omega)
    obtain ⟨v1, v2, v3⟩ := match_valid st.text q ml q1 q2 (by omega) (by omega) (by omega) q3
      (fun i i1 i2 => v i i1 (by omega))
    refine ⟨by simp only [Token.len]; omega, by simp only [Token.len]; omega,
      ⟨by simp only [THRESHOLD_eq]; omega, by simp only [F_eq]; omega, by omega⟩, ?_⟩
    simp only [Token.len, lzStep]
    have hmod : ((1988 + a) % 2048 + N - q) % N = ((1988 + a) % 2048 + 2048 - q) % 2048 := rfl
    have hfit : 2048 + a + ml ≤ (masterH x).length := by rw [hHl]; omega
    refine lzCopy_take (masterH x) _ (((1988 + a) % 2048 + 2048 - q) % 2048) ?_ ml (2048 + a) v2
      hfit v3
    rw [e, hmod]
    simp only [N_eq]
    omega

end Wl2k.Lzhuf
