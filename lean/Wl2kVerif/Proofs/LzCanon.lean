import Wl2kVerif.Proofs.LzRound
import Wl2kVerif.Lzhuf.Canon
/-
C07 — the CANONICAL decoder (`Lzhuf.Canon.decodeBody`, transcription of LZHUF.C `Decode()`) decodes what
the library's compressor emits.  Same token-level argument as for the library's reader (`run_tokens`); the
canonical loop has no size check inside a match, which is harmless on streams whose tokens fit the size.
-/
namespace Wl2k.Lzhuf
open Wl2k.Bits Wl2k.Lzhuf.Canon

/-- the canonical copy loop = the library's, as long as the match fits the declared size -/
theorem copyAll_eq (i : Nat) : ∀ (j : Nat) (d : Reader) (out : Array UInt8) (k : Nat),
    (d.pos : Int) + j ≤ d.size →
    copyAll d i out k j = ((d.copyFull i k j).1, out ++ (d.copyFull i k j).2.1.toArray) := by
  intro j
  induction j with
  | zero => intro d out k _; simp [copyAll, Reader.copyFull]
  | succ j ih =>
    intro d out k h
    have hlt : ¬ (d.pos : Int) ≥ d.size := by omega
    rw [copyAll, Reader.copyFull, if_neg hlt, ih _ _ _ (by simp only [Reader.putOne]; omega)]
    simp

/-- one iteration of the canonical `Decode()` loop = one token -/
theorem decodeLoop_step (d : Reader) (out : Array UInt8) (size fuel : Nat) (h : out.size < size)
    (hfit : 256 ≤ d.decodeChar.2 → (d.pos : Int) + (d.decodeChar.2 - 255 + THRESHOLD : Nat) ≤ d.size) :
    decodeLoop d out size (fuel + 1) = decodeLoop d.tok.1 (out ++ d.tok.2.toArray) size fuel := by
  have f1 := decodeChar_frame d
  rcases hdc : d.decodeChar with ⟨d1, c⟩
  rw [hdc] at f1 hfit
  rcases hdp : d1.decodePosition with ⟨d2, p⟩
  have f2 := decodePosition_frame d1
  rw [hdp] at f2
  dsimp only at f1 f2 hfit
  rw [tok_of d d1 d2 c p hdc hdp, decodeLoop, if_pos h, hdc]
  dsimp only
  by_cases hc : c < 256
  · rw [if_pos hc, if_pos hc]
    simp
  · rw [if_neg hc, if_neg hc, hdp]
    dsimp only
    rw [copyAll_eq _ _ _ _ _ (by rw [f2.pos, f2.size, f1.pos, f1.size]; exact hfit (by omega))]

theorem tokens_length_le (ts : List Token) (ok : ∀ t ∈ ts, t.ok) : ts.length ≤ (ts.map Token.len).sum := by
  induction ts with
  | nil => simp
  | cons t ts ih =>
    have h1 : 1 ≤ t.len := by
      have := ok t List.mem_cons_self
      cases t with
      | lit b => exact Nat.le_refl _
      | mat len pos => simp only [Token.ok, THRESHOLD_eq] at this; simp only [Token.len]; omega
    have := ih (fun t' h => ok t' (List.mem_cons_of_mem _ h))
    simp only [List.length_cons, List.map_cons, List.sum_cons]
    omega

/-- **the canonical decode loop implements `lzDecode`** -/
theorem decodeLoop_tokens : ∀ (ts : List Token) (d : Reader) (H : Bytes) (rest : List Bool)
    (out : Array UInt8) (size fuel : Nat),
    (∀ t ∈ ts, t.ok) → HuffWF d.h → RInv d → WinInv d H →
    unreadBits d = encTokens d.h ts ++ rest → d.size = (size : Int) → out.size = d.pos →
    size = d.pos + (ts.map Token.len).sum → ts.length ≤ fuel →
    decodeLoop d out size fuel = out ++ (lzOut H ts).toArray := by
  intro ts
  induction ts with
  | nil =>
    intro d H rest out size fuel _ _ _ _ _ _ ho hs _
    simp only [List.map_nil, List.sum_nil, Nat.add_zero] at hs
    cases fuel with
    | zero => simp [decodeLoop, lzOut]
    | succ f => rw [decodeLoop, if_neg (by omega)]; simp [lzOut]
  | cons t ts ih =>
    intro d H rest out size fuel ok w inv wi hu hsz ho hs hf
    have okt : t.ok := ok t List.mem_cons_self
    simp only [List.map_cons, List.sum_cons] at hs
    obtain ⟨fuel', rfl⟩ : ∃ f, fuel = f + 1 := ⟨fuel - 1, by simp only [List.length_cons] at hf; omega⟩
    have hlen : 1 ≤ t.len := by
      cases t with
      | lit b => exact Nat.le_refl _
      | mat len pos => simp only [Token.ok, THRESHOLD_eq] at okt; simp only [Token.len]; omega
    rw [encTokens, List.append_assoc] at hu
    -- the symbol `decodeChar` finds
    have hsym : d.decodeChar.2 = t.sym := by
      cases t with
      | lit b =>
        exact (decodeChar_code d w b.toNat (by have := b.toNat_lt; simp only [NCHAR_eq]; omega) inv _ hu).1
      | mat len pos =>
        simp only [Token.ok, F_eq, THRESHOLD_eq] at okt
        have hu' : unreadBits d = codeBits d.h (255 - THRESHOLD + len) ++ (posBits pos ++ (encTokens (update d.h (Token.mat len pos).sym) ts ++ rest)) := by
          rw [hu, tokBits, List.append_assoc]
        exact (decodeChar_code d w _ (by simp only [NCHAR_eq, THRESHOLD_eq]; omega) inv _ hu').1
    have hfit : 256 ≤ d.decodeChar.2 → (d.pos : Int) + (d.decodeChar.2 - 255 + THRESHOLD : Nat) ≤ d.size := by
      intro h256
      rw [hsym] at h256 ⊢
      cases t with
      | lit b => have := b.toNat_lt; simp only [Token.sym] at h256; omega
      | mat len pos =>
        simp only [Token.ok, THRESHOLD_eq] at okt
        simp only [Token.sym, Token.len, THRESHOLD_eq] at hs ⊢
        have e : 255 - 2 + len - 255 + 2 = len := by omega
        rw [e, hsz]; omega
    obtain ⟨s1, s2, s3, s4, s5, s6, s7⟩ := tok_spec d H t okt w inv wi _ hu (by rw [hsz]; omega)
    rw [decodeLoop_step d out size fuel' (by omega) hfit]
    generalize d.tok = tk at *
    obtain ⟨d', bs⟩ := tk
    dsimp only at s1 s2 s3 s4 s5 s6 s7 ⊢
    obtain ⟨bs', eb, lb⟩ := lzStep_prefix H t
    have hbl : bs.length = t.len := by rw [s1, eb]; simp [lb]
    rw [ih d' (lzStep H t) rest _ size fuel' (fun t' ht' => ok t' (List.mem_cons_of_mem _ ht'))
      (by rw [s3]; exact update_preserves w _ (t.sym_lt okt)) s4 s2 (by rw [s5, s3]) (s7.size.trans hsz)
      (by simp [ho, s6, hbl]) (by rw [s6]; omega) (by simp only [List.length_cons] at hf; omega)]
    rw [lzOut, ← s1]
    simp

/-- the start state of the canonical decoder -/
def canonStart (body : Bytes) (size : Nat) : Reader :=
  { h := Huff.init, textBuf := fillBytes (Array.replicate (N + F - 1) 0) 32 (N - F), src := body.toArray,
    crc16 := false, size := size, sizeBytes := [], r := N - F }

theorem canonStart_r (body : Bytes) (size : Nat) : (canonStart body size).r = N - F := by rw [canonStart]
theorem canonStart_tb (body : Bytes) (size : Nat) :
    (canonStart body size).textBuf = fillBytes (Array.replicate (N + F - 1) 0) 32 (N - F) := by rw [canonStart]
theorem canonStart_fields (body : Bytes) (size : Nat) :
    (canonStart body size).h = Huff.init ∧ (canonStart body size).size = (size : Int) ∧
    (canonStart body size).pos = 0 ∧ (canonStart body size).bbits = 0 ∧ (canonStart body size).bpos = 0 ∧
    (canonStart body size).pulled = 0 ∧ (canonStart body size).src = body.toArray := by
  rw [canonStart]; exact ⟨rfl, rfl, rfl, rfl, rfl, rfl, rfl⟩

theorem decodeBody_eq (body : Bytes) (size : Nat) :
    decodeBody body size = (decodeLoop (canonStart body size) #[] size size).toList := rfl

/-- **`canon_decodes_go`**: the canonical decoder, given the body of `compress crc16 x` and the size `|x|`,
returns `x` — for every input, either header format. -/
theorem canon_decodes_go (crc16 : Bool) (x : Bytes) : decodeBody (bodyOf crc16 x) x.length = x := by
  obtain ⟨pad, -, -, p3, ok⟩ := compress_bits crc16 x
  have hv := tokens_valid crc16 x
  have hl : (lzOut initHist (tokensOf crc16 x)).length = x.length := by rw [← lzDecode_eq, hv]
  obtain ⟨c1, c2, c3, c4, c5, c6, c7⟩ := canonStart_fields (bodyOf crc16 x) x.length
  have hu : unreadBits (canonStart (bodyOf crc16 x) x.length)
      = encTokens (canonStart (bodyOf crc16 x) x.length).h (tokensOf crc16 x) ++ pad := by
    rw [c1, ← p3]
    unfold unreadBits
    rw [c4, c5, c7]
    simp [lowBits]
  have key := decodeLoop_tokens (tokensOf crc16 x) (canonStart (bodyOf crc16 x) x.length)
    initHist pad #[] x.length x.length ok (by rw [c1]; exact huffWF_init)
    ⟨by rw [c4]; exact Nat.zero_lt_succ _, by rw [c5, c6]; exact Nat.le_refl _, by rw [c6]; exact Nat.zero_le _⟩
    (new_win _ (canonStart_r _ _) (canonStart_tb _ _)) hu c2 (by rw [c3]; rfl)
    (by rw [c3, ← lzOut_length _ initHist, hl]; simp)
    (by have := tokens_length_le _ ok; rw [← lzOut_length _ initHist, hl] at this; exact this)
  rw [decodeBody_eq, key, ← lzDecode_eq, hv]
  simp

end Wl2k.Lzhuf
