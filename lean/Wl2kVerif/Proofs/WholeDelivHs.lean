import Wl2kVerif.Proofs.WholeDeliv
/-
`pair_delivers` for two WHOLE `exchange` programs on a fault-free link: `Prepare` and the two handshakes as
segments of an execution of the pair system that reaches the first configuration of `Proofs/WholeDeliv.lean`,
then `deliver_conf`.
-/
namespace Wl2k.B2F
open Wl2k

/-! ### the handshake lines, read completely, with the peeks named -/

/-- the peeks of the line loop on `ls` (newest first) -/
def peeksOf (ls : List Bytes) : List Ev := (ls.map fun l => Ev.peeked (firstOf l)).reverse

theorem readHs_lines_full (master : Bool) (fuel : Nat) (h : HState) : ∀ (ls : List Bytes) (data d' : HsData) (n : Nat),
    hsFold data ls = some d' →
    (∀ l ∈ ls, (13 : UInt8) ∉ l ∧ l.length < fuel ∧ ¬ (firstOf l = 70 ∧ master = true)) → ls.length ≤ n →
    ∀ (rest : Bytes) (tr : List Ev),
      Proc.run hstep (readHandshake master fuel n data) (linesBytes ls ++ rest) h tr =
        Proc.run hstep (readHandshake master fuel (n - ls.length) d') rest h (peeksOf ls ++ tr) := by
  intro ls
  induction ls with
  | nil =>
    intro data d' n hfold _ _ rest tr
    simp only [hsFold, Option.some.injEq] at hfold
    subst hfold
    simp [linesBytes, peeksOf]
  | cons l ls ih =>
    intro data d' n hfold hok hn rest tr
    cases n with
    | zero => simp at hn
    | succ n =>
      obtain ⟨h13, hlf, hF⟩ := hok l (by simp)
      simp only [hsFold] at hfold
      cases hv : hsVerdict data (cleanString (l ++ [13])) with
      | stop d => rw [hv] at hfold; cases hfold
      | bad => rw [hv] at hfold; cases hfold
      | cont d =>
        rw [hv] at hfold
        simp only at hfold
        rw [linesBytes_cons, List.append_assoc, List.cons_append,
          hs_step_cont master fuel n data d l _ h tr h13 hlf hF hv,
          ih d d' n hfold (fun q hq => hok q (by simp [hq])) (by simp at hn; omega)]
        simp [peeksOf]

/-- **The slave's line loop on exactly the master's handshake bytes.** -/
theorem run_slave_read (cM : Cfg) (fuel : Nat) (hmM : cM.hs.master = true) (wfM : HsWF cM.hs) (hmotd : ∀ l ∈ cM.motd, MotdOK l)
    (hfuel : (hsBytesM cM).length < fuel) :
    ∃ d : HsData, d.sid.isEmpty = false ∧ d.challenge = [] ∧ ∀ (rest : Bytes) (h : HState) (tr : List Ev),
      Proc.run hstep (readHandshake false fuel fuel {}) (hsBytesM cM ++ rest) h tr =
        (.done (.ok d), rest, h, .peeked (firstOf (trL cM.hs)) :: (peeksOf (cM.motd ++ [fwL cM.hs, sidL cM.hs]) ++ tr)) := by
  obtain ⟨d, hfold, hsid, hch⟩ := hsFold_masterLines cM wfM hmotd
  obtain ⟨t13, _, tv⟩ := trL_facts cM.hs wfM d
  rw [hmM] at tv
  simp only [if_true] at tv
  have hHM : hsBytesM cM = linesBytes (cM.motd ++ [fwL cM.hs, sidL cM.hs]) ++ (trL cM.hs ++ 13 :: []) := by
    unfold hsBytesM
    rw [show cM.motd ++ [fwL cM.hs, sidL cM.hs, trL cM.hs] = (cM.motd ++ [fwL cM.hs, sidL cM.hs]) ++ [trL cM.hs] by simp,
      linesBytes_append]
    simp [linesBytes]
  have hlines : ∀ l ∈ cM.motd ++ [fwL cM.hs, sidL cM.hs], (13 : UInt8) ∉ l ∧ l.length < fuel ∧ ¬ (firstOf l = 70 ∧ false = true) := by
    intro l hl
    have hlen : l.length < fuel := by
      have := line_length_lt _ l hl
      rw [hHM] at hfuel
      simp only [List.length_append] at hfuel
      omega
    refine ⟨?_, hlen, by simp⟩
    simp only [List.mem_append, List.mem_cons, List.not_mem_nil, or_false] at hl
    rcases hl with hl | rfl | rfl
    · exact (hmotd l hl).no13
    · exact (fwL_facts cM.hs wfM {}).1
    · exact (sidL_facts cM.hs wfM {}).1
  have hcount : (cM.motd ++ [fwL cM.hs, sidL cM.hs]).length + 1 < fuel := by
    have := lines_count_le (cM.motd ++ [fwL cM.hs, sidL cM.hs])
    rw [hHM] at hfuel
    simp only [List.length_append, List.length_cons, List.length_nil] at hfuel this ⊢
    omega
  have htl : (trL cM.hs).length < fuel := by
    rw [hHM] at hfuel
    simp only [List.length_append, List.length_cons] at hfuel
    omega
  obtain ⟨k, hk⟩ : ∃ k, fuel - (cM.motd ++ [fwL cM.hs, sidL cM.hs]).length = k + 1 :=
    ⟨fuel - (cM.motd ++ [fwL cM.hs, sidL cM.hs]).length - 1, by omega⟩
  refine ⟨d, hsid, hch, ?_⟩
  intro rest h tr
  rw [hHM, List.append_assoc, readHs_lines_full false fuel h _ {} d fuel hfold hlines (by omega), hk]
  simp only [List.append_assoc, List.cons_append, List.nil_append]
  rw [hs_step_stop false fuel k d d (trL cM.hs) rest h _ t13 htl (by simp) tv]

/-- **The master's line loop on the slave's handshake bytes followed by an 'F'.** -/
theorem run_master_read (cS : Cfg) (fuel : Nat) (hmS : cS.hs.master = false) (wfS : HsWF cS.hs)
    (hfuel : (hsBytesS cS).length < fuel) :
    ∃ d : HsData, d.sid.isEmpty = false ∧ ∀ (r : Bytes) (h : HState) (tr : List Ev),
      Proc.run hstep (readHandshake true fuel fuel {}) (hsBytesS cS ++ 70 :: r) h tr =
        (.done (.ok d), 70 :: r, h, .peeked 70 :: (peeksOf [fwL cS.hs, sidL cS.hs, trL cS.hs] ++ tr)) := by
  obtain ⟨d, hfold, hsid⟩ := hsFold_slaveLines cS.hs wfS hmS
  have hlines : ∀ l ∈ [fwL cS.hs, sidL cS.hs, trL cS.hs], (13 : UInt8) ∉ l ∧ l.length < fuel ∧ ¬ (firstOf l = 70 ∧ true = true) := by
    intro l hl
    have hlen : l.length < fuel := by
      have := line_length_lt _ l hl
      unfold hsBytesS at hfuel
      omega
    refine ⟨?_, hlen, ?_⟩
    · simp only [List.mem_cons, List.not_mem_nil, or_false] at hl
      rcases hl with rfl | rfl | rfl
      · exact (fwL_facts cS.hs wfS {}).1
      · exact (sidL_facts cS.hs wfS {}).1
      · exact (trL_facts cS.hs wfS {}).1
    · simp only [List.mem_cons, List.not_mem_nil, or_false] at hl
      rcases hl with rfl | rfl | rfl
      · rw [(fwL_facts cS.hs wfS {}).2.1]; decide
      · rw [(sidL_facts cS.hs wfS {}).2.1]; decide
      · rw [(trL_facts cS.hs wfS {}).2.1]; decide
  have hcount : 3 < fuel := by
    have := lines_count_le [fwL cS.hs, sidL cS.hs, trL cS.hs]
    unfold hsBytesS at hfuel
    simp only [List.length_cons, List.length_nil] at this
    omega
  obtain ⟨k, hk⟩ : ∃ k, fuel - [fwL cS.hs, sidL cS.hs, trL cS.hs].length = k + 1 := ⟨fuel - 3 - 1, by simp; omega⟩
  refine ⟨d, hsid, ?_⟩
  intro r h tr
  unfold hsBytesS
  rw [readHs_lines_full true fuel h _ {} d fuel hfold hlines (by simp; omega), hk, hs_step_F]

/-! ### from the start to the first configuration -/

/-- what `Exchange` does with the result of `Prepare` -/
def afterPrep (c : Cfg) (fuel : Nat) : Reply → Proc Result
  | .err true => finish {} true (some (.proto "prepare-failed"))
  | _ => (handshake c fuel).bind (afterHs c fuel)

theorem exchange_eq2 (c : Cfg) (fuel : Nat) (hh : c.hasHandler = true) :
    exchange c fuel = (Proc.call .prepare Proc.ret).bind (afterPrep c fuel) := by
  rw [exchange_eq c fuel hh]
  simp only [Proc.bind]
  congr

theorem upto_prepare (h : HState) (hp : h.prepareFails = false) (I : Bytes) (e : List Ev) :
    Proc.upto hstep (Proc.call .prepare Proc.ret) I h e = (.ret (.err false), I, h, .called .prepare :: e) := by
  simp [Proc.upto, hstep, hp]

/-- what the master's `handshake` does after its line loop -/
def hsDoneM : Except SErr HsData → Proc (Except SErr HsData)
  | .error e => .ret (.error e)
  | .ok hs => if hs.sid.isEmpty then .ret (.error (.proto "no-sid")) else .ret (.ok hs)

/-- what the slave's `handshake` does after its line loop -/
def hsDoneS (c : Cfg) : Except SErr HsData → Proc (Except SErr HsData)
  | .error e => .ret (.error e)
  | .ok hs =>
    if hs.sid.isEmpty then .ret (.error (.proto "no-sid"))
    else (sendHandshakeP c hs.challenge).bind fun r =>
      match r with
      | .error e => .ret (.error e)
      | .ok () => .ret (.ok hs)

theorem handshake_master_eq2 (c : Cfg) (fuel : Nat) (hm : c.hs.master = true) :
    handshake c fuel =
      ((writeLines c.motd).bind fun _ => Proc.write (linesBytes [fwL c.hs, sidL c.hs, trL c.hs]) (.ret ())).bind fun _ =>
        (readHandshake true fuel fuel {}).bind hsDoneM := by
  rw [handshake_master_eq c fuel hm, Proc.bind_assoc]
  congr

theorem handshake_slave_eq2 (c : Cfg) (fuel : Nat) (hm : c.hs.master = false) :
    handshake c fuel = (readHandshake false fuel fuel {}).bind (hsDoneS c) := by
  rw [handshake_slave_eq c fuel hm]
  congr

/-- the hypotheses of `pair_delivers` on one side: `SideOK`, no storage / parse errors, distinct MIDs -/
structure DelivOK (c : Cfg) (fuel : Nat) (h : HState) : Prop where
  ok : SideOK c fuel h
  quiet : Quiet h
  nd : (h.outbox.map (·.mid)).Nodup

theorem vo_length_le (h : HState) : (vo h).length ≤ h.outbox.length := (vo_sublist h).length_le

/-- **`pair_delivers`, existence.** On a fault-free link some execution of the pair system of two whole
`exchange` programs (master on the left) ends with both sides returned without error and both ledgers
complete. -/
theorem pair_delivers_exec (cM cS : Cfg) (fuel : Nat) (hM hS : HState) (hmM : cM.hs.master = true) (hmS : cS.hs.master = false)
    (okM : DelivOK cM fuel hM) (okS : DelivOK cS fuel hS)
    (hfM : (hsBytesM cM).length < fuel) (hfS : (hsBytesS cS).length < fuel)
    (hfuel : 4 * (hM.outbox.length + hS.outbox.length) + 7 ≤ fuel) :
    ∃ n t, PairExec (initPair (exchange cM fuel) (exchange cS fuel) hM hS none none) n t ∧ Outcome hM hS t := by
  obtain ⟨f, hf⟩ : ∃ f, fuel = f + 1 := ⟨fuel - 1, by omega⟩
  have gM := okM.ok.good
  have gS := okS.ok.good
  -- the master: `Prepare`, then its handshake lines
  have hinit : initPair (exchange cM fuel) (exchange cS fuel) hM hS none none =
      (mkSide (exchange cM fuel) [] 0 hM [], mkSide (exchange cS fuel) [] 0 hS []) := rfl
  rw [hinit, exchange_eq2 cM fuel gM.hh, exchange_eq2 cS fuel gS.hh]
  obtain ⟨k1, g1, e1⟩ := seg_left' (Proc.call .prepare Proc.ret) (afterPrep cM fuel) [] 0 hM []
    (mkSide ((Proc.call .prepare Proc.ret).bind (afterPrep cS fuel)) [] 0 hS []) rfl _ _ _ _
    (upto_prepare hM okM.ok.prep [] []) [] (by simp [outBytes])
  rw [push_nil] at e1
  have hpM : afterPrep cM fuel (.err false) =
      ((writeLines cM.motd).bind fun _ => Proc.write (linesBytes [fwL cM.hs, sidL cM.hs, trL cM.hs]) (.ret ())).bind fun _ =>
        ((readHandshake true fuel fuel {}).bind hsDoneM).bind (afterHs cM fuel) := by
    simp only [afterPrep]
    rw [handshake_master_eq2 cM fuel hmM, Proc.bind_assoc]
  rw [hpM] at e1
  have huW : Proc.upto hstep ((writeLines cM.motd).bind fun _ =>
      Proc.write (linesBytes [fwL cM.hs, sidL cM.hs, trL cM.hs]) (.ret ())) [] hM [.called .prepare] =
      (.ret (), [], hM, .wrote (linesBytes [fwL cM.hs, sidL cM.hs, trL cM.hs]) ::
        ((cM.motd.map fun l => Ev.wrote (l ++ [13])).reverse ++ [.called .prepare])) := by
    rw [upto_bind_ret hstep _ _ _ _ _ () _ _ _ (upto_writeLines hstep [] hM cM.motd [.called .prepare])]
    rfl
  have hoW : outBytes (Ev.wrote (linesBytes [fwL cM.hs, sidL cM.hs, trL cM.hs]) ::
      ((cM.motd.map fun l => Ev.wrote (l ++ [13])).reverse ++ [.called .prepare])) = outBytes [Ev.called .prepare] ++ hsBytesM cM := by
    simp only [outBytes, outBytes_append, List.nil_append, hsBytesM, linesBytes_append]
    congr 1
    generalize cM.motd = ls
    induction ls with
    | nil => rfl
    | cons l ls ih => simp [outBytes_append, outBytes, ih, linesBytes]
  obtain ⟨k2, g2, e2⟩ := seg_left' _ (fun _ => ((readHandshake true fuel fuel {}).bind hsDoneM).bind (afterHs cM fuel)) [] g1 hM
    [.called .prepare] (mkSide ((Proc.call .prepare Proc.ret).bind (afterPrep cS fuel)) [] 0 hS []) rfl _ _ _ _ huW
    (hsBytesM cM) hoW
  rw [push_mkSide, List.nil_append] at e2
  -- the slave: `Prepare`, the master's lines, its own lines
  obtain ⟨k3, g3, e3⟩ := seg_right' (Proc.call .prepare Proc.ret) (afterPrep cS fuel) (hsBytesM cM) 0 hS []
    (mkSide (((readHandshake true fuel fuel {}).bind hsDoneM).bind (afterHs cM fuel)) [] g2 hM
      (.wrote (linesBytes [fwL cM.hs, sidL cM.hs, trL cM.hs]) ::
        ((cM.motd.map fun l => Ev.wrote (l ++ [13])).reverse ++ [.called .prepare]))) rfl _ _ _ _
    (upto_prepare hS okS.ok.prep _ []) [] (by simp [outBytes])
  rw [push_nil] at e3
  obtain ⟨dS, hsidS, hchS, hrunS⟩ := run_slave_read cM fuel hmM okM.ok.wf okM.ok.motd hfM
  have hpS : afterPrep cS fuel (.err false) =
      (readHandshake false fuel fuel {}).bind fun r => (hsDoneS cS r).bind (afterHs cS fuel) := by
    simp only [afterPrep]
    rw [handshake_slave_eq2 cS fuel hmS, Proc.bind_assoc]
  rw [hpS] at e3
  have huS : Proc.upto hstep (readHandshake false fuel fuel {}) (hsBytesM cM) hS [.called .prepare] =
      (.ret (.ok dS), [], hS, .peeked (firstOf (trL cM.hs)) ::
        (peeksOf (cM.motd ++ [fwL cM.hs, sidL cM.hs]) ++ [.called .prepare])) :=
    upto_of_run_two hstep _ _ _ _ _ _ _ (hrunS [0] hS _) (hrunS [1] hS _)
  obtain ⟨k4, g4, e4⟩ := seg_right' _ (fun r => (hsDoneS cS r).bind (afterHs cS fuel)) (hsBytesM cM) g3 hS [.called .prepare]
    (mkSide (((readHandshake true fuel fuel {}).bind hsDoneM).bind (afterHs cM fuel)) [] g2 hM
      (.wrote (linesBytes [fwL cM.hs, sidL cM.hs, trL cM.hs]) ::
        ((cM.motd.map fun l => Ev.wrote (l ++ [13])).reverse ++ [.called .prepare]))) rfl _ _ _ _ huS []
    (by
      have : PeekOnly (Ev.peeked (firstOf (trL cM.hs)) :: peeksOf (cM.motd ++ [fwL cM.hs, sidL cM.hs])) := by
        apply PeekOnly.cons
        intro e he
        simp only [peeksOf, List.mem_reverse, List.mem_map] at he
        obtain ⟨l, _, rfl⟩ := he
        exact ⟨_, rfl⟩
      rw [show Ev.peeked (firstOf (trL cM.hs)) :: (peeksOf (cM.motd ++ [fwL cM.hs, sidL cM.hs]) ++ [Ev.called .prepare]) =
        (Ev.peeked (firstOf (trL cM.hs)) :: peeksOf (cM.motd ++ [fwL cM.hs, sidL cM.hs])) ++ [Ev.called .prepare] from rfl,
        outBytes_append, this.out])
  rw [push_nil] at e4
  have hpS2 : (hsDoneS cS (.ok dS)).bind (afterHs cS fuel) =
      (Proc.write (linesBytes [fwL cS.hs, sidL cS.hs, trL cS.hs]) (.ret (.ok ()) : Proc (Except SErr Unit))).bind fun _ =>
        restOfSession cS fuel (f + 1) true { remoteSID := dS.sid, remoteFW := dS.fw } := by
    simp only [hsDoneS, hsidS, Bool.false_eq_true, if_false, hchS, sendHandshakeP_plain, Proc.bind, afterHs, hmS, Bool.not_false, hf]
  rw [hpS2] at e4
  obtain ⟨k5, g5, e5⟩ := seg_right' (Proc.write (linesBytes [fwL cS.hs, sidL cS.hs, trL cS.hs]) (.ret (.ok ()) : Proc (Except SErr Unit)))
    (fun _ => restOfSession cS fuel (f + 1) true { remoteSID := dS.sid, remoteFW := dS.fw }) [] g4 hS
    (.peeked (firstOf (trL cM.hs)) :: (peeksOf (cM.motd ++ [fwL cM.hs, sidL cM.hs]) ++ [.called .prepare]))
    (mkSide (((readHandshake true fuel fuel {}).bind hsDoneM).bind (afterHs cM fuel)) [] g2 hM
      (.wrote (linesBytes [fwL cM.hs, sidL cM.hs, trL cM.hs]) ::
        ((cM.motd.map fun l => Ev.wrote (l ++ [13])).reverse ++ [.called .prepare]))) rfl (.ok ()) [] hS _ rfl
    (hsBytesS cS) (by simp [outBytes, hsBytesS])
  rw [push_mkSide, List.nil_append] at e5
  -- names for what has accumulated
  generalize heM : (Ev.wrote (linesBytes [fwL cM.hs, sidL cM.hs, trL cM.hs]) ::
    ((cM.motd.map fun l => Ev.wrote (l ++ [13])).reverse ++ [Ev.called .prepare])) = eM1 at e2 e3 e4 e5
  generalize heS : (Ev.wrote (linesBytes [fwL cS.hs, sidL cS.hs, trL cS.hs]) :: Ev.peeked (firstOf (trL cM.hs)) ::
    (peeksOf (cM.motd ++ [fwL cM.hs, sidL cM.hs]) ++ [Ev.called .prepare])) = eS1 at e5
  have e15 := (((e1.trans e2).trans e3).trans e4).trans e5
  -- the master's line loop, once the slave's first output is there
  obtain ⟨dM, hsidM, hrunM⟩ := run_master_read cS fuel hmS okS.ok.wf hfS
  have hprogM : ((readHandshake true fuel fuel {}).bind hsDoneM).bind (afterHs cM fuel) =
      (readHandshake true fuel fuel {}).bind fun r => (hsDoneM r).bind (afterHs cM fuel) := by
    rw [Proc.bind_assoc]
  have hdoneM : (hsDoneM (.ok dM)).bind (afterHs cM fuel) =
      restOfSession cM fuel fuel false { remoteSID := dM.sid, remoteFW := dM.fw } := by
    simp only [hsDoneM, hsidM, Bool.false_eq_true, if_false, Proc.bind, afterHs, hmM, Bool.not_true]
  have masterRead : ∀ (r : Bytes) (b : Side), b.ended = none →
      ∃ k g, PairExec (mkSide (((readHandshake true fuel fuel {}).bind hsDoneM).bind (afterHs cM fuel)) (hsBytesS cS ++ 70 :: r) g2 hM eM1, b) k
        (mkSide (restOfSession cM fuel fuel false { remoteSID := dM.sid, remoteFW := dM.fw }) (70 :: r) g hM
          (.peeked 70 :: (peeksOf [fwL cS.hs, sidL cS.hs, trL cS.hs] ++ eM1)), b) := by
    intro r b hb
    rw [hprogM]
    obtain ⟨k, g, he⟩ := seg_left' (readHandshake true fuel fuel {}) (fun r => (hsDoneM r).bind (afterHs cM fuel))
      (hsBytesS cS ++ 70 :: r) g2 hM eM1 b hb _ _ _ _
      (upto_of_run_rest hstep _ _ _ _ _ _ _ _ (hrunM r hM eM1) (by simp)) [] (by
        have : PeekOnly (Ev.peeked 70 :: peeksOf [fwL cS.hs, sidL cS.hs, trL cS.hs]) := by
          apply PeekOnly.cons
          intro e he
          simp only [peeksOf, List.mem_reverse, List.mem_map] at he
          obtain ⟨l, _, rfl⟩ := he
          exact ⟨_, rfl⟩
        rw [show Ev.peeked 70 :: (peeksOf [fwL cS.hs, sidL cS.hs, trL cS.hs] ++ eM1) =
          (Ev.peeked 70 :: peeksOf [fwL cS.hs, sidL cS.hs, trL cS.hs]) ++ eM1 from rfl, outBytes_append, this.out])
    rw [push_nil, hdoneM] at he
    exact ⟨k, g, he⟩
  have ixS : ∀ (e : List Ev) (g : Nat), SInv fuel ⟨cS, hS, hS, { remoteSID := dS.sid, remoteFW := dS.fw }, f, e, g⟩ :=
    fun e g => ⟨gS, okS.quiet, rfl, okS.nd, rfl, rfl⟩
  have iyM : ∀ (e : List Ev) (g : Nat), SInv fuel ⟨cM, hM, hM, { remoteSID := dM.sid, remoteFW := dM.fw }, fuel, e, g⟩ :=
    fun e g => ⟨gM, okM.quiet, rfl, okM.nd, rfl, rfl⟩
  have hmu : (vo hS).length + (vo hM).length ≤ hM.outbox.length + hS.outbox.length := by
    have := vo_length_le hS; have := vo_length_le hM; omega
  have finish : ∀ (k : Kind) (X Y : SD), Conf fuel k X Y → X.h = hS → Y.h = hM → X.n = f → Y.n = fuel → X.h0 = hS → Y.h0 = hM →
      ∀ n, PairExec (mkSide ((Proc.call .prepare Proc.ret).bind (afterPrep cM fuel)) [] 0 hM [],
          mkSide ((Proc.call .prepare Proc.ret).bind (afterPrep cS fuel)) [] 0 hS []) n
        (receiverSide fuel Y (outOf X k), senderSide fuel X k) →
      ∃ n t, PairExec (mkSide ((Proc.call .prepare Proc.ret).bind (afterPrep cM fuel)) [] 0 hM [],
          mkSide ((Proc.call .prepare Proc.ret).bind (afterPrep cS fuel)) [] 0 hS []) n t ∧ Outcome hM hS t := by
    intro k X Y cf hx hy hnx hny hx0 hy0 n he
    obtain ⟨m, t, he', ho⟩ := deliver_conf fuel (2 * mu X Y + 2) k X Y cf (by cases k <;> simp [weight])
      (by simp only [mu, hx, hy, hnx]; omega) (by simp only [mu, hx, hy, hny]; omega)
    refine ⟨n + m, t.swap, he.trans (pairExec_swap he'), ?_⟩
    have := ho.swap
    rwa [hx0, hy0] at this
  by_cases hE : sortedOf hS = []
  · -- the slave has nothing to send: `FF`
    obtain ⟨k6, g6, e6⟩ := step_send_none cS fuel f { remoteSID := dS.sid, remoteFW := dS.fw } hS eS1 [] g5 gS.hh rfl rfl hE
      (mkSide (((readHandshake true fuel fuel {}).bind hsDoneM).bind (afterHs cM fuel)) (hsBytesS cS) g2 hM eM1) rfl
    simp only [Bool.false_eq_true, if_false] at e6
    rw [push_mkSide] at e6
    obtain ⟨k7, g7, e7⟩ := masterRead [70, 13] (mkSide (restOfSession cS fuel f false
      { remoteSID := dS.sid, remoteFW := dS.fw, quitSent := false }) [] g6 hS
      (.wrote [70, 70, 13] :: .called (.getOutbound dS.fw) :: eS1)) rfl
    exact finish .ff ⟨cS, hS, hS, { remoteSID := dS.sid, remoteFW := dS.fw }, f,
        .wrote [70, 70, 13] :: .called (.getOutbound dS.fw) :: eS1, g6⟩
      ⟨cM, hM, hM, { remoteSID := dM.sid, remoteFW := dM.fw }, fuel,
        .peeked 70 :: (peeksOf [fwL cS.hs, sidL cS.hs, trL cS.hs] ++ eM1), g7⟩
      ⟨ixS _ _, iyM _ _, ⟨[], [], [], Ledger.init hS hM _ _ rfl rfl⟩, ⟨[], [], [], Ledger.init hM hS _ _ rfl rfl⟩, hE⟩
      rfl rfl rfl rfl rfl rfl _ ((e15.trans e6).trans e7)
  · -- a block
    obtain ⟨k6, g6, evs6, _, e6⟩ := step_send_block cS fuel f { remoteSID := dS.sid, remoteFW := dS.fw } hS eS1 [] g5 gS.hh rfl rfl hE
      (mkSide (((readHandshake true fuel fuel {}).bind hsDoneM).bind (afterHs cM fuel)) (hsBytesS cS) g2 hM eM1) rfl
    rw [push_mkSide] at e6
    obtain ⟨t, ht⟩ := blockOut_head _ (block_ne_of_sorted gS.mb hE)
    rw [ht] at e6
    obtain ⟨k7, g7, e7⟩ := masterRead t (mkSide (progAwait cS fuel f { remoteSID := dS.sid, remoteFW := dS.fw }
      (blockOf' cS (offered hS))) [] g6 hS (evs6 ++ eS1)) rfl
    rw [← ht] at e7
    rw [← ht] at e6
    exact finish .blk ⟨cS, hS, hS, { remoteSID := dS.sid, remoteFW := dS.fw }, f, evs6 ++ eS1, g6⟩
      ⟨cM, hM, hM, { remoteSID := dM.sid, remoteFW := dM.fw }, fuel,
        .peeked 70 :: (peeksOf [fwL cS.hs, sidL cS.hs, trL cS.hs] ++ eM1), g7⟩
      ⟨ixS _ _, iyM _ _, ⟨[], [], [], Ledger.init hS hM _ _ rfl rfl⟩, ⟨[], [], [], Ledger.init hM hS _ _ rfl rfl⟩, hE⟩
      rfl rfl rfl rfl rfl rfl _ ((e15.trans e6).trans e7)

end Wl2k.B2F
