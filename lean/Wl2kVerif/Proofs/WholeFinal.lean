import Wl2kVerif.Proofs.WholeHs
import Wl2kVerif.Proofs.WholeInst
/-
`sent_implies_received` at the level of the pair system: every reachable state of every pair run (any
schedule, any `limit` on either side) of two whole `exchange` programs, resp. of two rests of sessions at
complementary turn boundaries.
-/
namespace Wl2k.B2F
open Wl2k

/-- everything assumed of one side of a session: `Good` (handler with plain answers, unbatched or batched-complete, valid queued
messages, fuel above the queue length, block size 1..255, at least one proposal per block), `Prepare` succeeds,
the handshake strings are well-formed (`HsWF`), and every MOTD line (written only by a master) is one the
slave's handshake reads over (`MotdOK`) -/
structure SideOK (c : Cfg) (fuel : Nat) (h : HState) : Prop where
  good : Good c fuel h
  prep : h.prepareFails = false
  wf : HsWF c.hs
  motd : ∀ l ∈ c.motd, MotdOK l

/-- all turns after any pair of complementary turn boundaries -/
theorem pair_turns_sir (cS cR : Cfg) (fuel nS nR : Nat) (stS stR : SState) (hS hR : HState) (limS limR : Option Nat)
    (gS : Good cS fuel hS) (gR : Good cR fuel hR) {n : Nat} {t : Side × Side}
    (he : PairExec (initPair (restOfSession cS fuel nS true stS) (restOfSession cR fuel nR false stR) hS hR limS limR) n t) :
    SIR hS t.1.evs t.2.evs ∧ SIR hR t.2.evs t.1.evs :=
  turns_sir fuel (nS + nR) nS nR (Nat.le_refl _) cS cR stS stR hS hR _ _ gS gR (con_of_exec _ _ hS hR limS limR he)

/-- whole sessions, the master on the left -/
theorem pair_exchange_sir (cM cS : Cfg) (fuel : Nat) (hM hS : HState) (limM limS : Option Nat)
    (hmM : cM.hs.master = true) (hmS : cS.hs.master = false) (okM : SideOK cM fuel hM) (okS : SideOK cS fuel hS)
    (hfM : (hsBytesM cM).length < fuel) (hfS : (hsBytesS cS).length < fuel) {n : Nat} {t : Side × Side}
    (he : PairExec (initPair (exchange cM fuel) (exchange cS fuel) hM hS limM limS) n t) :
    SIR hM t.1.evs t.2.evs ∧ SIR hS t.2.evs t.1.evs :=
  exchange_sir cM cS fuel hM hS _ _ okM.good okS.good okM.prep okS.prep
    (masterHs_of_wf cM cS fuel hmM hmS okS.wf hfS) (slaveHs_of_wf cM cS fuel hmM hmS okM.wf okM.motd hfM) _ _
    (con_of_exec _ _ hM hS limM limS he)

/-- whole sessions, the slave on the left -/
theorem pair_exchange_sir' (cM cS : Cfg) (fuel : Nat) (hM hS : HState) (limM limS : Option Nat)
    (hmM : cM.hs.master = true) (hmS : cS.hs.master = false) (okM : SideOK cM fuel hM) (okS : SideOK cS fuel hS)
    (hfM : (hsBytesM cM).length < fuel) (hfS : (hsBytesS cS).length < fuel) {n : Nat} {t : Side × Side}
    (he : PairExec (initPair (exchange cS fuel) (exchange cM fuel) hS hM limS limM) n t) :
    SIR hS t.1.evs t.2.evs ∧ SIR hM t.2.evs t.1.evs :=
  (exchange_sir cM cS fuel hM hS _ _ okM.good okS.good okM.prep okS.prep
    (masterHs_of_wf cM cS fuel hmM hmS okS.wf hfS) (slaveHs_of_wf cM cS fuel hmM hmS okM.wf okM.motd hfM) _ _
    (con_of_exec _ _ hS hM limS limM he).symm).symm

/-! ### the hypotheses hold for the one-message session of `Proofs/WholeInst.lean` -/
namespace Ex1

theorem good_S : Good cS 200 hS0 :=
  ⟨rfl, Or.inl rfl, (by intro x hx; cases hx), (by intro m hm; rw [List.mem_singleton.mp hm]; exact msg1_ok), by decide, by decide,
    by decide, by decide, by decide⟩

theorem good_M : Good cM 200 hM0 :=
  ⟨rfl, Or.inl rfl, (by intro x hx; cases hx), (by intro m hm; cases hm), by decide, by decide, by decide, by decide, by decide⟩

theorem wf_M : HsWF cM.hs :=
  ⟨by decide, by decide, by decide, by decide, by decide, by decide,
    by intro a ha; rw [List.mem_singleton.mp ha]; exact ⟨by decide, [], 77, rfl, by decide⟩⟩

theorem wf_S : HsWF cS.hs :=
  ⟨by decide, by decide, by decide, by decide, by decide, by decide,
    by intro a ha; rw [List.mem_singleton.mp ha]; exact ⟨by decide, [], 83, rfl, by decide⟩⟩

theorem ok_M : SideOK cM 200 hM0 := ⟨good_M, rfl, wf_M, (by intro l hl; cases hl)⟩
theorem ok_S : SideOK cS 200 hS0 := ⟨good_S, rfl, wf_S, (by intro l hl; cases hl)⟩

/-- the master with a BATCHED inbound handler (`GetInboundAnswers`) -/
def cMb : Cfg := { hs := hsM, batched := true }

theorem good_Mb : Good cMb 200 hM0 :=
  ⟨rfl, Or.inr rfl, (by intro x hx; cases hx), (by intro m hm; cases hm), by decide, by decide, by decide, by decide, by decide⟩

theorem ok_Mb : SideOK cMb 200 hM0 := ⟨good_Mb, rfl, wf_M, (by intro l hl; cases hl)⟩

theorem fuel_Mb : (hsBytesM cMb).length < 200 := by decide +kernel

theorem fuel_M : (hsBytesM cM).length < 200 := by decide +kernel
theorem fuel_S : (hsBytesS cS).length < 200 := by decide +kernel

end Ex1

end Wl2k.B2F
