import Wl2kVerif.Proofs.PairFrame
/-
In-transit alterations of the SOH/STX/EOT frame (`frameOf m qtitle d`, the bytes `writeCompressed`
emits): where the data bytes sit in the frame, what a substitution does to the block decomposition,
and what `readCompressed` answers on a frame whose data bytes / trailer byte were replaced.

The frame reader is run on `frameWith m qtitle d' ck` = header, the STX blocks of `d'`, EOT, `ck`
(`frameOf m qtitle d = frameWith m qtitle d (ckOf d)`); its answer is `eotVerdict`.
-/
namespace Wl2k.B2F
open Wl2k Wl2k.Strconv

variable {H : Type} (hstep : H → Call → H × Reply)

/-! ### the verdict of the EOT branch -/

/-- what the EOT branch of `readBlocks` answers for running sum `sum`, collected payload `buf` and
trailer byte `ck` -/
def eotVerdict (csize : Int) (sum : Nat) (buf : Bytes) (ck : UInt8) : Except SErr Bytes :=
  if (sum + ck.toNat) % 256 ≠ 0 then .error (.proto "bad-checksum")
  else if csize ≠ (buf.length : Int) then .error (.proto "length-mismatch-after-eot")
  else .ok buf

theorem eotVerdict_congr (csize : Int) (a b : Nat) (buf : Bytes) (ck : UInt8) (h : a % 256 = b % 256) :
    eotVerdict csize a buf ck = eotVerdict csize b buf ck := by
  unfold eotVerdict
  have : (a + ck.toNat) % 256 = (b + ck.toNat) % 256 := by omega
  rw [this]

/-- the block loop over well-formed blocks followed by ANY trailer byte: always runs to the EOT
branch, consumes exactly the frame, and answers `eotVerdict` -/
theorem run_readBlocks_any (csize : Int) : ∀ (chunks : List Bytes) (fuel : Nat) (buf : Bytes) (sum : Nat) (ck : UInt8)
    (rest : Bytes) (h : H) (tr : List Ev),
    (∀ c ∈ chunks, 1 ≤ c.length ∧ c.length ≤ 255) → chunks.length < fuel →
    Proc.run hstep (readBlocks csize fuel buf sum) ((chunks.map blockOf).flatten ++ 4 :: ck :: rest) h tr =
      (.done (eotVerdict csize (sum + dataSum chunks.flatten) (buf ++ chunks.flatten) ck), rest, h, tr) := by
  intro chunks
  induction chunks with
  | nil =>
    intro fuel buf sum ck rest h tr _ hf
    cases fuel with
    | zero => omega
    | succ f =>
      simp only [List.map_nil, List.flatten_nil, List.nil_append, readBlocks, Proc.run]
      have h42 : ¬ ((4 : UInt8) = 2) := by decide
      simp only [h42, if_false, if_true, Proc.run, eotVerdict, dataSum, List.foldl_nil, Nat.add_zero,
        List.append_nil]
      split
      · simp [Proc.run]
      · split <;> simp [Proc.run]
  | cons c cs ih =>
    intro fuel buf sum ck rest h tr hwf hf
    cases fuel with
    | zero => simp at hf
    | succ f =>
      have hc := hwf c (by simp)
      have hl : (UInt8.ofNat (c.length % 256)) ≠ 0 := by
        intro e
        have := congrArg UInt8.toNat e
        simp at this
        omega
      have hln : (UInt8.ofNat (c.length % 256)).toNat = c.length := by simp; omega
      simp only [List.map_cons, List.flatten_cons, blockOf, List.cons_append, List.nil_append, List.append_assoc,
        readBlocks, Proc.run, if_true]
      simp only [hl, if_false, hln]
      rw [run_bind, run_readN hstep c [] _ h tr]
      simp only [List.reverse_nil, List.nil_append]
      have := ih f (buf ++ c) ((sum + dataSum c) % 256) ck rest h tr (fun x hx => hwf x (by simp [hx]))
        (by simp at hf; omega)
      simp only [List.append_assoc] at this
      rw [this]
      rw [eotVerdict_congr csize ((sum + dataSum c) % 256 + dataSum cs.flatten) (sum + dataSum (c ++ cs.flatten))
        _ _ (by rw [dataSum_append]; omega)]

/-! ### frames with an arbitrary trailer byte -/

/-- the checksum byte `writeCompressed` puts after EOT -/
def ckOf (d : Bytes) : UInt8 := UInt8.ofNat (negMod256 (dataSum d))

/-- header, the STX blocks of `d` (block size `m`), EOT, and the trailer byte `ck` -/
def frameWith (m : Nat) (qtitle d : Bytes) (ck : UInt8) : Bytes :=
  frameHeader qtitle 0 ++ (frameBlocks m d).flatten ++ [4, ck]

theorem frameOf_eq_frameWith (m : Nat) (qtitle d : Bytes) : frameOf m qtitle d = frameWith m qtitle d (ckOf d) := rfl

theorem frameHeader_zero (qtitle : Bytes) :
    frameHeader qtitle 0 = 1 :: UInt8.ofNat ((qtitle.length + 1 + 2) % 256) :: (qtitle ++ [0, 48, 0]) := by
  have hdec : Fmt.decInt 0 = [48] := by decide
  simp [frameHeader, hdec]

theorem frameHeader_length (qtitle : Bytes) : (frameHeader qtitle 0).length = qtitle.length + 5 := by
  rw [frameHeader_zero]; simp

theorem frameBlocks_eq (m : Nat) (d : Bytes) :
    (frameBlocks m d).flatten = ((chunksOf m (d.length + 1) d).map blockOf).flatten := rfl

/-- **`readCompressed` on a frame with well-formed header and blocks and ANY trailer byte**: the answer
is the EOT verdict (checksum, then size), and exactly the frame is consumed. -/
theorem run_readCompressed_frameWith (m : Nat) (hm1 : 1 ≤ m) (hm2 : m ≤ 255) (qtitle d rest : Bytes) (ck : UInt8)
    (hq : (0 : UInt8) ∉ qtitle) (hlen : qtitle.length + 3 < 256)
    (p : Proposal) (hoff : p.offset = 0)
    (fuel : Nat) (hfuel : qtitle.length + d.length + 4 < fuel) (h : H) (tr : List Ev) :
    Proc.run hstep (readCompressed fuel p) (frameWith m qtitle d ck ++ rest) h tr =
      (.done (eotVerdict p.csize (dataSum d) d ck), rest, h, tr) := by
  have hdec : Fmt.decInt 0 = [48] := by decide
  have hch := chunksOf_spec m hm1 (d.length + 1) d (by omega)
  unfold readCompressed frameWith
  simp only [frameHeader, hdec, List.cons_append, List.nil_append, List.append_assoc, Proc.run]
  have h1 : ¬ ((1 : UInt8) = 42) := by decide
  have h2 : ¬ ((1 : UInt8) ≠ 1) := by decide
  simp only [h1, if_false, h2, Proc.run, bind_eq, pure_eq]
  rw [run_bind, run_readString hstep 0 qtitle fuel [] _ h tr hq (by omega)]
  simp only [List.reverse_nil, List.nil_append, Bool.false_eq_true, if_false]
  have e2 := run_readString hstep 0 [48] fuel [] ((frameBlocks m d).flatten ++ (4 :: ck :: rest)) h tr
    (by decide) (by simp; omega)
  simp only [List.cons_append, List.nil_append] at e2
  rw [run_bind, e2]
  simp only [List.reverse_nil, List.nil_append, Bool.false_eq_true, if_false]
  rw [stripDelimC_eq _ (by simp), stripDelimC_eq _ (by simp)]
  have hat : atoi [48] = (0, false) := by decide
  have h253 : ¬ 253 ≤ qtitle.length := by omega
  rw [frameBlocks_eq]
  have := run_readBlocks_any hstep p.csize (chunksOf m (d.length + 1) d) fuel [] 0 ck rest h tr
    (fun c hc => ⟨(hch.2.1 c hc).1, by have := (hch.2.1 c hc).2; omega⟩)
    (by have := hch.2.2; omega)
  rw [hch.1] at this
  simp [hat, h253, hoff, this]

/-! ### where the data bytes sit -/

/-- offset, inside the block area, of payload byte `j`: two framing bytes (STX, length) for each of
the `j / m` full blocks before it and for its own block -/
def blockPos (m j : Nat) : Nat := 2 + j + 2 * (j / m)

/-- position in the frame of payload byte `j` (the byte `j % m` of STX block number `j / m`) -/
def dataPos (m : Nat) (qtitle : Bytes) (j : Nat) : Nat := (frameHeader qtitle 0).length + blockPos m j

theorem blockPos_lt (m j : Nat) (hm : 1 ≤ m) (hj : m ≤ j) : blockPos m j = (m + 2) + blockPos m (j - m) := by
  unfold blockPos
  obtain ⟨j', rfl⟩ : ∃ j', j = j' + m := ⟨j - m, by omega⟩
  rw [Nat.add_div_right _ (by omega), Nat.add_sub_cancel]
  omega

theorem blockPos_small (m j : Nat) (hj : j < m) : blockPos m j = 2 + j := by
  unfold blockPos
  rw [Nat.div_eq_of_lt hj]
  omega

theorem blockPos_strictMono (m j j' : Nat) (h : j < j') : blockPos m j < blockPos m j' := by
  unfold blockPos
  have := Nat.div_le_div_right (c := m) (Nat.le_of_lt h)
  omega

/-- substituting payload byte `j` = substituting the byte at `blockPos m j` of the block area -/
theorem blocks_set (m : Nat) (hm : 1 ≤ m) (v : UInt8) : ∀ (fuel : Nat) (d : Bytes) (j : Nat), d.length < fuel → j < d.length →
    (((chunksOf m fuel d).map blockOf).flatten).set (blockPos m j) v =
      ((chunksOf m fuel (d.set j v)).map blockOf).flatten := by
  intro fuel
  induction fuel with
  | zero => intro d j h; omega
  | succ f ih =>
    intro d j hd hj
    have hne : d.isEmpty = false := by
      cases d with
      | nil => simp at hj
      | cons a t => rfl
    have hne' : (d.set j v).isEmpty = false := by
      cases d with
      | nil => simp at hj
      | cons a t => cases j <;> rfl
    unfold chunksOf
    simp only [hne, hne', Bool.false_eq_true, if_false, List.map_cons, List.flatten_cons]
    by_cases hjm : j < m
    · rw [blockPos_small m j hjm, List.take_set, List.drop_set_of_lt hjm]
      have hl : j < (d.take m).length := by simp; omega
      simp only [blockOf, List.cons_append, List.nil_append, List.length_set]
      rw [show 2 + j = j + 1 + 1 by omega, List.set_cons_succ, List.set_cons_succ, List.set_append_left _ _ hl]
    · have hjm : m ≤ j := by omega
      rw [blockPos_lt m j hm hjm, List.take_set_of_le hjm, List.drop_set, if_neg (by omega)]
      have hl : (blockOf (d.take m)).length = m + 2 := by simp [blockOf]; omega
      rw [List.set_append_right _ _ (by omega), hl, Nat.add_sub_cancel_left]
      rw [ih (d.drop m) (j - m) (by simp; omega) (by simp; omega)]

/-- … and that byte IS payload byte `j` -/
theorem blocks_get (m : Nat) (hm : 1 ≤ m) : ∀ (fuel : Nat) (d : Bytes) (j : Nat), d.length < fuel → j < d.length →
    (((chunksOf m fuel d).map blockOf).flatten)[blockPos m j]? = d[j]? := by
  intro fuel
  induction fuel with
  | zero => intro d j h; omega
  | succ f ih =>
    intro d j hd hj
    have hne : d.isEmpty = false := by
      cases d with
      | nil => simp at hj
      | cons a t => rfl
    unfold chunksOf
    simp only [hne, Bool.false_eq_true, if_false, List.map_cons, List.flatten_cons]
    by_cases hjm : j < m
    · rw [blockPos_small m j hjm]
      have hl : j < (d.take m).length := by simp; omega
      simp only [blockOf, List.cons_append, List.nil_append]
      rw [show 2 + j = j + 1 + 1 by omega, List.getElem?_cons_succ, List.getElem?_cons_succ,
        List.getElem?_append_left hl, List.getElem?_take_of_lt hjm]
    · have hjm : m ≤ j := by omega
      rw [blockPos_lt m j hm hjm]
      have hl : (blockOf (d.take m)).length = m + 2 := by simp [blockOf]; omega
      rw [List.getElem?_append_right (by omega), hl, Nat.add_sub_cancel_left]
      rw [ih (d.drop m) (j - m) (by simp; omega) (by simp; omega), List.getElem?_drop]
      congr 1; omega

theorem frameWith_get_data (m : Nat) (hm : 1 ≤ m) (qtitle d : Bytes) (ck : UInt8) (j : Nat) (hj : j < d.length) :
    (frameWith m qtitle d ck)[dataPos m qtitle j]? = d[j]? := by
  have hb := blocks_get m hm (d.length + 1) d j (by omega) hj
  rw [← frameBlocks_eq] at hb
  have hlt : blockPos m j < (frameBlocks m d).flatten.length := by
    rw [List.getElem?_eq_getElem hj] at hb
    exact (List.getElem?_eq_some_iff.mp hb).1
  unfold frameWith dataPos
  rw [List.append_assoc, List.getElem?_append_right (by omega), Nat.add_sub_cancel_left,
    List.getElem?_append_left hlt, hb]

/-- **substituting the data byte at `dataPos m qtitle j`** gives the frame of the altered payload
with the OLD trailer byte -/
theorem frameWith_set_data (m : Nat) (hm : 1 ≤ m) (qtitle d : Bytes) (ck : UInt8) (j : Nat) (hj : j < d.length) (v : UInt8) :
    (frameWith m qtitle d ck).set (dataPos m qtitle j) v = frameWith m qtitle (d.set j v) ck := by
  have hb := blocks_get m hm (d.length + 1) d j (by omega) hj
  rw [← frameBlocks_eq] at hb
  have hlt : blockPos m j < (frameBlocks m d).flatten.length := by
    rw [List.getElem?_eq_getElem hj] at hb
    exact (List.getElem?_eq_some_iff.mp hb).1
  have hs := blocks_set m hm v (d.length + 1) d j (by omega) hj
  rw [← frameBlocks_eq] at hs
  have hs2 : (frameBlocks m (d.set j v)).flatten = ((chunksOf m (d.length + 1) (d.set j v)).map blockOf).flatten := by
    rw [frameBlocks_eq, List.length_set]
  unfold frameWith dataPos
  rw [List.append_assoc, List.set_append_right _ _ (by omega), Nat.add_sub_cancel_left,
    List.set_append_left _ _ hlt, hs, hs2, List.append_assoc]

/-- substituting the last byte of the frame (the checksum after EOT) -/
theorem frameWith_set_last (m : Nat) (qtitle d : Bytes) (ck ck' : UInt8) :
    (frameWith m qtitle d ck).set ((frameWith m qtitle d ck).length - 1) ck' = frameWith m qtitle d ck' := by
  unfold frameWith
  generalize frameHeader qtitle 0 ++ (frameBlocks m d).flatten = A
  rw [List.set_append_right _ _ (by simp)]
  simp

/-! ### sums -/

theorem dataSum_cons (b : UInt8) (t : Bytes) : dataSum (b :: t) = b.toNat + dataSum t := by
  have := dataSum_append [b] t
  simpa [dataSum] using this

theorem dataSum_set (d : Bytes) (j : Nat) (hj : j < d.length) (v : UInt8) :
    dataSum (d.set j v) + d[j].toNat = dataSum d + v.toNat := by
  induction d generalizing j with
  | nil => simp at hj
  | cons a t ih =>
    cases j with
    | zero => simp only [List.set_cons_zero, dataSum_cons, List.getElem_cons_zero]; omega
    | succ j =>
      have := ih j (by simpa using hj)
      simp only [List.set_cons_succ, dataSum_cons, List.getElem_cons_succ]
      omega

/-- a `+δ` / `−δ` change of two different bytes keeps the sum mod 256 -/
theorem dataSum_pair (d : Bytes) (j1 j2 : Nat) (h1 : j1 < d.length) (h2 : j2 < d.length) (hne : j1 ≠ j2) (δ : UInt8) :
    dataSum ((d.set j1 (d[j1] + δ)).set j2 (d[j2] - δ)) % 256 = dataSum d % 256 := by
  have e1 := dataSum_set d j1 h1 (d[j1] + δ)
  have h2' : j2 < (d.set j1 (d[j1] + δ)).length := by simpa using h2
  have e2 := dataSum_set (d.set j1 (d[j1] + δ)) j2 h2' (d[j2] - δ)
  rw [List.getElem_set_ne hne] at e2
  rw [UInt8.toNat_add] at e1
  rw [UInt8.toNat_sub] at e2
  have := d[j1].toNat_lt; have := d[j2].toNat_lt; have := δ.toNat_lt
  omega

end Wl2k.B2F
