import Wl2kVerif.Proofs.PairTurn
/-
Acceptance half of C05, element level: the tolerance a conforming peer may rely on.
(i) comment lines are skipped by every line loop; (ii) data blocks of every size 1..256 are read back;
(iii) the SID feature field is found after the last '-' and matched case-insensitively for "B2" anywhere.
-/
namespace Wl2k.B2F
open Wl2k Wl2k.Fmt Wl2k.Str Wl2k.Strconv

variable {H : Type} (hstep : H → Call → H × Reply)

/-! ### (i) comment lines -/

theorem solid_semi : Solid 59 := by decide
theorem solid_lb : Solid 91 := by decide
theorem solid_rb : Solid 93 := by decide

theorem errLine_semi (t : Bytes) : errLine (59 :: t) = none := by simp [errLine]
theorem errLine_lb (t : Bytes) : errLine (91 :: t) = none := by simp [errLine]

/-- `nextLine` on a comment line `;…x` CR (x a solid last character) returns the line as it is -/
theorem run_nextLine_comment (t : Bytes) (bl : UInt8) (hbl : Solid bl) (h13 : (13 : UInt8) ∉ t ++ [bl]) (rest : Bytes)
    (fuel : Nat) (hf : t.length + 2 < fuel) (h : H) (tr : List Ev) :
    Proc.run hstep (nextLine fuel) (59 :: (t ++ [bl]) ++ 13 :: rest) h tr = (.done (.ok (59 :: (t ++ [bl]))), rest, h, tr) := by
  have hc : cleanString (59 :: (t ++ [bl]) ++ [13]) = 59 :: (t ++ [bl]) := cleanString_line 59 t bl solid_semi hbl
  have := run_nextLine_ok hstep (59 :: (t ++ [bl])) rest fuel h tr
    (by simp only [List.mem_cons, not_or]; exact ⟨by decide, h13⟩) (by simp; omega) (by rw [hc]; exact errLine_semi _)
  rw [hc] at this
  exact this

/-- **`inboundLoop` skips a comment line**: same proposals, same checksum, same state -/
theorem inboundLoop_skips_comment (c : Cfg) (fuel n : Nat) (props : List Proposal) (sum : Nat) (st : SState)
    (t : Bytes) (bl : UInt8) (hbl : Solid bl) (h13 : (13 : UInt8) ∉ t ++ [bl]) (rest : Bytes)
    (hf : t.length + 2 < fuel) (h : H) (tr : List Ev) :
    Proc.run hstep (inboundLoop c fuel (n + 1) props sum st) (59 :: (t ++ [bl]) ++ 13 :: rest) h tr =
      Proc.run hstep (inboundLoop c fuel n props sum st) rest h tr := by
  conv => lhs; unfold inboundLoop
  simp only [bind_eq, pure_eq]
  rw [run_bind, run_nextLine_comment hstep t bl hbl h13 rest fuel hf h tr]
  simp only
  split
  · rfl
  · rename_i h1
    have : (59 :: (t ++ [bl])).isEmpty = true ∨ (59 :: (t ++ [bl])).head? = some 59 := Or.inr rfl
    simp

/-- **`awaitAnswer` skips a comment line** before the `FS` answer -/
theorem awaitAnswer_skips_comment (fuel n : Nat) (t : Bytes) (bl : UInt8) (hbl : Solid bl)
    (h13 : (13 : UInt8) ∉ t ++ [bl]) (rest : Bytes) (hf : t.length + 2 < fuel) (h : H) (tr : List Ev) :
    Proc.run hstep (awaitAnswer fuel (n + 1)) (59 :: (t ++ [bl]) ++ 13 :: rest) h tr =
      Proc.run hstep (awaitAnswer fuel n) rest h tr := by
  conv => lhs; unfold awaitAnswer
  simp only [bind_eq, pure_eq]
  rw [run_bind, run_nextLine_comment hstep t bl hbl h13 rest fuel hf h tr]
  simp only
  have h1 : (sb "FS ").isPrefixOf (59 :: (t ++ [bl])) = false := by rw [sb_FS]; simp [fsPrefix, List.isPrefixOf]
  have h2 : (sb ";").isPrefixOf (59 :: (t ++ [bl])) = true := by rw [sb_semi]; simp [List.isPrefixOf]
  simp only [h1, Bool.false_eq_true, if_false, h2, if_true]
  split <;> rfl


/-- `nextLineRemoteErr false` (the handshake's reader) on a clean line -/
theorem run_nextLineRaw_ok (line rest : Bytes) (fuel : Nat) (h : H) (tr : List Ev) (h13 : (13 : UInt8) ∉ line)
    (hf : line.length < fuel) :
    Proc.run hstep (nextLineRemoteErr false fuel) (line ++ 13 :: rest) h tr =
      (.done (.ok (cleanString (line ++ [13]))), rest, h, tr) := by
  unfold nextLineRemoteErr
  simp only [bind_eq, pure_eq]
  rw [run_bind, run_readString hstep 13 line fuel [] rest h tr h13 hf]
  simp [cleanStringC_eq, Proc.run]

/-- **`readHandshake` skips a comment line** that is not `;FW…`, `;PQ…` and does not end in the prompt `>`:
the handshake data collected so far is unchanged (the only trace is the peek of the ';') -/
theorem readHandshake_skips_comment (master : Bool) (fuel n : Nat) (data : HsData)
    (t : Bytes) (bl : UInt8) (hbl : Solid bl) (h13 : (13 : UInt8) ∉ t ++ [bl]) (rest : Bytes)
    (hfw : (sb ";FW").isPrefixOf (59 :: (t ++ [bl])) = false) (hpq : (sb ";PQ").isPrefixOf (59 :: (t ++ [bl])) = false)
    (hgt : bl ≠ 62) (hf : t.length + 2 < fuel) (h : H) (tr : List Ev) :
    Proc.run hstep (readHandshake master fuel (n + 1) data) (59 :: (t ++ [bl]) ++ 13 :: rest) h tr =
      Proc.run hstep (readHandshake master fuel n data) rest h (.peeked 59 :: tr) := by
  have hc : cleanString (59 :: (t ++ [bl]) ++ [13]) = 59 :: (t ++ [bl]) := cleanString_line 59 t bl solid_semi hbl
  have hl := run_nextLineRaw_ok hstep (59 :: (t ++ [bl])) rest fuel h (.peeked 59 :: tr)
    (by simp only [List.mem_cons, not_or]; exact ⟨by decide, h13⟩) (by simp; omega)
  rw [hc] at hl
  conv => lhs; unfold readHandshake
  simp only [List.cons_append, Proc.run]
  have h70 : ¬ ((59 : UInt8) = 70 ∧ master = true) := by intro h; exact absurd h.1 (by decide)
  simp only [h70, if_false, bind_eq, pure_eq]
  have hl' : Proc.run hstep (nextLineRemoteErr false fuel) (59 :: (t ++ [bl] ++ 13 :: rest)) h (.peeked 59 :: tr) =
      (.done (.ok (59 :: (t ++ [bl]))), rest, h, .peeked 59 :: tr) := hl
  rw [run_bind, hl']
  have hsid : isSID (59 :: (t ++ [bl])) = false := by simp [isSID]
  have hlast : (59 :: (t ++ [bl])).getLast? = some bl := by
    rw [show (59 :: (t ++ [bl]) : Bytes) = (59 :: t) ++ [bl] from by simp]; exact List.getLast?_concat
  simp [hsid, hfw, hpq, hlast, hgt]

/-! ### (ii) any split of the payload into blocks of 1..256 bytes -/

/-- the block loop over blocks of 1..256 bytes (length byte 0 = 256) followed by a correct trailer -/
theorem run_readBlocks_any (csize : Int) : ∀ (chunks : List Bytes) (fuel : Nat) (buf : Bytes) (sum : Nat) (ck : UInt8)
    (rest : Bytes) (h : H) (tr : List Ev),
    (∀ c ∈ chunks, 1 ≤ c.length ∧ c.length ≤ 256) → chunks.length < fuel →
    (sum + dataSum chunks.flatten + ck.toNat) % 256 = 0 → csize = ((buf ++ chunks.flatten).length : Int) →
    Proc.run hstep (readBlocks csize fuel buf sum) ((chunks.map blockOf).flatten ++ 4 :: ck :: rest) h tr =
      (.done (.ok (buf ++ chunks.flatten)), rest, h, tr) := by
  intro chunks
  induction chunks with
  | nil =>
    intro fuel buf sum ck rest h tr _ hf hck hsz
    exact run_readBlocks hstep csize [] fuel buf sum ck rest h tr (by simp) hf hck hsz
  | cons c cs ih =>
    intro fuel buf sum ck rest h tr hwf hf hck hsz
    cases fuel with
    | zero => simp at hf
    | succ f =>
      have hc := hwf c (by simp)
      have hlen : (if UInt8.ofNat (c.length % 256) = 0 then 256 else (UInt8.ofNat (c.length % 256)).toNat) = c.length := by
        by_cases h256 : c.length = 256
        · rw [h256]; decide
        · have hlt : c.length < 256 := by omega
          have hne : UInt8.ofNat (c.length % 256) ≠ 0 := by
            intro e
            have := congrArg UInt8.toNat e
            simp at this
            omega
          rw [if_neg hne]
          simp; omega
      simp only [List.map_cons, List.flatten_cons, blockOf, List.cons_append, List.nil_append, List.append_assoc,
        readBlocks, Proc.run, if_true]
      simp only [hlen]
      rw [run_bind, run_readN hstep c [] _ h tr]
      simp only [List.reverse_nil, List.nil_append]
      have := ih f (buf ++ c) ((sum + dataSum c) % 256) ck rest h tr (fun x hx => hwf x (by simp [hx]))
        (by simp at hf; omega)
        (by
          simp only [List.flatten_cons, dataSum_append] at hck
          omega)
        (by simpa [List.append_assoc] using hsz)
      simp only [List.append_assoc] at this
      rw [this]

theorem emit_length_le_flatten : ∀ (chunks : List Bytes), (∀ c ∈ chunks, 1 ≤ c.length) → chunks.length ≤ chunks.flatten.length := by
  intro chunks
  induction chunks with
  | nil => intro _; simp
  | cons c t ih =>
    intro h
    have := h c (by simp)
    have := ih (fun x hx => h x (by simp [hx]))
    simp only [List.flatten_cons, List.length_append, List.length_cons]; omega

/-- **Frame acceptance for ANY block split.** For every payload, every split of it into blocks of 1..256
bytes (`chunks.flatten = d`; a 256-byte block carries length byte 0), every title without NUL that fits
the header: `readCompressed` returns exactly the payload and consumes exactly the frame. -/
theorem frame_any_split (qtitle : Bytes) (chunks : List Bytes) (rest : Bytes)
    (hch : ∀ c ∈ chunks, 1 ≤ c.length ∧ c.length ≤ 256)
    (hq : (0 : UInt8) ∉ qtitle) (hlen : qtitle.length + 3 < 256)
    (p : Proposal) (hoff : p.offset = 0) (hcs : p.csize = (chunks.flatten.length : Int))
    (fuel : Nat) (hfuel : qtitle.length + chunks.flatten.length + 4 < fuel) (h : H) (tr : List Ev) :
    Proc.run hstep (readCompressed fuel p)
        (frameHeader qtitle 0 ++ (chunks.map blockOf).flatten ++ frameTrailer chunks.flatten ++ rest) h tr =
      (.done (.ok chunks.flatten), rest, h, tr) := by
  have hdec : Fmt.decInt 0 = [48] := by decide
  generalize hd : chunks.flatten = d at hcs hfuel ⊢
  unfold readCompressed
  simp only [frameHeader, hdec, List.cons_append, List.nil_append, List.append_assoc, Proc.run]
  have h1 : ¬ ((1 : UInt8) = 42) := by decide
  have h2 : ¬ ((1 : UInt8) ≠ 1) := by decide
  simp only [h1, if_false, h2, Proc.run, bind_eq, pure_eq]
  rw [run_bind, run_readString hstep 0 qtitle fuel [] _ h tr hq (by omega)]
  simp only [List.reverse_nil, List.nil_append, Bool.false_eq_true, if_false]
  have e2 := run_readString hstep 0 [48] fuel [] ((chunks.map blockOf).flatten ++ (frameTrailer d ++ rest)) h tr
    (by decide) (by simp; omega)
  simp only [List.cons_append, List.nil_append] at e2
  rw [run_bind, e2]
  simp only [List.reverse_nil, List.nil_append, Bool.false_eq_true, if_false]
  rw [stripDelimC_eq _ (by simp), stripDelimC_eq _ (by simp)]
  have hat : atoi [48] = (0, false) := by decide
  have h253 : ¬ 253 ≤ qtitle.length := by omega
  have htr : frameTrailer d ++ rest = 4 :: UInt8.ofNat (negMod256 (dataSum d)) :: rest := by simp [frameTrailer]
  rw [htr]
  have hcl := emit_length_le_flatten chunks (fun c hc => (hch c hc).1)
  have := run_readBlocks_any hstep p.csize chunks fuel [] 0
    (UInt8.ofNat (negMod256 (dataSum d))) rest h tr hch
    (by rw [hd] at hcl; omega)
    (by
      rw [hd]
      simp only [negMod256, Nat.zero_add, UInt8.toNat_ofNat']
      omega)
    (by rw [hd, hcs]; simp)
  rw [hd] at this
  simp [hat, h253, hoff, this]


/-! ### (iii) SID feature detection -/

theorem findIdx?_first (p : UInt8 → Bool) (c : UInt8) (r : Bytes) (hc : p c = true) : ∀ (l : Bytes),
    (∀ x ∈ l, p x = false) → (l ++ c :: r).findIdx? p = some l.length := by
  intro l
  induction l with
  | nil => intro _; simp [List.findIdx?_cons, hc]
  | cons a t ih =>
    intro h
    have ha := h a (by simp)
    simp [List.findIdx?_cons, ha, ih (fun x hx => h x (by simp [hx]))]

/-- the last occurrence of `c` in `a ++ c :: b` when `c ∉ b` -/
theorem lastIndexByte_last (a b : Bytes) (c : UInt8) (hb : c ∉ b) : lastIndexByte (a ++ c :: b) c = some a.length := by
  unfold lastIndexByte
  have hrev : (a ++ c :: b).reverse = b.reverse ++ c :: a.reverse := by simp
  rw [hrev, findIdx?_first (· = c) c a.reverse (by simp) b.reverse (by
    intro x hx
    have : x ∈ b := by simpa using hx
    simp only [decide_eq_false_iff_not]
    intro e; subst e; exact hb this)]
  simp only [List.length_reverse, List.length_append, List.length_cons]
  congr 1
  omega

theorem takeWhile_all_self (p : UInt8 → Bool) : ∀ (l : Bytes), (∀ x ∈ l, p x = true) → l.takeWhile p = l := by
  intro l
  induction l with
  | nil => intro _; rfl
  | cons a t ih =>
    intro h
    simp [List.takeWhile, h a (by simp), ih (fun x hx => h x (by simp [hx]))]

/-- the regexp group of `parseSID` on `[<pre>-<feats>]`: the text after the LAST '-' (so `feats` has none),
whatever `pre` contains (more '-', brackets), upper-cased -/
theorem parseSID_form (pre feats : Bytes) (h45 : (45 : UInt8) ∉ feats) (h10 : (10 : UInt8) ∉ pre ++ feats) :
    parseSID ([91] ++ pre ++ [45] ++ feats ++ [93]) = some (toUpper feats) := by
  have hseg : (pre ++ [45] ++ feats ++ [93]).takeWhile (· ≠ 10) = pre ++ [45] ++ feats ++ [93] := by
    apply takeWhile_all_self
    intro x hx
    simp only [List.mem_append, List.mem_cons, List.not_mem_nil, or_false] at hx
    simp only [List.mem_append, not_or] at h10
    simp only [ne_eq, decide_not, Bool.not_eq_true', decide_eq_false_iff_not]
    rcases hx with ((hx | hx) | hx) | hx
    · intro e; subst e; exact h10.1 hx
    · subst hx; decide
    · intro e; subst e; exact h10.2 hx
    · subst hx; decide
  have hgrp : sidGroup (pre ++ [45] ++ feats ++ [93]) = some feats := by
    unfold sidGroup
    have e1 : pre ++ [45] ++ feats ++ [93] = (pre ++ [45] ++ feats) ++ 93 :: [] := by simp
    rw [e1, lastIndexByte_last _ [] 93 (by simp)]
    simp only [List.take_left']
    have e2 : pre ++ [45] ++ feats = pre ++ 45 :: feats := by simp
    rw [e2, lastIndexByte_last pre feats 45 h45]
    simp
  unfold parseSID
  have hform : [91] ++ pre ++ [45] ++ feats ++ [93] = 91 :: (pre ++ [45] ++ feats ++ [93]) := by simp
  rw [hform]
  simp only [List.length_cons, sidSearch, if_true, hseg, hgrp, Option.map_some]

theorem sb_B2 : sb "B2" = [66, 50] := by decide +kernel

/-- **`readHandshake` accepts every SID `[<anything>-<features>]` whose feature field contains "B2" in
either case, anywhere**: the handshake goes on with `sid` = the upper-cased feature field. -/
theorem readHandshake_accepts_sid (master : Bool) (fuel n : Nat) (data : HsData) (pre feats rest : Bytes)
    (h45 : (45 : UInt8) ∉ feats) (h10 : (10 : UInt8) ∉ pre ++ feats) (h13 : (13 : UInt8) ∉ pre ++ feats)
    (hb2 : containsSub (toUpper feats) [66, 50] = true)
    (hf : pre.length + feats.length + 3 < fuel) (h : H) (tr : List Ev) :
    Proc.run hstep (readHandshake master fuel (n + 1) data) ([91] ++ pre ++ [45] ++ feats ++ [93] ++ 13 :: rest) h tr =
      Proc.run hstep (readHandshake master fuel n { data with sid := toUpper feats }) rest h (.peeked 91 :: tr) := by
  have hform : [91] ++ pre ++ [45] ++ feats ++ [93] = 91 :: ((pre ++ [45] ++ feats) ++ [93]) := by simp
  have hc : cleanString (91 :: ((pre ++ [45] ++ feats) ++ [93]) ++ [13]) = 91 :: ((pre ++ [45] ++ feats) ++ [93]) :=
    cleanString_line 91 _ 93 solid_lb solid_rb
  have hl := run_nextLineRaw_ok hstep (91 :: ((pre ++ [45] ++ feats) ++ [93])) rest fuel h (.peeked 91 :: tr)
    (by
      simp only [List.mem_append, not_or] at h13
      simp only [List.mem_cons, List.mem_append, List.not_mem_nil, or_false, not_or]
      exact ⟨by decide, ⟨⟨h13.1, by decide⟩, h13.2⟩, by decide⟩)
    (by simp; omega)
  rw [hc] at hl
  have hps := parseSID_form pre feats h45 h10
  rw [hform] at hps ⊢
  conv => lhs; unfold readHandshake
  simp only [List.cons_append, Proc.run]
  have h70 : ¬ ((91 : UInt8) = 70 ∧ master = true) := by intro h; exact absurd h.1 (by decide)
  simp only [h70, if_false, bind_eq, pure_eq]
  have hl' : Proc.run hstep (nextLineRemoteErr false fuel) (91 :: (pre ++ [45] ++ feats ++ [93] ++ 13 :: rest)) h (.peeked 91 :: tr) =
      (.done (.ok (91 :: ((pre ++ [45] ++ feats) ++ [93]))), rest, h, .peeked 91 :: tr) := hl
  rw [run_bind, hl']
  have hsid : isSID (91 :: ((pre ++ [45] ++ feats) ++ [93])) = true := by
    have : (91 :: ((pre ++ [45] ++ feats) ++ [93]) : Bytes).getLast? = some 93 := by
      rw [show (91 :: ((pre ++ [45] ++ feats) ++ [93]) : Bytes) = (91 :: (pre ++ [45] ++ feats)) ++ [93] from by simp]
      exact List.getLast?_concat
    rw [isSID, this]; rfl
  simp only [hsid, if_true, hps, sb_B2, hb2, Bool.not_true, Bool.false_eq_true, if_false]

end Wl2k.B2F
