import Wl2kVerif.Proofs.LzTree
import Wl2kVerif.Proofs.LzForest
/-
C06 — `insertNode` / `deleteNode` of the model (`Lzhuf/Tree.lean`) preserve the local forest invariant
`TreeInv` (= array sizes + `Forest.FInv` of the three pointer arrays).  The array code is reduced to the
pointwise surgeries of `Proofs/LzForest.lean`.
-/
namespace Wl2k.Lzhuf
open Wl2k.Forest

structure TreeInv (z : Tree) (kl rank : Nat → Nat) : Prop where
  sz_dad : z.dad.size = 2049
  sz_lson : z.lson.size = 2049
  sz_rson : z.rson.size = 2305
  f : FInv (rd z.dad) (rd z.lson) (rd z.rson) kl rank

theorem NIL_eq : NIL = 2048 := rfl

theorem rd_wr' (a : Array Nat) (i v x : Nat) (h : i < a.size) :
    rd (wr a i v) x = if x = i then v else rd a x := by
  rw [rd_wr]
  by_cases e : x = i
  · subst e; simp [h]
  · have : ¬ i = x := fun h => e h.symm
    simp [e, this]

/-! ### pigeonhole -/

theorem nodup_bound : ∀ (n : Nat) (l : List Nat), l.Nodup → (∀ x ∈ l, x < n) → l.length ≤ n := by
  intro n
  induction n with
  | zero =>
    intro l _ h
    cases l with
    | nil => simp
    | cons a t => exact absurd (h a List.mem_cons_self) (Nat.not_lt_zero _)
  | succ n ih =>
    intro l nd h
    have h1 := ih (l.erase n) (nd.erase n) (by
      intro x hx
      rw [nd.mem_erase_iff] at hx
      have := h x hx.2
      omega)
    rw [List.length_erase] at h1
    split at h1 <;> omega

/-! ### the common tail of `DeleteNode` -/

/-- `dad[q] = dad[p]; if rson[dad[p]] == p { rson[dad[p]] = q } else { lson[dad[p]] = q }; dad[p] = NIL` -/
def delTail (z : Tree) (q p : Nat) : Tree :=
  let dad := wr z.dad q (rd z.dad p)
  let z := { z with dad := dad }
  let z := if rd z.rson (rd z.dad p) = p then { z with rson := wr z.rson (rd z.dad p) q }
           else { z with lson := wr z.lson (rd z.dad p) q }
  { z with dad := wr z.dad p NIL }

/-- the preparation when the left child has no right child: `rson[q] = rson[p]; dad[rson[p]] = q` -/
def prepC (z : Tree) (p : Nat) : Tree :=
  let q := rd z.lson p
  let rson := wr z.rson q (rd z.rson p)
  let dad := wr z.dad (rd rson p) q
  { z with dad := dad, rson := rson }

/-- the preparation when `q` is the rightmost node of the left subtree -/
def prepD (z : Tree) (p q : Nat) : Tree :=
  let rson := wr z.rson (rd z.dad q) (rd z.lson q)
  let dad := wr z.dad (rd z.lson q) (rd z.dad q)
  let lson := wr z.lson q (rd z.lson p)
  let dad := wr dad (rd lson p) q
  let rson := wr rson q (rd rson p)
  let dad := wr dad (rd rson p) q
  { z with dad := dad, lson := lson, rson := rson }

theorem deleteNode_eq (z : Tree) (p : Nat) :
    deleteNode z p =
      if rd z.dad p = NIL then z
      else if rd z.rson p = NIL then delTail z (rd z.lson p) p
      else if rd z.lson p = NIL then delTail z (rd z.rson p) p
      else if rd z.rson (rd z.lson p) ≠ NIL then
        delTail (prepD z p (rightmost z.rson (rd z.lson p) (N + 2))) (rightmost z.rson (rd z.lson p) (N + 2)) p
      else delTail (prepC z p) (rd z.lson p) p := by
  unfold deleteNode
  by_cases h1 : rd z.dad p = NIL
  · rw [if_pos h1, if_pos h1]
  · rw [if_neg h1, if_neg h1]
    by_cases h2 : rd z.rson p = NIL
    · rw [if_pos h2, if_pos h2]; rfl
    · rw [if_neg h2, if_neg h2]
      by_cases h3 : rd z.lson p = NIL
      · rw [if_pos h3, if_pos h3]; rfl
      · rw [if_neg h3, if_neg h3]
        dsimp only
        by_cases h4 : rd z.rson (rd z.lson p) ≠ NIL
        · rw [if_pos h4, if_pos h4]; rfl
        · rw [if_neg h4, if_neg h4]; rfl

structure TailSpec (z : Tree) (q p : Nat) (z' : Tree) : Prop where
  sz_dad : z'.dad.size = z.dad.size
  sz_lson : z'.lson.size = z.lson.size
  sz_rson : z'.rson.size = z.rson.size
  dad : ∀ x, rd z'.dad x = if x = p then 2048 else if x = q then rd z.dad p else rd z.dad x
  sideR : rd z.rson (rd z.dad p) = p →
    (∀ x, rd z'.rson x = if x = rd z.dad p then q else rd z.rson x) ∧ (∀ x, rd z'.lson x = rd z.lson x)
  sideL : rd z.rson (rd z.dad p) ≠ p →
    (∀ x, rd z'.lson x = if x = rd z.dad p then q else rd z.lson x) ∧ (∀ x, rd z'.rson x = rd z.rson x)

theorem delTail_spec (z : Tree) (q p : Nat) (s1 : z.dad.size = 2049) (s2 : z.lson.size = 2049)
    (s3 : z.rson.size = 2305) (hq : q < 2049) (hp : p < 2048) (hqp : q ≠ p) (hd : rd z.dad p < 2305)
    (hdl : rd z.rson (rd z.dad p) ≠ p → rd z.dad p < 2049) : TailSpec z q p (delTail z q p) := by
  have e : rd (wr z.dad q (rd z.dad p)) p = rd z.dad p := by
    rw [rd_wr' _ _ _ _ (by omega), if_neg (fun h => hqp h.symm)]
  unfold delTail
  dsimp only
  rw [e]
  by_cases hs : rd z.rson (rd z.dad p) = p
  · rw [if_pos hs]
    refine ⟨by simp, rfl, by simp, ?_, fun _ => ⟨?_, fun _ => rfl⟩, fun h => absurd hs h⟩
    · intro x
      dsimp only
      rw [rd_wr' _ _ _ _ (by simp; omega), rd_wr' _ _ _ _ (by omega)]
      rfl
    · intro x
      dsimp only
      rw [rd_wr' _ _ _ _ (by omega)]
  · rw [if_neg hs]
    refine ⟨by simp, by simp, rfl, ?_, fun h => absurd h hs, fun _ => ⟨?_, fun _ => rfl⟩⟩
    · intro x
      dsimp only
      rw [rd_wr' _ _ _ _ (by simp; omega), rd_wr' _ _ _ _ (by omega)]
      rfl
    · intro x
      dsimp only
      rw [rd_wr' _ _ _ _ (by have := hdl hs; omega)]

theorem prepC_spec (z : Tree) (p : Nat) (s1 : z.dad.size = 2049) (s3 : z.rson.size = 2305)
    (hq : rd z.lson p < 2048) (hpq : p ≠ rd z.lson p) (hr : rd z.rson p < 2048) :
    (prepC z p).dad.size = 2049 ∧ (prepC z p).lson = z.lson ∧ (prepC z p).rson.size = 2305 ∧
    (∀ x, rd (prepC z p).dad x = if x = rd z.rson p then rd z.lson p else rd z.dad x) ∧
    (∀ x, rd (prepC z p).rson x = if x = rd z.lson p then rd z.rson p else rd z.rson x) := by
  have e : rd (wr z.rson (rd z.lson p) (rd z.rson p)) p = rd z.rson p := by
    rw [rd_wr' _ _ _ _ (by omega), if_neg hpq]
  unfold prepC
  dsimp only
  rw [e]
  refine ⟨by simp [s1], rfl, by simp [s3], ?_, ?_⟩
  · intro x; rw [rd_wr' _ _ _ _ (by omega)]
  · intro x; rw [rd_wr' _ _ _ _ (by omega)]

theorem prepD_spec (z : Tree) (p q : Nat) (s1 : z.dad.size = 2049) (s2 : z.lson.size = 2049)
    (s3 : z.rson.size = 2305)
    (hq : q < 2048) (hdq : rd z.dad q < 2048) (hlq : rd z.lson q < 2049)
    (hlp : rd z.lson p < 2048) (hrp : rd z.rson p < 2048)
    (hpq : p ≠ q) (hpdq : p ≠ rd z.dad q) :
    (prepD z p q).dad.size = 2049 ∧ (prepD z p q).lson.size = 2049 ∧ (prepD z p q).rson.size = 2305 ∧
    (∀ x, rd (prepD z p q).dad x = if x = rd z.rson p then q else if x = rd z.lson p then q
        else if x = rd z.lson q then rd z.dad q else rd z.dad x) ∧
    (∀ x, rd (prepD z p q).lson x = if x = q then rd z.lson p else rd z.lson x) ∧
    (∀ x, rd (prepD z p q).rson x = if x = q then rd z.rson p else if x = rd z.dad q then rd z.lson q
        else rd z.rson x) := by
  have e1 : rd (wr z.lson q (rd z.lson p)) p = rd z.lson p := by
    rw [rd_wr' _ _ _ _ (by omega), if_neg hpq]
  have e2 : rd (wr z.rson (rd z.dad q) (rd z.lson q)) p = rd z.rson p := by
    rw [rd_wr' _ _ _ _ (by omega), if_neg hpdq]
  have e3 : rd (wr (wr z.rson (rd z.dad q) (rd z.lson q)) q (rd z.rson p)) p = rd z.rson p := by
    rw [rd_wr' _ _ _ _ (by simp; omega), if_neg hpq, e2]
  unfold prepD
  dsimp only
  rw [e1, e2, e3]
  refine ⟨by simp [s1], by simp [s2], by simp [s3], ?_, ?_, ?_⟩
  · intro x
    rw [rd_wr' _ _ _ _ (by simp; omega), rd_wr' _ _ _ _ (by simp; omega), rd_wr' _ _ _ _ (by omega)]
  · intro x; rw [rd_wr' _ _ _ _ (by omega)]
  · intro x; rw [rd_wr' _ _ _ _ (by simp; omega), rd_wr' _ _ _ _ (by omega)]

/-! ### `rightmost` -/

/-- a node on the right spine of the left subtree of `p` -/
def ChainP (z : Tree) (kl rank : Nat → Nat) (p x : Nat) : Prop :=
  x < 2048 ∧ rd z.dad x ≠ 2048 ∧ kl x = kl p ∧ rank p < rank x ∧
  (x = rd z.lson p ∨ (rd z.rson (rd z.dad x) = x ∧ rd z.dad x < 2048 ∧ rd z.dad (rd z.dad x) ≠ 2048 ∧
    rank p < rank (rd z.dad x)))

theorem rightmost_chain {z : Tree} {kl rank : Nat → Nat} (t : TreeInv z kl rank) (p : Nat) :
    ∀ (fuel x : Nat) (vis : List Nat), ChainP z kl rank p x → vis.Nodup →
      (∀ y ∈ vis, y < 2048 ∧ rank y < rank x) → 2049 ≤ vis.length + fuel →
      ChainP z kl rank p (rightmost z.rson x fuel) ∧ rd z.rson (rightmost z.rson x fuel) = 2048 := by
  intro fuel
  induction fuel with
  | zero =>
    intro x vis _ nd hv hl
    have := nodup_bound 2048 vis nd (fun y hy => (hv y hy).1)
    omega
  | succ fuel ih =>
    intro x vis hc nd hv hl
    unfold rightmost
    by_cases h : rd z.rson x ≠ NIL
    · rw [if_pos h]
      obtain ⟨c1, c2, c3, c4, c5⟩ := hc
      obtain ⟨d1, d2, d3⟩ := t.f.down_r x (Or.inr ⟨c1, c2⟩) h
      obtain ⟨u1, u2, u3, u4⟩ := t.f.up (rd z.rson x) d1 (by rw [d2]; omega)
      rw [d2] at u3
      refine ih (rd z.rson x) (x :: vis) ⟨d1, by rw [d2]; omega, by rw [d3, c3], by omega, Or.inr ?_⟩ ?_ ?_ ?_
      · rw [d2]; exact ⟨rfl, c1, c2, c4⟩
      · rw [List.nodup_cons]
        refine ⟨fun hx => ?_, nd⟩
        have := (hv x hx).2
        omega
      · intro y hy
        rcases List.mem_cons.mp hy with rfl | hy
        · exact ⟨c1, u3⟩
        · have := hv y hy
          exact ⟨this.1, by omega⟩
      · simp only [List.length_cons]; omega
    · rw [if_neg h]
      exact ⟨hc, Decidable.of_not_not h⟩

/-! ### `deleteNode` preserves the invariant -/

/-- facts about a live node used by every case -/
theorem TreeInv.live_facts {z : Tree} {kl rank : Nat → Nat} (t : TreeInv z kl rank) (p : Nat)
    (hp : p < 2048) (hdp : rd z.dad p ≠ 2048) :
    rd z.dad p < 2305 ∧ rd z.dad p ≠ p ∧
    (rd z.rson (rd z.dad p) ≠ p → rd z.dad p < 2049) ∧
    (rd z.lson p ≠ 2048 → rd z.lson p < 2048 ∧ rd z.dad (rd z.lson p) = p ∧ rd z.lson p ≠ p ∧
      rank p < rank (rd z.lson p) ∧ rd z.lson p ≠ rd z.dad p ∧ kl (rd z.lson p) = kl p) ∧
    (rd z.rson p ≠ 2048 → rd z.rson p < 2048 ∧ rd z.dad (rd z.rson p) = p ∧ rd z.rson p ≠ p ∧
      rank p < rank (rd z.rson p) ∧ rd z.rson p ≠ rd z.dad p) := by
  obtain ⟨u1, u2, u3, u4⟩ := t.f.up p hp hdp
  refine ⟨?_, fun h => by rw [h] at u3; omega, ?_, ?_, ?_⟩
  · rcases u1 with h | h <;> omega
  · intro h
    rcases u4 with h' | h'
    · exact absurd h' h
    · omega
  · intro h
    obtain ⟨d1, d2, d3⟩ := t.f.down_l p hp hdp h
    obtain ⟨v1, v2, v3, v4⟩ := t.f.up _ d1 (by rw [d2]; omega)
    rw [d2] at v3
    exact ⟨d1, d2, fun e => by rw [e] at v3; omega, v3, fun e => by rw [e] at v3; omega, d3⟩
  · intro h
    obtain ⟨d1, d2, d3⟩ := t.f.down_r p (Or.inr ⟨hp, hdp⟩) h
    obtain ⟨v1, v2, v3, v4⟩ := t.f.up _ d1 (by rw [d2]; omega)
    rw [d2] at v3
    exact ⟨d1, d2, fun e => by rw [e] at v3; omega, v3, fun e => by rw [e] at v3; omega⟩

/-- what the caller needs to know about the set of live nodes after `deleteNode z p` -/
def DelPost (z z' : Tree) (p : Nat) : Prop :=
  rd z'.dad p = 2048 ∧ ∀ x, x < 2048 → x ≠ p → (rd z'.dad x = 2048 ↔ rd z.dad x = 2048)

theorem iff_of_ne {a b c : Nat} (h1 : a ≠ c) (h2 : b ≠ c) : a = c ↔ b = c :=
  ⟨fun h => absurd h h1, fun h => absurd h h2⟩

/-- cases A and B: at most one child -/
theorem delete_one {z : Tree} {kl rank : Nat → Nat} (t : TreeInv z kl rank) (p q : Nat)
    (hp : p < 2048) (hdp : rd z.dad p ≠ 2048)
    (hq : (rd z.rson p = 2048 ∧ q = rd z.lson p) ∨ (rd z.lson p = 2048 ∧ q = rd z.rson p)) :
    TreeInv (delTail z q p) kl rank ∧ DelPost z (delTail z q p) p := by
  obtain ⟨f1, f2, f3, f4, f5⟩ := t.live_facts p hp hdp
  have hq' : q < 2049 ∧ q ≠ p ∧ (q < 2048 → rd z.dad q = p) := by
    rcases hq with ⟨h1, h2⟩ | ⟨h1, h2⟩
    · by_cases h : rd z.lson p = 2048
      · rw [h2, h]; exact ⟨by omega, by omega, fun h => by omega⟩
      · obtain ⟨a1, a2, a3, -⟩ := f4 h
        rw [h2]; exact ⟨by omega, a3, fun _ => a2⟩
    · by_cases h : rd z.rson p = 2048
      · rw [h2, h]; exact ⟨by omega, by omega, fun h => by omega⟩
      · obtain ⟨a1, a2, a3, -⟩ := f5 h
        rw [h2]; exact ⟨by omega, a3, fun _ => a2⟩
  have ts := delTail_spec z q p t.sz_dad t.sz_lson t.sz_rson hq'.1 hp hq'.2.1 f1 f3
  refine ⟨⟨ts.sz_dad.trans t.sz_dad, ts.sz_lson.trans t.sz_lson, ts.sz_rson.trans t.sz_rson, ?_⟩, ?_, ?_⟩
  · by_cases hs : rd z.rson (rd z.dad p) = p
    · obtain ⟨r1, r2⟩ := ts.sideR hs
      exact spliceR_inv t.f p q hp hdp hq hs _ _ _ kl rank ts.dad r2 r1 (fun _ => rfl) (fun _ => rfl)
    · obtain ⟨r1, r2⟩ := ts.sideL hs
      exact spliceL_inv t.f p q hp hdp hq hs _ _ _ kl rank ts.dad r1 r2 (fun _ => rfl) (fun _ => rfl)
  · rw [ts.dad p, if_pos rfl]
  · intro x hx hxp
    rw [ts.dad x, if_neg hxp]
    by_cases hxq : x = q
    · rw [if_pos hxq]
      have := hq'.2.2 (by omega)
      rw [hxq, this]
      constructor <;> intro h <;> omega
    · rw [if_neg hxq]

/-- case C: two children, the left child has no right child -/
theorem delete_C {z : Tree} {kl rank : Nat → Nat} (t : TreeInv z kl rank) (p : Nat)
    (hp : p < 2048) (hdp : rd z.dad p ≠ 2048) (hlp : rd z.lson p ≠ 2048) (hrp : rd z.rson p ≠ 2048)
    (hrq : rd z.rson (rd z.lson p) = 2048) :
    TreeInv (delTail (prepC z p) (rd z.lson p) p) kl
      (fun x => if x = rd z.lson p then rank p else rank x) ∧
    DelPost z (delTail (prepC z p) (rd z.lson p) p) p := by
  obtain ⟨f1, f2, f3, f4, f5⟩ := t.live_facts p hp hdp
  obtain ⟨a1, a2, a3, a4, a5, a6⟩ := f4 hlp
  obtain ⟨b1, b2, b3, b4, b5⟩ := f5 hrp
  obtain ⟨c1, c2, c3, c4, c5⟩ := prepC_spec z p t.sz_dad t.sz_rson a1 (fun h => a3 h.symm) b1
  have e1 : rd (prepC z p).dad p = rd z.dad p := by rw [c4 p, if_neg (fun h => b3 h.symm)]
  have e2 : rd (prepC z p).rson (rd z.dad p) = rd z.rson (rd z.dad p) := by
    rw [c5, if_neg (fun h => a5 h.symm)]
  have ts := delTail_spec (prepC z p) (rd z.lson p) p c1 (by rw [c2]; exact t.sz_lson) c3 (by omega) hp a3
    (by rw [e1]; exact f1) (by rw [e1, e2]; exact f3)
  have hD : ∀ x, rd (delTail (prepC z p) (rd z.lson p) p).dad x =
      if x = p then 2048 else if x = rd z.lson p then rd z.dad p else if x = rd z.rson p then rd z.lson p
        else rd z.dad x := by
    intro x; rw [ts.dad x, e1, c4 x]
  refine ⟨⟨ts.sz_dad.trans c1, ts.sz_lson.trans (by rw [c2]; exact t.sz_lson), ts.sz_rson.trans c3, ?_⟩, ?_, ?_⟩
  · by_cases hs : rd z.rson (rd z.dad p) = p
    · obtain ⟨r1, r2⟩ := ts.sideR (by rw [e1, e2]; exact hs)
      refine promoteR_inv t.f p hp hdp hlp hrp hrq hs _ _ _ kl _ hD ?_ ?_ (fun _ => rfl) (fun _ => rfl)
      · intro x; rw [r2 x, c2]
      · intro x; rw [r1 x, e1, c5 x]
    · obtain ⟨r1, r2⟩ := ts.sideL (by rw [e1, e2]; exact hs)
      refine promoteL_inv t.f p hp hdp hlp hrp hrq hs _ _ _ kl _ hD ?_ ?_ (fun _ => rfl) (fun _ => rfl)
      · intro x; rw [r1 x, e1, c2]
      · intro x; rw [r2 x, c5 x]
  · rw [hD p, if_pos rfl]
  · intro x hx hxp
    rw [hD x, if_neg hxp]
    by_cases h1 : x = rd z.lson p
    · rw [if_pos h1, h1, a2]; constructor <;> intro h <;> omega
    · rw [if_neg h1]
      by_cases h2 : x = rd z.rson p
      · rw [if_pos h2, h2, b2]; constructor <;> intro h <;> omega
      · rw [if_neg h2]

/-- case D: two children, the rightmost node `q` of the left subtree replaces `p` -/
theorem delete_D {z : Tree} {kl rank : Nat → Nat} (t : TreeInv z kl rank) (p : Nat)
    (hp : p < 2048) (hdp : rd z.dad p ≠ 2048) (hlp : rd z.lson p ≠ 2048) (hrp : rd z.rson p ≠ 2048)
    (hrq : rd z.rson (rd z.lson p) ≠ 2048) :
    TreeInv (delTail (prepD z p (rightmost z.rson (rd z.lson p) (N + 2))) (rightmost z.rson (rd z.lson p) (N + 2)) p) kl
      (fun x => if x = rightmost z.rson (rd z.lson p) (N + 2) then rank p else rank x) ∧
    DelPost z (delTail (prepD z p (rightmost z.rson (rd z.lson p) (N + 2))) (rightmost z.rson (rd z.lson p) (N + 2)) p) p := by
  obtain ⟨f1, f2, f3, f4, f5⟩ := t.live_facts p hp hdp
  obtain ⟨a1, a2, a3, a4, a5, a6⟩ := f4 hlp
  obtain ⟨b1, b2, b3, b4, b5⟩ := f5 hrp
  obtain ⟨u1, u2, u3, u4⟩ := t.f.up p hp hdp
  -- the rightmost node
  obtain ⟨⟨q1, q2, q3, q4, q5⟩, q6⟩ := rightmost_chain t p (N + 2) (rd z.lson p) []
    ⟨a1, by rw [a2]; omega, a6, a4, Or.inl rfl⟩ List.nodup_nil (fun _ h => nomatch h) (by simp [N])
  generalize rightmost z.rson (rd z.lson p) (N + 2) = q at *
  have hqlp : q ≠ rd z.lson p := fun h => by rw [h] at q6; exact hrq q6
  obtain ⟨q7, q8, q9, q10⟩ := q5.resolve_left hqlp
  obtain ⟨v1, v2, v3, v4⟩ := t.f.up q q1 q2
  have hpq : p ≠ q := fun h => by rw [h] at q4; omega
  have hpdq : p ≠ rd z.dad q := fun h => by rw [← h] at q10; omega
  have hlq : rd z.lson q < 2049 := by
    by_cases h : rd z.lson q = 2048
    · omega
    · have := (t.f.down_l q q1 q2 h).1; omega
  obtain ⟨c1, c2, c3, c4, c5, c6⟩ := prepD_spec z p q t.sz_dad t.sz_lson t.sz_rson q1 q8 hlq a1 b1 hpq hpdq
  have hplq : p ≠ rd z.lson q := by
    intro h
    by_cases h' : rd z.lson q = 2048
    · omega
    · have := (t.f.down_l q q1 q2 h').2.1
      rw [← h] at this
      rw [this] at u3
      omega
  have hdpq : rd z.dad p ≠ q := fun h => by rw [h] at u3; omega
  have hdpdq : rd z.dad p ≠ rd z.dad q := fun h => by rw [h] at u3; omega
  have e1 : rd (prepD z p q).dad p = rd z.dad p := by
    rw [c4 p, if_neg (fun h => b3 h.symm), if_neg (fun h => a3 h.symm), if_neg hplq]
  have e2 : rd (prepD z p q).rson (rd z.dad p) = rd z.rson (rd z.dad p) := by
    rw [c6, if_neg hdpq, if_neg hdpdq]
  have ts := delTail_spec (prepD z p q) q p c1 c2 c3 (by omega) hp (fun h => hpq h.symm)
    (by rw [e1]; exact f1) (by rw [e1, e2]; exact f3)
  have hD : ∀ x, rd (delTail (prepD z p q) q p).dad x =
      if x = p then 2048 else if x = q then rd z.dad p else if x = rd z.rson p then q
        else if x = rd z.lson p then q else if x = rd z.lson q then rd z.dad q else rd z.dad x := by
    intro x; rw [ts.dad x, e1, c4 x]
  refine ⟨⟨ts.sz_dad.trans c1, ts.sz_lson.trans c2, ts.sz_rson.trans c3, ?_⟩, ?_, ?_⟩
  · by_cases hs : rd z.rson (rd z.dad p) = p
    · obtain ⟨r1, r2⟩ := ts.sideR (by rw [e1, e2]; exact hs)
      refine caseD_R_inv t.f p q hp hdp hlp hrp q1 q2 q6 q8 q9 q7 q10 q3 _ _ _ _ hD (fun _ => rfl) hs ?_ ?_
      · intro x; rw [r2 x, c5 x]
      · intro x; rw [r1 x, e1, c6 x]
    · obtain ⟨r1, r2⟩ := ts.sideL (by rw [e1, e2]; exact hs)
      refine caseD_L_inv t.f p q hp hdp hlp hrp q1 q2 q6 q8 q9 q7 q10 q3 _ _ _ _ hD (fun _ => rfl) hs ?_ ?_
      · intro x; rw [r1 x, e1, c5 x]
      · intro x; rw [r2 x, c6 x]
  · rw [hD p, if_pos rfl]
  · intro x hx hxp
    rw [hD x, if_neg hxp]
    by_cases h1 : x = q
    · rw [if_pos h1, h1]; exact iff_of_ne hdp q2
    · rw [if_neg h1]
      by_cases h2 : x = rd z.rson p
      · rw [if_pos h2, h2, b2]; exact iff_of_ne (Nat.ne_of_lt q1) (Nat.ne_of_lt hp)
      · rw [if_neg h2]
        by_cases h3 : x = rd z.lson p
        · rw [if_pos h3, h3, a2]; exact iff_of_ne (Nat.ne_of_lt q1) (Nat.ne_of_lt hp)
        · rw [if_neg h3]
          by_cases h4 : x = rd z.lson q
          · rw [if_pos h4]
            have := (t.f.down_l q q1 q2 (by omega)).2.1
            rw [h4, this]; exact iff_of_ne (Nat.ne_of_lt q8) (Nat.ne_of_lt q1)
          · rw [if_neg h4]

/-- **`deleteNode` preserves the forest invariant**; afterwards `p` is dead and no other node changed
its status. The class ghost is unchanged; the rank ghost is adjusted at the node that moved up. -/
theorem deleteNode_inv {z : Tree} {kl rank : Nat → Nat} (t : TreeInv z kl rank) (p : Nat) (hp : p < 2048) :
    ∃ rank', TreeInv (deleteNode z p) kl rank' ∧ DelPost z (deleteNode z p) p := by
  rw [deleteNode_eq]
  by_cases h1 : rd z.dad p = NIL
  · rw [if_pos h1]; exact ⟨rank, t, h1, fun _ _ _ => Iff.rfl⟩
  · rw [if_neg h1]
    by_cases h2 : rd z.rson p = NIL
    · rw [if_pos h2]; exact ⟨rank, delete_one t p _ hp h1 (Or.inl ⟨h2, rfl⟩)⟩
    · rw [if_neg h2]
      by_cases h3 : rd z.lson p = NIL
      · rw [if_pos h3]; exact ⟨rank, delete_one t p _ hp h1 (Or.inr ⟨h3, rfl⟩)⟩
      · rw [if_neg h3]
        by_cases h4 : rd z.rson (rd z.lson p) ≠ NIL
        · rw [if_pos h4]; exact ⟨_, delete_D t p hp h1 h3 h2 h4⟩
        · rw [if_neg h4]; exact ⟨_, delete_C t p hp h1 h3 h2 (Decidable.of_not_not h4)⟩

/-! ### `replaceNode` -/

structure ReplSpec (z : Tree) (r p : Nat) (z' : Tree) : Prop where
  sz_dad : z'.dad.size = z.dad.size
  sz_lson : z'.lson.size = z.lson.size
  sz_rson : z'.rson.size = z.rson.size
  dad : ∀ x, rd z'.dad x = if x = p then 2048 else if x = rd z.rson p then r else if x = rd z.lson p then r
    else if x = r then rd z.dad p else rd z.dad x
  sideR : rd z.rson (rd z.dad p) = p →
    (∀ x, rd z'.rson x = if x = rd z.dad p then r else if x = r then rd z.rson p else rd z.rson x) ∧
    (∀ x, rd z'.lson x = if x = r then rd z.lson p else rd z.lson x)
  sideL : rd z.rson (rd z.dad p) ≠ p →
    (∀ x, rd z'.lson x = if x = rd z.dad p then r else if x = r then rd z.lson p else rd z.lson x) ∧
    (∀ x, rd z'.rson x = if x = r then rd z.rson p else rd z.rson x)

theorem replaceNode_spec (z : Tree) (r p : Nat) (s1 : z.dad.size = 2049) (s2 : z.lson.size = 2049)
    (s3 : z.rson.size = 2305) (hr : r < 2048) (hp : p < 2048) (hpr : p ≠ r)
    (hl : rd z.lson p < 2049) (hrr : rd z.rson p < 2049) (hpl : p ≠ rd z.lson p) (hprr : p ≠ rd z.rson p)
    (hd : rd z.dad p < 2305) (hdr : rd z.dad p ≠ r)
    (hdl : rd z.rson (rd z.dad p) ≠ p → rd z.dad p < 2049) : ReplSpec z r p (replaceNode z r p) := by
  have e1 : rd (wr z.lson r (rd z.lson p)) p = rd z.lson p := by
    rw [rd_wr' _ _ _ _ (by omega), if_neg hpr]
  have e2 : rd (wr z.rson r (rd z.rson p)) p = rd z.rson p := by
    rw [rd_wr' _ _ _ _ (by omega), if_neg hpr]
  have e3 : rd (wr (wr (wr z.dad r (rd z.dad p)) (rd z.lson p) r) (rd z.rson p) r) p = rd z.dad p := by
    rw [rd_wr' _ _ _ _ (by simp; omega), if_neg hprr, rd_wr' _ _ _ _ (by simp; omega), if_neg hpl,
      rd_wr' _ _ _ _ (by omega), if_neg hpr]
  have e4 : rd (wr z.rson r (rd z.rson p)) (rd z.dad p) = rd z.rson (rd z.dad p) := by
    rw [rd_wr' _ _ _ _ (by omega), if_neg hdr]
  unfold replaceNode
  dsimp only
  rw [e1, e2, e3, e4]
  have hdad : ∀ x, rd (wr (wr (wr (wr z.dad r (rd z.dad p)) (rd z.lson p) r) (rd z.rson p) r) p NIL) x =
      if x = p then 2048 else if x = rd z.rson p then r else if x = rd z.lson p then r
        else if x = r then rd z.dad p else rd z.dad x := by
    intro x
    rw [rd_wr' _ _ _ _ (by simp; omega), rd_wr' _ _ _ _ (by simp; omega), rd_wr' _ _ _ _ (by simp; omega),
      rd_wr' _ _ _ _ (by omega)]
    rfl
  by_cases hs : rd z.rson (rd z.dad p) = p
  · rw [if_pos hs]
    refine ⟨by simp, by simp, by simp, hdad, fun _ => ⟨?_, ?_⟩, fun h => absurd hs h⟩
    · intro x
      dsimp only
      rw [rd_wr' _ _ _ _ (by simp; omega), rd_wr' _ _ _ _ (by omega)]
    · intro x
      dsimp only
      rw [rd_wr' _ _ _ _ (by omega)]
  · rw [if_neg hs]
    refine ⟨by simp, by simp, by simp, hdad, fun h => absurd h hs, fun _ => ⟨?_, ?_⟩⟩
    · intro x
      dsimp only
      rw [rd_wr' _ _ _ _ (by have := hdl hs; simp; omega), rd_wr' _ _ _ _ (by omega)]
    · intro x
      dsimp only
      rw [rd_wr' _ _ _ _ (by omega)]

/-! ### `insertNode` preserves the invariant -/

/-- a live node of class `c` -/
def NodeG (z : Tree) (kl : Nat → Nat) (c : Nat) (q : Nat) : Prop := q < 2048 ∧ rd z.dad q ≠ 2048 ∧ kl q = c

theorem MatchOK.congr {r : Nat} {G : Nat → Prop} {z z' : Tree} (m : MatchOK r G z)
    (h1 : z'.matchLength = z.matchLength) (h2 : z'.matchPosition = z.matchPosition)
    (h3 : z'.textBuf = z.textBuf) : MatchOK r G z' := by
  refine ⟨by rw [h1]; exact m.len_le, by rw [h2]; exact m.pos_lt, ?_⟩
  intro h
  rw [h1] at h
  obtain ⟨q, g, e, v⟩ := m.valid h
  refine ⟨q, g, by rw [h2]; exact e, ?_⟩
  intro i i1 i2
  rw [h1] at i2
  have := v i i1 i2
  unfold Tree.tb at this ⊢
  rw [h3]; exact this

theorem replaceNode_frame (z : Tree) (r p : Nat) :
    (replaceNode z r p).textBuf = z.textBuf ∧ (replaceNode z r p).matchLength = z.matchLength ∧
    (replaceNode z r p).matchPosition = z.matchPosition := by
  unfold replaceNode
  dsimp only
  split <;> exact ⟨rfl, rfl, rfl⟩

/-- the state of `insertNode` before the descent: the pointers of `r` cleared -/
def clearNode (z : Tree) (r : Nat) : Tree :=
  { z with rson := wr z.rson r NIL, lson := wr z.lson r NIL, matchLength := 0 }

theorem insertNode_def (z : Tree) (r : Nat) :
    insertNode z r = insertLoop (clearNode z r) r (N + 1 + (z.tb r).toNat) 1 (N + 2) := rfl

theorem clearNode_inv {z : Tree} {kl rank : Nat → Nat} (t : TreeInv z kl rank) (r : Nat) (hr : r < 2048)
    (hdr : rd z.dad r = 2048) (kl' : Nat → Nat) (hk : ∀ x, x ≠ r → kl' x = kl x) :
    TreeInv (clearNode z r) kl' rank ∧ rd (clearNode z r).lson r = 2048 ∧ rd (clearNode z r).rson r = 2048 := by
  refine ⟨⟨t.sz_dad, by simp [clearNode, t.sz_lson], by simp [clearNode, t.sz_rson], ?_⟩, ?_, ?_⟩
  · refine t.f.dead_irrel r hr hdr _ _ kl' rank ?_ ?_ hk (fun _ _ => rfl)
    · intro x hx
      show rd (wr z.lson r NIL) x = _
      rw [rd_wr' _ _ _ _ (by rw [t.sz_lson]; omega), if_neg hx]
    · intro x hx
      show rd (wr z.rson r NIL) x = _
      rw [rd_wr' _ _ _ _ (by rw [t.sz_rson]; omega), if_neg hx]
  · show rd (wr z.lson r NIL) r = _
    rw [rd_wr' _ _ _ _ (by rw [t.sz_lson]; omega), if_pos rfl]; rfl
  · show rd (wr z.rson r NIL) r = _
    rw [rd_wr' _ _ _ _ (by rw [t.sz_rson]; omega), if_pos rfl]; rfl

theorem MatchOK.mono {r : Nat} {G G' : Nat → Prop} {z : Tree} (m : MatchOK r G z) (h : ∀ q, G q → G' q) :
    MatchOK r G' z := by
  refine ⟨m.len_le, m.pos_lt, fun hl => ?_⟩
  obtain ⟨q, g, e, v⟩ := m.valid hl
  exact ⟨q, h q g, e, v⟩

theorem TreeInv.ofSame {z zf : Tree} {kl rank : Nat → Nat} (t : TreeInv z kl rank) (a : SameArr z zf) :
    TreeInv zf kl rank :=
  ⟨by rw [a.dad]; exact t.sz_dad, by rw [a.lson]; exact t.sz_lson, by rw [a.rson]; exact t.sz_rson,
   by rw [a.dad, a.lson, a.rson]; exact t.f⟩

/-- **`insertNode` preserves the forest invariant** when `r` is a dead node; `r` gets the class of its first
byte; no other node becomes live; the text is untouched; and the reported match — if longer than
`THRESHOLD` — refers to a node that was live before, of the same class as `r`, whose bytes
`1 .. matchLength−1` equal those at `r`. -/
theorem insertNode_inv {z : Tree} {kl rank : Nat → Nat} (t : TreeInv z kl rank) (r : Nat) (hr : r < 2048)
    (hdr : rd z.dad r = 2048) (hmp : z.matchPosition < N) (hk0 : ∀ c, c < 256 → kl (2049 + c) = c) :
    ∃ rank', TreeInv (insertNode z r) (fun x => if x = r then (z.tb r).toNat else kl x) rank' ∧
      (∀ x, x < 2048 → x ≠ r → rd (insertNode z r).dad x ≠ 2048 → rd z.dad x ≠ 2048) ∧
      (insertNode z r).textBuf = z.textBuf ∧
      MatchOK r (NodeG z kl (z.tb r).toNat) (insertNode z r) := by
  have hc : (z.tb r).toNat < 256 := (z.tb r).toNat_lt
  generalize hcdef : (z.tb r).toNat = c at hc
  obtain ⟨t1, hlr, hrr⟩ := clearNode_inv t r hr hdr (fun x => if x = r then c else kl x)
    (fun x hx => by simp only [if_neg hx])
  have hklr : (fun x => if x = r then c else kl x) r = c := by simp only [if_true]
  have hklp0 : (fun x => if x = r then c else kl x) (2049 + c) = c := by
    have : ¬ 2049 + c = r := by omega
    simp only [if_neg this]; exact hk0 c hc
  have hp0 : N + 1 + c = 2049 + c := by simp only [N_eq]
  -- the descent
  have hR : ∀ a, (a = N + 1 + c ∨ NodeG z (fun x => if x = r then c else kl x) c a) →
      rd (clearNode z r).rson a ≠ NIL → NodeG z (fun x => if x = r then c else kl x) c (rd (clearNode z r).rson a) := by
    intro a ha hne
    have hg : GoodF (rd z.dad) a ∧ (fun x => if x = r then c else kl x) a = c := by
      rcases ha with h | h
      · rw [h, hp0]; exact ⟨Or.inl ⟨by omega, by omega⟩, hklp0⟩
      · exact ⟨Or.inr ⟨h.1, h.2.1⟩, h.2.2⟩
    obtain ⟨d1, d2, d3⟩ := t1.f.down_r a hg.1 hne
    refine ⟨d1, ?_, d3.trans hg.2⟩
    show rd z.dad _ ≠ 2048
    have d2' : rd z.dad (rd (clearNode z r).rson a) = a := d2
    rw [d2']
    rcases hg.1 with h | h <;> omega
  have hL : ∀ a, NodeG z (fun x => if x = r then c else kl x) c a →
      rd (clearNode z r).lson a ≠ NIL → NodeG z (fun x => if x = r then c else kl x) c (rd (clearNode z r).lson a) := by
    intro a ha hne
    obtain ⟨d1, d2, d3⟩ := t1.f.down_l a ha.1 ha.2.1 hne
    refine ⟨d1, ?_, d3.trans ha.2.2⟩
    show rd z.dad _ ≠ 2048
    have d2' : rd z.dad (rd (clearNode z r).lson a) = a := d2
    rw [d2']
    have := ha.1; omega
  have e := insertLoop_spec r (N + 1 + c) (NodeG z (fun x => if x = r then c else kl x) c) (clearNode z r)
    (N + 1 + c) 1 (N + 2) hR hL (Or.inl ⟨rfl, by decide⟩)
    ⟨Nat.zero_le _, hmp, fun h => by simp [clearNode, THRESHOLD] at h⟩
  rw [insertNode_def, hcdef]
  generalize insertLoop (clearNode z r) r (N + 1 + c) 1 (N + 2) = res at e
  have gmono : ∀ q, NodeG z (fun x => if x = r then c else kl x) c q → NodeG z kl c q := by
    intro q hq
    have hqr : q ≠ r := fun h => by rw [h] at hq; exact hq.2.1 hdr
    have := hq.2.2
    simp only [if_neg hqr] at this
    exact ⟨hq.1, hq.2.1, this⟩
  have tbe : (clearNode z r).textBuf = z.textBuf := rfl
  cases e with
  | fuel zf a b e =>
    subst e
    exact ⟨rank, t1.ofSame a, fun x _ _ h => by rw [a.dad] at h; exact h, a.textBuf.trans tbe, b.mono gmono⟩
  | right zf p a b hp hnil e =>
    subst e
    have hg : GoodF (rd z.dad) p ∧ (fun x => if x = r then c else kl x) p = c := by
      rcases hp with h | h
      · rw [h, hp0]; exact ⟨Or.inl ⟨by omega, by omega⟩, hklp0⟩
      · exact ⟨Or.inr ⟨h.1, h.2.1⟩, h.2.2⟩
    have hp305 : p < 2305 := by rcases hg.1 with h | h <;> omega
    have tf := t1.ofSame a
    refine ⟨fun x => if x = r then rank p + 1 else rank x,
      ⟨by simp [attachR, tf.sz_dad], tf.sz_lson, by simp [attachR, tf.sz_rson], ?_⟩, ?_, a.textBuf.trans tbe,
      (b.congr (z' := attachR zf r p) rfl rfl rfl).mono gmono⟩
    · refine attachR_inv tf.f r p hr (by rw [a.dad]; exact hdr) (by rw [a.lson]; exact hlr)
        (by rw [a.rson]; exact hrr) (by rw [a.dad]; exact hg.1) (by rw [a.rson]; exact hnil) _ _ _ _ _
        ?_ (fun _ => rfl) ?_ ?_ (fun _ => rfl)
      · intro x
        show rd (wr zf.dad r p) x = _
        rw [rd_wr' _ _ _ _ (by rw [tf.sz_dad]; omega)]
      · intro x
        show rd (wr zf.rson p r) x = _
        rw [rd_wr' _ _ _ _ (by rw [tf.sz_rson]; omega)]
      · intro x
        by_cases h : x = r
        · simp only [if_pos h]; exact hg.2.symm
        · simp only [if_neg h]
    · intro x _ hxr h
      have h' : rd (wr zf.dad r p) x ≠ 2048 := h
      rw [rd_wr' _ _ _ _ (by rw [tf.sz_dad]; omega), if_neg hxr, a.dad] at h'
      exact h'
  | left zf p a b hp hnil e =>
    subst e
    have tf := t1.ofSame a
    refine ⟨fun x => if x = r then rank p + 1 else rank x,
      ⟨by simp [attachL, tf.sz_dad], by simp [attachL, tf.sz_lson], tf.sz_rson, ?_⟩, ?_, a.textBuf.trans tbe,
      (b.congr (z' := attachL zf r p) rfl rfl rfl).mono gmono⟩
    · refine attachL_inv tf.f r p hr (by rw [a.dad]; exact hdr) (by rw [a.lson]; exact hlr)
        (by rw [a.rson]; exact hrr) hp.1 (by rw [a.dad]; exact hp.2.1) (by rw [a.lson]; exact hnil) _ _ _ _ _
        ?_ ?_ (fun _ => rfl) ?_ (fun _ => rfl)
      · intro x
        show rd (wr zf.dad r p) x = _
        rw [rd_wr' _ _ _ _ (by rw [tf.sz_dad]; omega)]
      · intro x
        show rd (wr zf.lson p r) x = _
        rw [rd_wr' _ _ _ _ (by rw [tf.sz_lson]; have := hp.1; omega)]
      · intro x
        by_cases h : x = r
        · simp only [if_pos h]; exact hp.2.2.symm
        · simp only [if_neg h]
    · intro x _ hxr h
      have h' : rd (wr zf.dad r p) x ≠ 2048 := h
      rw [rd_wr' _ _ _ _ (by rw [tf.sz_dad]; omega), if_neg hxr, a.dad] at h'
      exact h'
  | replace zf p a b hp e =>
    subst e
    have tf := t1.ofSame a
    have hdp : rd zf.dad p ≠ 2048 := by rw [a.dad]; exact hp.2.1
    have hdr' : rd zf.dad r = 2048 := by rw [a.dad]; exact hdr
    obtain ⟨f1, f2, f3, f4, f5⟩ := tf.live_facts p hp.1 hdp
    have hpr : p ≠ r := fun h => by rw [h] at hdp; exact hdp hdr'
    have hl : rd zf.lson p < 2049 ∧ p ≠ rd zf.lson p := by
      by_cases h : rd zf.lson p = 2048
      · have := hp.1; omega
      · obtain ⟨x1, x2, x3, -⟩ := f4 h; exact ⟨by omega, fun e => x3 e.symm⟩
    have hrr' : rd zf.rson p < 2049 ∧ p ≠ rd zf.rson p := by
      by_cases h : rd zf.rson p = 2048
      · have := hp.1; omega
      · obtain ⟨x1, x2, x3, -⟩ := f5 h; exact ⟨by omega, fun e => x3 e.symm⟩
    have hdne : rd zf.dad p ≠ r := by
      intro h
      obtain ⟨u1, -⟩ := tf.f.up p hp.1 hdp
      rw [h] at u1
      rcases u1 with u | u
      · omega
      · exact u.2 hdr'
    have had : zf.dad = z.dad := a.dad
    have rs := replaceNode_spec zf r p tf.sz_dad tf.sz_lson tf.sz_rson hr hp.1 hpr hl.1 hrr'.1 hl.2 hrr'.2 f1 hdne f3
    obtain ⟨g1, g2, g3⟩ := replaceNode_frame zf r p
    refine ⟨fun x => if x = r then rank p else rank x,
      ⟨rs.sz_dad.trans tf.sz_dad, rs.sz_lson.trans tf.sz_lson, rs.sz_rson.trans tf.sz_rson, ?_⟩, ?_,
      g1.trans (a.textBuf.trans tbe), (b.congr g2 g3 g1).mono gmono⟩
    · have hk : ∀ x, (fun x => if x = r then c else kl x) x =
          if x = r then (fun x => if x = r then c else kl x) p else (fun x => if x = r then c else kl x) x := by
        intro x
        by_cases h : x = r
        · simp only [if_pos h]; simp only [if_neg hpr]; exact hp.2.2.symm ▸ (by simp only [if_neg hpr])
        · simp only [if_neg h]
      by_cases hs : rd zf.rson (rd zf.dad p) = p
      · obtain ⟨r1, r2⟩ := rs.sideR hs
        exact replaceR_inv tf.f p r hp.1 hdp hr hdr' hs _ _ _ _ _ rs.dad r2 r1 hk (fun _ => rfl)
      · obtain ⟨r1, r2⟩ := rs.sideL hs
        exact replaceL_inv tf.f p r hp.1 hdp hr hdr' hs _ _ _ _ _ rs.dad r1 r2 hk (fun _ => rfl)
    · intro x hx hxr h
      rw [rs.dad x] at h
      by_cases h1 : x = p
      · rw [h1, ← had]; exact hdp
      · rw [if_neg h1] at h
        by_cases h2 : x = rd zf.rson p
        · have := (f5 (by rw [← h2]; omega)).2.1
          rw [← had, h2, this]; have := hp.1; omega
        · rw [if_neg h2] at h
          by_cases h3 : x = rd zf.lson p
          · have := (f4 (by rw [← h3]; omega)).2.1
            rw [← had, h3, this]; have := hp.1; omega
          · rw [if_neg h3, if_neg hxr] at h
            rw [← had]; exact h

/-! ### the descent of `insertNode` never runs out of fuel -/

/-- the descent ended by attaching `r` or by replacing a node — not by exhausting its loop bound -/
def Ended (r p0 : Nat) (G : Nat → Prop) (z res : Tree) : Prop :=
  ∃ zf p, SameArr z zf ∧
    (((p = p0 ∨ G p) ∧ res = attachR zf r p) ∨ (G p ∧ res = attachL zf r p) ∨ (G p ∧ res = replaceNode zf r p))

theorem Ended.ofSame {r p0 : Nat} {G : Nat → Prop} {z z1 res : Tree} (s : SameArr z z1)
    (e : Ended r p0 G z1 res) : Ended r p0 G z res := by
  obtain ⟨zf, p, a, h⟩ := e
  exact ⟨zf, p, s.trans a, h⟩

/-- where the descent stands: at the root with the full loop bound, or at a node with the list `vis` of
the nodes passed so far (all of smaller rank) -/
def Stand (p0 : Nat) (G : Nat → Prop) (rank : Nat → Nat) (p : Nat) (cmp : Int) (fuel : Nat) (vis : List Nat) : Prop :=
  ((p = p0 ∧ cmp ≥ 0 ∧ vis = [] ∧ 2050 ≤ fuel) ∨
    (G p ∧ (∀ y ∈ vis, rank y < rank p) ∧ 2049 ≤ vis.length + fuel)) ∧
  vis.Nodup ∧ ∀ y ∈ vis, y < 2048

theorem descent_next {p0 : Nat} {G : Nat → Prop} {rank : Nat → Nat} {z : Tree} {p : Nat} {cmp : Int} {n : Nat}
    {vis : List Nat}
    (hR : ∀ a, (a = p0 ∨ G a) → rd z.rson a ≠ NIL → G (rd z.rson a) ∧ (G a → rank a < rank (rd z.rson a)))
    (hL : ∀ a, G a → rd z.lson a ≠ NIL → G (rd z.lson a) ∧ rank a < rank (rd z.lson a))
    (hG : ∀ q, G q → q < 2048) (st : Stand p0 G rank p cmp (n + 1) vis) (q : Nat)
    (hs : (if cmp ≥ 0 then (if rd z.rson p ≠ NIL then some (rd z.rson p) else none)
       else (if rd z.lson p ≠ NIL then some (rd z.lson p) else none)) = some q) (cmp' : Int) :
    G q ∧ ∃ vis' : List Nat, Stand p0 G rank q cmp' n vis' := by
  obtain ⟨hp, hv⟩ := st
  have hq : G q ∧ (G p → rank p < rank q) := by
    by_cases hc : cmp ≥ 0
    · rw [if_pos hc] at hs
      by_cases h : rd z.rson p ≠ NIL
      · rw [if_pos h] at hs
        injection hs with e
        subst e
        exact hR p (hp.elim (fun h => Or.inl h.1) (fun h => Or.inr h.1)) h
      · rw [if_neg h] at hs; cases hs
    · rw [if_neg hc] at hs
      have hg : G p := hp.elim (fun h => absurd h.2.1 hc) (fun h => h.1)
      by_cases h : rd z.lson p ≠ NIL
      · rw [if_pos h] at hs
        injection hs with e
        subst e
        exact ⟨(hL p hg h).1, fun _ => (hL p hg h).2⟩
      · rw [if_neg h] at hs; cases hs
  refine ⟨hq.1, ?_⟩
  rcases hp with ⟨_, _, h3, h4⟩ | ⟨g, h2, h3⟩
  · refine ⟨[], Or.inr ⟨hq.1, ?_, ?_⟩, List.nodup_nil, ?_⟩
    · intro y hy; cases hy
    · simp only [List.length_nil]; omega
    · intro y hy; cases hy
  · have hlt := hq.2 g
    refine ⟨p :: vis, Or.inr ⟨hq.1, ?_, by simp only [List.length_cons]; omega⟩, ?_, ?_⟩
    · intro y hy
      rcases List.mem_cons.mp hy with rfl | hy
      · exact hlt
      · have := h2 y hy; omega
    · rw [List.nodup_cons]
      exact ⟨fun hx => by have := h2 p hx; omega, hv.1⟩
    · intro y hy
      rcases List.mem_cons.mp hy with rfl | hy
      · exact hG _ g
      · exact hv.2 y hy

theorem insertLoop_ends (r p0 : Nat) (G : Nat → Prop) (rank : Nat → Nat) (z : Tree) (p : Nat) (cmp : Int)
    (fuel : Nat) (vis : List Nat)
    (hR : ∀ a, (a = p0 ∨ G a) → rd z.rson a ≠ NIL → G (rd z.rson a) ∧ (G a → rank a < rank (rd z.rson a)))
    (hL : ∀ a, G a → rd z.lson a ≠ NIL → G (rd z.lson a) ∧ rank a < rank (rd z.lson a))
    (hG : ∀ q, G q → q < 2048) (st : Stand p0 G rank p cmp fuel vis) :
    Ended r p0 G z (insertLoop z r p cmp fuel) := by
  fun_induction insertLoop z r p cmp fuel generalizing vis with
  | case1 z p cmp =>
    exfalso
    obtain ⟨hp, hv⟩ := st
    have := nodup_bound 2048 vis hv.1 hv.2
    rcases hp with h | h <;> omega
  | case2 z p cmp n step hs hc =>
    exact ⟨z, p, SameArr.refl z, Or.inl ⟨st.1.elim (fun h => Or.inl h.1) (fun h => Or.inr h.1), rfl⟩⟩
  | case3 z p cmp n step hs hc =>
    exact ⟨z, p, SameArr.refl z, Or.inr (Or.inl ⟨st.1.elim (fun h => absurd h.2.1 hc) (fun h => h.1), rfl⟩)⟩
  | case4 z p cmp n step q hs i cmp' hcf hi pos hgt z1 hF =>
    obtain ⟨g, -⟩ := descent_next hR hL hG st q hs cmp'
    exact ⟨z1, q, ⟨rfl, rfl, rfl, rfl⟩, Or.inr (Or.inr ⟨g, rfl⟩)⟩
  | case5 z p cmp n step q hs i cmp' hcf hi pos hgt z1 hF ih =>
    obtain ⟨-, vis', st'⟩ := descent_next hR hL hG st q hs cmp'
    exact Ended.ofSame (z1 := z1) ⟨rfl, rfl, rfl, rfl⟩ (ih vis' hR hL st')
  | case6 z p cmp n step q hs i cmp' hcf hi pos hle heq ih =>
    obtain ⟨-, vis', st'⟩ := descent_next hR hL hG st q hs cmp'
    exact Ended.ofSame (z1 := { z with matchPosition := pos }) ⟨rfl, rfl, rfl, rfl⟩ (ih vis' hR hL st')
  | case7 z p cmp n step q hs i cmp' hcf hi pos hle hne ih =>
    obtain ⟨-, vis', st'⟩ := descent_next hR hL hG st q hs cmp'
    exact ih vis' hR hL st'
  | case8 z p cmp n step q hs i cmp' hcf hi ih =>
    obtain ⟨-, vis', st'⟩ := descent_next hR hL hG st q hs cmp'
    exact ih vis' hR hL st'

/-- **The loop bound `N + 2` of `InsertNode` is never reached on a well-formed forest**: the descent passes
nodes of strictly increasing rank, hence pairwise distinct ones (pigeonhole), and ends by attaching `r` or by
replacing a node — afterwards `r` is a live node. (In the Go code: the `for` loop terminates.) -/
theorem insertNode_registers {z : Tree} {kl rank : Nat → Nat} (t : TreeInv z kl rank) (r : Nat) (hr : r < 2048)
    (hdr : rd z.dad r = 2048) : rd (insertNode z r).dad r ≠ 2048 := by
  have hc : (z.tb r).toNat < 256 := (z.tb r).toNat_lt
  generalize hcdef : (z.tb r).toNat = c at hc
  obtain ⟨t1, hlr, hrr⟩ := clearNode_inv t r hr hdr kl (fun _ _ => rfl)
  have hp0 : N + 1 + c = 2049 + c := by simp only [N_eq]
  have hR : ∀ a, (a = N + 1 + c ∨ (a < 2048 ∧ rd z.dad a ≠ 2048)) → rd (clearNode z r).rson a ≠ NIL →
      ((rd (clearNode z r).rson a) < 2048 ∧ rd z.dad (rd (clearNode z r).rson a) ≠ 2048) ∧
      ((a < 2048 ∧ rd z.dad a ≠ 2048) → rank a < rank (rd (clearNode z r).rson a)) := by
    intro a ha hne
    have hg : GoodF (rd z.dad) a := by
      rcases ha with h | h
      · rw [h, hp0]; exact Or.inl ⟨by omega, by omega⟩
      · exact Or.inr h
    obtain ⟨d1, d2, -⟩ := t1.f.down_r a hg hne
    have d2' : rd z.dad (rd (clearNode z r).rson a) = a := d2
    have hlive : rd z.dad (rd (clearNode z r).rson a) ≠ 2048 := by
      rw [d2']; rcases hg with h | h <;> omega
    refine ⟨⟨d1, hlive⟩, fun _ => ?_⟩
    have := (t1.f.up _ d1 hlive).2.2.1
    have e : rd (clearNode z r).dad (rd (clearNode z r).rson a) = a := d2
    rw [e] at this
    exact this
  have hL : ∀ a, (a < 2048 ∧ rd z.dad a ≠ 2048) → rd (clearNode z r).lson a ≠ NIL →
      ((rd (clearNode z r).lson a) < 2048 ∧ rd z.dad (rd (clearNode z r).lson a) ≠ 2048) ∧
      rank a < rank (rd (clearNode z r).lson a) := by
    intro a ha hne
    obtain ⟨d1, d2, -⟩ := t1.f.down_l a ha.1 ha.2 hne
    have d2' : rd z.dad (rd (clearNode z r).lson a) = a := d2
    have hlive : rd z.dad (rd (clearNode z r).lson a) ≠ 2048 := by
      rw [d2']; have := ha.1; omega
    refine ⟨⟨d1, hlive⟩, ?_⟩
    have := (t1.f.up _ d1 hlive).2.2.1
    have e : rd (clearNode z r).dad (rd (clearNode z r).lson a) = a := d2
    rw [e] at this
    exact this
  have e := insertLoop_ends r (N + 1 + c) (fun q => q < 2048 ∧ rd z.dad q ≠ 2048) rank (clearNode z r)
    (N + 1 + c) 1 (N + 2) [] hR hL (fun q h => h.1)
    ⟨Or.inl ⟨rfl, by decide, rfl, by simp only [N_eq]; omega⟩, List.nodup_nil, fun _ h => nomatch h⟩
  rw [insertNode_def, hcdef]
  generalize insertLoop (clearNode z r) r (N + 1 + c) 1 (N + 2) = res at e
  obtain ⟨zf, p, a, h⟩ := e
  have tf := t1.ofSame a
  have had : zf.dad = z.dad := a.dad
  rcases h with ⟨hp, e⟩ | ⟨hp, e⟩ | ⟨hp, e⟩
  · subst e
    show rd (wr zf.dad r p) r ≠ 2048
    rw [rd_wr' _ _ _ _ (by rw [tf.sz_dad]; omega), if_pos rfl]
    rcases hp with h | h
    · rw [h, hp0]; omega
    · have := h.1; omega
  · subst e
    show rd (wr zf.dad r p) r ≠ 2048
    rw [rd_wr' _ _ _ _ (by rw [tf.sz_dad]; omega), if_pos rfl]
    have := hp.1; omega
  · subst e
    have hdp : rd zf.dad p ≠ 2048 := by rw [had]; exact hp.2
    have hdr' : rd zf.dad r = 2048 := by rw [had]; exact hdr
    obtain ⟨f1, f2, f3, f4, f5⟩ := tf.live_facts p hp.1 hdp
    have hpr : p ≠ r := fun h => by rw [h] at hdp; exact hdp hdr'
    have hl : rd zf.lson p < 2049 ∧ p ≠ rd zf.lson p ∧ r ≠ rd zf.lson p := by
      by_cases h : rd zf.lson p = 2048
      · have := hp.1; omega
      · obtain ⟨x1, x2, x3, -⟩ := f4 h
        exact ⟨by omega, fun e => x3 e.symm, fun e => by rw [← e, hdr'] at x2; have := hp.1; omega⟩
    have hrr' : rd zf.rson p < 2049 ∧ p ≠ rd zf.rson p ∧ r ≠ rd zf.rson p := by
      by_cases h : rd zf.rson p = 2048
      · have := hp.1; omega
      · obtain ⟨x1, x2, x3, -⟩ := f5 h
        exact ⟨by omega, fun e => x3 e.symm, fun e => by rw [← e, hdr'] at x2; have := hp.1; omega⟩
    have hdne : rd zf.dad p ≠ r := by
      intro h
      obtain ⟨u1, -⟩ := tf.f.up p hp.1 hdp
      rw [h] at u1
      rcases u1 with u | u
      · omega
      · exact u.2 hdr'
    have rs := replaceNode_spec zf r p tf.sz_dad tf.sz_lson tf.sz_rson hr hp.1 hpr hl.1 hrr'.1 hl.2.1 hrr'.2.1
      f1 hdne f3
    rw [rs.dad r, if_neg (fun h => hpr h.symm), if_neg hrr'.2.2, if_neg hl.2.2, if_pos rfl]
    exact hdp

end Wl2k.Lzhuf
