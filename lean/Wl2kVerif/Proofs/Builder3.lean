import Wl2kVerif.Proofs.Builder2
import Wl2kVerif.Msg.Built
namespace Wl2k.Msg
open Wl2k Wl2k.Textproto Wl2k.Fmt Wl2k.Str

/-! ### canonical keys -/

def canonByte (upper : Bool) (c : UInt8) : UInt8 :=
  if upper && 97 ≤ c && c ≤ 122 then c - 32 else if !upper && 65 ≤ c && c ≤ 90 then c + 32 else c

theorem canonLoop_cons (u : Bool) (c : UInt8) (t : Bytes) :
    canonLoop u (c :: t) = canonByte u c :: canonLoop (canonByte u c == 45) t := rfl

theorem canonByte_facts : ∀ n, n < 256 → ∀ u : Bool,
    (validFieldByte (UInt8.ofNat n) = true → validFieldByte (canonByte u (UInt8.ofNat n)) = true) ∧
    canonByte u (canonByte u (UInt8.ofNat n)) = canonByte u (UInt8.ofNat n) := by decide +kernel

theorem canonByte_valid (u : Bool) (c : UInt8) (h : validFieldByte c = true) : validFieldByte (canonByte u c) = true := by
  have := (canonByte_facts c.toNat c.toNat_lt u).1; simp only [UInt8.ofNat_toNat] at this; exact this h
theorem canonByte_idem (u : Bool) (c : UInt8) : canonByte u (canonByte u c) = canonByte u c := by
  have := (canonByte_facts c.toNat c.toNat_lt u).2; simpa using this

theorem canonLoop_valid : ∀ (s : Bytes) (u : Bool), s.all validFieldByte = true → (canonLoop u s).all validFieldByte = true
  | [], _, _ => rfl
  | c :: t, u, h => by
    simp only [List.all_cons, Bool.and_eq_true] at h
    rw [canonLoop_cons]
    simp only [List.all_cons, Bool.and_eq_true]
    exact ⟨canonByte_valid u c h.1, canonLoop_valid t _ h.2⟩

theorem canonLoop_idem : ∀ (s : Bytes) (u : Bool), canonLoop u (canonLoop u s) = canonLoop u s
  | [], _ => rfl
  | c :: t, u => by
    rw [canonLoop_cons, canonLoop_cons, canonByte_idem, canonLoop_idem t]

theorem keyOK_canonKey {k : Bytes} (hne : k ≠ []) (hv : k.all validFieldByte = true) : keyOK (canonKey k) = true := by
  simp only [canonKey, hv, if_true, keyOK, Bool.and_eq_true, beq_iff_eq]
  refine ⟨⟨?_, canonLoop_valid k true hv⟩, canonLoop_idem k true⟩
  cases k with
  | nil => exact absurd rfl hne
  | cons a t => simp [canonLoop_cons]

theorem xKey_facts {k : Bytes} (h : xKey k = true) :
    keyOK (canonKey k) = true ∧ isMidFold (canonKey k) = false ∧ canonKey k ≠ kBody ∧ canonKey k ≠ kFile ∧ canonKey k ≠ kDate := by
  obtain ⟨a, r, rfl⟩ : ∃ a r, k = a :: 45 :: r := by
    cases k with
    | nil => simp [xKey] at h
    | cons a t =>
      cases t with
      | nil => simp [xKey] at h
      | cons b r =>
        by_cases hb : b = 45
        · subst hb; exact ⟨a, r, rfl⟩
        · unfold xKey at h; split at h
          · rename_i heq; simp only [List.cons.injEq] at heq; exact absurd heq.2.1 hb
          · simp at h
  · simp only [xKey, Bool.and_eq_true, Bool.or_eq_true, beq_iff_eq] at h
    have hall : (a :: 45 :: r).all validFieldByte = true := by
      simp only [List.all_cons, Bool.and_eq_true]
      refine ⟨?_, by decide, h.2⟩
      rcases h.1 with rfl | rfl <;> decide
    have hk := keyOK_canonKey (k := a :: 45 :: r) (by simp) hall
    have hshape : ∃ r', canonKey (a :: 45 :: r) = 88 :: 45 :: r' := by
      simp only [canonKey, hall, if_true, canonLoop_cons]
      rcases h.1 with rfl | rfl <;> exact ⟨_, rfl⟩
    obtain ⟨r', hr'⟩ := hshape
    refine ⟨hk, ?_, ?_, ?_, ?_⟩
    · rw [hr']; simp [isMidFold, Str.toLower, lowerByte]
    · rw [hr']; simp [kBody]
    · rw [hr']; simp [kFile]
    · rw [hr']; simp [kDate]

/-! ### values -/

theorem graphic_byte_facts : ∀ n, n < 256 → (33 ≤ UInt8.ofNat n && UInt8.ofNat n ≤ 126) = true →
    validValueByte (UInt8.ofNat n) = true ∧ isASCIISpace (UInt8.ofNat n) = false ∧
    (33 ≤ upperByte (UInt8.ofNat n) && upperByte (UInt8.ofNat n) ≤ 126) = true := by decide +kernel

theorem graphic_byte {b : UInt8} (h : (33 ≤ b && b ≤ 126) = true) :
    validValueByte b = true ∧ isASCIISpace b = false ∧ (33 ≤ upperByte b && upperByte b ≤ 126) = true := by
  have := graphic_byte_facts b.toNat b.toNat_lt; simp only [UInt8.ofNat_toNat] at this; exact this h

theorem graphic_valueOK {s : Bytes} (h : graphic s = true) : valueOK s = true := by
  simp only [graphic, valueOK, List.all_eq_true] at h ⊢
  intro b hb; exact (graphic_byte (h b hb)).1

theorem graphic_trimmed {s : Bytes} (h : graphic s = true) : trimString s = s := by
  simp only [graphic, List.all_eq_true] at h
  apply trimString_of_ends
  · intro b hb; exact (graphic_byte (h b (List.mem_of_mem_head? hb))).2.1
  · intro b hb; exact (graphic_byte (h b (List.mem_of_mem_getLast? hb))).2.1

theorem graphic_toUpper {s : Bytes} (h : graphic s = true) : graphic (toUpper s) = true := by
  simp only [graphic, List.all_eq_true, toUpper, List.mem_map] at h ⊢
  rintro b ⟨c, hc, rfl⟩; exact (graphic_byte (h c hc)).2.2

theorem graphic_of_sub {s t : Bytes} (h : graphic s = true) (hsub : ∀ b ∈ t, b ∈ s) : graphic t = true := by
  simp only [graphic, List.all_eq_true] at h ⊢
  intro b hb; exact h b (hsub b hb)

theorem graphic_append {s t : Bytes} (h1 : graphic s = true) (h2 : graphic t = true) : graphic (s ++ t) = true := by
  simp only [graphic, List.all_append, Bool.and_eq_true] at *; exact ⟨h1, h2⟩

theorem graphic_addrSplit {a : Bytes} (h : graphic a = true) :
    graphic (addrSplit a).proto = true ∧ graphic (addrSplit a).addr = true := by
  unfold addrSplit
  split
  · rename_i p x hsp
    have h1 := (splitOn_parts 58 a p (by simp [hsp])).2
    have h2 := (splitOn_parts 58 a x (by simp [hsp])).2
    exact ⟨graphic_of_sub h h1, graphic_of_sub h h2⟩
  · split
    · rename_i p0 p1 more hsp
      have h1 := (splitOn_parts 64 a p0 (by simp [hsp])).2
      split
      · exact ⟨rfl, graphic_of_sub h h1⟩
      · exact ⟨(by decide : graphic smtp = true), h⟩
    · exact ⟨rfl, h⟩

theorem graphic_addr {a : Bytes} (h : graphic a = true) : graphic (addrFromString a).toBytes = true := by
  obtain ⟨h1, h2⟩ := graphic_addrSplit h
  unfold addrFromString
  simp only
  split
  · rename_i hp
    simp only [Address.toBytes, hp, if_true]
    exact graphic_toUpper h2
  · rename_i hp
    simp only [Address.toBytes, hp]
    exact graphic_append (graphic_append h1 (by decide)) h2

end Wl2k.Msg
