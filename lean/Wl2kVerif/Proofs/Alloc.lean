import Wl2kVerif.Proofs.Huff6
import Wl2kVerif.Proofs.Bits
/-
Bounded expansion of the LZHUF decompressor (C03, "memory in proportion to the bytes received").

Every token the decode loop of `Read` produces is paid for with input bits: a literal (1 byte out) costs
at least the 1 bit of its Huffman code (the root of a well-formed tree is an internal node), a match
(at most `F = 60` bytes out) costs at least 1 + 8 + 1 = 10 bits (code, the 8 table bits of the position,
at least `dLen − 2 ≥ 1` verbatim bits).  When the bit source runs dry the bit reader sets `berr`, the
token in progress is still completed with zero bits (at most 60 bytes), and the loop stops for good.
Potential: `pos + 6 · (unread bits) ≤ 48 · |body| (+ 60 once berr is set)`.
-/
namespace Wl2k.Lzhuf
open Wl2k Wl2k.Bits

/-- the number of input bits the reader has not consumed yet (`= (unreadBits d).length`) -/
def avail (d : Reader) : Nat := d.bbits + 8 * (d.src.size - d.bpos)

theorem unreadBits_length (d : Reader) : (unreadBits d).length = avail d := by
  simp [unreadBits, bytesBits_length, avail]

/-! ### the bit layer: what a step costs -/

/-- `Spent d d' k`: a run of the bit layer from `d` to `d'` either consumed at least `k` bits or hit the
end of the source (`berr`, which is never reset); it never gives bits back. -/
structure Spent (d d' : Reader) (k : Nat) : Prop where
  rinv : RInv d'
  src : d'.src = d.src
  mono : avail d' ≤ avail d
  cost : d'.berr = true ∨ avail d' + k ≤ avail d
  berr : d.berr = true → d'.berr = true

theorem Spent.refl (d : Reader) (inv : RInv d) : Spent d d 0 :=
  ⟨inv, rfl, Nat.le_refl _, Or.inr (Nat.le_refl _), id⟩

theorem Spent.trans {a b c : Reader} {k k' : Nat} (h1 : Spent a b k) (h2 : Spent b c k') :
    Spent a c (k + k') := by
  refine ⟨h2.rinv, h2.src.trans h1.src, Nat.le_trans h2.mono h1.mono, ?_, fun h => h2.berr (h1.berr h)⟩
  rcases h2.cost with h | h
  · exact Or.inl h
  · rcases h1.cost with h' | h'
    · exact Or.inl (h2.berr h')
    · exact Or.inr (by omega)

theorem Spent.weaken {d d' : Reader} {k k' : Nat} (h : Spent d d' k) (hk : k' ≤ k) : Spent d d' k' :=
  ⟨h.rinv, h.src, h.mono, h.cost.imp id (fun h => by omega), h.berr⟩

theorem Spent.withH {d d' : Reader} {k : Nat} (sp : Spent d d' k) (h : Huff) : Spent d { d' with h := h } k :=
  ⟨⟨sp.rinv.bbits_lt, sp.rinv.bpos_le, sp.rinv.pulled_le⟩, sp.src, sp.mono, sp.cost, sp.berr⟩

/-- `ReadBits(n)` consumes exactly `n` bits, or fails (setting `berr`) and consumes none. -/
theorem readBits_spent (d : Reader) (n : Nat) (h1 : 1 ≤ n) (h8 : n ≤ 8) (inv : RInv d) :
    Spent d (d.readBits n).1 n := by
  by_cases hs : (unreadBits d).length < n
  · rw [readBits_eof d n h8 inv hs]
    exact ⟨⟨inv.bbits_lt, inv.bpos_le, inv.pulled_le⟩, rfl, Nat.le_refl _, Or.inl rfl, fun _ => rfl⟩
  · have hsplit : unreadBits d = (unreadBits d).take n ++ (unreadBits d).drop n :=
      (List.take_append_drop n _).symm
    obtain ⟨u, _, i, e, _, f⟩ := readBits_spec d n h1 h8 inv _ _
      (by rw [List.length_take]; omega) hsplit
    have hl := congrArg List.length u
    rw [unreadBits_length, List.length_drop, unreadBits_length] at hl
    rw [unreadBits_length] at hs
    exact ⟨i, f.2.2.1, by omega, Or.inr (by omega), fun hb => by rw [e, hb]⟩

theorem takeBits_spent (n : Nat) : ∀ (d : Reader), RInv d → Spent d (d.takeBits n).1 n := by
  induction n with
  | zero => intro d inv; exact Spent.refl d inv
  | succ n ih =>
    intro d inv
    have s1 := readBits_spent d 1 (by omega) (by omega) inv
    have s2 := ih (d.readBits 1).1 s1.rinv
    exact (Spent.trans s1 s2).weaken (by omega)

theorem lowBits_spent (j : Nat) : ∀ (d : Reader) (i : Nat), RInv d → Spent d (d.lowBits i j).1 j := by
  induction j with
  | zero => intro d i inv; exact Spent.refl d inv
  | succ j ih =>
    intro d i inv
    have s1 := readBits_spent d 1 (by omega) (by omega) inv
    have s2 := ih (d.readBits 1).1 ((i <<< 1) + (d.readBits 1).2) s1.rinv
    exact (Spent.trans s1 s2).weaken (by omega)

/-! ### the Huffman layer: every code has at least one bit -/

/-- **The walk from the root reads at least one bit**: the root of a well-formed tree is an internal
node (`HuffS.son_root`: the tree has `NCHAR ≥ 2` leaves). -/
theorem walk_root_spent (d : Reader) (s : HuffS d.h) (inv : RInv d) :
    Spent d (d.walk (rd d.h.son R) (T + 1)).1 1 := by
  have r := s.son_root
  have q := s.son_int R (by simp [R_eq, T_eq]) r
  have hb := Reader.readBits_one_le d
  have e : (d.readBits 1).1.h = d.h := Reader.readBits_h d 1
  have hlt : rd d.h.son R + (d.readBits 1).2 < T := by simp only [R_eq, T_eq] at *; omega
  have hin : rd d.h.son R + (d.readBits 1).2 < d.h.son.size := by rw [s.sz_son]; exact hlt
  have hw := Reader.walk_succ d (rd d.h.son R) T r hin
  rw [hw]
  generalize hc' : rd d.h.son (rd d.h.son R + (d.readBits 1).2) = c'
  have s1 := readBits_spent d 1 (by omega) (by omega) inv
  obtain ⟨n, _, _, b3, _, _⟩ := Reader.walk_total_aux T (d.readBits 1).1 c' (by rw [e]; exact s)
    (by intro h'; have := s.son_int _ hlt (by rw [hc']; exact h'); rw [hc'] at this; omega)
    (by intro h'; have := s.son_leaf _ hlt (by rw [hc']; exact h'); rw [hc'] at this
        exact ⟨this.1, by simp [T_eq]⟩)
  rw [b3]
  exact (Spent.trans s1 (takeBits_spent n _ s1.rinv)).weaken (by omega)

/-- **`decodeChar` costs at least one bit** (or ends the source), returns a symbol and keeps the tree
well-formed. -/
theorem decodeChar_spent (d : Reader) (w : HuffWF d.h) (inv : RInv d) :
    Spent d d.decodeChar.1 1 ∧ d.decodeChar.2 < NCHAR ∧ HuffWF d.decodeChar.1.h := by
  have sp := Reader.decodeChar_spec d w
  refine ⟨?_, sp.1, sp.2.1⟩
  have ws := walk_root_spent d w.toHuffS inv
  have e : d.decodeChar.1 = { (d.walk (rd d.h.son R) (T + 1)).1 with
      h := update (d.walk (rd d.h.son R) (T + 1)).1.h ((d.walk (rd d.h.son R) (T + 1)).2 - T) } := rfl
  rw [e]
  exact ws.withH _

theorem Reader.readBits_eight_lt (d : Reader) : (d.readBits 8).2 < 256 := by
  rw [Reader.readBits_eq]
  split
  · exact Nat.zero_lt_succ _
  · show (_ &&& ((1 <<< (UInt64.ofNat 8)) - 1)).toNat < 256
    rw [UInt64.toNat_and]
    have hm : (((1 : UInt64) <<< (UInt64.ofNat 8)) - 1).toNat = 255 := by decide
    rw [hm]
    exact Nat.lt_succ_of_le Nat.and_le_right

/-- every entry of the position-length table is at least 3: at least one verbatim bit follows the 8 -/
theorem dLen_ge : ∀ i, i < 256 → 3 ≤ tbl Gen.dLen i := by decide +kernel

/-- **`decodePosition` costs at least nine bits** (or ends the source). -/
theorem decodePosition_spent (d : Reader) (inv : RInv d) : Spent d d.decodePosition.1 9 := by
  have e : d.decodePosition.1 =
      ((d.readBits 8).1.lowBits (d.readBits 8).2 (tbl Gen.dLen (d.readBits 8).2 - 2)).1 := rfl
  rw [e]
  have s1 := readBits_spent d 8 (by omega) (by omega) inv
  have s2 := lowBits_spent (tbl Gen.dLen (d.readBits 8).2 - 2) (d.readBits 8).1 (d.readBits 8).2 s1.rinv
  have := dLen_ge _ (Reader.readBits_eight_lt d)
  exact (Spent.trans s1 s2).weaken (by omega)

/-! ### the byte layer does not touch the bit layer -/

/-- `d'` has the same Huffman and bit-reader state as `d` -/
structure SameBits (d d' : Reader) : Prop where
  h : d'.h = d.h
  src : d'.src = d.src
  bpos : d'.bpos = d.bpos
  bbits : d'.bbits = d.bbits
  pulled : d'.pulled = d.pulled
  berr : d'.berr = d.berr

theorem SameBits.refl (d : Reader) : SameBits d d := ⟨rfl, rfl, rfl, rfl, rfl, rfl⟩

theorem SameBits.trans {a b c : Reader} (h1 : SameBits a b) (h2 : SameBits b c) : SameBits a c :=
  ⟨h2.h.trans h1.h, h2.src.trans h1.src, h2.bpos.trans h1.bpos, h2.bbits.trans h1.bbits,
   h2.pulled.trans h1.pulled, h2.berr.trans h1.berr⟩

theorem SameBits.avail {d d' : Reader} (sb : SameBits d d') : avail d' = avail d := by
  unfold Lzhuf.avail; rw [sb.src, sb.bpos, sb.bbits]

theorem SameBits.rinv {d d' : Reader} (sb : SameBits d d') (inv : RInv d) : RInv d' :=
  ⟨by rw [sb.bbits]; exact inv.bbits_lt, by rw [sb.bpos, sb.pulled]; exact inv.bpos_le,
   by rw [sb.pulled, sb.src]; exact inv.pulled_le⟩

/-- **a match produces at most its length**: `copyMatch … j` advances `pos` by at most `j` and leaves
the bit layer alone -/
theorem copyMatch_bits (d : Reader) (i : Nat) (out : Bytes) (room k j : Nat) :
    SameBits d (d.copyMatch i out room k j).1 ∧ (d.copyMatch i out room k j).1.pos ≤ d.pos + j := by
  induction j generalizing d out room k with
  | zero => unfold Reader.copyMatch; exact ⟨SameBits.refl d, Nat.le_refl _⟩
  | succ n ih =>
    unfold Reader.copyMatch
    by_cases hp : (d.pos : Int) ≥ d.size
    · simp only [hp, if_true]
      exact ⟨⟨rfl, rfl, rfl, rfl, rfl, rfl⟩, Nat.le_add_right _ _⟩
    · simp only [hp, if_false]
      by_cases hr : room > 0
      · simp only [hr, if_true]
        obtain ⟨i1, i2⟩ := ih (d.putOne (d.textBuf.getD ((i + k) % N) 0)) (d.textBuf.getD ((i + k) % N) 0 :: out)
          (room - 1) (k + 1)
        refine ⟨SameBits.trans (b := d.putOne (d.textBuf.getD ((i + k) % N) 0)) ⟨rfl, rfl, rfl, rfl, rfl, rfl⟩ i1, ?_⟩
        have : (d.putOne (d.textBuf.getD ((i + k) % N) 0)).pos = d.pos + 1 := rfl
        omega
      · simp only [hr, if_false]
        obtain ⟨i1, i2⟩ := ih (({ d with pending := d.pending ++ [d.textBuf.getD ((i + k) % N) 0] } : Reader).putOne
          (d.textBuf.getD ((i + k) % N) 0)) out room (k + 1)
        refine ⟨SameBits.trans (b := ({ d with pending := d.pending ++ [d.textBuf.getD ((i + k) % N) 0] } : Reader).putOne
          (d.textBuf.getD ((i + k) % N) 0)) ⟨rfl, rfl, rfl, rfl, rfl, rfl⟩ i1, ?_⟩
        have : (({ d with pending := d.pending ++ [d.textBuf.getD ((i + k) % N) 0] } : Reader).putOne
          (d.textBuf.getD ((i + k) % N) 0)).pos = d.pos + 1 := rfl
        omega

/-! ### the potential -/

/-- The allocation invariant: well-formed tree, bit-reader bookkeeping, and
`pos + 6·(unread bits) ≤ 48·|body|`, with a slack of one maximal match once the source has run dry. -/
structure AInv (d : Reader) : Prop where
  wf : HuffWF d.h
  rinv : RInv d
  pot : d.pos + 6 * avail d ≤ 48 * d.src.size + 60
  pot0 : d.berr = false → d.pos + 6 * avail d ≤ 48 * d.src.size

/-- changes outside the bit layer that do not move `pos` keep the invariant -/
theorem AInv.same {d d' : Reader} (a : AInv d) (sb : SameBits d d') (hp : d'.pos = d.pos) : AInv d' := by
  have := a.pot; have := a.pot0
  refine ⟨by rw [sb.h]; exact a.wf, sb.rinv a.rinv, ?_, ?_⟩
  · rw [hp, sb.avail, sb.src]; exact a.pot
  · rw [hp, sb.avail, sb.src, sb.berr]; exact a.pot0

/-- **One token.** From a state whose source has not run dry, a token that costs `k` bits (or runs the
source dry) and produces at most `L ≤ min (6k) 60` bytes keeps the invariant. -/
theorem AInv.token {d d2 d3 : Reader} {k L : Nat} (a : AInv d) (hb : d.berr = false)
    (sp : Spent d d2 k) (hp : d2.pos = d.pos) (sb : SameBits d2 d3) (w3 : HuffWF d3.h)
    (hpos : d3.pos ≤ d2.pos + L) (hL : L ≤ 6 * k) (hL60 : L ≤ 60) : AInv d3 ∧ d3.src = d.src := by
  have h0 := a.pot0 hb
  have hm := sp.mono
  have hs : d3.src = d.src := sb.src.trans sp.src
  refine ⟨⟨w3, sb.rinv sp.rinv, ?_, ?_⟩, hs⟩
  · rw [sb.avail, hs]; omega
  · intro hb3
    rw [sb.berr] at hb3
    rw [sb.avail, hs]
    rcases sp.cost with h | h
    · rw [h] at hb3; cases hb3
    · omega

/-- **The decode loop keeps the invariant** (any fuel, any room). -/
theorem fill_ainv : ∀ (fuel : Nat) (d : Reader) (out : Bytes) (room : Nat), AInv d →
    AInv (d.fill out room fuel).1 ∧ (d.fill out room fuel).1.src = d.src := by
  intro fuel
  induction fuel with
  | zero => intro d out room a; exact ⟨a, rfl⟩
  | succ fuel ih =>
    intro d out room a
    rw [Reader.fill]
    split
    · rename_i hc
      have hb : d.berr = false := by simpa using hc.2.1
      obtain ⟨sp1, hc1, w1⟩ := decodeChar_spent d a.wf a.rinv
      have f1 := decodeChar_frame d
      generalize d.decodeChar = p at sp1 hc1 w1 f1
      obtain ⟨d1, c⟩ := p
      simp only at sp1 hc1 w1 f1 ⊢
      split
      · have t := a.token hb sp1 f1.pos (d3 := d1.putOne (UInt8.ofNat c)) (L := 1)
          ⟨rfl, rfl, rfl, rfl, rfl, rfl⟩ w1 (Nat.le_refl _) (by omega) (by omega)
        obtain ⟨i1, i2⟩ := ih _ (UInt8.ofNat c :: out) (room - 1) t.1
        exact ⟨i1, i2.trans t.2⟩
      · have sp2 := decodePosition_spent d1 sp1.rinv
        have f2 := decodePosition_frame d1
        have e2 : d1.decodePosition.1.h = d1.h := Reader.decodePosition_h d1
        generalize d1.decodePosition = q at sp2 f2 e2
        obtain ⟨d2, pp⟩ := q
        simp only at sp2 f2 e2 ⊢
        have cb := copyMatch_bits d2 ((d2.r + 2 * N - pp - 1) % N) out room 0 (c - 255 + THRESHOLD)
        generalize d2.copyMatch ((d2.r + 2 * N - pp - 1) % N) out room 0 (c - 255 + THRESHOLD) = r at cb
        obtain ⟨d3, out3, room3, stop⟩ := r
        simp only at cb ⊢
        rw [NCHAR_eq] at hc1
        have t := a.token hb (Spent.trans sp1 sp2) (f2.pos.trans f1.pos) cb.1
          (by rw [cb.1.h, e2]; exact w1) cb.2 (by simp only [THRESHOLD]; omega) (by simp only [THRESHOLD]; omega)
        split
        · exact t
        · obtain ⟨i1, i2⟩ := ih d3 out3 room3 t.1
          exact ⟨i1, i2.trans t.2⟩
    · exact ⟨a, rfl⟩

theorem norm_ainv (d : Reader) (a : AInv d) : AInv d.norm ∧ d.norm.src = d.src := by
  unfold Reader.norm
  split
  · exact ⟨a.same ⟨rfl, rfl, rfl, rfl, rfl, rfl⟩ rfl, rfl⟩
  · exact ⟨a, rfl⟩

/-- **One `Read` keeps the invariant.** -/
theorem read_ainv (d : Reader) (m : Nat) (a : AInv d) : AInv (d.read m).1 ∧ (d.read m).1.src = d.src := by
  obtain ⟨n1, n2⟩ := norm_ainv d a
  rw [read_eq]
  split
  · exact ⟨n1, n2⟩
  · split
    · exact ⟨n1, n2⟩
    · obtain ⟨i1, i2⟩ := fill_ainv (m + 1) ({ d.norm with pending := d.norm.pending.drop m } : Reader)
        (d.norm.pending.take m).reverse (m - (d.norm.pending.take m).length)
        (n1.same ⟨rfl, rfl, rfl, rfl, rfl, rfl⟩ rfl)
      exact ⟨i1, i2.trans n2⟩

theorem readsWith_ainv (d : Reader) (ns : List Nat) (a : AInv d) :
    AInv (readsWith d ns).1 ∧ (readsWith d ns).1.src = d.src := by
  induction ns generalizing d with
  | nil => exact ⟨a, rfl⟩
  | cons m ns ih =>
    obtain ⟨r1, r2⟩ := read_ainv d m a
    obtain ⟨i1, i2⟩ := ih (d.read m).1 r1
    exact ⟨i1, i2.trans r2⟩

/-- the body of the stream is what follows the (2-byte CRC and) 4-byte size header -/
theorem new_src_size (crc16 : Bool) (s : Bytes) (d : Reader) (h : Reader.new crc16 s = .ok d) :
    d.src.size + 4 + (if crc16 then 2 else 0) = s.length := by
  unfold Reader.new at h
  simp only at h
  by_cases h1 : crc16 = true ∧ s.length < 2
  · rw [if_pos h1] at h; cases h
  · rw [if_neg h1] at h
    by_cases h2 : (s.drop (if crc16 = true then 2 else 0)).length < 4
    · rw [if_pos h2] at h; cases h
    · rw [if_neg h2] at h
      have h3 := Except.ok.inj h
      rw [← h3]
      cases crc16 <;> simp at h1 h2 ⊢ <;> omega

/-- a new reader satisfies the invariant: nothing decoded, all `8·|body|` bits unread -/
theorem new_ainv (crc16 : Bool) (s : Bytes) (d : Reader) (h : Reader.new crc16 s = .ok d) : AInv d := by
  obtain ⟨ri, hu, hb, -⟩ := new_rinv crc16 s d h
  obtain ⟨hp, -, -, -⟩ := new_fields crc16 s d h
  have hl := congrArg List.length hu
  rw [unreadBits_length, bytesBits_length, Array.length_toList] at hl
  refine ⟨?_, ri, ?_, fun _ => ?_⟩
  · rw [Reader.new_h crc16 s d h]; exact huffWF_init
  · rw [hp, hl]; omega
  · rw [hp, hl]; omega

/-- **Bounded expansion, in terms of the body**: whatever reads are made, the bytes handed out number at
most `6` per body bit plus one maximal match. -/
theorem reads_le_body (crc16 : Bool) (s : Bytes) (d : Reader) (ns : List Nat)
    (h : Reader.new crc16 s = .ok d) :
    (readsWith d ns).2.length ≤ 48 * d.src.size + 60 := by
  obtain ⟨a, hs⟩ := readsWith_ainv d ns (new_ainv crc16 s d h)
  obtain ⟨hp, hq, -, -⟩ := new_fields crc16 s d h
  obtain ⟨-, a2, -⟩ := readsWith_acc d ns
  have := a.pot
  rw [hs] at this
  rw [hp, hq] at a2
  simp only [List.length_nil] at a2
  omega

/-! ### the reader's own buffer (`state.buf`, here `pending`) holds less than one match -/

/-- **The decode loop leaves fewer than `F = 60` bytes in `pending`**: it only runs with room in the
caller's buffer, `pending` is then empty, and only the tail of the one match that overflows the caller's
buffer is kept. -/
theorem fill_pending : ∀ (fuel : Nat) (d : Reader) (out : Bytes) (room : Nat), HuffWF d.h →
    (0 < room → d.pending = []) → d.pending.length ≤ 59 →
    (d.fill out room fuel).1.pending.length ≤ 59 := by
  intro fuel
  induction fuel with
  | zero => intro d out room _ _ h; exact h
  | succ fuel ih =>
    intro d out room w hq hl
    rw [Reader.fill]
    split
    · rename_i hc
      have hq0 : d.pending = [] := hq hc.1
      have sp := Reader.decodeChar_spec d w
      have f1 := decodeChar_frame d
      generalize d.decodeChar = p at sp f1
      obtain ⟨d1, c⟩ := p
      simp only at sp f1 ⊢
      split
      · exact ih _ _ _ sp.2.1 (fun _ => f1.pending.trans hq0) (by
          show d1.pending.length ≤ 59
          rw [f1.pending, hq0]; exact Nat.zero_le _)
      · have f2 := decodePosition_frame d1
        have e2 : d1.decodePosition.1.h = d1.h := Reader.decodePosition_h d1
        generalize d1.decodePosition = q at f2 e2
        obtain ⟨d2, pp⟩ := q
        simp only at f2 e2 ⊢
        have cb := copyMatch_bits d2 ((d2.r + 2 * N - pp - 1) % N) out room 0 (c - 255 + THRESHOLD)
        have ca := copyMatch_acc d2 ((d2.r + 2 * N - pp - 1) % N) out room 0 (c - 255 + THRESHOLD)
        generalize d2.copyMatch ((d2.r + 2 * N - pp - 1) % N) out room 0 (c - 255 + THRESHOLD) = r at cb ca
        obtain ⟨d3, out3, room3, stop⟩ := r
        simp only at cb ca ⊢
        have hp2 : d2.pending = [] := (f2.pending.trans f1.pending).trans hq0
        have hc1 := sp.1
        rw [NCHAR_eq] at hc1
        have a1 := ca.acct; have a2 := ca.roomAcct; have a3 := cb.2
        rw [hp2] at a1
        simp only [THRESHOLD, List.length_nil] at a1 a3
        have hr := hc.1
        have hT : THRESHOLD = 2 := rfl
        have hl3 : d3.pending.length ≤ 59 := by
          by_cases h3 : 0 < room3
          · rw [ca.pend h3, hp2]; exact Nat.zero_le _
          · omega
        split
        · exact hl3
        · exact ih d3 out3 room3 (by rw [cb.1.h, e2]; exact sp.2.1) (fun h => (ca.pend h).trans hp2) hl3
    · exact hl

theorem read_pending (d : Reader) (m : Nat) (w : HuffWF d.h) (hl : d.pending.length ≤ 59) :
    (d.read m).1.pending.length ≤ 59 := by
  rw [read_eq]
  split
  · rw [norm_pending]; exact hl
  · split
    · rw [norm_pending]; exact hl
    · have hh : d.norm.h = d.h := by unfold Reader.norm; split <;> rfl
      refine fill_pending (m + 1) ({ d.norm with pending := d.norm.pending.drop m } : Reader)
        (d.norm.pending.take m).reverse (m - (d.norm.pending.take m).length) (by rw [← hh] at w; exact w) ?_ ?_
      · intro h
        rw [List.length_take] at h
        exact List.drop_eq_nil_of_le (by omega)
      · show (d.norm.pending.drop m).length ≤ 59
        rw [List.length_drop, norm_pending]; omega

theorem readsWith_pending (d : Reader) (ns : List Nat) (w : HuffWF d.h) (hl : d.pending.length ≤ 59) :
    (readsWith d ns).1.pending.length ≤ 59 := by
  induction ns generalizing d with
  | nil => exact hl
  | cons m ns ih => exact ih (d.read m).1 (Reader.read_wf d m w) (read_pending d m w hl)

end Wl2k.Lzhuf
