import Wl2kVerif.Props.C15
import Wl2kVerif.Proofs.TelnetSched
/-
The scheduler model instantiated with the code as extracted (`goClassify`, `trimSpace`,
`Props.C15.codeCfg`), and the bridge to `Props.C15.pair_never_stuck` / `login_stream_clean`:
a reachable state with nothing in flight is the completed login.
-/
namespace Wl2k.Telnet.Sched
open Wl2k Wl2k.Str Wl2k.Telnet

/-- Dialler and listener of /repo/transport/telnet against each other, configuration as extracted
from the source on this run. -/
def goSys (call pw payloadC payloadS : Bytes) : Sys :=
  ⟨goClassify, trimSpace, Props.C15.codeCfg, call, pw, payloadC, payloadS⟩

/-- The completed login: `DialContext` returned a connection having written callsign and password
once each, `Accept` returned a connection without error having written its two prompts,
`RemoteCall()` is the trimmed callsign, each returned connection delivers exactly the other side's
payload with nothing lost, and everything ever written has been delivered. -/
structure Completed (call pw payloadC payloadS : Bytes) (st : St) : Prop where
  dial_ok : ∃ cC t, dialOf (goSys call pw payloadC payloadS) st =
      .conn cC [call ++ [13], pw ++ [13]] t ∧ cC.stream = payloadS ∧ cC.lost = []
  accept_ok : ∃ cS, acceptOf (goSys call pw payloadC payloadS) st =
      .conn cS none [callPrompt, pwPrompt] ∧ cS.remoteCall = trimSpace call ∧
      cS.stream = payloadC ∧ cS.lost = []
  deliveredC : flat st.toClient = callPrompt ++ pwPrompt ++ payloadS
  deliveredS : flat st.toServer = call ++ [13] ++ (pw ++ [13]) ++ payloadC
  nothing_in_flight : quiescent (goSys call pw payloadC payloadS) st = true

theorem go_classify_facts (call pw payloadC payloadS : Bytes) :
    (goSys call pw payloadC payloadS).classify callPrompt = .callsign ∧
    (goSys call pw payloadC payloadS).classify pwPrompt = .password :=
  ⟨Props.C15.classify_callPrompt, Props.C15.classify_pwPrompt⟩

/-- A state of the scheduler model with nothing in flight is `Quiescent` in the sense of
`Props/C15.lean`. -/
theorem quiescent_bridge (call pw payloadC payloadS : Bytes) (st : St)
    (hinv : Inv (goSys call pw payloadC payloadS) st)
    (hq : quiescent (goSys call pw payloadC payloadS) st = true) :
    Props.C15.Quiescent call pw payloadC payloadS st.toClient st.toServer := by
  obtain ⟨h1, h2⟩ := (quiescent_iff _ st hinv).mp hq
  exact ⟨h1, h2⟩

/-- **Nothing in flight ⇒ completed**, for every state satisfying the invariant (in particular every
state reached by a schedule). -/
theorem completed_of_quiescent (call pw payloadC payloadS : Bytes)
    (hc : (13 : UInt8) ∉ call) (hp : (13 : UInt8) ∉ pw) (st : St)
    (hinv : Inv (goSys call pw payloadC payloadS) st)
    (hq : quiescent (goSys call pw payloadC payloadS) st = true) :
    Completed call pw payloadC payloadS st := by
  have q := quiescent_bridge call pw payloadC payloadS st hinv hq
  obtain ⟨cC, cS, t, hd, ha, _, _, _⟩ :=
    Props.C15.pair_never_stuck call pw payloadC payloadS hc hp st.toClient st.toServer q
  obtain ⟨hC, hS⟩ := q
  rw [ha] at hC
  rw [hd] at hS
  have hC' : flat st.toClient = callPrompt ++ pwPrompt ++ payloadS := by
    simpa [Accept.writes, Accept.loggedIn] using hC
  have hS' : flat st.toServer = call ++ [13] ++ (pw ++ [13]) ++ payloadC := by
    simpa [Dial.writes, Dial.loggedIn] using hS
  obtain ⟨cC', cS', t', hd', ha', hrc, hsC, hsS, hlC, hlS⟩ :=
    Props.C15.login_stream_clean call pw payloadC payloadS hc hp none none none 0
      st.toClient st.toServer hC' hS' ⟨rfl, fun _ _ => rfl⟩
  exact ⟨⟨cC', t', hd', hsC, hlC⟩, ⟨cS', ha', hrc, hsS, hlS⟩, hC', hS', hq⟩

/-- The observation of a completed state is `doneObs`: fixed by callsign, password and payloads. -/
theorem obs_of_completed (call pw payloadC payloadS : Bytes) (st : St)
    (h : Completed call pw payloadC payloadS st) :
    obs (goSys call pw payloadC payloadS) st = doneObs (goSys call pw payloadC payloadS) := by
  obtain ⟨⟨cC, t, hd, hsC, hlC⟩, ⟨cS, ha, hrc, hsS, hlS⟩, hC, hS, _⟩ := h
  have htrim : trimSpace (call ++ [13]) = trimSpace call := trimSpace_snoc (by decide) call
  simp only [obs, doneObs, wroteC, wroteS, hd, ha, hC, hS]
  simp [Dial.loggedIn, Accept.loggedIn, Accept.remoteCall, Dial.stream, Accept.stream, Dial.lost,
    Accept.lost, Dial.writes, Accept.writes, hsC, hsS, hlC, hlS, hrc, goSys, htrim]

/-- The chunk lists only grow along a schedule (what has been delivered stays delivered). -/
theorem delivered_mono_step (S : Sys) (st : St) (c : Choice) :
    st.toClient <+: (step S st c).toClient ∧ st.toServer <+: (step S st c).toServer := by
  rcases step_cases S st c with e | ⟨_, _, _, e⟩ | ⟨_, _, _, e⟩ <;> rw [e] <;> simp

theorem delivered_mono_runFrom (S : Sys) : ∀ (sched : Schedule) (st : St),
    st.toClient <+: (runFrom S st sched).toClient ∧ st.toServer <+: (runFrom S st sched).toServer
  | [], _ => ⟨List.prefix_refl _, List.prefix_refl _⟩
  | c :: cs, st => by
    have h1 := delivered_mono_step S st c
    have h2 := delivered_mono_runFrom S cs (step S st c)
    exact ⟨List.IsPrefix.trans h1.1 h2.1, List.IsPrefix.trans h1.2 h2.2⟩

theorem steps_mono_runFrom (S : Sys) : ∀ (sched : Schedule) (st : St),
    st.steps ≤ (runFrom S st sched).steps
  | [], _ => Nat.le_refl _
  | c :: cs, st => Nat.le_trans (steps_mono_step S st c) (steps_mono_runFrom S cs _)

/-- With the invariant, written = delivered ++ in flight. -/
theorem wrote_split (S : Sys) (st : St) (h : Inv S st) :
    wroteS S st = flat st.toClient ++ flightToClient S st ∧
    wroteC S st = flat st.toServer ++ flightToServer S st :=
  ⟨(List.prefix_iff_eq_append.mp h.toClient_prefix).symm,
   (List.prefix_iff_eq_append.mp h.toServer_prefix).symm⟩

end Wl2k.Telnet.Sched
