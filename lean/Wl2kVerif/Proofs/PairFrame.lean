import Wl2kVerif.Proofs.FrameRT
import Wl2kVerif.Proofs.PairTurn
/-
The frame reader on ANY PREFIX of a well-formed frame (link cut anywhere inside it): whenever
`readCompressed` returns a payload at all, it is the payload that was sent, and what is left unread is a
prefix of what followed the frame. (A cut right before the final checksum byte is a read error — the
connection is lost — like every other cut.)
-/
namespace Wl2k.B2F
open Wl2k Wl2k.Strconv

variable {H : Type} (hstep : H → Call → H × Reply)

/-- reading `n` bytes from fewer -/
theorem run_readN_short : ∀ (J : Bytes) (n : Nat) (acc : Bytes) (h : H) (tr : List Ev), J.length < n →
    Proc.run hstep (readN n acc) J h tr = (.done none, [], h, tr) := by
  intro J
  induction J with
  | nil =>
    intro n acc h tr hn
    cases n with
    | zero => simp at hn
    | succ n => simp [readN, Proc.run]
  | cons b t ih =>
    intro n acc h tr hn
    cases n with
    | zero => simp at hn
    | succ n =>
      simp only [readN, Proc.run]
      exact ih n (b :: acc) h tr (by simp at hn; omega)

/-- a prefix of `a ++ b` is a prefix of `a` or contains it -/
theorem prefix_append_cases {α : Type} (a b J : List α) (hJ : J <+: a ++ b) :
    (∃ J', J = a ++ J' ∧ J' <+: b) ∨ (J <+: a ∧ J.length < a.length) := by
  by_cases hl : a.length ≤ J.length
  · left
    have h1 : a <+: a ++ b := List.prefix_append _ _
    obtain ⟨J', hJ'⟩ := List.prefix_of_prefix_length_le h1 hJ hl
    refine ⟨J', hJ'.symm, ?_⟩
    rw [← hJ'] at hJ
    exact (List.prefix_append_right_inj a).mp hJ
  · right
    have h1 : a <+: a ++ b := List.prefix_append _ _
    exact ⟨List.prefix_of_prefix_length_le hJ h1 (by omega), by omega⟩

/-- the block loop on any prefix of well-formed blocks + trailer -/
theorem readBlocks_prefix_ok (csize : Int) : ∀ (chunks : List Bytes) (fuel : Nat) (buf : Bytes) (sum : Nat) (ck : UInt8)
    (rest : Bytes) (h : H) (tr : List Ev),
    (∀ c ∈ chunks, 1 ≤ c.length ∧ c.length ≤ 255) →
    ∀ (J : Bytes), J <+: (chunks.map blockOf).flatten ++ 4 :: ck :: rest →
    ∀ (d J' : Bytes) (h' : H) (tr' : List Ev),
      Proc.run hstep (readBlocks csize fuel buf sum) J h tr = (.done (.ok d), J', h', tr') →
      d = buf ++ chunks.flatten ∧ J' <+: rest := by
  intro chunks
  induction chunks with
  | nil =>
    intro fuel buf sum ck rest h tr _ J hJ d J' h' tr' hr
    cases fuel with
    | zero => simp [readBlocks, fuelOut, Proc.run] at hr
    | succ f =>
      simp only [List.map_nil, List.flatten_nil, List.nil_append] at hJ
      have h42 : ¬ ((4 : UInt8) = 2) := by decide
      rcases List.prefix_cons_iff.mp hJ with rfl | ⟨t, rfl, ht⟩
      · simp [readBlocks, Proc.run] at hr
      · rcases List.prefix_cons_iff.mp ht with rfl | ⟨t2, rfl, ht2⟩
        · -- cut between EOT and the checksum byte: the read error is returned
          simp [readBlocks, Proc.run, h42] at hr
        · simp only [readBlocks, Proc.run, h42, if_false, if_true] at hr
          split at hr
          · simp [Proc.run] at hr
          · split at hr
            · simp [Proc.run] at hr
            · simp only [Proc.run, Prod.mk.injEq, Ended.done.injEq, Except.ok.injEq] at hr
              obtain ⟨rfl, rfl, _, _⟩ := hr
              exact ⟨by simp, ht2⟩
  | cons c cs ih =>
    intro fuel buf sum ck rest h tr hwf J hJ d J' h' tr' hr
    cases fuel with
    | zero => simp [readBlocks, fuelOut, Proc.run] at hr
    | succ f =>
      have hc := hwf c (by simp)
      have hl : (UInt8.ofNat (c.length % 256)) ≠ 0 := by
        intro e
        have := congrArg UInt8.toNat e
        simp at this
        omega
      have hln : (UInt8.ofNat (c.length % 256)).toNat = c.length := by simp; omega
      simp only [List.map_cons, List.flatten_cons, blockOf, List.cons_append, List.nil_append, List.append_assoc] at hJ
      rcases List.prefix_cons_iff.mp hJ with rfl | ⟨t, rfl, ht⟩
      · simp [readBlocks, Proc.run] at hr
      · rcases List.prefix_cons_iff.mp ht with rfl | ⟨t2, rfl, ht2⟩
        · -- cut after STX: the length byte reads as 0 = 256, and 256 bytes cannot be read
          simp only [readBlocks, Proc.run, if_true] at hr
          rw [run_bind, run_readN_short hstep [] 256 [] h tr (by simp)] at hr
          simp [Proc.run] at hr
        · simp only [readBlocks, Proc.run, if_true, hl, if_false, hln] at hr
          rcases prefix_append_cases c _ t2 ht2 with ⟨J2, rfl, hJ2⟩ | ⟨_, hshort⟩
          · rw [run_bind, run_readN hstep c [] J2 h tr] at hr
            simp only [List.reverse_nil, List.nil_append] at hr
            obtain ⟨e1, e2⟩ := ih f (buf ++ c) ((sum + dataSum c) % 256) ck rest h tr
              (fun x hx => hwf x (by simp [hx])) J2 hJ2 d J' h' tr' hr
            exact ⟨by rw [e1]; simp, e2⟩
          · rw [run_bind, run_readN_short hstep t2 c.length [] h tr hshort] at hr
            simp [Proc.run] at hr

/-- the bytes `writeCompressed` emits for payload `d` with title `qtitle`, block size `m` -/
def frameOf (m : Nat) (qtitle d : Bytes) : Bytes :=
  frameHeader qtitle 0 ++ (frameBlocks m d).flatten ++ frameTrailer d

/-- `ReadString(delim)` on a prefix of `pre ++ delim :: rest`: the whole field, or EOF -/
theorem readString_prefix (delim : UInt8) (pre rest J : Bytes) (fuel : Nat) (h : H) (tr : List Ev)
    (hn : delim ∉ pre) (hf : pre.length < fuel) (hJ : J <+: pre ++ delim :: rest) :
    (∃ J2, J = pre ++ delim :: J2 ∧ J2 <+: rest ∧
      Proc.run hstep (readString delim fuel []) J h tr = (.done (pre ++ [delim], false), J2, h, tr)) ∨
    (∃ x, Proc.run hstep (readString delim fuel []) J h tr = (.done (x, true), [], h, tr)) := by
  rcases prefix_append_cases pre _ J hJ with ⟨J1, rfl, hJ1⟩ | ⟨hp, _⟩
  · rcases List.prefix_cons_iff.mp hJ1 with rfl | ⟨J2, rfl, hJ2⟩
    · right
      exact ⟨_, by simpa using run_readString_eof hstep delim pre fuel [] h tr hn hf⟩
    · left
      exact ⟨J2, rfl, hJ2, by simpa using run_readString hstep delim pre fuel [] J2 h tr hn hf⟩
  · right
    exact ⟨_, run_readString_eof hstep delim J fuel [] h tr (not_mem_of_prefix hp hn) (by have := hp.length_le; omega)⟩

/-- **The frame reader on any prefix of a frame**: if it returns a payload, it is the one sent. -/
theorem readCompressed_prefix_ok (m : Nat) (hm1 : 1 ≤ m) (hm2 : m ≤ 255) (qtitle d rest : Bytes)
    (hq : (0 : UInt8) ∉ qtitle) (hlen : qtitle.length + 3 < 256)
    (p : Proposal) (hoff : p.offset = 0)
    (fuel : Nat) (hfuel : qtitle.length + d.length + 4 < fuel) (h : H) (tr : List Ev)
    (J : Bytes) (hJ : J <+: frameOf m qtitle d ++ rest) (d' J' : Bytes) (h' : H) (tr' : List Ev)
    (hr : Proc.run hstep (readCompressed fuel p) J h tr = (.done (.ok d'), J', h', tr')) :
    d' = d ∧ J' <+: rest := by
  have hdec : Fmt.decInt 0 = [48] := by decide
  have hch := chunksOf_spec m hm1 (d.length + 1) d (by omega)
  have hfb : (frameBlocks m d) = (chunksOf m (d.length + 1) d).map blockOf := by
    simp [frameBlocks, blockOf]
  have hfr : frameOf m qtitle d ++ rest =
      1 :: UInt8.ofNat ((qtitle.length + 1 + 2) % 256) :: (qtitle ++ 0 :: ([48] ++ 0 ::
        (((chunksOf m (d.length + 1) d).map blockOf).flatten ++ 4 :: UInt8.ofNat (negMod256 (dataSum d)) :: rest))) := by
    simp [frameOf, frameHeader, hdec, hfb, frameTrailer]
  rw [hfr] at hJ
  have h1 : ¬ ((1 : UInt8) = 42) := by decide
  have h2 : ¬ ((1 : UInt8) ≠ 1) := by decide
  unfold readCompressed at hr
  rcases List.prefix_cons_iff.mp hJ with rfl | ⟨t, rfl, ht⟩
  · simp [Proc.run] at hr
  · rcases List.prefix_cons_iff.mp ht with rfl | ⟨t2, rfl, ht2⟩
    · simp [Proc.run, h1] at hr
    · simp only [Proc.run, h1, if_false, h2, bind_eq, pure_eq] at hr
      rw [run_bind] at hr
      rcases readString_prefix hstep 0 qtitle _ t2 fuel h tr hq (by omega) ht2 with ⟨J2, rfl, hJ2, e1⟩ | ⟨x, e1⟩
      · rw [e1] at hr
        simp only [Bool.false_eq_true, if_false] at hr
        rw [run_bind] at hr
        rcases readString_prefix hstep 0 [48] _ J2 fuel h tr (by decide) (by simp; omega) hJ2 with ⟨J3, rfl, hJ3, e2⟩ | ⟨x, e2⟩
        · rw [e2] at hr
          simp only [Bool.false_eq_true, if_false] at hr
          rw [stripDelimC_eq _ (by simp), stripDelimC_eq _ (by simp)] at hr
          have hat : atoi [48] = (0, false) := by decide
          have h253 : ¬ 253 ≤ qtitle.length := by omega
          simp only [List.dropLast_concat, List.length_singleton, hat] at hr
          have hhl : ¬ ((UInt8.ofNat ((qtitle.length + 1 + 2) % 256)).toNat ≠ qtitle.length + 1 + 2) := by
            simp; omega
          simp only [hhl, if_false, Bool.false_eq_true, hoff, ne_eq, not_true_eq_false, pure_eq] at hr
          have := readBlocks_prefix_ok hstep p.csize (chunksOf m (d.length + 1) d) fuel [] 0
            (UInt8.ofNat (negMod256 (dataSum d))) rest h tr
            (fun c hc => ⟨(hch.2.1 c hc).1, by have := (hch.2.1 c hc).2; omega⟩) J3 hJ3 d' J' h' tr' hr
          rw [hch.1] at this
          simpa using this
        · rw [e2] at hr
          simp [Proc.run] at hr
      · rw [e1] at hr
        simp [Proc.run] at hr

/-! ### the receiver's fetch loop on (any prefix of) the frames of a block -/

/-- sender-side validity of one proposal's frame -/
structure FrameOK (fuel : Nat) (dataOf : Proposal → Bytes) (p : Proposal) : Prop where
  code : p.code = 67
  noNul : (0 : UInt8) ∉ p.qtitle
  short : p.qtitle.length + 3 < 256
  fuel : p.qtitle.length + p.cdata.length + 4 < fuel
  csz : p.csize = (p.cdata.length : Int)
  /-- LZHUF round trip for this message (the hypothesis `hrt`) -/
  rt : lzDecode p.cdata = some (dataOf p)

/-- the frames the sender writes for the accepted proposals of a block, in order -/
def framesBytes (m : Nat) : List Proposal → List UInt8 → Bytes
  | p :: ps, a :: as => (if a = ansAccept then frameOf m p.qtitle p.cdata else []) ++ framesBytes m ps as
  | _, _ => []

/-- the payloads the receiver is to hand over, in order -/
def acceptedData (dataOf : Proposal → Bytes) : List Proposal → List UInt8 → List Bytes
  | p :: ps, a :: as => (if a = ansAccept then [dataOf p] else []) ++ acceptedData dataOf ps as
  | _, _ => []

/-- **The fetch loop on any prefix of the block's frames**: if it returns WITHOUT error, it has handed over
exactly the payloads of the accepted proposals, in order, and nothing else happened. -/
theorem fetchAll_prefix_ok (m : Nat) (hm1 : 1 ≤ m) (hm2 : m ≤ 255) (fuel : Nat) (dataOf : Proposal → Bytes) (rest : Bytes) :
    ∀ (ps : List Proposal) (as : List UInt8), (∀ p ∈ ps, FrameOK fuel dataOf p) →
    ∀ (st : SState) (J : Bytes) (h : H) (tr : List Ev), J <+: framesBytes m ps as ++ rest →
    ∀ (st' : SState) (J' : Bytes) (h' : H) (tr' : List Ev),
      Proc.run hstep (fetchAll fuel (List.zipWith setAns (ps.map recvProp) as) st) J h tr = (.done (st', none), J', h', tr') →
      tr' = deliverEvs (acceptedData dataOf ps as) ++ tr ∧ J' <+: rest ∧
        h' = (acceptedData dataOf ps as).foldl (deliverStep hstep) h := by
  intro ps
  induction ps with
  | nil =>
    intro as _ st J h tr hJ st' J' h' tr' hr
    simp only [List.map_nil, List.zipWith_nil_left, fetchAll, Proc.run, Prod.mk.injEq] at hr
    obtain ⟨_, rfl, rfl, rfl⟩ := hr
    simp only [framesBytes, List.nil_append] at hJ
    simp [acceptedData, deliverEvs, hJ]
  | cons p ps ih =>
    intro as hok st J h tr hJ st' J' h' tr' hr
    cases as with
    | nil =>
      simp only [List.zipWith_nil_right, fetchAll, Proc.run, Prod.mk.injEq] at hr
      obtain ⟨_, rfl, rfl, rfl⟩ := hr
      simp only [framesBytes, List.nil_append] at hJ
      simp [acceptedData, deliverEvs, hJ]
    | cons a as =>
      have hp := hok p (by simp)
      have hok' : ∀ q ∈ ps, FrameOK fuel dataOf q := fun q hq => hok q (by simp [hq])
      simp only [List.map_cons, List.zipWith_cons_cons] at hr
      unfold fetchAll at hr
      by_cases hacc : a = ansAccept
      · have hne : ¬ ((setAns (recvProp p) a).answer ≠ ansAccept) := by simp [setAns, hacc]
        rw [if_neg hne] at hr
        simp only [bind_eq, pure_eq] at hr
        rw [run_bind] at hr
        have hsil := run_silent hstep (readCompressed_shape (E := Silent) ⟨trivial, fun _ => trivial⟩ fuel
          (setAns (recvProp p) a)) J h tr
        generalize hrc : Proc.run hstep (readCompressed fuel (setAns (recvProp p) a)) J h tr = rc at hr hsil
        obtain ⟨res, J1, h1, tr1⟩ := rc
        simp only [Prod.mk.injEq] at hsil
        obtain ⟨rfl, rfl⟩ := hsil
        cases res with
        | panicked s => simp at hr
        | blocked => simp at hr
        | done r =>
          cases r with
          | error e => simp [Proc.run] at hr
          | ok cdata =>
            simp only [framesBytes, hacc, if_true, List.append_assoc] at hJ
            obtain ⟨rfl, hJ1⟩ := readCompressed_prefix_ok hstep m hm1 hm2 p.qtitle p.cdata _ hp.noNul hp.short
              (setAns (recvProp p) a) rfl fuel hp.fuel h1 tr1 J hJ cdata J1 h1 tr1 hrc
            simp only at hr
            have h68 : ¬ ((setAns (recvProp p) a).code = 68) := by simp [setAns, recvProp, hp.code]
            simp only [h68, if_false, Proc.bind, hp.rt, Proc.run] at hr
            generalize hp1 : hstep h1 (.parseMessage (dataOf p)) = x1 at hr
            obtain ⟨h2, r1⟩ := x1
            simp only at hr
            split at hr
            · simp [Proc.run] at hr
            · simp only [Proc.run] at hr
              generalize hp2 : hstep h2 (.processInbound (dataOf p)) = x2 at hr
              obtain ⟨h3, r2⟩ := x2
              simp only at hr
              split at hr
              · simp [Proc.run] at hr
              · obtain ⟨e1, e2, e3⟩ := ih as hok' _ J1 h3 _ hJ1 st' J' h' tr' hr
                refine ⟨?_, e2, ?_⟩
                · rw [e1]
                  simp only [acceptedData, hacc, if_true, List.singleton_append, deliverEvs_cons]
                  simp
                · rw [e3]
                  simp only [acceptedData, hacc, if_true, List.singleton_append, List.foldl_cons, deliverStep, hp1, hp2]
      · have hne : (setAns (recvProp p) a).answer ≠ ansAccept := by simpa [setAns] using hacc
        rw [if_pos hne] at hr
        simp only [framesBytes, hacc, if_false, List.nil_append] at hJ
        obtain ⟨e1, e2, e3⟩ := ih as hok' st J h tr hJ st' J' h' tr' hr
        refine ⟨?_, e2, ?_⟩
        · rw [e1]; simp [acceptedData, hacc]
        · rw [e3]; simp [acceptedData, hacc]

/-- the accepted proposals' MIDs, in order -/
def acceptedMids : List Proposal → List UInt8 → List Bytes
  | p :: ps, a :: as => (if a = ansAccept then [p.mid] else []) ++ acceptedMids ps as
  | _, _ => []

/-- **The fetch loop on the complete frames of a block** (nothing cut, the handler reports no error):
every accepted payload is handed over exactly once, in order; exactly the frames are consumed. -/
theorem fetchAll_run_ok (m : Nat) (hm1 : 1 ≤ m) (hm2 : m ≤ 255) (fuel : Nat) (dataOf : Proposal → Bytes) (rest : Bytes) :
    ∀ (ps : List Proposal) (as : List UInt8), (∀ p ∈ ps, FrameOK fuel dataOf p) →
    ∀ (st : SState) (h : H) (tr : List Ev), AllOK hstep h (acceptedData dataOf ps as) →
      Proc.run hstep (fetchAll fuel (List.zipWith setAns (ps.map recvProp) as) st) (framesBytes m ps as ++ rest) h tr =
        (.done ({ st with received := st.received ++ acceptedMids ps as }, none), rest,
          (acceptedData dataOf ps as).foldl (deliverStep hstep) h, deliverEvs (acceptedData dataOf ps as) ++ tr) := by
  intro ps
  induction ps with
  | nil => intro as _ st h tr _; simp [fetchAll, Proc.run, framesBytes, acceptedData, acceptedMids, deliverEvs]
  | cons p ps ih =>
    intro as hok st h tr hall
    cases as with
    | nil => simp [fetchAll, Proc.run, framesBytes, acceptedData, acceptedMids, deliverEvs]
    | cons a as =>
      have hp := hok p (by simp)
      have hok' : ∀ q ∈ ps, FrameOK fuel dataOf q := fun q hq => hok q (by simp [hq])
      simp only [List.map_cons, List.zipWith_cons_cons]
      unfold fetchAll
      by_cases hacc : a = ansAccept
      · have hne : ¬ ((setAns (recvProp p) a).answer ≠ ansAccept) := by simp [setAns, hacc]
        rw [if_neg hne]
        simp only [bind_eq, pure_eq, framesBytes, hacc, if_true, List.append_assoc]
        rw [run_bind]
        have hfr := frame_roundtrip hstep m hm1 hm2 p.qtitle p.cdata (framesBytes m ps as ++ rest) hp.noNul hp.short
          (setAns (recvProp p) ansAccept) rfl (by simp [setAns, recvProp, hp.csz]) fuel hp.fuel h tr
        simp only [frameOf, List.append_assoc] at hfr ⊢
        rw [hfr]
        simp only [acceptedData, hacc, if_true, List.singleton_append, AllOK] at hall
        obtain ⟨⟨o1, o2⟩, hall'⟩ := hall
        have h68 : ¬ ((setAns (recvProp p) ansAccept).code = 68) := by simp [setAns, recvProp, hp.code]
        simp only [h68, if_false, Proc.bind, hp.rt, Proc.run]
        generalize hp1 : hstep h (.parseMessage (dataOf p)) = x1 at o1 o2 hall' ⊢
        obtain ⟨h2, r1⟩ := x1
        simp only at o1 o2 hall' ⊢
        split
        · simp [Reply.parseErr] at o1
        simp only [Proc.run]
        generalize hp2 : hstep h2 (.processInbound (dataOf p)) = x2 at o2 hall' ⊢
        obtain ⟨h3, r2⟩ := x2
        simp only at o2 hall' ⊢
        split
        · simp [Reply.isErr] at o2
        have hds : deliverStep hstep h (dataOf p) = h3 := by simp [deliverStep, hp1, hp2]
        rw [hds] at hall'
        rw [ih as hok' _ h3 _ hall']
        simp only [acceptedData, acceptedMids, hacc, if_true, List.singleton_append, List.foldl_cons, hds, deliverEvs_cons,
          setAns, recvProp]
        simp
      · have hne : (setAns (recvProp p) a).answer ≠ ansAccept := by simpa [setAns] using hacc
        rw [if_pos hne]
        simp only [framesBytes, hacc, if_false, List.nil_append]
        simp only [acceptedData, hacc, if_false, List.nil_append] at hall
        rw [ih as hok' st h tr hall]
        simp [acceptedData, acceptedMids, hacc]

end Wl2k.B2F
