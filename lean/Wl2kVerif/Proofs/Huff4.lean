import Wl2kVerif.Proofs.Huff2
/-
`reconst` re-establishes `HuffWF` and halves the root weight: finite sums/counts, "root weight = total
leaf weight" for a well-formed tree, and the three loops of `reconst`.
-/
namespace Wl2k.Lzhuf

theorem R_lt_T : R < T := by decide

/-! ### finite sums and counts -/

/-- `Σ_{x<n} g x` -/
def sumTo (g : Nat → Nat) : Nat → Nat
  | 0 => 0
  | n + 1 => sumTo g n + g n

theorem sumTo_congr {g g' : Nat → Nat} {n : Nat} (h : ∀ x, x < n → g x = g' x) : sumTo g n = sumTo g' n := by
  induction n with
  | zero => rfl
  | succ n ih => simp only [sumTo]; rw [ih (fun x hx => h x (by omega)), h n (by omega)]

theorem sumTo_zero {g : Nat → Nat} {n : Nat} (h : ∀ x, x < n → g x = 0) : sumTo g n = 0 := by
  induction n with
  | zero => rfl
  | succ n ih => simp only [sumTo]; rw [ih (fun x hx => h x (by omega)), h n (by omega)]

theorem sumTo_le {g g' : Nat → Nat} {n : Nat} (h : ∀ x, x < n → g x ≤ g' x) : sumTo g n ≤ sumTo g' n := by
  induction n with
  | zero => exact Nat.le_refl _
  | succ n ih =>
    simp only [sumTo]
    have := ih (fun x hx => h x (by omega)); have := h n (by omega); omega

theorem sumTo_add (g g' : Nat → Nat) (n : Nat) : sumTo (fun x => g x + g' x) n = sumTo g n + sumTo g' n := by
  induction n with
  | zero => rfl
  | succ n ih => simp only [sumTo]; rw [ih]; omega

theorem sumTo_remove (g : Nat → Nat) (n a : Nat) (ha : a < n) :
    sumTo g n = g a + sumTo (fun x => if x = a then 0 else g x) n := by
  induction n with
  | zero => omega
  | succ n ih =>
    simp only [sumTo]
    by_cases e : a = n
    · subst e
      rw [if_pos rfl, sumTo_congr (g := fun x => if x = a then 0 else g x) (g' := g)
        (fun x hx => by show (if x = a then 0 else g x) = g x; rw [if_neg (by omega)])]
      omega
    · rw [ih (by omega), if_neg (by omega)]; omega

theorem sumTo_split (g : Nat → Nat) (a b : Nat) : sumTo g (a + b) = sumTo g a + sumTo (fun x => g (a + x)) b := by
  induction b with
  | zero => rfl
  | succ b ih => rw [← Nat.add_assoc]; simp only [sumTo]; rw [ih]; omega

/-- number of `x < n` with `p x` -/
def cnt (p : Nat → Bool) (n : Nat) : Nat := sumTo (fun x => if p x then 1 else 0) n

theorem cnt_succ (p : Nat → Bool) (n : Nat) : cnt p (n + 1) = cnt p n + (if p n then 1 else 0) := rfl

theorem cnt_le (p : Nat → Bool) (n : Nat) : cnt p n ≤ n := by
  induction n with
  | zero => exact Nat.le_refl _
  | succ n ih => rw [cnt_succ]; split <;> omega

theorem cnt_mono (p : Nat → Bool) (a b : Nat) (h : a ≤ b) : cnt p a ≤ cnt p b := by
  induction b with
  | zero => have : a = 0 := by omega
            subst this; exact Nat.le_refl _
  | succ b ih =>
    by_cases e : a = b + 1
    · subst e; exact Nat.le_refl _
    · have := ih (by omega); rw [cnt_succ]; omega

/-- a bijection between `{i < n | p i}` and `[0, m)` pins the count -/
theorem cnt_bij (f : Nat → Nat) (n : Nat) : ∀ (m : Nat) (p : Nat → Bool),
    (∀ i, i < n → p i = true → f i < m) →
    (∀ i i', i < n → i' < n → p i = true → p i' = true → f i = f i' → i = i') →
    (∀ c, c < m → ∃ i, i < n ∧ p i = true ∧ f i = c) → cnt p n = m := by
  intro m
  induction m with
  | zero =>
    intro p h1 _ _
    apply sumTo_zero
    intro x hx
    by_cases e : p x = true
    · have := h1 x hx e; omega
    · simp [e]
  | succ m ih =>
    intro p h1 inj surj
    obtain ⟨i0, hi0, pi0, fi0⟩ := surj m (by omega)
    have := ih (fun i => p i && (i != i0)) ?_ ?_ ?_
    · unfold cnt at this ⊢
      rw [sumTo_remove _ n i0 hi0]
      simp only [pi0, if_true]
      rw [sumTo_congr (g' := fun x => if (p x && (x != i0)) = true then 1 else 0), this]; omega
      intro x _
      by_cases e : x = i0
      · simp [e]
      · simp [e]
    · intro i hi hp
      simp only [Bool.and_eq_true, bne_iff_ne] at hp
      have := h1 i hi hp.1
      have : f i ≠ m := by
        intro e; exact hp.2 (inj i i0 hi hi0 hp.1 pi0 (by omega))
      omega
    · intro i i' hi hi' hp hp'
      simp only [Bool.and_eq_true, bne_iff_ne] at hp hp'
      exact inj i i' hi hi' hp.1 hp'.1
    · intro c hc
      obtain ⟨i, hi, pi, fi⟩ := surj c (by omega)
      refine ⟨i, hi, ?_, fi⟩
      simp only [Bool.and_eq_true, bne_iff_ne]
      exact ⟨pi, by intro e; subst e; omega⟩

/-! ### the old tree: number of leaves, and root weight = total leaf weight -/

/-- node `i` is a leaf -/
def isLeaf (son : Array Nat) (i : Nat) : Bool := decide (T ≤ rd son i)

theorem HuffS.leaf_count {h : Huff} (s : HuffS h) : cnt (isLeaf h.son) T = NCHAR := by
  apply cnt_bij (fun i => rd h.son i - T) T NCHAR
  · intro i hi hp
    simp only [isLeaf, decide_eq_true_eq] at hp
    have := s.son_leaf i hi hp; omega
  · intro i i' hi hi' hp hp' e
    simp only [isLeaf, decide_eq_true_eq] at hp hp'
    have a := (s.son_leaf i hi hp).2
    have b := (s.son_leaf i' hi' hp').2
    have : rd h.son i = rd h.son i' := by omega
    rw [this] at a; omega
  · intro c hc
    have ⟨p1, p2⟩ := s.prnt_leaf c hc
    exact ⟨_, p1, by simp only [isLeaf, decide_eq_true_eq]; omega, by omega⟩

/-- weight of the leaves below `m` -/
def leafSum (h : Huff) (m : Nat) : Nat := sumTo (fun x => if isLeaf h.son x then rd h.freq x else 0) m

/-- weight of the nodes below `m` whose parent is at or above `m` (the roots of the forest on `[0, m)`) -/
def cutSum (h : Huff) (m : Nat) : Nat := sumTo (fun x => if m ≤ rd h.prnt x then rd h.freq x else 0) m

/-- the nodes whose parent is `m`: none for a leaf, the pair `son m`, `son m + 1` otherwise -/
theorem HuffS.children_sum {h : Huff} (s : HuffS h) (m : Nat) (hm : m < T) :
    sumTo (fun x => if rd h.prnt x = m then rd h.freq x else 0) m =
      if rd h.son m < T then rd h.freq (rd h.son m) + rd h.freq (rd h.son m + 1) else 0 := by
  have hmR : m ≤ R := by simp only [R_eq, T_eq] at *; omega
  split
  · rename_i hs
    have f := s.son_int m hm hs
    rw [sumTo_remove _ m (rd h.son m) (by omega), sumTo_remove _ m (rd h.son m + 1) (by omega)]
    simp only [f.2.2.1, f.2.2.2, if_true]
    rw [if_neg (by omega), sumTo_zero, Nat.add_zero]
    intro x hx
    split
    · rfl
    · split
      · rfl
      · split
        · rename_i e1 e2 e3
          have ⟨p1, p2⟩ := s.prnt_lt x (by omega)
          rw [e3] at p2; omega
        · rfl
  · rename_i hs
    apply sumTo_zero
    intro x hx
    split
    · rename_i e
      have ⟨p1, p2⟩ := s.prnt_lt x (by omega)
      rw [e] at p2; simp only [R_eq, T_eq] at *; omega
    · rfl

theorem cutSum_eq_leafSum {h : Huff} (s : HuffS h)
    (hsum : ∀ i, i < T → rd h.son i < T → rd h.freq i = rd h.freq (rd h.son i) + rd h.freq (rd h.son i + 1)) :
    ∀ m, m ≤ R → cutSum h m = leafSum h m := by
  intro m
  induction m with
  | zero => intro _; rfl
  | succ m ih =>
    intro hm
    have ih := ih (by omega)
    have hmT : m < T := by simp only [R_eq, T_eq] at *; omega
    have gt := s.prnt_gt m (by omega)
    have ch := s.children_sum m hmT
    have split : sumTo (fun x => if m + 1 ≤ rd h.prnt x then rd h.freq x else 0) m +
        sumTo (fun x => if rd h.prnt x = m then rd h.freq x else 0) m = cutSum h m := by
      rw [← sumTo_add]; unfold cutSum
      apply sumTo_congr
      intro x _
      by_cases e1 : rd h.prnt x = m
      · rw [if_neg (by omega), if_pos e1, if_pos (by omega)]; omega
      · by_cases e2 : m + 1 ≤ rd h.prnt x
        · rw [if_pos e2, if_neg e1, if_pos (by omega)]; omega
        · rw [if_neg e2, if_neg e1, if_neg (by omega)]
    have c1 : cutSum h (m + 1) =
        sumTo (fun x => if m + 1 ≤ rd h.prnt x then rd h.freq x else 0) m + rd h.freq m := by
      unfold cutSum; simp only [sumTo]; rw [if_pos (by omega)]
    have l1 : leafSum h (m + 1) = leafSum h m + (if isLeaf h.son m then rd h.freq m else 0) := rfl
    rw [c1, l1, ← ih, ← split, ch]
    by_cases hs : rd h.son m < T
    · rw [if_pos hs, ← hsum m hmT hs, if_neg (by simp only [isLeaf, decide_eq_true_eq]; omega)]; omega
    · rw [if_neg hs, if_pos (by simp only [isLeaf, decide_eq_true_eq]; omega)]; omega

/-- **the root's weight is the total weight of the leaves** -/
theorem leafSum_eq_root {h : Huff} (s : HuffS h)
    (hsum : ∀ i, i < T → rd h.son i < T → rd h.freq i = rd h.freq (rd h.son i) + rd h.freq (rd h.son i + 1)) :
    leafSum h T = rd h.freq R := by
  have r := s.son_root
  have e1 : leafSum h T = leafSum h R + (if isLeaf h.son R then rd h.freq R else 0) := rfl
  rw [if_neg (by simp only [isLeaf, decide_eq_true_eq]; omega), Nat.add_zero] at e1
  rw [e1, ← cutSum_eq_leafSum s hsum R (Nat.le_refl _)]
  have ch := s.children_sum R R_lt_T
  rw [if_pos r, ← hsum R R_lt_T r] at ch
  rw [← ch]; unfold cutSum
  apply sumTo_congr
  intro x hx
  have ⟨p1, _⟩ := s.prnt_lt x hx
  by_cases e : rd h.prnt x = R
  · rw [if_pos (by omega), if_pos e]
  · rw [if_neg (by simp only [R_eq, T_eq] at *; omega), if_neg e]

theorem cnt_surj (p : Nat → Bool) : ∀ n x, x < cnt p n → ∃ q, q < n ∧ p q = true ∧ cnt p q = x := by
  intro n
  induction n with
  | zero => intro x hx; exact absurd hx (Nat.not_lt_zero _)
  | succ n ih =>
    intro x hx
    rw [cnt_succ] at hx
    by_cases e : x < cnt p n
    · obtain ⟨q, h1, h2, h3⟩ := ih x e
      exact ⟨q, by omega, h2, h3⟩
    · by_cases pn : p n = true
      · rw [if_pos pn] at hx
        exact ⟨n, by omega, pn, by omega⟩
      · rw [if_neg pn] at hx; omega

theorem cnt_lt_of_lt (p : Nat → Bool) (q q' : Nat) (h : q < q') (hp : p q = true) : cnt p q < cnt p q' := by
  have := cnt_mono p (q + 1) q' (by omega)
  rw [cnt_succ, if_pos hp] at this; omega

/-! ### `reconst`, first loop: the leaves are compacted to the front, weights halved (rounding up) -/

/-- loop invariant of `collectLeaves` relative to the state `h0` at loop entry -/
structure CollectInv (h0 h : Huff) (i j : Nat) : Prop where
  sz_freq : h.freq.size = h0.freq.size
  sz_son : h.son.size = h0.son.size
  prnt : h.prnt = h0.prnt
  oob : h.oob = h0.oob
  spin : h.spin = h0.spin
  j_eq : j = cnt (isLeaf h0.son) i
  rest_son : ∀ x, j ≤ x → rd h.son x = rd h0.son x
  rest_freq : ∀ x, j ≤ x → rd h.freq x = rd h0.freq x
  moved : ∀ q, q < i → isLeaf h0.son q = true →
    rd h.son (cnt (isLeaf h0.son) q) = rd h0.son q ∧ rd h.freq (cnt (isLeaf h0.son) q) = (rd h0.freq q + 1) / 2
  sum2 : 2 * sumTo (rd h.freq) j ≤ leafSum h0 i + j

theorem collectLeaves_inv (h0 : Huff) (hs1 : h0.freq.size = T + 1) (hs2 : h0.son.size = T) :
    ∀ n (h : Huff) (i j : Nat), i + n ≤ T → CollectInv h0 h i j →
      CollectInv h0 (collectLeaves h j i n).1 (i + n) (collectLeaves h j i n).2 := by
  intro n
  induction n with
  | zero => intro h i j _ ci; exact ci
  | succ n ih =>
    intro h i j hin ci
    have hji : j ≤ i := by rw [ci.j_eq]; exact cnt_le _ _
    have e0 := ci.rest_son i hji
    rw [collectLeaves]
    rw [show i + (n + 1) = (i + 1) + n by omega]
    split
    · rename_i hleaf
      have lf : isLeaf h0.son i = true := by simp only [isLeaf, decide_eq_true_eq]; omega
      apply ih _ _ _ (by omega)
      refine { sz_freq := by simp [ci.sz_freq], sz_son := by simp [ci.sz_son], prnt := ci.prnt, oob := ci.oob,
               spin := ci.spin, j_eq := ?_, rest_son := ?_, rest_freq := ?_, moved := ?_, sum2 := ?_ }
      · rw [cnt_succ, if_pos lf, ← ci.j_eq]
      · intro x hx; show rd (wr h.son j _) x = _
        rw [rd_wr_ne _ _ _ _ (by omega)]; exact ci.rest_son x (by omega)
      · intro x hx; show rd (wr h.freq j _) x = _
        rw [rd_wr_ne _ _ _ _ (by omega)]; exact ci.rest_freq x (by omega)
      · intro q hq lq
        show rd (wr h.son j _) _ = _ ∧ rd (wr h.freq j _) _ = _
        by_cases e : q = i
        · subst e
          rw [← ci.j_eq, rd_wr_same _ _ _ (by rw [ci.sz_son, hs2]; omega),
            rd_wr_same _ _ _ (by rw [ci.sz_freq, hs1]; omega), e0, ci.rest_freq q hji]
          exact ⟨rfl, rfl⟩
        · have : cnt (isLeaf h0.son) q < j := by rw [ci.j_eq]; exact cnt_lt_of_lt _ _ _ (by omega) lq
          rw [rd_wr_ne _ _ _ _ (by omega), rd_wr_ne _ _ _ _ (by omega)]
          exact ci.moved q (by omega) lq
      · have l1 : leafSum h0 (i + 1) = leafSum h0 i + rd h0.freq i := by
          show leafSum h0 i + (if isLeaf h0.son i then rd h0.freq i else 0) = _
          rw [if_pos lf]
        show 2 * sumTo (rd (wr h.freq j _)) (j + 1) ≤ _
        simp only [sumTo]
        rw [rd_wr_same _ _ _ (by rw [ci.sz_freq, hs1]; omega), l1,
          sumTo_congr (g' := rd h.freq) (fun x hx => rd_wr_ne _ _ _ _ (by omega)), ci.rest_freq i hji]
        have := ci.sum2; omega
    · rename_i hleaf
      have lf : ¬ isLeaf h0.son i = true := by simp only [isLeaf, decide_eq_true_eq]; omega
      apply ih _ _ _ (by omega)
      refine { sz_freq := ci.sz_freq, sz_son := ci.sz_son, prnt := ci.prnt, oob := ci.oob,
               spin := ci.spin, j_eq := ?_, rest_son := ci.rest_son, rest_freq := ci.rest_freq, moved := ?_, sum2 := ?_ }
      · rw [cnt_succ, if_neg lf, ← ci.j_eq]; rfl
      · intro q hq lq
        by_cases e : q = i
        · subst e; exact absurd lq lf
        · exact ci.moved q (by omega) lq
      · have l1 : leafSum h0 (i + 1) = leafSum h0 i := by
          show leafSum h0 i + (if isLeaf h0.son i then rd h0.freq i else 0) = _
          rw [if_neg lf]; rfl
        rw [l1]; exact ci.sum2

/-! ### `reconst`, second loop: invariant "the first `NCHAR + n` slots are a sorted forest" -/

/-- after `n` iterations of the second loop of `reconst`: the first `NCHAR + n` slots are sorted by
weight; the internal ones among them have their (even-aligned) children pair below `2n` and below
themselves and carry the sum of the children's weights; each pair `2t`, `t < n`, and each symbol has
exactly one slot pointing to it; the unparented slots `[2n, NCHAR + n)` weigh `L` in total. -/
structure Prefix (h : Huff) (n L : Nat) : Prop where
  sz_freq : h.freq.size = T + 1
  sz_son : h.son.size = T
  sentinel : rd h.freq T = 0xffff
  sorted : ∀ x, x + 1 < NCHAR + n → rd h.freq x ≤ rd h.freq (x + 1)
  pos : ∀ x, x < NCHAR + n → 1 ≤ rd h.freq x
  int : ∀ x, x < NCHAR + n → rd h.son x < T →
    rd h.son x % 2 = 0 ∧ rd h.son x < 2 * n ∧ rd h.son x + 1 < x ∧
      rd h.freq x = rd h.freq (rd h.son x) + rd h.freq (rd h.son x + 1)
  leaf : ∀ x, x < NCHAR + n → T ≤ rd h.son x → rd h.son x < T + NCHAR
  inj : ∀ x y, x < NCHAR + n → y < NCHAR + n → rd h.son x = rd h.son y → x = y
  surj_int : ∀ t, t < n → ∃ x, x < NCHAR + n ∧ rd h.son x = 2 * t
  surj_leaf : ∀ c, c < NCHAR → ∃ x, x < NCHAR + n ∧ rd h.son x = c + T
  total : sumTo (fun x => rd h.freq (2 * n + x)) (NCHAR - n) = L

theorem collect_prefix {h0 h1 : Huff} (w : HuffWF h0) (ci : CollectInv h0 h1 T NCHAR) :
    Prefix h1 0 (sumTo (rd h1.freq) NCHAR) := by
  have cT : cnt (isLeaf h0.son) T = NCHAR := w.toHuffS.leaf_count
  have back : ∀ x, x < NCHAR → ∃ q, q < T ∧ T ≤ rd h0.son q ∧ cnt (isLeaf h0.son) q = x ∧
      rd h1.son x = rd h0.son q ∧ rd h1.freq x = (rd h0.freq q + 1) / 2 := by
    intro x hx
    obtain ⟨q, q1, q2, q3⟩ := cnt_surj (isLeaf h0.son) T x (by rw [cT]; exact hx)
    have m := ci.moved q q1 q2
    rw [q3] at m
    exact ⟨q, q1, by simpa [isLeaf] using q2, q3, m.1, m.2⟩
  refine { sz_freq := by rw [ci.sz_freq, w.sz_freq], sz_son := by rw [ci.sz_son, w.sz_son], sentinel := ?_,
           sorted := ?_, pos := ?_, int := ?_, leaf := ?_, inj := ?_, surj_int := ?_, surj_leaf := ?_, total := ?_ }
  · rw [ci.rest_freq T (by simp only [T_eq, NCHAR_eq]; omega)]; exact w.sentinel
  · intro x hx
    obtain ⟨q, q1, q2, q3, _, q5⟩ := back x (by omega)
    obtain ⟨q', q1', q2', q3', _, q5'⟩ := back (x + 1) (by omega)
    have : q < q' := by
      apply Nat.lt_of_not_le; intro hle
      have := cnt_mono (isLeaf h0.son) q' q hle; omega
    have := sorted_mono h0.freq T w.sorted q' q (by omega) (by omega)
    rw [q5, q5']; omega
  · intro x hx
    obtain ⟨q, q1, _, _, _, q5⟩ := back x (by omega)
    have := w.pos q q1; rw [q5]; omega
  · intro x hx hs
    obtain ⟨q, _, q2, _, q4, _⟩ := back x (by omega)
    omega
  · intro x hx hs
    obtain ⟨q, q1, q2, _, q4, _⟩ := back x (by omega)
    rw [q4]; exact (w.son_leaf q q1 q2).1
  · intro x y hx hy e
    obtain ⟨q, q1, q2, q3, q4, _⟩ := back x (by omega)
    obtain ⟨q', q1', q2', q3', q4', _⟩ := back y (by omega)
    have a := (w.son_leaf q q1 q2).2
    have b := (w.son_leaf q' q1' q2').2
    rw [q4, q4'] at e; rw [e] at a
    have : q = q' := by omega
    subst this; omega
  · intro t ht; omega
  · intro c hc
    have ⟨p1, p2⟩ := w.prnt_leaf c hc
    have lf : isLeaf h0.son (rd h0.prnt (c + T)) = true := by
      simp only [isLeaf, decide_eq_true_eq]; omega
    have m := ci.moved _ p1 lf
    refine ⟨cnt (isLeaf h0.son) (rd h0.prnt (c + T)), ?_, by rw [m.1, p2]⟩
    have := cnt_lt_of_lt (isLeaf h0.son) _ T p1 lf
    omega
  · apply sumTo_congr; intro x _; rw [show 2 * 0 + x = x by omega]

theorem findSlot_spec (freq : Array Nat) (f : Nat) : ∀ fuel k, k ≤ fuel →
    findSlot freq f k fuel ≤ k ∧ (∀ x, findSlot freq f k fuel ≤ x → x < k → f < rd freq x) ∧
    (findSlot freq f k fuel = 0 ∨ rd freq (findSlot freq f k fuel - 1) ≤ f) := by
  intro fuel
  induction fuel with
  | zero => intro k hk; simp only [findSlot]; exact ⟨Nat.le_refl _, by intro x h1 h2; omega, by omega⟩
  | succ fuel ih =>
    intro k hk
    simp only [findSlot]
    split
    · rename_i hc
      have ⟨a1, a2, a3⟩ := ih (k - 1) (by omega)
      refine ⟨by omega, ?_, a3⟩
      intro x h1 h2
      by_cases e : x = k - 1
      · rw [e]; exact hc.2
      · exact a2 x h1 (by omega)
    · rename_i hc
      refine ⟨Nat.le_refl _, by intro x h1 h2; omega, ?_⟩
      by_cases e : k = 0
      · exact Or.inl e
      · right; apply Nat.le_of_not_lt; intro hlt; exact hc ⟨by omega, hlt⟩

theorem size_shiftRight (a : Array Nat) (k last : Nat) : (shiftRight a k last).size = a.size := by
  induction last generalizing a with
  | zero => rfl
  | succ last ih => simp only [shiftRight]; rw [ih]; simp

theorem rd_shiftRight (k : Nat) : ∀ last (a : Array Nat) (x : Nat), k + last < a.size →
    rd (shiftRight a k last) x = if k < x ∧ x ≤ k + last then rd a (x - 1) else rd a x := by
  intro last
  induction last with
  | zero => intro a x _; simp only [shiftRight]; rw [if_neg (by omega)]
  | succ last ih =>
    intro a x hsz
    simp only [shiftRight]
    rw [ih _ x (by simp; omega)]
    by_cases c1 : k < x ∧ x ≤ k + last
    · rw [if_pos c1, if_pos (by omega), rd_wr_ne _ _ _ _ (by omega)]
    · rw [if_neg c1]
      by_cases c2 : x = k + last + 1
      · subst c2
        rw [if_pos (by omega), rd_wr_same _ _ _ (by omega)]; rfl
      · rw [if_neg (by omega), rd_wr_ne _ _ _ _ (by omega)]

/-- insertion at `k` into the prefix `[0, j)`: slots `k..j-1` move up by one -/
theorem rd_insert (a : Array Nat) (k j v x : Nat) (hk : k ≤ j) (hj : j < a.size) :
    rd (wr (shiftRight a k (j - k)) k v) x =
      if x = k then v else if k < x ∧ x ≤ j then rd a (x - 1) else rd a x := by
  by_cases e : x = k
  · subst e; rw [rd_wr_same _ _ _ (by rw [size_shiftRight]; omega), if_pos rfl]
  · rw [rd_wr_ne _ _ _ _ (by omega), if_neg e, rd_shiftRight k _ a x (by omega)]
    rw [show k + (j - k) = j by omega]

/-- one iteration of the second loop in functional form: the new node `(f, son = 2n)` is inserted at slot `k` -/
structure Inserted (h h' : Huff) (n k : Nat) : Prop where
  sz_freq : h'.freq.size = h.freq.size
  sz_son : h'.son.size = h.son.size
  k_lo : 2 * n + 2 ≤ k
  k_hi : k ≤ NCHAR + n
  below : rd h.freq (k - 1) ≤ rd h.freq (2 * n) + rd h.freq (2 * n + 1)
  above : ∀ x, k ≤ x → x < NCHAR + n → rd h.freq (2 * n) + rd h.freq (2 * n + 1) < rd h.freq x
  freq : ∀ x, rd h'.freq x =
    if x = k then rd h.freq (2 * n) + rd h.freq (2 * n + 1)
    else if k < x ∧ x ≤ NCHAR + n then rd h.freq (x - 1) else rd h.freq x
  son : ∀ x, rd h'.son x =
    if x = k then 2 * n else if k < x ∧ x ≤ NCHAR + n then rd h.son (x - 1) else rd h.son x

theorem buildStep_inserted {h : Huff} {n L : Nat} (pre : Prefix h n L) (hn : n < 313) :
    ∃ k, Inserted h (buildStep h n) n k := by
  have e : buildStep h n =
      { h with
        freq := wr (shiftRight (wr h.freq (NCHAR + n) (rd h.freq (2 * n) + rd h.freq (2 * n + 1)))
          (findSlot (wr h.freq (NCHAR + n) (rd h.freq (2 * n) + rd h.freq (2 * n + 1)))
            (rd h.freq (2 * n) + rd h.freq (2 * n + 1)) (NCHAR + n) T)
          (NCHAR + n - findSlot (wr h.freq (NCHAR + n) (rd h.freq (2 * n) + rd h.freq (2 * n + 1)))
            (rd h.freq (2 * n) + rd h.freq (2 * n + 1)) (NCHAR + n) T))
          (findSlot (wr h.freq (NCHAR + n) (rd h.freq (2 * n) + rd h.freq (2 * n + 1)))
            (rd h.freq (2 * n) + rd h.freq (2 * n + 1)) (NCHAR + n) T)
          (rd h.freq (2 * n) + rd h.freq (2 * n + 1)),
        son := wr (shiftRight h.son
          (findSlot (wr h.freq (NCHAR + n) (rd h.freq (2 * n) + rd h.freq (2 * n + 1)))
            (rd h.freq (2 * n) + rd h.freq (2 * n + 1)) (NCHAR + n) T)
          (NCHAR + n - findSlot (wr h.freq (NCHAR + n) (rd h.freq (2 * n) + rd h.freq (2 * n + 1)))
            (rd h.freq (2 * n) + rd h.freq (2 * n + 1)) (NCHAR + n) T))
          (findSlot (wr h.freq (NCHAR + n) (rd h.freq (2 * n) + rd h.freq (2 * n + 1)))
            (rd h.freq (2 * n) + rd h.freq (2 * n + 1)) (NCHAR + n) T)
          (2 * n) } := rfl
  rw [e]
  generalize hf : rd h.freq (2 * n) + rd h.freq (2 * n + 1) = f
  have ⟨a1, a2, a3⟩ := findSlot_spec (wr h.freq (NCHAR + n) f) f T (NCHAR + n) (by simp only [T_eq, NCHAR_eq]; omega)
  generalize hk : findSlot (wr h.freq (NCHAR + n) f) f (NCHAR + n) T = k at *
  have hj : NCHAR + n < T := by simp only [T_eq, NCHAR_eq]; omega
  have hi : 2 * n + 1 < NCHAR + n := by simp only [NCHAR_eq]; omega
  have klo : 2 * n + 2 ≤ k := by
    apply Nat.le_of_not_lt; intro hlt
    have := a2 (2 * n + 1) (by omega) hi
    rw [rd_wr_ne _ _ _ _ (by omega)] at this; omega
  refine ⟨k, { sz_freq := ?_, sz_son := ?_, k_lo := klo, k_hi := a1, below := ?_, above := ?_, freq := ?_, son := ?_ }⟩
  · simp [size_shiftRight]
  · simp [size_shiftRight]
  · rcases a3 with a3 | a3
    · omega
    · rw [rd_wr_ne _ _ _ _ (by omega)] at a3; rw [hf]; exact a3
  · intro x h1 h2
    have := a2 x h1 h2
    rw [rd_wr_ne _ _ _ _ (by omega)] at this; rw [hf]; exact this
  · intro x
    rw [hf]
    show rd (wr (shiftRight (wr h.freq (NCHAR + n) f) k (NCHAR + n - k)) k f) x = _
    rw [rd_insert _ k (NCHAR + n) f x a1 (by rw [size_wr, pre.sz_freq]; omega)]
    by_cases c1 : x = k
    · rw [if_pos c1, if_pos c1]
    · rw [if_neg c1, if_neg c1]
      by_cases c2 : k < x ∧ x ≤ NCHAR + n
      · rw [if_pos c2, if_pos c2, rd_wr_ne _ _ _ _ (by omega)]
      · rw [if_neg c2, if_neg c2, rd_wr_ne _ _ _ _ (by omega)]
  · intro x
    show rd (wr (shiftRight h.son k (NCHAR + n - k)) k (2 * n)) x = _
    rw [rd_insert _ k (NCHAR + n) (2 * n) x a1 (by rw [pre.sz_son]; omega)]

section ins
variable {h h' : Huff} {n k L : Nat}

theorem Inserted.at_lt (ins : Inserted h h' n k) (y : Nat) (hy : y < k) :
    rd h'.freq y = rd h.freq y ∧ rd h'.son y = rd h.son y := by
  constructor
  · rw [ins.freq y, if_neg (by omega), if_neg (by omega)]
  · rw [ins.son y, if_neg (by omega), if_neg (by omega)]

theorem Inserted.at_k (ins : Inserted h h' n k) :
    rd h'.freq k = rd h.freq (2 * n) + rd h.freq (2 * n + 1) ∧ rd h'.son k = 2 * n := by
  rw [ins.freq k, ins.son k, if_pos rfl, if_pos rfl]; exact ⟨rfl, rfl⟩

theorem Inserted.at_gt (ins : Inserted h h' n k) (y : Nat) (h1 : k < y) (h2 : y ≤ NCHAR + n) :
    rd h'.freq y = rd h.freq (y - 1) ∧ rd h'.son y = rd h.son (y - 1) := by
  constructor
  · rw [ins.freq y, if_neg (by omega), if_pos ⟨h1, h2⟩]
  · rw [ins.son y, if_neg (by omega), if_pos ⟨h1, h2⟩]

theorem Inserted.at_out (ins : Inserted h h' n k) (y : Nat) (h2 : NCHAR + n < y) :
    rd h'.freq y = rd h.freq y ∧ rd h'.son y = rd h.son y := by
  have := ins.k_hi
  constructor
  · rw [ins.freq y, if_neg (by omega), if_neg (by omega)]
  · rw [ins.son y, if_neg (by omega), if_neg (by omega)]

/-- old slot `x` is found at `x` (below `k`) or `x + 1` (from `k` on) -/
theorem Inserted.moved (ins : Inserted h h' n k) (x : Nat) (hx : x < NCHAR + n) :
    ∃ y, y < NCHAR + (n + 1) ∧ y ≠ k ∧ rd h'.freq y = rd h.freq x ∧ rd h'.son y = rd h.son x := by
  by_cases c : x < k
  · exact ⟨x, by omega, by omega, (ins.at_lt x c).1, (ins.at_lt x c).2⟩
  · have := ins.at_gt (x + 1) (by omega) (by omega)
    exact ⟨x + 1, by omega, by omega, this.1, this.2⟩

/-- new slot `y ≠ k` comes from an old slot -/
theorem Inserted.origin (ins : Inserted h h' n k) (y : Nat) (hy : y < NCHAR + (n + 1)) (hk : y ≠ k) :
    ∃ x, x < NCHAR + n ∧ x ≤ y ∧ (x < k ↔ y < k) ∧ ((y < k ∧ x = y) ∨ (k < y ∧ x + 1 = y)) ∧
      rd h'.freq y = rd h.freq x ∧ rd h'.son y = rd h.son x := by
  have := ins.k_hi
  by_cases c : y < k
  · exact ⟨y, by omega, by omega, by omega, by omega, (ins.at_lt y c).1, (ins.at_lt y c).2⟩
  · have := ins.at_gt y (by omega) (by omega)
    exact ⟨y - 1, by omega, by omega, by omega, by omega, this.1, this.2⟩

theorem Inserted.sorted (ins : Inserted h h' n k) (pre : Prefix h n L) :
    ∀ y, y + 1 < NCHAR + (n + 1) → rd h'.freq y ≤ rd h'.freq (y + 1) := by
  intro y hy
  have := ins.k_lo; have := ins.k_hi
  by_cases c1 : y + 1 < k
  · rw [(ins.at_lt y (by omega)).1, (ins.at_lt (y + 1) c1).1]; exact pre.sorted y (by omega)
  · by_cases c2 : y + 1 = k
    · rw [(ins.at_lt y (by omega)).1, c2, ins.at_k.1]
      have := ins.below; rw [show k - 1 = y by omega] at this; exact this
    · by_cases c3 : y = k
      · rw [c3, ins.at_k.1, (ins.at_gt (k + 1) (by omega) (by omega)).1]
        exact Nat.le_of_lt (ins.above k (Nat.le_refl _) (by omega))
      · rw [(ins.at_gt y (by omega) (by omega)).1, (ins.at_gt (y + 1) (by omega) (by omega)).1]
        have := pre.sorted (y - 1) (by omega)
        rw [show y - 1 + 1 = y by omega] at this
        exact this

theorem Inserted.pos (ins : Inserted h h' n k) (pre : Prefix h n L) (hn : n < 313) :
    ∀ y, y < NCHAR + (n + 1) → 1 ≤ rd h'.freq y := by
  intro y hy
  by_cases c : y = k
  · rw [c, ins.at_k.1]; have := pre.pos (2 * n) (by simp only [NCHAR_eq]; omega); omega
  · obtain ⟨x, x1, _, _, _, x3, _⟩ := ins.origin y hy c
    rw [x3]; exact pre.pos x x1

theorem Inserted.int (ins : Inserted h h' n k) (pre : Prefix h n L) :
    ∀ y, y < NCHAR + (n + 1) → rd h'.son y < T →
      rd h'.son y % 2 = 0 ∧ rd h'.son y < 2 * (n + 1) ∧ rd h'.son y + 1 < y ∧
        rd h'.freq y = rd h'.freq (rd h'.son y) + rd h'.freq (rd h'.son y + 1) := by
  intro y hy hs
  have := ins.k_lo; have := ins.k_hi
  by_cases c : y = k
  · rw [c, ins.at_k.2, ins.at_k.1, (ins.at_lt (2 * n) (by omega)).1, (ins.at_lt (2 * n + 1) (by omega)).1]
    exact ⟨by omega, by omega, by omega, rfl⟩
  · obtain ⟨x, x1, x2, _, _, x3, x4⟩ := ins.origin y hy c
    rw [x4] at hs ⊢; rw [x3]
    have p := pre.int x x1 hs
    rw [(ins.at_lt _ (by omega)).1, (ins.at_lt _ (by omega)).1]
    exact ⟨p.1, by omega, by omega, p.2.2.2⟩

theorem Inserted.leaf (ins : Inserted h h' n k) (pre : Prefix h n L) :
    ∀ y, y < NCHAR + (n + 1) → T ≤ rd h'.son y → rd h'.son y < T + NCHAR := by
  intro y hy hs
  by_cases c : y = k
  · rw [c, ins.at_k.2] at hs; have := ins.k_lo; have := ins.k_hi; simp only [T_eq, NCHAR_eq] at *; omega
  · obtain ⟨x, x1, _, _, _, _, x4⟩ := ins.origin y hy c
    rw [x4] at hs ⊢; exact pre.leaf x x1 hs


theorem Inserted.inj (ins : Inserted h h' n k) (pre : Prefix h n L) :
    ∀ y y', y < NCHAR + (n + 1) → y' < NCHAR + (n + 1) → rd h'.son y = rd h'.son y' → y = y' := by
  have key : ∀ y', y' < NCHAR + (n + 1) → y' ≠ k → rd h'.son y' ≠ 2 * n := by
    intro y' hy' c' e
    obtain ⟨x, x1, _, _, _, _, x4⟩ := ins.origin y' hy' c'
    rw [x4] at e
    have := pre.int x x1 (by rw [e]; have := ins.k_hi; have := ins.k_lo; simp only [T_eq, NCHAR_eq] at *; omega)
    omega
  intro y y' hy hy' e
  by_cases c : y = k
  · by_cases c' : y' = k
    · omega
    · rw [c, ins.at_k.2] at e; exact absurd e.symm (key y' hy' c')
  · by_cases c' : y' = k
    · rw [c', ins.at_k.2] at e; exact absurd e (key y hy c)
    · obtain ⟨x, x1, _, _, xa, _, x4⟩ := ins.origin y hy c
      obtain ⟨x', x1', _, _, xa', _, x4'⟩ := ins.origin y' hy' c'
      rw [x4, x4'] at e
      have := pre.inj x x' x1 x1' e
      omega

theorem Inserted.surj_int (ins : Inserted h h' n k) (pre : Prefix h n L) :
    ∀ t, t < n + 1 → ∃ y, y < NCHAR + (n + 1) ∧ rd h'.son y = 2 * t := by
  intro t ht
  by_cases c : t = n
  · subst c; exact ⟨k, by have := ins.k_hi; omega, ins.at_k.2⟩
  · obtain ⟨x, x1, x2⟩ := pre.surj_int t (by omega)
    obtain ⟨y, y1, _, _, y4⟩ := ins.moved x x1
    exact ⟨y, y1, by rw [y4, x2]⟩

theorem Inserted.surj_leaf (ins : Inserted h h' n k) (pre : Prefix h n L) :
    ∀ c, c < NCHAR → ∃ y, y < NCHAR + (n + 1) ∧ rd h'.son y = c + T := by
  intro c hc
  obtain ⟨x, x1, x2⟩ := pre.surj_leaf c hc
  obtain ⟨y, y1, _, _, y4⟩ := ins.moved x x1
  exact ⟨y, y1, by rw [y4, x2]⟩

theorem sumTo_succ_front (g : Nat → Nat) (n : Nat) : sumTo g (n + 1) = g 0 + sumTo (fun x => g (x + 1)) n := by
  induction n with
  | zero => simp [sumTo]
  | succ n ih => rw [sumTo, ih]; simp only [sumTo]; omega

theorem Inserted.total (ins : Inserted h h' n k) (pre : Prefix h n L) (hn : n < 313) :
    sumTo (fun x => rd h'.freq (2 * (n + 1) + x)) (NCHAR - (n + 1)) = L := by
  have klo := ins.k_lo; have khi := ins.k_hi
  rw [← pre.total]
  obtain ⟨a, ha⟩ : ∃ a, k = 2 * n + 2 + a := ⟨k - (2 * n + 2), by omega⟩
  obtain ⟨b, hb⟩ : ∃ b, NCHAR + n = k + b := ⟨NCHAR + n - k, by omega⟩
  have e1 : NCHAR - (n + 1) = a + (b + 1) := by omega
  have e2 : NCHAR - n = (a + b) + 1 + 1 := by omega
  rw [e1, e2, sumTo_succ_front, sumTo_succ_front, sumTo_split, sumTo_succ_front, sumTo_split]
  have s1 : sumTo (fun x => rd h'.freq (2 * (n + 1) + x)) a = sumTo (fun x => rd h.freq (2 * n + (x + 1 + 1))) a := by
    apply sumTo_congr; intro x hx
    show rd h'.freq (2 * (n + 1) + x) = rd h.freq (2 * n + (x + 1 + 1))
    rw [(ins.at_lt _ (by omega)).1]; congr 1; omega
  have s2 : sumTo (fun x => rd h'.freq (2 * (n + 1) + (a + (x + 1)))) b =
      sumTo (fun x => rd h.freq (2 * n + (a + x + 1 + 1))) b := by
    apply sumTo_congr; intro x hx
    show rd h'.freq (2 * (n + 1) + (a + (x + 1))) = rd h.freq (2 * n + (a + x + 1 + 1))
    rw [(ins.at_gt _ (by omega) (by omega)).1]; congr 1; omega
  have s3 : rd h'.freq (2 * (n + 1) + (a + 0)) = rd h.freq (2 * n + 0) + rd h.freq (2 * n + (0 + 1)) := by
    rw [show 2 * (n + 1) + (a + 0) = k by omega, ins.at_k.1]; rfl
  rw [s1, s2, s3]; omega

theorem Inserted.prefix (ins : Inserted h h' n k) (pre : Prefix h n L) (hn : n < 313) : Prefix h' (n + 1) L :=
  { sz_freq := by rw [ins.sz_freq, pre.sz_freq], sz_son := by rw [ins.sz_son, pre.sz_son],
    sentinel := by rw [(ins.at_out T (by simp only [T_eq, NCHAR_eq]; omega)).1]; exact pre.sentinel,
    sorted := ins.sorted pre, pos := ins.pos pre hn, int := ins.int pre, leaf := ins.leaf pre,
    inj := ins.inj pre, surj_int := ins.surj_int pre, surj_leaf := ins.surj_leaf pre, total := ins.total pre hn }

end ins

theorem buildLoop_prefix {h : Huff} {L : Nat} (pre : Prefix h 0 L) : ∀ n, n ≤ 313 → Prefix (buildLoop h n) n L := by
  intro n
  induction n with
  | zero => intro _; exact pre
  | succ n ih =>
    intro hn
    have p := ih (by omega)
    obtain ⟨k, ins⟩ := buildStep_inserted p (by omega)
    exact ins.prefix p (by omega)

theorem buildStep_frame (h : Huff) (n : Nat) :
    (buildStep h n).prnt = h.prnt ∧ (buildStep h n).oob = h.oob ∧ (buildStep h n).spin = h.spin := ⟨rfl, rfl, rfl⟩

theorem buildLoop_frame (h : Huff) (n : Nat) :
    (buildLoop h n).prnt = h.prnt ∧ (buildLoop h n).oob = h.oob ∧ (buildLoop h n).spin = h.spin := by
  induction n with
  | zero => exact ⟨rfl, rfl, rfl⟩
  | succ n ih =>
    have := buildStep_frame (buildLoop h n) n
    simp only [buildLoop]
    exact ⟨this.1.trans ih.1, this.2.1.trans ih.2.1, this.2.2.trans ih.2.2⟩

/-! ### `reconst`, third loop: parents -/

theorem connect_frame (h : Huff) (i : Nat) :
    (connect h i).freq = h.freq ∧ (connect h i).son = h.son ∧ (connect h i).oob = h.oob ∧
    (connect h i).spin = h.spin ∧ (connect h i).prnt.size = h.prnt.size := by
  induction i with
  | zero => exact ⟨rfl, rfl, rfl, rfl, rfl⟩
  | succ i ih =>
    simp only [connect]
    split
    · exact ⟨ih.1, ih.2.1, ih.2.2.1, ih.2.2.2.1, by simp [ih.2.2.2.2]⟩
    · exact ⟨ih.1, ih.2.1, ih.2.2.1, ih.2.2.2.1, by simp [ih.2.2.2.2]⟩

theorem NCHAR_313 : NCHAR + 313 = T := by decide

section final
variable {h : Huff} {L : Nat}
theorem Prefix.int_T (pre : Prefix h 313 L) : ∀ x, x < T → rd h.son x < T →
    rd h.son x % 2 = 0 ∧ rd h.son x < 2 * 313 ∧ rd h.son x + 1 < x ∧
      rd h.freq x = rd h.freq (rd h.son x) + rd h.freq (rd h.son x + 1) :=
  fun x hx => pre.int x (by rw [NCHAR_313]; exact hx)
theorem Prefix.leaf_T (pre : Prefix h 313 L) : ∀ x, x < T → T ≤ rd h.son x → rd h.son x < T + NCHAR :=
  fun x hx => pre.leaf x (by rw [NCHAR_313]; exact hx)
theorem Prefix.inj_T (pre : Prefix h 313 L) : ∀ x y, x < T → y < T → rd h.son x = rd h.son y → x = y :=
  fun x y hx hy => pre.inj x y (by rw [NCHAR_313]; exact hx) (by rw [NCHAR_313]; exact hy)
theorem Prefix.sorted_T (pre : Prefix h 313 L) : ∀ x, x + 1 < T → rd h.freq x ≤ rd h.freq (x + 1) :=
  fun x hx => pre.sorted x (by rw [NCHAR_313]; exact hx)
theorem Prefix.pos_T (pre : Prefix h 313 L) : ∀ x, x < T → 1 ≤ rd h.freq x :=
  fun x hx => pre.pos x (by rw [NCHAR_313]; exact hx)
theorem Prefix.surj_int_T (pre : Prefix h 313 L) : ∀ t, t < 313 → ∃ x, x < T ∧ rd h.son x = 2 * t := by
  intro t ht; obtain ⟨x, x1, x2⟩ := pre.surj_int t ht; exact ⟨x, by rw [← NCHAR_313]; exact x1, x2⟩
theorem Prefix.surj_leaf_T (pre : Prefix h 313 L) : ∀ c, c < NCHAR → ∃ x, x < T ∧ rd h.son x = c + T := by
  intro c hc; obtain ⟨x, x1, x2⟩ := pre.surj_leaf c hc; exact ⟨x, by rw [← NCHAR_313]; exact x1, x2⟩
end final

/-- distinct slots of the finished forest point to disjoint node (pairs) -/
theorem Prefix.sep {h : Huff} {L : Nat} (pre : Prefix h 313 L) (x i : Nat) (hx : x < T) (hi : i < T) (hne : x ≠ i) :
    rd h.son x ≠ rd h.son i ∧ (rd h.son i < T → rd h.son x ≠ rd h.son i + 1) ∧
    (rd h.son x < T → rd h.son x + 1 ≠ rd h.son i) := by
  have fx := pre.int_T x hx; have fi := pre.int_T i hi
  have ne : rd h.son x ≠ rd h.son i := fun e' => hne (pre.inj_T x i hx hi e')
  refine ⟨ne, ?_, ?_⟩
  · intro ci e'
    by_cases cx : rd h.son x < T
    · have := fx cx; have := fi ci; omega
    · have := fi ci; omega
  · intro cx e'
    by_cases ci : rd h.son i < T
    · have := fx cx; have := fi ci; omega
    · have := fx cx; omega

theorem connect_spec {h : Huff} {L : Nat} (pre : Prefix h 313 L) (hp : h.prnt.size = T + NCHAR) :
    ∀ i, i ≤ T →
      (∀ x, x < i → rd (connect h i).prnt (rd h.son x) = x ∧
        (rd h.son x < T → rd (connect h i).prnt (rd h.son x + 1) = x)) ∧
      rd (connect h i).prnt R = rd h.prnt R := by
  intro i
  induction i with
  | zero => intro _; exact ⟨by intro x hx; omega, rfl⟩
  | succ i ih =>
    intro hi
    have ⟨ih1, ih2⟩ := ih (by omega)
    have fr := connect_frame h i
    have fi := pre.int_T i (by omega); have li := pre.leaf_T i (by omega)
    simp only [connect]
    rw [fr.2.1]
    split
    · rename_i hk
      have kl := li hk
      refine ⟨?_, ?_⟩
      · intro x hx
        show rd (wr _ _ _) _ = x ∧ (_ → rd (wr _ _ _) _ = x)
        by_cases c : x = i
        · subst c
          exact ⟨rd_wr_same _ _ _ (by rw [fr.2.2.2.2, hp]; omega), by intro h'; omega⟩
        · have sp := pre.sep x i (by omega) (by omega) c
          have := ih1 x (by omega)
          refine ⟨by rw [rd_wr_ne _ _ _ _ (fun e' => sp.1 e'.symm)]; exact this.1, ?_⟩
          intro cx
          rw [rd_wr_ne _ _ _ _ (fun e' => sp.2.2 cx e'.symm)]; exact this.2 cx
      · show rd (wr _ _ _) _ = _
        rw [rd_wr_ne _ _ _ _ (by simp only [R_eq, T_eq] at *; omega)]; exact ih2
    · rename_i hk
      have ki := fi (by omega)
      refine ⟨?_, ?_⟩
      · intro x hx
        show rd (wr (wr _ _ _) _ _) _ = x ∧ (_ → rd (wr (wr _ _ _) _ _) _ = x)
        by_cases c : x = i
        · subst c
          refine ⟨rd_wr_same _ _ _ (by rw [size_wr, fr.2.2.2.2, hp]; omega), ?_⟩
          intro _
          rw [rd_wr_ne _ _ _ _ (by omega), rd_wr_same _ _ _ (by rw [fr.2.2.2.2, hp]; omega)]
        · have sp := pre.sep x i (by omega) (by omega) c
          have := ih1 x (by omega)
          refine ⟨?_, ?_⟩
          · rw [rd_wr_ne _ _ _ _ (fun e' => sp.1 e'.symm),
              rd_wr_ne _ _ _ _ (fun e' => sp.2.1 (by omega) e'.symm)]; exact this.1
          · intro cx
            rw [rd_wr_ne _ _ _ _ (fun e' => sp.2.2 cx e'.symm),
              rd_wr_ne _ _ _ _ (fun e' => sp.1 (by omega))]; exact this.2 cx
      · show rd (wr (wr _ _ _) _ _) _ = _
        rw [rd_wr_ne _ _ _ _ (by simp only [R_eq, T_eq] at *; omega),
          rd_wr_ne _ _ _ _ (by simp only [R_eq, T_eq] at *; omega)]; exact ih2

/-! ### `reconst` re-establishes the invariant and halves the root weight -/

theorem reconst_eq (h : Huff) : reconst h = connect (buildLoop (collectLeaves h 0 0 T).1 313) T := rfl

theorem reconst_preserves {h : Huff} (w : HuffWF h) (hmax : rd h.freq R = MAXFREQ) :
    HuffWF (reconst h) ∧ rd (reconst h).freq R < MAXFREQ := by
  rw [reconst_eq]
  have ci0 : CollectInv h h 0 0 :=
    { sz_freq := rfl, sz_son := rfl, prnt := rfl, oob := rfl, spin := rfl, j_eq := rfl,
      rest_son := fun _ _ => rfl, rest_freq := fun _ _ => rfl, moved := fun q hq => absurd hq (Nat.not_lt_zero _),
      sum2 := Nat.zero_le _ }
  have ci := collectLeaves_inv h w.sz_freq w.sz_son T h 0 0 (by omega) ci0
  rw [Nat.zero_add] at ci
  have hj : (collectLeaves h 0 0 T).2 = NCHAR := by rw [ci.j_eq]; exact w.toHuffS.leaf_count
  rw [hj] at ci
  generalize (collectLeaves h 0 0 T).1 = h1 at ci
  have pre0 := collect_prefix w ci
  have hL : 2 * sumTo (rd h1.freq) NCHAR ≤ MAXFREQ + NCHAR := by
    have := ci.sum2; rw [leafSum_eq_root w.toHuffS w.sum, hmax] at this; exact this
  generalize sumTo (rd h1.freq) NCHAR = L at pre0 hL
  have pre := buildLoop_prefix pre0 313 (Nat.le_refl _)
  have fr := buildLoop_frame h1 313
  generalize buildLoop h1 313 = h2 at pre fr
  have hp : h2.prnt.size = T + NCHAR := by rw [fr.1, ci.prnt]; exact w.sz_prnt
  have ⟨cs1, cs2⟩ := connect_spec pre hp T (Nat.le_refl _)
  have cf := connect_frame h2 T
  generalize connect h2 T = h3 at cs1 cs2 cf
  have hroot : rd h2.freq R = L := by
    have := pre.total
    rw [show NCHAR - 313 = 1 by decide] at this
    simp only [sumTo] at this
    rw [← this]; simp [R_eq]
  have hLle : L < MAXFREQ := by simp only [MAXFREQ_eq, NCHAR_eq] at *; omega
  obtain ⟨e1, e2, e3, e4, e5⟩ := cf
  refine ⟨{ sz_freq := by rw [e1]; exact pre.sz_freq, sz_prnt := by rw [e5]; exact hp,
            sz_son := by rw [e2]; exact pre.sz_son,
            son_int := ?_, son_leaf := ?_, prnt_lt := ?_, prnt_leaf := ?_, prnt_root := ?_,
            oob := by rw [e3, fr.2.1, ci.oob]; exact w.oob, spin := by rw [e4, fr.2.2, ci.spin]; exact w.spin,
            sorted := ?_, sentinel := by rw [e1]; exact pre.sentinel, pos := by rw [e1]; exact pre.pos_T,
            sum := ?_, root_le := by rw [e1, hroot]; omega }, by rw [e1, hroot]; exact hLle⟩
  · intro i hi hs
    rw [e2] at hs ⊢
    have f := pre.int_T i hi hs
    have c := cs1 i hi
    exact ⟨f.1, f.2.2.1, c.1, c.2 hs⟩
  · intro i hi hs
    rw [e2] at hs ⊢
    exact ⟨pre.leaf_T i hi hs, (cs1 i hi).1⟩
  · intro k hk
    rw [e2]
    obtain ⟨x, x1, x2⟩ := pre.surj_int_T (k / 2) (by simp only [R_eq] at hk; omega)
    have c := cs1 x x1
    have xs : rd h2.son x < T := by rw [x2]; simp only [R_eq, T_eq] at *; omega
    have pk : rd h3.prnt k = x := by
      by_cases par : k % 2 = 0
      · have := c.1; rw [x2, show 2 * (k / 2) = k by omega] at this; exact this
      · have := c.2 xs; rw [x2, show 2 * (k / 2) + 1 = k by omega] at this; exact this
    rw [pk, x2]; exact ⟨x1, by omega⟩
  · intro c hc
    rw [e2]
    obtain ⟨x, x1, x2⟩ := pre.surj_leaf_T c hc
    have := (cs1 x x1).1; rw [x2] at this
    rw [this, x2]; exact ⟨x1, rfl⟩
  · rw [cs2, fr.1, ci.prnt]; exact w.prnt_root
  · intro i hi
    rw [e1]
    by_cases c : i + 1 < T
    · exact pre.sorted_T i c
    · have : i = R := by simp only [R_eq, T_eq] at *; omega
      subst this
      rw [show R + 1 = T from rfl, pre.sentinel, hroot]; simp only [MAXFREQ_eq] at hLle; omega
  · intro i hi hs
    rw [e1, e2] at *
    exact (pre.int_T i hi hs).2.2.2

end Wl2k.Lzhuf
