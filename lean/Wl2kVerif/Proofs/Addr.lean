import Wl2kVerif.Msg.Addr
import Wl2kVerif.Proofs.Strings
/-
`AddressFromString` / `Address.String`: idempotence on the address forms the property names.
-/
namespace Wl2k.Str

theorem upperByte_facts_aux : ∀ n, n < 256 →
    (upperByte (UInt8.ofNat n) = 58 ↔ UInt8.ofNat n = 58) ∧ (upperByte (UInt8.ofNat n) = 64 ↔ UInt8.ofNat n = 64) ∧
    upperByte (upperByte (UInt8.ofNat n)) = upperByte (UInt8.ofNat n) := by
  decide +kernel

theorem upperByte_eq_colon (b : UInt8) : upperByte b = 58 ↔ b = 58 := by
  simpa using (upperByte_facts_aux b.toNat b.toNat_lt).1
theorem upperByte_eq_at (b : UInt8) : upperByte b = 64 ↔ b = 64 := by
  simpa using (upperByte_facts_aux b.toNat b.toNat_lt).2.1
theorem upperByte_idem (b : UInt8) : upperByte (upperByte b) = upperByte b := by
  simpa using (upperByte_facts_aux b.toNat b.toNat_lt).2.2

theorem toUpper_idem (s : Bytes) : toUpper (toUpper s) = toUpper s := by
  simp [toUpper, upperByte_idem]

theorem colon_notin_toUpper {x : Bytes} (h : (58 : UInt8) ∉ x) : (58 : UInt8) ∉ toUpper x := by
  simp only [toUpper, List.mem_map, not_exists, not_and]
  intro b hb e
  exact h ((upperByte_eq_colon b).mp e ▸ hb)

theorem at_notin_toUpper {x : Bytes} (h : (64 : UInt8) ∉ x) : (64 : UInt8) ∉ toUpper x := by
  simp only [toUpper, List.mem_map, not_exists, not_and]
  intro b hb e
  exact h ((upperByte_eq_at b).mp e ▸ hb)

/-- the pieces of a split contain only bytes of the input, and never the separator -/
theorem splitOn_parts (sep : UInt8) : ∀ (s : Bytes), ∀ x ∈ splitOn sep s, sep ∉ x ∧ ∀ b ∈ x, b ∈ s
  | [], x, hx => by simp [splitOn] at hx; subst hx; simp
  | b :: t, x, hx => by
    simp only [splitOn] at hx
    split at hx
    · rename_i hb
      simp only [List.mem_cons] at hx
      rcases hx with rfl | hx
      · simp
      · have := splitOn_parts sep t x hx
        exact ⟨this.1, fun c hc => by simp [this.2 c hc]⟩
    · rename_i hb
      split at hx
      · rename_i h r hsp
        simp only [List.mem_cons] at hx
        rcases hx with rfl | hx
        · have := splitOn_parts sep t h (by simp [hsp])
          refine ⟨?_, ?_⟩
          · simp only [List.mem_cons, not_or]; exact ⟨fun e => hb e.symm, this.1⟩
          · intro c hc
            simp only [List.mem_cons] at hc ⊢
            rcases hc with rfl | hc
            · exact Or.inl rfl
            · exact Or.inr (this.2 c hc)
        · have := splitOn_parts sep t x (by simp [hsp, hx])
          exact ⟨this.1, fun c hc => by simp [this.2 c hc]⟩
      · rename_i hsp
        exact absurd hsp (splitOn_ne_nil sep t)

/-- a split with a single piece: the input has no separator and is that piece -/
theorem splitOn_single (sep : UInt8) : ∀ (s q : Bytes), splitOn sep s = [q] → q = s
  | [], q, h => by simp [splitOn] at h; exact h
  | b :: t, q, h => by
    simp only [splitOn] at h
    split at h
    · simp only [List.cons.injEq] at h
      exact absurd h.2 (splitOn_ne_nil sep t)
    · split at h
      · rename_i hd r hsp
        simp only [List.cons.injEq] at h
        obtain ⟨rfl, rfl⟩ := h
        rw [splitOn_single sep t hd hsp]
      · rename_i hsp
        exact absurd hsp (splitOn_ne_nil sep t)

end Wl2k.Str

namespace Wl2k.Msg
open Wl2k Wl2k.Str

/-- the address forms of the property: no colon at all (callsign, x@winlink.org, SMTP address), or
`proto:addr` with a non-empty proto and no further colon -/
def AddrForm (a : Bytes) : Prop :=
  (58 : UInt8) ∉ a ∨ ∃ p x, a = p ++ 58 :: x ∧ p ≠ [] ∧ (58 : UInt8) ∉ p ∧ (58 : UInt8) ∉ x

theorem fromString_plain {s : Bytes} (h1 : (58 : UInt8) ∉ s) (h2 : (64 : UInt8) ∉ s) :
    addrFromString s = { proto := [], addr := toUpper s } := by
  simp [addrFromString, addrSplit, splitOn_nosep 58 s h1, splitOn_nosep 64 s h2]

theorem fromString_proto {p x : Bytes} (hp : p ≠ []) (h1 : (58 : UInt8) ∉ p) (h2 : (58 : UInt8) ∉ x) :
    addrFromString (p ++ 58 :: x) = { proto := p, addr := x } := by
  have : p.isEmpty = false := by cases p <;> simp_all
  simp [addrFromString, addrSplit, splitOn_append 58 p x h1, splitOn_nosep 58 x h2, this]

theorem addr_idem (a : Bytes) (h : AddrForm a) :
    addrFromString (addrFromString a).toBytes = addrFromString a := by
  rcases h with h | ⟨p, x, rfl, hp, h1, h2⟩
  · -- no colon
    have hs : splitOn 58 a = [a] := splitOn_nosep 58 a h
    cases h64 : splitOn 64 a with
    | nil => exact absurd h64 (splitOn_ne_nil 64 a)
    | cons p0 rest =>
      cases rest with
      | nil =>
        have := splitOn_single 64 a p0 h64
        subst this
        have hno := (splitOn_parts 64 p0 p0 (by simp [h64])).1
        rw [fromString_plain h hno]
        simp only [Address.toBytes, List.isEmpty_nil, if_true]
        rw [fromString_plain (colon_notin_toUpper h) (at_notin_toUpper hno), toUpper_idem]
      | cons p1 more =>
        have hp0 := splitOn_parts 64 a p0 (by simp [h64])
        by_cases hw : equalFold p1 winlinkOrg = true
        · have e : addrFromString a = { proto := [], addr := toUpper p0 } := by
            simp [addrFromString, addrSplit, hs, h64, hw]
          rw [e]
          simp only [Address.toBytes, List.isEmpty_nil, if_true]
          have hc : (58 : UInt8) ∉ p0 := fun hm => h (hp0.2 _ hm)
          rw [fromString_plain (colon_notin_toUpper hc) (at_notin_toUpper hp0.1), toUpper_idem]
        · have e : addrFromString a = { proto := smtp, addr := a } := by
            simp [addrFromString, addrSplit, hs, h64, hw, smtp]
          rw [e]
          have : (smtp.isEmpty) = false := by decide
          simp only [Address.toBytes, this]
          have := fromString_proto (p := smtp) (x := a) (by decide) (by decide) h
          simpa using this
  · rw [fromString_proto hp h1 h2]
    have : p.isEmpty = false := by cases p <;> simp_all
    simp only [Address.toBytes, this]
    have := fromString_proto hp h1 h2
    simpa using this

end Wl2k.Msg
