import Wl2kVerif.Proofs.LzPos
import Wl2kVerif.Proofs.Huff7
import Wl2kVerif.Proofs.Reader
/-
C06 — the token level of LZHUF.  `Token` = literal byte | match (length, position); `lzDecode` is the
abstract LZ77 semantics over a history that starts as the decoder's initial window; `encTokens` is the
bit string of a token list under the evolving Huffman state.  Main result: `run_tokens` — a reader whose
unread bits are `encTokens h ts ++ rest` and whose declared size is exactly the length of the tokens walks
the token stream (`Run`) to the end and produces exactly the bytes of `lzDecode`.
-/
namespace Wl2k.Lzhuf
open Wl2k.Bits

theorem N_eq : N = 2048 := rfl
theorem F_eq : F = 60 := rfl
theorem THRESHOLD_eq : THRESHOLD = 2 := rfl

/-! ### tokens and their abstract semantics -/

inductive Token where
  | lit (b : UInt8)
  | mat (len pos : Nat)
deriving Repr, DecidableEq

/-- the Huffman symbol of a token: the byte, or `255 − THRESHOLD + len` -/
def Token.sym : Token → Nat
  | .lit b => b.toNat
  | .mat len _ => 255 - THRESHOLD + len

/-- number of bytes a token stands for -/
def Token.len : Token → Nat
  | .lit _ => 1
  | .mat len _ => len

/-- well-formed: `THRESHOLD < len ≤ F`, 12-bit position -/
def Token.ok : Token → Prop
  | .lit _ => True
  | .mat len pos => THRESHOLD < len ∧ len ≤ F ∧ pos < 4096

/-- The history before the first byte, oldest first: the decoder's window `textBuf[N−F..N) = 0`,
`textBuf[0..N−F) = ' '` seen from the start position `r = N − F`. -/
def initHist : Bytes := List.replicate F 0 ++ List.replicate (N - F) 32

/-- copy `n` bytes, one at a time, each from `p + 1` places before the current end (the window has
`N` places: positions are taken mod `N`) -/
def lzCopy (h : Bytes) (p : Nat) : Nat → Bytes
  | 0 => h
  | n + 1 => lzCopy (h ++ [h.getD (h.length - 1 - p % N) 0]) p n

def lzStep (h : Bytes) : Token → Bytes
  | .lit b => h ++ [b]
  | .mat len pos => lzCopy h pos len

/-- **abstract LZ77 semantics**: the bytes a token list stands for -/
def lzDecode (ts : List Token) : Bytes := (ts.foldl lzStep initHist).drop N

/-- the bytes a token list adds to the history `h` -/
def lzOut (h : Bytes) : List Token → Bytes
  | [] => []
  | t :: ts => (lzStep h t).drop h.length ++ lzOut (lzStep h t) ts

theorem lzCopy_prefix (p : Nat) : ∀ (n : Nat) (h : Bytes),
    ∃ bs, lzCopy h p n = h ++ bs ∧ bs.length = n := by
  intro n
  induction n with
  | zero => intro h; exact ⟨[], by simp [lzCopy], rfl⟩
  | succ n ih =>
    intro h
    obtain ⟨bs, e, l⟩ := ih (h ++ [h.getD (h.length - 1 - p % N) 0])
    exact ⟨h.getD (h.length - 1 - p % N) 0 :: bs, by rw [lzCopy, e]; simp, by simp [l]⟩

theorem lzStep_prefix (h : Bytes) (t : Token) :
    ∃ bs, lzStep h t = h ++ bs ∧ bs.length = t.len := by
  cases t with
  | lit b => exact ⟨[b], rfl, rfl⟩
  | mat len pos => exact lzCopy_prefix pos len h

theorem lzStep_eq (h : Bytes) (t : Token) : lzStep h t = h ++ (lzStep h t).drop h.length := by
  obtain ⟨bs, e, -⟩ := lzStep_prefix h t
  rw [e]; simp

theorem foldl_lzStep (ts : List Token) : ∀ h, ts.foldl lzStep h = h ++ lzOut h ts := by
  induction ts with
  | nil => intro h; simp [lzOut]
  | cons t ts ih =>
    intro h
    rw [List.foldl_cons, ih, lzOut, ← List.append_assoc, ← lzStep_eq]

theorem initHist_length : initHist.length = N := by
  rw [initHist, List.length_append, List.length_replicate, List.length_replicate]; rfl

theorem lzDecode_eq (ts : List Token) : lzDecode ts = lzOut initHist ts := by
  rw [lzDecode, foldl_lzStep, ← initHist_length]; simp

theorem lzOut_length (ts : List Token) : ∀ h, (lzOut h ts).length = (ts.map Token.len).sum := by
  induction ts with
  | nil => intro h; rfl
  | cons t ts ih =>
    intro h
    obtain ⟨bs, e, l⟩ := lzStep_prefix h t
    rw [lzOut, List.length_append, ih, e]
    simp [l]

/-! ### the bit string of a token list -/

def tokBits (h : Huff) : Token → List Bool
  | .lit b => codeBits h b.toNat
  | .mat len pos => codeBits h (255 - THRESHOLD + len) ++ posBits pos

/-- the encoding of a token list under the evolving Huffman state -/
def encTokens (h : Huff) : List Token → List Bool
  | [] => []
  | t :: ts => tokBits h t ++ encTokens (update h t.sym) ts

theorem Token.sym_lt (t : Token) (ok : t.ok) : t.sym < NCHAR := by
  cases t with
  | lit b => have := b.toNat_lt; simp only [Token.sym, NCHAR_eq]; omega
  | mat len pos =>
    simp only [Token.ok, F_eq, THRESHOLD_eq] at ok
    simp only [Token.sym, NCHAR_eq, THRESHOLD_eq]; omega

theorem encTokens_append (ts us : List Token) : ∀ h,
    encTokens h (ts ++ us) = encTokens h ts ++ encTokens ((ts.map Token.sym).foldl update h) us := by
  induction ts with
  | nil => intro h; rfl
  | cons t ts ih => intro h; simp [encTokens, ih]

/-! ### small list/array facts -/

theorem getD_set (a : Array UInt8) (i j : Nat) (v : UInt8) :
    (a.setIfInBounds i v).getD j 0 = if i = j ∧ i < a.size then v else a.getD j 0 := by
  simp only [Array.getD_eq_getD_getElem?, Array.getElem?_setIfInBounds]
  by_cases h : i = j
  · subst h
    by_cases h2 : i < a.size
    · simp [h2]
    · simp [h2]
  · simp [h]

theorem lgetD_append_left (a b : Bytes) (i : Nat) (h : i < a.length) : (a ++ b).getD i 0 = a.getD i 0 := by
  simp [List.getD_eq_getElem?_getD, List.getElem?_append_left h]

theorem lgetD_append_right (a b : Bytes) (i : Nat) (h : a.length ≤ i) :
    (a ++ b).getD i 0 = b.getD (i - a.length) 0 := by
  simp [List.getD_eq_getElem?_getD, List.getElem?_append_right h]

theorem lgetD_replicate (n i : Nat) (v : UInt8) : (List.replicate n v).getD i 0 = if i < n then v else 0 := by
  simp only [List.getD_eq_getElem?_getD, List.getElem?_replicate]
  split <;> rfl

theorem fillBytes_size (a : Array UInt8) (v : UInt8) (n : Nat) : (fillBytes a v n).size = a.size := by
  induction n with
  | zero => rfl
  | succ n ih => simp [fillBytes, ih]

theorem fillBytes_getD (a : Array UInt8) (v : UInt8) (n j : Nat) :
    (fillBytes a v n).getD j 0 = if j < n ∧ j < a.size then v else a.getD j 0 := by
  induction n with
  | zero => simp [fillBytes]
  | succ n ih =>
    rw [fillBytes, getD_set, ih, fillBytes_size]
    by_cases h1 : n = j
    · subst h1
      by_cases h2 : n < a.size
      · simp [h2]
      · simp [h2]
    · by_cases h2 : j < n
      · have : j < n + 1 := by omega
        simp [h1, h2, this]
      · have : ¬ j < n + 1 := by omega
        simp [h1, h2, this]

/-! ### the decoder's window holds the last `N` bytes of the history -/

structure WinInv (d : Reader) (H : Bytes) : Prop where
  r_lt : d.r < N
  size : N ≤ d.textBuf.size
  len : N ≤ H.length
  /-- the byte `q` places before the end of the history is at `textBuf[(r − q) mod N]` -/
  win : ∀ q, 1 ≤ q → q ≤ N → d.textBuf.getD ((d.r + N - q) % N) 0 = H.getD (H.length - q) 0

/-- `d'` has the bit-layer, Huffman and error fields of `d` -/
structure BitSame (d d' : Reader) : Prop where
  h : d'.h = d.h
  src : d'.src = d.src
  bpos : d'.bpos = d.bpos
  pulled : d'.pulled = d.pulled
  bn : d'.bn = d.bn
  bbits : d'.bbits = d.bbits
  berr : d'.berr = d.berr
  err : d'.err = d.err
  size : d'.size = d.size
  pending : d'.pending = d.pending
  crc16 : d'.crc16 = d.crc16
  hcrc : d'.hcrc = d.hcrc
  sizeBytes : d'.sizeBytes = d.sizeBytes

theorem BitSame.refl (d : Reader) : BitSame d d := ⟨rfl, rfl, rfl, rfl, rfl, rfl, rfl, rfl, rfl, rfl, rfl, rfl, rfl⟩

theorem BitSame.trans {a b c : Reader} (x : BitSame a b) (y : BitSame b c) : BitSame a c :=
  ⟨y.h.trans x.h, y.src.trans x.src, y.bpos.trans x.bpos, y.pulled.trans x.pulled, y.bn.trans x.bn,
   y.bbits.trans x.bbits, y.berr.trans x.berr, y.err.trans x.err, y.size.trans x.size,
   y.pending.trans x.pending, y.crc16.trans x.crc16, y.hcrc.trans x.hcrc, y.sizeBytes.trans x.sizeBytes⟩

theorem BitSame.unread {d d' : Reader} (s : BitSame d d') : unreadBits d' = unreadBits d := by
  unfold unreadBits; rw [s.bbits, s.bn, s.src, s.bpos]

theorem BitSame.rinv {d d' : Reader} (s : BitSame d d') (i : RInv d) : RInv d' :=
  ⟨by rw [s.bbits]; exact i.bbits_lt, by rw [s.bpos, s.pulled]; exact i.bpos_le,
   by rw [s.pulled, s.src]; exact i.pulled_le⟩

theorem putOne_bitSame (d : Reader) (c : UInt8) : BitSame d (d.putOne c) :=
  ⟨rfl, rfl, rfl, rfl, rfl, rfl, rfl, rfl, rfl, rfl, rfl, rfl, rfl⟩

theorem putOne_win (d : Reader) (c : UInt8) (H : Bytes) (w : WinInv d H) : WinInv (d.putOne c) (H ++ [c]) := by
  have hr := w.r_lt
  have hs := w.size
  have hl := w.len
  simp only [N_eq] at hr hs hl
  refine ⟨?_, ?_, ?_, ?_⟩
  · simp only [Reader.putOne, N_eq]; omega
  · simp only [Reader.putOne, Array.size_setIfInBounds]; exact w.size
  · simp only [List.length_append, List.length_singleton]; have := w.len; omega
  · intro q h1 hN
    simp only [N_eq] at hN
    simp only [Reader.putOne, getD_set, List.length_append, List.length_singleton]
    by_cases hq : q = 1
    · subst hq
      have e : ((d.r + 1) % N + N - 1) % N = d.r := by simp only [N_eq]; omega
      rw [e, if_pos ⟨rfl, by omega⟩, lgetD_append_right _ _ _ (by omega)]
      have : H.length + 1 - 1 - H.length = 0 := by omega
      rw [this]; rfl
    · have e : ((d.r + 1) % N + N - q) % N = (d.r + N - (q - 1)) % N := by simp only [N_eq]; omega
      have ne : ¬ (d.r = (d.r + N - (q - 1)) % N ∧ d.r < d.textBuf.size) := by
        simp only [N_eq]; omega
      rw [e, if_neg ne, w.win (q - 1) (by omega) (by simp only [N_eq]; omega),
        lgetD_append_left _ _ _ (by omega)]
      congr 1; omega

theorem new_win (d : Reader) (hr : d.r = N - F)
    (ht : d.textBuf = fillBytes (Array.replicate (N + F - 1) 0) 32 (N - F)) : WinInv d initHist := by
  refine ⟨by rw [hr]; decide, by rw [ht, fillBytes_size]; simp [N, F], by rw [initHist_length]; exact Nat.le_refl _, ?_⟩
  intro q h1 hN
  rw [ht, hr, fillBytes_getD, initHist_length, initHist]
  simp only [N_eq, F_eq] at hN ⊢
  simp only [Array.size_replicate, Array.getD_eq_getD_getElem?, Array.getElem?_replicate]
  by_cases hq : q ≤ 1988
  · have e : (2048 - 60 + 2048 - q) % 2048 = 1988 - q := by omega
    rw [e, if_pos (by omega), lgetD_append_right _ _ _ (by simp; omega), lgetD_replicate]
    simp only [List.length_replicate]
    rw [if_pos (by omega)]
  · have e : (2048 - 60 + 2048 - q) % 2048 = 4036 - q := by omega
    rw [e, if_neg (by omega), lgetD_append_left _ _ _ (by simp; omega), lgetD_replicate, if_pos (by omega)]
    split <;> rfl

/-! ### the match copy implements `lzCopy` -/

theorem copyFull_spec (i r0 p : Nat) (hr0 : r0 < N) (hp : p < 4096) (hi : i = (r0 + 2 * N - p - 1) % N) :
    ∀ (j : Nat) (d : Reader) (k : Nat) (H : Bytes), WinInv d H → d.r = (r0 + k) % N →
      (d.pos : Int) + j ≤ d.size →
      ∃ bs, (d.copyFull i k j).2.1 = bs ∧ (d.copyFull i k j).2.2 = false ∧ lzCopy H p j = H ++ bs ∧
        bs.length = j ∧ WinInv (d.copyFull i k j).1 (H ++ bs) ∧ BitSame d (d.copyFull i k j).1 ∧
        (d.copyFull i k j).1.pos = d.pos + j := by
  intro j
  induction j with
  | zero =>
    intro d k H w hr hs
    exact ⟨[], rfl, rfl, by simp [lzCopy], rfl, by rw [List.append_nil]; exact w, BitSame.refl d, rfl⟩
  | succ j ih =>
    intro d k H w hr hs
    have hlt : ¬ (d.pos : Int) ≥ d.size := by omega
    have hc : d.textBuf.getD ((i + k) % N) 0 = H.getD (H.length - 1 - p % N) 0 := by
      have := w.win (p % N + 1) (by omega) (by have := Nat.mod_lt p (show 0 < N by decide); omega)
      have e : H.length - 1 - p % N = H.length - (p % N + 1) := by omega
      rw [e, ← this]
      congr 1
      rw [hi, hr]
      simp only [N_eq] at hr0 ⊢
      omega
    obtain ⟨bs, e1, e2, e3, e4, e5, e6, e7⟩ := ih (d.putOne (d.textBuf.getD ((i + k) % N) 0)) (k + 1)
      (H ++ [d.textBuf.getD ((i + k) % N) 0]) (putOne_win d _ H w)
      (by simp only [Reader.putOne, hr, N_eq]; omega)
      (by simp only [Reader.putOne]; omega)
    have hdef : d.copyFull i k (j + 1) =
        ((Reader.copyFull (d.putOne (d.textBuf.getD ((i + k) % N) 0)) i (k + 1) j).1,
          d.textBuf.getD ((i + k) % N) 0 :: (Reader.copyFull (d.putOne (d.textBuf.getD ((i + k) % N) 0)) i (k + 1) j).2.1,
          (Reader.copyFull (d.putOne (d.textBuf.getD ((i + k) % N) 0)) i (k + 1) j).2.2) := by
      rw [Reader.copyFull, if_neg hlt]
    rw [hdef]
    refine ⟨d.textBuf.getD ((i + k) % N) 0 :: bs, by rw [e1], e2, ?_, by simp [e4], ?_, ?_, ?_⟩
    · rw [lzCopy, ← hc, e3]; simp
    · have : H ++ d.textBuf.getD ((i + k) % N) 0 :: bs = H ++ [d.textBuf.getD ((i + k) % N) 0] ++ bs := by simp
      rw [this]; exact e5
    · exact BitSame.trans (putOne_bitSame d _) e6
    · dsimp only; rw [e7]; simp only [Reader.putOne]; omega

end Wl2k.Lzhuf
namespace Wl2k.Lzhuf
open Wl2k.Bits

/-! ### one token -/

/-- `decodeChar` on a reader whose unread bits start with the code of `c` -/
theorem decodeChar_code (d : Reader) (w : HuffWF d.h) (c : Nat) (hc : c < NCHAR) (inv : RInv d)
    (rest : List Bool) (hu : unreadBits d = codeBits d.h c ++ rest) :
    d.decodeChar.2 = c ∧ unreadBits d.decodeChar.1 = rest ∧ RInv d.decodeChar.1 ∧
    d.decodeChar.1.h = update d.h c ∧ d.decodeChar.1.berr = d.berr ∧
    d.pulled ≤ d.decodeChar.1.pulled := by
  have tu := Reader.takeBits_unread (codeBits d.h c) d rest inv hu
  have dc := Reader.decodeChar_of_code d w c hc tu.1
  generalize (codeBits d.h c).length = n at *
  generalize d.takeBits n = tk at *
  obtain ⟨t1, t2, t3, t4, t5, t6⟩ := tu
  rw [dc]
  dsimp only
  refine ⟨rfl, ?_, ?_, rfl, ?_, ?_⟩
  · exact (unreadBits_with_h _ _).trans t2
  · exact rinv_with_h _ _ t3
  · exact t4
  · exact t5

/-- what a well-formed token leaves untouched -/
structure TokPost (d d' : Reader) : Prop where
  err : d'.err = d.err
  berr : d'.berr = d.berr
  size : d'.size = d.size
  pending : d'.pending = d.pending
  crc16 : d'.crc16 = d.crc16
  hcrc : d'.hcrc = d.hcrc
  sizeBytes : d'.sizeBytes = d.sizeBytes
  src : d'.src = d.src
  pulled : d.pulled ≤ d'.pulled

theorem TokPost.refl (d : Reader) : TokPost d d := ⟨rfl, rfl, rfl, rfl, rfl, rfl, rfl, rfl, Nat.le_refl _⟩

theorem TokPost.trans {a b c : Reader} (x : TokPost a b) (y : TokPost b c) : TokPost a c :=
  ⟨y.err.trans x.err, y.berr.trans x.berr, y.size.trans x.size, y.pending.trans x.pending,
   y.crc16.trans x.crc16, y.hcrc.trans x.hcrc, y.sizeBytes.trans x.sizeBytes, y.src.trans x.src,
   Nat.le_trans x.pulled y.pulled⟩

theorem TokPost.ofFrame {d d' : Reader} (f : Frame d d') (hb : d'.berr = d.berr) (hp : d.pulled ≤ d'.pulled) :
    TokPost d d' := ⟨f.err, hb, f.size, f.pending, f.crc16, f.hcrc, f.sizeBytes, f.src, hp⟩

theorem TokPost.ofBitSame {d d' : Reader} (s : BitSame d d') : TokPost d d' :=
  ⟨s.err, s.berr, s.size, s.pending, s.crc16, s.hcrc, s.sizeBytes, s.src, Nat.le_of_eq s.pulled.symm⟩

theorem WinInv.congr {d d' : Reader} {H : Bytes} (w : WinInv d H) (hr : d'.r = d.r) (ht : d'.textBuf = d.textBuf) :
    WinInv d' H := ⟨by rw [hr]; exact w.r_lt, by rw [ht]; exact w.size, w.len, by rw [hr, ht]; exact w.win⟩

theorem tok_of (d d1 d2 : Reader) (c p : Nat) (h1 : d.decodeChar = (d1, c)) (h2 : d1.decodePosition = (d2, p)) :
    d.tok = if c < 256 then (d1.putOne (UInt8.ofNat c), [UInt8.ofNat c])
      else ((d2.copyFull ((d2.r + 2 * N - p - 1) % N) 0 (c - 255 + THRESHOLD)).1,
            (d2.copyFull ((d2.r + 2 * N - p - 1) % N) 0 (c - 255 + THRESHOLD)).2.1) := by
  unfold Reader.tok
  rw [h1]
  dsimp only
  split
  · rfl
  · rw [h2]

/-- **one token**: a reader whose unread bits start with the encoding of the well-formed token `t` (under
its current Huffman state) and whose declared size leaves room for it decodes exactly the bytes `t`
stands for; window, Huffman state and bit position move on accordingly. -/
theorem tok_spec (d : Reader) (H : Bytes) (t : Token) (ok : t.ok) (w : HuffWF d.h) (inv : RInv d)
    (wi : WinInv d H) (rest : List Bool) (hu : unreadBits d = tokBits d.h t ++ rest)
    (hs : (d.pos : Int) + t.len ≤ d.size) :
    d.tok.2 = (lzStep H t).drop H.length ∧ WinInv d.tok.1 (lzStep H t) ∧ d.tok.1.h = update d.h t.sym ∧
    RInv d.tok.1 ∧ unreadBits d.tok.1 = rest ∧ d.tok.1.pos = d.pos + t.len ∧ TokPost d d.tok.1 := by
  have f1 := decodeChar_frame d
  rcases hdc : d.decodeChar with ⟨d1, c⟩
  rw [hdc] at f1
  rcases hdp : d1.decodePosition with ⟨d2, p⟩
  have f2 := decodePosition_frame d1
  rw [hdp] at f2
  dsimp only at f1 f2
  rw [tok_of d d1 d2 c p hdc hdp]
  cases t with
  | lit b =>
    have hb := b.toNat_lt
    obtain ⟨c1, c2, c3, c4, c5, c6⟩ := decodeChar_code d w b.toNat (by simp only [NCHAR_eq]; omega) inv rest hu
    rw [hdc] at c1 c2 c3 c4 c5 c6
    dsimp only at c1 c2 c3 c4 c5 c6
    subst c1
    rw [if_pos (by omega)]
    have hb' : UInt8.ofNat b.toNat = b := by simp
    rw [hb']
    dsimp only
    have wi1 : WinInv d1 H := wi.congr f1.r f1.textBuf
    refine ⟨?_, putOne_win _ b H wi1, c4, (putOne_bitSame _ b).rinv c3,
      ((putOne_bitSame _ b).unread).trans c2, ?_, ?_⟩
    · rw [lzStep]; simp
    · simp only [Reader.putOne, f1.pos, Token.len]
    · exact (TokPost.ofFrame f1 c5 c6).trans (TokPost.ofBitSame (putOne_bitSame _ b))
  | mat len pos =>
    simp only [Token.ok, F_eq, THRESHOLD_eq] at ok
    obtain ⟨o1, o2, o3⟩ := ok
    have hu' : unreadBits d = codeBits d.h (255 - THRESHOLD + len) ++ (posBits pos ++ rest) := by
      rw [hu, tokBits, List.append_assoc]
    obtain ⟨c1, c2, c3, c4, c5, c6⟩ := decodeChar_code d w (255 - THRESHOLD + len)
      (by simp only [NCHAR_eq, THRESHOLD_eq]; omega) inv _ hu'
    rw [hdc] at c1 c2 c3 c4 c5 c6
    dsimp only at c1 c2 c3 c4 c5 c6
    subst c1
    obtain ⟨p1, p2, p3, p4, p5, p6⟩ := position_roundtrip d1 pos o3 c3 rest c2
    rw [hdp] at p1 p2 p3 p4 p5 p6
    dsimp only at p1 p2 p3 p4 p5 p6
    subst p1
    have f12 := Frame.trans f1 f2
    have wi2 : WinInv d2 H := wi.congr f12.r f12.textBuf
    have hj : 255 - THRESHOLD + len - 255 + THRESHOLD = len := by simp only [THRESHOLD_eq]; omega
    rw [if_neg (by simp only [THRESHOLD_eq]; omega), hj]
    dsimp only
    obtain ⟨bs, e1, e2, e3, e4, e5, e6, e7⟩ := copyFull_spec
      ((d2.r + 2 * N - p - 1) % N) d2.r p wi2.r_lt o3 rfl len d2 0 H wi2
      (by rw [Nat.add_zero, Nat.mod_eq_of_lt wi2.r_lt])
      (by rw [f12.pos, f12.size]; simpa [Token.len] using hs)
    have hh : d2.h = d1.h := p6.1
    refine ⟨?_, ?_, ?_, e6.rinv p3, e6.unread.trans p2, ?_, ?_⟩
    · rw [e1, lzStep, e3]; simp
    · rw [lzStep, e3]; exact e5
    · rw [e6.h, hh, c4]; rfl
    · rw [e7, f12.pos]; rfl
    · exact ((TokPost.ofFrame f1 c5 c6).trans (TokPost.ofFrame f2 p4 p5)).trans (TokPost.ofBitSame e6)

/-! ### the token stream -/

/-- **The decoder implements `lzDecode`.**  A reader in a clean state whose unread bits are the encoding
of the well-formed token list `ts` followed by `rest`, and whose declared size is exactly what the tokens
stand for, walks the token stream to its end: it produces the bytes `lzOut H ts`, stops with
`pos = size`, no error, and exactly `rest` unread. -/
theorem run_tokens : ∀ (ts : List Token) (d : Reader) (H : Bytes) (rest : List Bool),
    (∀ t ∈ ts, t.ok) → HuffWF d.h → RInv d → WinInv d H → d.err = none → d.berr = false →
    unreadBits d = encTokens d.h ts ++ rest →
    d.size = (d.pos : Int) + ((ts.map Token.len).sum : Nat) →
    ∃ c, Run d c (lzOut H ts) ∧ c.err = none ∧ c.berr = false ∧ (c.pos : Int) = c.size ∧
      unreadBits c = rest ∧ RInv c ∧ TokPost d c ∧ c.h = (ts.map Token.sym).foldl update d.h := by
  intro ts
  induction ts with
  | nil =>
    intro d H rest _ w inv wi he hb hu hs
    simp only [List.map_nil, List.sum_nil, Int.natCast_zero, Int.add_zero] at hs
    refine ⟨d, Run.done d ?_, he, hb, hs.symm, by simpa [encTokens] using hu, inv, TokPost.refl d, rfl⟩
    intro hl
    have := hl.2.2
    omega
  | cons t ts ih =>
    intro d H rest ok w inv wi he hb hu hs
    have okt : t.ok := ok t List.mem_cons_self
    have hlen : 1 ≤ t.len := by
      cases t with
      | lit b => exact Nat.le_refl _
      | mat len pos => simp only [Token.ok, THRESHOLD_eq] at okt; simp only [Token.len]; omega
    simp only [List.map_cons, List.sum_cons] at hs
    have hlive : d.live := ⟨he, hb, by omega⟩
    rw [encTokens, List.append_assoc] at hu
    obtain ⟨s1, s2, s3, s4, s5, s6, s7⟩ := tok_spec d H t okt w inv wi _ hu (by omega)
    have step := fun c bs => Run.step d c bs hlive
    generalize d.tok = tk at *
    obtain ⟨d', out⟩ := tk
    dsimp only at s1 s2 s3 s4 s5 s6 s7 step
    have w' : HuffWF d'.h := by rw [s3]; exact update_preserves w _ (t.sym_lt okt)
    have hu' : unreadBits d' = encTokens d'.h ts ++ rest := by rw [s5, s3]
    have hs' : d'.size = (d'.pos : Int) + ((ts.map Token.len).sum : Nat) := by
      rw [s7.size, s6, hs]; push_cast; omega
    obtain ⟨c, r1, r2, r3, r4, r5, r6, r7, r8⟩ := ih d' (lzStep H t) rest
      (fun t' ht' => ok t' (List.mem_cons_of_mem _ ht')) w' s4 s2 (s7.err.trans he) (s7.berr.trans hb) hu' hs'
    refine ⟨c, ?_, r2, r3, r4, r5, r6, s7.trans r7, by rw [r8, s3, List.map_cons, List.foldl_cons]⟩
    rw [lzOut, ← s1]
    exact step c _ r1

end Wl2k.Lzhuf

namespace Wl2k.Lzhuf
open Wl2k.Bits

/-! ### reading a whole stream -/

theorem new_fields2 (crc16 : Bool) (s : Bytes) (d : Reader) (h : Reader.new crc16 s = .ok d) :
    d.r = N - F ∧ d.textBuf = fillBytes (Array.replicate (N + F - 1) 0) 32 (N - F) ∧ d.crc16 = crc16 ∧
    d.sizeBytes = (s.drop (if crc16 then 2 else 0)).take 4 ∧
    d.src = ((s.drop (if crc16 then 2 else 0)).drop 4).toArray ∧
    d.size = int32OfLE ((s.drop (if crc16 then 2 else 0)).take 4) ∧
    d.hcrc = (s.getD 0 0).toNat + 256 * (s.getD 1 0).toNat := by
  unfold Reader.new at h
  simp only at h
  by_cases h1 : crc16 = true ∧ s.length < 2
  · rw [if_pos h1] at h; cases h
  · rw [if_neg h1] at h
    by_cases h2 : (s.drop (if crc16 = true then 2 else 0)).length < 4
    · rw [if_pos h2] at h; cases h
    · rw [if_neg h2] at h
      have h3 := Except.ok.inj h
      subst h3
      dsimp only
      refine ⟨?_, ?_, ?_, ?_, ?_, ?_, ?_⟩ <;> exact Eq.refl _

/-- A clean end state passes `Close`. -/
theorem close_of_end (c : Reader) (he : c.err = none) (hb : c.berr = false) (hp : c.pending = [])
    (hs : (c.pos : Int) = c.size) (inv : RInv c) (hpad : (unreadBits c).length < 8)
    (hcrc : c.crc16 = true → c.hcrc = crc (c.sizeBytes ++ c.src.toList)) : c.close = none := by
  have hlen : (unreadBits c).length = c.bbits + 8 * (c.src.size - c.bpos) := by
    simp [unreadBits, bytesBits_length]
  have h1 := inv.bpos_le
  have h2 := inv.pulled_le
  have hpl : c.pulled = c.src.size := by omega
  unfold Reader.close
  rw [he, hb, hp, hpl]
  simp only [Option.isSome_none, Bool.false_eq_true, if_false, Array.extract_size, List.length_nil]
  rw [if_neg (by intro ⟨x, y⟩; exact y (hcrc x)), if_neg (by simp; omega)]

/-- **Reading a stream of tokens to the end.**  Let `d` be a new reader on a stream whose body spells the
encoding of the well-formed token list `ts` (from the initial Huffman state) followed by fewer than 8 padding
bits, whose declared size is the length of what the tokens stand for, and whose CRC (if present) is right.
Then ANY sequence of `Read`s that reaches an error return (`io.EOF` included) has returned exactly
`lzDecode ts`, and `Close` reports success. -/
theorem decode_tokens (crc16 : Bool) (s : Bytes) (d : Reader) (hnew : Reader.new crc16 s = .ok d)
    (ts : List Token) (ok : ∀ t ∈ ts, t.ok) (pad : List Bool) (hpad : pad.length < 8)
    (hbits : bytesBits d.src.toList = encTokens Huff.init ts ++ pad)
    (hsize : d.size = ((lzDecode ts).length : Nat))
    (hcrc : crc16 = true → d.hcrc = crc (d.sizeBytes ++ d.src.toList))
    (ns : List Nat) (hend : ∃ e, some e ∈ errsWith d ns) :
    (readsWith d ns).2 = lzDecode ts ∧ (readsWith d ns).1.close = none := by
  obtain ⟨n1, n2, n3, n4⟩ := new_rinv crc16 s d hnew
  obtain ⟨m1, m2, m3, -⟩ := new_fields crc16 s d hnew
  obtain ⟨k1, k2, k3, -⟩ := new_fields2 crc16 s d hnew
  have hh := Reader.new_h crc16 s d hnew
  obtain ⟨c, r1, r2, r3, r4, r5, r6, r7, -⟩ := run_tokens ts d initHist pad ok (by rw [hh]; exact huffWF_init) n1
    (new_win d k1 k2) m3 n3 (by rw [n2, hbits, hh])
    (by rw [hsize, m1, lzDecode_eq, lzOut_length]; simp)
  obtain ⟨c', bs', q1, q2, q3, q4⟩ := readsWith_run d ns hend
  rw [setPending_self d [] m2] at q1
  obtain ⟨e1, e2⟩ := Run.det q1 r1
  subst e1; subst e2
  rw [norm_of_not_berr c' r3] at q2
  have herr : (readsWith d ns).1.err = none := by
    have := congrArg Reader.err q2
    exact this.trans r2
  have hpend : (readsWith d ns).1.pending = [] := by
    rcases q4 with h | h
    · rw [herr] at h; cases h
    · exact h
  rw [setPending_self _ [] hpend] at q2
  rw [m2, hpend, List.nil_append, List.append_nil] at q3
  refine ⟨by rw [← q3, lzDecode_eq], ?_⟩
  rw [q2]
  apply close_of_end c' r2 r3 (r7.pending.trans m2) r4 r6 (by rw [r5]; exact hpad)
  intro hc
  rw [r7.crc16, k3] at hc
  rw [r7.hcrc, r7.sizeBytes, r7.src]
  exact hcrc hc

end Wl2k.Lzhuf
