import Wl2kVerif.Std.Fmt
namespace Wl2k.Fmt

theorem dec_lt (n : Nat) (h : n < 10) : dec n = [digit n] := by
  rw [dec]; simp [h]

theorem dec_ge (n : Nat) (h : 10 ≤ n) : dec n = dec (n / 10) ++ [digit n] := by
  rw [dec]; simp [Nat.not_lt.mpr h]

theorem dec_length_pos (n : Nat) : 0 < (dec n).length := by
  by_cases h : n < 10
  · simp [dec_lt n h]
  · rw [dec_ge n (by omega)]; simp

theorem digit_mod (n : Nat) : digit (n % 10) = digit n := by simp [digit]

theorem fixed_length (k x : Nat) : (fixed k x).length = k := by
  induction k generalizing x with
  | zero => simp [fixed]
  | succ k ih => simp [fixed, ih]

theorem fixed_mod (k x : Nat) : fixed k (x % 10 ^ k) = fixed k x := by
  induction k generalizing x with
  | zero => simp [fixed]
  | succ k ih =>
    simp only [fixed]
    have h1 : x % 10 ^ (k + 1) / 10 = (x / 10) % 10 ^ k := by
      rw [Nat.pow_succ, Nat.mul_comm, Nat.mod_mul_right_div_self]
    have h2 : digit (x % 10 ^ (k + 1)) = digit x := by
      unfold digit
      have : x % 10 ^ (k + 1) % 10 = x % 10 := by
        rw [Nat.pow_succ, Nat.mul_comm]; exact Nat.mod_mul_right_mod x 10 (10 ^ k)
      rw [this]
    rw [h1, h2, ih]

theorem fixed_zero (k : Nat) : fixed k 0 = List.replicate k 48 := by
  induction k with
  | zero => simp [fixed]
  | succ k ih =>
    simp only [fixed, Nat.zero_div, ih]
    rw [List.replicate_succ']; simp [digit]

/-- The last `k` characters of `%0kd` are the `k` low decimal digits. -/
theorem lastN_dec0 (k n : Nat) : lastN k (dec0 k n) = fixed k n := by
  induction k generalizing n with
  | zero => simp [lastN, fixed]
  | succ k ih =>
    by_cases h : n < 10
    · have h0 : n / 10 = 0 := by omega
      simp only [fixed, h0, fixed_zero]
      simp [lastN, dec0, padLeft, dec_lt n h]
    · have hge : 10 ≤ n := by omega
      have hlen := dec_length_pos (n / 10)
      simp only [fixed, ← ih (n / 10)]
      simp only [lastN, dec0, padLeft, dec_ge n hge, List.length_append, List.length_replicate,
        List.length_cons, List.length_nil]
      rw [← List.append_assoc]
      rw [List.drop_append_of_le_length (by simp; omega)]
      have e1 : k + 1 - ((dec (n / 10)).length + (0 + 1)) = k - (dec (n / 10)).length := by omega
      rw [e1]
      congr 2
      omega

theorem lastN_length (k : Nat) (s : Bytes) (h : k ≤ s.length) : (lastN k s).length = k := by
  simp [lastN]; omega

theorem fixed_all_digits (k x : Nat) : ∀ c ∈ fixed k x, 48 ≤ c.toNat ∧ c.toNat ≤ 57 := by
  induction k generalizing x with
  | zero => simp [fixed]
  | succ k ih =>
    intro c hc
    simp only [fixed, List.mem_append, List.mem_singleton] at hc
    rcases hc with hc | hc
    · exact ih _ c hc
    · subst hc
      have : x % 10 < 10 := Nat.mod_lt _ (by omega)
      simp only [digit, UInt8.toNat_ofNat']
      omega

end Wl2k.Fmt
