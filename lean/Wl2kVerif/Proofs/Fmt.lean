import Wl2kVerif.Std.Fmt
namespace Wl2k.Fmt

theorem decAux_fuel (f n : Nat) (h : n ≤ f) : decAux f n = decAux n n := by
  induction f using Nat.strongRecOn generalizing n with
  | _ f ih =>
    cases f with
    | zero =>
      have : n = 0 := by omega
      subst this; rfl
    | succ f =>
      cases n with
      | zero => simp [decAux]
      | succ n =>
        simp only [decAux]
        split
        · rfl
        · rw [ih f (by omega) ((n + 1) / 10) (by omega), ih n (by omega) ((n + 1) / 10) (by omega)]

theorem dec_lt (n : Nat) (h : n < 10) : dec n = [digit n] := by
  unfold dec
  cases n with
  | zero => rfl
  | succ n => simp [decAux, h]

theorem dec_ge (n : Nat) (h : 10 ≤ n) : dec n = dec (n / 10) ++ [digit n] := by
  unfold dec
  cases n with
  | zero => omega
  | succ n =>
    simp only [decAux]
    rw [if_neg (by omega), decAux_fuel n ((n + 1) / 10) (by omega)]

theorem dec_length_pos (n : Nat) : 0 < (dec n).length := by
  by_cases h : n < 10
  · simp [dec_lt n h]
  · rw [dec_ge n (by omega)]; simp

theorem digit_mod (n : Nat) : digit (n % 10) = digit n := by simp [digit]

theorem fixed_length (k x : Nat) : (fixed k x).length = k := by
  induction k generalizing x with
  | zero => simp [fixed]
  | succ k ih => simp [fixed, ih]

theorem fixed_mod (k x : Nat) : fixed k (x % 10 ^ k) = fixed k x := by
  induction k generalizing x with
  | zero => simp [fixed]
  | succ k ih =>
    simp only [fixed]
    have h1 : x % 10 ^ (k + 1) / 10 = (x / 10) % 10 ^ k := by
      rw [Nat.pow_succ, Nat.mul_comm, Nat.mod_mul_right_div_self]
    have h2 : digit (x % 10 ^ (k + 1)) = digit x := by
      unfold digit
      have : x % 10 ^ (k + 1) % 10 = x % 10 := by
        rw [Nat.pow_succ, Nat.mul_comm]; exact Nat.mod_mul_right_mod x 10 (10 ^ k)
      rw [this]
    rw [h1, h2, ih]

theorem fixed_zero (k : Nat) : fixed k 0 = List.replicate k 48 := by
  induction k with
  | zero => simp [fixed]
  | succ k ih =>
    simp only [fixed, Nat.zero_div, ih]
    rw [List.replicate_succ']; simp [digit]

/-- The last `k` characters of `%0kd` are the `k` low decimal digits. -/
theorem lastN_dec0 (k n : Nat) : lastN k (dec0 k n) = fixed k n := by
  induction k generalizing n with
  | zero => simp [lastN, fixed]
  | succ k ih =>
    by_cases h : n < 10
    · have h0 : n / 10 = 0 := by omega
      simp only [fixed, h0, fixed_zero]
      simp [lastN, dec0, padLeft, dec_lt n h]
    · have hge : 10 ≤ n := by omega
      have hlen := dec_length_pos (n / 10)
      simp only [fixed, ← ih (n / 10)]
      simp only [lastN, dec0, padLeft, dec_ge n hge, List.length_append, List.length_replicate,
        List.length_cons, List.length_nil]
      rw [← List.append_assoc]
      rw [List.drop_append_of_le_length (by simp; omega)]
      have e1 : k + 1 - ((dec (n / 10)).length + (0 + 1)) = k - (dec (n / 10)).length := by omega
      rw [e1]
      congr 2
      omega

theorem lastN_length (k : Nat) (s : Bytes) (h : k ≤ s.length) : (lastN k s).length = k := by
  simp [lastN]; omega

theorem fixed_all_digits (k x : Nat) : ∀ c ∈ fixed k x, 48 ≤ c.toNat ∧ c.toNat ≤ 57 := by
  induction k generalizing x with
  | zero => simp [fixed]
  | succ k ih =>
    intro c hc
    simp only [fixed, List.mem_append, List.mem_singleton] at hc
    rcases hc with hc | hc
    · exact ih _ c hc
    · subst hc
      have : x % 10 < 10 := Nat.mod_lt _ (by omega)
      simp only [digit, UInt8.toNat_ofNat']
      omega

theorem dec_length_le (w n : Nat) (hw : 0 < w) (h : n < 10 ^ w) : (dec n).length ≤ w := by
  induction w generalizing n with
  | zero => omega
  | succ w ih =>
    by_cases hn : n < 10
    · simp [dec_lt n hn]
    · rw [dec_ge n (by omega)]
      have hw' : 0 < w := by
        rcases Nat.eq_zero_or_pos w with h0 | h0
        · subst h0; simp at h; omega
        · exact h0
      have : n / 10 < 10 ^ w := by
        rw [Nat.div_lt_iff_lt_mul (by omega)]; rw [Nat.pow_succ] at h; exact h
      have := ih (n / 10) hw' this
      simp; omega

/-- `%0wd` of a number that fits is exactly its `w` digits. -/
theorem dec0_eq_fixed (w n : Nat) (hw : 0 < w) (h : n < 10 ^ w) : dec0 w n = fixed w n := by
  rw [← lastN_dec0]
  have hl := dec_length_le w n hw h
  have : (dec0 w n).length = w := by simp [dec0, padLeft]; omega
  simp [lastN, this]

theorem dec0_length_ge (w n : Nat) : w ≤ (dec0 w n).length := by
  simp [dec0, padLeft]; omega

end Wl2k.Fmt
