import Wl2kVerif.Proofs.Builder3
namespace Wl2k.Msg
open Wl2k Wl2k.Textproto Wl2k.Fmt Wl2k.Str

theorem canon_kTo : canonKey kTo = kTo := by decide
theorem canon_kCc : canonKey kCc = kCc := by decide
theorem canon_kFrom : canonKey kFrom = kFrom := by decide
theorem canon_kSubject : canonKey kSubject = kSubject := by decide
theorem canon_kMbo : canonKey kMbo = kMbo := by decide
theorem canon_kType : canonKey kType = kType := by decide
theorem canon_kFile : canonKey kFile = kFile := by decide
theorem canon_kCTE : canonKey kCTE = kCTE := by decide
theorem canon_kContentType : canonKey kContentType = kContentType := by decide

/-- setting one of the plain fields (To, Cc, From, Subject, Mbo, Type, Content-*) -/
theorem WF_setConst {X : Ext} {m : Msg} (F : WFfacts X m) (k v : Bytes) (hv : valueOK v = true)
    (hc : canonKey k = k) (hk : keyOK k = true) (hm : isMidFold k = false) (h1 : k ≠ kBody) (h2 : k ≠ kFile) (h3 : k ≠ kDate) :
    WFfacts X (setHeader m k v) := by
  simp only [setHeader, Textproto.set, hc]; exact WF_set F hk hv hm h1 h2 h3

theorem WF_addConst {X : Ext} {m : Msg} (F : WFfacts X m) (k v : Bytes) (hv : valueOK v = true)
    (hc : canonKey k = k) (hk : keyOK k = true) (hm : isMidFold k = false) (h1 : k ≠ kBody) (h2 : k ≠ kFile) (h3 : k ≠ kDate) :
    WFfacts X (addHeader m k v) := by
  simp only [addHeader, Textproto.add, hc]; exact WF_add F hk hv hm h1 h2 h3

theorem valueOK_formatDate (c : Civil) : valueOK (formatDate c) = true := by
  simp only [valueOK, List.all_eq_true, formatDate, List.mem_append, List.mem_singleton]
  intro b hb
  have hd : ∀ k x, b ∈ fixed k x → validValueByte b = true := by
    intro k x hm
    have := fixed_all_digits k x b hm
    apply digit_value
    simp only [isDigit, Bool.and_eq_true, decide_eq_true_eq, UInt8.le_iff_toNat_le]
    exact ⟨by simpa using this.1, by simpa using this.2⟩
  rcases hb with (((((((hb | rfl) | hb) | rfl) | hb) | rfl) | hb) | rfl) | hb
  all_goals first | exact hd _ _ hb | decide

theorem WF_setDate {X : Ext} {m : Msg} (F : WFfacts X m) (c : Civil) (hc : c.valid = true) : WFfacts X (setDate m c) := by
  simp only [setDate, setHeader, Textproto.set, canon_kDate]
  have hkm : kDate ≠ kMid := by decide
  refine ⟨?_, ?_, ?_, ?_, ?_, ?_, ?_⟩
  · simp only [keys_setRaw]; exact nodup_upd F.nodup
  · intro e he
    rcases mem_setRaw he with rfl | he
    · exact entryOK_single (by decide) (valueOK_formatDate c)
    · exact F.entries e he
  · intro e he hmf
    rcases mem_setRaw he with rfl | he
    · have h' : isMidFold kDate = true := hmf; exact absurd h' (by decide)
    · exact F.midU e he hmf
  · simpa [lookup_setRaw, hkm] using F.mid
  · simpa [getRaw_setRaw_ne _ _ (by decide : kDate ≠ kBody)] using F.body
  · simpa [lookup_setRaw, (by decide : kDate ≠ kFile)] using F.files
  · simp [getRaw, lookup_setRaw, dateWF, parse_format c hc]

theorem WF_setBodyField {X : Ext} {m : Msg} (F : WFfacts X m) (b : Bytes) (hb : b.length < 9223372036854775808) :
    WFfacts X (setHeader { m with body := b } kBody (dec b.length)) := by
  simp only [setHeader, Textproto.set, canon_kBody]
  have hkm : kBody ≠ kMid := by decide
  refine ⟨?_, ?_, ?_, ?_, ?_, ?_, ?_⟩
  · simp only [keys_setRaw]; exact nodup_upd F.nodup
  · intro e he
    rcases mem_setRaw he with rfl | he
    · exact entryOK_single (by decide) (valueOK_digits (dec_digits _))
    · exact F.entries e he
  · intro e he hmf
    rcases mem_setRaw he with rfl | he
    · have h' : isMidFold kBody = true := hmf; exact absurd h' (by decide)
    · exact F.midU e he hmf
  · simpa [lookup_setRaw, hkm] using F.mid
  · simp [getRaw, lookup_setRaw, trimString_dec, atoi_dec _ hb]
  · simpa [lookup_setRaw, (by decide : kBody ≠ kFile)] using F.files
  · simpa [getRaw_setRaw_ne _ _ (by decide : kBody ≠ kDate)] using F.date

theorem filesOK_snoc (X : Ext) : ∀ (vs : List Bytes) (fs : List File) (v : Bytes) (f : File),
    filesOK X vs fs = true → fileOK X v f = true → filesOK X (vs ++ [v]) (fs ++ [f]) = true
  | [], [], v, f, _, h => by simp [filesOK, h]
  | [], _ :: _, _, _, h, _ => by simp [filesOK] at h
  | _ :: _, [], _, _, h, _ => by simp [filesOK] at h
  | a :: vs, g :: fs, v, f, h, hf => by
    simp only [filesOK, Bool.and_eq_true] at h
    simp only [List.cons_append, filesOK, Bool.and_eq_true]
    exact ⟨h.1, filesOK_snoc X vs fs v f h.2 hf⟩

theorem fileValue_facts {X : Ext} (L : ExtLaws X) (name data : Bytes) (hne : name ≠ []) (hL : L1 name)
    (hd : data.length < 9223372036854775808) :
    valueOK (dec data.length ++ [32] ++ X.encode name) = true ∧
    fileOK X (dec data.length ++ [32] ++ X.encode name) { name := name, data := data } = true := by
  have hdig := dec_digits data.length
  have henc := L.encode_ne name hne
  constructor
  · have h1 := valueOK_digits hdig
    have h2 := L.encode_value name
    simp only [valueOK, List.all_append, Bool.and_eq_true] at *
    exact ⟨⟨h1, by decide⟩, h2⟩
  · have htrim : trimString (dec data.length ++ [32] ++ X.encode name) = dec data.length ++ [32] ++ X.encode name := by
      apply trimString_of_ends
      · intro b hb
        obtain ⟨d, r, hdr, hdd⟩ := dec_cons data.length
        rw [hdr] at hb; simp at hb; subst hb; exact digit_not_space hdd
      · intro b hb
        rw [List.getLast?_append] at hb
        cases hl : (X.encode name).getLast? with
        | none => simp [List.getLast?_eq_none_iff] at hl; exact absurd hl henc
        | some x =>
          rw [hl] at hb; simp at hb; subst hb
          have := L.encode_trimmed name
          rw [← this] at hl
          exact trimWith_last _ _ hl
    have hsp : (32 : UInt8) ∉ dec data.length := fun hm => (digit_not_sign (hdig _ hm)).2.2 rfl
    have hsplit : splitN2 (dec data.length ++ [32] ++ X.encode name) = some (dec data.length, X.encode name) := by
      have := splitN2_append (dec data.length) (X.encode name) hsp
      simpa using this
    unfold fileOK
    rw [htrim, hsplit]
    simp [atoi_dec _ hd, L.decode_encode name hL]

theorem WF_addFile {X : Ext} (L : ExtLaws X) {m : Msg} (F : WFfacts X m) (name data : Bytes) (hne : name ≠ []) (hL : L1 name)
    (hd : data.length < 9223372036854775808) : WFfacts X (addFile X m name data) := by
  obtain ⟨hv, hf⟩ := fileValue_facts L name data hne hL hd
  simp only [addFile, addHeader, Textproto.add, canon_kFile]
  have hkm : kFile ≠ kMid := by decide
  refine ⟨?_, ?_, ?_, ?_, ?_, ?_, ?_⟩
  · simp only [keys_addRaw]; exact nodup_upd F.nodup
  · intro e he
    rcases mem_addRaw he with he | rfl | ⟨vs, h1, rfl⟩
    · exact F.entries e he
    · exact entryOK_single (by decide) hv
    · exact entryOK_snoc (F.entries _ h1) hv
  · intro e he hmf
    rcases mem_addRaw he with he | rfl | ⟨vs, h1, rfl⟩
    · exact F.midU e he hmf
    · have h' : isMidFold kFile = true := hmf; exact absurd h' (by decide)
    · have h' : isMidFold kFile = true := hmf; exact absurd h' (by decide)
  · simpa [lookup_addRaw, hkm] using F.mid
  · simpa [getRaw_addRaw_ne _ _ (by decide : kFile ≠ kBody)] using F.body
  · simp only [lookup_addRaw, if_true]
    exact filesOK_snoc X _ _ _ _ F.files hf
  · simpa [getRaw_addRaw_ne _ _ (by decide : kFile ≠ kDate)] using F.date

theorem WF_base {X : Ext} (midv : Bytes) (h : midOK midv = true) :
    WFfacts X (setHeader { header := [], body := [], files := [] } kMid midv) := by
  simp only [midOK, Bool.and_eq_true] at h
  simp only [setHeader, Textproto.set, canon_kMid, setRaw]
  refine ⟨by simp [keys], ?_, ?_, ?_, ?_, ?_, ?_⟩
  · intro e he; simp at he; subst he; exact entryOK_single (by decide) h.1
  · intro e he _; simp at he; subst he; rfl
  · refine ⟨midv, by simp [lookup], ?_⟩
    intro e; simp [e] at h
  · simp [getRaw, lookup, kMid, kBody, trimString, trimWith, atoi]
  · simp [lookup, kMid, kFile, filesOK]
  · simp [getRaw, lookup, kMid, kDate, dateWF]

theorem built_WFfacts {X : Ext} (L : ExtLaws X) {m : Msg} (hb : Built X m) : WFfacts X m := by
  induction hb with
  | new midv now t mycall hm hn ht hc =>
    unfold newMessage
    have F1 := WF_base (X := X) midv hm
    have F2 := WF_setDate F1 now hn
    have F3 : WFfacts X (setFrom _ mycall) :=
      WF_setConst F2 kFrom _ (graphic_valueOK (graphic_addr hc)) canon_kFrom (by decide) (by decide) (by decide) (by decide) (by decide)
    have F4 := WF_setConst F3 kMbo mycall (graphic_valueOK hc) canon_kMbo (by decide) (by decide) (by decide) (by decide) (by decide)
    refine WF_setConst F4 kType _ ?_ canon_kType (by decide) (by decide) (by decide) (by decide) (by decide)
    split
    · decide
    · exact ht
  | subject m s _ ih =>
    exact WF_setConst ih kSubject _ (L.encode_value s) canon_kSubject (by decide) (by decide) (by decide) (by decide) (by decide)
  | to m a _ ha ih =>
    exact WF_addConst ih kTo _ (graphic_valueOK (graphic_addr ha)) canon_kTo (by decide) (by decide) (by decide) (by decide) (by decide)
  | cc m a _ ha ih =>
    exact WF_addConst ih kCc _ (graphic_valueOK (graphic_addr ha)) canon_kCc (by decide) (by decide) (by decide) (by decide) (by decide)
  | from_ m a _ ha ih =>
    exact WF_setConst ih kFrom _ (graphic_valueOK (graphic_addr ha)) canon_kFrom (by decide) (by decide) (by decide) (by decide) (by decide)
  | date m c _ hc ih => exact WF_setDate ih c hc
  | body m s _ hlen ih =>
    unfold setBody
    have F1 := WF_setConst ih kCTE v8bit (by decide) canon_kCTE (by decide) (by decide) (by decide) (by decide) (by decide)
    have F2 := WF_setConst F1 kContentType vTextPlain (by decide) canon_kContentType (by decide) (by decide) (by decide) (by decide) (by decide)
    exact WF_setBodyField F2 (stringToBody s) hlen
  | file m name data _ hne hL hd ih => exact WF_addFile L ih name data hne hL hd
  | xset m k v _ hk hv ih =>
    obtain ⟨h1, h2, h3, h4, h5⟩ := xKey_facts hk
    simp only [setHeader, Textproto.set]; exact WF_set ih h1 hv h2 h3 h4 h5
  | xadd m k v _ hk hv ih =>
    obtain ⟨h1, h2, h3, h4, h5⟩ := xKey_facts hk
    simp only [addHeader, Textproto.add]; exact WF_add ih h1 hv h2 h3 h4 h5

end Wl2k.Msg
