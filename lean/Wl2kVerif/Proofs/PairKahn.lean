import Wl2kVerif.B2F.Pair
import Wl2kVerif.Proofs.PairConfl
/-
Kahn confluence for the pair system of `B2F/Pair.lean`, and independence of how writes are segmented
and delayed in transit.

`stepSide a b` is decomposed into the side's own move `stepSelf` (a function of its own state and — only
when it reads from an empty queue — of whether the peer has returned) and the arrival `recv` of the
written bytes at the peer. `Net` is the pair system with explicit in-flight channels and single-byte
delivery steps (so every segmentation and delay of every write is some interleaving); it satisfies the
hypotheses of `Confl.maximal_unique`, and every execution of the pair system embeds into it.
-/
namespace Wl2k.B2F
open Wl2k

/-! ### one side's move -/

def Side.cutNow (a : Side) : Bool := match a.limit with | some k => decide (a.got ≥ k) | none => false

/-- the own move of a side (that has not ended): new state and the bytes it wrote; `none` = blocked -/
def stepSelfC (cut : Bool) (a : Side) (peerGone : Bool) : Option (Side × Bytes) :=
  match a.proc with
  | .ret r => some ({ a with ended := some (.done r) }, [])
  | .panic s => some ({ a with ended := some (.panicked s) }, [])
  | .write bs k => some ({ a with proc := k, evs := .wrote bs :: a.evs }, bs)
  | .call c k => some ({ a with proc := k (hstep a.h c).2, h := (hstep a.h c).1, evs := .called c :: a.evs }, [])
  | .readByte k =>
    if cut then some ({ a with proc := k none }, [])
    else match a.inq with
      | x :: t => some ({ a with proc := k (some x), inq := t, got := a.got + 1 }, [])
      | [] => if peerGone then some ({ a with proc := k none }, []) else none
  | .peek k =>
    if cut then some ({ a with proc := k none }, [])
    else match a.inq with
      | x :: _ => some ({ a with proc := k (some x), evs := .peeked x :: a.evs }, [])
      | [] => if peerGone then some ({ a with proc := k none }, []) else none

def stepSelf (a : Side) (peerGone : Bool) : Option (Side × Bytes) := stepSelfC a.cutNow a peerGone

def Side.push (b : Side) (bs : Bytes) : Side := { b with inq := b.inq ++ bs }

/-- bytes arriving at a side; a side that has returned drops them -/
def recv (b : Side) (bs : Bytes) : Side := if b.ended.isSome then b else b.push bs

/-- a state-changing step of side `a` next to peer `b` (`stepSide` without its no-op results) -/
def moveSide (a b : Side) : Option (Side × Side) :=
  if a.ended.isSome then none
  else
    match stepSide a b with
    | (_, _, .blocked) => none
    | (a', b', _) => some (a', b')

theorem push_nil (b : Side) : b.push [] = b := by simp [Side.push]

theorem recv_nil (b : Side) : recv b [] = b := by simp [recv, push_nil]

theorem moveSide_eq (a b : Side) :
    moveSide a b = if a.ended.isSome then none
      else (stepSelf a b.ended.isSome).map fun x => (x.1, recv b x.2) := by
  unfold moveSide
  by_cases he : a.ended.isSome = true
  · simp [he]
  · simp only [he, if_false]
    unfold stepSide stepSelf stepSelfC
    simp only [he, if_false]
    obtain ⟨proc, inq, got, limit, h, evs, ended⟩ := a
    simp only [Side.cutNow]
    clear he
    cases limit with
    | none =>
      simp only
      cases proc with
      | ret r => simp [recv_nil]
      | panic s => simp [recv_nil]
      | write bs k => simp [recv, Side.push]
      | call c k => simp [recv_nil]
      | readByte k =>
        cases inq with
        | nil => cases hb : b.ended.isSome <;> simp [recv_nil]
        | cons x t => simp [recv_nil]
      | peek k =>
        cases inq with
        | nil => cases hb : b.ended.isSome <;> simp [recv_nil]
        | cons x t => simp [recv_nil]
    | some kk =>
      simp only
      cases proc with
      | ret r => simp [recv_nil]
      | panic s => simp [recv_nil]
      | write bs k => simp [recv, Side.push]
      | call c k => simp [recv_nil]
      | readByte k =>
        by_cases hk : kk ≤ got
        · simp [hk, recv_nil]
        · cases inq with
          | nil => cases hb : b.ended.isSome <;> simp [hk, recv_nil]
          | cons x t => simp [hk, recv_nil]
      | peek k =>
        by_cases hk : kk ≤ got
        · simp [hk, recv_nil]
        · cases inq with
          | nil => cases hb : b.ended.isSome <;> simp [hk, recv_nil]
          | cons x t => simp [hk, recv_nil]

/-- **A side's move is monotone in what it can see**: a move that is possible while the peer is still
there stays possible — and is the same move — when more bytes have arrived behind the ones queued and/or
the peer has returned. (The Kahn property of a blocking-read process.) -/
theorem stepSelfC_push (cut : Bool) (a a₁ : Side) (bs : Bytes) (h : stepSelfC cut a false = some (a₁, bs)) (x : Bytes)
    (pe : Bool) : stepSelfC cut (a.push x) pe = some (a₁.push x, bs) := by
  obtain ⟨proc, inq, got, limit, hh, evs, ended⟩ := a
  unfold stepSelfC at h ⊢
  simp only [Side.push] at h ⊢
  cases proc with
  | ret r => simp only [Option.some.injEq, Prod.mk.injEq] at h ⊢; obtain ⟨rfl, rfl⟩ := h; simp
  | panic s => simp only [Option.some.injEq, Prod.mk.injEq] at h ⊢; obtain ⟨rfl, rfl⟩ := h; simp
  | write b k => simp only [Option.some.injEq, Prod.mk.injEq] at h ⊢; obtain ⟨rfl, rfl⟩ := h; simp
  | call c k => simp only [Option.some.injEq, Prod.mk.injEq] at h ⊢; obtain ⟨rfl, rfl⟩ := h; simp
  | readByte k =>
    cases cut with
    | true =>
      simp only [if_true, Option.some.injEq, Prod.mk.injEq] at h ⊢
      obtain ⟨rfl, rfl⟩ := h; simp
    | false =>
      cases inq with
      | nil => simp at h
      | cons y t =>
        simp only [Bool.false_eq_true, if_false, Option.some.injEq, Prod.mk.injEq, List.cons_append] at h ⊢
        obtain ⟨rfl, rfl⟩ := h; simp
  | peek k =>
    cases cut with
    | true =>
      simp only [if_true, Option.some.injEq, Prod.mk.injEq] at h ⊢
      obtain ⟨rfl, rfl⟩ := h; simp
    | false =>
      cases inq with
      | nil => simp at h
      | cons y t =>
        simp only [Bool.false_eq_true, if_false, Option.some.injEq, Prod.mk.injEq, List.cons_append] at h ⊢
        obtain ⟨rfl, rfl⟩ := h; simp

theorem stepSelf_push (a a₁ : Side) (bs : Bytes) (h : stepSelf a false = some (a₁, bs)) (x : Bytes) (pe : Bool) :
    stepSelf (a.push x) pe = some (a₁.push x, bs) :=
  stepSelfC_push a.cutNow a a₁ bs h x pe

theorem stepSelf_mono (a : Side) (r : Side × Bytes) (h : stepSelf a false = some r) (pe : Bool) :
    stepSelf a pe = some r := by
  obtain ⟨a₁, bs⟩ := r
  have := stepSelf_push a a₁ bs h [] pe
  simpa [push_nil] using this

/-- a move that is possible at all is possible when the peer has returned -/
theorem stepSelf_true (a : Side) (r : Side × Bytes) (pe : Bool) (h : stepSelf a pe = some r) :
    stepSelf a true = some r := by
  cases pe with
  | true => exact h
  | false => exact stepSelf_mono a r h true

/-! ### observation: the queue of a side that has returned is garbage -/

def Side.clean (s : Side) : Side := if s.ended.isSome then { s with inq := [] } else s

theorem clean_ended (s : Side) : s.clean.ended = s.ended := by
  unfold Side.clean; split <;> rfl

theorem clean_of_live (s : Side) (h : s.ended.isSome = false) : s.clean = s := by
  simp [Side.clean, h]

theorem push_ended (s : Side) (x : Bytes) : (s.push x).ended = s.ended := rfl

theorem recv_ended (s : Side) (x : Bytes) : (recv s x).ended = s.ended := by
  unfold recv; split <;> rfl

theorem recv_of_live (s : Side) (x : Bytes) (h : s.ended.isSome = false) : recv s x = s.push x := by
  simp [recv, h]

theorem recv_of_ended (s : Side) (x : Bytes) (h : s.ended.isSome = true) : recv s x = s := by
  simp [recv, h]

theorem recv_recv (s : Side) (x y : Bytes) : recv (recv s x) y = recv s (x ++ y) := by
  cases h : s.ended.isSome with
  | true => simp [recv, h]
  | false =>
    rw [recv_of_live s x h, recv_of_live s (x ++ y) h, recv_of_live _ y (by simpa [push_ended] using h)]
    simp [Side.push]

theorem clean_recv_push (s : Side) (y : Bytes) : (recv s y).clean = (s.push y).clean := by
  cases h : s.ended.isSome with
  | true => simp [recv, h, Side.clean, Side.push]
  | false => rw [recv_of_live s y h]

theorem eq_of_clean (s t : Side) (h : s.clean = t.clean) (hs : s.ended.isSome = false) : s = t := by
  have he : t.ended = s.ended := by rw [← clean_ended t, ← h, clean_ended]
  rw [clean_of_live s hs, clean_of_live t (by rw [he]; exact hs)] at h
  exact h

theorem clean_recv_congr (s t : Side) (y : Bytes) (h : s.clean = t.clean) : (recv s y).clean = (recv t y).clean := by
  cases hs : s.ended.isSome with
  | false => rw [eq_of_clean s t h hs]
  | true =>
    have he : t.ended = s.ended := by rw [← clean_ended t, ← h, clean_ended]
    rw [recv_of_ended s y hs, recv_of_ended t y (by rw [he]; exact hs)]
    exact h

/-! ### the network with bytes in flight -/

/-- two sides and the bytes in flight towards each; a write goes into the channel, single bytes are
delivered from it at any later time -/
structure Net where
  a : Side
  b : Side
  /-- in flight towards `a` -/
  ca : Bytes := []
  /-- in flight towards `b` -/
  cb : Bytes := []

def Net.swap (s : Net) : Net := ⟨s.b, s.a, s.cb, s.ca⟩

theorem Net.swap_swap (s : Net) : s.swap.swap = s := rfl

/-- side `a` moves; it sees EOF only when the peer has returned AND nothing is in flight any more -/
def Net.moveA (s : Net) : Option Net :=
  if s.a.ended.isSome then none
  else (stepSelf s.a (s.b.ended.isSome && s.ca.isEmpty)).map fun x => { s with a := x.1, cb := s.cb ++ x.2 }

/-- one byte in flight towards `a` arrives -/
def Net.delivA (s : Net) : Option Net :=
  match s.ca with
  | [] => none
  | x :: t => some { s with a := recv s.a [x], ca := t }

inductive Agent where
  | moveA | moveB | delivA | delivB
deriving DecidableEq, Repr

def Agent.swap : Agent → Agent
  | .moveA => .moveB
  | .moveB => .moveA
  | .delivA => .delivB
  | .delivB => .delivA

def Net.step : Agent → Net → Option Net
  | .moveA, s => s.moveA
  | .delivA, s => s.delivA
  | .moveB, s => s.swap.moveA.map Net.swap
  | .delivB, s => s.swap.delivA.map Net.swap

theorem Net.step_swap (i : Agent) (s : Net) : Net.step i.swap s = (Net.step i s.swap).map Net.swap := by
  cases i <;> simp [Net.step, Agent.swap, Net.swap_swap, Option.map_map, Function.comp_def]

/-- what is observed of a network state: both sides (queue of a returned side ignored), both channels -/
def Net.view (s : Net) : Side × Side × Bytes × Bytes := (s.a.clean, s.b.clean, s.ca, s.cb)

theorem Net.view_swap (s t : Net) (h : s.view = t.view) : s.swap.view = t.swap.view := by
  simp only [Net.view, Net.swap, Prod.mk.injEq] at h ⊢
  obtain ⟨h1, h2, h3, h4⟩ := h
  exact ⟨h2, h1, h4, h3⟩

/-- the pairwise commutation property between agents `i` and `j` -/
def Diamond (i j : Agent) : Prop :=
  ∀ s s₁ s₂, Net.step i s = some s₁ → Net.step j s = some s₂ →
    ∃ s₃ s₃', Net.step j s₁ = some s₃ ∧ Net.step i s₂ = some s₃' ∧ s₃.view = s₃'.view

theorem Diamond.symm {i j : Agent} (h : Diamond i j) : Diamond j i := by
  intro s s₁ s₂ h1 h2
  obtain ⟨s₃, s₃', a1, a2, a3⟩ := h s s₂ s₁ h2 h1
  exact ⟨s₃', s₃, a2, a1, a3.symm⟩

theorem Diamond.swap {i j : Agent} (h : Diamond i j) : Diamond i.swap j.swap := by
  intro s s₁ s₂ h1 h2
  rw [Net.step_swap] at h1 h2
  cases e1 : Net.step i s.swap with
  | none => rw [e1] at h1; simp at h1
  | some u₁ =>
    cases e2 : Net.step j s.swap with
    | none => rw [e2] at h2; simp at h2
    | some u₂ =>
      rw [e1] at h1; rw [e2] at h2
      simp only [Option.map_some, Option.some.injEq] at h1 h2
      subst h1; subst h2
      obtain ⟨u₃, u₃', a1, a2, a3⟩ := h s.swap u₁ u₂ e1 e2
      refine ⟨u₃.swap, u₃'.swap, ?_, ?_, Net.view_swap _ _ a3⟩
      · rw [Net.step_swap, Net.swap_swap, a1]; rfl
      · rw [Net.step_swap, Net.swap_swap, a2]; rfl

theorem moveA_some (s t : Net) (h : s.moveA = some t) :
    s.a.ended.isSome = false ∧ ∃ a₁ x, stepSelf s.a (s.b.ended.isSome && s.ca.isEmpty) = some (a₁, x) ∧
      t = { s with a := a₁, cb := s.cb ++ x } := by
  unfold Net.moveA at h
  cases he : s.a.ended.isSome with
  | true => simp [he] at h
  | false =>
    simp only [he, Bool.false_eq_true, if_false] at h
    cases hs : stepSelf s.a (s.b.ended.isSome && s.ca.isEmpty) with
    | none => rw [hs] at h; simp at h
    | some r =>
      rw [hs] at h
      simp only [Option.map_some, Option.some.injEq] at h
      exact ⟨rfl, r.1, r.2, rfl, h.symm⟩

theorem moveA_of (s : Net) (a₁ : Side) (x : Bytes) (he : s.a.ended.isSome = false)
    (h : stepSelf s.a (s.b.ended.isSome && s.ca.isEmpty) = some (a₁, x)) :
    s.moveA = some { s with a := a₁, cb := s.cb ++ x } := by
  unfold Net.moveA
  simp [he, h]

/-- both sides move: they commute exactly -/
theorem diamond_moveA_moveB : Diamond .moveA .moveB := by
  intro s s₁ s₂ h1 h2
  simp only [Net.step] at h1 h2 ⊢
  obtain ⟨hea, a₁, x, hsa, rfl⟩ := moveA_some s s₁ h1
  cases e2 : s.swap.moveA with
  | none => rw [e2] at h2; simp at h2
  | some u =>
    rw [e2] at h2
    simp only [Option.map_some, Option.some.injEq] at h2
    subst h2
    obtain ⟨heb, b₁, y, hsb, rfl⟩ := moveA_some s.swap u e2
    simp only [Net.swap] at heb hsb ⊢
    -- both are enabled while the other has not returned
    have hsa' : stepSelf s.a false = some (a₁, x) := by simpa [heb] using hsa
    have hsb' : stepSelf s.b false = some (b₁, y) := by simpa [hea] using hsb
    refine ⟨⟨a₁, b₁, s.ca ++ y, s.cb ++ x⟩, ⟨a₁, b₁, s.ca ++ y, s.cb ++ x⟩, ?_, ?_, rfl⟩
    · have := moveA_of ⟨s.b, a₁, s.cb ++ x, s.ca⟩ b₁ y heb (stepSelf_mono _ _ hsb' _)
      rw [this]; rfl
    · have := moveA_of ⟨s.a, b₁, s.ca ++ y, s.cb⟩ a₁ x hea (stepSelf_mono _ _ hsa' _)
      rw [this]

theorem delivA_some (s t : Net) (h : s.delivA = some t) :
    ∃ c r, s.ca = c :: r ∧ t = { s with a := recv s.a [c], ca := r } := by
  unfold Net.delivA at h
  cases hc : s.ca with
  | nil => rw [hc] at h; simp at h
  | cons c r =>
    rw [hc] at h
    simp only [Option.some.injEq] at h
    exact ⟨c, r, rfl, h.symm⟩

/-- a side moves while a byte arrives at it: the arrival lands behind what the move looks at -/
theorem diamond_moveA_delivA : Diamond .moveA .delivA := by
  intro s s₁ s₂ h1 h2
  simp only [Net.step] at h1 h2 ⊢
  obtain ⟨hea, a₁, x, hsa, rfl⟩ := moveA_some s s₁ h1
  obtain ⟨c, r, hca, rfl⟩ := delivA_some s s₂ h2
  have hsa' : stepSelf s.a false = some (a₁, x) := by simpa [hca] using hsa
  have hr : recv s.a [c] = s.a.push [c] := recv_of_live _ _ hea
  refine ⟨⟨recv a₁ [c], s.b, r, s.cb ++ x⟩, ⟨a₁.push [c], s.b, r, s.cb ++ x⟩, ?_, ?_, ?_⟩
  · simp [Net.delivA, hca]
  · have := moveA_of ⟨recv s.a [c], s.b, r, s.cb⟩ (a₁.push [c]) x (by rw [recv_ended]; exact hea)
      (by rw [hr]; exact stepSelf_push _ _ _ hsa' _ _)
    rw [this]
  · simp [Net.view, clean_recv_push]

/-- a side moves while a byte it wrote earlier arrives at the peer -/
theorem diamond_moveA_delivB : Diamond .moveA .delivB := by
  intro s s₁ s₂ h1 h2
  simp only [Net.step] at h1 h2 ⊢
  obtain ⟨hea, a₁, x, hsa, rfl⟩ := moveA_some s s₁ h1
  cases e2 : s.swap.delivA with
  | none => rw [e2] at h2; simp at h2
  | some u =>
    rw [e2] at h2
    simp only [Option.map_some, Option.some.injEq] at h2
    subst h2
    obtain ⟨c, r, hcb, rfl⟩ := delivA_some s.swap u e2
    simp only [Net.swap] at hcb ⊢
    refine ⟨⟨a₁, recv s.b [c], s.ca, r ++ x⟩, ⟨a₁, recv s.b [c], s.ca, r ++ x⟩, ?_, ?_, rfl⟩
    · simp [Net.delivA, hcb, Net.swap]
    · have := moveA_of ⟨s.a, recv s.b [c], s.ca, r⟩ a₁ x hea (by rw [recv_ended]; exact hsa)
      rw [this]

theorem diamond_delivA_delivB : Diamond .delivA .delivB := by
  intro s s₁ s₂ h1 h2
  simp only [Net.step] at h1 h2 ⊢
  obtain ⟨c, r, hca, rfl⟩ := delivA_some s s₁ h1
  cases e2 : s.swap.delivA with
  | none => rw [e2] at h2; simp at h2
  | some u =>
    rw [e2] at h2
    simp only [Option.map_some, Option.some.injEq] at h2
    subst h2
    obtain ⟨d, q, hcb, rfl⟩ := delivA_some s.swap u e2
    simp only [Net.swap] at hcb ⊢
    refine ⟨⟨recv s.a [c], recv s.b [d], r, q⟩, ⟨recv s.a [c], recv s.b [d], r, q⟩, ?_, ?_, rfl⟩
    · simp [Net.delivA, hcb, Net.swap]
    · simp [Net.delivA, hca]

theorem diamond_all (i j : Agent) (hij : i ≠ j) : Diamond i j := by
  cases i <;> cases j
  all_goals first
    | exact absurd rfl hij
    | exact diamond_moveA_moveB
    | exact diamond_moveA_moveB.symm
    | exact diamond_moveA_delivA
    | exact diamond_moveA_delivA.symm
    | exact diamond_moveA_delivB
    | exact diamond_moveA_delivB.symm
    | exact diamond_delivA_delivB
    | exact diamond_delivA_delivB.symm
    | exact diamond_moveA_delivA.swap
    | exact diamond_moveA_delivA.swap.symm
    | exact diamond_moveA_delivB.swap
    | exact diamond_moveA_delivB.swap.symm

/-- moves respect the observation -/
theorem compat_moveA (s t s' : Net) (hv : s.view = t.view) (h : s.moveA = some s') :
    ∃ t', t.moveA = some t' ∧ s'.view = t'.view := by
  obtain ⟨hea, a₁, x, hsa, rfl⟩ := moveA_some s s' h
  simp only [Net.view, Prod.mk.injEq] at hv
  obtain ⟨h1, h2, h3, h4⟩ := hv
  have ha : s.a = t.a := eq_of_clean _ _ h1 hea
  have hb : t.b.ended = s.b.ended := by rw [← clean_ended t.b, ← h2, clean_ended]
  refine ⟨{ t with a := a₁, cb := t.cb ++ x }, moveA_of t a₁ x (by rw [← ha]; exact hea) (by rw [← ha, hb, ← h3]; exact hsa), ?_⟩
  simp [Net.view, h2, h3, h4]

theorem compat_delivA (s t s' : Net) (hv : s.view = t.view) (h : s.delivA = some s') :
    ∃ t', t.delivA = some t' ∧ s'.view = t'.view := by
  obtain ⟨c, r, hca, rfl⟩ := delivA_some s s' h
  simp only [Net.view, Prod.mk.injEq] at hv
  obtain ⟨h1, h2, h3, h4⟩ := hv
  refine ⟨{ t with a := recv t.a [c], ca := r }, by simp [Net.delivA, ← h3, hca], ?_⟩
  simp [Net.view, h2, h4, clean_recv_congr _ _ _ h1]

theorem compat_all (i : Agent) (s t s' : Net) (hv : s.view = t.view) (h : Net.step i s = some s') :
    ∃ t', Net.step i t = some t' ∧ s'.view = t'.view := by
  cases i with
  | moveA => exact compat_moveA s t s' hv h
  | delivA => exact compat_delivA s t s' hv h
  | moveB =>
    simp only [Net.step] at h ⊢
    cases e : s.swap.moveA with
    | none => rw [e] at h; simp at h
    | some u =>
      rw [e] at h
      simp only [Option.map_some, Option.some.injEq] at h
      subst h
      obtain ⟨t', ht', hv'⟩ := compat_moveA s.swap t.swap u (Net.view_swap _ _ hv) e
      exact ⟨t'.swap, by rw [ht']; rfl, Net.view_swap _ _ hv'⟩
  | delivB =>
    simp only [Net.step] at h ⊢
    cases e : s.swap.delivA with
    | none => rw [e] at h; simp at h
    | some u =>
      rw [e] at h
      simp only [Option.map_some, Option.some.injEq] at h
      subst h
      obtain ⟨t', ht', hv'⟩ := compat_delivA s.swap t.swap u (Net.view_swap _ _ hv) e
      exact ⟨t'.swap, by rw [ht']; rfl, Net.view_swap _ _ hv'⟩

/-- **The network is a commuting system.** -/
theorem net_commuting : Confl.Commuting Net.step Net.view :=
  ⟨fun i s t s' hv h => compat_all i s t s' hv h, fun i j s s₁ s₂ hij h1 h2 => diamond_all i j hij s s₁ s₂ h1 h2⟩

/-! ### the pair system of `Pair.lean` inside the network -/

/-- the moves of the pair system: `false` = the first side, `true` = the second -/
def pairStep : Bool → Side × Side → Option (Side × Side)
  | false, (a, b) => moveSide a b
  | true, (a, b) => (moveSide b a).map Prod.swap

abbrev PairExec := Confl.Exec pairStep
abbrev PairTerminal := Confl.Terminal pairStep
abbrev NetExec := Confl.Exec Net.step
abbrev NetTerminal := Confl.Terminal Net.step

/-- a pair state as a network state with nothing in flight -/
def embed (s : Side × Side) : Net := ⟨s.1, s.2, [], []⟩

def pairView (s : Side × Side) : Side × Side := (s.1.clean, s.2.clean)

theorem deliver_all_B : ∀ (x r : Bytes) (a b : Side) (ca : Bytes),
    NetExec ⟨a, b, ca, x ++ r⟩ x.length ⟨a, recv b x, ca, r⟩ := by
  intro x
  induction x with
  | nil => intro r a b ca; simpa [recv_nil] using Confl.Exec.refl (step := Net.step) (⟨a, b, ca, r⟩ : Net)
  | cons c t ih =>
    intro r a b ca
    have h1 : Net.step .delivB ⟨a, b, ca, (c :: t) ++ r⟩ = some ⟨a, recv b [c], ca, t ++ r⟩ := by
      simp [Net.step, Net.swap, Net.delivA]
    have h2 := ih r a (recv b [c]) ca
    rw [recv_recv] at h2
    exact Confl.Exec.cons _ _ _ _ _ h1 h2

theorem deliver_all_A (x r : Bytes) (a b : Side) (cb : Bytes) :
    NetExec ⟨a, b, x ++ r, cb⟩ x.length ⟨recv a x, b, r, cb⟩ := by
  induction x generalizing a with
  | nil => simpa [recv_nil] using Confl.Exec.refl (step := Net.step) (⟨a, b, r, cb⟩ : Net)
  | cons c t ih =>
    have h1 : Net.step .delivA ⟨a, b, (c :: t) ++ r, cb⟩ = some ⟨recv a [c], b, t ++ r, cb⟩ := by
      simp [Net.step, Net.delivA]
    have h2 := ih (recv a [c])
    rw [recv_recv] at h2
    exact Confl.Exec.cons _ _ _ _ _ h1 h2

/-- one move of the pair system = the side's move in the network followed by the delivery of everything
it wrote -/
theorem pairStep_embed (i : Bool) (s s' : Side × Side) (h : pairStep i s = some s') :
    ∃ n, NetExec (embed s) n (embed s') := by
  obtain ⟨a, b⟩ := s
  cases i with
  | false =>
    simp only [pairStep, moveSide_eq] at h
    cases he : a.ended.isSome with
    | true => simp [he] at h
    | false =>
      simp only [he, Bool.false_eq_true, if_false] at h
      cases hs : stepSelf a b.ended.isSome with
      | none => rw [hs] at h; simp at h
      | some r =>
        obtain ⟨a₁, x⟩ := r
        rw [hs] at h
        simp only [Option.map_some, Option.some.injEq] at h
        subst h
        have h1 : Net.step .moveA (embed (a, b)) = some ⟨a₁, b, [], x⟩ := by
          have := moveA_of (embed (a, b)) a₁ x he (by simpa [embed] using hs)
          simpa [Net.step, embed] using this
        have h2 := deliver_all_B x [] a₁ b []
        simp only [List.append_nil] at h2
        exact ⟨x.length + 1, Confl.Exec.cons _ _ _ _ _ h1 h2⟩
  | true =>
    simp only [pairStep, moveSide_eq] at h
    cases he : b.ended.isSome with
    | true => simp [he] at h
    | false =>
      simp only [he, Bool.false_eq_true, if_false] at h
      cases hs : stepSelf b a.ended.isSome with
      | none => rw [hs] at h; simp at h
      | some r =>
        obtain ⟨b₁, x⟩ := r
        rw [hs] at h
        simp only [Option.map_some, Option.some.injEq] at h
        subst h
        have h1 : Net.step .moveB (embed (a, b)) = some ⟨a, b₁, x, []⟩ := by
          have := moveA_of (embed (a, b)).swap b₁ x he (by simpa [embed, Net.swap] using hs)
          simp only [Net.step, this]
          simp [embed, Net.swap]
        have h2 := deliver_all_A x [] a b₁ []
        simp only [List.append_nil] at h2
        exact ⟨x.length + 1, Confl.Exec.cons _ _ _ _ _ h1 h2⟩

theorem pairExec_embed {s t : Side × Side} {n : Nat} (h : PairExec s n t) : ∃ m, NetExec (embed s) m (embed t) := by
  induction h with
  | refl s => exact ⟨0, Confl.Exec.refl _⟩
  | cons i s s' n t hs _ ih =>
    obtain ⟨m1, h1⟩ := pairStep_embed i s s' hs
    obtain ⟨m2, h2⟩ := ih
    exact ⟨m1 + m2, h1.trans h2⟩

theorem pairTerminal_embed {s : Side × Side} (h : PairTerminal s) : NetTerminal (embed s) := by
  obtain ⟨a, b⟩ := s
  have hf := h false
  have ht := h true
  simp only [pairStep, moveSide_eq] at hf ht
  intro i
  cases i with
  | delivA => rfl
  | delivB => rfl
  | moveA =>
    simp only [Net.step, Net.moveA, embed, List.isEmpty_nil, Bool.and_true]
    cases he : a.ended.isSome with
    | true => simp
    | false =>
      simp only [he, Bool.false_eq_true, if_false] at hf ⊢
      cases hs : stepSelf a b.ended.isSome with
      | none => simp
      | some r => rw [hs] at hf; simp at hf
  | moveB =>
    simp only [Net.step, Net.moveA, embed, Net.swap, List.isEmpty_nil, Bool.and_true]
    cases he : b.ended.isSome with
    | true => simp
    | false =>
      simp only [he, Bool.false_eq_true, if_false] at ht ⊢
      cases hs : stepSelf b a.ended.isSome with
      | none => simp
      | some r => rw [hs] at ht; simp at ht

/-- **Kahn confluence of the pair system**: any two maximal executions from the same state — i.e. any two
schedules — end with the same per-side programs, event lists, handler states, byte counters and results
(everything but the input queue of a side that has returned). -/
theorem pair_confluent {s t t' : Side × Side} {n m : Nat}
    (he : PairExec s n t) (ht : PairTerminal t) (he' : PairExec s m t') (ht' : PairTerminal t') :
    pairView t' = pairView t := by
  obtain ⟨n1, h1⟩ := pairExec_embed he
  obtain ⟨n2, h2⟩ := pairExec_embed he'
  have := (Confl.maximal_unique net_commuting h1 (pairTerminal_embed ht) h2 (pairTerminal_embed ht')).2
  simp only [Net.view, embed, Prod.mk.injEq] at this
  simp only [pairView, Prod.mk.injEq]
  exact ⟨this.1, this.2.1⟩

/-- **Segmentation / delay independence**: let every write travel through a channel from which single
bytes are delivered at arbitrary later times (so a write may arrive in any number of pieces, interleaved
in any way with both sides' moves). Every maximal execution of that network ends — observably — in the
state in which a maximal execution of the pair system (whole writes delivered at once) ends, and has
nothing left in flight. -/
theorem segmentation_independent {s t : Side × Side} {n m : Nat} {u : Net}
    (he : PairExec s n t) (ht : PairTerminal t) (hu : NetExec (embed s) m u) (htu : NetTerminal u) :
    (u.a.clean, u.b.clean) = pairView t ∧ u.ca = [] ∧ u.cb = [] := by
  obtain ⟨n1, h1⟩ := pairExec_embed he
  have := (Confl.maximal_unique net_commuting h1 (pairTerminal_embed ht) hu htu).2
  simp only [Net.view, embed, Prod.mk.injEq] at this
  simp only [pairView, Prod.mk.injEq]
  exact ⟨⟨this.1, this.2.1⟩, this.2.2.1, this.2.2.2⟩

/-- an execution of the network can never be longer than a maximal one: if one schedule terminates, all do -/
theorem net_length_bounded {s : Net} {t t' : Net} {n m : Nat}
    (he : NetExec s n t) (ht : NetTerminal t) (he' : NetExec s m t') : m ≤ n :=
  Confl.length_bounded net_commuting he ht he'

/-! ### the schedule `pairLoop` uses is one of them -/

theorem stepSide_blocked (a b a' b' : Side) (h : stepSide a b = (a', b', .blocked)) : a' = a ∧ b' = b := by
  by_cases he : a.ended.isSome = true
  · simp [stepSide, he] at h
  · unfold stepSide at h
    simp only [he, if_false] at h
    obtain ⟨proc, inq, got, limit, hh, evs, ended⟩ := a
    clear he
    cases limit with
    | none =>
      cases proc with
      | readByte k =>
        cases inq with
        | nil => cases hb : b.ended.isSome <;> simp [hb] at h; exact ⟨h.1.symm, h.2.symm⟩
        | cons x t => simp at h
      | peek k =>
        cases inq with
        | nil => cases hb : b.ended.isSome <;> simp [hb] at h; exact ⟨h.1.symm, h.2.symm⟩
        | cons x t => simp at h
      | _ => simp at h
    | some kk =>
      cases proc with
      | readByte k =>
        by_cases hk : kk ≤ got
        · simp [hk] at h
        · cases inq with
          | nil => cases hb : b.ended.isSome <;> simp [hk, hb] at h; exact ⟨h.1.symm, h.2.symm⟩
          | cons x t => simp [hk] at h
      | peek k =>
        by_cases hk : kk ≤ got
        · simp [hk] at h
        · cases inq with
          | nil => cases hb : b.ended.isSome <;> simp [hk, hb] at h; exact ⟨h.1.symm, h.2.symm⟩
          | cons x t => simp [hk] at h
      | _ => simp at h

theorem stepSide_ended (a b : Side) (he : a.ended.isSome = true) : stepSide a b = (a, b, .finished) := by
  simp [stepSide, he]

/-- a call of `stepSide` either is a move of that side or changes nothing -/
theorem stepSide_move_or_same (a b a' b' : Side) (r : StepRes) (h : stepSide a b = (a', b', r)) :
    moveSide a b = some (a', b') ∨ (a' = a ∧ b' = b) := by
  by_cases he : a.ended.isSome = true
  · rw [stepSide_ended a b he] at h
    simp only [Prod.mk.injEq] at h
    exact Or.inr ⟨h.1.symm, h.2.1.symm⟩
  · cases r with
    | blocked => exact Or.inr (stepSide_blocked a b a' b' h)
    | progressed => left; simp [moveSide, he, h]
    | finished => left; simp [moveSide, he, h]

/-- `runSide` performs moves of the first side only -/
theorem runSide_exec : ∀ (fuel : Nat) (a b : Side),
    ∃ n, PairExec (a, b) n ((runSide fuel a b).1, (runSide fuel a b).2.1) := by
  intro fuel
  induction fuel with
  | zero => intro a b; exact ⟨0, Confl.Exec.refl _⟩
  | succ fuel ih =>
    intro a b
    unfold runSide
    generalize hs : stepSide a b = r
    obtain ⟨a', b', res⟩ := r
    have hm := stepSide_move_or_same a b a' b' res hs
    cases res with
    | progressed =>
      simp only
      obtain ⟨n, hn⟩ := ih a' b'
      rcases hm with hm | ⟨rfl, rfl⟩
      · exact ⟨n + 1, Confl.Exec.cons false (a, b) (a', b') n _ hm hn⟩
      · exact ⟨n, hn⟩
    | blocked =>
      simp only
      rcases hm with hm | ⟨rfl, rfl⟩
      · exact ⟨1, Confl.Exec.single (i := false) hm⟩
      · exact ⟨0, Confl.Exec.refl _⟩
    | finished =>
      simp only
      rcases hm with hm | ⟨rfl, rfl⟩
      · exact ⟨1, Confl.Exec.single (i := false) hm⟩
      · exact ⟨0, Confl.Exec.refl _⟩

/-- … and with the roles exchanged, of the second side only -/
theorem runSide_exec_swap (fuel : Nat) (a b : Side) :
    ∃ n, PairExec (a, b) n ((runSide fuel b a).2.1, (runSide fuel b a).1) := by
  obtain ⟨n, hn⟩ := runSide_exec fuel b a
  refine ⟨n, ?_⟩
  -- mirror an execution
  have mirror : ∀ (s t : Side × Side) (n : Nat), PairExec s n t → PairExec s.swap n t.swap := by
    intro s t n h
    induction h with
    | refl s => exact Confl.Exec.refl _
    | cons i s s' n t hs _ ih =>
      refine Confl.Exec.cons (!i) s.swap s'.swap n t.swap ?_ ih
      obtain ⟨x, y⟩ := s
      cases i with
      | false => simp only [pairStep] at hs; simp [pairStep, Prod.swap, hs]
      | true =>
        simp only [pairStep] at hs
        cases hm : moveSide y x with
        | none => rw [hm] at hs; simp at hs
        | some z => rw [hm] at hs; simp only [Option.map_some, Option.some.injEq] at hs; subst hs; simp [pairStep, Prod.swap, hm]
  exact mirror (b, a) _ n hn

/-- **`pairLoop` (hence `pairRun`) is an execution of the pair system.** -/
theorem pairLoop_exec : ∀ (rounds fuel : Nat) (a b : Side), ∃ n, PairExec (a, b) n (pairLoop rounds fuel a b) := by
  intro rounds
  induction rounds with
  | zero => intro fuel a b; exact ⟨0, Confl.Exec.refl _⟩
  | succ rounds ih =>
    intro fuel a b
    unfold pairLoop
    obtain ⟨n1, h1⟩ := runSide_exec fuel a b
    generalize runSide fuel a b = r1 at h1
    obtain ⟨a1, b1, f1⟩ := r1
    simp only at h1 ⊢
    obtain ⟨n2, h2⟩ := runSide_exec_swap f1 a1 b1
    generalize runSide f1 b1 a1 = r2 at h2
    obtain ⟨b2, a2, f2⟩ := r2
    simp only at h2 ⊢
    have h12 := h1.trans h2
    split
    · exact ⟨_, h12⟩
    · split
      · exact ⟨_, h12⟩
      · obtain ⟨n3, h3⟩ := ih f2 a2 b2
        exact ⟨_, h12.trans h3⟩

/-- both sides have returned ⇒ nobody can move -/
theorem pairTerminal_of_ended (a b : Side) (ha : a.ended.isSome = true) (hb : b.ended.isSome = true) :
    PairTerminal (a, b) := by
  intro i
  cases i <;> simp [pairStep, moveSide, ha, hb]

/-- both sides blocked (deadlock) ⇒ nobody can move -/
theorem pairTerminal_of_blocked (a b a' b' a'' b'' : Side) (ha : stepSide a b = (a', b', .blocked))
    (hb : stepSide b a = (b'', a'', .blocked)) : PairTerminal (a, b) := by
  intro i
  cases i <;> simp [pairStep, moveSide, ha, hb]

/-! ### the diamond of the pair system itself -/

theorem moveSide_some (a b : Side) (t : Side × Side) (h : moveSide a b = some t) :
    a.ended.isSome = false ∧ ∃ a₁ x, stepSelf a b.ended.isSome = some (a₁, x) ∧ t = (a₁, recv b x) := by
  rw [moveSide_eq] at h
  cases he : a.ended.isSome with
  | true => simp [he] at h
  | false =>
    simp only [he, Bool.false_eq_true, if_false] at h
    cases hs : stepSelf a b.ended.isSome with
    | none => rw [hs] at h; simp at h
    | some r =>
      rw [hs] at h
      simp only [Option.map_some, Option.some.injEq] at h
      exact ⟨rfl, r.1, r.2, rfl, h.symm⟩

/-- **Steps of different sides commute** (up to the queue of a side that has just returned): if both
sides can move, each can still make the SAME move after the other has moved, and both orders lead to
the same observed state. -/
theorem pair_diamond (a b : Side) (s₁ s₂ : Side × Side)
    (h1 : pairStep false (a, b) = some s₁) (h2 : pairStep true (a, b) = some s₂) :
    ∃ s₃ s₃', pairStep true s₁ = some s₃ ∧ pairStep false s₂ = some s₃' ∧ pairView s₃ = pairView s₃' := by
  simp only [pairStep] at h1 h2
  obtain ⟨hea, a₁, x, hsa, rfl⟩ := moveSide_some a b s₁ h1
  cases e2 : moveSide b a with
  | none => rw [e2] at h2; simp at h2
  | some u =>
    rw [e2] at h2
    simp only [Option.map_some, Option.some.injEq] at h2
    subst h2
    obtain ⟨heb, b₁, y, hsb, rfl⟩ := moveSide_some b a u e2
    rw [heb] at hsa
    rw [hea] at hsb
    rw [recv_of_live b x heb, recv_of_live a y hea]
    refine ⟨(recv a₁ y, b₁.push x), (a₁.push y, recv b₁ x), ?_, ?_, ?_⟩
    · simp only [pairStep, moveSide_eq, push_ended, heb, Bool.false_eq_true, if_false,
        stepSelf_push b b₁ y hsb x _, Option.map_some, Prod.swap]
    · simp only [Prod.swap, pairStep, moveSide_eq, push_ended, hea, Bool.false_eq_true, if_false,
        stepSelf_push a a₁ x hsa y _, Option.map_some]
    · simp only [pairView, clean_recv_push]

/-- **The same side is deterministic**: a side's move is a function of the state. -/
theorem pair_deterministic (i : Bool) (s s₁ s₂ : Side × Side) (h1 : pairStep i s = some s₁) (h2 : pairStep i s = some s₂) :
    s₁ = s₂ := by
  rw [h1] at h2; exact Option.some.inj h2

end Wl2k.B2F
