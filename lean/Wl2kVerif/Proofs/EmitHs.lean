import Wl2kVerif.Proofs.EmitWalk
/-
The handshake against the output grammar: MOTD lines, and the one write of `sendHandshake`
(`;FW` line, SID, optional `;PR` line, identification line).
-/
namespace Wl2k.B2F
open Wl2k Wl2k.Fmt Wl2k.Str Wl2k.Strconv Wl2k.B2F.Grammar

/-! ### literals -/

theorem lit_fw : strBytes ";FW:" = [59, 70, 87, 58] := by decide +kernel
theorem lit_cr : strBytes "\r" = [13] := by decide +kernel
theorem lit_sp : strBytes " " = [32] := by decide +kernel
theorem lit_bar : strBytes "|" = [124] := by decide +kernel
theorem lit_lb : strBytes "[" = [91] := by decide +kernel
theorem lit_dash : strBytes "-" = [45] := by decide +kernel
theorem lit_rbcr : strBytes "]\r" = [93, 13] := by decide +kernel
theorem lit_pr : strBytes ";PR: " = [59, 80, 82, 58, 32] := by decide +kernel
theorem lit_semi : strBytes "; " = [59, 32] := by decide +kernel
theorem lit_de : strBytes " DE " = [32, 68, 69, 32] := by decide +kernel
theorem lit_lp : strBytes " (" = [32, 40] := by decide +kernel
theorem lit_rp : strBytes ")" = [41] := by decide +kernel
theorem lit_gtcr : strBytes ">\r" = [62, 13] := by decide +kernel
theorem lit_codes (gzip : Bool) :
    sidCodes gzip = if gzip then [66, 50, 70, 72, 77, 71, 36] else [66, 50, 70, 72, 77, 36] := by
  cases gzip <;> decide +kernel

/-! ### hypotheses on the configuration -/

/-- a character of the user-agent name / version in the SID: printable, no bracket -/
def sidCh (b : UInt8) : Bool := isPrint b && b != 91 && b != 93

/-- a MOTD line (without CR) the grammar accepts -/
def motdOK (l : Bytes) : Bool :=
  l.all isPrint && l.getLast? != some 62 && l.head? != some 59 && l.head? != some 91 && l.head? != some 42

structure HsOK (c : Cfg) : Prop where
  motd : ∀ l ∈ c.motd, motdOK l = true
  fwne : c.hs.localFW ≠ []
  fw : ∀ a ∈ c.hs.localFW, isAddr a = true
  name : c.hs.uaName.all sidCh = true
  version : c.hs.uaVersion.all sidCh = true
  mycall : isCall c.hs.mycall = true
  target : isCall c.hs.targetcall = true
  loc : c.hs.locator.all isAlnum = true

/-! ### splitting -/

theorem splitOn_append_gen (sep : UInt8) (b : Bytes) : ∀ (a : Bytes),
    splitOn sep (a ++ sep :: b) = splitOn sep a ++ splitOn sep b := by
  intro a
  induction a with
  | nil => simp [splitOn]
  | cons x t ih =>
    by_cases hx : x = sep
    · simp [splitOn, hx, ih]
    · simp only [List.cons_append, splitOn, hx, if_false, ih]
      cases h : splitOn sep t with
      | nil => exact absurd h (splitOn_ne_nil sep t)
      | cons y r => simp

theorem splitOn_items : ∀ (items : List Bytes) (tag : Bytes), (32 : UInt8) ∉ tag → (∀ it ∈ items, (32 : UInt8) ∉ it) →
    splitOn 32 (tag ++ (items.map (32 :: ·)).flatten) = tag :: items := by
  intro items
  induction items with
  | nil => intro tag ht _; simp [splitOn_nosep 32 tag ht]
  | cons it rest ih =>
    intro tag ht hi
    simp only [List.map_cons, List.flatten_cons, List.cons_append]
    rw [splitOn_append_sep 32 _ tag ht, ih it (hi it (by simp)) (fun x hx => hi x (by simp [hx]))]

/-! ### the `;FW` line -/


/-- a password view as `askPasswords` builds it: a real response (8 digits), or the error placeholder -/
def ViewOK (v : CbView) : Prop := isHash v.resp = true ∨ (v.empty = true ∧ v.isErr = true)

def fwItems (secure : Bool) : Nat → List Bytes → List CbView → List Bytes
  | _, [], _ => []
  | i, a :: as, vs =>
    (if secure && i > 0 && !(vs.headD (CbView.mk true false [])).empty then a ++ 124 :: (vs.headD (CbView.mk true false [])).resp else a) ::
      fwItems secure (i + 1) as vs.tail

theorem fwLineAux_eq (secure : Bool) : ∀ (as : List Bytes) (i : Nat) (vs : List CbView),
    fwLineAux secure i as vs = ((fwItems secure i as vs).map (32 :: ·)).flatten := by
  intro as
  induction as with
  | nil => intro i vs; simp [fwLineAux, fwItems]
  | cons a t ih =>
    intro i vs
    have he : fwEntry secure i a (vs.headD ⟨true, false, []⟩) =
        32 :: (if secure && i > 0 && !(vs.headD (CbView.mk true false [])).empty then a ++ 124 :: (vs.headD (CbView.mk true false [])).resp else a) := by
      simp only [fwEntry, lit_sp, lit_bar]
      by_cases hb : (secure && decide (i > 0) && !(vs.headD (⟨true, false, []⟩ : CbView)).empty) = true
      · rw [if_pos hb, if_pos hb]; simp
      · rw [if_neg hb, if_neg hb]; simp
    simp only [fwLineAux, fwItems, List.map_cons, List.flatten_cons, ih, he]

/-- an item of the `;FW` line the grammar accepts, and which splits cleanly -/
def ItemOK (secure : Bool) (it : Bytes) : Prop :=
  (match fwItem it with | some h => !h || secure | none => false) = true ∧ (32 : UInt8) ∉ it ∧ (13 : UInt8) ∉ it

theorem isAddr_all {a : Bytes} (h : isAddr a = true) :
    a.all (fun b => isAlnum b || b == 64 || b == 46 || b == 58 || b == 95 || b == 45) = true := by
  simp only [isAddr, Bool.and_eq_true] at h; exact h.2

theorem isHash_all {r : Bytes} (h : isHash r = true) : r.all isDigit = true := by
  simp only [isHash, Bool.and_eq_true] at h; exact h.2

theorem item_plain (secure : Bool) (a : Bytes) (ha : isAddr a = true) : fwItem a = some false ∧ ItemOK secure a := by
  have h124 : (124 : UInt8) ∉ a := notMem_of_all (isAddr_all ha) (by decide)
  have h32 : (32 : UInt8) ∉ a := notMem_of_all (isAddr_all ha) (by decide)
  have h13 : (13 : UInt8) ∉ a := notMem_of_all (isAddr_all ha) (by decide)
  have : fwItem a = some false := by simp [fwItem, splitOn_nosep 124 a h124, ha]
  exact ⟨this, by simp [this], h32, h13⟩

theorem item_hash (a r : Bytes) (ha : isAddr a = true) (hr : isHash r = true) : ItemOK true (a ++ 124 :: r) := by
  have h124 : (124 : UInt8) ∉ a := notMem_of_all (isAddr_all ha) (by decide)
  have h32 : (32 : UInt8) ∉ a := notMem_of_all (isAddr_all ha) (by decide)
  have h13 : (13 : UInt8) ∉ a := notMem_of_all (isAddr_all ha) (by decide)
  have r124 : (124 : UInt8) ∉ r := notMem_of_all (isHash_all hr) (by decide)
  have r32 : (32 : UInt8) ∉ r := notMem_of_all (isHash_all hr) (by decide)
  have r13 : (13 : UInt8) ∉ r := notMem_of_all (isHash_all hr) (by decide)
  have : fwItem (a ++ 124 :: r) = some true := by
    simp [fwItem, splitOn_append_sep 124 r a h124, splitOn_nosep 124 r r124, ha, hr]
  refine ⟨by simp [this], ?_, ?_⟩
  · simp only [List.mem_append, List.mem_cons, not_or]; exact ⟨h32, by decide, r32⟩
  · simp only [List.mem_append, List.mem_cons, not_or]; exact ⟨h13, by decide, r13⟩

theorem fwItems_ok (secure : Bool) : ∀ (as : List Bytes) (i : Nat) (vs : List CbView), (∀ a ∈ as, isAddr a = true) →
    (∀ v ∈ vs, ViewOK v) → ∀ it ∈ fwItems secure i as vs, ItemOK secure it := by
  intro as
  induction as with
  | nil => intro i vs _ _ it hit; simp [fwItems] at hit
  | cons a t ih =>
    intro i vs ha hv it hit
    simp only [fwItems, List.mem_cons] at hit
    rcases hit with rfl | hit
    · split
      · rename_i hcond
        simp only [Bool.and_eq_true, Bool.not_eq_true', decide_eq_true_eq] at hcond
        obtain ⟨⟨hsec, _⟩, hemp⟩ := hcond
        subst hsec
        have hvo : ViewOK (vs.headD (CbView.mk true false [])) := by
          cases vs with
          | nil => simp at hemp
          | cons v _ => exact hv v (by simp)
        rcases hvo with h | ⟨h, _⟩
        · exact item_hash a _ (ha a (by simp)) h
        · rw [h] at hemp; cases hemp
      · exact (item_plain secure a (ha a (by simp))).2
    · exact ih (i + 1) vs.tail (fun x hx => ha x (by simp [hx])) (fun v hv' => hv v (List.mem_of_mem_tail hv')) it hit

/-- the `;FW` line (without CR) of `sendHandshake` is one -/
theorem fwLine_ok (secure : Bool) (as : List Bytes) (vs : List CbView) (hne : as ≠ []) (ha : ∀ a ∈ as, isAddr a = true)
    (hv : ∀ v ∈ vs, ViewOK v) :
    isFwLine secure ([59, 70, 87, 58] ++ fwLineAux secure 0 as vs) = true ∧
    (13 : UInt8) ∉ ([59, 70, 87, 58] ++ fwLineAux secure 0 as vs) := by
  have hok := fwItems_ok secure as 0 vs ha hv
  rw [fwLineAux_eq]
  constructor
  · unfold isFwLine
    rw [splitOn_items _ [59, 70, 87, 58] (by decide) (fun it hit => (hok it hit).2.1)]
    cases as with
    | nil => exact absurd rfl hne
    | cons a t =>
      have hfirst : fwItems secure 0 (a :: t) vs = a :: fwItems secure 1 t vs.tail := by
        simp [fwItems]
      rw [hfirst] at hok ⊢
      simp only [(item_plain secure a (ha a (by simp))).1, beq_self_eq_true, Bool.true_and, List.all_eq_true]
      intro it hit
      exact (hok it (by simp [hit])).1
  · intro h
    simp only [List.mem_append, List.mem_flatten, List.mem_map] at h
    rcases h with h | ⟨l, ⟨it, hit, rfl⟩, hl⟩
    · revert h; decide
    · simp only [List.mem_cons] at hl
      rcases hl with hl | hl
      · revert hl; decide
      · exact (hok it hit).2.2 hl

/-! ### the SID -/

theorem sidCh_imp : ∀ b : UInt8, sidCh b = true → (isPrint b && b != 91 && b != 93) = true := fun _ h => h

theorem sid_ok (name ver : Bytes) (gzip : Bool) (hn : name.all sidCh = true) (hv : ver.all sidCh = true) :
    isSidLine ([91] ++ name ++ [45] ++ ver ++ [45] ++ sidCodes gzip ++ [93]) = true ∧
    (13 : UInt8) ∉ ([91] ++ name ++ [45] ++ ver ++ [45] ++ sidCodes gzip ++ [93]) := by
  have hcodes : (sidCodes gzip).all sidCh = true ∧ (45 : UInt8) ∉ (sidCodes gzip ++ [93]) ∧
      (sidCodes gzip ++ [93] = [66, 50, 70, 72, 77, 36, 93] ∨ sidCodes gzip ++ [93] = [66, 50, 70, 72, 77, 71, 36, 93]) := by
    rw [lit_codes]; cases gzip <;> decide
  constructor
  · have hform : [91] ++ name ++ [45] ++ ver ++ [45] ++ sidCodes gzip ++ [93] =
        91 :: (name ++ 45 :: (ver ++ 45 :: (sidCodes gzip ++ [93]))) := by simp
    have hbody : (name ++ 45 :: (ver ++ 45 :: (sidCodes gzip ++ [93]))).dropLast = name ++ 45 :: (ver ++ 45 :: sidCodes gzip) := by
      have : name ++ 45 :: (ver ++ 45 :: (sidCodes gzip ++ [93])) = (name ++ 45 :: (ver ++ 45 :: sidCodes gzip)) ++ [93] := by simp
      rw [this, List.dropLast_concat]
    have hsplit : (splitOn 45 ((91 :: name) ++ 45 :: (ver ++ 45 :: (sidCodes gzip ++ [93])))).reverse =
        (sidCodes gzip ++ [93]) :: ((splitOn 45 ver).reverse ++ (splitOn 45 (91 :: name)).reverse) := by
      rw [splitOn_append_gen, splitOn_append_gen, splitOn_nosep 45 _ hcodes.2.1]
      simp
    obtain ⟨x, xs, hx⟩ : ∃ x xs, (splitOn 45 ver).reverse = x :: xs := by
      cases h : (splitOn 45 ver).reverse with
      | nil => exact absurd (by simpa using h) (splitOn_ne_nil 45 ver)
      | cons x xs => exact ⟨x, xs, rfl⟩
    obtain ⟨y, ys, hy⟩ : ∃ y ys, (splitOn 45 (91 :: name)).reverse = y :: ys := by
      cases h : (splitOn 45 (91 :: name)).reverse with
      | nil => exact absurd (by simpa using h) (splitOn_ne_nil 45 (91 :: name))
      | cons y ys => exact ⟨y, ys, rfl⟩
    obtain ⟨z, zs, hz⟩ : ∃ z zs, xs ++ y :: ys = z :: zs := by
      cases xs with
      | nil => exact ⟨y, ys, rfl⟩
      | cons z zs => exact ⟨z, zs ++ y :: ys, rfl⟩
    rw [hform]
    unfold isSidLine
    rw [show 91 :: (name ++ 45 :: (ver ++ 45 :: (sidCodes gzip ++ [93]))) =
      (91 :: name) ++ 45 :: (ver ++ 45 :: (sidCodes gzip ++ [93])) from rfl, hsplit, hx, hy]
    simp only [List.cons_append, hz, hbody]
    have hall : (name ++ 45 :: (ver ++ 45 :: sidCodes gzip)).all (fun b => isPrint b && b != 91 && b != 93) = true := by
      have : (name ++ 45 :: (ver ++ 45 :: sidCodes gzip)).all sidCh = true := by
        rw [List.all_append, List.all_cons, List.all_append, List.all_cons, hn, hv, hcodes.1]
        decide
      exact this
    rw [hall]
    rcases hcodes.2.2 with h | h <;> simp [h]
  · have e : ∀ x : UInt8, sidCh x = true → x ≠ 13 := fun x hx => ne_of_class hx (by decide)
    intro h
    simp only [List.mem_append, List.mem_cons, List.not_mem_nil, or_false] at h
    rcases h with (((((h | h) | h) | h) | h) | h) | h
    · revert h; decide
    · exact e _ (List.all_eq_true.mp hn _ h) rfl
    · revert h; decide
    · exact e _ (List.all_eq_true.mp hv _ h) rfl
    · revert h; decide
    · exact e _ (List.all_eq_true.mp hcodes.1 _ h) rfl
    · revert h; decide


/-! ### the identification line, the `;PR` line -/

theorem isCall_all {a : Bytes} (h : isCall a = true) : a.all (fun b => isAlnum b || b == 45) = true := by
  simp only [isCall, Bool.and_eq_true] at h; exact h.2

theorem isLoc_ok (loc : Bytes) (hl : loc.all isAlnum = true) : isLoc (40 :: (loc ++ [41])) = true := by
  simp [isLoc, hl]

theorem idLine_ok (target mycall loc : Bytes) (master : Bool) (ht : isCall target = true) (hm : isCall mycall = true)
    (hl : loc.all isAlnum = true) :
    idLine ([59, 32] ++ target ++ [32, 68, 69, 32] ++ mycall ++ [32, 40] ++ loc ++ [41] ++ (if master then [62] else [])) =
      some master ∧
    (13 : UInt8) ∉ ([59, 32] ++ target ++ [32, 68, 69, 32] ++ mycall ++ [32, 40] ++ loc ++ [41] ++ (if master then [62] else [])) := by
  have t32 : (32 : UInt8) ∉ target := notMem_of_all (isCall_all ht) (by decide)
  have m32 : (32 : UInt8) ∉ mycall := notMem_of_all (isCall_all hm) (by decide)
  have l32 : (32 : UInt8) ∉ loc := notMem_of_all hl (by decide)
  have t13 : (13 : UInt8) ∉ target := notMem_of_all (isCall_all ht) (by decide)
  have m13 : (13 : UInt8) ∉ mycall := notMem_of_all (isCall_all hm) (by decide)
  have l13 : (13 : UInt8) ∉ loc := notMem_of_all hl (by decide)
  constructor
  · have hform : [59, 32] ++ target ++ [32, 68, 69, 32] ++ mycall ++ [32, 40] ++ loc ++ [41] ++ (if master then [62] else []) =
        [59] ++ 32 :: (target ++ 32 :: ([68, 69] ++ 32 :: (mycall ++ 32 :: (40 :: (loc ++ [41]) ++ (if master then [62] else []))))) := by
      simp
    have hlast : (32 : UInt8) ∉ (40 :: (loc ++ [41]) ++ (if master then [62] else [])) := by
      cases master <;> simp [l32]
    rw [hform]
    unfold idLine
    rw [splitOn_append_sep 32 _ [59] (by decide), splitOn_append_sep 32 _ target t32,
      splitOn_append_sep 32 _ [68, 69] (by decide), splitOn_append_sep 32 _ mycall m32, splitOn_nosep 32 _ hlast]
    cases master with
    | false => simp [ht, hm, isLoc_ok loc hl]
    | true =>
      have h1 : isLoc (40 :: (loc ++ [41]) ++ [62]) = false := by simp [isLoc]
      have h2 : (40 :: (loc ++ [41]) ++ [62]).dropLast = 40 :: (loc ++ [41]) := by
        rw [List.dropLast_concat]
      have h3 : (40 :: (loc ++ [41]) ++ [62]).getLast? = some 62 := List.getLast?_concat
      simp only [if_true, ht, hm, h1, h2, h3, isLoc_ok loc hl]
      simp
  · intro h
    simp only [List.mem_append, List.mem_cons, List.not_mem_nil, or_false] at h
    rcases h with ((((((h | h) | h) | h) | h) | h) | h) | h
    · revert h; decide
    · exact t13 h
    · revert h; decide
    · exact m13 h
    · revert h; decide
    · exact l13 h
    · revert h; decide
    · cases master <;> simp at h

theorem isHash_response (salt ch pw : Bytes) : isHash (Secure.response salt ch pw) = true := by
  unfold Secure.response Secure.respOfDigest
  rw [lastN_dec0]
  simp only [isHash, fixed_length, beq_self_eq_true, Bool.true_and, List.all_eq_true]
  intro b hb
  have := fixed_all_digits 8 _ b hb
  simp only [isDigit, Bool.and_eq_true, decide_eq_true_eq, UInt8.le_iff_toNat_le]
  exact this

theorem prLine_ok (r : Bytes) (hr : isHash r = true) :
    isPrLine ([59, 80, 82, 58, 32] ++ r) = true ∧ (13 : UInt8) ∉ ([59, 80, 82, 58, 32] ++ r) := by
  constructor
  · simp [isPrLine, hr]
  · intro h
    simp only [List.mem_append] at h
    rcases h with h | h
    · revert h; decide
    · exact notMem_of_all (isHash_all hr) (by decide) h

/-! ### the whole handshake write -/

theorem trailer_eq (h : HsCfg) : trailer h =
    ([59, 32] ++ h.targetcall ++ [32, 68, 69, 32] ++ h.mycall ++ [32, 40] ++ h.locator ++ [41] ++
      (if h.master then [62] else [])) ++ [13] := by
  unfold trailer
  simp only [lit_semi, lit_de, lit_lp, lit_rp, lit_gtcr, lit_cr]
  cases h.master <;> simp

theorem sidLine_eq (h : HsCfg) : sidLine h =
    ([91] ++ h.uaName ++ [45] ++ h.uaVersion ++ [45] ++ sidCodes h.gzip ++ [93]) ++ [13] := by
  unfold sidLine
  simp only [lit_lb, lit_dash, lit_rbcr]
  simp

theorem fwLine_eq (secure : Bool) (h : HsCfg) (vs : List CbView) :
    fwLine secure h vs = ([59, 70, 87, 58] ++ fwLineAux secure 0 h.localFW vs) ++ [13] := by
  unfold fwLine
  simp only [lit_fw, lit_cr]

theorem not_motd_of_split (bs : Bytes) (a b c : Bytes) (r : List Bytes) (h : splitOn 13 bs = a :: b :: c :: r) :
    isMotdLine bs = false := by
  simp [isMotdLine, h]

/-- **what `sendHandshake` writes is a handshake of the grammar**, of the right role -/
theorem sendHandshakeV_ok (c : Cfg) (hh : HsOK c) (ch : Bytes) (views : List CbView) (hv : ∀ v ∈ views, ViewOK v)
    (hne : ch.isEmpty = false → views ≠ []) (hrole : ch.isEmpty = false → c.hs.master = false)
    (bs : Bytes) (h : sendHandshakeV c.hs ch views = some bs) :
    handshake? bs = some c.hs.master ∧ isMotdLine bs = false ∧ isErrEcho bs = false := by
  have hvw : ∀ v ∈ views, isHash v.resp = true ∨ v.empty = true :=
    fun v hm => (hv v hm).elim Or.inl (fun h => Or.inr h.1)
  unfold sendHandshakeV at h
  simp only at h
  split at h
  · cases h
  · split at h
    · cases h
    · rename_i hmainErr
      simp only [Option.some.injEq] at h
      obtain ⟨fw1, fw2⟩ := fwLine_ok (!ch.isEmpty) c.hs.localFW views hh.fwne hh.fw
        (fun v hm => (hv v hm).elim Or.inl (fun h => Or.inr h))
      obtain ⟨sid1, sid2⟩ := sid_ok c.hs.uaName c.hs.uaVersion c.hs.gzip hh.name hh.version
      obtain ⟨id1, id2⟩ := idLine_ok c.hs.targetcall c.hs.mycall c.hs.locator c.hs.master hh.target hh.mycall hh.loc
      rw [fwLine_eq, sidLine_eq, trailer_eq] at h
      generalize hFW : [59, 70, 87, 58] ++ fwLineAux (!ch.isEmpty) 0 c.hs.localFW views = FW at h fw1 fw2
      generalize hSID : [91] ++ c.hs.uaName ++ [45] ++ c.hs.uaVersion ++ [45] ++ sidCodes c.hs.gzip ++ [93] = SID at h sid1 sid2
      generalize hID : [59, 32] ++ c.hs.targetcall ++ [32, 68, 69, 32] ++ c.hs.mycall ++ [32, 40] ++ c.hs.locator ++ [41] ++
        (if c.hs.master then [62] else []) = ID at h id1 id2
      have hFW59 : ∃ t, FW = 59 :: t := ⟨_, by rw [← hFW]; rfl⟩
      cases hsec : ch.isEmpty with
      | true =>
        simp only [hsec, Bool.not_true, Bool.false_eq_true, if_false, List.append_nil] at h fw1
        have hbs : bs = FW ++ 13 :: (SID ++ 13 :: (ID ++ 13 :: [])) := by rw [← h]; simp
        have hsplit : splitOn 13 bs = [FW, SID, ID, []] := by
          rw [hbs, splitOn_append_sep 13 _ FW fw2, splitOn_append_sep 13 _ SID sid2, splitOn_append_sep 13 _ ID id2]
          rfl
        refine ⟨?_, not_motd_of_split bs _ _ _ _ hsplit, ?_⟩
        · simp [handshake?, hsplit, fw1, sid1, id1]
        · obtain ⟨t, ht⟩ := hFW59
          rw [hbs, ht]; exact isErrEcho_cons _ _ (by decide)
      | false =>
        have hmaster := hrole hsec
        have hvne := hne hsec
        simp only [hsec, Bool.not_false, if_true] at h fw1
        -- the main response
        have hmain : isHash (views.headD (CbView.mk true false [])).resp = true := by
          cases views with
          | nil => exact absurd rfl hvne
          | cons v t =>
            rcases hv v (by simp) with h1 | ⟨_, h2⟩
            · exact h1
            · simp [hsec, h2] at hmainErr
        obtain ⟨pr1, pr2⟩ := prLine_ok _ hmain
        rw [lit_pr, lit_cr] at h
        generalize hPR : [59, 80, 82, 58, 32] ++ (views.headD (CbView.mk true false [])).resp = PR at h pr1 pr2
        have hbs : bs = FW ++ 13 :: (SID ++ 13 :: (PR ++ 13 :: (ID ++ 13 :: []))) := by rw [← h]; simp
        have hsplit : splitOn 13 bs = [FW, SID, PR, ID, []] := by
          rw [hbs, splitOn_append_sep 13 _ FW fw2, splitOn_append_sep 13 _ SID sid2, splitOn_append_sep 13 _ PR pr2,
            splitOn_append_sep 13 _ ID id2]
          rfl
        refine ⟨?_, not_motd_of_split bs _ _ _ _ hsplit, ?_⟩
        · rw [hmaster] at id1 ⊢
          simp [handshake?, hsplit, fw1, sid1, pr1, id1]
        · obtain ⟨t, ht⟩ := hFW59
          rw [hbs, ht]; exact isErrEcho_cons _ _ (by decide)


/-! ### MOTD -/

/-- before the handshake -/
def PreHs : GState → Prop
  | .start => True
  | .motd => True
  | _ => False

theorem step_motd {s : GState} (hs : PreHs s) (l : Bytes) (hl : motdOK l = true) : step s (l ++ [13]) = some .motd := by
  simp only [motdOK, Bool.and_eq_true] at hl
  obtain ⟨⟨⟨⟨h1, h2⟩, h3⟩, h4⟩, h5⟩ := hl
  have h13 : (13 : UInt8) ∉ l := notMem_of_all h1 (by decide)
  have he : isErrEcho (l ++ [13]) = false := by
    cases l with
    | nil => exact isErrEcho_cons _ _ (by decide)
    | cons b t => exact isErrEcho_cons _ _ (by intro e; subst e; simp at h5)
  have hm : isMotdLine (l ++ [13]) = true := by
    unfold isMotdLine
    rw [splitOn_append_sep 13 [] l h13]
    simp [splitOn, h1, h2, h3, h4, h5]
  cases s with
  | start => simp [step, he, hm]
  | motd => simp [step, he, hm]
  | _ => exact hs.elim

theorem writeLines_motd : ∀ (ls : List Bytes) (s : GState), PreHs s → (∀ l ∈ ls, motdOK l = true) →
    Acc (fun _ s' => PreHs s') s (writeLines ls) := by
  intro ls
  induction ls with
  | nil => intro s hs _; exact AcceptsR.ret _ _ hs
  | cons l t ih =>
    intro s hs hl
    exact acc_write (step_motd hs l (hl l (by simp))) (ih .motd trivial (fun x hx => hl x (by simp [hx])))

/-! ### `sendHandshake` -/

theorem askPasswords_acc (c : Cfg) (ch : Bytes) (s : GState) : ∀ (is : List Nat) (acc : List CbView),
    (∀ v ∈ acc, ViewOK v) →
    Acc (fun vs s' => s' = s ∧ (∀ v ∈ vs, ViewOK v) ∧ vs.length = acc.length + is.length) s (askPasswords c ch is acc) := by
  intro is
  induction is with
  | nil => intro acc hacc; exact AcceptsR.ret _ _ ⟨rfl, by simpa using hacc, by simp⟩
  | cons i is ih =>
    intro acc hacc
    unfold askPasswords
    apply acc_call
    intro r _
    have hstep : ∀ v : CbView, ViewOK v →
        Acc (fun vs s' => s' = s ∧ (∀ v ∈ vs, ViewOK v) ∧ vs.length = acc.length + (i :: is).length) s
          (askPasswords c ch is (v :: acc)) := by
      intro v hv
      refine (ih (v :: acc) ?_).mono ?_
      · intro x hx
        simp only [List.mem_cons] at hx
        rcases hx with rfl | hx
        · exact hv
        · exact hacc x hx
      · intro vs s' ⟨h1, h2, h3⟩
        exact ⟨h1, h2, by simp only [List.length_cons] at h3 ⊢; omega⟩
    cases r with
    | password p e => exact hstep _ (Or.inl (isHash_response _ _ _))
    | _ => exact hstep _ (Or.inr ⟨rfl, rfl⟩)

/-- the monitor state after a handshake of this role -/
def afterHs (master : Bool) : GState := if master then .idle [] else .myTurn

theorem step_handshake {s : GState} (hs : PreHs s) (master : Bool) (hrole : s = .motd → master = true) (bs : Bytes)
    (h1 : handshake? bs = some master) (h2 : isMotdLine bs = false) (h3 : isErrEcho bs = false) :
    step s bs = some (afterHs master) := by
  cases s with
  | start => cases master <;> simp [step, h1, h2, h3, afterHs]
  | motd =>
    have := hrole rfl
    subst this
    simp [step, h1, h2, h3, afterHs]
  | _ => exact hs.elim

/-- postcondition of the handshake parts: error before anything of the handshake proper was written -/
def HsQ (master : Bool) (r : Except SErr Unit) (s' : GState) : Prop :=
  match r with
  | .error e => ErrOK e ∧ PreHs s'
  | .ok _ => s' = afterHs master

theorem sendHandshakeP_acc (c : Cfg) (hh : HsOK c) (ch : Bytes) (s : GState) (hs : PreHs s)
    (hrole : s = .motd → c.hs.master = true) (hsec : ch.isEmpty = false → c.hs.master = false) :
    Acc (HsQ c.hs.master) s (sendHandshakeP c ch) := by
  unfold sendHandshakeP
  split
  · exact AcceptsR.ret _ _ ⟨by show (13 : UInt8) ∉ strBytes _; decide +kernel, hs⟩
  · split
    · rename_i hemp
      cases hv : sendHandshakeV c.hs ch [] with
      | none => exact AcceptsR.ret _ _ ⟨by show (13 : UInt8) ∉ strBytes _; decide +kernel, hs⟩
      | some bs =>
        obtain ⟨h1, h2, h3⟩ := sendHandshakeV_ok c hh ch [] (by simp) (by simp [hemp]) hsec bs hv
        exact acc_write (step_handshake hs _ hrole bs h1 h2 h3) (AcceptsR.ret _ _ rfl)
    · simp only [bind_eq, pure_eq]
      apply AcceptsR.bind (askPasswords_acc c ch s _ [] (by simp))
      intro aux s1 ⟨hs1, haux, _⟩
      subst hs1
      apply AcceptsR.bind (askPasswords_acc c ch s1 _ [] (by simp))
      intro main s2 ⟨hs2, hmain, hlen⟩
      subst hs2
      cases hv : sendHandshakeV c.hs ch (main ++ aux) with
      | none => exact AcceptsR.ret _ _ ⟨by show (13 : UInt8) ∉ strBytes _; decide +kernel, hs⟩
      | some bs =>
        have hne : main ++ aux ≠ [] := by
          intro h
          have : main = [] := (List.append_eq_nil_iff.mp h).1
          subst this
          simp at hlen
        obtain ⟨h1, h2, h3⟩ := sendHandshakeV_ok c hh ch (main ++ aux)
          (fun v hv => (List.mem_append.mp hv).elim (hmain v) (haux v)) (fun _ => hne) hsec bs hv
        exact acc_write (step_handshake hs _ hrole bs h1 h2 h3) (AcceptsR.ret _ _ rfl)

theorem readHandshake_acc (master : Bool) (fuel : Nat) (s : GState) : ∀ (n : Nat) (data : HsData),
    Acc (EQ s) s (readHandshake master fuel n data) := by
  intro n
  induction n with
  | zero => intro data; exact AcceptsR.panic _ _
  | succ n ih =>
    intro data
    unfold readHandshake
    apply acc_peek
    intro o
    cases o with
    | none => err_lit
    | some b =>
      simp only
      split
      · ok_ret
      · simp only [bind_eq, pure_eq]
        apply AcceptsR.bind (nextLineRemoteErr_acc false fuel s)
        intro r s' ⟨hs', hr⟩
        subst hs'
        cases r with
        | error e => exact AcceptsR.ret _ _ ⟨rfl, fun e' h => by cases h; exact hr e rfl⟩
        | ok line =>
          simp only [parseFWC_eq, challengeC_eq]
          split
          · cases parseSID line with
            | none => err_lit
            | some sid =>
              simp only
              split
              · err_lit
              · exact ih _
          · split
            · cases parseFW line with
              | none => err_lit
              | some fw => exact ih _
            · split
              · by_cases h5 : line.length < 5
                · simp only [h5, if_true]; err_lit
                · simp only [h5, if_false]; exact ih _
              · split
                · ok_ret
                · exact ih _

/-- postcondition of `handshake` -/
def HsQ' (master : Bool) (r : Except SErr HsData) (s' : GState) : Prop :=
  match r with
  | .error e => ErrOK e ∧ errAllowed s' = true
  | .ok _ => s' = afterHs master

theorem PreHs.err {s : GState} (h : PreHs s) : errAllowed s = true := by
  cases s <;> first | rfl | exact h.elim

theorem afterHs_err (m : Bool) : errAllowed (afterHs m) = true := by cases m <;> rfl

theorem handshake_acc (c : Cfg) (hh : HsOK c) (fuel : Nat) : Acc (HsQ' c.hs.master) .start (handshake c fuel) := by
  unfold handshake
  simp only [bind_eq, pure_eq]
  cases hm : c.hs.master with
  | true =>
    simp only [if_true, Bool.not_true, Bool.false_eq_true, if_false]
    apply AcceptsR.bind (writeLines_motd c.motd .start trivial hh.motd)
    intro _ s1 hs1
    apply AcceptsR.bind (sendHandshakeP_acc c hh [] s1 hs1 (fun _ => hm) (by simp))
    intro r s2 hr
    rw [hm] at hr
    cases r with
    | error e => exact AcceptsR.ret _ _ ⟨hr.1, hr.2.err⟩
    | ok u =>
      have hs2 : s2 = afterHs true := hr
      subst hs2
      simp only
      apply AcceptsR.bind (readHandshake_acc true fuel _ fuel {})
      intro r s3 ⟨hs3, hr3⟩
      subst hs3
      cases r with
      | error e => exact AcceptsR.ret _ _ ⟨hr3 e rfl, afterHs_err _⟩
      | ok hs =>
        simp only
        split
        · exact AcceptsR.ret _ _ ⟨by show (13 : UInt8) ∉ strBytes _; decide +kernel, afterHs_err _⟩
        · exact AcceptsR.ret _ _ rfl
  | false =>
    simp only [Bool.false_eq_true, if_false, Bool.not_false, if_true]
    apply AcceptsR.bind (readHandshake_acc false fuel .start fuel {})
    intro r s3 ⟨hs3, hr3⟩
    subst hs3
    cases r with
    | error e => exact AcceptsR.ret _ _ ⟨hr3 e rfl, rfl⟩
    | ok hs =>
      simp only
      split
      · exact AcceptsR.ret _ _ ⟨by show (13 : UInt8) ∉ strBytes _; decide +kernel, rfl⟩
      · apply AcceptsR.bind (sendHandshakeP_acc c hh hs.challenge .start trivial (fun h => by cases h) (fun _ => hm))
        intro r s4 hr
        rw [hm] at hr
        cases r with
        | error e => exact AcceptsR.ret _ _ ⟨hr.1, hr.2.err⟩
        | ok u => exact AcceptsR.ret _ _ hr

/-! ### `Exchange` -/

/-- **The whole `Exchange` program emits only what the B2F output grammar allows**: along every path —
any remote bytes, any handler replies satisfying `HandlerOK` — every write is accepted by the monitor. -/
theorem exchange_acc (c : Cfg) (hc : CfgOK c) (hh : HsOK c) (fuel : Nat) :
    Acc (fun _ _ => True) .start (exchange c fuel) := by
  unfold exchange
  simp only [bind_eq, pure_eq]
  apply AcceptsR.bind (Q := fun _ s' => s' = .start)
  · split
    · apply acc_call
      intro r _
      cases r <;> (try split) <;> exact AcceptsR.ret _ _ rfl
    · exact AcceptsR.ret _ _ rfl
  · intro ok s hs
    subst hs
    split
    · exact finish_acc _ _ _ _ (fun err h => by
        cases h; exact ⟨by show (13 : UInt8) ∉ strBytes _; decide +kernel, rfl⟩)
    · apply AcceptsR.bind (handshake_acc c hh fuel)
      intro r s' hr
      cases r with
      | error e => exact finish_acc _ _ _ _ (fun err h => by cases h; exact hr)
      | ok hs =>
        have hs' : s' = afterHs c.hs.master := hr
        subst hs'
        simp only
        apply AcceptsR.bind (turns_acc c hc fuel fuel (!c.hs.master) _ _ ?_)
        · intro r s'' hr'
          obtain ⟨st, e⟩ := r
          exact finish_acc _ _ _ _ hr'
        · refine Or.inr (Or.inr ?_)
          cases c.hs.master
          · exact trivial
          · exact ⟨[], rfl⟩

end Wl2k.B2F
