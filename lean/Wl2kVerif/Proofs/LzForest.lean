/-
C06 — the LZSS search forest, at the level of the three pointer FUNCTIONS `D` (dad), `L` (lson), `R` (rson)
on indices: nodes `0 .. 2047`, `2048 = NIL`, roots `2049 .. 2304`.  `FInv` is the LOCAL forest invariant
(DESIGN §5.6 stage 3): children of a live node or root are live, point back, and carry the same class `kl`
(ghost: first byte at insertion time); every live node hangs in exactly the slot of its parent that names
it; the ghost `rank` strictly increases from parent to child (no cycles).  It says nothing about the
ORDER of the strings — the trees are not search trees while the look-ahead is being filled.
Each pointer surgery of `InsertNode` / `DeleteNode` preserves it.  The surgeries are stated pointwise: the new
functions `D' L' R' kl' rank'` are given by equations `∀ x, D' x = if x = … then … else D x`; each field of the
invariant is proved at an arbitrary index from hand-picked instances of the old invariant by `grind`.
-/
set_option linter.unusedSectionVars false

namespace Wl2k.Forest

def upd (f : Nat → Nat) (i v : Nat) : Nat → Nat := fun x => if x = i then v else f x

theorem upd_apply (f : Nat → Nat) (i v x : Nat) : upd f i v x = if x = i then v else f x := rfl

/-- a root, or a live node -/
def GoodF (D : Nat → Nat) (a : Nat) : Prop := (2048 < a ∧ a < 2048 + 257) ∨ (a < 2048 ∧ D a ≠ 2048)

structure FInv (D L R kl rank : Nat → Nat) : Prop where
  down_r : ∀ a, GoodF D a → R a ≠ 2048 → R a < 2048 ∧ D (R a) = a ∧ kl (R a) = kl a
  down_l : ∀ a, a < 2048 → D a ≠ 2048 → L a ≠ 2048 → L a < 2048 ∧ D (L a) = a ∧ kl (L a) = kl a
  up : ∀ p, p < 2048 → D p ≠ 2048 →
    GoodF D (D p) ∧ kl (D p) = kl p ∧ rank (D p) < rank p ∧ (R (D p) = p ∨ (D p < 2048 ∧ L (D p) = p))
  distinct : ∀ a, a < 2048 → D a ≠ 2048 → L a ≠ 2048 → L a ≠ R a

/-- the pointers, class and rank of a dead node are irrelevant -/
theorem FInv.dead_irrel {D L R kl rank : Nat → Nat} (t : FInv D L R kl rank) (r : Nat) (hr : r < 2048)
    (hdr : D r = 2048) (L' R' kl' rank' : Nat → Nat)
    (hL : ∀ x, x ≠ r → L' x = L x) (hR : ∀ x, x ≠ r → R' x = R x)
    (hk : ∀ x, x ≠ r → kl' x = kl x) (hk : ∀ x, x ≠ r → rank' x = rank x) :
    FInv D L' R' kl' rank' := by
  obtain ⟨dr, dl, up, di⟩ := t
  refine ⟨?_, ?_, ?_, ?_⟩
  · intro a
    have := dr a
    have := hR a
    simp only [GoodF] at *
    by_cases h : a = r
    · grind
    · by_cases h2 : R a = r
      · grind
      · grind
  · intro a
    have := dl a
    have := hL a
    by_cases h : a = r
    · grind
    · by_cases h2 : L a = r
      · grind
      · grind
  · intro a
    have := up a
    simp only [GoodF] at *
    by_cases h : a = r
    · grind
    · by_cases h2 : D a = r
      · grind
      · grind
  · intro a
    have := di a
    have := hR a
    have := hL a
    by_cases h : a = r
    · grind
    · grind

/-! ### `InsertNode`: the dead node `r` goes into the empty RIGHT slot of the root or live node `p` -/

section attachR
variable {D L R kl rank : Nat → Nat} (t : FInv D L R kl rank) (r p : Nat)
  (hr : r < 2048) (hdr : D r = 2048) (hlr : L r = 2048) (hrr : R r = 2048) (hp : GoodF D p) (hrp : R p = 2048)
  (D' L' R' kl' rank' : Nat → Nat)
  (hD : ∀ x, D' x = if x = r then p else D x)
  (hL : ∀ x, L' x = L x)
  (hR : ∀ x, R' x = if x = p then r else R x)
  (hk : ∀ x, kl' x = if x = r then kl p else kl x)
  (hrk : ∀ x, rank' x = if x = r then rank p + 1 else rank x)
include t hr hdr hlr hrr hp hrp hD hL hR hk hrk

theorem attachR_down_r (a : Nat) :
    GoodF D' a → R' a ≠ 2048 → R' a < 2048 ∧ D' (R' a) = a ∧ kl' (R' a) = kl' a := by
  obtain ⟨dr, dl, up, di⟩ := t
  have s1 := dr p hp
  have s2 := up p
  have s3 := dl p
  have s4 := di p
  have i1 := hR a
  have i2 := hD a
  have i3 := hD (R' a)
  have i4 := hk (R' a)
  have i5 := hk a
  have o1 := dr a
  have o2 := up a
  have o3 := up (R a)
  have o4 := dl a
  simp only [GoodF] at *
  clear hD hL hR hk hrk dr dl up di
  grind (splits := 40)

theorem attachR_down_l (a : Nat) :
    a < 2048 → D' a ≠ 2048 → L' a ≠ 2048 → L' a < 2048 ∧ D' (L' a) = a ∧ kl' (L' a) = kl' a := by
  obtain ⟨dr, dl, up, di⟩ := t
  have s1 := dr p hp
  have s2 := up p
  have s3 := dl p
  have s4 := di p
  have i1 := hL a
  have i2 := hD a
  have i3 := hD (L' a)
  have i4 := hk (L' a)
  have i5 := hk a
  have o1 := dl a
  have o2 := up a
  have o3 := up (L a)
  have o4 := dr a
  have o5 := di a
  simp only [GoodF] at *
  clear hD hL hR hk hrk dr dl up di
  grind (splits := 40)

theorem attachR_up (a : Nat) :
    a < 2048 → D' a ≠ 2048 →
      GoodF D' (D' a) ∧ kl' (D' a) = kl' a ∧ rank' (D' a) < rank' a ∧
      (R' (D' a) = a ∨ (D' a < 2048 ∧ L' (D' a) = a)) := by
  obtain ⟨dr, dl, up, di⟩ := t
  have s1 := dr p hp
  have s2 := up p
  have s3 := dl p
  have s4 := di p
  have i1 := hD a
  have i2 := hD (D' a)
  have i3 := hR (D' a)
  have i4 := hL (D' a)
  have i5 := hk (D' a)
  have i6 := hk a
  have i7 := hrk (D' a)
  have i8 := hrk a
  have o1 := up a
  have o2 := dr a
  have o3 := dl a
  have o4 := up (D a)
  simp only [GoodF] at *
  clear hD hL hR hk hrk dr dl up di
  grind (splits := 40)

theorem attachR_distinct (a : Nat) :
    a < 2048 → D' a ≠ 2048 → L' a ≠ 2048 → L' a ≠ R' a := by
  obtain ⟨dr, dl, up, di⟩ := t
  have s1 := dr p hp
  have s2 := up p
  have s3 := dl p
  have s4 := di p
  have i1 := hD a
  have i2 := hL a
  have i3 := hR a
  have o1 := di a
  have o2 := dl a
  have o3 := dr a
  have o4 := up a
  simp only [GoodF] at *
  clear hD hL hR hk hrk dr dl up di
  grind (splits := 40)

theorem attachR_inv : FInv D' L' R' kl' rank' :=
  ⟨attachR_down_r t r p hr hdr hlr hrr hp hrp D' L' R' kl' rank' hD hL hR hk hrk, attachR_down_l t r p hr hdr hlr hrr hp hrp D' L' R' kl' rank' hD hL hR hk hrk, attachR_up t r p hr hdr hlr hrr hp hrp D' L' R' kl' rank' hD hL hR hk hrk, attachR_distinct t r p hr hdr hlr hrr hp hrp D' L' R' kl' rank' hD hL hR hk hrk⟩

end attachR

/-! ### … into the empty LEFT slot of the live node `p` -/

section attachL
variable {D L R kl rank : Nat → Nat} (t : FInv D L R kl rank) (r p : Nat)
  (hr : r < 2048) (hdr : D r = 2048) (hlr : L r = 2048) (hrr : R r = 2048) (hp : p < 2048) (hdp : D p ≠ 2048) (hlp : L p = 2048)
  (D' L' R' kl' rank' : Nat → Nat)
  (hD : ∀ x, D' x = if x = r then p else D x)
  (hL : ∀ x, L' x = if x = p then r else L x)
  (hR : ∀ x, R' x = R x)
  (hk : ∀ x, kl' x = if x = r then kl p else kl x)
  (hrk : ∀ x, rank' x = if x = r then rank p + 1 else rank x)
include t hr hdr hlr hrr hp hdp hlp hD hL hR hk hrk

theorem attachL_down_r (a : Nat) :
    GoodF D' a → R' a ≠ 2048 → R' a < 2048 ∧ D' (R' a) = a ∧ kl' (R' a) = kl' a := by
  obtain ⟨dr, dl, up, di⟩ := t
  have s1 := dr p (Or.inr ⟨hp, hdp⟩)
  have s2 := up p hp hdp
  have s3 := dl p hp hdp
  have s4 := di p hp hdp
  have i1 := hR a
  have i2 := hD a
  have i3 := hD (R' a)
  have i4 := hk (R' a)
  have i5 := hk a
  have o1 := dr a
  have o2 := up a
  have o3 := up (R a)
  have o4 := dl a
  simp only [GoodF] at *
  clear hD hL hR hk hrk dr dl up di
  grind (splits := 40)

theorem attachL_down_l (a : Nat) :
    a < 2048 → D' a ≠ 2048 → L' a ≠ 2048 → L' a < 2048 ∧ D' (L' a) = a ∧ kl' (L' a) = kl' a := by
  obtain ⟨dr, dl, up, di⟩ := t
  have s1 := dr p (Or.inr ⟨hp, hdp⟩)
  have s2 := up p hp hdp
  have s3 := dl p hp hdp
  have s4 := di p hp hdp
  have i1 := hL a
  have i2 := hD a
  have i3 := hD (L' a)
  have i4 := hk (L' a)
  have i5 := hk a
  have o1 := dl a
  have o2 := up a
  have o3 := up (L a)
  have o4 := dr a
  have o5 := di a
  simp only [GoodF] at *
  clear hD hL hR hk hrk dr dl up di
  grind (splits := 40)

theorem attachL_up (a : Nat) :
    a < 2048 → D' a ≠ 2048 →
      GoodF D' (D' a) ∧ kl' (D' a) = kl' a ∧ rank' (D' a) < rank' a ∧
      (R' (D' a) = a ∨ (D' a < 2048 ∧ L' (D' a) = a)) := by
  obtain ⟨dr, dl, up, di⟩ := t
  have s1 := dr p (Or.inr ⟨hp, hdp⟩)
  have s2 := up p hp hdp
  have s3 := dl p hp hdp
  have s4 := di p hp hdp
  have i1 := hD a
  have i2 := hD (D' a)
  have i3 := hR (D' a)
  have i4 := hL (D' a)
  have i5 := hk (D' a)
  have i6 := hk a
  have i7 := hrk (D' a)
  have i8 := hrk a
  have o1 := up a
  have o2 := dr a
  have o3 := dl a
  have o4 := up (D a)
  simp only [GoodF] at *
  clear hD hL hR hk hrk dr dl up di
  grind (splits := 40)

theorem attachL_distinct (a : Nat) :
    a < 2048 → D' a ≠ 2048 → L' a ≠ 2048 → L' a ≠ R' a := by
  obtain ⟨dr, dl, up, di⟩ := t
  have s1 := dr p (Or.inr ⟨hp, hdp⟩)
  have s2 := up p hp hdp
  have s3 := dl p hp hdp
  have s4 := di p hp hdp
  have i1 := hD a
  have i2 := hL a
  have i3 := hR a
  have o1 := di a
  have o2 := dl a
  have o3 := dr a
  have o4 := up a
  simp only [GoodF] at *
  clear hD hL hR hk hrk dr dl up di
  grind (splits := 40)

theorem attachL_inv : FInv D' L' R' kl' rank' :=
  ⟨attachL_down_r t r p hr hdr hlr hrr hp hdp hlp D' L' R' kl' rank' hD hL hR hk hrk, attachL_down_l t r p hr hdr hlr hrr hp hdp hlp D' L' R' kl' rank' hD hL hR hk hrk, attachL_up t r p hr hdr hlr hrr hp hdp hlp D' L' R' kl' rank' hD hL hR hk hrk, attachL_distinct t r p hr hdr hlr hrr hp hdp hlp D' L' R' kl' rank' hD hL hR hk hrk⟩

end attachL

/-! ### `DeleteNode` of a node `p` with at most one child `q` (possibly NIL): `q` moves into the parent's RIGHT slot -/

section spliceR
variable {D L R kl rank : Nat → Nat} (t : FInv D L R kl rank) (p q : Nat)
  (hp : p < 2048) (hdp : D p ≠ 2048)
  (hq : (R p = 2048 ∧ q = L p) ∨ (L p = 2048 ∧ q = R p)) (hside : R (D p) = p)
  (D' L' R' kl' rank' : Nat → Nat)
  (hD : ∀ x, D' x = if x = p then 2048 else if x = q then D p else D x)
  (hL : ∀ x, L' x = L x)
  (hR : ∀ x, R' x = if x = D p then q else R x)
  (hk : ∀ x, kl' x = kl x)
  (hrk : ∀ x, rank' x = rank x)
include t hp hdp hq hside hD hL hR hk hrk

theorem spliceR_down_r (a : Nat) :
    GoodF D' a → R' a ≠ 2048 → R' a < 2048 ∧ D' (R' a) = a ∧ kl' (R' a) = kl' a := by
  obtain ⟨dr, dl, up, di⟩ := t
  have s1 := up p hp hdp
  have s2 := dl p hp hdp
  have s3 := dr p (Or.inr ⟨hp, hdp⟩)
  have s4 := di p hp hdp
  have s5 := dr (D p) s1.1
  have s6 := dl (D p)
  have s7 := di (D p)
  have s8 := up q
  have s9 := up (D p)
  have i1 := hR a
  have i2 := hD a
  have i3 := hD (R' a)
  have i4 := hk (R' a)
  have i5 := hk a
  have o1 := dr a
  have o2 := up a
  have o3 := up (R a)
  have o4 := dl a
  simp only [GoodF] at *
  clear hD hL hR hk hrk dr dl up di
  grind (splits := 40)

theorem spliceR_down_l (a : Nat) :
    a < 2048 → D' a ≠ 2048 → L' a ≠ 2048 → L' a < 2048 ∧ D' (L' a) = a ∧ kl' (L' a) = kl' a := by
  obtain ⟨dr, dl, up, di⟩ := t
  have s1 := up p hp hdp
  have s2 := dl p hp hdp
  have s3 := dr p (Or.inr ⟨hp, hdp⟩)
  have s4 := di p hp hdp
  have s5 := dr (D p) s1.1
  have s6 := dl (D p)
  have s7 := di (D p)
  have s8 := up q
  have s9 := up (D p)
  have i1 := hL a
  have i2 := hD a
  have i3 := hD (L' a)
  have i4 := hk (L' a)
  have i5 := hk a
  have o1 := dl a
  have o2 := up a
  have o3 := up (L a)
  have o4 := dr a
  have o5 := di a
  simp only [GoodF] at *
  clear hD hL hR hk hrk dr dl up di
  grind (splits := 40)

theorem spliceR_up (a : Nat) :
    a < 2048 → D' a ≠ 2048 →
      GoodF D' (D' a) ∧ kl' (D' a) = kl' a ∧ rank' (D' a) < rank' a ∧
      (R' (D' a) = a ∨ (D' a < 2048 ∧ L' (D' a) = a)) := by
  obtain ⟨dr, dl, up, di⟩ := t
  have s1 := up p hp hdp
  have s2 := dl p hp hdp
  have s3 := dr p (Or.inr ⟨hp, hdp⟩)
  have s4 := di p hp hdp
  have s5 := dr (D p) s1.1
  have s6 := dl (D p)
  have s7 := di (D p)
  have s8 := up q
  have s9 := up (D p)
  have i1 := hD a
  have i2 := hD (D' a)
  have i3 := hR (D' a)
  have i4 := hL (D' a)
  have i5 := hk (D' a)
  have i6 := hk a
  have i7 := hrk (D' a)
  have i8 := hrk a
  have o1 := up a
  have o2 := dr a
  have o3 := dl a
  have o4 := up (D a)
  simp only [GoodF] at *
  clear hD hL hR hk hrk dr dl up di
  grind (splits := 40)

theorem spliceR_distinct (a : Nat) :
    a < 2048 → D' a ≠ 2048 → L' a ≠ 2048 → L' a ≠ R' a := by
  obtain ⟨dr, dl, up, di⟩ := t
  have s1 := up p hp hdp
  have s2 := dl p hp hdp
  have s3 := dr p (Or.inr ⟨hp, hdp⟩)
  have s4 := di p hp hdp
  have s5 := dr (D p) s1.1
  have s6 := dl (D p)
  have s7 := di (D p)
  have s8 := up q
  have s9 := up (D p)
  have i1 := hD a
  have i2 := hL a
  have i3 := hR a
  have o1 := di a
  have o2 := dl a
  have o3 := dr a
  have o4 := up a
  simp only [GoodF] at *
  clear hD hL hR hk hrk dr dl up di
  grind (splits := 40)

theorem spliceR_inv : FInv D' L' R' kl' rank' :=
  ⟨spliceR_down_r t p q hp hdp hq hside D' L' R' kl' rank' hD hL hR hk hrk, spliceR_down_l t p q hp hdp hq hside D' L' R' kl' rank' hD hL hR hk hrk, spliceR_up t p q hp hdp hq hside D' L' R' kl' rank' hD hL hR hk hrk, spliceR_distinct t p q hp hdp hq hside D' L' R' kl' rank' hD hL hR hk hrk⟩

end spliceR

/-! ### … into the parent's LEFT slot -/

section spliceL
variable {D L R kl rank : Nat → Nat} (t : FInv D L R kl rank) (p q : Nat)
  (hp : p < 2048) (hdp : D p ≠ 2048)
  (hq : (R p = 2048 ∧ q = L p) ∨ (L p = 2048 ∧ q = R p)) (hside : R (D p) ≠ p)
  (D' L' R' kl' rank' : Nat → Nat)
  (hD : ∀ x, D' x = if x = p then 2048 else if x = q then D p else D x)
  (hL : ∀ x, L' x = if x = D p then q else L x)
  (hR : ∀ x, R' x = R x)
  (hk : ∀ x, kl' x = kl x)
  (hrk : ∀ x, rank' x = rank x)
include t hp hdp hq hside hD hL hR hk hrk

theorem spliceL_down_r (a : Nat) :
    GoodF D' a → R' a ≠ 2048 → R' a < 2048 ∧ D' (R' a) = a ∧ kl' (R' a) = kl' a := by
  obtain ⟨dr, dl, up, di⟩ := t
  have s1 := up p hp hdp
  have s2 := dl p hp hdp
  have s3 := dr p (Or.inr ⟨hp, hdp⟩)
  have s4 := di p hp hdp
  have s5 := dr (D p) s1.1
  have s6 := dl (D p)
  have s7 := di (D p)
  have s8 := up q
  have s9 := up (D p)
  have i1 := hR a
  have i2 := hD a
  have i3 := hD (R' a)
  have i4 := hk (R' a)
  have i5 := hk a
  have o1 := dr a
  have o2 := up a
  have o3 := up (R a)
  have o4 := dl a
  simp only [GoodF] at *
  clear hD hL hR hk hrk dr dl up di
  grind (splits := 40)

theorem spliceL_down_l (a : Nat) :
    a < 2048 → D' a ≠ 2048 → L' a ≠ 2048 → L' a < 2048 ∧ D' (L' a) = a ∧ kl' (L' a) = kl' a := by
  obtain ⟨dr, dl, up, di⟩ := t
  have s1 := up p hp hdp
  have s2 := dl p hp hdp
  have s3 := dr p (Or.inr ⟨hp, hdp⟩)
  have s4 := di p hp hdp
  have s5 := dr (D p) s1.1
  have s6 := dl (D p)
  have s7 := di (D p)
  have s8 := up q
  have s9 := up (D p)
  have i1 := hL a
  have i2 := hD a
  have i3 := hD (L' a)
  have i4 := hk (L' a)
  have i5 := hk a
  have o1 := dl a
  have o2 := up a
  have o3 := up (L a)
  have o4 := dr a
  have o5 := di a
  simp only [GoodF] at *
  clear hD hL hR hk hrk dr dl up di
  grind (splits := 40)

theorem spliceL_up (a : Nat) :
    a < 2048 → D' a ≠ 2048 →
      GoodF D' (D' a) ∧ kl' (D' a) = kl' a ∧ rank' (D' a) < rank' a ∧
      (R' (D' a) = a ∨ (D' a < 2048 ∧ L' (D' a) = a)) := by
  obtain ⟨dr, dl, up, di⟩ := t
  have s1 := up p hp hdp
  have s2 := dl p hp hdp
  have s3 := dr p (Or.inr ⟨hp, hdp⟩)
  have s4 := di p hp hdp
  have s5 := dr (D p) s1.1
  have s6 := dl (D p)
  have s7 := di (D p)
  have s8 := up q
  have s9 := up (D p)
  have i1 := hD a
  have i2 := hD (D' a)
  have i3 := hR (D' a)
  have i4 := hL (D' a)
  have i5 := hk (D' a)
  have i6 := hk a
  have i7 := hrk (D' a)
  have i8 := hrk a
  have o1 := up a
  have o2 := dr a
  have o3 := dl a
  have o4 := up (D a)
  simp only [GoodF] at *
  clear hD hL hR hk hrk dr dl up di
  grind (splits := 40)

theorem spliceL_distinct (a : Nat) :
    a < 2048 → D' a ≠ 2048 → L' a ≠ 2048 → L' a ≠ R' a := by
  obtain ⟨dr, dl, up, di⟩ := t
  have s1 := up p hp hdp
  have s2 := dl p hp hdp
  have s3 := dr p (Or.inr ⟨hp, hdp⟩)
  have s4 := di p hp hdp
  have s5 := dr (D p) s1.1
  have s6 := dl (D p)
  have s7 := di (D p)
  have s8 := up q
  have s9 := up (D p)
  have i1 := hD a
  have i2 := hL a
  have i3 := hR a
  have o1 := di a
  have o2 := dl a
  have o3 := dr a
  have o4 := up a
  simp only [GoodF] at *
  clear hD hL hR hk hrk dr dl up di
  grind (splits := 40)

theorem spliceL_inv : FInv D' L' R' kl' rank' :=
  ⟨spliceL_down_r t p q hp hdp hq hside D' L' R' kl' rank' hD hL hR hk hrk, spliceL_down_l t p q hp hdp hq hside D' L' R' kl' rank' hD hL hR hk hrk, spliceL_up t p q hp hdp hq hside D' L' R' kl' rank' hD hL hR hk hrk, spliceL_distinct t p q hp hdp hq hside D' L' R' kl' rank' hD hL hR hk hrk⟩

end spliceL

/-! ### the dead node `r` takes the place of `p` (`InsertNode` on a full-length match; second half of `DeleteNode`), parent's RIGHT slot -/

section replaceR
variable {D L R kl rank : Nat → Nat} (t : FInv D L R kl rank) (p r : Nat)
  (hp : p < 2048) (hdp : D p ≠ 2048) (hr : r < 2048) (hdr : D r = 2048) (hside : R (D p) = p)
  (D' L' R' kl' rank' : Nat → Nat)
  (hD : ∀ x, D' x = if x = p then 2048 else if x = R p then r else if x = L p then r else if x = r then D p else D x)
  (hL : ∀ x, L' x = if x = r then L p else L x)
  (hR : ∀ x, R' x = if x = D p then r else if x = r then R p else R x)
  (hk : ∀ x, kl' x = if x = r then kl p else kl x)
  (hrk : ∀ x, rank' x = if x = r then rank p else rank x)
include t hp hdp hr hdr hside hD hL hR hk hrk

theorem replaceR_down_r (a : Nat) :
    GoodF D' a → R' a ≠ 2048 → R' a < 2048 ∧ D' (R' a) = a ∧ kl' (R' a) = kl' a := by
  obtain ⟨dr, dl, up, di⟩ := t
  have s1 := up p hp hdp
  have s2 := dl p hp hdp
  have s3 := dr p (Or.inr ⟨hp, hdp⟩)
  have s4 := di p hp hdp
  have s5 := dr (D p) s1.1
  have s6 := dl (D p)
  have s7 := di (D p)
  have s8 := up (D p)
  have s9 := up (L p)
  have s10 := up (R p)
  have i1 := hR a
  have i2 := hD a
  have i3 := hD (R' a)
  have i4 := hk (R' a)
  have i5 := hk a
  have o1 := dr a
  have o2 := up a
  have o3 := up (R a)
  have o4 := dl a
  simp only [GoodF] at *
  clear hD hL hR hk hrk dr dl up di
  grind (splits := 40)

theorem replaceR_down_l (a : Nat) :
    a < 2048 → D' a ≠ 2048 → L' a ≠ 2048 → L' a < 2048 ∧ D' (L' a) = a ∧ kl' (L' a) = kl' a := by
  obtain ⟨dr, dl, up, di⟩ := t
  have s1 := up p hp hdp
  have s2 := dl p hp hdp
  have s3 := dr p (Or.inr ⟨hp, hdp⟩)
  have s4 := di p hp hdp
  have s5 := dr (D p) s1.1
  have s6 := dl (D p)
  have s7 := di (D p)
  have s8 := up (D p)
  have s9 := up (L p)
  have s10 := up (R p)
  have i1 := hL a
  have i2 := hD a
  have i3 := hD (L' a)
  have i4 := hk (L' a)
  have i5 := hk a
  have o1 := dl a
  have o2 := up a
  have o3 := up (L a)
  have o4 := dr a
  have o5 := di a
  simp only [GoodF] at *
  clear hD hL hR hk hrk dr dl up di
  grind (splits := 40)

theorem replaceR_up (a : Nat) :
    a < 2048 → D' a ≠ 2048 →
      GoodF D' (D' a) ∧ kl' (D' a) = kl' a ∧ rank' (D' a) < rank' a ∧
      (R' (D' a) = a ∨ (D' a < 2048 ∧ L' (D' a) = a)) := by
  obtain ⟨dr, dl, up, di⟩ := t
  have s1 := up p hp hdp
  have s2 := dl p hp hdp
  have s3 := dr p (Or.inr ⟨hp, hdp⟩)
  have s4 := di p hp hdp
  have s5 := dr (D p) s1.1
  have s6 := dl (D p)
  have s7 := di (D p)
  have s8 := up (D p)
  have s9 := up (L p)
  have s10 := up (R p)
  have i1 := hD a
  have i2 := hD (D' a)
  have i3 := hR (D' a)
  have i4 := hL (D' a)
  have i5 := hk (D' a)
  have i6 := hk a
  have i7 := hrk (D' a)
  have i8 := hrk a
  have o1 := up a
  have o2 := dr a
  have o3 := dl a
  have o4 := up (D a)
  simp only [GoodF] at *
  clear hD hL hR hk hrk dr dl up di
  grind (splits := 40)

theorem replaceR_distinct (a : Nat) :
    a < 2048 → D' a ≠ 2048 → L' a ≠ 2048 → L' a ≠ R' a := by
  obtain ⟨dr, dl, up, di⟩ := t
  have s1 := up p hp hdp
  have s2 := dl p hp hdp
  have s3 := dr p (Or.inr ⟨hp, hdp⟩)
  have s4 := di p hp hdp
  have s5 := dr (D p) s1.1
  have s6 := dl (D p)
  have s7 := di (D p)
  have s8 := up (D p)
  have s9 := up (L p)
  have s10 := up (R p)
  have i1 := hD a
  have i2 := hL a
  have i3 := hR a
  have o1 := di a
  have o2 := dl a
  have o3 := dr a
  have o4 := up a
  simp only [GoodF] at *
  clear hD hL hR hk hrk dr dl up di
  grind (splits := 40)

theorem replaceR_inv : FInv D' L' R' kl' rank' :=
  ⟨replaceR_down_r t p r hp hdp hr hdr hside D' L' R' kl' rank' hD hL hR hk hrk, replaceR_down_l t p r hp hdp hr hdr hside D' L' R' kl' rank' hD hL hR hk hrk, replaceR_up t p r hp hdp hr hdr hside D' L' R' kl' rank' hD hL hR hk hrk, replaceR_distinct t p r hp hdp hr hdr hside D' L' R' kl' rank' hD hL hR hk hrk⟩

end replaceR

/-! ### … parent's LEFT slot -/

section replaceL
variable {D L R kl rank : Nat → Nat} (t : FInv D L R kl rank) (p r : Nat)
  (hp : p < 2048) (hdp : D p ≠ 2048) (hr : r < 2048) (hdr : D r = 2048) (hside : R (D p) ≠ p)
  (D' L' R' kl' rank' : Nat → Nat)
  (hD : ∀ x, D' x = if x = p then 2048 else if x = R p then r else if x = L p then r else if x = r then D p else D x)
  (hL : ∀ x, L' x = if x = D p then r else if x = r then L p else L x)
  (hR : ∀ x, R' x = if x = r then R p else R x)
  (hk : ∀ x, kl' x = if x = r then kl p else kl x)
  (hrk : ∀ x, rank' x = if x = r then rank p else rank x)
include t hp hdp hr hdr hside hD hL hR hk hrk

theorem replaceL_down_r (a : Nat) :
    GoodF D' a → R' a ≠ 2048 → R' a < 2048 ∧ D' (R' a) = a ∧ kl' (R' a) = kl' a := by
  obtain ⟨dr, dl, up, di⟩ := t
  have s1 := up p hp hdp
  have s2 := dl p hp hdp
  have s3 := dr p (Or.inr ⟨hp, hdp⟩)
  have s4 := di p hp hdp
  have s5 := dr (D p) s1.1
  have s6 := dl (D p)
  have s7 := di (D p)
  have s8 := up (D p)
  have s9 := up (L p)
  have s10 := up (R p)
  have i1 := hR a
  have i2 := hD a
  have i3 := hD (R' a)
  have i4 := hk (R' a)
  have i5 := hk a
  have o1 := dr a
  have o2 := up a
  have o3 := up (R a)
  have o4 := dl a
  simp only [GoodF] at *
  clear hD hL hR hk hrk dr dl up di
  grind (splits := 40)

theorem replaceL_down_l (a : Nat) :
    a < 2048 → D' a ≠ 2048 → L' a ≠ 2048 → L' a < 2048 ∧ D' (L' a) = a ∧ kl' (L' a) = kl' a := by
  obtain ⟨dr, dl, up, di⟩ := t
  have s1 := up p hp hdp
  have s2 := dl p hp hdp
  have s3 := dr p (Or.inr ⟨hp, hdp⟩)
  have s4 := di p hp hdp
  have s5 := dr (D p) s1.1
  have s6 := dl (D p)
  have s7 := di (D p)
  have s8 := up (D p)
  have s9 := up (L p)
  have s10 := up (R p)
  have i1 := hL a
  have i2 := hD a
  have i3 := hD (L' a)
  have i4 := hk (L' a)
  have i5 := hk a
  have o1 := dl a
  have o2 := up a
  have o3 := up (L a)
  have o4 := dr a
  have o5 := di a
  simp only [GoodF] at *
  clear hD hL hR hk hrk dr dl up di
  grind (splits := 40)

theorem replaceL_up (a : Nat) :
    a < 2048 → D' a ≠ 2048 →
      GoodF D' (D' a) ∧ kl' (D' a) = kl' a ∧ rank' (D' a) < rank' a ∧
      (R' (D' a) = a ∨ (D' a < 2048 ∧ L' (D' a) = a)) := by
  obtain ⟨dr, dl, up, di⟩ := t
  have s1 := up p hp hdp
  have s2 := dl p hp hdp
  have s3 := dr p (Or.inr ⟨hp, hdp⟩)
  have s4 := di p hp hdp
  have s5 := dr (D p) s1.1
  have s6 := dl (D p)
  have s7 := di (D p)
  have s8 := up (D p)
  have s9 := up (L p)
  have s10 := up (R p)
  have i1 := hD a
  have i2 := hD (D' a)
  have i3 := hR (D' a)
  have i4 := hL (D' a)
  have i5 := hk (D' a)
  have i6 := hk a
  have i7 := hrk (D' a)
  have i8 := hrk a
  have o1 := up a
  have o2 := dr a
  have o3 := dl a
  have o4 := up (D a)
  simp only [GoodF] at *
  clear hD hL hR hk hrk dr dl up di
  grind (splits := 40)

theorem replaceL_distinct (a : Nat) :
    a < 2048 → D' a ≠ 2048 → L' a ≠ 2048 → L' a ≠ R' a := by
  obtain ⟨dr, dl, up, di⟩ := t
  have s1 := up p hp hdp
  have s2 := dl p hp hdp
  have s3 := dr p (Or.inr ⟨hp, hdp⟩)
  have s4 := di p hp hdp
  have s5 := dr (D p) s1.1
  have s6 := dl (D p)
  have s7 := di (D p)
  have s8 := up (D p)
  have s9 := up (L p)
  have s10 := up (R p)
  have i1 := hD a
  have i2 := hL a
  have i3 := hR a
  have o1 := di a
  have o2 := dl a
  have o3 := dr a
  have o4 := up a
  simp only [GoodF] at *
  clear hD hL hR hk hrk dr dl up di
  grind (splits := 40)

theorem replaceL_inv : FInv D' L' R' kl' rank' :=
  ⟨replaceL_down_r t p r hp hdp hr hdr hside D' L' R' kl' rank' hD hL hR hk hrk, replaceL_down_l t p r hp hdp hr hdr hside D' L' R' kl' rank' hD hL hR hk hrk, replaceL_up t p r hp hdp hr hdr hside D' L' R' kl' rank' hD hL hR hk hrk, replaceL_distinct t p r hp hdp hr hdr hside D' L' R' kl' rank' hD hL hR hk hrk⟩

end replaceL

/-! ### `DeleteNode`, two children, and the left child `L p` has no right child: it takes the place of `p`; parent's RIGHT slot -/

section promoteR
variable {D L R kl rank : Nat → Nat} (t : FInv D L R kl rank) (p : Nat)
  (hp : p < 2048) (hdp : D p ≠ 2048) (hlp : L p ≠ 2048) (hrp : R p ≠ 2048) (hrq : R (L p) = 2048) (hside : R (D p) = p)
  (D' L' R' kl' rank' : Nat → Nat)
  (hD : ∀ x, D' x = if x = p then 2048 else if x = L p then D p else if x = R p then L p else D x)
  (hL : ∀ x, L' x = L x)
  (hR : ∀ x, R' x = if x = D p then L p else if x = L p then R p else R x)
  (hk : ∀ x, kl' x = kl x)
  (hrk : ∀ x, rank' x = if x = L p then rank p else rank x)
include t hp hdp hlp hrp hrq hside hD hL hR hk hrk

theorem promoteR_down_r (a : Nat) :
    GoodF D' a → R' a ≠ 2048 → R' a < 2048 ∧ D' (R' a) = a ∧ kl' (R' a) = kl' a := by
  obtain ⟨dr, dl, up, di⟩ := t
  have s1 := up p hp hdp
  have s2 := dl p hp hdp hlp
  have s3 := dr p (Or.inr ⟨hp, hdp⟩) hrp
  have s4 := di p hp hdp hlp
  have s5 := dr (D p) s1.1
  have s6 := dl (D p)
  have s7 := di (D p)
  have s8 := up (D p)
  have s9 := up (L p) s2.1
  have s10 := dl (L p) s2.1
  have s11 := up (R p) s3.1
  have s12 := di (L p) s2.1
  have i1 := hR a
  have i2 := hD a
  have i3 := hD (R' a)
  have i4 := hk (R' a)
  have i5 := hk a
  have o1 := dr a
  have o2 := up a
  have o3 := up (R a)
  have o4 := dl a
  simp only [GoodF] at *
  clear hD hL hR hk hrk dr dl up di
  grind (splits := 40)

theorem promoteR_down_l (a : Nat) :
    a < 2048 → D' a ≠ 2048 → L' a ≠ 2048 → L' a < 2048 ∧ D' (L' a) = a ∧ kl' (L' a) = kl' a := by
  obtain ⟨dr, dl, up, di⟩ := t
  have s1 := up p hp hdp
  have s2 := dl p hp hdp hlp
  have s3 := dr p (Or.inr ⟨hp, hdp⟩) hrp
  have s4 := di p hp hdp hlp
  have s5 := dr (D p) s1.1
  have s6 := dl (D p)
  have s7 := di (D p)
  have s8 := up (D p)
  have s9 := up (L p) s2.1
  have s10 := dl (L p) s2.1
  have s11 := up (R p) s3.1
  have s12 := di (L p) s2.1
  have i1 := hL a
  have i2 := hD a
  have i3 := hD (L' a)
  have i4 := hk (L' a)
  have i5 := hk a
  have o1 := dl a
  have o2 := up a
  have o3 := up (L a)
  have o4 := dr a
  have o5 := di a
  simp only [GoodF] at *
  clear hD hL hR hk hrk dr dl up di
  grind (splits := 40)

theorem promoteR_up (a : Nat) :
    a < 2048 → D' a ≠ 2048 →
      GoodF D' (D' a) ∧ kl' (D' a) = kl' a ∧ rank' (D' a) < rank' a ∧
      (R' (D' a) = a ∨ (D' a < 2048 ∧ L' (D' a) = a)) := by
  obtain ⟨dr, dl, up, di⟩ := t
  have s1 := up p hp hdp
  have s2 := dl p hp hdp hlp
  have s3 := dr p (Or.inr ⟨hp, hdp⟩) hrp
  have s4 := di p hp hdp hlp
  have s5 := dr (D p) s1.1
  have s6 := dl (D p)
  have s7 := di (D p)
  have s8 := up (D p)
  have s9 := up (L p) s2.1
  have s10 := dl (L p) s2.1
  have s11 := up (R p) s3.1
  have s12 := di (L p) s2.1
  have i1 := hD a
  have i2 := hD (D' a)
  have i3 := hR (D' a)
  have i4 := hL (D' a)
  have i5 := hk (D' a)
  have i6 := hk a
  have i7 := hrk (D' a)
  have i8 := hrk a
  have o1 := up a
  have o2 := dr a
  have o3 := dl a
  have o4 := up (D a)
  simp only [GoodF] at *
  clear hD hL hR hk hrk dr dl up di
  grind (splits := 40)

theorem promoteR_distinct (a : Nat) :
    a < 2048 → D' a ≠ 2048 → L' a ≠ 2048 → L' a ≠ R' a := by
  obtain ⟨dr, dl, up, di⟩ := t
  have s1 := up p hp hdp
  have s2 := dl p hp hdp hlp
  have s3 := dr p (Or.inr ⟨hp, hdp⟩) hrp
  have s4 := di p hp hdp hlp
  have s5 := dr (D p) s1.1
  have s6 := dl (D p)
  have s7 := di (D p)
  have s8 := up (D p)
  have s9 := up (L p) s2.1
  have s10 := dl (L p) s2.1
  have s11 := up (R p) s3.1
  have s12 := di (L p) s2.1
  have i1 := hD a
  have i2 := hL a
  have i3 := hR a
  have o1 := di a
  have o2 := dl a
  have o3 := dr a
  have o4 := up a
  simp only [GoodF] at *
  clear hD hL hR hk hrk dr dl up di
  grind (splits := 40)

theorem promoteR_inv : FInv D' L' R' kl' rank' :=
  ⟨promoteR_down_r t p hp hdp hlp hrp hrq hside D' L' R' kl' rank' hD hL hR hk hrk, promoteR_down_l t p hp hdp hlp hrp hrq hside D' L' R' kl' rank' hD hL hR hk hrk, promoteR_up t p hp hdp hlp hrp hrq hside D' L' R' kl' rank' hD hL hR hk hrk, promoteR_distinct t p hp hdp hlp hrp hrq hside D' L' R' kl' rank' hD hL hR hk hrk⟩

end promoteR

/-! ### … parent's LEFT slot -/

section promoteL
variable {D L R kl rank : Nat → Nat} (t : FInv D L R kl rank) (p : Nat)
  (hp : p < 2048) (hdp : D p ≠ 2048) (hlp : L p ≠ 2048) (hrp : R p ≠ 2048) (hrq : R (L p) = 2048) (hside : R (D p) ≠ p)
  (D' L' R' kl' rank' : Nat → Nat)
  (hD : ∀ x, D' x = if x = p then 2048 else if x = L p then D p else if x = R p then L p else D x)
  (hL : ∀ x, L' x = if x = D p then L p else L x)
  (hR : ∀ x, R' x = if x = L p then R p else R x)
  (hk : ∀ x, kl' x = kl x)
  (hrk : ∀ x, rank' x = if x = L p then rank p else rank x)
include t hp hdp hlp hrp hrq hside hD hL hR hk hrk

theorem promoteL_down_r (a : Nat) :
    GoodF D' a → R' a ≠ 2048 → R' a < 2048 ∧ D' (R' a) = a ∧ kl' (R' a) = kl' a := by
  obtain ⟨dr, dl, up, di⟩ := t
  have s1 := up p hp hdp
  have s2 := dl p hp hdp hlp
  have s3 := dr p (Or.inr ⟨hp, hdp⟩) hrp
  have s4 := di p hp hdp hlp
  have s5 := dr (D p) s1.1
  have s6 := dl (D p)
  have s7 := di (D p)
  have s8 := up (D p)
  have s9 := up (L p) s2.1
  have s10 := dl (L p) s2.1
  have s11 := up (R p) s3.1
  have s12 := di (L p) s2.1
  have i1 := hR a
  have i2 := hD a
  have i3 := hD (R' a)
  have i4 := hk (R' a)
  have i5 := hk a
  have o1 := dr a
  have o2 := up a
  have o3 := up (R a)
  have o4 := dl a
  simp only [GoodF] at *
  clear hD hL hR hk hrk dr dl up di
  grind (splits := 40)

theorem promoteL_down_l (a : Nat) :
    a < 2048 → D' a ≠ 2048 → L' a ≠ 2048 → L' a < 2048 ∧ D' (L' a) = a ∧ kl' (L' a) = kl' a := by
  obtain ⟨dr, dl, up, di⟩ := t
  have s1 := up p hp hdp
  have s2 := dl p hp hdp hlp
  have s3 := dr p (Or.inr ⟨hp, hdp⟩) hrp
  have s4 := di p hp hdp hlp
  have s5 := dr (D p) s1.1
  have s6 := dl (D p)
  have s7 := di (D p)
  have s8 := up (D p)
  have s9 := up (L p) s2.1
  have s10 := dl (L p) s2.1
  have s11 := up (R p) s3.1
  have s12 := di (L p) s2.1
  have i1 := hL a
  have i2 := hD a
  have i3 := hD (L' a)
  have i4 := hk (L' a)
  have i5 := hk a
  have o1 := dl a
  have o2 := up a
  have o3 := up (L a)
  have o4 := dr a
  have o5 := di a
  simp only [GoodF] at *
  clear hD hL hR hk hrk dr dl up di
  grind (splits := 40)

theorem promoteL_up (a : Nat) :
    a < 2048 → D' a ≠ 2048 →
      GoodF D' (D' a) ∧ kl' (D' a) = kl' a ∧ rank' (D' a) < rank' a ∧
      (R' (D' a) = a ∨ (D' a < 2048 ∧ L' (D' a) = a)) := by
  obtain ⟨dr, dl, up, di⟩ := t
  have s1 := up p hp hdp
  have s2 := dl p hp hdp hlp
  have s3 := dr p (Or.inr ⟨hp, hdp⟩) hrp
  have s4 := di p hp hdp hlp
  have s5 := dr (D p) s1.1
  have s6 := dl (D p)
  have s7 := di (D p)
  have s8 := up (D p)
  have s9 := up (L p) s2.1
  have s10 := dl (L p) s2.1
  have s11 := up (R p) s3.1
  have s12 := di (L p) s2.1
  have i1 := hD a
  have i2 := hD (D' a)
  have i3 := hR (D' a)
  have i4 := hL (D' a)
  have i5 := hk (D' a)
  have i6 := hk a
  have i7 := hrk (D' a)
  have i8 := hrk a
  have o1 := up a
  have o2 := dr a
  have o3 := dl a
  have o4 := up (D a)
  simp only [GoodF] at *
  clear hD hL hR hk hrk dr dl up di
  grind (splits := 40)

theorem promoteL_distinct (a : Nat) :
    a < 2048 → D' a ≠ 2048 → L' a ≠ 2048 → L' a ≠ R' a := by
  obtain ⟨dr, dl, up, di⟩ := t
  have s1 := up p hp hdp
  have s2 := dl p hp hdp hlp
  have s3 := dr p (Or.inr ⟨hp, hdp⟩) hrp
  have s4 := di p hp hdp hlp
  have s5 := dr (D p) s1.1
  have s6 := dl (D p)
  have s7 := di (D p)
  have s8 := up (D p)
  have s9 := up (L p) s2.1
  have s10 := dl (L p) s2.1
  have s11 := up (R p) s3.1
  have s12 := di (L p) s2.1
  have i1 := hD a
  have i2 := hL a
  have i3 := hR a
  have o1 := di a
  have o2 := dl a
  have o3 := dr a
  have o4 := up a
  simp only [GoodF] at *
  clear hD hL hR hk hrk dr dl up di
  grind (splits := 40)

theorem promoteL_inv : FInv D' L' R' kl' rank' :=
  ⟨promoteL_down_r t p hp hdp hlp hrp hrq hside D' L' R' kl' rank' hD hL hR hk hrk, promoteL_down_l t p hp hdp hlp hrp hrq hside D' L' R' kl' rank' hD hL hR hk hrk, promoteL_up t p hp hdp hlp hrp hrq hside D' L' R' kl' rank' hD hL hR hk hrk, promoteL_distinct t p hp hdp hlp hrp hrq hside D' L' R' kl' rank' hD hL hR hk hrk⟩

end promoteL


/-! ### `DeleteNode`, two children, the left child has a right child: the rightmost node `q` of the left
subtree is spliced out and then takes the place of `p` -/

section caseD
variable {D L R kl rank : Nat → Nat} (t : FInv D L R kl rank) (p q : Nat)
  (hp : p < 2048) (hdp : D p ≠ 2048) (hlp : L p ≠ 2048) (hrp : R p ≠ 2048)
  (hq : q < 2048) (hdq : D q ≠ 2048) (hrq : R q = 2048) (hdq2 : D q < 2048) (hddq : D (D q) ≠ 2048)
  (hrdq : R (D q) = q) (hrank : rank p < rank (D q)) (hkl : kl q = kl p)
  (D' L' R' rank' : Nat → Nat)
  (hD : ∀ x, D' x = if x = p then 2048 else if x = q then D p else if x = R p then q else if x = L p then q
    else if x = L q then D q else D x)
  (hrk : ∀ x, rank' x = if x = q then rank p else rank x)
include t hp hdp hlp hrp hq hdq hrq hdq2 hddq hrdq hrank hkl hD hrk

theorem caseD_R_inv (hside : R (D p) = p)
    (hL : ∀ x, L' x = if x = q then L p else L x)
    (hR : ∀ x, R' x = if x = D p then q else if x = q then R p else if x = D q then L q else R x) :
    FInv D' L' R' kl rank' := by
  -- step 1: splice `q` out
  have t1 : FInv (fun x => if x = q then 2048 else if x = L q then D q else D x) L
      (fun x => if x = D q then L q else R x) kl rank :=
    spliceR_inv t q (L q) hq hdq (Or.inl ⟨hrq, rfl⟩) hrdq _ _ _ _ _ (fun _ => rfl) (fun _ => rfl) (fun _ => rfl)
      (fun _ => rfl) (fun _ => rfl)
  obtain ⟨dr, dl, up, di⟩ := t
  have s1 := up p hp hdp
  have s2 := dl p hp hdp hlp
  have s3 := dr p (Or.inr ⟨hp, hdp⟩) hrp
  have s4 := up q hq hdq
  have s5 := dl q hq hdq
  have s6 := up (D q) hdq2 hddq
  have s7 := up (D p)
  -- step 2: `q` (now dead) replaces `p`
  have e1 : (if p = q then 2048 else if p = L q then D q else D p) = D p := by
    simp only [GoodF] at *; grind
  have e2 : (if p = D q then L q else R p) = R p := by
    simp only [GoodF] at *; grind
  have e3 : (if D p = D q then L q else R (D p)) = p := by
    simp only [GoodF] at *; grind
  refine replaceR_inv t1 p q hp (by show (if p = q then 2048 else if p = L q then D q else D p) ≠ 2048; rw [e1]; exact hdp) hq (by simp)
    (by show (if (if p = q then 2048 else if p = L q then D q else D p) = D q then L q else R (if p = q then 2048 else if p = L q then D q else D p)) = p; rw [e1, e3]) D' L' R' kl rank' ?_ ?_ ?_ ?_ ?_
  · intro x
    have := hD x
    simp only [e1, e2]
    simp only [GoodF] at *
    clear dr dl up di hD hL hR hrk t1
    grind (splits := 40)
  · intro x; exact hL x
  · intro x
    have := hR x
    simp only [e1, e2]
    simp only [GoodF] at *
    clear dr dl up di hD hL hR hrk t1
    grind (splits := 40)
  · intro x
    by_cases h : x = q
    · rw [if_pos h, h, hkl]
    · rw [if_neg h]
  · intro x; exact hrk x

theorem caseD_L_inv (hside : R (D p) ≠ p)
    (hL : ∀ x, L' x = if x = D p then q else if x = q then L p else L x)
    (hR : ∀ x, R' x = if x = q then R p else if x = D q then L q else R x) :
    FInv D' L' R' kl rank' := by
  -- step 1: splice `q` out
  have t1 : FInv (fun x => if x = q then 2048 else if x = L q then D q else D x) L
      (fun x => if x = D q then L q else R x) kl rank :=
    spliceR_inv t q (L q) hq hdq (Or.inl ⟨hrq, rfl⟩) hrdq _ _ _ _ _ (fun _ => rfl) (fun _ => rfl) (fun _ => rfl)
      (fun _ => rfl) (fun _ => rfl)
  obtain ⟨dr, dl, up, di⟩ := t
  have s1 := up p hp hdp
  have s2 := dl p hp hdp hlp
  have s3 := dr p (Or.inr ⟨hp, hdp⟩) hrp
  have s4 := up q hq hdq
  have s5 := dl q hq hdq
  have s6 := up (D q) hdq2 hddq
  have s7 := up (D p)
  -- step 2: `q` (now dead) replaces `p`
  have e1 : (if p = q then 2048 else if p = L q then D q else D p) = D p := by
    simp only [GoodF] at *; grind
  have e2 : (if p = D q then L q else R p) = R p := by
    simp only [GoodF] at *; grind
  have e3 : (if D p = D q then L q else R (D p)) ≠ p := by
    simp only [GoodF] at *; grind
  refine replaceL_inv t1 p q hp (by show (if p = q then 2048 else if p = L q then D q else D p) ≠ 2048; rw [e1]; exact hdp) hq (by simp)
    (by show (if (if p = q then 2048 else if p = L q then D q else D p) = D q then L q else R (if p = q then 2048 else if p = L q then D q else D p)) ≠ p; rw [e1]; exact e3) D' L' R' kl rank' ?_ ?_ ?_ ?_ ?_
  · intro x
    have := hD x
    simp only [e1, e2]
    simp only [GoodF] at *
    clear dr dl up di hD hL hR hrk t1
    grind (splits := 40)
  · intro x
    have := hL x
    simp only [e1]
    exact this
  · intro x
    have := hR x
    simp only [e2]
    simp only [GoodF] at *
    clear dr dl up di hD hL hR hrk t1
    grind (splits := 40)
  · intro x
    by_cases h : x = q
    · rw [if_pos h, h, hkl]
    · rw [if_neg h]
  · intro x; exact hrk x

end caseD
end Wl2k.Forest
